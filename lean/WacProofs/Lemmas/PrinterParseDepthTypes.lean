import WacProofs.Lemmas.PrinterParseDepthBase
/-
  C13, nesting limit of the printed tokens: types (`parseType`, by induction on the fuel), named
  types, result lists, function types.  `result<_>`, `result<_, _>` are printed as `result` and
  `result<t, _>` as `result<t>`: fewer brackets than were consumed.
-/
namespace Wac.Lemmas.PrinterDepth
open Wac Wac.Ast Wac.Lex Wac.Parse Wac.PrintTok

theorem tys_nil (first : Bool) : tys first [] = [] := by rfl
theorem tys_cons (first : Bool) (t : Ty) (r : List Ty) :
    tys first (t :: r) = (if first then [] else [comma]) ++ ty t ++ tys false r := by rfl
theorem ty_Tuple (ts : List Ty) (sp : Span) :
    ty (.Tuple ts sp) = kw .TupleKeyword "tuple" :: oangle :: (tys true ts ++ [cangle]) := by rfl
theorem ty_List (t : Ty) (sp : Span) :
    ty (.List t sp) = kw .ListKeyword "list" :: oangle :: (ty t ++ [cangle]) := by rfl
theorem ty_Option (t : Ty) (sp : Span) :
    ty (.Option t sp) = kw .OptionKeyword "option" :: oangle :: (ty t ++ [cangle]) := by rfl
theorem ty_Result_nn (sp : Span) : ty (.Result none none sp) = [kw .ResultKeyword "result"] := by rfl
theorem ty_Result_ns (e : Ty) (sp : Span) : ty (.Result none (some e) sp) =
    kw .ResultKeyword "result" :: oangle :: kw .Underscore "_" :: comma :: (ty e ++ [cangle]) := by rfl
theorem ty_Result_sn (o : Ty) (sp : Span) : ty (.Result (some o) none sp) =
    kw .ResultKeyword "result" :: oangle :: (ty o ++ [cangle]) := by rfl
theorem ty_Result_ss (o e : Ty) (sp : Span) : ty (.Result (some o) (some e) sp) =
    kw .ResultKeyword "result" :: oangle :: (ty o ++ comma :: (ty e ++ [cangle])) := by rfl

/-- the element types of a tuple, separated by commas -/
theorem Steps_tys {d : Nat} : ∀ (ts : List Ty) (first : Bool),
    (∀ t ∈ ts, Steps d (ty t) d) → Steps d (tys first ts) d := by
  intro ts
  induction ts with
  | nil => intro first _; rw [tys_nil]; exact Steps.nil
  | cons t r ih =>
    intro first h
    rw [tys_cons]
    have h1 := h t (List.mem_cons_self ..)
    have h2 := ih false (fun x hx => h x (List.mem_cons_of_mem _ hx))
    cases first
    · show Steps d ([comma] ++ ty t ++ tys false r) d
      steps
    · show Steps d ([] ++ ty t ++ tys false r) d
      steps

theorem Steps_namedTypes {d : Nat} : ∀ (ns : List NamedType) (first : Bool),
    (∀ n ∈ ns, Steps d (ty n.ty) d) → Steps d (namedTypes first ns) d := by
  intro ns
  induction ns with
  | nil => intro first _; exact Steps.nil
  | cons n r ih =>
    intro first h
    have h1 := h n (List.mem_cons_self ..)
    have h2 := ih false (fun x hx => h x (List.mem_cons_of_mem _ hx))
    cases first
    · show Steps d ([comma] ++ ident n.id :: colon :: ty n.ty ++ namedTypes false r) d
      steps
    · show Steps d ([] ++ ident n.id :: colon :: ty n.ty ++ namedTypes false r) d
      steps

theorem prim_post {st : PState} {d : Nat} {k : Token} (hp : peekTok st = some k)
    (hk : isOpenBracket k = false ∧ isCloseBracket k = false) (hd : st.depth = d)
    (mk : Span → Ty) (hmk : ∀ sp, Steps d (ty (mk sp)) d) :
    Post (match st.next with
      | (some t, st') => (.ok (mk t.span, st') : PR Ty)
      | (none, _) => .error (.Panic "Type: next().unwrap()")) (Bal d ty) := by
  have hn := next_depth_nb hp hk
  revert hn
  cases st.next with
  | mk o st' =>
    intro hn
    cases o with
    | none => exact Post_error
    | some t => exact Post_ok ⟨by rw [← hd]; exact hn, hmk _⟩

/-- `_` or a type (the two positions of `result<…>`) -/
theorem underscoreOrType_post (fuel : Nat)
    (ih : ∀ {st : PState} {d : Nat}, st.depth = d → Post (parseType fuel st) (Bal d ty))
    {st : PState} {d : Nat} (hd : st.depth = d) :
    Post (if peekIs st .Underscore then (.ok (none, st.next.2) : PR (Option Ty))
      else if peekIn st typePeeks then do
        let (t, st) ← parseType fuel st
        .ok (some t, st)
      else .error (lookaheadError st (.Underscore :: typePeeks)))
      (fun o st' => st'.depth = d ∧ ∀ t, o = some t → Steps d (ty t) d) := by
  split
  · rename_i hp
    exact Post_ok ⟨by rw [next_depth_nb (peekIs_peekTok hp), hd], fun t h => by cases h⟩
  · split
    · pbind ih hd => t st1 ⟨hd1, hs1⟩
      exact Post_ok ⟨hd1, fun t' h => by cases h; exact hs1⟩
    · exact Post_error

theorem parseType_dp : ∀ (fuel : Nat) {st : PState} {d : Nat}, st.depth = d →
    Post (parseType fuel st) (Bal d ty) := by
  intro fuel
  induction fuel with
  | zero => intro st d _; unfold parseType; exact Post_error
  | succ fuel ih =>
    intro st d hd
    unfold parseType
    dsimp only
    split
    iterate 13 exact prim_post (by assumption) (by decide) hd _ (fun _ => by steps)
    · -- tuple
      pbind parseToken_nb hd => kw st1 hd1
      pbind parseToken_op hd1 => _ st2 ⟨hd2, htd⟩
      split
      · exact Post_error
      · pbind parseDelimited_post _ _ _ (fun _ h => ih h) fuel hd2 => ts st3 ⟨hd3, hts⟩
        split
        · exact Post_error
        · pbind parseToken_cl hd3 => close st4 hd4
          refine Post_ok ⟨hd4, ?_⟩
          rw [ty_Tuple]
          have := Steps_tys ts true hts
          steps
    · pbind parseToken_nb hd => kw st1 hd1
      pbind parseToken_op hd1 => _ st2 ⟨hd2, htd⟩
      pbind ih hd2 => t st3 ⟨hd3, ht⟩
      pbind parseToken_cl hd3 => close st4 hd4
      refine Post_ok ⟨hd4, ?_⟩
      rw [ty_List]; steps
    · pbind parseToken_nb hd => kw st1 hd1
      pbind parseToken_op hd1 => _ st2 ⟨hd2, htd⟩
      pbind ih hd2 => t st3 ⟨hd3, ht⟩
      pbind parseToken_cl hd3 => close st4 hd4
      refine Post_ok ⟨hd4, ?_⟩
      rw [ty_Option]; steps
    · -- result
      pbind parseToken_nb hd => kw st1 hd1
      refine Post_bind (parseOptional_post (P := fun (r : Option (Option Ty × Option Ty × Span)) st' =>
          st'.depth = d ∧ ∀ ok err sp, r = some (ok, err, sp) → tooDeep (d + 1) = false ∧
            (∀ t, ok = some t → Steps (d + 1) (ty t) (d + 1)) ∧
            (∀ t, err = some t → Steps (d + 1) (ty t) (d + 1))) ?_ ?_) ?_
      · exact ⟨hd1, fun _ _ _ h => by cases h⟩
      · intro _ sa hsa
        obtain ⟨hda, htd⟩ := parseToken_op hd1 (by decide) _ sa hsa
        pbind underscoreOrType_post fuel ih hda => ok sb ⟨hdb, hok⟩
        refine Post_bind (parseOptional_post (P := fun (r : Option (Option Ty)) st' =>
            st'.depth = d + 1 ∧ ∀ t, r.getD none = some t → Steps (d + 1) (ty t) (d + 1)) ?_ ?_) ?_
        · exact ⟨hdb, fun _ h => by cases h⟩
        · intro _ sc hsc
          have hdc := parseToken_nb hdb (by decide) _ sc hsc
          exact underscoreOrType_post fuel ih hdc
        · rintro err sc ⟨hdc, herr⟩
          dsimp only
          pbind parseToken_cl hdc => close sd hdd
          refine Post_ok ⟨hdd, ?_⟩
          intro ok' err' sp' h
          cases h
          exact ⟨htd, hok, herr⟩
      · rintro r st2 ⟨hd2, hr⟩
        dsimp only
        split
        · rename_i ok err span
          obtain ⟨htd, h1, h2⟩ := hr ok err span rfl
          refine Post_ok ⟨hd2, ?_⟩
          cases ok with
          | none =>
            cases err with
            | none => rw [ty_Result_nn]; steps
            | some e => have := h2 e rfl; rw [ty_Result_ns]; steps
          | some o =>
            have := h1 o rfl
            cases err with
            | none => rw [ty_Result_sn]; steps
            | some e => have := h2 e rfl; rw [ty_Result_ss]; steps
        · refine Post_ok ⟨hd2, ?_⟩
          rw [ty_Result_nn]; steps
    · pbind parseToken_nb hd => kw st1 hd1
      pbind parseToken_op hd1 => _ st2 ⟨hd2, htd⟩
      pbind parseIdent_post hd2 => id st3 hd3
      pbind parseToken_cl hd3 => close st4 hd4
      refine Post_ok ⟨hd4, ?_⟩
      steps
    · pbind parseIdent_post hd => id st3 hd3
      refine Post_ok ⟨hd3, ?_⟩
      steps
    · exact Post_error

theorem parseNamedType_dp (fuel : Nat) {st : PState} {d : Nat} (hd : st.depth = d) :
    Post (parseNamedType fuel st) (fun n st' => st'.depth = d ∧ Steps d (ty n.ty) d) := by
  unfold parseNamedType
  pbind parseIdent_post hd => id st1 hd1
  pbind parseToken_nb hd1 => _ st2 hd2
  pbind parseType_dp fuel hd2 => t st3 ⟨hd3, ht⟩
  exact Post_ok ⟨hd3, ht⟩

theorem parseResultList_dp (fuel : Nat) {st : PState} {d : Nat} (hd : st.depth = d) :
    Post (parseResultList fuel st)
      (fun r st' => st'.depth = d ∧ ∀ t, r = .Scalar t → Steps d (ty t) d) := by
  unfold parseResultList
  split
  · pbind parseType_dp fuel hd => t st1 ⟨hd1, ht⟩
    exact Post_ok ⟨hd1, fun t' h => by cases h; exact ht⟩
  · exact Post_error

theorem parseFuncType_dp (fuel : Nat) {st : PState} {d : Nat} (hd : st.depth = d) :
    Post (parseFuncType fuel st) (Bal d funcType) := by
  unfold parseFuncType
  pbind parseToken_nb hd => _ st1 hd1
  pbind parseToken_op hd1 => _ st2 ⟨hd2, htd⟩
  pbind parseDelimited_post _ _ _ (fun _ h => parseNamedType_dp fuel h) fuel hd2 => ps st3 ⟨hd3, hps⟩
  pbind parseToken_cl hd3 => _ st4 hd4
  refine Post_bind (parseOptional_post (P := fun (r : Option ResultList) st' =>
      st'.depth = d ∧ ∀ t, r.getD .Empty = .Scalar t → Steps d (ty t) d) ?_ ?_) ?_
  · exact ⟨hd4, fun _ h => by cases h⟩
  · intro _ sa hsa
    exact parseResultList_dp fuel (parseToken_nb hd4 (by decide) _ sa hsa)
  · rintro rs st5 ⟨hd5, hrs⟩
    dsimp only
    refine Post_ok ⟨hd5, ?_⟩
    have hp := Steps_namedTypes ps true hps
    unfold funcType
    dsimp only
    cases hr : rs.getD .Empty with
    | Empty => dsimp only; steps
    | Scalar t => have := hrs t hr; dsimp only; steps

theorem parseFuncTypeRef_dp (fuel : Nat) {st : PState} {d : Nat} (hd : st.depth = d) :
    Post (parseFuncTypeRef fuel st) (Bal d funcTypeRef) := by
  unfold parseFuncTypeRef
  split
  · pbind parseFuncType_dp fuel hd => f st1 ⟨hd1, hf⟩
    exact Post_ok ⟨hd1, hf⟩
  · pbind parseIdent_post hd => id st1 hd1
    refine Post_ok ⟨hd1, ?_⟩
    show Steps d [ident id] d
    steps
  · exact Post_error

end Wac.Lemmas.PrinterDepth
