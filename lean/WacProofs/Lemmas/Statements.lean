import WacProofs.Lemmas.ParserComplete
/-
  C12 proofs: statements.  `let` and `export` statements (soundness and completeness), the
  well-formedness condition on package-path tokens (`WF`), and the completeness of `statement`
  given its `import` / type-statement parts (proved in the type/interface/world files).
-/
namespace Wac.C12
open Wac Wac.Ast Wac.Lex Wac.Parse Wac.Spec.Grammar

/-! ### well-formed package-path tokens -/

/-- every package-path token of the state has the lexical shape the parser relies on -/
def WF (st : PState) : Prop := ∀ tk ∈ st.toks, tk.res = .ok .PackagePath → pathShape tk.text

theorem WF.suf {st st' : PState} (h : WF st) (hs : Suf st' st) : WF st' :=
  fun tk htk => h tk (hs.subset htk)

theorem WF.adv {st : PState} (h : WF st) : WF (adv st) := h.suf (Suf.adv st)

theorem WF.shape {st : PState} (h : WF st) (hk : nextTok st = some .PackagePath) :
    pathShape (tokAt st).text := by
  obtain ⟨h1, h2, _⟩ := toks_of_nextTok hk
  exact h _ (by rw [h1]; simp) (tok?_eq_some.mp h2)

/-! ### extern names, export options -/

theorem parseExternName_eq_ok {st st' : PState} {n : ExternName} :
    parseExternName st = .ok (n, st') ↔
      (nextTok st = some .Ident ∧ n = .Ident (identAt (tokAt st)) ∧ st' = adv st) ∨
      (nextTok st = some .String ∧ n = .String (stringAt (tokAt st)) ∧ st' = adv st) := by
  unfold parseExternName
  split
  · rename_i hk
    simp only [Except.bind_eq_ok, Prod.exists, parseIdent_eq_ok]
    constructor
    · rintro ⟨id, st1, ⟨h1, rfl, rfl⟩, h⟩; cases h; exact .inl ⟨h1, rfl, rfl⟩
    · rintro (⟨h1, rfl, rfl⟩ | ⟨h, _⟩)
      · exact ⟨_, _, ⟨h1, rfl, rfl⟩, rfl⟩
      · rw [peekTok_of_nextTok h] at hk; cases hk
  · rename_i hk
    simp only [Except.bind_eq_ok, Prod.exists, parseString_eq_ok]
    constructor
    · rintro ⟨id, st1, ⟨h1, rfl, rfl⟩, h⟩; cases h; exact .inr ⟨h1, rfl, rfl⟩
    · rintro (⟨h, _⟩ | ⟨h1, rfl, rfl⟩)
      · rw [peekTok_of_nextTok h] at hk; cases hk
      · exact ⟨_, _, ⟨h1, rfl, rfl⟩, rfl⟩
  · rename_i h1 h2
    simp
    constructor <;> intro h <;> simp_all

theorem mem_gExternName {st : PState} {x : ExternName} {r : List STok} :
    (x, r) ∈ gExternName (abs st) ↔
      (nextTok st = some .Ident ∧ x = .Ident (identOf (tokAt st).text) ∧ r = abs (adv st)) ∨
      (nextTok st = some .String ∧ x = .String (stringOf (tokAt st).text) ∧ r = abs (adv st)) := by
  unfold gExternName
  simp [mem_gId, mem_gString, and_assoc]

/-! ### `let` and `export` statements -/

theorem parseLetStatement_sound (hV : SemverAgree) {pf : Nat} {st st' : PState} {s : LetStatement}
    (h : parseLetStatement pf st = .ok (s, st')) :
    Sound (fun s => Statement.Let (eraseLetStatement s)) gStatement 0 st s st' := by
  simp only [parseLetStatement, Except.bind_eq_ok, Prod.exists, parseToken_eq_ok, parseIdent_eq_ok] at h
  obtain ⟨t1, st1, ⟨k1, rfl, rfl⟩, id, st2, ⟨k2, rfl, rfl⟩, t3, st3, ⟨k3, rfl, rfl⟩, e, st4, he,
    t5, st5, ⟨k5, rfl, rfl⟩, h6⟩ := h
  cases h6
  obtain ⟨hs, hl, hm⟩ := parseExpr_sound hV he
  have l1 := len_of_nextTok k1
  have l2 := len_of_nextTok k2
  have l3 := len_of_nextTok k3
  have l5 := len_of_nextTok k5
  refine ⟨(Suf.adv _).trans (hs.trans ((Suf.adv _).trans ((Suf.adv _).trans (Suf.adv _)))), by omega, ?_⟩
  intro gf hgf
  simp only [gStatement, alt_apply, List.mem_append]
  left; right
  simp [k1, k2, k3, mem_gId, and_assoc, eraseLetStatement, erase_identAt]
  exact ⟨_, _, hm gf (by omega), by simp [k5], rfl⟩

theorem parseExportStatement_sound (hV : SemverAgree) {pf : Nat} {st st' : PState} {s : ExportStatement}
    (h : parseExportStatement pf st = .ok (s, st')) :
    Sound (fun s => Statement.Export (eraseExportStatement s)) gStatement 0 st s st' := by
  simp only [parseExportStatement, Except.bind_eq_ok, Prod.exists, parseToken_eq_ok] at h
  obtain ⟨t1, st1, ⟨k1, rfl, rfl⟩, e, st2, he, o, st3, ho, t4, st4, ⟨k4, rfl, rfl⟩, h5⟩ := h
  cases h5
  obtain ⟨hs, hl, hm⟩ := parseExpr_sound hV he
  have l1 := len_of_nextTok k1
  have l4 := len_of_nextTok k4
  unfold parseExportOptions at ho
  split at ho
  · rename_i ke
    simp only [peekIs_iff] at ke
    simp only [Except.bind_eq_ok, Prod.exists, parseToken_eq_ok] at ho
    obtain ⟨t, st2', ⟨ke, rfl, rfl⟩, ho⟩ := ho
    cases ho
    have l2 := len_of_nextTok ke
    refine ⟨(Suf.adv _).trans ((Suf.adv _).trans (hs.trans (Suf.adv _))), by omega, ?_⟩
    intro gf hgf
    simp only [gStatement, alt_apply, List.mem_append]
    right
    simp [k1, and_assoc, eraseExportStatement]
    refine ⟨_, _, hm gf (by omega), .inl ?_⟩
    simp [ke, k4, eraseExportOptions]
  · split at ho
    · rename_i _ ka
      simp only [peekIs_iff] at ka
      simp only [Except.bind_eq_ok, Prod.exists, parseToken_eq_ok, parseExternName_eq_ok] at ho
      obtain ⟨t, st2', ⟨ka, rfl, rfl⟩, n, st3', hn, ho⟩ := ho
      cases ho
      have l2 := len_of_nextTok ka
      rcases hn with ⟨kn, rfl, rfl⟩ | ⟨kn, rfl, rfl⟩
      all_goals
        have l3 := len_of_nextTok kn
        refine ⟨(Suf.adv _).trans ((Suf.adv _).trans ((Suf.adv _).trans (hs.trans (Suf.adv _)))), by omega, ?_⟩
        intro gf hgf
        simp only [gStatement, alt_apply, List.mem_append]
        right
        simp [k1, and_assoc, eraseExportStatement]
        refine ⟨_, _, hm gf (by omega), .inr (.inl ?_)⟩
        simp [ka, kn, k4, mem_gExternName, eraseExportOptions, eraseExternName, erase_identAt,
          erase_stringAt, and_assoc]
    · cases ho
      refine ⟨(Suf.adv _).trans (hs.trans (Suf.adv _)), by omega, ?_⟩
      intro gf hgf
      simp only [gStatement, alt_apply, List.mem_append]
      right
      simp [k1, and_assoc, eraseExportStatement]
      refine ⟨_, _, hm gf (by omega), .inr (.inr ?_)⟩
      simp [k4, eraseExportOptions]

theorem parseExternName_ok_ident {st : PState} (h : nextTok st = some .Ident) :
    parseExternName st = .ok (.Ident (identAt (tokAt st)), adv st) :=
  parseExternName_eq_ok.mpr (.inl ⟨h, rfl, rfl⟩)

theorem parseExternName_ok_string {st : PState} (h : nextTok st = some .String) :
    parseExternName st = .ok (.String (stringAt (tokAt st)), adv st) :=
  parseExternName_eq_ok.mpr (.inr ⟨h, rfl, rfl⟩)

/-- completeness of `statement` at a state, given completeness of its `import` and
type-statement parts at that state -/
theorem gStatement_complete (hV : SemverAgree) (gf : Nat) (st : PState)
    (hImp : ∀ x r, (x, r) ∈ gImportStatement gf (abs st) → ∀ pf, gf + 2 ≤ pf →
      ∃ x0 st', parseImportStatement pf st = .ok (x0, st') ∧ eraseImportStatement x0 = x ∧ abs st' = r ∧
        st'.toks.length < st.toks.length)
    (hTy : ∀ x r, (x, r) ∈ gTypeStatement gf (abs st) → ∀ pf, gf + 2 ≤ pf →
      ∃ x0 st', parseTypeStatement pf st = .ok (x0, st') ∧ eraseTypeStatement x0 = x ∧ abs st' = r ∧
        st'.toks.length < st.toks.length)
    (hImpFirst : ∀ x r, (x, r) ∈ gImportStatement gf (abs st) → nextTok st = some .ImportKeyword)
    (hTyFirst : ∀ x r, (x, r) ∈ gTypeStatement gf (abs st) → peekIn st typeStatementPeeks = true) :
    ∀ x r, (x, r) ∈ gStatement gf (abs st) → ∀ pf, gf + 2 ≤ pf →
      ∃ x0 st', parseStatement pf st = .ok (x0, st') ∧ eraseStatement x0 = x ∧ abs st' = r ∧
        st'.toks.length < st.toks.length := by
  intro x r h pf hpf
  simp only [gStatement, alt_apply, List.mem_append] at h
  rcases h with ((h | h) | h) | h
  · -- import
    simp at h
    obtain ⟨s, hs, rfl⟩ := h
    have k1 := hImpFirst _ _ hs
    obtain ⟨s0, st', h0, rfl, rfl, hl⟩ := hImp _ _ hs pf hpf
    refine ⟨.Import s0, st', ?_, rfl, rfl, hl⟩
    simp [parseStatement, k1, h0]
  · -- type statement
    simp at h
    obtain ⟨s, hs, rfl⟩ := h
    have hin := hTyFirst _ _ hs
    obtain ⟨k, k1, hk⟩ := (peekIn_iff _ _).mp hin
    obtain ⟨s0, st', h0, rfl, rfl, hl⟩ := hTy _ _ hs pf hpf
    refine ⟨.Type' s0, st', ?_, rfl, rfl, hl⟩
    have h1 : k ≠ .ImportKeyword := by rintro rfl; simp [typeStatementPeeks, typeDeclPeeks] at hk
    have h2 : k ≠ .LetKeyword := by rintro rfl; simp [typeStatementPeeks, typeDeclPeeks] at hk
    have h3 : k ≠ .ExportKeyword := by rintro rfl; simp [typeStatementPeeks, typeDeclPeeks] at hk
    simp [parseStatement, k1, h1, h2, h3, hin, h0]
  · -- let
    simp [mem_gId, and_assoc] at h
    obtain ⟨k1, k2, k3, e', r1, he, hsemi, rfl⟩ := h
    have hr1 := head_of_mem_t hsemi
    obtain ⟨e, st4, he0, rfl, rfl⟩ := (expr_complete hV gf).1 _ _ _ he (by rw [hr1]; simp [litTok]; decide)
      (by rw [hr1]; simp [litTok]; decide) pf (by omega)
    obtain ⟨k5, habs5⟩ := abs_adv_of_cons (k := .Semicolon) rfl hr1
    have hlt := (parseExpr_sound hV he0).1.len
    have l1 := len_of_nextTok k1
    have l2 := len_of_nextTok k2
    have l3 := len_of_nextTok k3
    have l5 := len_of_nextTok k5
    refine ⟨.Let ⟨parseDocs st, identAt (tokAt (adv st)), e⟩, adv st4, ?_, ?_, habs5, by omega⟩
    · simp [parseStatement, k1, parseLetStatement, parseToken_ok k1, parseIdent_ok k2, parseToken_ok k3,
        he0, parseToken_ok k5]
    · simp [eraseStatement, eraseLetStatement, erase_identAt]
  · -- export
    simp [and_assoc] at h
    obtain ⟨k1, e', r1, he, hopts⟩ := h
    have l1 := len_of_nextTok k1
    have hfollow : r1.head? ≠ some (litTok .Dot) ∧ r1.head? ≠ some (litTok .OpenBracket) := by
      rcases hopts with ⟨o, r2, hu, _⟩ | ⟨o, r2, ⟨u, r3, hu, _⟩, _⟩ | ⟨hu, _⟩
      · have := head_of_mem_t hu; rw [this]; simp [litTok]; decide
      · have := (mem_t _ _ _ _).mp hu; rw [this]; simp [litTok]; decide
      · have := head_of_mem_t hu; rw [this]; simp [litTok]; decide
    obtain ⟨e, st2, he0, rfl, rfl⟩ := (expr_complete hV gf).1 _ _ _ he hfollow.1 hfollow.2 pf (by omega)
    have hlt := (parseExpr_sound hV he0).1.len
    rcases hopts with ⟨o, r2, hu, rfl, hsemi, rfl⟩ | ⟨o, r2, ⟨u, r3, hu, n, hn, rfl⟩, hsemi, rfl⟩ | ⟨hsemi, rfl⟩
    · -- `...`
      have hr2 := head_of_mem_t hsemi
      simp at hu
      obtain ⟨ke, rfl⟩ := hu
      obtain ⟨k4, habs4⟩ := abs_adv_of_cons (k := .Semicolon) rfl hr2
      have l2 := len_of_nextTok ke
      have l4 := len_of_nextTok k4
      refine ⟨.Export ⟨parseDocs st, e, .Spread (tokAt st2).span⟩, adv (adv st2), ?_, ?_, habs4, by omega⟩
      · simp [parseStatement, k1, parseExportStatement, parseToken_ok k1, he0, parseExportOptions, ke,
          parseToken_ok ke, parseToken_ok k4]
      · simp [eraseStatement, eraseExportStatement, eraseExportOptions]
    · -- `as name`
      have hr2 := head_of_mem_t hsemi
      simp at hu
      obtain ⟨ka, rfl⟩ := hu
      have l2 := len_of_nextTok ka
      rcases mem_gExternName.mp hn with ⟨kn, rfl, rfl⟩ | ⟨kn, rfl, rfl⟩
      · obtain ⟨k4, habs4⟩ := abs_adv_of_cons (k := .Semicolon) rfl hr2
        have l3 := len_of_nextTok kn
        have l4 := len_of_nextTok k4
        refine ⟨.Export ⟨parseDocs st, e, .Rename (.Ident (identAt (tokAt (adv st2))))⟩,
          adv (adv (adv st2)), ?_, ?_, habs4, by omega⟩
        · simp [parseStatement, k1, parseExportStatement, parseToken_ok k1, he0, parseExportOptions, ka,
            parseToken_ok ka, parseExternName_ok_ident kn, parseToken_ok k4]
        · simp [eraseStatement, eraseExportStatement, eraseExportOptions, eraseExternName, erase_identAt]
      · obtain ⟨k4, habs4⟩ := abs_adv_of_cons (k := .Semicolon) rfl hr2
        have l3 := len_of_nextTok kn
        have l4 := len_of_nextTok k4
        refine ⟨.Export ⟨parseDocs st, e, .Rename (.String (stringAt (tokAt (adv st2))))⟩,
          adv (adv (adv st2)), ?_, ?_, habs4, by omega⟩
        · simp [parseStatement, k1, parseExportStatement, parseToken_ok k1, he0, parseExportOptions, ka,
            parseToken_ok ka, parseExternName_ok_string kn, parseToken_ok k4]
        · simp [eraseStatement, eraseExportStatement, eraseExportOptions, eraseExternName, erase_stringAt]
    · -- no options
      have hr2 := head_of_mem_t hsemi
      obtain ⟨k4, habs4⟩ := abs_adv_of_cons (k := .Semicolon) rfl hr2
      have l4 := len_of_nextTok k4
      refine ⟨.Export ⟨parseDocs st, e, .None⟩, adv st2, ?_, ?_, habs4, by omega⟩
      · simp [parseStatement, k1, parseExportStatement, parseToken_ok k1, he0, parseExportOptions, k4,
          parseToken_ok k4]
      · simp [eraseStatement, eraseExportStatement, eraseExportOptions]
end Wac.C12
