import WacProofs.Lemmas.PrinterParseBase
/-
  C13, types: `parseType` (with the tuple list), `parseNamedType`, the parameter list,
  `parseResultList`, `parseFuncType`, `parseFuncTypeRef` accept the tokens of
  `Wac.PrintTok.ty / namedTypes / funcType / funcTypeRef`.  Fuel hypothesis: `3 * (tokens).length ≤ fuel`.
-/
namespace Wac.Lemmas.PrinterParse
open Wac Wac.Ast Wac.Lex Wac.Parse Wac.PrintTok

/-! ### equations of the printer on types -/

theorem tys_false_eq : (ts : List Ty) →
    tys false ts = (match ts with | [] => [] | _ :: _ => comma :: sepList ty ts)
  | [] => by rw [tys]
  | [t] => by rw [tys, tys]; simp [sepList]
  | t :: u :: r => by
    have ih := tys_false_eq (u :: r)
    rw [tys, ih]; simp [sepList]

theorem tys_true_eq : (ts : List Ty) → tys true ts = sepList ty ts
  | [] => by rw [tys]; rfl
  | [t] => by rw [tys, tys]; simp [sepList]
  | t :: u :: r => by rw [tys, tys_false_eq]; simp [sepList]

theorem eraseTys_cons (t : Ty) (r : List Ty) : eraseTys (t :: r) = t.erase :: eraseTys r := by
  rw [eraseTys]

theorem eraseTys_nil : eraseTys [] = [] := by rw [eraseTys]

theorem wfTys_cons (t : Ty) (r : List Ty) : wfTys (t :: r) = (t.wf && wfTys r) := by rw [wfTys]

theorem ty_head (t : Ty) : headIn typePeeks (ty t) := by
  cases t with
  | Result ok err sp =>
    cases ok <;> cases err <;> rw [ty] <;> exact headIn_cons (k := .ResultKeyword) rfl (by decide)
  | _ => rw [ty]; exact headIn_cons rfl (by decide)

theorem ty_length_pos (t : Ty) : 1 ≤ (ty t).length := headIn_length_pos (ty_head t)

set_option hygiene false in
/-- a primitive type keyword -/
macro "prim_case" : tactic => `(tactic| (
    intro st rest hE _
    rw [ty] at hE hf
    simp only [List.cons_append, List.nil_append, List.length_cons, List.length_nil] at hE hf
    obtain ⟨f, rfl⟩ : ∃ f, fuel = f + 1 := ⟨fuel - 1, by omega⟩
    obtain ⟨lt, st1, h1, hE1⟩ := next_of_E hE
    pt_exists st1, hE1
    · unfold parseType; simp only [peekTok_of_E hE rfl, h1]; rfl
    · rw [Ty.erase, Ty.erase]))

mutual
theorem ty_ok : (t : Ty) → t.wf = true → (fuel : Nat) → 3 * (ty t).length ≤ fuel →
    ParsesTo (parseType fuel) Ty.erase (ty t) t (headNot [.OpenAngle])
  | .U8 sp, _, fuel, hf => by prim_case
  | .S8 sp, _, fuel, hf => by prim_case
  | .U16 sp, _, fuel, hf => by prim_case
  | .S16 sp, _, fuel, hf => by prim_case
  | .U32 sp, _, fuel, hf => by prim_case
  | .S32 sp, _, fuel, hf => by prim_case
  | .U64 sp, _, fuel, hf => by prim_case
  | .S64 sp, _, fuel, hf => by prim_case
  | .F32 sp, _, fuel, hf => by prim_case
  | .F64 sp, _, fuel, hf => by prim_case
  | .Char sp, _, fuel, hf => by prim_case
  | .Bool sp, _, fuel, hf => by prim_case
  | .String sp, _, fuel, hf => by prim_case
  | .Ident id, hwf, fuel, hf => by
    intro st rest hE _
    rw [ty] at hE hf
    simp only [List.cons_append, List.nil_append, List.length_cons, List.length_nil] at hE hf
    obtain ⟨f, rfl⟩ : ∃ f, fuel = f + 1 := ⟨fuel - 1, by omega⟩
    rw [Ty.wf] at hwf
    obtain ⟨i', st1, h1, hi, hE1⟩ := parseIdent_ok (i := id) hwf hE rfl rfl
    pt_exists st1, hE1
    · unfold parseType; simp only [peekTok_of_E hE (k := .Ident) rfl, h1, bind_ok]; rfl
    · rw [Ty.erase, Ty.erase, hi]
  | .Borrow id sp, hwf, fuel, hf => by
    intro st rest hE _
    rw [ty] at hE hf
    simp only [List.cons_append, List.nil_append, List.length_cons, List.length_nil] at hE hf
    obtain ⟨f, rfl⟩ : ∃ f, fuel = f + 1 := ⟨fuel - 1, by omega⟩
    rw [Ty.wf] at hwf
    obtain ⟨t1, st1, h1, -, hE1⟩ := parseToken_ok hE (k := .BorrowKeyword) rfl
    obtain ⟨t2, st2, h2, -, hE2⟩ := parseToken_ok hE1 (k := .OpenAngle) rfl
    obtain ⟨i', st3, h3, hi, hE3⟩ := parseIdent_ok (i := id) hwf hE2 rfl rfl
    obtain ⟨t4, st4, h4, -, hE4⟩ := parseToken_ok hE3 (k := .CloseAngle) rfl
    pt_exists st4, hE4
    · unfold parseType
      simp only [peekTok_of_E hE (k := .BorrowKeyword) rfl, h1, h2, h3, h4, bind_ok]; rfl
    · rw [Ty.erase, Ty.erase, hi]
  | .List t sp, hwf, fuel, hf => by
    intro st rest hE _
    rw [ty] at hE hf
    simp only [List.cons_append, List.append_assoc, List.nil_append, List.length_cons,
      List.length_append, List.length_nil] at hE hf
    obtain ⟨f, rfl⟩ : ∃ f, fuel = f + 1 := ⟨fuel - 1, by omega⟩
    rw [Ty.wf] at hwf
    obtain ⟨t1, st1, h1, -, hE1⟩ := parseToken_ok hE (k := .ListKeyword) rfl
    obtain ⟨t2, st2, h2, -, hE2⟩ := parseToken_ok hE1 (k := .OpenAngle) rfl
    obtain ⟨t', st3, h3, ht, hE3⟩ := ty_ok t hwf f (by omega) st2 _ hE2
      (headNot_cons (k := .CloseAngle) rfl (by decide))
    obtain ⟨t4, st4, h4, -, hE4⟩ := parseToken_ok hE3 (k := .CloseAngle) rfl
    pt_exists st4, hE4
    · unfold parseType
      simp only [peekTok_of_E hE (k := .ListKeyword) rfl, h1, h2, h3, h4, bind_ok]; rfl
    · rw [Ty.erase, Ty.erase, ht]
  | .Option t sp, hwf, fuel, hf => by
    intro st rest hE _
    rw [ty] at hE hf
    simp only [List.cons_append, List.append_assoc, List.nil_append, List.length_cons,
      List.length_append, List.length_nil] at hE hf
    obtain ⟨f, rfl⟩ : ∃ f, fuel = f + 1 := ⟨fuel - 1, by omega⟩
    rw [Ty.wf] at hwf
    obtain ⟨t1, st1, h1, -, hE1⟩ := parseToken_ok hE (k := .OptionKeyword) rfl
    obtain ⟨t2, st2, h2, -, hE2⟩ := parseToken_ok hE1 (k := .OpenAngle) rfl
    obtain ⟨t', st3, h3, ht, hE3⟩ := ty_ok t hwf f (by omega) st2 _ hE2
      (headNot_cons (k := .CloseAngle) rfl (by decide))
    obtain ⟨t4, st4, h4, -, hE4⟩ := parseToken_ok hE3 (k := .CloseAngle) rfl
    pt_exists st4, hE4
    · unfold parseType
      simp only [peekTok_of_E hE (k := .OptionKeyword) rfl, h1, h2, h3, h4, bind_ok]; rfl
    · rw [Ty.erase, Ty.erase, ht]
  | .Tuple types sp, hwf, fuel, hf => by
    intro st rest hE _
    rw [ty, tys_true_eq] at hE hf
    simp only [List.cons_append, List.append_assoc, List.nil_append, List.length_cons,
      List.length_append, List.length_nil] at hE hf
    obtain ⟨f, rfl⟩ : ∃ f, fuel = f + 1 := ⟨fuel - 1, by omega⟩
    rw [Ty.wf] at hwf
    simp only [Bool.and_eq_true, Bool.not_eq_true'] at hwf
    obtain ⟨t1, st1, h1, -, hE1⟩ := parseToken_ok hE (k := .TupleKeyword) rfl
    obtain ⟨t2, st2, h2, -, hE2⟩ := parseToken_ok hE1 (k := .OpenAngle) rfl
    have hlen : types.length ≤ (sepList ty types).length :=
      length_le_sepList ty types (fun x _ => ty_length_pos x)
    obtain ⟨tys', st3, h3, hts, hE3⟩ := tys_ok types hwf.2 f (by omega) f (by omega) st2 _ hE2
      (headIs_cons (k := .CloseAngle) rfl)
    obtain ⟨t4, st4, h4, -, hE4⟩ := parseToken_ok hE3 (k := .CloseAngle) rfl
    have hin : headIn typePeeks (E st2) := by
      rw [hE2]
      cases types with
      | nil => simp at hwf
      | cons x r =>
        cases r with
        | nil => exact (ty_head x).append _
        | cons y r' => simp only [sepList, List.append_assoc]; exact (ty_head x).append _
    have hne : tys'.isEmpty = false := by
      cases types with
      | nil => simp at hwf
      | cons x r =>
        rw [eraseTys_cons] at hts
        cases tys' with
        | nil => rw [eraseTys_nil] at hts; cases hts
        | cons _ _ => rfl
    pt_exists st4, hE4
    · unfold parseType
      simp only [peekTok_of_E hE (k := .TupleKeyword) rfl, h1, h2, peekIn_true hin, h3, hne, h4, bind_ok,
        Bool.not_true, Bool.false_eq_true, if_false]
      rfl
    · rw [Ty.erase, Ty.erase, hts]
  | .Result none none sp, _, fuel, hf => by
    intro st rest hE hF
    rw [ty] at hE hf
    simp only [List.cons_append, List.nil_append, List.length_cons, List.length_nil] at hE hf
    obtain ⟨f, rfl⟩ : ∃ f, fuel = f + 1 := ⟨fuel - 1, by omega⟩
    obtain ⟨t1, st1, h1, -, hE1⟩ := parseToken_ok hE (k := .ResultKeyword) rfl
    pt_exists st1, hE1
    · unfold parseType
      simp only [peekTok_of_E hE (k := .ResultKeyword) rfl, h1, bind_ok]
      rw [parseOptional_none _ (hE1 ▸ hF)]
      rfl
    · rw [Ty.erase, Ty.erase]
  | .Result (some ok) none sp, hwf, fuel, hf => by
    intro st rest hE _
    rw [ty] at hE hf
    simp only [List.cons_append, List.append_assoc, List.nil_append, List.length_cons,
      List.length_append, List.length_nil] at hE hf
    obtain ⟨f, rfl⟩ : ∃ f, fuel = f + 1 := ⟨fuel - 1, by omega⟩
    rw [Ty.wf] at hwf
    obtain ⟨t1, st1, h1, -, hE1⟩ := parseToken_ok hE (k := .ResultKeyword) rfl
    have hE2 := E_next hE1
    obtain ⟨ok', st3, h3, hok, hE3⟩ := ty_ok ok hwf f (by omega) st1.next.2 _ hE2
      (headNot_cons (k := .CloseAngle) rfl (by decide))
    obtain ⟨t4, st4, h4, -, hE4⟩ := parseToken_ok hE3 (k := .CloseAngle) rfl
    have hin : headIn typePeeks (E st1.next.2) := hE2 ▸ (ty_head ok).append _
    pt_exists st4, hE4
    · unfold parseType
      simp only [peekTok_of_E hE (k := .ResultKeyword) rfl, h1, bind_ok]
      rw [parseOptional_eq _ hE1 rfl]
      simp only [peekIs_false_of_headIn hin (k' := .Underscore) (by decide), peekIn_true hin, h3, bind_ok,
        Bool.false_eq_true, if_false, if_true]
      rw [parseOptional_none _ (hE3 ▸ headNot_cons (k := .CloseAngle) rfl (by decide))]
      simp only [h4, bind_ok, optMap_ok]
      rfl
    · simp only [Option.getD_none]; rw [Ty.erase, Ty.erase, hok]
  | .Result none (some err) sp, hwf, fuel, hf => by
    intro st rest hE _
    rw [ty] at hE hf
    simp only [List.cons_append, List.append_assoc, List.nil_append, List.length_cons,
      List.length_append, List.length_nil] at hE hf
    obtain ⟨f, rfl⟩ : ∃ f, fuel = f + 1 := ⟨fuel - 1, by omega⟩
    rw [Ty.wf] at hwf
    obtain ⟨t1, st1, h1, -, hE1⟩ := parseToken_ok hE (k := .ResultKeyword) rfl
    have hE2 := E_next hE1
    have hE3 := E_next hE2
    have hE4 := E_next hE3
    obtain ⟨err', st5, h5, herr, hE5⟩ := ty_ok err hwf f (by omega) _ _ hE4
      (headNot_cons (k := .CloseAngle) rfl (by decide))
    obtain ⟨t6, st6, h6, -, hE6⟩ := parseToken_ok hE5 (k := .CloseAngle) rfl
    have hin : headIn typePeeks (E st1.next.2.next.2.next.2) := hE4 ▸ (ty_head err).append _
    pt_exists st6, hE6
    · unfold parseType
      simp only [peekTok_of_E hE (k := .ResultKeyword) rfl, h1, bind_ok]
      rw [parseOptional_eq _ hE1 rfl]
      simp only [peekIs_true (hE2 ▸ headIs_cons (k := .Underscore) rfl), bind_ok, if_true]
      rw [parseOptional_eq _ hE3 rfl]
      simp only [peekIs_false_of_headIn hin (k' := .Underscore) (by decide), peekIn_true hin, h5, bind_ok,
        Bool.false_eq_true, if_false, if_true, optMap_ok, h6]
      rfl
    · simp only [Option.getD_some]; rw [Ty.erase, Ty.erase, herr]
  | .Result (some ok) (some err) sp, hwf, fuel, hf => by
    intro st rest hE _
    rw [ty] at hE hf
    simp only [List.cons_append, List.append_assoc, List.nil_append, List.length_cons,
      List.length_append, List.length_nil] at hE hf
    obtain ⟨f, rfl⟩ : ∃ f, fuel = f + 1 := ⟨fuel - 1, by omega⟩
    rw [Ty.wf] at hwf
    simp only [Bool.and_eq_true] at hwf
    obtain ⟨t1, st1, h1, -, hE1⟩ := parseToken_ok hE (k := .ResultKeyword) rfl
    have hE2 := E_next hE1
    obtain ⟨ok', st3, h3, hok, hE3⟩ := ty_ok ok hwf.1 f (by omega) st1.next.2 _ hE2
      (headNot_cons (k := .Comma) rfl (by decide))
    have hE4 := E_next hE3
    obtain ⟨err', st5, h5, herr, hE5⟩ := ty_ok err hwf.2 f (by omega) _ _ hE4
      (headNot_cons (k := .CloseAngle) rfl (by decide))
    obtain ⟨t6, st6, h6, -, hE6⟩ := parseToken_ok hE5 (k := .CloseAngle) rfl
    have hin : headIn typePeeks (E st1.next.2) := hE2 ▸ (ty_head ok).append _
    have hin' : headIn typePeeks (E st3.next.2) := hE4 ▸ (ty_head err).append _
    pt_exists st6, hE6
    · unfold parseType
      simp only [peekTok_of_E hE (k := .ResultKeyword) rfl, h1, bind_ok]
      rw [parseOptional_eq _ hE1 rfl]
      simp only [peekIs_false_of_headIn hin (k' := .Underscore) (by decide), peekIn_true hin, h3, bind_ok,
        Bool.false_eq_true, if_false, if_true]
      rw [parseOptional_eq _ hE3 rfl]
      simp only [peekIs_false_of_headIn hin' (k' := .Underscore) (by decide), peekIn_true hin', h5, bind_ok,
        Bool.false_eq_true, if_false, if_true, optMap_ok, h6]
      rfl
    · simp only [Option.getD_some]; rw [Ty.erase, Ty.erase, hok, herr]
theorem tys_ok : (ts : List Ty) → wfTys ts = true → (fuel : Nat) →
    3 * (sepList ty ts).length ≤ fuel → (n : Nat) → ts.length + 1 ≤ n →
    ParsesTo (parseDelimited .CloseAngle true typePeeks (parseType fuel) n) eraseTys
      (sepList ty ts) ts (headIs .CloseAngle)
  | [], _, fuel, _, n, hn => by
    intro st rest hE hF
    obtain ⟨n, rfl⟩ : ∃ m, n = m + 1 := ⟨n - 1, by simp at hn; omega⟩
    simp only [sepList, List.nil_append] at hE
    exact ⟨[], st, parseDelimited_stop (hE ▸ hF), rfl, hE⟩
  | x :: tl, hwf, fuel, hf, n, hn => by
    intro st rest hE hF
    obtain ⟨n, rfl⟩ : ∃ m, n = m + 1 := ⟨n - 1, by simp at hn; omega⟩
    rw [wfTys_cons] at hwf
    simp only [Bool.and_eq_true] at hwf
    have hxl : (ty x).length ≤ (sepList ty (x :: tl)).length :=
      sepList_mem_length ty _ x (List.mem_cons_self ..)
    have hx := ty_ok x hwf.1 fuel (by omega)
    have htl : 3 * (sepList ty tl).length ≤ fuel := by
      cases tl with
      | nil => simp [sepList]
      | cons y r => simp only [sepList, List.length_append, List.length_cons] at hf ⊢; omega
    have ih := tys_ok tl hwf.2 fuel htl n (by simp at hn ⊢; omega)
    cases tl with
    | nil =>
      simp only [sepList] at hE
      obtain ⟨x', st1, hp, hx', hE1⟩ := hx st _ hE (hF.headNot (by decide))
      have hin : headIn typePeeks (E st) := hE ▸ (ty_head x).append _
      exact ⟨[x'], st1, parseDelimited_last hin (by decide) hp (hE1 ▸ hF),
        by rw [eraseTys_cons, eraseTys_cons, hx'], hE1⟩
    | cons y r =>
      simp only [sepList, List.append_assoc, List.cons_append] at hE
      obtain ⟨x', st1, hp, hx', hE1⟩ := hx st _ hE (headNot_cons (k := .Comma) rfl (by decide))
      have hin : headIn typePeeks (E st) := hE ▸ (ty_head x).append _
      obtain ⟨st2, hE2, hstep⟩ := parseDelimited_comma (stop := .CloseAngle) (n := n) hin
        (by decide) (by decide) hp hE1 rfl
      obtain ⟨xs', st3, hp3, hxs, hE3⟩ := ih st2 rest hE2 hF
      exact ⟨x' :: xs', st3, hstep _ _ hp3, by rw [eraseTys_cons, eraseTys_cons, hx', hxs], hE3⟩
end

/-! ### named types, parameter lists, function types -/

/-- the tokens of one parameter -/
def namedTypeToks (n : NamedType) : List PTok := ident n.id :: colon :: ty n.ty

theorem namedTypes_false_eq : (ps : List NamedType) →
    namedTypes false ps = (match ps with | [] => [] | _ :: _ => comma :: sepList namedTypeToks ps)
  | [] => rfl
  | [p] => by simp [namedTypes, sepList, namedTypeToks]
  | p :: q :: r => by
    have ih := namedTypes_false_eq (q :: r)
    rw [namedTypes, ih]; simp [sepList, namedTypeToks]

theorem namedTypes_true_eq : (ps : List NamedType) → namedTypes true ps = sepList namedTypeToks ps
  | [] => rfl
  | [p] => by simp [namedTypes, sepList, namedTypeToks]
  | p :: q :: r => by rw [namedTypes, namedTypes_false_eq]; simp [sepList, namedTypeToks]

theorem namedType_ok (n : NamedType) (hwf : n.wf = true) (fuel : Nat) (hf : 3 * (ty n.ty).length ≤ fuel) :
    ParsesTo (parseNamedType fuel) NamedType.erase (namedTypeToks n) n (headNot [.OpenAngle]) := by
  intro st rest hE hF
  simp only [NamedType.wf, Bool.and_eq_true] at hwf
  simp only [namedTypeToks, List.cons_append] at hE
  obtain ⟨i', st1, h1, hi, hE1⟩ := parseIdent_ok hwf.1 hE rfl rfl
  obtain ⟨t2, st2, h2, -, hE2⟩ := parseToken_ok hE1 (k := .Colon) rfl
  obtain ⟨ty', st3, h3, hty, hE3⟩ := ty_ok n.ty hwf.2 fuel hf st2 rest hE2 hF
  pt_exists st3, hE3
  · simp only [parseNamedType, h1, h2, h3, bind_ok]; rfl
  · simp [NamedType.erase, hi, hty]

theorem params_ok (ps : List NamedType) (hwf : ps.all NamedType.wf = true) (fuel : Nat)
    (hf : 3 * (sepList namedTypeToks ps).length ≤ fuel) (n : Nat) (hn : ps.length + 1 ≤ n) :
    ParsesTo (parseDelimited .CloseParen true [.Ident] (parseNamedType fuel) n)
      (List.map NamedType.erase) (sepList namedTypeToks ps) ps (headIs .CloseParen) := by
  apply parseDelimited_separated namedTypeToks (by decide) (by decide) ps
  · intro x _; exact headIn_cons (k := .Ident) rfl (by decide)
  · intro x hx
    have hl := sepList_mem_length namedTypeToks ps x hx
    simp only [namedTypeToks, List.length_cons] at hl
    refine (namedType_ok x (List.all_eq_true.1 hwf x hx) fuel (by omega)).follow ?_
    intro r hr
    exact hr.headNot (by decide)
  · exact hn

theorem params_length_le (ps : List NamedType) : ps.length ≤ (sepList namedTypeToks ps).length :=
  length_le_sepList _ _ (fun x _ => by simp [namedTypeToks])

theorem funcType_ok (ft : FuncType) (hwf : ft.wf = true) (fuel : Nat)
    (hf : 3 * (funcType ft).length ≤ fuel) :
    ParsesTo (parseFuncType fuel) FuncType.erase (funcType ft) ft (headNot [.Arrow, .OpenAngle]) := by
  intro st rest hE hF
  obtain ⟨params, results⟩ := ft
  simp only [FuncType.wf, Bool.and_eq_true] at hwf
  simp only [funcType, namedTypes_true_eq, List.cons_append, List.append_assoc, List.length_cons,
    List.length_append] at hE hf
  obtain ⟨t1, st1, h1, -, hE1⟩ := parseToken_ok hE (k := .FuncKeyword) rfl
  obtain ⟨t2, st2, h2, -, hE2⟩ := parseToken_ok hE1 (k := .OpenParen) rfl
  have hpl := params_length_le params
  obtain ⟨ps', st3, h3, hps, hE3⟩ := params_ok params hwf.1 fuel (by omega) fuel (by omega) st2 _ hE2
    (headIs_cons (k := .CloseParen) rfl)
  obtain ⟨t4, st4, h4, -, hE4⟩ := parseToken_ok hE3 (k := .CloseParen) rfl
  cases results with
  | Empty =>
    simp only [List.nil_append] at hE4
    pt_exists st4, hE4
    · simp only [parseFuncType, h1, h2, h3, h4, bind_ok]
      rw [parseOptional_none _ (hE4 ▸ hF.mono (by decide))]
      rfl
    · simp [FuncType.erase, hps, ResultList.erase]
  | Scalar t =>
    simp only [List.cons_append, List.length_cons] at hE4 hf
    simp only [ResultList.wf] at hwf
    have hE5 := E_next hE4
    obtain ⟨t', st6, h6, ht, hE6⟩ := ty_ok t hwf.2 fuel (by omega) _ rest hE5 (hF.mono (by decide))
    have hin : headIn typePeeks (E st4.next.2) := hE5 ▸ (ty_head t).append _
    pt_exists st6, hE6
    · simp only [parseFuncType, h1, h2, h3, h4, bind_ok]
      rw [parseOptional_eq _ hE4 rfl]
      simp only [parseResultList, peekIn_true hin, if_true, h6, bind_ok, optMap_ok]
      rfl
    · simp [FuncType.erase, hps, ResultList.erase, ht]

theorem funcTypeRef_ok (r : FuncTypeRef) (hwf : r.wf = true) (fuel : Nat)
    (hf : 3 * (funcTypeRef r).length ≤ fuel) :
    ParsesTo (parseFuncTypeRef fuel) FuncTypeRef.erase (funcTypeRef r) r (headNot [.Arrow, .OpenAngle]) := by
  intro st rest hE hF
  cases r with
  | Func ft =>
    simp only [funcTypeRef] at hE hf
    simp only [FuncTypeRef.wf] at hwf
    obtain ⟨ft', st1, h1, hft, hE1⟩ := funcType_ok ft hwf fuel hf st rest hE hF
    have hE' := hE
    simp only [funcType, List.cons_append] at hE'
    pt_exists st1, hE1
    · simp only [parseFuncTypeRef, peekTok_of_E hE' (k := .FuncKeyword) rfl, h1, bind_ok]; rfl
    · simp [FuncTypeRef.erase, hft]
  | Ident id =>
    simp only [funcTypeRef, List.cons_append, List.nil_append] at hE
    simp only [FuncTypeRef.wf] at hwf
    obtain ⟨i', st1, h1, hi, hE1⟩ := parseIdent_ok hwf hE rfl rfl
    pt_exists st1, hE1
    · simp only [parseFuncTypeRef, peekTok_of_E hE (k := .Ident) rfl, h1, bind_ok]; rfl
    · simp [FuncTypeRef.erase, hi]

theorem funcType_head (ft : FuncType) : headIs .FuncKeyword (funcType ft) := by
  simp only [funcType, List.cons_append]; exact headIs_cons rfl

end Wac.Lemmas.PrinterParse
