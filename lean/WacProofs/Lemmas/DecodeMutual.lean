import WacProofs.Lemmas.DecodeEntity
/-
  C08 `decode_tree`, part 12: `component_instance_type`, `component_type`, and the induction on the
  fuel that ties the four mutually recursive functions together.
-/
namespace Wac.Decode
open Wac Wac.Spec.Decode

theorem Frame.ofAddInterface (st : St) (x : Interface) : Frame st (Decode.addInterface st x).1 := by
  refine ⟨⟨rfl, fun _ _ h => h, fun _ _ h => h, fun _ _ h => h, fun _ x h => ⟨x, h, rfl, rfl⟩, ?_,
    fun _ x _ h => ⟨x, h, rfl, rfl⟩⟩, ?_, fun _ _ h => h⟩
  · intro i y _ h
    exact ⟨y, getElem?_append_lt' _ _ _ _ h, rfl⟩
  · simp [Decode.addInterface, Types.size] <;> omega

theorem Frame.ofAddWorld (st : St) (x : World) : Frame st (Decode.addWorld st x).1 := by
  refine ⟨⟨rfl, fun _ _ h => h, fun _ _ h => h, fun _ _ h => h, fun _ x h => ⟨x, h, rfl, rfl⟩,
    fun _ x _ h => ⟨x, h, rfl⟩, ?_⟩, ?_, fun _ _ h => h⟩
  · intro i y _ h
    exact ⟨y, getElem?_append_lt' _ _ _ _ h, rfl, rfl⟩
  · simp [Decode.addWorld, Types.size] <;> omega

section
variable {w : WTypes} {ρ : Nat → Res}

theorem instanceType_succ {n : Nat} (hE : SE w ρ n) : SI w ρ (n + 1) := by
  intro oi ow c st x st' id h
  obtain ⟨name, i⟩ := x
  simp only [instanceType] at h
  split at h
  · rename_i id0 hl
    cases h
    exact ⟨Frame.refl _, fun hP _ => ⟨hP, hP.1.inst i _ hl⟩⟩
  · cases h
  · split at h
    · cases h
    · rename_i exports hex
      split at h
      · rename_i st1 hloop
        cases h
        generalize hitf0 : ({ id := idOfName name, uses := [], exports := [] } : Interface) = itf0 at hloop
        have hfr0 : Frame st (Decode.addInterface st itf0).1 := Frame.ofAddInterface st itf0
        have hsz0 : Types.size (Decode.addInterface st itf0).1.types = Types.size st.types + 1 := by
          simp [Decode.addInterface, Types.size] <;> omega
        have hlen0 : (Decode.addInterface st itf0).1.types.interfaces.length = st.types.interfaces.length + 1 := by
          simp [Decode.addInterface]
        obtain ⟨fO, kk⟩ := instLoop_ok (hE (st.types.interfaces.length :: oi) ow (c + 1)) exports _ _ hloop
        have hfr : Frame st st1 :=
          ⟨Ext.skipI hfr0.ext fO.ext (Nat.le_refl _), Nat.le_trans hfr0.size fO.size,
            fun b s hb => fO.rmap b s (hfr0.rmap b s hb)⟩
        refine ⟨⟨hfr.ext, hfr.size, hfr.rmap⟩, fun hP hcons => ?_⟩
        have hcons1 : Cons ρ st1 := hcons
        have p0 : InvR w ρ (st.types.interfaces.length :: oi) ow (c + 1) (Decode.addInterface st itf0).1 := by
          refine ⟨hP.1.openI hfr0.ext hsz0 rfl rfl, ?_, ?_⟩
          · intro j hj
            rw [hlen0]
            rcases List.mem_cons.mp hj with rfl | hj
            · omega
            · have := hP.2.1 j hj; omega
          · intro j hj
            exact hP.2.2 j hj
        have hitf : ∃ itf, (Decode.addInterface st itf0).1.types.interfaces[st.types.interfaces.length]? = some itf ∧
            itf.exports = [] := ⟨itf0, by simp [Decode.addInterface], by rw [← hitf0]⟩
        obtain ⟨ks', p1, ⟨itf1, hitf1, hexp1⟩, hall⟩ := kk [] [] p0 hitf trivial hcons1
        simp only [List.nil_append] at hall
        have hclose : Inv w ρ oi ow c st1 :=
          p1.1.close (fun j hj => List.mem_cons_of_mem _ hj) (fun _ hj => hj)
        have hnot : st.types.interfaces.length ∉ oi := fun hm => Nat.lt_irrefl _ (hP.2.1 _ hm)
        have hrk : RK w ρ oi ow c st1 (.instance i) (.instance st.types.interfaces.length) := by
          intro g t ht T' F he hF
          obtain ⟨g', rfl⟩ := entTree_pos ht
          simp only [entTree, hex] at ht
          obtain ⟨fr, hfr', rfl⟩ := Option.map_eq_some_iff.mp ht
          obtain ⟨F', rfl⟩ : ∃ F', F = F' + 1 := ⟨F - 1, by omega⟩
          obtain ⟨itf', hitf', hexp'⟩ := he.interfaces _ itf1 hnot hitf1
          have hb : bnd (c + 1) st1 + 2 ≤ F' := by
            have := p1.1.hc
            unfold bnd at hF ⊢; omega
          have := entTrees_fact hall g' fr hfr' T' F'
            (he.weaken (fun j hj => List.mem_cons_of_mem _ hj) (fun _ hj => hj)) hb
          simp only [Types.unfoldKind, hitf', hexp', hexp1, this, Option.map_some, renT]
        refine ⟨⟨hclose.insertInst i _ hrk, ?_, ?_⟩, hrk⟩
        · intro j hj
          exact p1.2.1 j (List.mem_cons_of_mem _ hj)
        · intro j hj
          exact p1.2.2 j hj
      · cases h
      · cases h

theorem componentType_succ {n : Nat} (hE : SE w ρ n) : SC w ρ (n + 1) := by
  intro oi ow c st x st' id h
  obtain ⟨name, ci⟩ := x
  simp only [componentType] at h
  split at h
  · rename_i id0 hl
    cases h
    exact ⟨Frame.refl _, fun hP _ => ⟨hP, hP.1.comp ci _ hl⟩⟩
  · cases h
  · split at h
    · cases h
    · rename_i ct hct
      split at h
      · rename_i st1 hloop1
        split at h
        · rename_i st2 hloop2
          cases h
          generalize hwd0 : ({ id := idOfName name, uses := [], imports := [], exports := [] } : World) = wd0
            at hloop1
          have hfr0 : Frame st (Decode.addWorld st wd0).1 := Frame.ofAddWorld st wd0
          have hsz0 : Types.size (Decode.addWorld st wd0).1.types = Types.size st.types + 1 := by
            simp [Decode.addWorld, Types.size] <;> omega
          have hlen0 : (Decode.addWorld st wd0).1.types.worlds.length = st.types.worlds.length + 1 := by
            simp [Decode.addWorld]
          have hEn := hE oi (st.types.worlds.length :: ow) (c + 1)
          have hsub : (∀ i, i ∈ ([] : List Nat) → i ∈ oi) ∧
              (∀ i, i ∈ [st.types.worlds.length] → i ∈ st.types.worlds.length :: ow) :=
            ⟨fun _ hi => (by cases hi), fun i hi => (by simp at hi; simp [hi])⟩
          obtain ⟨fO1, kk1⟩ := stepLoop_ok (w := w) (ρ := ρ) (oi' := oi) (ow' := st.types.worlds.length :: ow)
            (c' := c + 1)
            (Has := fun s ks => ∃ wd, s.types.worlds[st.types.worlds.length]? = some wd ∧ wd.imports = ks ∧
              wd.exports = [])
            hsub (fun cur ne s' hs => by
              obtain ⟨f, k⟩ := worldImportStep_ok hEn hs
              exact ⟨f, fun ks hP hH hCc => k ks [] hP hH hCc⟩) ct.imports _ _ hloop1
          refine ⟨?_, fun hP hcons => ?_⟩
          · obtain ⟨fO2, _⟩ := stepLoop_ok (w := w) (ρ := ρ) (oi' := oi) (ow' := st.types.worlds.length :: ow)
              (c' := c + 1)
              (Has := fun s ks => ∃ wd, s.types.worlds[st.types.worlds.length]? = some wd ∧ wd.imports = [] ∧
                wd.exports = ks)
              hsub (fun cur ne s' hs => by
                obtain ⟨f, k⟩ := worldExportStep_ok hEn hs
                exact ⟨f, fun ks hP hH hCc => k ks [] hP hH hCc⟩) ct.exports _ _ hloop2
            have fO := fO1.trans fO2
            exact ⟨Ext.skipW hfr0.ext fO.ext (Nat.le_refl _), Nat.le_trans hfr0.size fO.size,
              fun b s hb => fO.rmap b s (hfr0.rmap b s hb)⟩
          · have hcons2 : Cons ρ st2 := hcons
            have p0 : InvR w ρ oi (st.types.worlds.length :: ow) (c + 1) (Decode.addWorld st wd0).1 := by
              refine ⟨hP.1.openW hfr0.ext hsz0 rfl rfl, ?_, ?_⟩
              · intro j hj
                have := hP.2.1 j hj
                simpa [Decode.addWorld] using this
              · intro j hj
                rw [hlen0]
                rcases List.mem_cons.mp hj with rfl | hj
                · omega
                · have := hP.2.2 j hj; omega
            have hwd : ∃ wd, (Decode.addWorld st wd0).1.types.worlds[st.types.worlds.length]? = some wd ∧
                wd.imports = [] ∧ wd.exports = [] :=
              ⟨wd0, by simp [Decode.addWorld], by rw [← hwd0], by rw [← hwd0]⟩
            -- imports
            have hcons1 : Cons ρ st1 := by
              obtain ⟨fO2, _⟩ := stepLoop_ok (w := w) (ρ := ρ) (oi' := oi)
                (ow' := st.types.worlds.length :: ow) (c' := c + 1)
                (Has := fun s ks => ∃ wd, s.types.worlds[st.types.worlds.length]? = some wd ∧ wd.imports = [] ∧
                  wd.exports = ks)
                hsub (fun cur ne s' hs => by
                  obtain ⟨f, k⟩ := worldExportStep_ok hEn hs
                  exact ⟨f, fun ks hP hH hCc => k ks [] hP hH hCc⟩) ct.exports _ _ hloop2
              exact Cons.backO fO2 hcons2
            obtain ⟨ksI, p1, ⟨wd1, hwd1, himp1, hexp1⟩, hallI⟩ := kk1 [] [] p0 hwd trivial hcons1
            simp only [List.nil_append] at hallI
            -- exports
            obtain ⟨fO2, kk2⟩ := stepLoop_ok (w := w) (ρ := ρ) (oi' := oi) (ow' := st.types.worlds.length :: ow)
              (c' := c + 1)
              (Has := fun s ks => ∃ wd, s.types.worlds[st.types.worlds.length]? = some wd ∧ wd.imports = ksI ∧
                wd.exports = ks)
              hsub (fun cur ne s' hs => by
                obtain ⟨f, k⟩ := worldExportStep_ok hEn hs
                exact ⟨f, fun ks hP hH hCc => k ks ksI hP hH hCc⟩) ct.exports _ _ hloop2
            obtain ⟨ksE, p2, ⟨wd2, hwd2, himp2, hexp2⟩, hallE⟩ :=
              kk2 [] [] p1 ⟨wd1, hwd1, himp1, hexp1⟩ trivial hcons2
            simp only [List.nil_append] at hallE
            have hallI2 : All2 (NK w ρ oi (st.types.worlds.length :: ow) (c + 1) st2) ct.imports ksI :=
              All2.imp (fun x y hxy => ⟨hxy.1, hxy.2.monoO (fO2.ext.weaken hsub.1 hsub.2) fO2.size⟩) hallI
            have hclose : Inv w ρ oi ow c st2 :=
              p2.1.close (fun _ hj => hj) (fun j hj => List.mem_cons_of_mem _ hj)
            have hnot : st.types.worlds.length ∉ ow := fun hm => Nat.lt_irrefl _ (hP.2.2 _ hm)
            have hrk : RK w ρ oi ow c st2 (.component ci) (.component st.types.worlds.length) := by
              intro g t ht T' F he hF
              obtain ⟨g', rfl⟩ := entTree_pos ht
              simp only [entTree, hct] at ht
              split at ht
              · rename_i a b ha hb
                cases ht
                obtain ⟨F', rfl⟩ : ∃ F', F = F' + 1 := ⟨F - 1, by omega⟩
                obtain ⟨wd', hwd', himp', hexp'⟩ := he.worlds _ wd2 hnot hwd2
                have hb' : bnd (c + 1) st2 + 2 ≤ F' := by
                  have := p2.1.hc
                  unfold bnd at hF ⊢; omega
                have hw' := he.weaken (oi' := oi) (ow' := st.types.worlds.length :: ow)
                  (fun _ hj => hj) (fun j hj => List.mem_cons_of_mem _ hj)
                have h1 := entTrees_fact hallI2 g' a ha T' F' hw' hb'
                have h2 := entTrees_fact hallE g' b hb T' F' hw' hb'
                simp only [Types.unfoldKind, hwd', himp', hexp', himp2, hexp2, h1, h2, renT]
              · cases ht
            refine ⟨⟨hclose.insertComp ci _ hrk, ?_, ?_⟩, hrk⟩
            · intro j hj
              exact p2.2.1 j hj
            · intro j hj
              exact p2.2.2 j (List.mem_cons_of_mem _ hj)
        · cases h
        · cases h
      · cases h
      · cases h

/-- **the conversion is faithful**: every call of the four mutually recursive functions keeps the
cache invariant and returns an item that denotes the validator's tree -/
theorem mutual_ok (hn : NamesOk w) : ∀ n, SE w ρ n ∧ ST w ρ n ∧ SI w ρ n ∧ SC w ρ n
  | 0 => by
    refine ⟨?_, ?_, ?_, ?_⟩ <;> intro oi ow c st x st' y h
    · simp [entity] at h
    · simp [ty] at h
    · simp [instanceType] at h
    · simp [componentType] at h
  | n + 1 => by
    obtain ⟨hE, hT, hI, hC⟩ := mutual_ok hn n
    exact ⟨entity_succ hn hT hI hC, ty_succ hn hI hC, instanceType_succ hE, componentType_succ hE⟩

end

end Wac.Decode
