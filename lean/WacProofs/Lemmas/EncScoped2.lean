import WacProofs.Lemmas.EncScoped
import WacProofs.Lemmas.Toposort
/-
  The scoping invariant through `encode_imports` as a whole and through the loop over the
  non-import nodes, the exports loop and the name section.
-/
namespace Wac
open Wac.Spec

/-- the argument list of an instantiate item: the arguments for the argument edges of an
    instantiation node in adjacency order, then the implicit arguments recorded for it (`Imp`) -/
def ArgsOk (g : GraphVal) (Imp : Nat → List (Str × Kind × Nat)) (args : List (Str × Kind × Nat)) : Prop :=
  ∃ n ∈ g.nodes, ∃ slot sat p, n.kind = .instantiation slot sat ∧ g.pkg? slot = some p ∧
    ∃ E, args = E ++ Imp n.id ∧ E.map (·.1) = n.args.map (·.1)

/-- the implicit arguments `encode_imports` recorded are named like the unsatisfied imports of
    the node's package, in world order -/
def ImpNamed (g : GraphVal) (Imp : Nat → List (Str × Kind × Nat)) : Prop :=
  ∀ n ∈ g.nodes, ∀ slot sat p, n.kind = .instantiation slot sat → g.pkg? slot = some p →
    (Imp n.id).map (·.1) = (unsatisfied p sat).map (·.name)

/-- a not yet encoded node still has the implicit arguments `encode_imports` recorded -/
def ImpFrozen (Imp : Nat → List (Str × Kind × Nat)) (st : EncSt) : Prop :=
  ∀ id, natGet st.nodeIdx id = none → implicitList st.implicit id = Imp id

/-- the items emitted so far stay -/
def ItemsLe (st st' : EncSt) : Prop := ∃ D, st'.items = st.items ++ D

theorem ItemsLe.refl (st : EncSt) : ItemsLe st st := ⟨[], by simp⟩
theorem ItemsLe.trans {a b c : EncSt} (h1 : ItemsLe a b) (h2 : ItemsLe b c) : ItemsLe a c := by
  obtain ⟨D1, e1⟩ := h1
  obtain ⟨D2, e2⟩ := h2
  exact ⟨D1 ++ D2, by rw [e2, e1, List.append_assoc]⟩
theorem emit_itemsLe (st : EncSt) (it : Item) : ItemsLe st (st.emit it).1 := ⟨[it], emit_items st it⟩
theorem ItemsLe.mem {st st' : EncSt} (h : ItemsLe st st') {it : Item} (hm : it ∈ st.items) : it ∈ st'.items := by
  obtain ⟨D, e⟩ := h; rw [e]; exact List.mem_append.mpr (Or.inl hm)

theorem impRel_names {w : WState} {agg : Agg} {enc : List (Str × (Kind × Nat))} {A : List (Str × Kind × Nat)}
    {E : List (Str × Nat)} (h : ImpRel w agg enc A E) : A.map (·.1) = E.map (·.1) := by
  induction A generalizing E with
  | nil => cases E <;> simp_all [ImpRel]
  | cons a A ih =>
    cases E with
    | nil => simp [ImpRel] at h
    | cons e E =>
      simp only [ImpRel] at h
      simp [h.1.1, ih h.2]

theorem importDeps_nodeIdx (ds : List Str) (st : EncSt) : (importDeps ds st).nodeIdx = st.nodeIdx := by
  induction ds generalizing st with
  | nil => rfl
  | cons d ds ih =>
    simp only [importDeps]
    split
    · exact ih st
    · rw [ih]; simp [emit_nodeIdx]

/-- `encode_imports` establishes the invariant -/
theorem encodeImports_sinv {g : GraphVal} {A : Str → Kind → Prop} {B : List (Str × Kind × Nat) → Prop}
    {C : Str → Kind → Prop} (wf : WF g)
    {importNodes : List Nat} (hcomplete : ∀ nd ∈ g.nodes, nd.isImport = true → nd.id ∈ importNodes)
    {agg : Agg} (hagg : aggOf g importNodes = some agg)
    (hA : ∀ e ∈ fixedImports agg, A e.1 e.2.kind ∧ (e.2.kind = .instance → ∀ d ∈ e.2.deps, A d .instance))
    {st1 : EncSt} (he : encodeImports g importNodes {} = .ok st1) :
    SInv g A B C st1 ∧ ImpNamed g (fun id => implicitList st1.implicit id) := by
  have hkeys := aggOf_keysNodup hagg
  have hexk := explicitKind_holds wf hcomplete hagg
  unfold encodeImports at he
  unfold aggOf at hagg
  cases hr : resolveInsts g g.nodes {} with
  | error e => simp [hr] at he
  | panic s => simp [hr] at he
  | ok r =>
    simp only [hr] at he hagg
    cases hx : resolveExplicit g r.first importNodes r.agg [] with
    | error e => simp [hx] at he
    | panic s => simp [hx] at he
    | ok ae =>
      obtain ⟨agg', explicit⟩ := ae
      simp only [hx, Option.some.injEq] at he hagg
      subst hagg
      generalize hl : (((agg'.imports.map fun e => (e.1, agg'.fix e.2)).filter fun e => e.2.kind = .instance) ++
        ((agg'.imports.map fun e => (e.1, agg'.fix e.2)).filter fun e => ¬ (e.2.kind = .instance))) = l at he
      have hlmem : ∀ e, e ∈ l → e ∈ fixedImports agg' := by
        intro e he'
        rw [← hl] at he'
        rcases List.mem_append.mp he' with h1 | h1 <;> exact (List.mem_filter.mp h1).1
      have hAll := importAll_sinv (g := g) (A := A) (B := B) (C := C) l (st := {}) (enc := []) [] SInv.init
        (by intro nm k idx hq; simp [amGet] at hq) (fun e he' => hA e (hlmem e he'))
      generalize hgen : importAll id l {} [] = res at he hAll
      obtain ⟨stA, enc⟩ := res
      obtain ⟨hsA, _, hrA, _, _⟩ := hAll
      simp only [List.nil_append] at hrA
      have hA0 : stA.implicit = [] := by
        have := importAll_frame id l (st := {}) (enc := [])
        rw [hgen] at this
        exact this
      cases hfi : fillImplicit agg' enc r.implicit stA with
      | error e => simp [hfi] at he
      | panic s => simp [hfi] at he
      | ok stB =>
        simp only [hfi] at he
        obtain ⟨hsB, hcB, hiB, hnB, hpB⟩ := fillImplicit_sinv r.implicit hsA hrA hfi
        obtain ⟨_, _, _, _, _, himpB⟩ := fillImplicit_spec r.implicit hfi (G stA)
        obtain ⟨X', hX', hXk, _⟩ := resolveExplicit_spec importNodes hx
        simp only [List.nil_append] at hX'
        subst hX'
        have hrB : EncRange stB l enc := by
          intro nm k idx hq
          obtain ⟨h1, h2⟩ := hrA nm k idx hq
          exact ⟨by rw [hcB]; exact h1, h2⟩
        have hkind : ∀ e ∈ explicit, ∀ k idx, amGet enc (agg'.canonical e.1) = some (k, idx) → k = kindOf g e.2 := by
          intro e he' k idx hq
          obtain ⟨nd, hnd, hkd⟩ := hXk e.1 e.2 he'
          obtain ⟨_, ty, hm, hk⟩ := hrA _ _ _ hq
          obtain ⟨e0, he0, heq⟩ := List.mem_map.mp (hlmem _ hm)
          have h1 : e0.1 = agg'.canonical e.1 := congrArg Prod.fst heq
          have h2' : agg'.fix e0.2 = ty := congrArg Prod.snd heq
          have h2 : ty.kind = e0.2.kind := by rw [← h2']; rfl
          have h3 := hexk nd (node?_mem hnd).1 e.1 hkd
          have h4 : amGet agg'.imports (agg'.canonical e.1) = some e0.2 := by
            rw [← h1]; exact amGet_of_mem_nodup hkeys he0
          simp only [aggKind, h4, Option.map_some, Option.some.injEq] at h3
          rw [kindOf_of_node? hnd, hk, h2, h3]
        obtain ⟨hs1, hc1, hi1, him1, hp1⟩ := fillExplicit_sinv explicit hsB hrB hkind he
        refine ⟨hs1, ?_⟩
        intro n hn slot sat p hk hp
        show (implicitList st1.implicit n.id).map (·.1) = _
        rw [him1]
        obtain ⟨Aa, hAa, hR⟩ := himpB n.id
        have h0 : implicitList stA.implicit n.id = [] := by rw [hA0]; rfl
        rw [h0, List.nil_append] at hAa
        rw [hAa, impRel_names hR]
        have hrimp : r.implicit = g.nodes.flatMap (implicitOfNode g) := by
          have := resolveInsts_implicit g.nodes hr
          simpa using this
        rw [hrimp, filter_flatMap_implicit g g.nodes wf.idsNodup n hn]
        simp [implicitOfNode, hk, hp, List.map_map, Function.comp_def]

/-! ### the loop over the non-import nodes -/

theorem pkgComponent_sinv {g : GraphVal} {A B C} {o : Opts} {st : EncSt} {slot : Nat} {p : PkgVal} (h : SInv g A B C st)
    (hA : o.define = false → A (pkgImportName p) .component) :
    SInv g A B C (pkgComponent o st slot p).1 ∧ CntLe st (pkgComponent o st slot p).1 ∧
      (pkgComponent o st slot p).2 < (pkgComponent o st slot p).1.cnt .component ∧
      (pkgComponent o st slot p).1.nodeIdx = st.nodeIdx ∧ (pkgComponent o st slot p).1.implicit = st.implicit ∧
      ItemsLe st (pkgComponent o st slot p).1 := by
  unfold pkgComponent
  cases hq : natGet st.pkgs slot with
  | some c => exact ⟨h, CntLe.refl _, h.pkgs slot c hq, rfl, rfl, ItemsLe.refl _⟩
  | none =>
    simp only
    by_cases hd : o.define = true
    · simp only [hd, ↓reduceIte]
      have h1 : SInv g A B C (st.emit (.component p.bytesId)).1 := h.emit_plain _ rfl (by simp) (by simp) (by simp)
      have hlt := emit_snd_lt st (.component p.bytesId) .component rfl
      refine ⟨?_, fun k => emit_cntLe st (.component p.bytesId) k, hlt, by simp [emit_nodeIdx], by simp [emit_implicit],
        ⟨[.component p.bytesId], by simp [emit_items]⟩⟩
      apply h1.setPkgs
      intro s c hq'
      rw [natGet_snoc, emit_pkgs] at hq'
      cases hq0 : natGet st.pkgs s with
      | some x =>
        simp only [hq0, Option.some.injEq] at hq'
        subst hq'
        exact h1.pkgs s x (by rw [emit_pkgs]; exact hq0)
      | none =>
        simp only [hq0] at hq'
        split at hq'
        · injection hq' with hq'; rw [← hq']; exact hlt
        · cases hq'
    · have hd' : o.define = false := by simpa using hd
      simp only [hd', Bool.false_eq_true, ↓reduceIte]
      have h1 := h.typeDef
      have h2 := h1.import (pkgImportName p) .component (hA hd')
      have hlt := emit_snd_lt (st.emit .typeDef).1 (.import (pkgImportName p) .component) .component rfl
      refine ⟨?_, fun k => Nat.le_trans (emit_cntLe st .typeDef k)
        (emit_cntLe (st.emit .typeDef).1 (.import (pkgImportName p) .component) k), hlt, by simp [emit_nodeIdx],
        by simp [emit_implicit], ⟨[.typeDef, .import (pkgImportName p) .component], by simp [emit_items]⟩⟩
      apply h2.setPkgs
      intro s c hq'
      rw [natGet_snoc, emit_pkgs, emit_pkgs] at hq'
      cases hq0 : natGet st.pkgs s with
      | some x =>
        simp only [hq0, Option.some.injEq] at hq'
        subst hq'
        exact h2.pkgs s x (by rw [emit_pkgs, emit_pkgs]; exact hq0)
      | none =>
        simp only [hq0] at hq'
        split at hq'
        · injection hq' with hq'; rw [← hq']; exact hlt
        · cases hq'

theorem explicitArgs_range {g : GraphVal} {A B C} {st : EncSt} (h : SInv g A B C st) (inc : List (EdgeW × Nat))
    {args : List (Str × Kind × Nat)} (he : explicitArgs g st inc = .ok args) :
    (∀ a ∈ args, a.2.2 < st.cnt a.2.1) ∧ args.map (·.1) = (Node.argsOf inc).map (·.1) := by
  induction inc generalizing args with
  | nil =>
    simp only [explicitArgs] at he
    injection he with he; subst he
    exact ⟨by simp, rfl⟩
  | cons e inc ih =>
    obtain ⟨w, src⟩ := e
    simp only [explicitArgs] at he
    cases hn : g.node? src with
    | none => simp [hn] at he
    | some sn =>
      simp only [hn] at he
      cases hq : natGet st.nodeIdx src with
      | none => simp [hq] at he
      | some idx =>
        simp only [hq] at he
        cases w with
        | arg i name =>
          simp only at he
          cases hr : explicitArgs g st inc with
          | error e => simp [hr] at he
          | panic s => simp [hr] at he
          | ok l =>
            simp only [hr] at he
            injection he with he; subst he
            obtain ⟨r1, r2⟩ := ih hr
            refine ⟨?_, by simp [Node.argsOf, r2]⟩
            intro a ha
            rcases List.mem_cons.mp ha with e1 | e1
            · subst e1
              have := h.nodes src idx hq
              rwa [kindOf_of_node? hn] at this
            · exact r1 a e1
        | «alias» nm => simp at he
        | dep => simp at he

theorem natGet_filter_self {β} (m : List (Nat × β)) (n : Nat) : natGet (m.filter fun e => e.1 != n) n = none := by
  induction m with
  | nil => rfl
  | cons e m ih =>
    by_cases he : e.1 = n
    · rw [List.filter_cons_of_neg (by simp [he])]; exact ih
    · rw [List.filter_cons_of_pos (by simpa using he), natGet_cons]; simp [he, ih]

theorem implicitList_filter (m : List (Nat × List (Str × Kind × Nat))) (n k : Nat) :
    ∀ a ∈ implicitList (m.filter fun e => e.1 != n) k, a ∈ implicitList m k := by
  intro a ha
  by_cases hk : k = n
  · subst hk
    simp [implicitList, natGet_filter_self] at ha
  · simpa [implicitList, natGet_filter_ne m n k hk] using ha

/-- what one node's encoding keeps -/
structure NodeStep (g : GraphVal) (A : Str → Kind → Prop) (C : Str → Kind → Prop)
    (Imp : Nat → List (Str × Kind × Nat)) (st st' : EncSt) (id idx : Nat) : Prop where
  sinv : SInv g A (ArgsOk g Imp) C st'
  items : ItemsLe st st'
  le : CntLe st st'
  lt : idx < st'.cnt (kindOf g id)
  nodeIdx : st'.nodeIdx = st.nodeIdx
  implicit : ∀ m, m ≠ id → natGet st'.implicit m = natGet st.implicit m

theorem encInstantiation_sinv {g : GraphVal} {A C Imp} {o : Opts} {st st' : EncSt} {n : Node} {slot : Nat} {sat : List Nat}
    {idx : Nat} (wf : WF g) (hn : n ∈ g.nodes) (hk : n.kind = .instantiation slot sat)
    (h : SInv g A (ArgsOk g Imp) C st) (hi : ImpFrozen Imp st) (hnone : natGet st.nodeIdx n.id = none)
    (hA : ∀ p, g.pkg? slot = some p → o.define = false → A (pkgImportName p) .component)
    (he : encInstantiation g o st n slot = .ok (st', idx)) : NodeStep g A C Imp st st' n.id idx := by
  unfold encInstantiation at he
  cases hp : g.pkg? slot with
  | none => simp [hp] at he
  | some p =>
    simp only [hp] at he
    obtain ⟨h1, hle1, hlt1, hn1, hi1, hit1⟩ := pkgComponent_sinv (o := o) (slot := slot) (p := p) h (hA p hp)
    generalize pkgComponent o st slot p = r at he h1 hle1 hlt1 hn1 hi1 hit1
    cases hx : explicitArgs g r.1 n.inc with
    | error e => simp [hx] at he
    | panic s => simp [hx] at he
    | ok args =>
      simp only [hx] at he
      injection he with he
      obtain ⟨ha1, ha2⟩ := explicitArgs_range h1 n.inc hx
      have h2 : SInv g A (ArgsOk g Imp) C { r.1 with implicit := r.1.implicit.filter fun e => e.1 != n.id } :=
        h1.setImplicit _ (fun m a ha => h1.implicit m a (implicitList_filter _ _ _ a ha))
      have himpl : ∀ a ∈ (natGet r.1.implicit n.id).getD [], a.2.2 < r.1.cnt a.2.1 := fun a ha => h1.implicit n.id a ha
      have hop : operandsOk r.1.cnt (.instantiate r.2 (args ++ (natGet r.1.implicit n.id).getD [])) = true := by
        simp only [operandsOk, Bool.and_eq_true, decide_eq_true_eq, List.all_eq_true, List.mem_append]
        refine ⟨hlt1, ?_⟩
        rintro a (ha | ha)
        · exact ha1 a ha
        · exact himpl a ha
      have hargs : ArgsOk g Imp (args ++ (natGet r.1.implicit n.id).getD []) := by
        refine ⟨n, hn, slot, sat, p, hk, hp, args, ?_, ha2⟩
        have := hi n.id hnone
        rw [← hi1] at this
        rw [← this]; rfl
      have h3 := h2.emit (.instantiate r.2 (args ++ (natGet r.1.implicit n.id).getD [])) hop (by simp)
        (by intro c a e; injection e with e1 e2; subst e2; exact hargs) (by simp)
      have hst := congrArg Prod.fst he
      have hidx := congrArg Prod.snd he
      simp only at hst hidx
      rw [eq_comm] at hst hidx
      refine ⟨by rw [hst]; exact h3, ?_, ?_, ?_, ?_, ?_⟩
      · rw [hst]
        exact hit1.trans (emit_itemsLe ({ r.1 with implicit := r.1.implicit.filter fun e => e.1 != n.id } : EncSt) _)
      · rw [hst]; intro k
        have := emit_cntLe ({ r.1 with implicit := r.1.implicit.filter fun e => e.1 != n.id } : EncSt)
          (.instantiate r.2 (args ++ (natGet r.1.implicit n.id).getD [])) k
        exact Nat.le_trans (hle1 k) this
      · rw [hst, hidx]
        have : kindOf g n.id = .instance := by
          rw [kindOf_of_node? (node?_of_mem wf.idsNodup hn)]
          exact wf.instKind n hn slot sat hk
        rw [this]
        exact emit_snd_lt _ _ .instance rfl
      · rw [hst, emit_nodeIdx]; exact hn1
      · intro m hm
        rw [hst, emit_implicit]
        show natGet (r.1.implicit.filter fun e => e.1 != n.id) m = _
        rw [natGet_filter_ne _ _ _ hm, hi1]

theorem encAlias_sinv {g : GraphVal} {A C Imp} {st st' : EncSt} {n : Node} {idx : Nat} (wf : WF g) (hn : n ∈ g.nodes)
    (h : SInv g A (ArgsOk g Imp) C st) (he : encAlias g st n = .ok (st', idx)) : NodeStep g A C Imp st st' n.id idx := by
  unfold encAlias at he
  cases ha : n.aliasSource with
  | none => simp [ha] at he
  | some se =>
    obtain ⟨src, en⟩ := se
    simp only [ha] at he
    cases hs : g.node? src with
    | none => simp [hs] at he
    | some sn =>
      simp only [hs] at he
      by_cases hki : sn.ty.kind = .instance
      · simp only [hki, ne_eq, not_true_eq_false, ↓reduceIte] at he
        cases hq : natGet st.nodeIdx src with
        | none => simp [hq] at he
        | some inst =>
          simp only [hq] at he
          injection he with he
          have hlt := h.nodes src inst hq
          rw [kindOf_of_node? hs, hki] at hlt
          have h1 := h.emit_plain (.aliasExport inst n.ty.kind en) (by simpa [operandsOk] using hlt) (by simp) (by simp)
            (by simp)
          have hst : st' = (st.emit (.aliasExport inst n.ty.kind en)).1 := by rw [he]
          have hidx : idx = (st.emit (.aliasExport inst n.ty.kind en)).2 := by rw [he]
          refine ⟨by rw [hst]; exact h1, by rw [hst]; exact emit_itemsLe _ _, by rw [hst]; exact emit_cntLe _ _, ?_,
            by rw [hst, emit_nodeIdx], fun m _ => by rw [hst, emit_implicit]⟩
          rw [hst, hidx, kindOf_of_node? (node?_of_mem wf.idsNodup hn)]
          exact emit_snd_lt _ _ n.ty.kind rfl
      · simp [hki] at he

theorem encDefinition_sinv {g : GraphVal} {A C Imp} {st st' : EncSt} {n : Node} {idx : Nat} (wf : WF g) (hn : n ∈ g.nodes)
    (hk : n.kind = .definition) (hC : ∀ name, n.exportName = some name → C name .type)
    (h : SInv g A (ArgsOk g Imp) C st) (he : encDefinition st n = .ok (st', idx)) :
    NodeStep g A C Imp st st' n.id idx := by
  unfold encDefinition at he
  cases hx : n.exportName with
  | none => simp [hx] at he
  | some name =>
    simp only [hx] at he
    injection he with he
    have hd : SInv g A (ArgsOk g Imp) C (defTypeIndex st n).1 ∧ CntLe st (defTypeIndex st n).1 ∧
        (defTypeIndex st n).2 < (defTypeIndex st n).1.cnt .type ∧ (defTypeIndex st n).1.nodeIdx = st.nodeIdx ∧
        (defTypeIndex st n).1.implicit = st.implicit ∧ ItemsLe st (defTypeIndex st n).1 := by
      unfold defTypeIndex
      cases hb : n.defAlias.bind (natGet st.nodeIdx) with
      | some i =>
        simp only
        refine ⟨h, CntLe.refl _, ?_, by first | rfl | trivial, by first | rfl | trivial, ItemsLe.refl _⟩
        cases hda : n.defAlias with
        | none => simp [hda] at hb
        | some m =>
          simp only [hda, Option.bind_some] at hb
          have := h.nodes m i hb
          rwa [wf.defAliasType n hn m hda] at this
      | none =>
        simp only
        exact ⟨h.typeDef, emit_cntLe _ _, emit_snd_lt _ _ .type rfl, emit_nodeIdx _ _, emit_implicit _ _,
          emit_itemsLe _ _⟩
    generalize defTypeIndex st n = r at he hd
    obtain ⟨h1, hle1, hlt1, hn1, hi1, hit1⟩ := hd
    have h2 := h1.emit (.export name .type r.2) (by simpa [operandsOk] using hlt1) (by simp) (by simp)
      (by intro n' k' i' e; injection e with e1 e2 e3; subst e1 e2; exact hC name hx)
    have hst : st' = (r.1.emit (.export name .type r.2)).1 := by rw [he]
    have hidx : idx = (r.1.emit (.export name .type r.2)).2 := by rw [he]
    refine ⟨by rw [hst]; exact h2, by rw [hst]; exact hit1.trans (emit_itemsLe _ _),
      by rw [hst]; exact hle1.trans (emit_cntLe _ _), ?_,
      by rw [hst, emit_nodeIdx]; exact hn1, fun m _ => by rw [hst, emit_implicit, hi1]⟩
    rw [hst, hidx, kindOf_of_node? (node?_of_mem wf.idsNodup hn), wf.defKind n hn hk]
    exact emit_snd_lt _ _ .type rfl

/-- the `unlocked-dep` component imports are allowed -/
def PkgImportsOk (g : GraphVal) (o : Opts) (A : Str → Kind → Prop) : Prop :=
  ∀ n ∈ g.nodes, ∀ slot sat p, n.kind = .instantiation slot sat → g.pkg? slot = some p → o.define = false →
    A (pkgImportName p) .component

/-- the exports of the definitions are allowed -/
def DefExportsOk (g : GraphVal) (C : Str → Kind → Prop) : Prop :=
  ∀ n ∈ g.nodes, n.kind = .definition → ∀ name, n.exportName = some name → C name .type

theorem pkgComponent_nodeIdx (o : Opts) (st : EncSt) (slot : Nat) (p : PkgVal) :
    (pkgComponent o st slot p).1.nodeIdx = st.nodeIdx := by
  unfold pkgComponent
  split
  · rfl
  · simp only
    split <;> simp [emit_nodeIdx]

theorem encInstantiation_nodeIdx {g : GraphVal} {o : Opts} {st st' : EncSt} {n : Node} {slot idx : Nat}
    (he : encInstantiation g o st n slot = .ok (st', idx)) : st'.nodeIdx = st.nodeIdx := by
  unfold encInstantiation at he
  cases hp : g.pkg? slot with
  | none => simp [hp] at he
  | some p =>
    simp only [hp] at he
    cases hx : explicitArgs g (pkgComponent o st slot p).1 n.inc with
    | error e => simp [hx] at he
    | panic s => simp [hx] at he
    | ok args =>
      simp only [hx] at he
      injection he with he
      have := congrArg Prod.fst he
      simp only at this
      rw [← this, emit_nodeIdx]
      exact pkgComponent_nodeIdx o st slot p

/-- `node_indexes.insert` after one node's encoding -/
theorem encNode_finish {g : GraphVal} {A C Imp} {st st1 : EncSt} {id idx : Nat}
    (hi : ImpFrozen Imp st) (hs : NodeStep g A C Imp st st1 id idx) :
    SInv g A (ArgsOk g Imp) C { st1 with nodeIdx := st1.nodeIdx ++ [(id, idx)] } ∧
      ImpFrozen Imp { st1 with nodeIdx := st1.nodeIdx ++ [(id, idx)] } ∧
      CntLe st { st1 with nodeIdx := st1.nodeIdx ++ [(id, idx)] } ∧
      ItemsLe st { st1 with nodeIdx := st1.nodeIdx ++ [(id, idx)] } := by
  refine ⟨?_, ?_, fun k => hs.le k, hs.items⟩
  · apply hs.sinv.setNodeIdx
    intro m i hq'
    rw [natGet_snoc] at hq'
    cases hq0 : natGet st1.nodeIdx m with
    | some x =>
      simp only [hq0, Option.some.injEq] at hq'
      subst hq'
      exact hs.sinv.nodes m x hq0
    | none =>
      simp only [hq0] at hq'
      split at hq'
      · rename_i hm
        injection hq' with hq'
        subst hm hq'
        exact hs.lt
      · cases hq'
  · intro m hnone
    simp only at hnone ⊢
    rw [natGet_snoc] at hnone
    cases hq0 : natGet st1.nodeIdx m with
    | some x => simp [hq0] at hnone
    | none =>
      simp only [hq0] at hnone
      have hne : m ≠ id := by
        intro e
        simp [e] at hnone
      have h1 := hi m (by rw [← hs.nodeIdx]; exact hq0)
      simpa [implicitList, hs.implicit m hne] using h1

theorem encNode_sinv {g : GraphVal} {A C Imp} {o : Opts} {st st' : EncSt} {id : Nat} (wf : WF g)
    (hA : PkgImportsOk g o A) (hC : DefExportsOk g C) (h : SInv g A (ArgsOk g Imp) C st) (hi : ImpFrozen Imp st)
    (he : encNode g o st id = .ok st') :
    SInv g A (ArgsOk g Imp) C st' ∧ ImpFrozen Imp st' ∧ CntLe st st' ∧ ItemsLe st st' := by
  unfold encNode at he
  cases hn : g.node? id with
  | none => simp [hn] at he
  | some n =>
    simp only [hn] at he
    obtain ⟨hmem, hid⟩ := node?_mem hn
    cases hk : n.kind with
    | definition =>
      simp only [hk] at he
      cases hr : encDefinition st n with
      | error e => simp [hr] at he
      | panic s => simp [hr] at he
      | ok r =>
        obtain ⟨st1, idx⟩ := r
        simp only [hr] at he
        cases hq : natGet st1.nodeIdx id with
        | some x => simp [hq] at he
        | none =>
          simp only [hq] at he
          injection he with he
          subst he
          exact encNode_finish hi (hid ▸ encDefinition_sinv wf hmem hk (hC n hmem hk) h hr)
    | instantiation slot sat =>
      simp only [hk] at he
      cases hr : encInstantiation g o st n slot with
      | error e => simp [hr] at he
      | panic s => simp [hr] at he
      | ok r =>
        obtain ⟨st1, idx⟩ := r
        simp only [hr] at he
        cases hq : natGet st1.nodeIdx id with
        | some x => simp [hq] at he
        | none =>
          simp only [hq] at he
          injection he with he
          subst he
          have hfree : natGet st.nodeIdx n.id = none := by
            rw [← encInstantiation_nodeIdx hr, hid]; exact hq
          exact encNode_finish hi (hid ▸ encInstantiation_sinv wf hmem hk h hi hfree
            (fun p hp hd => hA n hmem slot sat p hk hp hd) hr)
    | «alias» =>
      simp only [hk] at he
      cases hr : encAlias g st n with
      | error e => simp [hr] at he
      | panic s => simp [hr] at he
      | ok r =>
        obtain ⟨st1, idx⟩ := r
        simp only [hr] at he
        cases hq : natGet st1.nodeIdx id with
        | some x => simp [hq] at he
        | none =>
          simp only [hq] at he
          injection he with he
          subst he
          exact encNode_finish hi (hid ▸ encAlias_sinv wf hmem h hr)
    | «import» nm => simp [hk] at he

theorem encNodes_sinv {g : GraphVal} {A C Imp} {o : Opts} (wf : WF g) (hA : PkgImportsOk g o A)
    (hC : DefExportsOk g C) (ids : List Nat)
    {st st' : EncSt} (h : SInv g A (ArgsOk g Imp) C st) (hi : ImpFrozen Imp st)
    (he : encNodes g o ids st = .ok st') : SInv g A (ArgsOk g Imp) C st' ∧ ItemsLe st st' := by
  induction ids generalizing st with
  | nil => simp only [encNodes] at he; injection he with he; subst he; exact ⟨h, ItemsLe.refl _⟩
  | cons id ids ih =>
    simp only [encNodes] at he
    cases h1 : encNode g o st id with
    | error e => simp [h1] at he
    | panic s => simp [h1] at he
    | ok st1 =>
      simp only [h1] at he
      obtain ⟨r1, r2, _, r4⟩ := encNode_sinv wf hA hC h hi h1
      obtain ⟨q1, q2⟩ := ih r1 r2 he
      exact ⟨q1, r4.trans q2⟩

/-! ### exports and names -/

theorem encExports_sinv {g : GraphVal} {A B C} (exps : List (Str × Nat)) {st st' : EncSt} (h : SInv g A B C st)
    (hC : ∀ e ∈ exps, ∀ n, g.node? e.2 = some n → C e.1 n.ty.kind)
    (he : encExports g exps st = .ok st') : SInv g A B C st' ∧ ItemsLe st st' := by
  induction exps generalizing st with
  | nil => simp only [encExports] at he; injection he with he; subst he; exact ⟨h, ItemsLe.refl _⟩
  | cons e exps ih =>
    obtain ⟨name, id⟩ := e
    have hC' : ∀ e ∈ exps, ∀ n, g.node? e.2 = some n → C e.1 n.ty.kind :=
      fun e he' => hC e (List.mem_cons_of_mem _ he')
    simp only [encExports] at he
    cases hn : g.node? id with
    | none => simp [hn] at he
    | some n =>
      simp only [hn] at he
      split at he
      · exact ih h hC' he
      · cases hq : natGet st.nodeIdx id with
        | none => simp [hq] at he
        | some idx =>
          simp only [hq] at he
          have hlt := h.nodes id idx hq
          rw [kindOf_of_node? hn] at hlt
          obtain ⟨q1, q2⟩ := ih (h.emit (.export name n.ty.kind idx) (by simpa [operandsOk] using hlt) (by simp) (by simp)
            (by intro n' k' i' e; injection e with e1 e2 e3; subst e1 e2
                exact hC (name, id) (List.mem_cons_self ..) n hn)) hC' he
          exact ⟨q1, (emit_itemsLe _ _).trans q2⟩

theorem nameEntries_range {g : GraphVal} {A B C} {st : EncSt} (h : SInv g A B C st) (k : Kind) (nodes : List Node)
    (hnodes : ∀ n ∈ nodes, g.node? n.id = some n) {l : List (Kind × Nat × Str)}
    (he : nameEntries st k nodes = .ok l) : ∀ e ∈ l, e.2.1 < st.cnt e.1 := by
  induction nodes generalizing l with
  | nil => simp only [nameEntries] at he; injection he with he; subst he; simp
  | cons n nodes ih =>
    have hn' : ∀ m ∈ nodes, g.node? m.id = some m := fun m hm => hnodes m (List.mem_cons_of_mem _ hm)
    simp only [nameEntries] at he
    cases hnm : n.name with
    | none => simp only [hnm] at he; exact ih hn' he
    | some nm =>
      simp only [hnm] at he
      split at he
      · exact ih hn' he
      · rename_i hk
        have hk : n.ty.kind = k := by simpa using hk
        cases hq : natGet st.nodeIdx n.id with
        | none => simp [hq] at he
        | some idx =>
          simp only [hq] at he
          cases hr : nameEntries st k nodes with
          | error e => simp [hr] at he
          | panic s => simp [hr] at he
          | ok l' =>
            simp only [hr] at he
            injection he with he; subst he
            intro e hm
            rcases List.mem_cons.mp hm with e1 | e1
            · subst e1
              have := h.nodes n.id idx hq
              rwa [kindOf_of_node? (hnodes n (List.mem_cons_self ..)), hk] at this
            · exact ih hn' hr e e1

theorem allNameEntries_range {g : GraphVal} {A B C} {st : EncSt} (h : SInv g A B C st) (nodes : List Node)
    (hnodes : ∀ n ∈ nodes, g.node? n.id = some n) (ks : List Kind) {l : List (Kind × Nat × Str)}
    (he : allNameEntries st nodes ks = .ok l) : ∀ e ∈ l, e.2.1 < st.cnt e.1 := by
  induction ks generalizing l with
  | nil => simp only [allNameEntries] at he; injection he with he; subst he; simp
  | cons k ks ih =>
    simp only [allNameEntries] at he
    cases h1 : nameEntries st k nodes with
    | error e => simp [h1] at he
    | panic s => simp [h1] at he
    | ok l1 =>
      simp only [h1] at he
      cases h2 : allNameEntries st nodes ks with
      | error e => simp [h2] at he
      | panic s => simp [h2] at he
      | ok l2 =>
        simp only [h2] at he
        injection he with he; subst he
        intro e hm
        rcases List.mem_append.mp hm with e1 | e1
        · exact nameEntries_range h k nodes hnodes h1 e e1
        · exact ih h2 e e1

theorem encNames_sinv {g : GraphVal} {A B C} (wf : WF g) {st st' : EncSt} (h : SInv g A B C st)
    (he : encNames g st = .ok st') : SInv g A B C st' ∧ ItemsLe st st' := by
  unfold encNames at he
  cases h1 : allNameEntries st g.nodes [.type, .func, .instance, .component, .module, .value] with
  | error e => simp [h1] at he
  | panic s => simp [h1] at he
  | ok l =>
    simp only [h1] at he
    have hr := allNameEntries_range h g.nodes (fun n hn => node?_of_mem wf.idsNodup hn) _ h1
    cases l with
    | nil => simp only at he; injection he with he; subst he; exact ⟨h, ItemsLe.refl _⟩
    | cons e l =>
      simp only at he
      injection he with he; subst he
      exact ⟨h.emit_plain _ (by simpa [operandsOk] using hr) (by simp) (by simp) (by simp), emit_itemsLe _ _⟩

/-- the implicit arguments `encode_imports` recorded, per node -/
def impOf (st1 : EncSt) : Nat → List (Str × Kind × Nat) := fun id => implicitList st1.implicit id

/-- the stages of a successful encoding -/
structure Stages (g : GraphVal) (o : Opts) (order : List Nat) (s : Skeleton) (st1 st2 st3 : EncSt) : Prop where
  imports : encodeImports g (order.filter (isImportNode g)) {} = .ok st1
  nodes : encNodes g o (order.filter fun id => !isImportNode g id) st1 = .ok st2
  exports : encExports g g.exports st2 = .ok st3
  names : ∃ st4, encNames g st3 = .ok st4 ∧ st4.items = s

theorem encode_stages {g : GraphVal} {o : Opts} {s : Skeleton} {order : List Nat} (ht : toposort g = .ok order)
    (he : encode g o = .ok s) : ∃ st1 st2 st3, Stages g o order s st1 st2 st3 := by
  unfold encode at he
  cases hst : encodeSt g o with
  | error e => simp [hst] at he
  | panic p => simp [hst] at he
  | ok st =>
    simp only [hst] at he
    injection he with he
    subst he
    unfold encodeSt at hst
    simp only [ht] at hst
    cases h1 : encodeImports g (order.filter (isImportNode g)) {} with
    | error e => simp [h1] at hst
    | panic p => simp [h1] at hst
    | ok st1 =>
      simp only [h1] at hst
      cases h2 : encNodes g o (order.filter fun id => !isImportNode g id) st1 with
      | error e => simp [h2] at hst
      | panic p => simp [h2] at hst
      | ok st2 =>
        simp only [h2] at hst
        cases h3 : encExports g g.exports st2 with
        | error e => simp [h3] at hst
        | panic p => simp [h3] at hst
        | ok st3 =>
          simp only [h3] at hst
          exact ⟨st1, st2, st3, h1, h2, h3, st, hst, rfl⟩

theorem toposort_imports_complete {g : GraphVal} {order : List Nat} (wf : WF g) (ht : toposort g = .ok order) :
    ∀ nd ∈ g.nodes, nd.isImport = true → nd.id ∈ order.filter (isImportNode g) := by
  intro nd hnd hi
  have hin : nd.id ∈ order := (toposort_complete ht).2 _ (List.mem_map_of_mem (f := (·.id)) hnd)
  have : isImportNode g nd.id = true := by
    simp [isImportNode, node?_of_mem wf.idsNodup hnd, hi]
  exact List.mem_filter.mpr ⟨hin, this⟩

/-- the invariant at the end of the whole encoding -/
theorem encode_sinv {g : GraphVal} {A C : Str → Kind → Prop} {o : Opts} {s : Skeleton} {order : List Nat} {agg : Agg}
    (wf : WF g) (ht : toposort g = .ok order)
    (hagg : aggOf g (order.filter (isImportNode g)) = some agg)
    (hA : ∀ e ∈ fixedImports agg, A e.1 e.2.kind ∧ (e.2.kind = .instance → ∀ d ∈ e.2.deps, A d .instance))
    (hAp : PkgImportsOk g o A) (hCd : DefExportsOk g C)
    (hCe : ∀ e ∈ g.exports, ∀ n, g.node? e.2 = some n → C e.1 n.ty.kind)
    {st1 st2 st3 : EncSt} (hs : Stages g o order s st1 st2 st3) :
    ImpNamed g (impOf st1) ∧ WellScoped s = true ∧ (∀ n k, Item.import n k ∈ s → A n k) ∧
      (∀ c args, Item.instantiate c args ∈ s → ArgsOk g (impOf st1) args) ∧
      (∀ n k i, Item.export n k i ∈ s → C n k) ∧
      ItemsLe st1 st2 ∧ ItemsLe st2 st3 ∧ (∃ D, s = st3.items ++ D) := by
  obtain ⟨st4, h4, rfl⟩ := hs.names
  obtain ⟨s1, i1⟩ := encodeImports_sinv (A := A) (B := ArgsOk g (impOf st1)) (C := C) wf
    (toposort_imports_complete wf ht) hagg hA hs.imports
  obtain ⟨s2, l2⟩ := encNodes_sinv (Imp := impOf st1) wf hAp hCd _ s1 (fun _ _ => rfl) hs.nodes
  obtain ⟨s3, l3⟩ := encExports_sinv _ s2 hCe hs.exports
  obtain ⟨s4, l4⟩ := encNames_sinv wf s3 h4
  exact ⟨i1, s4.wsc, s4.imports, s4.insts, s4.exports, l2, l3, l4⟩

end Wac
