import WacProofs.Lemmas.PrinterTokChars
/-
  C13, base layer of "the parser puts only characters of the tokens into the leaves of the tree":
  the postcondition calculus (`PostC q`, the same as `Wac.Lemmas.PrinterWF.Post` with the state
  invariant `ToksChars q`), the lexer-state lemmas, `parseDocs`, the combinators (`parseToken`,
  `parseOptional`, `parseDelimited`) and the leaves (`parseIdent`, `parseString`,
  `parsePackageName`, `parsePackagePath`).
-/
namespace Wac.Lemmas.PrinterChars
open Wac Wac.Ast Wac.Lex Wac.Parse

/-- postcondition of a parse result: on success the value satisfies `P` and the characters of the
remaining tokens satisfy `q` -/
def PostC {α : Type} (q : Char → Bool) (r : PR α) (P : α → Prop) : Prop :=
  ∀ x st', r = .ok (x, st') → P x ∧ ToksChars q st'

variable {q : Char → Bool}

theorem PostC_ok {α : Type} {P : α → Prop} {x : α} {st : PState} (hx : P x) (hst : ToksChars q st) :
    PostC q (.ok (x, st) : PR α) P := by
  intro y st' h; cases h; exact ⟨hx, hst⟩

theorem PostC_error {α : Type} {P : α → Prop} {e : ParseError} : PostC q (.error e : PR α) P := by
  intro y st' h; cases h

theorem PostC_bind {α β : Type} {r : PR α} {f : α × PState → PR β} {Q : α → Prop} {P : β → Prop}
    (hr : PostC q r Q) (hf : ∀ a st1, Q a → ToksChars q st1 → PostC q (f (a, st1)) P) :
    PostC q (r >>= f) P := by
  intro y st' h
  cases r with
  | error e => cases h
  | ok p =>
    obtain ⟨a, st1⟩ := p
    obtain ⟨ha, hst1⟩ := hr a st1 rfl
    exact hf a st1 ha hst1 y st' h

/-- a bind over a plain `Except` value (no state) -/
theorem PostC_bindE {β γ : Type} {r : Except ParseError β} {f : β → PR γ} {P : γ → Prop}
    (hf : ∀ b, r = .ok b → PostC q (f b) P) : PostC q (r >>= f) P := by
  cases r with
  | error e => exact PostC_error
  | ok b => exact hf b rfl

/-- `cbind e => a st ha hst`: the goal is `PostC q (r >>= f) P`; `e : PostC q r Q`; continue with
`PostC q (f (a, st)) P` under `ha : Q a`, `hst : ToksChars q st` -/
macro "cbind " e:term " => " a:term:max st:term:max ha:term:max hst:term:max : tactic =>
  `(tactic| (refine PostC_bind $e ?_; intro $a:term $st:term $ha:term $hst:term; dsimp only))

/-! ### the lexer state -/

/-- what `next` returns: nothing at the end of input; otherwise the head token — possibly with its
`res` replaced by the nesting error — and a state whose tokens are the tail -/
theorem next_cases (st : PState) :
    (st.toks = [] ∧ st.next.1 = none ∧ st.next.2.toks = []) ∨
    ∃ a r, st.toks = a :: r ∧ st.next.2.toks = r ∧
      (st.next.1 = some a ∨ st.next.1 = some { a with res := .error .NestingTooDeep }) := by
  unfold PState.next
  cases hs : st.toks with
  | nil => left; exact ⟨rfl, rfl, rfl⟩
  | cons a r =>
    right
    refine ⟨a, r, rfl, ?_⟩
    dsimp only
    cases a.res with
    | error e => exact ⟨rfl, .inl rfl⟩
    | ok k =>
      dsimp only
      split
      · split
        · exact ⟨rfl, .inr rfl⟩
        · exact ⟨rfl, .inl rfl⟩
      · split
        · exact ⟨rfl, .inl rfl⟩
        · exact ⟨rfl, .inl rfl⟩

theorem ToksChars_next {st : PState} (h : ToksChars q st) : ToksChars q st.next.2 := by
  rcases next_cases st with ⟨_, _, h2⟩ | ⟨a, r, hs, h2, _⟩
  · intro t ht; rw [h2] at ht; cases ht
  · intro t ht; rw [h2] at ht
    exact h t (by rw [hs]; exact List.mem_cons_of_mem _ ht)

/-- `Lexer::comments`: the doc comments of the next token -/
theorem parseDocs_chars {st : PState} (hst : ToksChars q st) : docsChars q (parseDocs st) = true := by
  unfold parseDocs PState.peek
  cases hs : st.toks with
  | nil => rfl
  | cons t r =>
    have ht := (hst t (by rw [hs]; exact List.mem_cons_self ..)).2
    simp only [List.head?_cons, docsChars, List.all_eq_true]
    exact ht

/-- `parse_token` -/
theorem parseToken_chars {st : PState} (k : Token) (hst : ToksChars q st) :
    PostC q (parseToken st k) (fun t => TokChars q t) := by
  intro t st' h
  unfold parseToken at h
  have hok := ToksChars_next hst
  rcases next_cases st with ⟨_, h1, _⟩ | ⟨a, r, hs, _, h1⟩
  · revert h hok h1
    cases st.next with
    | mk o s2 => intro h hok h1; dsimp only at h1; subst h1; cases h
  · have ha : TokChars q a := hst a (by rw [hs]; exact List.mem_cons_self ..)
    revert h hok h1
    cases st.next with
    | mk o s2 =>
      intro h hok h1
      dsimp only at h1 hok
      rcases h1 with h1 | h1
      · subst h1
        dsimp only at h
        cases hr : a.res with
        | error e => rw [hr] at h; cases h
        | ok found =>
          rw [hr] at h
          dsimp only at h
          by_cases hf : found = k
          · rw [if_pos hf] at h
            cases h
            exact ⟨ha, hok⟩
          · rw [if_neg hf] at h; cases h
      · subst h1
        cases h

/-- `parse_optional`, generic in the callback -/
theorem parseOptional_chars {α : Type} {st : PState} (k : Token) {cb : PState → PR α} {P : α → Prop}
    (hst : ToksChars q st) (hcb : ∀ st1, ToksChars q st1 → PostC q (cb st1) P) :
    PostC q (parseOptional st k cb) (fun o => ∀ a, o = some a → P a) := by
  intro o st' h
  unfold parseOptional at h
  split at h
  · split at h
    · split at h
      · split at h
        · cases h
        · rename_i t1 st1 hp
          have hst1 := (parseToken_chars k hst t1 st1 hp).2
          split at h
          · rename_i a st2 hc
            obtain ⟨ha, hs2⟩ := hcb _ hst1 a st2 hc
            cases h
            exact ⟨fun b hb => by cases hb; exact ha, hs2⟩
          · cases h
      · cases h; exact ⟨fun b hb => (by cases hb), hst⟩
    · cases h
  · cases h; exact ⟨fun b hb => (by cases hb), hst⟩

/-- `parse_delimited`, generic in the item parser -/
theorem parseDelimited_chars {α : Type} (stop : Token) (withCommas : Bool) (peeks : List Token)
    {item : PState → PR α} {P : α → Prop} (hitem : ∀ st1, ToksChars q st1 → PostC q (item st1) P) :
    ∀ (fuel : Nat) {st : PState}, ToksChars q st →
      PostC q (parseDelimited stop withCommas peeks item fuel st) (fun xs => ∀ x ∈ xs, P x) := by
  intro fuel
  induction fuel with
  | zero => intro st _; unfold parseDelimited; exact PostC_error
  | succ fuel ih =>
    intro st hst xs st' h
    unfold parseDelimited at h
    split at h
    · cases h; exact ⟨fun x hx => (by cases hx), hst⟩
    · split at h
      · cases h
      · split at h
        · cases h
        · rename_i x st1 hi
          obtain ⟨hx, hst1⟩ := hitem st hst x st1 hi
          split at h
          · split at h
            · cases h
              exact ⟨fun y hy => by
                rcases List.mem_singleton.mp hy with rfl; exact hx, hst1⟩
            · split at h
              · split at h
                · cases h
                · rename_i t st2 hc
                  have hst2 := (parseToken_chars .Comma hst1 t st2 hc).2
                  split at h
                  · cases h
                  · rename_i ys st3 hd
                    obtain ⟨hys, hst3⟩ := ih hst2 ys st3 hd
                    cases h
                    refine ⟨fun y hy => ?_, hst3⟩
                    rcases List.mem_cons.mp hy with rfl | hy
                    · exact hx
                    · exact hys y hy
              · split at h
                · cases h
                · rename_i ys st3 hd
                  obtain ⟨hys, hst3⟩ := ih hst1 ys st3 hd
                  cases h
                  refine ⟨fun y hy => ?_, hst3⟩
                  rcases List.mem_cons.mp hy with rfl | hy
                  · exact hx
                  · exact hys y hy
          · cases h

/-! ### leaves -/

theorem parseIdent_chars {st : PState} (hst : ToksChars q st) :
    PostC q (parseIdent st) (fun i => i.chars q = true) := by
  unfold parseIdent
  cbind parseToken_chars .Ident hst => t st1 ht hst1
  have hk := ht.1
  split
  · rename_i r htext
    rw [htext] at hk
    refine PostC_ok ?_ hst1
    simp only [Ident.chars, List.all_eq_true]
    exact fun c hc => hk c (List.mem_cons_of_mem _ hc)
  · refine PostC_ok ?_ hst1
    simp only [Ident.chars, List.all_eq_true]
    exact hk

theorem parseString_chars {st : PState} (hst : ToksChars q st) :
    PostC q (parseString st) (fun s => s.chars q = true) := by
  unfold parseString
  cbind parseToken_chars .String hst => t st1 ht hst1
  refine PostC_ok ?_ hst1
  simp only [StringLit.chars, List.all_eq_true]
  exact fun c hc => ht.1 c (List.mem_of_mem_drop (List.mem_of_mem_take hc))

theorem parsePackageName_chars {st : PState} (hst : ToksChars q st) :
    PostC q (parsePackageName st) (fun p => p.chars q = true) := by
  unfold parsePackageName
  cbind parseToken_chars .PackageName hst => t st1 ht hst1
  refine PostC_bindE fun v _ => PostC_ok ?_ hst1
  simp only [PackageName.chars, List.all_eq_true]
  exact ht.1

theorem parsePackagePath_chars {st : PState} (hst : ToksChars q st) :
    PostC q (parsePackagePath st) (fun p => p.chars q = true) := by
  unfold parsePackagePath
  cbind parseToken_chars .PackagePath hst => t st1 ht hst1
  split
  · exact PostC_error
  · refine PostC_bindE fun v _ => PostC_ok ?_ hst1
    simp only [PackagePath.chars, List.all_eq_true]
    exact ht.1

end Wac.Lemmas.PrinterChars
