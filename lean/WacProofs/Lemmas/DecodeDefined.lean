import WacProofs.Lemmas.DecodeInv
/-
  C08 `decode_tree`, part 3: value types (`component_val_type` / `component_defined_type`) and
  function types (`component_func_type`) are converted faithfully: the id the converter returns
  unfolds — in the arena it returns and in every later one — to the tree the validator's id denotes.
-/
namespace Wac.Decode
open Wac Wac.Spec.Decode

/-! ### names of a valid component type are pairwise distinct -/

def defNamesOk : WDef → Bool
  | .record fs => decide (fs.map (·.1)).Nodup
  | .variant cs => decide (cs.map (·.1)).Nodup
  | .flags ns => decide ns.Nodup
  | .enum ns => decide ns.Nodup
  | _ => true

/-- field, case, flag and parameter names are pairwise distinct (true of every validated
component: the validator rejects duplicates) -/
def NamesOk (w : WTypes) : Prop :=
  (∀ e ∈ w.defs, defNamesOk e.body = true) ∧ (∀ ft ∈ w.funcs, (ft.params.map (·.1)).Nodup)

instance (w : WTypes) : Decidable (NamesOk w) := by unfold NamesOk; infer_instance

theorem collectSet_nodup (ns : List Str) (h : ns.Nodup) : collectSet ns = ns := by
  have key : ∀ (xs acc : List Str), (acc ++ xs).Nodup →
      xs.foldl (fun m x => if m.contains x then m else m ++ [x]) acc = acc ++ xs := by
    intro xs
    induction xs with
    | nil => intro acc _; simp
    | cons x xs ih =>
      intro acc hnd
      simp only [List.foldl_cons]
      have hx : x ∉ acc := by
        rw [List.nodup_append] at hnd
        intro hm
        exact (hnd.2.2 _ hm _ (List.mem_cons_self ..)) rfl
      have hc : acc.contains x = false := by simpa using hx
      simp only [hc]
      have : (acc ++ [x]) ++ xs = acc ++ x :: xs := by simp
      rw [if_neg (by simp), ih (acc ++ [x]) (by simpa [this] using hnd)]
      simp
  simpa [collectSet] using key ns [] (by simpa using h)

/-! ### frames of the arena pushes -/

theorem Frame.ofAddDefined (st : St) (dt : DefinedType) : Frame st (Decode.addDefined st dt).1 := by
  refine ⟨⟨rfl, ?_, fun _ _ h => h, fun _ _ h => h, fun _ x h => ⟨x, h, rfl, rfl⟩,
    fun _ x _ h => ⟨x, h, rfl⟩, fun _ x _ h => ⟨x, h, rfl, rfl⟩⟩, ?_, fun _ _ h => h⟩
  · intro i x h
    exact getElem?_append_lt' _ _ _ _ h
  · simp [Decode.addDefined, Types.size]

theorem Frame.ofAddFunc (st : St) (ft : FuncType) : Frame st (Decode.addFunc st ft).1 := by
  refine ⟨⟨rfl, fun _ _ h => h, ?_, fun _ _ h => h, fun _ x h => ⟨x, h, rfl, rfl⟩,
    fun _ x _ h => ⟨x, h, rfl⟩, fun _ x _ h => ⟨x, h, rfl, rfl⟩⟩, ?_, fun _ _ h => h⟩
  · intro i x h
    exact getElem?_append_lt' _ _ _ _ h
  · simp [Decode.addFunc, Types.size]

variable {w : WTypes} {ρ : Nat → Res} {oi ow : List Nat} {c : Nat}

/-! ### inserting into the cache -/

theorem Inv.insertDefined {st : St} (h : Inv w ρ oi ow c st) (d : Nat) (v : ValueType)
    (hv : RV w ρ oi ow c st (.ty d) v) :
    Inv w ρ oi ow c (cacheInsert st (.any (.defined d)) (.type (.value v))) := by
  refine ⟨h.hc, ?_, ?_, ?_, ?_, ?_, ?_, h.rm, h.inj⟩
  · intro d' v' hl
    simp only [cacheInsert, lookup_cons] at hl
    split at hl
    · rename_i heq; cases heq; cases hl; exact hv
    · exact h.defined d' v' hl
  · intro f id hl
    simp only [cacheInsert, lookup_cons] at hl
    split at hl
    · rename_i heq; cases heq
    · exact h.func f id hl
  · intro f id hl
    simp only [cacheInsert, lookup_cons] at hl
    split at hl
    · rename_i heq; cases heq
    · exact h.inst f id hl
  · intro f id hl
    simp only [cacheInsert, lookup_cons] at hl
    split at hl
    · rename_i heq; cases heq
    · exact h.comp f id hl
  · intro f id hl
    simp only [cacheInsert, lookup_cons] at hl
    split at hl
    · rename_i heq; cases heq
    · exact h.mod f id hl
  · intro f id hl
    simp only [cacheInsert, lookup_cons] at hl
    split at hl
    · rename_i heq; cases heq
    · exact h.res f id hl

theorem Inv.insertFunc {st : St} (h : Inv w ρ oi ow c st) (f id : Nat)
    (hv : RF w ρ oi ow c st f id) :
    Inv w ρ oi ow c (cacheInsert st (.any (.func f)) (.type (.func id))) := by
  refine ⟨h.hc, ?_, ?_, ?_, ?_, ?_, ?_, h.rm, h.inj⟩
  · intro d' v' hl
    simp only [cacheInsert, lookup_cons] at hl
    split at hl
    · rename_i heq; cases heq
    · exact h.defined d' v' hl
  · intro f' id' hl
    simp only [cacheInsert, lookup_cons] at hl
    split at hl
    · rename_i heq; cases heq; cases hl; exact hv
    · exact h.func f' id' hl
  · intro f id hl
    simp only [cacheInsert, lookup_cons] at hl
    split at hl
    · rename_i heq; cases heq
    · exact h.inst f id hl
  · intro f id hl
    simp only [cacheInsert, lookup_cons] at hl
    split at hl
    · rename_i heq; cases heq
    · exact h.comp f id hl
  · intro f id hl
    simp only [cacheInsert, lookup_cons] at hl
    split at hl
    · rename_i heq; cases heq
    · exact h.mod f id hl
  · intro f id hl
    simp only [cacheInsert, lookup_cons] at hl
    split at hl
    · rename_i heq; cases heq
    · exact h.res f id hl

/-! ### forests of converted children -/

theorem optTree_fact {st : St} {o : Option WVal} {o' : Option ValueType}
    (h : ROpt (RV w ρ oi ow c st) o o') :
    ∀ g t, optTree (valTree w g) o = some t → ∀ T' F, Ext oi ow st.types T' → bnd c st + 1 ≤ F →
      unfoldOpt (Types.unfoldVT T' F) o' = some (renT ρ t) := by
  intro g t ht T' F he hF
  cases o <;> cases o' <;> simp only [ROpt] at h
  · simp only [optTree] at ht; cases ht; rfl
  · simp only [optTree] at ht
    exact h g t ht T' F he hF

theorem namedTrees_fact {st : St} :
    ∀ {fs : List (Str × WVal)} {fs' : List (Str × ValueType)},
      All2 (fun x y => x.1 = y.1 ∧ RV w ρ oi ow c st x.2 y.2) fs fs' →
      ∀ g fr, namedTrees (valTree w g) fs = some fr → ∀ T' F, Ext oi ow st.types T' → bnd c st + 1 ≤ F →
        unfoldNamed (Types.unfoldVT T' F) fs' = some (renF ρ fr)
  | [], [], _, g, fr, hfr, T', F, _, _ => by
    simp only [namedTrees] at hfr; cases hfr; rfl
  | (n, x) :: fs, (n', y) :: fs', ⟨⟨hn, hr⟩, hrest⟩, g, fr, hfr, T', F, he, hF => by
    simp only [namedTrees] at hfr
    split at hfr
    · rename_i t fr' ht hfr'
      cases hfr
      simp only at hn
      subst hn
      simp only [unfoldNamed, hr g t ht T' F he hF, namedTrees_fact hrest g fr' hfr' T' F he hF, renF]
    · cases hfr
  | [], _ :: _, hf, _, _, _, _, _, _, _ => hf.elim
  | _ :: _, [], hf, _, _, _, _, _, _, _ => hf.elim

theorem namedOptTrees_fact {st : St} :
    ∀ {fs : List (Str × Option WVal)} {fs' : List (Str × Option ValueType)},
      All2 (fun x y => x.1 = y.1 ∧ ROpt (RV w ρ oi ow c st) x.2 y.2) fs fs' →
      ∀ g fr, namedOptTrees (valTree w g) fs = some fr → ∀ T' F, Ext oi ow st.types T' → bnd c st + 1 ≤ F →
        unfoldNamedOpt (Types.unfoldVT T' F) fs' = some (renF ρ fr)
  | [], [], _, g, fr, hfr, T', F, _, _ => by
    simp only [namedOptTrees] at hfr; cases hfr; rfl
  | (n, x) :: fs, (n', y) :: fs', ⟨⟨hn, hr⟩, hrest⟩, g, fr, hfr, T', F, he, hF => by
    simp only [namedOptTrees] at hfr
    split at hfr
    · rename_i t fr' ht hfr'
      cases hfr
      simp only at hn
      subst hn
      simp only [unfoldNamedOpt, optTree_fact hr g t ht T' F he hF,
        namedOptTrees_fact hrest g fr' hfr' T' F he hF, renF]
    · cases hfr
  | [], _ :: _, hf, _, _, _, _, _, _, _ => hf.elim
  | _ :: _, [], hf, _, _, _, _, _, _, _ => hf.elim

theorem unnamedTrees_fact {st : St} :
    ∀ {fs : List WVal} {fs' : List ValueType},
      All2 (RV w ρ oi ow c st) fs fs' →
      ∀ g fr, unnamedTrees (valTree w g) fs = some fr → ∀ T' F, Ext oi ow st.types T' → bnd c st + 1 ≤ F →
        unfoldUnnamed (Types.unfoldVT T' F) fs' = some (renF ρ fr)
  | [], [], _, g, fr, hfr, T', F, _, _ => by
    simp only [unnamedTrees] at hfr; cases hfr; rfl
  | x :: fs, y :: fs', ⟨hr, hrest⟩, g, fr, hfr, T', F, he, hF => by
    simp only [unnamedTrees] at hfr
    split at hfr
    · rename_i t fr' ht hfr'
      cases hfr
      simp only [unfoldUnnamed, hr g t ht T' F he hF, unnamedTrees_fact hrest g fr' hfr' T' F he hF, renF]
    · cases hfr
  | [], _ :: _, hf, _, _, _, _, _, _, _ => hf.elim
  | _ :: _, [], hf, _, _, _, _, _, _, _ => hf.elim

theorem All2_named_fst {α β : Type} {R : α → β → Prop} :
    ∀ {xs : List (Str × α)} {ys : List (Str × β)},
      All2 (fun x y => x.1 = y.1 ∧ R x.2 y.2) xs ys → ys.map (·.1) = xs.map (·.1)
  | [], [], _ => rfl
  | _ :: _, _ :: _, ⟨⟨h, _⟩, hr⟩ => by simp [h, All2_named_fst hr]
  | [], _ :: _, hf => hf.elim
  | _ :: _, [], hf => hf.elim

/-! ### `finish` of `component_defined_type` -/

/-- `finish` of `component_defined_type`: allocate, cache, return -/
def finishDef (st : St) (d : Nat) (dt : DefinedType) : Outcome (St × ValueType) :=
  let (st, id) := addDefined st dt
  .ok (cacheInsert st (.any (.defined d)) (.type (.value (.defined id))), .defined id)

theorem finishDef_frame {st st' : St} {d : Nat} {dt : DefinedType} {v : ValueType}
    (h : finishDef st d dt = .ok (st', v)) : Frame st st' := by
  simp only [finishDef] at h
  cases h
  have hfr : Frame st (Decode.addDefined st dt).1 := Frame.ofAddDefined st dt
  exact ⟨hfr.ext, hfr.size, hfr.rmap⟩

theorem finishDef_ok {st st' : St} {d : Nat} {dt : DefinedType} {v : ValueType}
    (hinv : Inv w ρ oi ow c st)
    (hfact : ∀ g t, valTree w g (.ty d) = some t → ∀ T' F, Ext oi ow st.types T' → bnd c st + 1 ≤ F →
      unfoldDefined (Types.unfoldVT T' F) dt = some (renT ρ t))
    (h : finishDef st d dt = .ok (st', v)) :
    Inv w ρ oi ow c st' ∧ RV w ρ oi ow c st' (.ty d) v := by
  simp only [finishDef] at h
  cases h
  have hfr : Frame st (Decode.addDefined st dt).1 := Frame.ofAddDefined st dt
  have hinv1 : Inv w ρ oi ow c (Decode.addDefined st dt).1 := hinv.step hfr rfl rfl
  have hrv : RV w ρ oi ow c (Decode.addDefined st dt).1 (.ty d) (.defined st.types.defined.length) := by
    intro g t ht T' F he hF
    have hb : bnd c (Decode.addDefined st dt).1 = bnd c st + 1 := by
      have := hinv.hc
      have hs : Types.size (Decode.addDefined st dt).1.types = Types.size st.types + 1 := by
        simp [Decode.addDefined, Types.size]; omega
      unfold bnd; omega
    rw [hb] at hF
    obtain ⟨F', rfl⟩ : ∃ F', F = F' + 1 := ⟨F - 1, by omega⟩
    have hd : T'.defined[st.types.defined.length]? = some dt :=
      he.defined _ _ (by simp [Decode.addDefined])
    simp only [Types.unfoldVT, hd]
    exact hfact g t ht T' F' (hfr.ext.of_nil.trans he) (by omega)
  exact ⟨hinv1.insertDefined d _ hrv, hrv⟩

/-- `component_defined_type` with the local closures named -/
theorem definedType_succ (w : WTypes) (fuel : Nat) (st : St) (d : Nat) :
    definedType w (fuel + 1) st d =
    match lookup st.cache (.any (.defined d)) with
    | some (.type (.value v)) => .ok (st, v)
    | some _ => .panic "component_defined_type: invalid cached type"
    | none =>
      match w.defs[d]? with
      | none => .panic "component_defined_type: dangling id"
      | some e =>
        match e.body with
        | .prim p => finishDef st d (.alias (.prim p))
        | .record fs =>
          match loopM (namedM (valType w fuel)) st fs with
          | .ok (st, fs) => finishDef st d (.record (collectMap fs))
          | .err e => .err e
          | .panic p => .panic p
        | .variant cs =>
          match loopM (namedM (optM (valType w fuel))) st cs with
          | .ok (st, cs) => finishDef st d (.variant (collectMap cs))
          | .err e => .err e
          | .panic p => .panic p
        | .list t =>
          match valType w fuel st t with
          | .ok (st, v) => finishDef st d (.list v)
          | .err e => .err e
          | .panic p => .panic p
        | .tuple ts =>
          match loopM (valType w fuel) st ts with
          | .ok (st, vs) => finishDef st d (.tuple vs)
          | .err e => .err e
          | .panic p => .panic p
        | .flags ns => finishDef st d (.flags (collectSet ns))
        | .enum ns => finishDef st d (.enum (collectSet ns))
        | .option t =>
          match valType w fuel st t with
          | .ok (st, v) => finishDef st d (.option v)
          | .err e => .err e
          | .panic p => .panic p
        | .result ok err =>
          match optM (valType w fuel) st ok with
          | .ok (st, a) =>
            match optM (valType w fuel) st err with
            | .ok (st, b) => finishDef st d (.result a b)
            | .err e => .err e
            | .panic p => .panic p
          | .err e => .err e
          | .panic p => .panic p
        | .borrow r =>
          match lookup st.cache (.any (.res r)) with
          | some (.resource id) =>
            .ok (cacheInsert st (.any (.defined d)) (.type (.value (.borrow id))), .borrow id)
          | _ => .panic "component_defined_type: expected a resource"
        | .own r =>
          match lookup st.cache (.any (.res r)) with
          | some (.resource id) =>
            .ok (cacheInsert st (.any (.defined d)) (.type (.value (.own id))), .own id)
          | _ => .panic "component_defined_type: expected a resource"
        | .stream t =>
          match optM (valType w fuel) st t with
          | .ok (st, v) => finishDef st d (.stream v)
          | .err e => .err e
          | .panic p => .panic p
        | .future t =>
          match optM (valType w fuel) st t with
          | .ok (st, v) => finishDef st d (.future v)
          | .err e => .err e
          | .panic p => .panic p
        | .fixedList t n =>
          match valType w fuel st t with
          | .ok (st, v) => finishDef st d (.fixedSizeList v n)
          | .err e => .err e
          | .panic p => .panic p
        | .map _ _ => .err "ComponentDefinedType::Map is not yet supported" := by
  rfl

theorem valTree_pos {w : WTypes} {g : Nat} {x : WVal} {t : Tree} (h : valTree w g x = some t) :
    ∃ g', g = g' + 1 := by
  cases g with
  | zero => simp [valTree] at h
  | succ g' => exact ⟨g', rfl⟩

theorem RV_prim (st : St) (p : Prim) : RV w ρ oi ow c st (.prim p) (.prim p) := by
  intro g t ht T' F _ hF
  cases g with
  | zero => simp [valTree] at ht
  | succ g =>
    simp only [valTree] at ht
    cases ht
    obtain ⟨F', rfl⟩ : ∃ F', F = F' + 1 := ⟨F - 1, by omega⟩
    rfl

end Wac.Decode
