import WacProofs.Lemmas.Plug4
/-
  C10, `plug_supplies_matches`: every pair a completed plug loop collected is an argument edge
  from an alias of that plug's instantiation.
-/
namespace Wac.Graph
open Wac Wac.HashSites

theorem pkgAt_congr {g g' : Graph} (h : g'.pkgs = g.pkgs) (id : PkgId) : g'.pkgAt id = g.pkgAt id := by
  unfold Graph.pkgAt; rw [h]

/-- `n` is an instantiation of package `p` -/
def InstOf (g : Graph) (n : Nat) (p : PkgId) : Prop :=
  ∃ x, g.node? n = some x ∧ x.isInst = true ∧ x.pkg = some p

/-- export `name` of the item `n` has index `j` -/
def AliasIdx (ctx : Ctx) (g : Graph) (n : Nat) (name : Str) (j : Nat) : Prop :=
  ∃ x exps k, g.node? n = some x ∧ ctx.kindExports x.item = some exps ∧ alFull exps name = some (j, k)

/-- import `name` of the package instantiated by `n` has index `idx` -/
def ArgIdx (g : Graph) (n : Nat) (name : Str) (idx : Nat) : Prop :=
  ∃ x pid d k, g.node? n = some x ∧ x.pkg = some pid ∧ g.pkgAt pid = .ok d ∧ alFull d.imports name = some (idx, k)

theorem InstOf.mono {g g' : Graph} {n : Nat} {p : PkgId} (h : InstOf g n p) (k : Keeps g g') : InstOf g' n p := by
  obtain ⟨x, hx, h1, h2⟩ := h
  obtain ⟨x', hx', _, hp, hi⟩ := k.nodes n x hx
  exact ⟨x', hx', by rw [hi]; exact h1, by rw [hp]; exact h2⟩

theorem AliasIdx.mono {ctx : Ctx} {g g' : Graph} {n j : Nat} {name : Str} (h : AliasIdx ctx g n name j)
    (k : Keeps g g') : AliasIdx ctx g' n name j := by
  obtain ⟨x, exps, kk, hx, h1, h2⟩ := h
  obtain ⟨x', hx', hi, _, _⟩ := k.nodes n x hx
  exact ⟨x', exps, kk, hx', by rw [hi]; exact h1, h2⟩

theorem ArgIdx.mono {g g' : Graph} {n idx : Nat} {name : Str} (h : ArgIdx g n name idx)
    (k : Keeps g g') : ArgIdx g' n name idx := by
  obtain ⟨x, pid, d, kk, hx, h1, h2, h3⟩ := h
  obtain ⟨x', hx', _, hp, _⟩ := k.nodes n x hx
  exact ⟨x', pid, d, kk, hx', by rw [hp]; exact h1, by rw [pkgAt_congr k.pkgs]; exact h2, h3⟩

/-- what one collected pair `(plug export, socket import)` has become -/
def Supplied (ctx : Ctx) (g : Graph) (si : Nat) (p : PkgId) (pr : Str × Str) : Prop :=
  ∃ pi a j idx, InstOf g pi p ∧ AliasIdx ctx g pi pr.1 j ∧ ArgIdx g si pr.2 idx ∧
    (⟨pi, a, .alias j⟩ : Edge) ∈ g.edges ∧ (⟨a, si, .arg idx⟩ : Edge) ∈ g.edges

theorem Supplied.mono {ctx : Ctx} {g g' : Graph} {si : Nat} {p : PkgId} {pr : Str × Str}
    (h : Supplied ctx g si p pr) (k : Keeps g g') : Supplied ctx g' si p pr := by
  obtain ⟨pi, a, j, idx, h1, h2, h3, h4, h5⟩ := h
  exact ⟨pi, a, j, idx, h1.mono k, h2.mono k, h3.mono k, k.edges _ h4, k.edges _ h5⟩

theorem scanArgs_true {es : List Edge} {i a : Nat} (h : scanArgs es i a = some (.ok true)) :
    ∃ e ∈ es, e.kind = .arg i ∧ e.src = a := by
  induction es with
  | nil => simp [scanArgs] at h
  | cons x r ih =>
    unfold scanArgs at h
    split at h
    · rename_i j hk
      split at h
      · rename_i hji
        simp only [Option.some.injEq, Except.ok.injEq, beq_iff_eq] at h
        exact ⟨x, List.mem_cons_self .., by rw [hk, hji], h⟩
      · obtain ⟨e, he, h1, h2⟩ := ih h
        exact ⟨e, List.mem_cons_of_mem _ he, h1, h2⟩
    · cases h

/-- a successful `set_instantiation_argument`: the argument edge of the named import -/
theorem setArg_ok_edge (ctx : Ctx) (g : Graph) (inst : Nat) (name : Str) (arg : Nat) :
    ∀ v, (setArg ctx g inst name arg).2 = .ok v →
      ∃ idx, ArgIdx g inst name idx ∧ (⟨arg, inst, .arg idx⟩ : Edge) ∈ (setArg ctx g inst name arg).1.edges := by
  unfold setArg
  split
  · exact fun v h => by cases h
  · rename_i nd hnd
    split
    · rename_i sat hk
      split
      · exact fun v h => by cases h
      · rename_i pid hpid
        split
        · exact fun v h => by cases h
        · rename_i d hd
          split
          · exact fun v h => by cases h
          · rename_i i k hfull
            split
            · exact fun v h => by cases h
            · rename_i hscan
              intro v _
              refine ⟨i, ⟨nd, pid, d, k, hnd, hpid, hd, hfull⟩, ?_⟩
              obtain ⟨e, he, hkind, hsrc⟩ := scanArgs_true hscan
              unfold Graph.inEdges at he
              rw [List.mem_filter] at he
              have hdst : e.dst = inst := by simpa using he.2
              have : e = ⟨arg, inst, .arg i⟩ := by
                cases e
                simp only at hkind hsrc hdst
                subst hkind; subst hsrc; subst hdst
                rfl
              rw [← this]; exact he.1
            · exact fun v h => by cases h
            · split
              · exact fun v h => by cases h
              · split
                · exact fun v h => by cases h
                · split
                  · exact fun v h => by cases h
                  · intro v _
                    exact ⟨i, ⟨nd, pid, d, k, hnd, hpid, hd, hfull⟩, List.mem_cons_self ..⟩
    · exact fun v h => by cases h

/-- a completed inner loop supplied every pair of its list -/
theorem plugOne_spec {ctx : Ctx} (si : Nat) (p : PkgId) : ∀ (l : List (Str × Str)) (g g' : Graph) (inst : Option Nat),
    Inv ctx g → (∀ i0, inst = some i0 → InstOf g i0 p) → plugOne ctx si p l g inst = (g', none) →
    ∀ pr ∈ l, Supplied ctx g' si p pr
  | [], _, _, _, _, _, _ => fun _ hpr => nomatch hpr
  | (plugName, socketName) :: rest, g, g', inst, h, hinst, hs => by
    unfold plugOne at hs
    have key : ∀ (g1 : Graph) (i : Nat), Inv ctx g1 → InstOf g1 i p →
        (match aliasInstanceExport ctx g1 i plugName with
          | (g2, .ok (.node a)) =>
            match setArg ctx g2 si socketName a with
            | (g3, .ok _) => plugOne ctx si p rest g3 (some i)
            | (g3, .err e) => (g3, some (.graphError e))
            | (g3, .panic s) => (g3, some (.panic s))
          | (g2, .err e) => (g2, some (.graphError e))
          | (g2, .panic s) => (g2, some (.panic s))
          | (g2, .ok _) => (g2, some (.panic .invalidNodeId))) = (g', none) →
        ∀ pr ∈ (plugName, socketName) :: rest, Supplied ctx g' si p pr := by
      intro g1 i h1 hio hs1
      have ka := alias_keeps h1 i plugName
      cases ha : aliasInstanceExport ctx g1 i plugName with
      | mk g2 oa =>
        have h2 : Inv ctx g2 := inv_aliasInstanceExport h1 ha
        rw [ha] at hs1 ka
        simp only at ka
        cases oa with
        | err e => simp at hs1
        | panic s => simp at hs1
        | ok v =>
          cases v with
          | unit => simp at hs1
          | pkg id => simp at hs1
          | node a =>
            simp only at hs1
            obtain ⟨nd, exps, j, kk, hnd, hexps, hfull, hedge⟩ := ka.2 a rfl
            have hai : AliasIdx ctx g1 i plugName j := ⟨nd, exps, kk, hnd, hexps, hfull⟩
            have ks := setArg_keeps ctx g2 si socketName a
            have hse := setArg_ok_edge ctx g2 si socketName a
            cases hsa : setArg ctx g2 si socketName a with
            | mk g3 os =>
              have h3 : Inv ctx g3 := inv_setArg h2 hsa
              rw [hsa] at hs1 ks hse
              simp only at ks hse
              cases os with
              | err e => simp at hs1
              | panic s => simp at hs1
              | ok w =>
                simp only at hs1
                obtain ⟨idx, hidx, harg⟩ := hse w rfl
                have k13 := ka.1.trans ks
                have hio3 : InstOf g3 i p := hio.mono k13
                have kr := plugOne_keeps si p rest g3 g' (some i) none h3 hs1
                have ih := plugOne_spec si p rest g3 g' (some i) h3
                  (fun i0 hi0 => by cases hi0; exact hio3) hs1
                intro pr hpr
                rcases List.mem_cons.mp hpr with rfl | hpr'
                · exact ⟨i, a, j, idx, hio3.mono kr, (hai.mono k13).mono kr, (hidx.mono ks).mono kr,
                    kr.edges _ (ks.edges _ hedge), kr.edges _ harg⟩
                · exact ih pr hpr'
    cases inst with
    | some i =>
      simp only at hs
      exact key g i h (hinst i rfl) hs
    | none =>
      simp only at hs
      cases hp : g.pkgOf p with
      | error s =>
        have : instantiate g p = (g, .panic s) := by unfold instantiate; rw [hp]
        rw [this] at hs
        simp at hs
      | ok d =>
        have hi : instantiate g p = ((g.addNode ⟨.instantiation [], some p, d.instKind, none, none⟩).1,
            .ok (.node (g.addNode ⟨.instantiation [], some p, d.instKind, none, none⟩).2)) := by
          unfold instantiate; rw [hp]
        have h1 := inv_instantiate h hi
        have a := added_of_addNode h ⟨.instantiation [], some p, d.instKind, none, none⟩
        rw [hi] at hs
        simp only at hs
        exact key _ _ h1 ⟨_, a.new, rfl, rfl⟩ hs

/-- a completed loop over the plugs supplied every pair collected for every plug -/
theorem plugAll_spec {ctx : Ctx} (si : Nat) (socketD : PkgDef) : ∀ (ps : List PkgId) (g g' : Graph),
    Inv ctx g → plugAll ctx si socketD ps g = (g', none) →
    ∀ p ∈ ps, ∀ plugD, g.pkgOf p = .ok plugD → ∀ pr ∈ plugExports ctx plugD socketD, Supplied ctx g' si p pr
  | [], _, _, _, _ => fun _ hp => nomatch hp
  | q :: ps, g, g', h, hs => by
    unfold plugAll at hs
    cases hq : g.pkgOf q with
    | error s => rw [hq] at hs; simp at hs
    | ok qD =>
      rw [hq] at hs
      simp only at hs
      cases h1 : plugOne ctx si q (plugExports ctx qD socketD) g none with
      | mk g1 o1 =>
        rw [h1] at hs
        cases o1 with
        | some o' => simp at hs
        | none =>
          simp only at hs
          have hi1 : Inv ctx g1 := plugOne_inv si q _ g g1 none none h h1
          have k1 := plugOne_keeps si q _ g g1 none none h h1
          have kr := plugAll_keeps si socketD ps g1 g' none hi1 hs
          have hhead := plugOne_spec si q _ g g1 none h (fun _ hi0 => nomatch hi0) h1
          have ih := plugAll_spec si socketD ps g1 g' hi1 hs
          intro p hp plugD hpd pr hpr
          rcases List.mem_cons.mp hp with rfl | hp'
          · rw [hq] at hpd
            cases hpd
            exact (hhead pr hpr).mono kr
          · exact ih p hp' plugD (by rw [pkgOf_congr k1.pkgs]; exact hpd) pr hpr

end Wac.Graph
