import WacProofs.Lemmas.ElabIface2
/-
  C05 `elab_denotes`, part 11: interface bodies, interface declarations and the interfaces of a
  package, with all kinds of items.
-/
namespace Wac.Elab
open Wac Wac.Spec.Wit Wac.Decode

variable {ρ : Nat → Res}

theorem interfaceItemsAll_ok :
    ∀ (items : List Item) (st st' : St) (itf itf' : Interface),
      interfaceItems st items itf = .ok (st', itf') →
      Grow st.types st'.types ∧ st'.root = st.root ∧ itf'.id = itf.id ∧
      ∀ (container : Str) (ifaces : List (Str × List (Str × Tree))) (s : Scope) (acc : List (Str × Tree))
        (res : Scope × List (Str × Tree)),
        items.foldlM (denStep container ifaces) (s, acc) = some res →
        ∃ newR : List Nat, res.1.next = s.next + newR.length ∧ newR.Pairwise (· < ·) ∧
          (∀ x ∈ newR, st.types.resources.length ≤ x ∧ x < st'.types.resources.length) ∧
          ∀ (ρ : Nat → Res) (RL : List Nat), RL.length = s.next → ConsE ρ (RL ++ newR) st'.types →
            RootSim ρ st.types st.root ifaces → Sim ρ st.types st.scope s.binds →
            ExpRel ρ st.types itf.exports acc → (res.2.map (·.1)).Nodup →
            Sim ρ st'.types st'.scope res.1.binds ∧ ExpRel ρ st'.types itf'.exports res.2 := by
  intro items
  induction items with
  | nil =>
    intro st st' itf itf' h
    simp only [interfaceItems] at h
    cases h
    refine ⟨Grow.refl _, rfl, rfl, ?_⟩
    intro container ifaces s acc res hfold
    simp only [List.foldlM_nil, Option.pure_def, Option.some.injEq] at hfold
    subst hfold
    exact ⟨[], by simp, List.Pairwise.nil, by simp, fun _ _ _ _ _ hsim hexp _ => ⟨hsim, hexp⟩⟩
  | cons i r ih =>
    intro st st' itf itf' h
    rw [interfaceItems_cons] at h
    cases hstep : ifaceStep st i itf with
    | error e => rw [hstep] at h; cases h
    | ok si =>
      obtain ⟨st1, itf1⟩ := si
      rw [hstep] at h
      simp only at h
      obtain ⟨g1, rt1, id1, k1⟩ := ifaceStep_ok hstep
      obtain ⟨g2, rt2, id2, k2⟩ := ih _ _ _ _ h
      refine ⟨g1.trans g2, rt2.trans rt1, id2.trans id1, ?_⟩
      intro container ifaces s acc res hfold
      simp only [List.foldlM_cons, Option.bind_eq_bind] at hfold
      obtain ⟨acc1, h1, h2⟩ := Option.bind_eq_some_iff.mp hfold
      simp only [denStep] at h1
      obtain ⟨so, hso, hacc⟩ := Option.map_eq_some_iff.mp h1
      obtain ⟨s1, out⟩ := so
      cases hacc
      obtain ⟨newR1, hn1, hp1, hr1, kk1⟩ := k1 container ifaces s s1 out hso
      obtain ⟨newR2, hn2, hp2, hr2, kk2⟩ := k2 container ifaces s1 (acc ++ out) res h2
      have hl1 := g1.ext.resources_len
      have hl2 := g2.ext.resources_len
      refine ⟨newR1 ++ newR2, by simp [hn2, hn1]; omega, ?_, ?_, ?_⟩
      · rw [List.pairwise_append]
        refine ⟨hp1, hp2, ?_⟩
        intro a ha b hb
        have := (hr1 a ha).2
        have := (hr2 b hb).1
        omega
      · intro x hx
        rcases List.mem_append.mp hx with hx | hx
        · have := hr1 x hx; omega
        · have := hr2 x hx; omega
      intro ρ RL hRL hcons hrs hsim hexp hnd
      obtain ⟨more, hmore⟩ := denFold_prefix container ifaces r _ _ h2
      have hnd1 : ((acc ++ out).map (·.1)).Nodup := by
        simp only [hmore, List.map_append] at hnd
        rw [← List.map_append, ← List.map_append] at hnd
        have : ((acc ++ out) ++ more).map (·.1) = (acc ++ out).map (·.1) ++ more.map (·.1) := by simp
        rw [this] at hnd
        exact (List.nodup_append.mp hnd).1
      have hcons1 : ConsE ρ (RL ++ newR1) st1.types :=
        ConsE.back (RL' := RL ++ (newR1 ++ newR2)) hcons g2 (fun k idx hk => by
          rw [← List.append_assoc]; exact prefix_append_getElem? _ _ _ _ hk)
      obtain ⟨hsim1, hexp1⟩ := kk1 ρ RL acc hRL hcons1 hrs hsim hexp hnd1
      have hrs1 : RootSim ρ st1.types st1.root ifaces := by rw [rt1]; exact hrs.mono g1
      exact kk2 ρ (RL ++ newR1) (by simp [hRL, hn1]) (by rw [List.append_assoc]; exact hcons) hrs1 hsim1 hexp1 hnd

/-- an interface declaration, any items -/
theorem interfaceDeclAll_ok {st st' : St} {id : Option Str} {items : List Item} {i : Nat}
    (h : interfaceDecl st id items = .ok (st', i)) :
    Grow st.types st'.types ∧ st'.root = st.root ∧ st'.scope = st.scope ∧
    ∀ (container : Str) (ifaces : List (Str × List (Str × Tree))) (next next' : Nat) (out : List (Str × Tree)),
      denoteItems container ifaces next items = some (next', out) →
      ∃ newR : List Nat, next' = next + newR.length ∧ newR.Pairwise (· < ·) ∧
        (∀ x ∈ newR, st.types.resources.length ≤ x ∧ x < st'.types.resources.length) ∧
        ∀ (ρ : Nat → Res) (RL : List Nat), RL.length = next → ConsE ρ (RL ++ newR) st'.types →
          RootSim ρ st.types st.root ifaces → (out.map (·.1)).Nodup →
          HK [] [] st'.types (kb st'.types) (.instance i) (renT ρ (.instance (Forest.ofList out))) ∧
          ∃ itf, st'.types.interfaces[i]? = some itf ∧ ExpRel ρ st'.types itf.exports out := by
  unfold interfaceDecl at h
  simp only at h
  split at h
  · rename_i st1 itf hitems
    cases h
    obtain ⟨g1, rt1, _, k1⟩ := interfaceItemsAll_ok _ _ _ _ _ hitems
    have g2 := Grow.addInterface { st1 with scope := st.scope } itf
    refine ⟨g1.trans g2, rt1, rfl, ?_⟩
    intro container ifaces next next' out hden
    rw [denoteItems_eq] at hden
    obtain ⟨res, hres, hr⟩ := Option.map_eq_some_iff.mp hden
    obtain ⟨s', out'⟩ := res
    cases hr
    obtain ⟨newR, hn, hp, hrg, kk⟩ := k1 container ifaces { next := next } [] (s', out) hres
    refine ⟨newR, hn, hp, fun x hx => ⟨(hrg x hx).1, (hrg x hx).2⟩, ?_⟩
    intro ρ RL hRL hcons hrs hnd
    have hcons1 : ConsE ρ (RL ++ newR) st1.types := ConsE.back hcons g2 (fun _ _ hk => hk)
    obtain ⟨_, hexp⟩ := kk ρ RL hRL hcons1 hrs (fun n => by simp [alGet, Scope.get]; trivial) trivial hnd
    have hi : (Elab.addInterface { st1 with scope := st.scope } itf).2 = st1.types.interfaces.length := rfl
    refine ⟨?_, itf, by simp [Elab.addInterface], hexp.mono g2⟩
    intro T' F he hF
    have hsz : kb (Elab.addInterface { st1 with scope := st.scope } itf).1.types = kb st1.types + 1 := by
      simp [kb, vb, Elab.addInterface, Types.size]; omega
    rw [hsz] at hF
    obtain ⟨F', rfl⟩ : ∃ F', F = F' + 1 := ⟨F - 1, by omega⟩
    obtain ⟨itf', hitf', hexp'⟩ := he.interfaces st1.types.interfaces.length itf (by simp)
      (by simp [Elab.addInterface])
    simp only [Types.unfoldKind, hi, hitf', hexp',
      unfoldItems_expRel hexp T' F' (g2.ext.trans he) (by omega), Option.map_some, renT]
  · cases h

end Wac.Elab
