import WacProofs.Lemmas.EncodeImports
/-
  The import loop again, for a weaker hypothesis on the aggregated imports: an instance import
  of a named interface is either imported under the interface's name, or the interface id is
  *private* to it — no import is named like it, no import depends on it, no other import is of
  that interface (an explicit import `xi` of interface `I` when nothing else mentions `I`).
-/
namespace Wac
open Wac.Spec

/-- every recorded interface instance is the import of that interface, unless the id is private -/
def InstInv2 (priv : Str → Prop) (st : EncSt) : Prop :=
  ∀ key idx, amGet st.instances key = some idx → priv key ∨ Has (G st) .instance idx (.imp key)

/-- the recorded interface ids come from `K` -/
def KeysIn (K : Str → Prop) (st : EncSt) : Prop := ∀ key, amGet st.instances key ≠ none → K key

theorem InstInv2.ext {priv : Str → Prop} {st st' : EncSt} (h : InstInv2 priv st) (he : Ext (G st) (G st'))
    (hi : st'.instances = st.instances) : InstInv2 priv st' := by
  intro key idx hq
  rw [hi] at hq
  exact (h key idx hq).imp (fun x => x) (he _ _ _)

theorem importDeps_ok2 {priv : Str → Prop} {K : Str → Prop} (ds : List Str) {st : EncSt} (hs : Sync st)
    (hi : InstInv2 priv st) (hk : KeysIn K st) (hds : ∀ d ∈ ds, K d) :
    ImpFrame st (importDeps ds st) ∧ InstInv2 priv (importDeps ds st) ∧ KeysIn K (importDeps ds st) := by
  induction ds generalizing st with
  | nil => exact ⟨ImpFrame.refl hs, hi, hk⟩
  | cons d ds ih =>
    have hds' : ∀ d' ∈ ds, K d' := fun d' h' => hds d' (List.mem_cons_of_mem _ h')
    simp only [importDeps]
    cases hq : amGet st.instances d with
    | some i => simpa [hq] using ih hs hi hk hds'
    | none =>
      simp only [hq]
      have f1 := ImpFrame.typeDef hs
      have f2 := ImpFrame.import f1.sync d .instance
      have hhas := emit_has f1.sync (.import d .instance) .instance rfl
      let st2 := ((st.emit .typeDef).1.emit (.import d .instance)).1
      let idx := ((st.emit .typeDef).1.emit (.import d .instance)).2
      have f12 : ImpFrame st st2 := f1.trans f2
      have hinst : st2.instances = st.instances := by simp [st2, emit_instances]
      have hi2 : InstInv2 priv { st2 with instances := amInsert st2.instances d idx } := by
        intro key i hq'
        simp only [amGet_amInsert'] at hq'
        rw [G_instances]
        by_cases hd : d = key
        · subst hd
          simp only [↓reduceIte, Option.some.injEq] at hq'
          subst hq'
          exact Or.inr (by simpa [newTerm] using hhas)
        · simp only [hd, ↓reduceIte] at hq'
          rw [hinst] at hq'
          exact (hi key i hq').imp (fun x => x) (f12.ext _ _ _)
      have hk2 : KeysIn K { st2 with instances := amInsert st2.instances d idx } := by
        intro key hne
        simp only [amGet_amInsert'] at hne
        by_cases hd : d = key
        · subst hd; exact hds d (List.mem_cons_self ..)
        · simp only [hd, ↓reduceIte] at hne
          rw [hinst] at hne
          exact hk key hne
      have := ih (st := { st2 with instances := amInsert st2.instances d idx }) f12.sync hi2 hk2 hds'
      exact ⟨(f12.instances _).trans this.1, this.2⟩

/-- what is asked of one aggregated import: its interface (if named) is not one the import
    stands for (another name: nothing is reused or recorded), or is its own name, or is private -/
def EntryOk (priv : Str → Prop) (st : EncSt) (name : Str) (ty : ItemTy) : Prop :=
  ty.kind = .instance → ty.iface = none ∨ ty.iface = some name ∨
    ∃ key, ty.iface = some key ∧ (providesIface name key = false ∨ (priv key ∧ amGet st.instances key = none))

theorem importItem_ok2 {priv : Str → Prop} {K : Str → Prop} {st : EncSt} (hs : Sync st) (hi : InstInv2 priv st)
    (hk : KeysIn K st) (name : Str) (ty : ItemTy) (hty : EntryOk priv st name ty) (hnp : ¬ priv name)
    (hdeps : ∀ d ∈ ty.deps, K d) (hiface : ∀ key, ty.iface = some key → K key) :
    ImpFrame st (importItem id st name ty).1 ∧ InstInv2 priv (importItem id st name ty).1 ∧
      KeysIn K (importItem id st name ty).1 ∧
      Has (G (importItem id st name ty).1) ty.kind (importItem id st name ty).2 (.imp name) := by
  unfold importItem
  cases hre : (if ty.kind = .instance then
      match ty.iface with
      | some i => if providesIface name i then amGet st.instances i else none
      | none => none
    else none : Option Nat) with
  | some idx =>
    simp only
    have hkd : ty.kind = .instance := by
      by_cases hk' : ty.kind = .instance
      · exact hk'
      · simp [hk'] at hre
    simp only [hkd, ↓reduceIte] at hre
    cases hif : ty.iface with
    | none => simp [hif] at hre
    | some i =>
      simp only [hif] at hre
      have hprov : providesIface name i = true := by
        by_cases hp : providesIface name i = true
        · exact hp
        · simp [hp] at hre
      simp only [hprov, ↓reduceIte] at hre
      have hid : i = name := by
        rcases hty hkd with h1 | h1 | ⟨i', h1, h2⟩
        · simp [hif] at h1
        · simpa [hif] using h1
        · rw [hif] at h1
          injection h1 with h1
          subst h1
          rcases h2 with h2 | ⟨_, h3⟩
          · rw [hprov] at h2; cases h2
          · rw [h3] at hre; cases hre
      subst hid
      refine ⟨ImpFrame.refl hs, hi, hk, ?_⟩
      rw [hkd]
      rcases hi i idx hre with h1 | h1
      · exact absurd h1 hnp
      · exact h1
  | none =>
    simp only
    have hd : ImpFrame st (if ty.kind = .instance then importDeps (ty.deps.map id) st else st) ∧
        InstInv2 priv (if ty.kind = .instance then importDeps (ty.deps.map id) st else st) ∧
        KeysIn K (if ty.kind = .instance then importDeps (ty.deps.map id) st else st) := by
      split
      · exact importDeps_ok2 (ty.deps.map id) hs hi hk (by simpa using hdeps)
      · exact ⟨ImpFrame.refl hs, hi, hk⟩
    generalize (if ty.kind = .instance then importDeps (ty.deps.map id) st else st) = st0 at hd
    obtain ⟨f0, hi0, hk0⟩ := hd
    have f1 := ImpFrame.typeDef f0.sync
    have f2 := ImpFrame.import f1.sync name ty.kind
    have hhas := emit_has f1.sync (.import name ty.kind) ty.kind rfl
    have f012 := f0.trans (f1.trans f2)
    have hhas' : Has (G ((st0.emit .typeDef).1.emit (.import name ty.kind)).1) ty.kind
        ((st0.emit .typeDef).1.emit (.import name ty.kind)).2 (.imp name) := by simpa [newTerm] using hhas
    have hinst0 : ((st0.emit .typeDef).1.emit (.import name ty.kind)).1.instances = st0.instances := by
      simp [emit_instances]
    have hi2 : InstInv2 priv ((st0.emit .typeDef).1.emit (.import name ty.kind)).1 :=
      hi0.ext ((f1.trans f2).ext) hinst0
    have hk2 : KeysIn K ((st0.emit .typeDef).1.emit (.import name ty.kind)).1 := by
      intro i hne; rw [hinst0] at hne; exact hk0 i hne
    by_cases hkd : ty.kind = .instance
    · simp only [hkd, ↓reduceIte]
      cases hif : ty.iface with
      | none =>
        simp only
        refine ⟨?_, ?_, ?_, ?_⟩
        · simpa [hkd] using f012
        · simpa [hkd] using hi2
        · simpa [hkd] using hk2
        · simpa [hkd] using hhas'
      | some i =>
        simp only
        by_cases hprov : providesIface name i = true
        · simp only [hprov, ↓reduceIte]
          refine ⟨?_, ?_, ?_, ?_⟩
          · have := f012.instances (amInsert ((st0.emit .typeDef).1.emit (.import name ty.kind)).1.instances i
              ((st0.emit .typeDef).1.emit (.import name ty.kind)).2)
            simpa [hkd] using this
          · intro id' j hq'
            simp only [amGet_amInsert'] at hq'
            rw [G_instances]
            by_cases hd : i = id'
            · subst hd
              simp only [↓reduceIte, Option.some.injEq] at hq'
              subst hq'
              rcases hty hkd with h1 | h1 | ⟨i', h1, h2⟩
              · simp [hif] at h1
              · rw [hif] at h1
                injection h1 with h1
                subst h1
                exact Or.inr (by simpa [hkd] using hhas')
              · rw [hif] at h1
                injection h1 with h1
                subst h1
                rcases h2 with h2 | ⟨h2, _⟩
                · rw [hprov] at h2; cases h2
                · exact Or.inl h2
            · simp only [hd, ↓reduceIte] at hq'
              have := hi2 id' j (by simpa [hkd] using hq')
              simpa [hkd] using this
          · intro id' hne
            simp only [amGet_amInsert'] at hne
            by_cases hd : i = id'
            · subst hd; exact hiface i hif
            · simp only [hd, ↓reduceIte] at hne
              exact hk2 id' (by simpa [hkd] using hne)
          · rw [G_instances]
            simpa [hkd] using hhas'
        · simp only [hprov, Bool.false_eq_true, ↓reduceIte]
          refine ⟨?_, ?_, ?_, ?_⟩
          · simpa [hkd] using f012
          · simpa [hkd] using hi2
          · simpa [hkd] using hk2
          · simpa [hkd] using hhas'
    · simp only [hkd, ↓reduceIte]
      exact ⟨f012, hi2, hk2, hhas'⟩

end Wac

namespace Wac
open Wac.Spec

theorem importAll_ok2 (L : List (Str × ItemTy)) (hnd : (L.map (·.1)).Nodup)
    (hent : ∀ e ∈ L, e.2.kind = .instance → e.2.iface = none ∨ e.2.iface = some e.1 ∨
      ∃ i, e.2.iface = some i ∧ (providesIface e.1 i = false ∨
        (privIn L i ∧ ∀ e' ∈ L, e'.1 ≠ e.1 → e'.2.iface ≠ some i)))
    (l : List (Str × ItemTy)) {st : EncSt} {enc : List (Str × (Kind × Nat))} (l0 : List (Str × ItemTy))
    (hL : L = l0 ++ l) (hs : Sync st) (hi : InstInv2 (privIn L) st)
    (hk : KeysIn (fun i => i ∈ allDepsOf L ∨ ∃ e' ∈ l0, e'.2.iface = some i) st)
    (henc : EncOk (G st) l0 enc) :
    ImpFrame st (importAll id l st enc).1 ∧ EncOk (G (importAll id l st enc).1) (l0 ++ l) (importAll id l st enc).2 := by
  induction l generalizing st enc l0 with
  | nil =>
    simp only [importAll, List.append_nil]
    exact ⟨ImpFrame.refl hs, henc⟩
  | cons e l ih =>
    obtain ⟨name, ty⟩ := e
    simp only [importAll]
    have hmem : (name, ty) ∈ L := by rw [hL]; simp
    have hname : name ∈ L.map (·.1) := List.mem_map_of_mem (f := (·.1)) hmem
    -- entries of the processed prefix have other names
    have hprefix : ∀ e' ∈ l0, e'.1 ≠ name := by
      intro e' he' heq
      rw [hL, List.map_append, List.nodup_append] at hnd
      exact hnd.2.2 e'.1 (List.mem_map_of_mem (f := (·.1)) he') name (by simp) heq
    have hentry : EntryOk (privIn L) st name ty := by
      intro hkind
      rcases hent (name, ty) hmem hkind with h1 | h1 | ⟨i, h1, h2 | ⟨h2, h3⟩⟩
      · exact Or.inl h1
      · exact Or.inr (Or.inl h1)
      · exact Or.inr (Or.inr ⟨i, h1, Or.inl h2⟩)
      · refine Or.inr (Or.inr ⟨i, h1, Or.inr ⟨h2, ?_⟩⟩)
        cases hq : amGet st.instances i with
        | none => rfl
        | some idx =>
          exfalso
          rcases hk i (by simp [hq]) with hd | ⟨e', he', hif'⟩
          · exact h2.2 hd
          · exact h3 e' (by rw [hL]; simp [he']) (hprefix e' he') hif'
    have hk' : KeysIn (fun i => i ∈ allDepsOf L ∨ ∃ e' ∈ l0 ++ [(name, ty)], e'.2.iface = some i) st := by
      intro i hne
      rcases hk i hne with h1 | ⟨e', he', h2⟩
      · exact Or.inl h1
      · exact Or.inr ⟨e', by simp [he'], h2⟩
    have h1 := importItem_ok2 hs hi hk' name ty hentry (fun hp => hp.1 hname)
      (fun d hd => Or.inl (by
        simp only [allDepsOf, List.mem_flatMap]
        exact ⟨(name, ty), hmem, hd⟩))
      (fun i hif => Or.inr ⟨(name, ty), by simp, hif⟩)
    obtain ⟨f1, hi1, hk1, hhas⟩ := h1
    have henc1 : EncOk (G (importItem id st name ty).1) (l0 ++ [(name, ty)])
        (amInsert enc name (ty.kind, (importItem id st name ty).2)) := by
      intro nm k idx hq
      rw [amGet_amInsert'] at hq
      by_cases hn : name = nm
      · subst hn
        simp only [↓reduceIte, Option.some.injEq, Prod.mk.injEq] at hq
        obtain ⟨hkk, hidx⟩ := hq
        subst hkk hidx
        exact ⟨hhas, ty, by simp, rfl⟩
      · simp only [hn, ↓reduceIte] at hq
        obtain ⟨h2, ty', hm, hkk⟩ := henc nm k idx hq
        exact ⟨f1.ext _ _ _ h2, ty', by simp [hm], hkk⟩
    have := ih (l0 ++ [(name, ty)]) (by rw [hL]; simp) f1.sync hi1 hk1 henc1
    refine ⟨f1.trans this.1, ?_⟩
    simpa [List.append_assoc] using this.2

end Wac
