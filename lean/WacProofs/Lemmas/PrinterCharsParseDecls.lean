import WacProofs.Lemmas.PrinterCharsParseTypes
/-
  C13, "the parser puts only characters of the tokens into the leaves": type declarations (resources with their
  methods, variants, records, flags, enums, aliases; `TypeDecl`, `ItemTypeDecl`).
-/
namespace Wac.Lemmas.PrinterChars
open Wac Wac.Ast Wac.Lex Wac.Parse

variable {q : Char → Bool}

theorem parseConstructor_chars (fuel : Nat) {st : PState} (hst : ToksChars q st) :
    PostC q (parseConstructor fuel st) (fun c => c.chars q = true) := by
  unfold parseConstructor
  cbind parseToken_chars _ hst => kw st1 _ hst1
  cbind parseToken_chars _ hst1 => _ st2 _ hst2
  cbind parseDelimited_chars _ _ _ (fun _ h => parseNamedType_chars fuel h) fuel hst2 => ps st3 hps hst3
  cbind parseToken_chars _ hst3 => _ st4 _ hst4
  cbind parseToken_chars _ hst4 => _ st5 _ hst5
  exact PostC_ok (by simpa [Constructor.chars, parseDocs_chars hst, List.all_eq_true] using hps) hst5

theorem parseMethod_chars (fuel : Nat) {st : PState} (hst : ToksChars q st) :
    PostC q (parseMethod fuel st) (fun m => m.chars q = true) := by
  unfold parseMethod
  cbind parseIdent_chars hst => id st1 hid hst1
  cbind parseToken_chars _ hst1 => _ st2 _ hst2
  have hst2' : ToksChars q (if peekIs st2 .StaticKeyword = true then st2.next.2 else st2) := by
    split
    · exact ToksChars_next hst2
    · exact hst2
  cbind parseFuncType_chars fuel hst2' => ty st3 hty hst3
  cbind parseToken_chars _ hst3 => _ st4 _ hst4
  exact PostC_ok (by simp [Method.chars, parseDocs_chars hst, hid, hty]) hst4

theorem parseResourceMethod_chars (fuel : Nat) {st : PState} (hst : ToksChars q st) :
    PostC q (parseResourceMethod fuel st) (fun m => m.chars q = true) := by
  unfold parseResourceMethod
  split
  · cbind parseConstructor_chars fuel hst => c st1 hc hst1
    exact PostC_ok (by simpa [ResourceMethod.chars] using hc) hst1
  · cbind parseMethod_chars fuel hst => m st1 hm hst1
    exact PostC_ok (by simpa [ResourceMethod.chars] using hm) hst1
  · exact PostC_error

theorem parseResourceDecl_chars (fuel : Nat) {st : PState} (hst : ToksChars q st) :
    PostC q (parseResourceDecl fuel st) (fun d => d.chars q = true) := by
  unfold parseResourceDecl
  cbind parseToken_chars _ hst => _ st1 _ hst1
  cbind parseIdent_chars hst1 => id st2 hid hst2
  split
  · exact PostC_ok (by simp [ResourceDecl.chars, parseDocs_chars hst, hid]) (ToksChars_next hst2)
  · cbind parseToken_chars _ hst2 => _ st3 _ hst3
    cbind parseDelimited_chars _ _ _ (fun _ h => parseResourceMethod_chars fuel h) fuel hst3 => ms st4 hms hst4
    cbind parseToken_chars _ hst4 => _ st5 _ hst5
    exact PostC_ok (by simpa [ResourceDecl.chars, parseDocs_chars hst, hid, List.all_eq_true] using hms) hst5
  · exact PostC_error

theorem parseVariantCase_chars (fuel : Nat) {st : PState} (hst : ToksChars q st) :
    PostC q (parseVariantCase fuel st) (fun c => c.chars q = true) := by
  unfold parseVariantCase
  cbind parseIdent_chars hst => id st1 hid hst1
  refine PostC_bind (parseOptional_chars _ hst1 (P := fun t : Ty => t.chars q = true) ?_) ?_
  · intro sa hsa
    cbind parseType_chars fuel hsa => ty sb hty hsb
    cbind parseToken_chars _ hsb => _ sc _ hsc
    exact PostC_ok hty hsc
  · intro ty st2 hty hst2
    refine PostC_ok ?_ hst2
    cases ty with
    | none => simp [VariantCase.chars, parseDocs_chars hst, hid]
    | some t => simp [VariantCase.chars, parseDocs_chars hst, hid, hty t rfl]

theorem parseVariantDecl_chars (fuel : Nat) {st : PState} (hst : ToksChars q st) :
    PostC q (parseVariantDecl fuel st) (fun d => d.chars q = true) := by
  unfold parseVariantDecl
  cbind parseToken_chars _ hst => _ st1 _ hst1
  cbind parseIdent_chars hst1 => id st2 hid hst2
  cbind parseToken_chars _ hst2 => _ st3 _ hst3
  cbind parseDelimited_chars _ _ _ (fun _ h => parseVariantCase_chars fuel h) fuel hst3 => cs st4 hcs hst4
  cbind parseToken_chars _ hst4 => _ st5 _ hst5
  split
  · exact PostC_error
  · exact PostC_ok (by simp [VariantDecl.chars, parseDocs_chars hst, hid, List.all_eq_true]; exact hcs) hst5

theorem parseField_chars (fuel : Nat) {st : PState} (hst : ToksChars q st) :
    PostC q (parseField fuel st) (fun f => f.chars q = true) := by
  unfold parseField
  cbind parseNamedType_chars fuel hst => n st1 hn hst1
  exact PostC_ok (by simpa [Field.chars, parseDocs_chars hst, NamedType.chars] using hn) hst1

theorem parseRecordDecl_chars (fuel : Nat) {st : PState} (hst : ToksChars q st) :
    PostC q (parseRecordDecl fuel st) (fun d => d.chars q = true) := by
  unfold parseRecordDecl
  cbind parseToken_chars _ hst => _ st1 _ hst1
  cbind parseIdent_chars hst1 => id st2 hid hst2
  cbind parseToken_chars _ hst2 => _ st3 _ hst3
  cbind parseDelimited_chars _ _ _ (fun _ h => parseField_chars fuel h) fuel hst3 => cs st4 hcs hst4
  cbind parseToken_chars _ hst4 => _ st5 _ hst5
  split
  · exact PostC_error
  · exact PostC_ok (by simp [RecordDecl.chars, parseDocs_chars hst, hid, List.all_eq_true]; exact hcs) hst5

theorem parseFlag_chars {st : PState} (hst : ToksChars q st) :
    PostC q (parseFlag st) (fun f => f.chars q = true) := by
  unfold parseFlag
  cbind parseIdent_chars hst => id st1 hid hst1
  exact PostC_ok (by simp [Flag.chars, parseDocs_chars hst, hid]) hst1

theorem parseFlagsDecl_chars (fuel : Nat) {st : PState} (hst : ToksChars q st) :
    PostC q (parseFlagsDecl fuel st) (fun d => d.chars q = true) := by
  unfold parseFlagsDecl
  cbind parseToken_chars _ hst => _ st1 _ hst1
  cbind parseIdent_chars hst1 => id st2 hid hst2
  cbind parseToken_chars _ hst2 => _ st3 _ hst3
  cbind parseDelimited_chars _ _ _ (fun _ h => parseFlag_chars h) fuel hst3 => cs st4 hcs hst4
  cbind parseToken_chars _ hst4 => _ st5 _ hst5
  split
  · exact PostC_error
  · exact PostC_ok (by simp [FlagsDecl.chars, parseDocs_chars hst, hid, List.all_eq_true]; exact hcs) hst5

theorem parseEnumCase_chars {st : PState} (hst : ToksChars q st) :
    PostC q (parseEnumCase st) (fun f => f.chars q = true) := by
  unfold parseEnumCase
  cbind parseIdent_chars hst => id st1 hid hst1
  exact PostC_ok (by simp [EnumCase.chars, parseDocs_chars hst, hid]) hst1

theorem parseEnumDecl_chars (fuel : Nat) {st : PState} (hst : ToksChars q st) :
    PostC q (parseEnumDecl fuel st) (fun d => d.chars q = true) := by
  unfold parseEnumDecl
  cbind parseToken_chars _ hst => _ st1 _ hst1
  cbind parseIdent_chars hst1 => id st2 hid hst2
  cbind parseToken_chars _ hst2 => _ st3 _ hst3
  cbind parseDelimited_chars _ _ _ (fun _ h => parseEnumCase_chars h) fuel hst3 => cs st4 hcs hst4
  cbind parseToken_chars _ hst4 => _ st5 _ hst5
  split
  · exact PostC_error
  · exact PostC_ok (by simp [EnumDecl.chars, parseDocs_chars hst, hid, List.all_eq_true]; exact hcs) hst5

theorem parseTypeAliasKind_chars (fuel : Nat) {st : PState} (hst : ToksChars q st) :
    PostC q (parseTypeAliasKind fuel st) (fun k => k.chars q = true) := by
  unfold parseTypeAliasKind
  split
  · cbind parseFuncType_chars fuel hst => f st1 hf hst1
    exact PostC_ok (by simpa [TypeAliasKind.chars] using hf) hst1
  · split
    · cbind parseType_chars fuel hst => t st1 ht hst1
      exact PostC_ok (by simpa [TypeAliasKind.chars] using ht) hst1
    · exact PostC_error

theorem parseTypeAlias_chars (fuel : Nat) {st : PState} (hst : ToksChars q st) :
    PostC q (parseTypeAlias fuel st) (fun a => a.chars q = true) := by
  unfold parseTypeAlias
  cbind parseToken_chars _ hst => _ st1 _ hst1
  cbind parseIdent_chars hst1 => id st2 hid hst2
  cbind parseToken_chars _ hst2 => _ st3 _ hst3
  cbind parseTypeAliasKind_chars fuel hst3 => k st4 hk hst4
  cbind parseToken_chars _ hst4 => _ st5 _ hst5
  exact PostC_ok (by simp [TypeAlias.chars, parseDocs_chars hst, hid, hk]) hst5

theorem parseTypeDecl_chars (fuel : Nat) {st : PState} (hst : ToksChars q st) :
    PostC q (parseTypeDecl fuel st) (fun d => d.chars q = true) := by
  unfold parseTypeDecl
  split
  · cbind parseVariantDecl_chars fuel hst => d st1 hd hst1
    exact PostC_ok (by simpa [TypeDecl.chars] using hd) hst1
  · cbind parseRecordDecl_chars fuel hst => d st1 hd hst1
    exact PostC_ok (by simpa [TypeDecl.chars] using hd) hst1
  · cbind parseFlagsDecl_chars fuel hst => d st1 hd hst1
    exact PostC_ok (by simpa [TypeDecl.chars] using hd) hst1
  · cbind parseEnumDecl_chars fuel hst => d st1 hd hst1
    exact PostC_ok (by simpa [TypeDecl.chars] using hd) hst1
  · cbind parseTypeAlias_chars fuel hst => d st1 hd hst1
    exact PostC_ok (by simpa [TypeDecl.chars] using hd) hst1
  · exact PostC_error

theorem parseItemTypeDecl_chars (fuel : Nat) {st : PState} (hst : ToksChars q st) :
    PostC q (parseItemTypeDecl fuel st) (fun d => d.chars q = true) := by
  unfold parseItemTypeDecl
  split
  · cbind parseResourceDecl_chars fuel hst => d st1 hd hst1
    exact PostC_ok (by simpa [ItemTypeDecl.chars] using hd) hst1
  · cbind parseVariantDecl_chars fuel hst => d st1 hd hst1
    exact PostC_ok (by simpa [ItemTypeDecl.chars] using hd) hst1
  · cbind parseRecordDecl_chars fuel hst => d st1 hd hst1
    exact PostC_ok (by simpa [ItemTypeDecl.chars] using hd) hst1
  · cbind parseFlagsDecl_chars fuel hst => d st1 hd hst1
    exact PostC_ok (by simpa [ItemTypeDecl.chars] using hd) hst1
  · cbind parseEnumDecl_chars fuel hst => d st1 hd hst1
    exact PostC_ok (by simpa [ItemTypeDecl.chars] using hd) hst1
  · cbind parseTypeAlias_chars fuel hst => d st1 hd hst1
    exact PostC_ok (by simpa [ItemTypeDecl.chars] using hd) hst1
  · exact PostC_error

end Wac.Lemmas.PrinterChars
