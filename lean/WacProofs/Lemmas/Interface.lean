import WacModel.Spec.Interface
import WacProofs.Lemmas.EncodeImports2
/-
  Lemmas for C03: the model of `imports()`, the implicit-import conflict test of
  `resolve_imports`, sharing of implicit arguments, the names of the exports.
-/
namespace Wac
open Wac.Spec

theorem queryOfNode_spec {g : GraphVal} (wf : WF g) {n : Node} (hn : n ∈ g.nodes) :
    (queryOfNode g n).map (fun (e : Str × Kind × Option Nat) => (e.1, e.2.1)) =
      (reqsOfNode g n).map fun r => (r.name, r.ty.kind) := by
  unfold queryOfNode reqsOfNode
  cases hk : n.kind with
  | instantiation slot sat =>
    simp only
    cases hp : g.pkg? slot with
    | none => simp
    | some p =>
      simp only
      rw [← wf.satOk n hn slot sat p hk hp]
      simp [List.map_map, Function.comp_def]
  | «import» nm => simp
  | alias => simp
  | definition => simp

theorem queryOfImport_spec (n : Node) :
    (queryOfImport n).map (fun (e : Str × Kind × Option Nat) => (e.1, e.2.1)) =
      (reqOfImport n).map fun r => (r.name, r.ty.kind) := by
  unfold queryOfImport reqOfImport
  cases n.kind <;> simp

theorem flatMap_map_congr {α β γ} (l : List α) (f : α → List β) (f' : α → List γ) (p : β → δ) (q : γ → δ)
    (h : ∀ a ∈ l, (f a).map p = (f' a).map q) : (l.flatMap f).map p = (l.flatMap f').map q := by
  induction l with
  | nil => rfl
  | cons a l ih =>
    simp only [List.flatMap_cons, List.map_append]
    rw [h a (List.mem_cons_self ..), ih (fun b hb => h b (List.mem_cons_of_mem _ hb))]

theorem filterMap_map_congr {α β γ δ} (l : List α) (f : α → Option β) (f' : α → Option γ) (p : β → δ) (q : γ → δ)
    (h : ∀ a, (f a).map p = (f' a).map q) : (l.filterMap f).map p = (l.filterMap f').map q := by
  induction l with
  | nil => rfl
  | cons a l ih =>
    simp only [List.filterMap_cons]
    have := h a
    cases hf : f a <;> cases hf' : f' a <;> simp_all

/-! ### the conflict test -/

theorem resolveArgs_conflict {g : GraphVal} {inst : Nat} (reqs : List ImportReq) {r : Resolved} {nm : Str} {i m : Nat}
    (h : resolveArgs g inst reqs r = .error (.implicitConflict nm i m)) :
    i = inst ∧ ∃ q ∈ reqs, q.name = nm ∧ g.importNode? nm = some m := by
  induction reqs generalizing r with
  | nil => simp [resolveArgs] at h
  | cons q reqs ih =>
    simp only [resolveArgs] at h
    cases hi : g.importNode? q.name with
    | some imp =>
      simp only [hi] at h
      injection h with h
      injection h with h1 h2 h3
      subst h1 h2 h3
      exact ⟨rfl, q, List.mem_cons_self .., rfl, hi⟩
    | none =>
      simp only [hi] at h
      split at h
      · simp at h
      · obtain ⟨h1, q', hq', h2⟩ := ih h
        exact ⟨h1, q', List.mem_cons_of_mem _ hq', h2⟩

theorem resolveArgs_ok_no_conflict {g : GraphVal} {inst : Nat} (reqs : List ImportReq) {r r' : Resolved}
    (h : resolveArgs g inst reqs r = .ok r') : ∀ q ∈ reqs, g.importNode? q.name = none := by
  induction reqs generalizing r with
  | nil => simp
  | cons q reqs ih =>
    simp only [resolveArgs] at h
    cases hi : g.importNode? q.name with
    | some imp => simp [hi] at h
    | none =>
      simp only [hi] at h
      split at h
      · simp at h
      · intro q' hq'
        rcases List.mem_cons.mp hq' with e | e
        · subst e; exact hi
        · exact ih h q' e

theorem resolveInsts_conflict {g : GraphVal} (nodes : List Node) {r : Resolved} {nm : Str} {i m : Nat}
    (h : resolveInsts g nodes r = .error (.implicitConflict nm i m)) :
    ∃ n ∈ nodes, n.id = i ∧ ∃ slot sat p, n.kind = .instantiation slot sat ∧ g.pkg? slot = some p ∧
      ∃ q ∈ unsatisfied p sat, q.name = nm ∧ g.importNode? nm = some m := by
  induction nodes generalizing r with
  | nil => simp [resolveInsts] at h
  | cons n nodes ih =>
    simp only [resolveInsts] at h
    cases hk : n.kind with
    | instantiation slot sat =>
      simp only [hk] at h
      cases hp : g.pkg? slot with
      | none => simp [hp] at h
      | some p =>
        simp only [hp] at h
        cases ha : resolveArgs g n.id (unsatisfied p sat) r with
        | ok r1 =>
          simp only [ha] at h
          obtain ⟨n', hn', rest⟩ := ih h
          exact ⟨n', List.mem_cons_of_mem _ hn', rest⟩
        | error e =>
          simp only [ha] at h
          injection h with h
          subst h
          obtain ⟨h1, q, hq, h2⟩ := resolveArgs_conflict _ ha
          exact ⟨n, List.mem_cons_self .., h1.symm, slot, sat, p, hk, hp, q, hq, h2⟩
        | panic s => simp [ha] at h
    | «import» nm' =>
      simp only [hk] at h
      obtain ⟨n', hn', rest⟩ := ih h
      exact ⟨n', List.mem_cons_of_mem _ hn', rest⟩
    | alias =>
      simp only [hk] at h
      obtain ⟨n', hn', rest⟩ := ih h
      exact ⟨n', List.mem_cons_of_mem _ hn', rest⟩
    | definition =>
      simp only [hk] at h
      obtain ⟨n', hn', rest⟩ := ih h
      exact ⟨n', List.mem_cons_of_mem _ hn', rest⟩

theorem resolveInsts_ok_no_conflict {g : GraphVal} (nodes : List Node) {r r' : Resolved}
    (h : resolveInsts g nodes r = .ok r') :
    ∀ n ∈ nodes, ∀ slot sat p, n.kind = .instantiation slot sat → g.pkg? slot = some p →
      ∀ q ∈ unsatisfied p sat, g.importNode? q.name = none := by
  induction nodes generalizing r with
  | nil => simp
  | cons n nodes ih =>
    simp only [resolveInsts] at h
    intro n' hn' slot sat p hk' hp' q hq
    cases hk : n.kind with
    | instantiation slot0 sat0 =>
      simp only [hk] at h
      cases hp : g.pkg? slot0 with
      | none => simp [hp] at h
      | some p0 =>
        simp only [hp] at h
        cases ha : resolveArgs g n.id (unsatisfied p0 sat0) r with
        | ok r1 =>
          simp only [ha] at h
          rcases List.mem_cons.mp hn' with e | e
          · subst e
            rw [hk] at hk'
            injection hk' with e1 e2
            subst e1 e2
            rw [hp] at hp'
            injection hp' with e3
            subst e3
            exact resolveArgs_ok_no_conflict _ ha q hq
          · exact ih h n' e slot sat p hk' hp' q hq
        | error e => simp [ha] at h
        | panic s => simp [ha] at h
    | «import» nm' =>
      simp only [hk] at h
      rcases List.mem_cons.mp hn' with e | e
      · subst e; rw [hk] at hk'; cases hk'
      · exact ih h n' e slot sat p hk' hp' q hq
    | alias =>
      simp only [hk] at h
      rcases List.mem_cons.mp hn' with e | e
      · subst e; rw [hk] at hk'; cases hk'
      · exact ih h n' e slot sat p hk' hp' q hq
    | definition =>
      simp only [hk] at h
      rcases List.mem_cons.mp hn' with e | e
      · subst e; rw [hk] at hk'; cases hk'
      · exact ih h n' e slot sat p hk' hp' q hq

end Wac
