import WacProofs.Lemmas.Main04
/-
  C04 refinement, part 6: statements and whole documents.
-/
namespace Wac.Lemmas.C04
open Wac.Lang Wac.Lang.Model

/-- a statement of the model against the same statement of the specification -/
inductive StRel (lib : Lib) : Except Diag State → Except Diag Spec.St → Prop
  | err (d : Diag) : StRel lib (.error d) (.error d)
  | ok {ms : State} {ss : Spec.St} : Sim lib ms ss → StRel lib (.ok ms) (.ok ss)

/-- graph steps that leave nodes' meaning, edges and instantiations alone but may add an import
    node or an export entry -/
theorem derived_same_edges {g g' : Graph} (hwf : GraphWF g) (hext : Ext g g') (he : g'.edges = g.edges)
    (hi : instNodes g' = instNodes g) :
    instsOf g' = instsOf g ∧ implicitOf g' = implicitOf g := by
  constructor
  · unfold instsOf
    rw [hi]
    apply List.map_congr_left
    intro ip _
    apply instRecord_congr
    · rw [he]
    · intro e hem
      exact hext.provOf e.src (hwf.edges e hem).1
  · unfold implicitOf
    rw [hi]
    apply flatMap_congr_mem
    intro ip _
    apply unsatisfied_congr
    intro idx
    rw [he]

theorem exportsOf_ext {g g' : Graph} (hwf : GraphWF g) (hext : Ext g g') (he : g'.exports = g.exports) :
    exportsOf g' = exportsOf g := by
  unfold exportsOf
  rw [he]
  apply List.map_congr_left
  intro x hx
  obtain ⟨name, node⟩ := x
  have := hwf.exports _ hx
  simp only
  rw [hext.provOf node this, hext.kindOf node this]

/-- `CompositionGraph::import` of a fresh name -/
theorem sim_addImport {lib : Lib} {ms : State} {ss : Spec.St} (hs : Sim lib ms ss) (name : Str) (k : Kind) :
    Sim lib { ms with graph := { ms.graph with
                nodes := ms.graph.nodes ++ [{ kind := .imp name, item := k, prov := .imp name }]
                imports := ms.graph.imports ++ [(name, ms.graph.nodes.length)] } }
      { ss with imports := ss.imports ++ [(name, k)] } := by
  let nd : Node := { kind := .imp name, item := k, prov := .imp name }
  let g' : Graph := { ms.graph with nodes := ms.graph.nodes ++ [nd], imports := ms.graph.imports ++ [(name, ms.graph.nodes.length)] }
  have hext : Ext ms.graph g' := ⟨⟨[nd], rfl⟩, ⟨[], by simp [g']⟩⟩
  have hexp : explicitOf g' = explicitOf ms.graph ++ [(name, k)] := by
    rw [explicitOf_addNode ms.graph nd g' rfl]
  have hinst : instNodes g' = instNodes ms.graph := by
    rw [instNodes_addNode ms.graph g' nd rfl rfl]; simp [nd]
  obtain ⟨hin, him⟩ := derived_same_edges hs.wf hext (rfl : g'.edges = ms.graph.edges) hinst
  refine ⟨⟨?_, ?_, ?_, ?_⟩, ?_, ?_, ?_, ?_, ?_, ?_, hs.pkgs⟩
  · intro e he
    have := hs.wf.edges e he
    simp only [g', List.length_append, List.length_cons, List.length_nil]
    omega
  · intro i nd' hi
    rcases getElem?_snoc ms.graph.nodes nd nd' i hi with ⟨hlt, hget⟩ | ⟨rfl, rfl⟩
    · exact NodeOK.ext hext hlt (hs.wf.nodes i nd' hget)
    · simp [NodeOK, nd]
  · intro x hx
    have := hs.wf.exports x hx
    simp only [g', List.length_append, List.length_cons, List.length_nil]
    omega
  · show (ms.graph.imports ++ [(name, ms.graph.nodes.length)]).map (·.1) = (explicitOf g').map (·.1)
    rw [hexp, List.map_append, List.map_append, hs.wf.imports]
    rfl
  · intro x hx
    exact Nat.lt_of_lt_of_le (hs.scopeBound x hx) hext.length_le
  · show ss.env = _
    rw [hs.env]
    apply List.map_congr_left
    intro x hx
    obtain ⟨y, n⟩ := x
    simp only
    rw [hext.valOf n (hs.scopeBound _ hx)]
  · show ss.imports ++ [(name, k)] = explicitOf g'
    rw [hexp, hs.imports]
  · show ss.insts = instsOf g'
    rw [hin, hs.insts]
  · show ss.implicit = implicitOf g'
    rw [him, hs.implicit]
  · show ss.exports = exportsOf g'
    rw [exportsOf_ext hs.wf hext rfl, hs.exports]

/-- `register_name` against binding a local name -/
theorem sim_bind {lib : Lib} {ms : State} {ss : Spec.St} (hs : Sim lib ms ss) (x : Str) (n : Nat)
    (hn : n < ms.graph.nodes.length) :
    StRel lib (ms.registerName x n) (Spec.bind ss x (valOf ms.graph n)) := by
  unfold State.registerName Spec.bind
  have : alHas x ss.env = alHas x ms.scope := by rw [hs.env]; exact alHas_map (valOf ms.graph) x ms.scope
  rw [this]
  by_cases hd : alHas x ms.scope = true
  · simp only [hd, ↓reduceIte]; exact .err _
  · simp only [hd, Bool.false_eq_true, ↓reduceIte]
    refine .ok ⟨hs.wf, ?_, ?_, hs.imports, hs.insts, hs.implicit, hs.exports, hs.pkgs⟩
    · intro y hy
      rcases List.mem_append.mp hy with hy | hy
      · exact hs.scopeBound y hy
      · rw [List.mem_singleton.mp hy]; exact hn
    · show ss.env ++ [(x, valOf ms.graph n)] = _
      rw [hs.env, List.map_append]
      rfl

theorem exportsOf_keys (g : Graph) : (exportsOf g).map (·.1) = g.exports.map (·.1) := by
  unfold exportsOf
  rw [List.map_map]
  apply List.map_congr_left
  intro x _
  rfl

/-- a node is a definition iff its provenance says so -/
theorem isDefinition_eq {g : Graph} (hwf : GraphWF g) (n : Nat) (hn : n < g.nodes.length) :
    g.isDefinition n = (g.provOf n).isDefn := by
  have hget : g.nodes[n]? = some g.nodes[n] := List.getElem?_eq_getElem hn
  have hok := hwf.nodes n _ hget
  unfold NodeOK at hok
  unfold Graph.isDefinition Graph.provOf Graph.node?
  rw [hget]
  cases hnd : g.nodes[n] with
  | mk kd it pv =>
    rw [hnd] at hok
    simp only at hok ⊢
    cases kd with
    | imp name => simp only at hok; subst hok; rfl
    | inst pkg => obtain ⟨_, k, hp⟩ := hok; subst hp; rfl
    | alias src idx => obtain ⟨_, es, name, k, _, _, h3, _⟩ := hok; subst h3; rfl
    | defn name => simp only at hok; subst hok; rfl

/-- the `ExportConflict` test of `export_item` is "the name denotes a declaration" -/
theorem exportConflict_eq {lib : Lib} {ms : State} {ss : Spec.St} (hs : Sim lib ms ss) (name : Str) :
    ms.exportConflict name = Spec.conflictsWithDeclaration ss name := by
  unfold State.exportConflict Spec.conflictsWithDeclaration
  rw [hs.env, alGet_map (valOf ms.graph) name ms.scope]
  cases hget : alGet name ms.scope with
  | none => rfl
  | some n =>
    obtain ⟨y, hy, e⟩ := alGet_mem name ms.scope n hget
    have hn : n < ms.graph.nodes.length := e ▸ hs.scopeBound y hy
    simp only [Option.map_some]
    exact isDefinition_eq hs.wf n hn

/-- `export_item` against adding an export -/
theorem sim_export {lib : Lib} {ms : State} {ss : Spec.St} (hs : Sim lib ms ss) (item : Nat)
    (hi : item < ms.graph.nodes.length) (name : Str) :
    StRel lib (exportItem ms item name) (Spec.addExport ss name (valOf ms.graph item)) := by
  unfold exportItem Graph.export Spec.addExport
  rw [exportConflict_eq hs name]
  by_cases hc : Spec.conflictsWithDeclaration ss name = true
  · simp only [hc, ↓reduceIte]; exact .err _
  simp only [hc, Bool.false_eq_true, ↓reduceIte]
  have : alHas name ss.exports = alHas name ms.graph.exports := by
    rw [hs.exports]
    exact alHas_keys name _ _ (exportsOf_keys ms.graph)
  rw [this]
  by_cases hd : alHas name ms.graph.exports = true
  · simp only [hd, ↓reduceIte]; exact .err _
  · simp only [hd, Bool.false_eq_true, ↓reduceIte]
    let g' : Graph := { ms.graph with exports := ms.graph.exports ++ [(name, item)] }
    have hext : Ext ms.graph g' := ⟨⟨[], by simp [g']⟩, ⟨[], by simp [g']⟩⟩
    have hinst : instNodes g' = instNodes ms.graph := rfl
    obtain ⟨hin, him⟩ := derived_same_edges hs.wf hext (rfl : g'.edges = ms.graph.edges) hinst
    refine .ok ⟨⟨hs.wf.edges, ?_, ?_, hs.wf.imports⟩, hs.scopeBound, hs.env, hs.imports, ?_, ?_, ?_, hs.pkgs⟩
    · intro i nd h
      have hlt : i < ms.graph.nodes.length := (List.getElem?_eq_some_iff.mp h).1
      exact NodeOK.ext hext hlt (hs.wf.nodes i nd h)
    · intro x hx
      rcases List.mem_append.mp hx with hx | hx
      · exact hs.wf.exports x hx
      · rw [List.mem_singleton.mp hx]; exact hi
    · show ss.insts = instsOf g'
      rw [hin, hs.insts]
    · show ss.implicit = implicitOf g'
      rw [him, hs.implicit]
    · show ss.exports ++ [(name, (valOf ms.graph item).prov, (valOf ms.graph item).kind)] = exportsOf g'
      rw [hs.exports]
      unfold exportsOf
      simp only [g', List.map_append, List.map_cons, List.map_nil]
      rfl

/-! ### import statements -/

theorem walkPath_eq (pkg : Str) : ∀ (segs : List Str) (k : Kind), walkPath pkg k segs = Spec.pathKind.project pkg k segs
  | [], k => rfl
  | s :: rest, k => by
    simp only [walkPath, Spec.pathKind.project]
    cases k.instExports.bind (·.get s) with
    | none => rfl
    | some k' => exact walkPath_eq pkg rest k'

/-- a kind step (state may change by registering a package) -/
inductive KindRel (lib : Lib) (ms : State) (ss : Spec.St) : Except Diag (State × Kind) → Except Diag Kind → Prop
  | err (d : Diag) : KindRel lib ms ss (.error d) (.error d)
  | ok {ms' : State} {k : Kind} : Sim lib ms' ss → ms'.scope = ms.scope → KindRel lib ms ss (.ok (ms', k)) (.ok k)

theorem importKind_sim {lib : Lib} {ms : State} {ss : Spec.St} (hs : Sim lib ms ss) (ty : ImportTy) :
    KindRel lib ms ss (importStatementKind ms ty) (Spec.importKind lib ss ty) := by
  cases ty with
  | func sig => exact .ok hs rfl
  | iface fs => exact .ok hs rfl
  | ident x =>
    simp only [importStatementKind, Spec.importKind]
    obtain ⟨l1, l2⟩ := lookup_sim hs x
    cases hl : ms.localItem x with
    | error d => rw [l2 d hl]; exact .err d
    | ok item =>
      rw [(l1 item hl).1]
      exact .ok hs rfl
  | path pkg ver segs =>
    simp only [importStatementKind, Spec.importKind, resolvePackagePath, Spec.pathKind]
    cases hfind : lib.find pkg ver with
    | none =>
      rw [resolvePackage_err lib ms pkg ver hs.pkgs hfind]
      exact .err _
    | some p =>
      obtain ⟨ms1, id, he, st⟩ := resolvePackage_ok lib ms pkg ver hs.pkgs p hfind
      rw [he]
      simp only
      cases segs with
      | nil => exact .err _
      | cons first rest =>
        simp only [st.get, Option.bind_some]
        cases p.definition first with
        | none => exact .err _
        | some k =>
          simp only
          rw [walkPath_eq]
          cases Spec.pathKind.project pkg k rest with
          | error d => exact .err d
          | ok k' => exact .ok (sim_pkgStep hs st) st.scope

/-- the import name: either it is the documented one, or the local name of an `import x: <name>`
    is undefined (and then determining the kind fails the same way) -/
theorem importName_sim {lib : Lib} {ms : State} {ss : Spec.St} (hs : Sim lib ms ss) (id : Str) (as : Option Str)
    (ty : ImportTy) :
    (∀ n, importStatementName ms id as ty = .ok n → n = Spec.importName ss id as ty) ∧
    (∀ d, importStatementName ms id as ty = .error d → Spec.importKind lib ss ty = .error d) := by
  unfold importStatementName Spec.importName
  cases as with
  | some n => exact ⟨fun m h => by cases h; rfl, fun d h => by cases h⟩
  | none =>
    cases ty with
    | path pkg ver segs => exact ⟨fun m h => by cases h; rfl, fun d h => by cases h⟩
    | func sig => exact ⟨fun m h => by cases h; rfl, fun d h => by cases h⟩
    | iface fs => exact ⟨fun m h => by cases h; rfl, fun d h => by cases h⟩
    | ident x =>
      simp only
      obtain ⟨l1, l2⟩ := lookup_sim hs x
      cases hl : ms.localItem x with
      | error d =>
        refine ⟨fun m h => (by cases h), fun d' h => ?_⟩
        cases h
        simp only [Spec.importKind, l2 d hl]
      | ok item =>
        refine ⟨fun m h => ?_, fun d h => (by cases h)⟩
        cases h
        have hlook := (l1 item hl).1
        unfold Spec.lookup at hlook
        cases hget : alGet x ss.env with
        | none => rw [hget] at hlook; cases hlook
        | some v =>
          rw [hget] at hlook
          cases hlook
          rfl

/-- import statements: the documented extern name, duplicate checks, the local name -/
theorem import_sim {lib : Lib} {ms : State} {ss : Spec.St} (hs : Sim lib ms ss) (self id : Str) (as : Option Str)
    (ty : ImportTy) : StRel lib (importStatement ms id as ty) (Spec.evalStmt lib self ss (.imp id as ty)) := by
  unfold importStatement
  rw [Spec.evalStmt]
  obtain ⟨n1, n2⟩ := importName_sim (lib := lib) hs id as ty
  cases hn : importStatementName ms id as ty with
  | error d =>
    rw [n2 d hn]
    exact .err d
  | ok name =>
    have hname := n1 name hn
    subst hname
    simp only
    have h := importKind_sim hs ty
    generalize importStatementKind ms ty = a at h
    generalize Spec.importKind lib ss ty = b at h
    cases h with
    | err d => exact .err d
    | ok s sc =>
      rename_i ms1 k
      simp only
      unfold Graph.import
      have hkeys : alHas (Spec.importName ss id as ty) ss.imports = alHas (Spec.importName ss id as ty) ms1.graph.imports := by
        rw [s.imports]
        exact (alHas_keys _ _ _ s.wf.imports).symm
      rw [hkeys]
      by_cases hd : alHas (Spec.importName ss id as ty) ms1.graph.imports = true
      · simp only [hd, ↓reduceIte]; exact .err _
      · simp only [hd, Bool.false_eq_true, ↓reduceIte]
        have hs2 := sim_addImport s (Spec.importName ss id as ty) k
        have hb := sim_bind hs2 id ms1.graph.nodes.length (by simp)
        have hv : valOf ({ ms1.graph with
              nodes := ms1.graph.nodes ++ [{ kind := .imp (Spec.importName ss id as ty), item := k, prov := .imp (Spec.importName ss id as ty) }]
              imports := ms1.graph.imports ++ [(Spec.importName ss id as ty, ms1.graph.nodes.length)] } : Graph) ms1.graph.nodes.length =
            { prov := .imp (Spec.importName ss id as ty), kind := k } := by
          simp [valOf, Graph.provOf, Graph.kindOf, Graph.node?]
        rw [hv] at hb
        exact hb

/-! ### let and export statements -/

theorem let_sim {lib : Lib} (hlib : LibWF lib) {ms : State} {ss : Spec.St} (hs : Sim lib ms ss) (self id : Str) (e : Expr) :
    StRel lib (letStatement self ms id e) (Spec.evalStmt lib self ss (.bind id e)) := by
  unfold letStatement
  rw [Spec.evalStmt]
  have h := expr_sim lib hlib self e ms ss hs
  generalize Model.expr self ms e = a at h
  generalize Spec.evalExpr lib self ss e = b at h
  cases h with
  | err d => exact .err d
  | ok s ex bd v sc =>
    subst v
    exact sim_bind s id _ bd

/-- export name inference: the interface path of an instance, else the import / accessed export name -/
theorem inferExport_eq {lib : Lib} {ms : State} {ss : Spec.St} (hs : Sim lib ms ss) (item : Nat)
    (hi : item < ms.graph.nodes.length) :
    inferExportName ms item = Spec.inferredExportName (valOf ms.graph item) := by
  unfold inferExportName Spec.inferredExportName
  have hkind : (valOf ms.graph item).kind = ms.graph.kindOf item := rfl
  have hprov : (valOf ms.graph item).prov = ms.graph.provOf item := rfl
  rw [hkind, hprov, externName_sim hs.wf item hi]
  cases (ms.graph.kindOf item).instId with
  | some id => rfl
  | none =>
    simp only
    cases ms.graph.getImportName item with
    | some name => rfl
    | none =>
      simp only
      cases ms.graph.getAliasSource item with
      | some sn => rfl
      | none => rfl

theorem exportItem_form (ms ms' : State) (item : Nat) (name : Str) (h : exportItem ms item name = .ok ms') :
    ms'.graph.nodes = ms.graph.nodes ∧ ms'.graph.packages = ms.graph.packages ∧ ms'.scope = ms.scope ∧
    ms'.graph.exports = ms.graph.exports ++ [(name, item)] := by
  unfold exportItem Graph.export at h
  by_cases hc : ms.exportConflict name = true
  · simp [hc] at h
  · simp only [hc, Bool.false_eq_true, ↓reduceIte] at h
    by_cases hd : alHas name ms.graph.exports = true
    · simp [hd] at h
    · simp only [hd, Bool.false_eq_true, ↓reduceIte] at h
      cases h
      exact ⟨rfl, rfl, rfl, rfl⟩

theorem get_first (es : Exports) (pre rest : List (Str × Kind)) (n : Str) (k : Kind)
    (h : es.toList = pre ++ (n, k) :: rest) (hn : alHas n pre = false) : es.get n = some k := by
  rw [exports_get_toList, h, alGet_append]
  have : alGet n pre = none := by
    unfold alHas at hn
    cases hg : alGet n pre with
    | none => rfl
    | some x => rw [hg] at hn; cases hn
  rw [this]
  simp [alGet]

theorem conflicts_env (st st' : Spec.St) (h : st.env = st'.env) (n : Str) :
    Spec.conflictsWithDeclaration st n = Spec.conflictsWithDeclaration st' n := by
  unfold Spec.conflictsWithDeclaration; rw [h]

theorem spreadExports_env (st st' : Spec.St) (h : st.env = st'.env) (v : Spec.Val) :
    ∀ (l : List (Str × Kind)) (ex : List (Str × Prov × Kind)), Spec.spreadExports st v l ex = Spec.spreadExports st' v l ex
  | [], ex => rfl
  | (n, k) :: rest, ex => by
    simp only [Spec.spreadExports]
    rw [conflicts_env st st' h n, spreadExports_env st st' h v rest ex,
      spreadExports_env st st' h v rest (ex ++ [(n, Prov.exportOf v.prov n, k)])]

/-- the loop of a spread export -/
theorem spreadExportLoop_sim {lib : Lib} (item : Nat) (es : Exports) :
    ∀ (todo pre : List (Str × Kind)) (ms : State) (ss : Spec.St) (exported : Bool),
      Sim lib ms ss → item < ms.graph.nodes.length → (ms.graph.kindOf item).instExports = some es →
      es.toList = pre ++ todo → (∀ m ∈ pre, alHas m.1 ms.graph.exports = true) →
      (∀ d, Spec.spreadExports ss (valOf ms.graph item) todo ss.exports = .error d →
        spreadExportLoop item ms exported (todo.map (·.1)) = .error d) ∧
      (∀ ex any, Spec.spreadExports ss (valOf ms.graph item) todo ss.exports = .ok (ex, any) →
        ∃ ms', spreadExportLoop item ms exported (todo.map (·.1)) = .ok (ms', exported || any) ∧
          Sim lib ms' { ss with exports := ex })
  | [], pre, ms, ss, exported, hs, _, _, _, _ => by
    refine ⟨fun d h => (by simp [Spec.spreadExports] at h), fun ex any h => ?_⟩
    simp only [Spec.spreadExports, Except.ok.injEq, Prod.mk.injEq] at h
    obtain ⟨rfl, rfl⟩ := h
    exact ⟨ms, by simp [spreadExportLoop], hs⟩
  | (n, k) :: rest, pre, ms, ss, exported, hs, hi, hes, hsplit, hpre => by
    simp only [List.map_cons, spreadExportLoop, Spec.spreadExports]
    have hkeys : alHas n ss.exports = alHas n ms.graph.exports := by
      rw [hs.exports]
      exact alHas_keys n _ _ (exportsOf_keys ms.graph)
    have hget : (ms.graph.getExport n).isSome = alHas n ms.graph.exports := rfl
    rw [hget, hkeys]
    have hsplit' : es.toList = (pre ++ [(n, k)]) ++ rest := by rw [hsplit]; simp
    by_cases hex : alHas n ms.graph.exports = true
    · simp only [hex, ↓reduceIte]
      apply spreadExportLoop_sim item es rest (pre ++ [(n, k)]) ms ss exported hs hi hes hsplit'
      intro m hm
      rcases List.mem_append.mp hm with hm | hm
      · exact hpre m hm
      · rw [List.mem_singleton.mp hm]; exact hex
    · have hex' : alHas n ms.graph.exports = false := by simpa using hex
      simp only [hex', Bool.false_eq_true, ↓reduceIte]
      -- `n` does not occur earlier in the export list: the entry is the one `get` finds
      have hnpre : alHas n pre = false := by
        cases hh : alHas n pre with
        | false => rfl
        | true =>
          obtain ⟨y, hy, hyn⟩ := List.mem_map.mp ((alHas_iff_mem_keys n pre).mp hh)
          have := hpre y hy
          rw [hyn, hex'] at this
          cases this
      have hgetk : es.get n = some k := get_first es pre rest n k hsplit hnpre
      obtain ⟨_, _, h3⟩ := aliasExport_sim hs item hi n .spread
      have hsel : Spec.select .spread (valOf ms.graph item) n =
          .ok (some { prov := .exportOf (ms.graph.provOf item) n, kind := k }) := by
        unfold Spec.select
        have hkind : (valOf ms.graph item).kind = ms.graph.kindOf item := rfl
        rw [hkind, hes]
        simp only [hgetk]
        rfl
      obtain ⟨ms1, a, he1, st⟩ := h3 _ hsel
      rw [he1]
      simp only
      have hexp := sim_export st.sim a st.bound n
      rw [st.val] at hexp
      generalize hr : exportItem ms1 a n = r at hexp
      have hdup : alHas n ss.exports = false := by rw [hkeys]; exact hex'
      unfold Spec.addExport at hexp
      by_cases hc : Spec.conflictsWithDeclaration ss n = true
      · simp only [hc, ↓reduceIte] at hexp ⊢
        cases hexp
        exact ⟨fun d h => (by cases h; rfl), fun ex any h => (by cases h)⟩
      · simp only [hc, hdup, Bool.false_eq_true, ↓reduceIte] at hexp ⊢
        cases hexp with
        | ok s2 =>
          rename_i ms2
          simp only
          obtain ⟨f1, f2, f3, f4⟩ := exportItem_form ms1 ms2 a n hr
          have hext2 : Ext ms.graph ms2.graph :=
            st.ext.trans ⟨⟨[], by rw [f1]; simp⟩, ⟨[], by rw [f2]; simp⟩⟩
          have hi2 : item < ms2.graph.nodes.length := Nat.lt_of_lt_of_le hi hext2.length_le
          have hes2 : (ms2.graph.kindOf item).instExports = some es := by rw [hext2.kindOf item hi]; exact hes
          have hval : valOf ms2.graph item = valOf ms.graph item := hext2.valOf item hi
          have hpre2 : ∀ m ∈ pre ++ [(n, k)], alHas m.1 ms2.graph.exports = true := by
            intro m hm
            have hkeys2 : ∀ x, alHas x ms2.graph.exports = alHas x (ss.exports ++ [(n, Prov.exportOf (ms.graph.provOf item) n, k)]) := by
              intro x
              have := s2.exports
              simp only at this
              rw [this]
              exact (alHas_keys x _ _ (exportsOf_keys ms2.graph)).symm
            rw [hkeys2, alHas_append]
            rcases List.mem_append.mp hm with hm | hm
            · have h0 : alHas m.1 ss.exports = alHas m.1 ms.graph.exports := by
                rw [hs.exports]
                exact alHas_keys m.1 _ _ (exportsOf_keys ms.graph)
              rw [h0, hpre m hm]
              rfl
            · rw [List.mem_singleton.mp hm]
              simp [alHas, alGet]
          have ih := spreadExportLoop_sim item es rest (pre ++ [(n, k)]) ms2
            { ss with exports := ss.exports ++ [(n, Prov.exportOf (ms.graph.provOf item) n, k)] } true s2 hi2 hes2 hsplit' hpre2
          rw [hval] at ih
          have henv := spreadExports_env
            { ss with exports := ss.exports ++ [(n, Prov.exportOf (ms.graph.provOf item) n, k)] } ss rfl
            (valOf ms.graph item) rest (ss.exports ++ [(n, Prov.exportOf (ms.graph.provOf item) n, k)])
          simp only at ih
          rw [henv] at ih
          have hprov : (valOf ms.graph item).prov = ms.graph.provOf item := rfl
          rw [hprov]
          obtain ⟨ih1, ih2⟩ := ih
          cases hrec : Spec.spreadExports ss (valOf ms.graph item) rest
              (ss.exports ++ [(n, Prov.exportOf (ms.graph.provOf item) n, k)]) with
          | error d =>
            refine ⟨fun d' h => ?_, fun ex any h => (by cases h)⟩
            cases h
            exact ih1 d hrec
          | ok r =>
            obtain ⟨ex, any⟩ := r
            refine ⟨fun d' h => (by cases h), fun ex' any' h => ?_⟩
            simp only [Except.ok.injEq, Prod.mk.injEq] at h
            obtain ⟨rfl, rfl⟩ := h
            obtain ⟨ms', hl, hsim'⟩ := ih2 ex any hrec
            exact ⟨ms', by rw [hl]; simp, hsim'⟩

/-- export statements: inferred name / `as` / spread -/
theorem export_sim {lib : Lib} (hlib : LibWF lib) {ms : State} {ss : Spec.St} (hs : Sim lib ms ss) (self : Str)
    (e : Expr) (opt : ExportOpt) :
    StRel lib (exportStatement self ms e opt) (Spec.evalStmt lib self ss (.exp e opt)) := by
  unfold exportStatement
  have h := expr_sim lib hlib self e ms ss hs
  cases opt with
  | none =>
    rw [Spec.evalStmt]
    generalize Model.expr self ms e = a at h
    generalize Spec.evalExpr lib self ss e = b at h
    cases h with
    | err d => exact .err d
    | ok s ex bd v sc =>
      subst v
      simp only
      rw [inferExport_eq s _ bd]
      cases Spec.inferredExportName (valOf _ _) with
      | none => exact .err _
      | some name => exact sim_export s _ bd name
  | as name =>
    rw [Spec.evalStmt]
    generalize Model.expr self ms e = a at h
    generalize Spec.evalExpr lib self ss e = b at h
    cases h with
    | err d => exact .err d
    | ok s ex bd v sc =>
      subst v
      exact sim_export s _ bd name
  | spread =>
    rw [Spec.evalStmt]
    generalize Model.expr self ms e = a at h
    generalize Spec.evalExpr lib self ss e = b at h
    cases h with
    | err d => exact .err d
    | ok s ex bd v sc =>
      rename_i ms1 item ss1 val
      subst v
      simp only
      have hkind : (valOf ms1.graph item).kind = ms1.graph.kindOf item := rfl
      rw [hkind]
      cases hes : (ms1.graph.kindOf item).instExports with
      | none => exact .err _
      | some es =>
        simp only
        obtain ⟨l1, l2⟩ := spreadExportLoop_sim (lib := lib) item es es.toList [] ms1 ss1 false s bd hes
          (by simp) (by simp)
        have hnames : es.names = es.toList.map (·.1) := rfl
        rw [hnames]
        cases hsp : Spec.spreadExports ss1 (valOf ms1.graph item) es.toList ss1.exports with
        | error d =>
          rw [l1 d hsp]
          exact .err d
        | ok r =>
          obtain ⟨ex, any⟩ := r
          obtain ⟨ms', hl, hsim⟩ := l2 ex any hsp
          rw [hl]
          simp only [Bool.false_or]
          cases any with
          | false => exact .err _
          | true => exact .ok hsim

/-- `define_type` of a fresh declaration -/
theorem sim_addDef {lib : Lib} {ms : State} {ss : Spec.St} (hs : Sim lib ms ss) (name : Str) (k : Kind) :
    Sim lib { ms with graph := { ms.graph with
                nodes := ms.graph.nodes ++ [{ kind := .defn name, item := k, prov := .defn name }]
                exports := ms.graph.exports ++ [(name, ms.graph.nodes.length)] } }
      { ss with exports := ss.exports ++ [(name, Prov.defn name, k)] } := by
  let nd : Node := { kind := .defn name, item := k, prov := .defn name }
  let g' : Graph := { ms.graph with nodes := ms.graph.nodes ++ [nd], exports := ms.graph.exports ++ [(name, ms.graph.nodes.length)] }
  have hext : Ext ms.graph g' := ⟨⟨[nd], rfl⟩, ⟨[], by simp [g']⟩⟩
  have hexp : explicitOf g' = explicitOf ms.graph := by
    rw [explicitOf_addNode ms.graph nd g' rfl]; simp [nd]
  have hinst : instNodes g' = instNodes ms.graph := by
    rw [instNodes_addNode ms.graph g' nd rfl rfl]; simp [nd]
  obtain ⟨hin, him⟩ := derived_same_edges hs.wf hext (rfl : g'.edges = ms.graph.edges) hinst
  refine ⟨⟨?_, ?_, ?_, ?_⟩, ?_, ?_, ?_, ?_, ?_, ?_, hs.pkgs⟩
  · intro e he
    have := hs.wf.edges e he
    simp only [g', List.length_append, List.length_cons, List.length_nil]
    omega
  · intro i nd' hi
    rcases getElem?_snoc ms.graph.nodes nd nd' i hi with ⟨hlt, hget⟩ | ⟨rfl, rfl⟩
    · exact NodeOK.ext hext hlt (hs.wf.nodes i nd' hget)
    · simp [NodeOK, nd]
  · intro x hx
    simp only [g', List.length_append, List.length_cons, List.length_nil]
    rcases List.mem_append.mp hx with hx | hx
    · have := hs.wf.exports x hx; omega
    · rw [List.mem_singleton.mp hx]; simp
  · show ms.graph.imports.map (·.1) = (explicitOf g').map (·.1)
    rw [hexp]; exact hs.wf.imports
  · intro x hx
    exact Nat.lt_of_lt_of_le (hs.scopeBound x hx) hext.length_le
  · show ss.env = _
    rw [hs.env]
    apply List.map_congr_left
    intro x hx
    obtain ⟨y, n⟩ := x
    simp only
    rw [hext.valOf n (hs.scopeBound _ hx)]
  · show ss.imports = explicitOf g'
    rw [hexp, hs.imports]
  · show ss.insts = instsOf g'
    rw [hin, hs.insts]
  · show ss.implicit = implicitOf g'
    rw [him, hs.implicit]
  · show ss.exports ++ [(name, Prov.defn name, k)] = exportsOf g'
    rw [hs.exports]
    unfold exportsOf
    simp only [g', List.map_append, List.map_cons, List.map_nil]
    congr 1
    · apply List.map_congr_left
      intro x hx
      obtain ⟨n, node⟩ := x
      have := hs.wf.exports _ hx
      simp only
      rw [hext.provOf node this, hext.kindOf node this]
    · simp [Graph.provOf, Graph.kindOf, Graph.node?, nd]

/-- interface declarations -/
theorem iface_sim {lib : Lib} {ms : State} {ss : Spec.St} (hs : Sim lib ms ss) (self id : Str)
    (funcs : List (Str × Nat)) :
    StRel lib (typeStatement self ms id funcs) (Spec.evalStmt lib self ss (.iface id funcs)) := by
  unfold typeStatement Graph.defineType
  rw [Spec.evalStmt]
  have hkeys : alHas id ss.exports = alHas id ms.graph.exports := by
    rw [hs.exports]
    exact alHas_keys id _ _ (exportsOf_keys ms.graph)
  rw [hkeys]
  by_cases hd : alHas id ms.graph.exports = true
  · simp only [hd, ↓reduceIte]; exact .err _
  · simp only [hd, Bool.false_eq_true, ↓reduceIte]
    have hs2 := sim_addDef hs id (.ifaceTy (some (declId self id)) (funcsKind funcs))
    have hb := sim_bind hs2 id ms.graph.nodes.length (by simp)
    have hv : valOf ({ ms.graph with
          nodes := ms.graph.nodes ++ [{ kind := .defn id, item := .ifaceTy (some (declId self id)) (funcsKind funcs), prov := .defn id }]
          exports := ms.graph.exports ++ [(id, ms.graph.nodes.length)] } : Graph) ms.graph.nodes.length =
        { prov := .defn id, kind := .ifaceTy (some (declId self id)) (funcsKind funcs) } := by
      simp [valOf, Graph.provOf, Graph.kindOf, Graph.node?]
    rw [hv] at hb
    exact hb

/-- the statement loop -/
theorem stmts_sim {lib : Lib} (hlib : LibWF lib) (self : Str) : ∀ (stmts : List Stmt) (ms : State) (ss : Spec.St),
    Sim lib ms ss → StRel lib (resolveStmts self ms stmts) (Spec.evalStmts lib self ss stmts)
  | [], ms, ss, hs => by
    rw [resolveStmts, Spec.evalStmts]
    exact .ok hs
  | .imp id as ty :: rest, ms, ss, hs => by
    rw [resolveStmts, Spec.evalStmts]
    have h := import_sim hs self id as ty
    generalize importStatement ms id as ty = a at h
    generalize Spec.evalStmt lib self ss (.imp id as ty) = b at h
    cases h with
    | err d => exact .err d
    | ok s => exact stmts_sim hlib self rest _ _ s
  | .bind id e :: rest, ms, ss, hs => by
    rw [resolveStmts, Spec.evalStmts]
    have h := let_sim hlib hs self id e
    generalize letStatement self ms id e = a at h
    generalize Spec.evalStmt lib self ss (.bind id e) = b at h
    cases h with
    | err d => exact .err d
    | ok s => exact stmts_sim hlib self rest _ _ s
  | .exp e opt :: rest, ms, ss, hs => by
    rw [resolveStmts, Spec.evalStmts]
    have h := export_sim hlib hs self e opt
    generalize exportStatement self ms e opt = a at h
    generalize Spec.evalStmt lib self ss (.exp e opt) = b at h
    cases h with
    | err d => exact .err d
    | ok s => exact stmts_sim hlib self rest _ _ s
  | .iface id funcs :: rest, ms, ss, hs => by
    rw [resolveStmts, Spec.evalStmts]
    have h := iface_sim hs self id funcs
    generalize typeStatement self ms id funcs = a at h
    generalize Spec.evalStmt lib self ss (.iface id funcs) = b at h
    cases h with
    | err d => exact .err d
    | ok s => exact stmts_sim hlib self rest _ _ s

/-- the empty states are related -/
theorem sim_init (lib : Lib) : Sim lib { pending := lib } {} := by
  refine ⟨⟨by simp, ?_, by simp, rfl⟩, by simp, rfl, rfl, rfl, rfl, rfl, ?_⟩
  · intro i nd h; simp at h
  · intro name ver
    simp [lib_find_eq]

/-- reading the wiring off the final graph is what `finish` does with the final specification state -/
theorem wiring_sim {lib : Lib} {ms : State} {ss : Spec.St} (hs : Sim lib ms ss) :
    wiring ms.graph = Spec.finish ss := by
  unfold wiring Spec.finish
  rw [hs.implicit, hs.imports, hs.insts, hs.exports]
  have hfind : (implicitOf ms.graph).find? (fun x => alHas x.1 ms.graph.imports) =
      (implicitOf ms.graph).find? (fun x => alHas x.1 (explicitOf ms.graph)) := by
    congr 1
    funext x
    exact alHas_keys x.1 _ _ hs.wf.imports
  have hfind' : (implicitOf ms.graph).find? (fun (x : Str × Kind) => match x with | (n, _) => alHas n ms.graph.imports) =
      (implicitOf ms.graph).find? (fun (x : Str × Kind) => match x with | (n, _) => alHas n (explicitOf ms.graph)) := hfind
  rw [hfind']
  cases (implicitOf ms.graph).find? (fun (x : Str × Kind) => match x with | (n, _) => alHas n (explicitOf ms.graph)) with
  | some x => rfl
  | none => rfl

/-- **refinement**: resolving and encoding in the model is the reference evaluation -/
theorem resolveModel_eq_eval (p : Program) (lib : Lib) (hlib : LibWF lib) :
    resolveModel p lib = Spec.eval p lib := by
  unfold resolveModel resolve Spec.eval
  have h := stmts_sim hlib p.self p.stmts { pending := lib } {} (sim_init lib)
  generalize resolveStmts p.self { pending := lib } p.stmts = a at h
  generalize Spec.evalStmts lib p.self {} p.stmts = b at h
  cases h with
  | err d => rfl
  | ok s => exact wiring_sim s

end Wac.Lemmas.C04
