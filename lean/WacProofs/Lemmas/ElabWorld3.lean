import WacProofs.Lemmas.ElabWorld2
/-
  C05 `elab_denotes`, part 15 (worlds): `include w with { a as b }` (`world_include`) against
  `includeInto`, and a whole world declaration (`world_decl`).
-/
namespace Wac.Elab
open Wac Wac.Spec.Wit Wac.Decode

variable {ρ : Nat → Res}

set_option linter.unusedSimpArgs false

/-! ### `world_include` -/

/-- the import side of an include, one item of the included world -/
def incImp (withs : List (Str × Str)) (other : World) (wd : World) (nk : Str × ItemKind) : M World :=
  match replaceName withs wd.imports nk.1 with
  | .error e => (.error e : M World)
  | .ok name =>
    let uses :=
      match alGet other.uses nk.1 with
      | some used =>
        if (alGet wd.imports name).isNone && (alGet wd.uses name).isNone then
          wd.uses ++ [(name, ({ interface := used.interface,
                                name := match used.name with
                                  | some o => some o
                                  | none => if name != nk.1 then some nk.1 else none } : UsedType))]
        else wd.uses
      | none => wd.uses
    .ok { wd with uses := uses,
                  imports := if (alGet wd.imports name).isSome then wd.imports else wd.imports ++ [(name, nk.2)] }

/-- the export side of an include, one item of the included world -/
def incExp (withs : List (Str × Str)) (wd : World) (nk : Str × ItemKind) : M World :=
  match replaceName withs wd.exports nk.1 with
  | .error e => (.error e : M World)
  | .ok name =>
    .ok { wd with exports := if (alGet wd.exports name).isSome then wd.exports else wd.exports ++ [(name, nk.2)] }

theorem worldInclude_eq (st : St) (wn : Str) (withs : List (Str × Str)) (wd : World) :
    worldInclude st wn withs wd =
      match alGet st.root wn with
      | some (.world o) =>
        match st.types.worlds[o]? with
        | none => .error "dangling world"
        | some other =>
          match other.imports.foldlM (incImp withs other) wd with
          | .error e => .error e
          | .ok wd => other.exports.foldlM (incExp withs) wd
      | some _ => .error "NotWorld"
      | none => .error "UndefinedName" := rfl

/-- the name the specification gives an included item: plain names are renamed by the `with`
list (once), interface ids never -/
def incName (withs : List (Str × Str)) (n : Str) : Str :=
  if n.contains ':' then n else (alGet withs n).getD n

theorem includeInto_cons (own : List (Str × Tree)) (x : Str × Tree) (other : List (Str × Tree))
    (withs : List (Str × Str)) :
    includeInto own (x :: other) withs = includeInto (addIfAbsent own (incName withs x.1) x.2) other withs := rfl

theorem replaceName_ok {withs : List (Str × Str)} {ex : List (Str × ItemKind)} {n name : Str}
    (h : replaceName withs ex n = .ok name) : name = incName withs n := by
  unfold replaceName at h
  unfold incName
  split at h
  · rename_i hc
    cases h
    simp only [hc, if_true]
  · rename_i hc
    simp only [hc, if_false, Bool.false_eq_true]
    simp only at h
    split at h
    · cases h
    · cases h; rfl

theorem ExpRel.get_isSome {T : Types} {ks : List (Str × ItemKind)} {out : List (Str × Tree)}
    (h : ExpRel ρ T ks out) (n : Str) (hn : (alGet ks n).isSome = true) : (alGet out n).isSome = true := by
  rcases h.get n with ⟨h1, _⟩ | ⟨k, t, _, ht, _⟩
  · rw [h1] at hn; cases hn
  · rw [ht]; rfl

/-- an included item enters a list of the including world: kept out when the name is taken,
appended otherwise — on both sides -/
theorem ExpRel.include1 {T : Types} {ks : List (Str × ItemKind)} {out : List (Str × Tree)} {name : Str}
    {k : ItemKind} {t : Tree} (h : ExpRel ρ T ks out) (hk : HK [] [] T (kb T) k (renT ρ t)) (hr : ResOk ρ T k t) :
    ExpRel ρ T (if (alGet ks name).isSome then ks else ks ++ [(name, k)]) (addIfAbsent out name t) := by
  by_cases hc : (alGet ks name).isSome = true
  · simp only [hc, if_true]
    rw [addIfAbsent_present _ _ _ (h.get_isSome name hc)]
    exact h
  · simp only [hc, if_false, Bool.false_eq_true]
    have hn : alGet ks name = none := by simpa using hc
    rw [addIfAbsent_fresh _ _ _ (h.get_none name hn)]
    exact All2.append h ⟨rfl, hk, hr⟩

theorem incImp_ok {withs : List (Str × Str)} {other wd wd1 : World} {nk : Str × ItemKind}
    (h : incImp withs other wd nk = .ok wd1) :
    wd1.exports = wd.exports ∧ wd1.id = wd.id ∧
    wd1.imports = if (alGet wd.imports (incName withs nk.1)).isSome then wd.imports
      else wd.imports ++ [(incName withs nk.1, nk.2)] := by
  unfold incImp at h
  split at h
  · cases h
  · rename_i name hn
    have := replaceName_ok hn
    subst this
    cases h
    exact ⟨rfl, rfl, rfl⟩

theorem incExp_ok {withs : List (Str × Str)} {wd wd1 : World} {nk : Str × ItemKind}
    (h : incExp withs wd nk = .ok wd1) :
    wd1.imports = wd.imports ∧ wd1.id = wd.id ∧
    wd1.exports = if (alGet wd.exports (incName withs nk.1)).isSome then wd.exports
      else wd.exports ++ [(incName withs nk.1, nk.2)] := by
  unfold incExp at h
  split at h
  · cases h
  · rename_i name hn
    have := replaceName_ok hn
    subst this
    cases h
    exact ⟨rfl, rfl, rfl⟩

/-- the import side of an include is `includeInto` -/
theorem incImpFold_ok (withs : List (Str × Str)) (other : World) :
    ∀ (l : List (Str × ItemKind)) (wd wd' : World), l.foldlM (incImp withs other) wd = .ok wd' →
      wd'.exports = wd.exports ∧ wd'.id = wd.id ∧
      ∀ (ρ : Nat → Res) (T : Types) (lt acc : List (Str × Tree)), ExpRel ρ T l lt → ExpRel ρ T wd.imports acc →
        ExpRel ρ T wd'.imports (includeInto acc lt withs) := by
  intro l
  induction l with
  | nil =>
    intro wd wd' h
    simp only [List.foldlM_nil, pure, Except.pure, Except.ok.injEq] at h
    subst h
    refine ⟨rfl, rfl, ?_⟩
    intro ρ T lt acc hl hacc
    cases lt with
    | nil => exact hacc
    | cons _ _ => exact hl.elim
  | cons nk r ih =>
    intro wd wd' h
    simp only [List.foldlM_cons] at h
    cases hs : incImp withs other wd nk with
    | error e => simp [hs, bind, Except.bind] at h
    | ok wd1 =>
      rw [hs] at h
      have h' : r.foldlM (incImp withs other) wd1 = .ok wd' := h
      obtain ⟨he1, hi1, himp1⟩ := incImp_ok hs
      obtain ⟨he2, hi2, k2⟩ := ih _ _ h'
      refine ⟨he2.trans he1, hi2.trans hi1, ?_⟩
      intro ρ T lt acc hl hacc
      cases lt with
      | nil => exact hl.elim
      | cons x lt' =>
        obtain ⟨⟨hn, hk, hr⟩, hl'⟩ := hl
        rw [includeInto_cons]
        apply k2 ρ T lt' _ hl'
        rw [himp1, ← hn]
        exact hacc.include1 hk hr

/-- the export side of an include is `includeInto` -/
theorem incExpFold_ok (withs : List (Str × Str)) :
    ∀ (l : List (Str × ItemKind)) (wd wd' : World), l.foldlM (incExp withs) wd = .ok wd' →
      wd'.imports = wd.imports ∧ wd'.id = wd.id ∧
      ∀ (ρ : Nat → Res) (T : Types) (lt acc : List (Str × Tree)), ExpRel ρ T l lt → ExpRel ρ T wd.exports acc →
        ExpRel ρ T wd'.exports (includeInto acc lt withs) := by
  intro l
  induction l with
  | nil =>
    intro wd wd' h
    simp only [List.foldlM_nil, pure, Except.pure, Except.ok.injEq] at h
    subst h
    refine ⟨rfl, rfl, ?_⟩
    intro ρ T lt acc hl hacc
    cases lt with
    | nil => exact hacc
    | cons _ _ => exact hl.elim
  | cons nk r ih =>
    intro wd wd' h
    simp only [List.foldlM_cons] at h
    cases hs : incExp withs wd nk with
    | error e => simp [hs, bind, Except.bind] at h
    | ok wd1 =>
      rw [hs] at h
      have h' : r.foldlM (incExp withs) wd1 = .ok wd' := h
      obtain ⟨he1, hi1, hexp1⟩ := incExp_ok hs
      obtain ⟨he2, hi2, k2⟩ := ih _ _ h'
      refine ⟨he2.trans he1, hi2.trans hi1, ?_⟩
      intro ρ T lt acc hl hacc
      cases lt with
      | nil => exact hl.elim
      | cons x lt' =>
        obtain ⟨⟨hn, hk, hr⟩, hl'⟩ := hl
        rw [includeInto_cons]
        apply k2 ρ T lt' _ hl'
        rw [hexp1, ← hn]
        exact hacc.include1 hk hr

/-- the worlds declared so far: the resolver's root scope against the specification's
environment (both directions, so that a new world can be pushed) -/
def WorldSim (ρ : Nat → Res) (T : Types) (root : List (Str × Bound)) (worlds : List (Str × WorldD)) : Prop :=
  (∀ (wn : Str) (o : Nat), alGet root wn = some (.world o) →
    ∃ wdo dW, T.worlds[o]? = some wdo ∧ alGet worlds wn = some dW ∧
      ExpRel ρ T wdo.imports dW.imports ∧ ExpRel ρ T wdo.exports dW.exports) ∧
  (∀ wn, alGet root wn = none → alGet worlds wn = none)

theorem WorldSim.mono {T T' : Types} {root : List (Str × Bound)} {worlds : List (Str × WorldD)}
    (h : WorldSim ρ T root worlds) (hg : Grow T T') : WorldSim ρ T' root worlds := by
  refine ⟨?_, h.2⟩
  intro wn o hp
  obtain ⟨wdo, dW, h1, h2, h3, h4⟩ := h.1 wn o hp
  exact ⟨wdo, dW, hg.keepW o wdo h1, h2, h3.mono hg, h4.mono hg⟩

/-- **`include w with { … }` is `includeInto`**, on the import and on the export side -/
theorem worldInclude_ok {st : St} {wn : Str} {withs : List (Str × Str)} {wd wd' : World}
    (h : worldInclude st wn withs wd = .ok wd') :
    wd'.id = wd.id ∧
    ∀ (ρ : Nat → Res) (worlds : List (Str × WorldD)) (accI accE : List (Str × Tree)),
      WorldSim ρ st.types st.root worlds → ExpRel ρ st.types wd.imports accI → ExpRel ρ st.types wd.exports accE →
      ∃ dW, alGet worlds wn = some dW ∧
        ExpRel ρ st.types wd'.imports (includeInto accI dW.imports withs) ∧
        ExpRel ρ st.types wd'.exports (includeInto accE dW.exports withs) := by
  rw [worldInclude_eq] at h
  split at h
  · rename_i o hroot
    split at h
    · cases h
    · rename_i other hother
      split at h
      · cases h
      · rename_i wd1 himp
        obtain ⟨he1, hi1, k1⟩ := incImpFold_ok withs other _ _ _ himp
        obtain ⟨he2, hi2, k2⟩ := incExpFold_ok withs _ _ _ h
        refine ⟨hi2.trans hi1, ?_⟩
        intro ρ worlds accI accE hws hI hE
        obtain ⟨wdo, dW, h1, h2, h3, h4⟩ := hws.1 wn o hroot
        rw [hother] at h1
        cases h1
        refine ⟨dW, h2, ?_, ?_⟩
        · rw [he2]
          exact k1 ρ st.types dW.imports accI h3 hI
        · exact k2 ρ st.types dW.exports accE h4 (by rw [he1]; exact hE)
  · cases h
  · cases h

/-! ### the second pass of `world_decl` -/

/-- one item of the second pass of `world_decl` -/
def incStep (st : St) (wd : World) (i : WItem) : M World :=
  match i with
  | .include wn withs => worldInclude st wn withs wd
  | _ => .ok wd

theorem worldDecl_eq (st : St) (id : Str) (items : List WItem) : worldDecl st id items =
    match worldItems { st with scope := [] } items { id := some id, uses := [], imports := [], exports := [] } with
    | .error e => .error e
    | .ok (st1, wd) =>
      match items.foldlM (incStep st1) wd with
      | .error e => .error e
      | .ok wd => .ok (addWorld { st1 with scope := st.scope } wd) := rfl

theorem incFold_ok (st : St) (env : Env) :
    ∀ (items : List WItem) (wd wd' : World), items.foldlM (incStep st) wd = .ok wd' →
      wd'.id = wd.id ∧
      ∀ (ρ : Nat → Res) (dwd dwd' : WorldD), WorldSim ρ st.types st.root env.worlds →
        items.foldlM (denInc env) dwd = some dwd' →
        ExpRel ρ st.types wd.imports dwd.imports → ExpRel ρ st.types wd.exports dwd.exports →
        ExpRel ρ st.types wd'.imports dwd'.imports ∧ ExpRel ρ st.types wd'.exports dwd'.exports := by
  intro items
  induction items with
  | nil =>
    intro wd wd' h
    simp only [List.foldlM_nil, pure, Except.pure, Except.ok.injEq] at h
    subst h
    refine ⟨rfl, ?_⟩
    intro ρ dwd dwd' _ hd hI hE
    simp only [List.foldlM_nil, Option.pure_def, Option.some.injEq] at hd
    subst hd
    exact ⟨hI, hE⟩
  | cons i r ih =>
    intro wd wd' h
    simp only [List.foldlM_cons] at h
    cases hs : incStep st wd i with
    | error e => simp [hs, bind, Except.bind] at h
    | ok wd1 =>
      rw [hs] at h
      have h' : r.foldlM (incStep st) wd1 = .ok wd' := h
      obtain ⟨hi2, k2⟩ := ih _ _ h'
      have hone : wd1.id = wd.id ∧
          ∀ (ρ : Nat → Res) (dwd dwd1 : WorldD), WorldSim ρ st.types st.root env.worlds →
            denInc env dwd i = some dwd1 →
            ExpRel ρ st.types wd.imports dwd.imports → ExpRel ρ st.types wd.exports dwd.exports →
            ExpRel ρ st.types wd1.imports dwd1.imports ∧ ExpRel ρ st.types wd1.exports dwd1.exports := by
        cases i with
        | «include» wn withs =>
          simp only [incStep] at hs
          obtain ⟨hid, k⟩ := worldInclude_ok hs
          refine ⟨hid, ?_⟩
          intro ρ dwd dwd1 hws hd hI hE
          obtain ⟨dW, hdW, h1, h2⟩ := k ρ env.worlds _ _ hws hI hE
          simp only [denInc, hdW, Option.map_some, Option.some.injEq] at hd
          subst hd
          exact ⟨h1, h2⟩
        | item _ =>
          simp only [incStep] at hs; cases hs
          exact ⟨rfl, fun _ _ _ _ hd hI hE => by simp only [denInc] at hd; cases hd; exact ⟨hI, hE⟩⟩
        | externPath _ _ =>
          simp only [incStep] at hs; cases hs
          exact ⟨rfl, fun _ _ _ _ hd hI hE => by simp only [denInc] at hd; cases hd; exact ⟨hI, hE⟩⟩
        | externFunc _ _ _ =>
          simp only [incStep] at hs; cases hs
          exact ⟨rfl, fun _ _ _ _ hd hI hE => by simp only [denInc] at hd; cases hd; exact ⟨hI, hE⟩⟩
        | externIface _ _ _ =>
          simp only [incStep] at hs; cases hs
          exact ⟨rfl, fun _ _ _ _ hd hI hE => by simp only [denInc] at hd; cases hd; exact ⟨hI, hE⟩⟩
      refine ⟨hi2.trans hone.1, ?_⟩
      intro ρ dwd dwd' hws hd hI hE
      simp only [List.foldlM_cons, Option.bind_eq_bind] at hd
      obtain ⟨dwd1, hd1, hd2⟩ := Option.bind_eq_some_iff.mp hd
      obtain ⟨hI1, hE1⟩ := hone.2 ρ dwd dwd1 hws hd1 hI hE
      exact k2 ρ dwd1 dwd' hws hd2 hI1 hE1

/-- a world whose lists correspond to the denoted ones unfolds to the denoted component type -/
theorem HK_component {st : St} {wd : World} {imps exps : List (Str × Tree)}
    (hI : ExpRel ρ st.types wd.imports imps) (hE : ExpRel ρ st.types wd.exports exps) :
    HK [] [] (Elab.addWorld st wd).1.types (kb (Elab.addWorld st wd).1.types) (.component (Elab.addWorld st wd).2)
      (renT ρ (.component (Forest.ofList imps) (Forest.ofList exps))) := by
  intro T' F he hF
  have hsz : kb (Elab.addWorld st wd).1.types = kb st.types + 1 := by
    simp [kb, vb, Elab.addWorld, Types.size]; omega
  rw [hsz] at hF
  obtain ⟨F', rfl⟩ : ∃ F', F = F' + 1 := ⟨F - 1, by omega⟩
  obtain ⟨wd', hwd', hi', he'⟩ := he.worlds st.types.worlds.length wd (by simp) (by simp [Elab.addWorld])
  have hw : (Elab.addWorld st wd).2 = st.types.worlds.length := rfl
  have g2 := Grow.addWorld st wd
  simp only [Types.unfoldKind, hw, hwd', hi', he',
    unfoldItems_expRel hI T' F' (g2.ext.trans he) (by omega),
    unfoldItems_expRel hE T' F' (g2.ext.trans he) (by omega), renT]

/-- **a world declaration denotes what WIT says**: after both passes the world the resolver
allocates has the denoted imports and exports, in order, and unfolds to the denoted component
type in every later arena -/
theorem worldDecl_ok (env : Env) {st st' : St} {id : Str} {items : List WItem} {w : Nat}
    (h : worldDecl st id items = .ok (st', w)) :
    Grow st.types st'.types ∧ st'.root = st.root ∧ st'.scope = st.scope ∧
    ∀ (next' : Nat) (dwd : WorldD), denoteWorld env items = some (next', dwd) →
      ∃ newR : List Nat, next' = env.next + newR.length ∧ newR.Pairwise (· < ·) ∧
        (∀ x ∈ newR, st.types.resources.length ≤ x ∧ x < st'.types.resources.length) ∧
        ∀ (ρ : Nat → Res) (RL : List Nat), RL.length = env.next → ConsE ρ (RL ++ newR) st'.types →
          RootSim ρ st.types st.root env.ifaces → RootInst ρ st.types st.root env.ifaces env.ids →
          WorldSim ρ st.types st.root env.worlds →
          worldFreshB env ({ next := env.next }, {}) items = true →
          HK [] [] st'.types (kb st'.types) (.component w)
            (renT ρ (.component (Forest.ofList dwd.imports) (Forest.ofList dwd.exports))) ∧
          ∃ wd, st'.types.worlds[w]? = some wd ∧ wd.id = some id ∧
            ExpRel ρ st'.types wd.imports dwd.imports ∧ ExpRel ρ st'.types wd.exports dwd.exports := by
  rw [worldDecl_eq] at h
  split at h
  · cases h
  · rename_i st1 wd1 hitems
    split at h
    · cases h
    · rename_i wd2 hinc
      cases h
      obtain ⟨g1, rt1, id1, k1⟩ := worldItems_ok env _ _ _ _ _ hitems
      obtain ⟨id2, k2⟩ := incFold_ok st1 env _ _ _ hinc
      have g2 := Grow.addWorld { st1 with scope := st.scope } wd2
      refine ⟨g1.trans g2, rt1, rfl, ?_⟩
      intro next' dwd hden
      rw [denoteWorld_eq] at hden
      split at hden
      · cases hden
      · rename_i s dwd1 hfold
        obtain ⟨dwd2, hd2, hpair⟩ := Option.map_eq_some_iff.mp hden
        cases hpair
        obtain ⟨newR, hn, hp, hr, kk⟩ := k1 _ _ hfold
        refine ⟨newR, hn, hp, fun x hx => ⟨(hr x hx).1, (hr x hx).2⟩, ?_⟩
        intro ρ RL hRL hcons hrs hri hws hfr
        have hcons1 : ConsE ρ (RL ++ newR) st1.types := ConsE.back hcons g2 (fun _ _ hk => hk)
        obtain ⟨_, hI1, hE1⟩ := kk ρ RL hRL hcons1 hrs hri (fun n => by simp [alGet]; trivial) trivial trivial hfr
        have hws1 : WorldSim ρ st1.types st1.root env.worlds := by rw [rt1]; exact hws.mono g1
        obtain ⟨hI2, hE2⟩ := k2 ρ dwd1 dwd hws1 hd2 hI1 hE1
        refine ⟨HK_component (st := { st1 with scope := st.scope }) hI2 hE2, wd2, by simp [Elab.addWorld], ?_,
          hI2.mono g2, hE2.mono g2⟩
        rw [id2, id1]

end Wac.Elab
