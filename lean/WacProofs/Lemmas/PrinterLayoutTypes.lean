import WacProofs.Lemmas.PrinterLayoutLits
/-
  C13, layout layer: the printer functions for types (`ty`, `named_types`, `func_type`,
  `func_type_ref`) keep the lexing invariant and write the tokens of the token-level printer.
-/
set_option linter.unusedSimpArgs false

namespace Wac.Lemmas.PrinterLayout
open Wac Wac.Ast Wac.Lex Wac.Print Wac.PrintTok Wac.Lemmas.PrinterLex

theorem stopW_le_sAny {p : PS} {ts ls} (h : Inv p ts ls sAny) : Inv p ts ls stopW :=
  h.weaken (fun _ _ => rfl)

mutual
theorem ty_inv (t : Ty) (hw : t.wf = true) {p : PS} {ts : List PTok} {S : Stop}
    (h : Inv p ts [] S) (hS : WordOK S) :
    Inv (Print.ty p t) (ts ++ PrintTok.ty t) [] stopW := by
  cases t with
  | U8 _ => exact (h.lit_u8 hS).cast (by simp [Print.ty]) (by simp [PrintTok.ty, kw])
  | S8 _ => exact (h.lit_s8 hS).cast (by simp [Print.ty]) (by simp [PrintTok.ty, kw])
  | U16 _ => exact (h.lit_u16 hS).cast (by simp [Print.ty]) (by simp [PrintTok.ty, kw])
  | S16 _ => exact (h.lit_s16 hS).cast (by simp [Print.ty]) (by simp [PrintTok.ty, kw])
  | U32 _ => exact (h.lit_u32 hS).cast (by simp [Print.ty]) (by simp [PrintTok.ty, kw])
  | S32 _ => exact (h.lit_s32 hS).cast (by simp [Print.ty]) (by simp [PrintTok.ty, kw])
  | U64 _ => exact (h.lit_u64 hS).cast (by simp [Print.ty]) (by simp [PrintTok.ty, kw])
  | S64 _ => exact (h.lit_s64 hS).cast (by simp [Print.ty]) (by simp [PrintTok.ty, kw])
  | F32 _ => exact (h.lit_f32 hS).cast (by simp [Print.ty]) (by simp [PrintTok.ty, kw])
  | F64 _ => exact (h.lit_f64 hS).cast (by simp [Print.ty]) (by simp [PrintTok.ty, kw])
  | Char _ => exact (h.lit_char hS).cast (by simp [Print.ty]) (by simp [PrintTok.ty, kw])
  | Bool _ => exact (h.lit_bool hS).cast (by simp [Print.ty]) (by simp [PrintTok.ty, kw])
  | String _ => exact (h.lit_string hS).cast (by simp [Print.ty]) (by simp [PrintTok.ty, kw])
  | Tuple types _ =>
    have hw' : wfTys types = true := by
      simp only [Ty.wf, Bool.and_eq_true] at hw; exact hw.2
    have h1 := h.lit_tuple_lt hS
    have h2 := tys_inv types hw' true h1
    have h3 := h2.lit_gt (fun _ => rfl)
    exact (stopW_le_sAny h3).cast (by simp [Print.ty]) (by simp [PrintTok.ty, kw, oangle, cangle])
  | List t _ =>
    have hw' : t.wf = true := by simpa [Ty.wf] using hw
    have h1 := h.lit_list_lt hS
    have h2 := ty_inv t hw' h1 wordOK_sAny
    have h3 := h2.lit_gt (fun _ => rfl)
    exact (stopW_le_sAny h3).cast (by simp [Print.ty]) (by simp [PrintTok.ty, kw, oangle, cangle])
  | Option t _ =>
    have hw' : t.wf = true := by simpa [Ty.wf] using hw
    have h1 := h.lit_option_lt hS
    have h2 := ty_inv t hw' h1 wordOK_sAny
    have h3 := h2.lit_gt (fun _ => rfl)
    exact (stopW_le_sAny h3).cast (by simp [Print.ty]) (by simp [PrintTok.ty, kw, oangle, cangle])
  | Result ok err _ =>
    cases ok with
    | none =>
      cases err with
      | none => exact (h.lit_result hS).cast (by simp [Print.ty]) (by simp [PrintTok.ty, kw])
      | some e =>
        have hw' : e.wf = true := by simpa [Ty.wf] using hw
        have h1 := h.lit_result_lt_us hS
        have h2 := ty_inv e hw' h1 wordOK_sAny
        have h3 := h2.lit_gt (fun _ => rfl)
        exact (stopW_le_sAny h3).cast (by simp [Print.ty]) (by simp [PrintTok.ty, kw, oangle, cangle, comma])
    | some o =>
      cases err with
      | none =>
        have hw' : o.wf = true := by simpa [Ty.wf] using hw
        have h1 := h.lit_result_lt hS
        have h2 := ty_inv o hw' h1 wordOK_sAny
        have h3 := h2.lit_gt (fun _ => rfl)
        exact (stopW_le_sAny h3).cast (by simp [Print.ty]) (by simp [PrintTok.ty, kw, oangle, cangle])
      | some e =>
        have hw' : o.wf = true ∧ e.wf = true := by simpa [Ty.wf] using hw
        have h1 := h.lit_result_lt hS
        have h2 := ty_inv o hw'.1 h1 wordOK_sAny
        have h3 := h2.lit_comma_sp (fun _ => rfl)
        have h4 := ty_inv e hw'.2 h3 wordOK_sAny
        have h5 := h4.lit_gt (fun _ => rfl)
        exact (stopW_le_sAny h5).cast (by simp [Print.ty]) (by simp [PrintTok.ty, kw, oangle, cangle, comma])
  | Borrow id _ =>
    have hw' : id.wf = true := by simpa [Ty.wf] using hw
    have h1 := h.lit_borrow_lt hS
    have h2 := h1.ident id hw' wordOK_sAny
    have h3 := h2.lit_gt (fun _ => rfl)
    exact (stopW_le_sAny h3).cast (by simp [Print.ty]) (by simp [PrintTok.ty, kw, oangle, cangle, PrintTok.ident])
  | Ident id =>
    have hw' : id.wf = true := by simpa [Ty.wf] using hw
    exact (h.ident id hw' hS).cast (by simp [Print.ty]) (by simp [PrintTok.ty, PrintTok.ident])
theorem tys_inv (xs : List Ty) (hw : wfTys xs = true) {p : PS} {ts : List PTok} (first : Bool)
    (h : Inv p ts [] (if first then sAny else stopW)) :
    Inv (Print.tys p first xs) (ts ++ PrintTok.tys first xs) [] stopW := by
  cases xs with
  | nil =>
    cases first
    · exact h.cast (by simp [Print.tys]) (by simp [PrintTok.tys])
    · exact (stopW_le_sAny h).cast (by simp [Print.tys]) (by simp [PrintTok.tys])
  | cons t r =>
    have hw' : t.wf = true ∧ wfTys r = true := by simpa [wfTys] using hw
    cases first
    · have h1 := Inv.lit_comma_sp (S := stopW) h (fun _ => rfl)
      have h2 := ty_inv t hw'.1 h1 wordOK_sAny
      have h3 := tys_inv r hw'.2 false h2
      exact h3.cast (by simp [Print.tys]) (by simp [PrintTok.tys, comma, kw])
    · have h2 := ty_inv t hw'.1 (S := sAny) h wordOK_sAny
      have h3 := tys_inv r hw'.2 false h2
      exact h3.cast (by simp [Print.tys]) (by simp [PrintTok.tys])
end

/-- the loop of `named_types` -/
theorem namedTypes_fold_inv (xs : List NamedType) (hw : ∀ n ∈ xs, n.wf = true) :
    ∀ {p : PS} {ts : List PTok} (first : Bool), Inv p ts [] (if first then sAny else stopW) →
    Inv (xs.foldl (fun (acc : PS × Bool) (n : NamedType) =>
        let p := if acc.2 then acc.1 else acc.1.writeS ", "
        (Print.ty ((p.write (identSrc n.id)).writeS ": ") n.ty, false)) (p, first)).1
      (ts ++ PrintTok.namedTypes first xs) [] stopW := by
  induction xs with
  | nil =>
    intro p ts first h
    cases first
    · exact h.cast rfl (by simp [PrintTok.namedTypes])
    · exact (stopW_le_sAny h).cast rfl (by simp [PrintTok.namedTypes])
  | cons n r ih =>
    intro p ts first h
    have hn : n.id.wf = true ∧ n.ty.wf = true := by
      have := hw n (by simp)
      simpa [NamedType.wf] using this
    have hr : ∀ m ∈ r, m.wf = true := fun m hm => hw m (List.mem_cons_of_mem _ hm)
    cases first
    · have h1 := Inv.lit_comma_sp (S := stopW) h (fun _ => rfl)
      have h2 := h1.ident n.id hn.1 wordOK_sAny
      have h3 := h2.lit_colon_sp (fun _ hr => hr)
      have h4 := ty_inv n.ty hn.2 h3 wordOK_sAny
      have h5 := ih hr false h4
      exact h5.cast (by simp) (by simp [PrintTok.namedTypes, comma, colon, kw, PrintTok.ident])
    · have h2 := Inv.ident (S := sAny) h n.id hn.1 wordOK_sAny
      have h3 := h2.lit_colon_sp (fun _ hr => hr)
      have h4 := ty_inv n.ty hn.2 h3 wordOK_sAny
      have h5 := ih hr false h4
      exact h5.cast (by simp) (by simp [PrintTok.namedTypes, comma, colon, kw, PrintTok.ident])

/-- `named_types` after an opening parenthesis -/
theorem namedTypes_inv (xs : List NamedType) (hw : ∀ n ∈ xs, n.wf = true) {p : PS} {ts : List PTok}
    (h : Inv p ts [] sAny) :
    Inv (Print.namedTypes p xs) (ts ++ PrintTok.namedTypes true xs) [] stopW :=
  namedTypes_fold_inv xs hw true h

theorem funcType_inv (f : FuncType) (hw : f.wf = true) {p : PS} {ts : List PTok} {S : Stop}
    (h : Inv p ts [] S) (hS : WordOK S) :
    Inv (Print.funcType p f) (ts ++ PrintTok.funcType f) [] stopW := by
  have hw' : (∀ n ∈ f.params, n.wf = true) ∧ f.results.wf = true := by
    simpa [FuncType.wf, List.all_eq_true] using hw
  have h1 := h.lit_func_lp hS
  have h2 := namedTypes_inv f.params hw'.1 h1
  have h3 := h2.lit_rp (fun _ => rfl)
  unfold Print.funcType PrintTok.funcType
  cases hres : f.results with
  | Empty =>
    exact (stopW_le_sAny h3).cast (by simp) (by simp [kw, oparen, cparen])
  | Scalar t =>
    have ht : t.wf = true := by
      have := hw'.2; rw [hres] at this; simpa [ResultList.wf] using this
    have h4 := h3.lit_arrow (fun _ => rfl)
    have h5 := ty_inv t ht h4 wordOK_sAny
    exact h5.cast (by simp) (by simp [kw, oparen, cparen])

theorem funcTypeRef_inv (f : FuncTypeRef) (hw : f.wf = true) {p : PS} {ts : List PTok} {S : Stop}
    (h : Inv p ts [] S) (hS : WordOK S) :
    Inv (Print.funcTypeRef p f) (ts ++ PrintTok.funcTypeRef f) [] stopW := by
  cases f with
  | Func f => exact funcType_inv f (by simpa [FuncTypeRef.wf] using hw) h hS
  | Ident id =>
    exact (h.ident id (by simpa [FuncTypeRef.wf] using hw) hS).cast (by simp [Print.funcTypeRef])
      (by simp [PrintTok.funcTypeRef, PrintTok.ident])

/-- the loop "for (i, item) in items.enumerate() { if i > 0 { newline }; item; newline }" -/
theorem separated_inv {α : Type} (f : PS → α → PS) (T : α → List PTok) (xs : List α)
    (hf : ∀ x ∈ xs, ∀ (p : PS) (ts : List PTok), Inv p ts [] sAny → Inv (f p x) (ts ++ T x) [] sAny)
    {p : PS} {ts : List PTok} (h : Inv p ts [] sAny) :
    Inv (Print.separated p f xs) (ts ++ xs.flatMap T) [] sAny := by
  unfold Print.separated
  have key : ∀ (xs : List α), (∀ x ∈ xs, ∀ (p : PS) (ts : List PTok), Inv p ts [] sAny →
      Inv (f p x) (ts ++ T x) [] sAny) → ∀ (p : PS) (ts : List PTok) (first : Bool),
      Inv p ts [] sAny →
      Inv (xs.foldl (fun (acc : PS × Bool) x =>
        let p := if acc.2 then acc.1 else acc.1.newline
        ((f p x).newline, false)) (p, first)).1 (ts ++ xs.flatMap T) [] sAny := by
    intro xs
    induction xs with
    | nil => intro _ p ts first h; simpa using h
    | cons x r ih =>
      intro hf p ts first h
      have hr := ih (fun y hy => hf y (List.mem_cons_of_mem _ hy))
      have hx := hf x (by simp)
      cases first
      · have h1 := h.nl (fun _ => rfl)
        have h2 := (hx _ _ h1).nl (fun _ => rfl)
        exact (hr _ _ false h2).cast (by simp) (by simp)
      · have h2 := (hx _ _ h).nl (fun _ => rfl)
        exact (hr _ _ false h2).cast (by simp) (by simp)
  exact key xs hf p ts true h

/-- `type_alias` (an example of an item with doc comments) -/
theorem typeAlias_inv (a : TypeAlias) (hw : a.wf = true) {p : PS} {ts : List PTok}
    (h : Inv p ts [] sAny) :
    Inv (Print.typeAlias p a) (ts ++ PrintTok.typeAlias a) [] sAny := by
  have hw' : a.id.wf = true ∧ a.kind.wf = true := by simpa [TypeAlias.wf] using hw
  have h1 := ((h.docs a.docs).indent.lit_type_sp wordOK_sAny).ident a.id hw'.1 wordOK_sAny
  have h2 := h1.lit_eq (fun _ => rfl)
  unfold Print.typeAlias PrintTok.typeAlias
  cases hk : a.kind with
  | Func f =>
    have hf : f.wf = true := by have := hw'.2; rw [hk] at this; simpa [TypeAliasKind.wf] using this
    have h3 := (funcType_inv f hf h2 wordOK_sAny).lit_semi (fun _ => rfl)
    exact h3.cast (by simp) (by simp [dkw, kw, semi, PrintTok.ident])
  | Type' t =>
    have ht : t.wf = true := by have := hw'.2; rw [hk] at this; simpa [TypeAliasKind.wf] using this
    have h3 := (ty_inv t ht h2 wordOK_sAny).lit_semi (fun _ => rfl)
    exact h3.cast (by simp) (by simp [dkw, kw, semi, PrintTok.ident])

end Wac.Lemmas.PrinterLayout
