import WacProofs.Lemmas.GraphInv
/-
  `clearSatEdges` (the repair of DESIGN §10 row 1): what it does to every node, as a function
  of the edges it walked; list-level facts about repeated `erase`.
-/
namespace Wac.Graph
open Wac Wac.HashSites

/-- replace the satisfied set of an instantiation node (other nodes are unchanged) -/
def setSat (x : Node) (s : List Nat) : Node :=
  match x.kind with
  | .instantiation _ => { x with kind := .instantiation s }
  | _ => x

theorem setSat_pkg (x : Node) (s : List Nat) : (setSat x s).pkg = x.pkg := by unfold setSat; split <;> rfl
theorem setSat_item (x : Node) (s : List Nat) : (setSat x s).item = x.item := by unfold setSat; split <;> rfl
theorem setSat_exp (x : Node) (s : List Nat) : (setSat x s).exp = x.exp := by unfold setSat; split <;> rfl
theorem setSat_isInst (x : Node) (s : List Nat) : (setSat x s).isInst = x.isInst := by
  unfold setSat; split
  · rename_i h; simp [Node.isInst, h]
  · rfl
theorem setSat_isAlias (x : Node) (s : List Nat) : (setSat x s).isAlias = x.isAlias := by
  unfold setSat; split
  · rename_i h; simp [Node.isAlias, h]
  · rfl
theorem setSat_isDef (x : Node) (s : List Nat) : (setSat x s).isDef = x.isDef := by
  unfold setSat; split
  · rename_i h; simp [Node.isDef, h]
  · rfl
theorem setSat_defTy (x : Node) (s : List Nat) : (setSat x s).defTy = x.defTy := by
  unfold setSat; split
  · rename_i h; simp [Node.defTy, h]
  · rfl
theorem setSat_of_not_inst {x : Node} (h : x.isInst = false) (s : List Nat) : setSat x s = x := by
  unfold setSat; split
  · rename_i hk; simp [Node.isInst, hk] at h
  · rfl
theorem setSat_kind_inst {x : Node} {sat : List Nat} (h : x.kind = .instantiation sat) (s : List Nat) :
    (setSat x s).kind = .instantiation s := by
  unfold setSat; rw [h]
theorem setSat_sat_self (x : Node) : setSat x x.sat = x := by
  unfold setSat Node.sat
  split
  · rename_i s h; cases x; simp only at h; subst h; rfl
  · rfl
theorem setSat_setSat (x : Node) (s t : List Nat) : setSat (setSat x s) t = setSat x t := by
  unfold setSat
  cases hk : x.kind <;> simp [hk]
theorem setSat_sat {x : Node} (h : x.isInst = true) (s : List Nat) : (setSat x s).sat = s := by
  unfold Node.isInst at h
  unfold setSat Node.sat
  cases hk : x.kind <;> simp [hk] at h ⊢

/-- the argument indices `clearSatEdges` erases at node `m`, in the order of the walk -/
def erasesFor (sel : Edge → Bool) (m : Nat) : List Edge → List Nat
  | [] => []
  | e :: r =>
    match e.kind with
    | .arg i => if sel e && e.dst == m then i :: erasesFor sel m r else erasesFor sel m r
    | _ => erasesFor sel m r

theorem erasesFor_cons_arg {sel : Edge → Bool} {m i : Nat} {e : Edge} (r : List Edge) (hk : e.kind = .arg i) :
    erasesFor sel m (e :: r) = if sel e && e.dst == m then i :: erasesFor sel m r else erasesFor sel m r := by
  rw [erasesFor]; simp only [hk]

theorem erasesFor_cons_alias {sel : Edge → Bool} {m j : Nat} {e : Edge} (r : List Edge) (hk : e.kind = .alias j) :
    erasesFor sel m (e :: r) = erasesFor sel m r := by
  rw [erasesFor]; simp only [hk]

theorem erasesFor_cons_dep {sel : Edge → Bool} {m : Nat} {e : Edge} (r : List Edge) (hk : e.kind = .dep) :
    erasesFor sel m (e :: r) = erasesFor sel m r := by
  rw [erasesFor]; simp only [hk]

theorem mem_erasesFor {sel : Edge → Bool} {m i : Nat} {es : List Edge} :
    i ∈ erasesFor sel m es ↔ ∃ e ∈ es, e.kind = .arg i ∧ sel e = true ∧ e.dst = m := by
  induction es with
  | nil => simp [erasesFor]
  | cons e r ih =>
    cases hk : e.kind with
    | arg j =>
      rw [erasesFor_cons_arg r hk]
      by_cases hs : (sel e && e.dst == m) = true
      · simp only [hs, ↓reduceIte, List.mem_cons, ih]
        simp only [Bool.and_eq_true, beq_iff_eq] at hs
        constructor
        · rintro (rfl | ⟨e', he', h1, h2, h3⟩)
          · exact ⟨e, Or.inl rfl, hk, hs.1, hs.2⟩
          · exact ⟨e', Or.inr he', h1, h2, h3⟩
        · rintro ⟨e', he' | he', h1, h2, h3⟩
          · subst he'; rw [hk] at h1; cases h1; exact Or.inl rfl
          · exact Or.inr ⟨e', he', h1, h2, h3⟩
      · simp only [hs, Bool.false_eq_true, ↓reduceIte, ih, List.mem_cons]
        constructor
        · rintro ⟨e', he', h1, h2, h3⟩; exact ⟨e', Or.inr he', h1, h2, h3⟩
        · rintro ⟨e', he' | he', h1, h2, h3⟩
          · subst he'
            exfalso; apply hs
            simp [h2, h3]
          · exact ⟨e', he', h1, h2, h3⟩
    | alias j =>
      rw [erasesFor_cons_alias r hk]
      simp only [ih, List.mem_cons]
      constructor
      · rintro ⟨e', he', h1, h2, h3⟩; exact ⟨e', Or.inr he', h1, h2, h3⟩
      · rintro ⟨e', he' | he', h1, h2, h3⟩
        · subst he'; rw [hk] at h1; cases h1
        · exact ⟨e', he', h1, h2, h3⟩
    | dep =>
      rw [erasesFor_cons_dep r hk]
      simp only [ih, List.mem_cons]
      constructor
      · rintro ⟨e', he', h1, h2, h3⟩; exact ⟨e', Or.inr he', h1, h2, h3⟩
      · rintro ⟨e', he' | he', h1, h2, h3⟩
        · subst he'; rw [hk] at h1; cases h1
        · exact ⟨e', he', h1, h2, h3⟩

/-- erasing a list of elements from a duplicate-free list -/
theorem foldl_erase_spec : ∀ (xs : List Nat) (s : List Nat), s.Nodup →
    (xs.foldl List.erase s).Nodup ∧ (xs.foldl List.erase s).Sublist s ∧
    ∀ i, i ∈ xs.foldl List.erase s ↔ i ∈ s ∧ i ∉ xs
  | [], s, h => ⟨h, List.Sublist.refl _, by simp⟩
  | x :: r, s, h => by
    simp only [List.foldl_cons]
    obtain ⟨a, b, c⟩ := foldl_erase_spec r (s.erase x) (h.erase x)
    refine ⟨a, b.trans List.erase_sublist, ?_⟩
    intro i
    rw [c i, h.mem_erase_iff]
    simp only [List.mem_cons, not_or]
    constructor
    · rintro ⟨⟨h1, h2⟩, h3⟩; exact ⟨h2, h1, h3⟩
    · rintro ⟨h1, h2, h3⟩; exact ⟨⟨h2, h1⟩, h3⟩

/-- frame of `clearSat` -/
theorem clearSat_spec {g g' : Graph} {n i : Nat} (h : g.clearSat n i = .ok g') :
    ∃ nd sat, g.node? n = some nd ∧ nd.kind = .instantiation sat ∧ i ∈ sat ∧
      g'.nodes = g.nodes.set n (some { nd with kind := .instantiation (sat.erase i) }) ∧
      g'.freeNodes = g.freeNodes ∧ g'.edges = g.edges ∧ g'.imports = g.imports ∧ g'.exports = g.exports ∧
      g'.defined = g.defined ∧ g'.pkgs = g.pkgs ∧ g'.pkgMap = g.pkgMap ∧ g'.freePkgs = g.freePkgs := by
  unfold Graph.clearSat at h
  split at h
  · cases h
  · rename_i nd hnd
    split at h
    · rename_i sat hk
      split at h
      · rename_i hc
        simp only [Except.ok.injEq] at h
        subst h
        exact ⟨nd, sat, hnd, hk, by simpa using hc, rfl, rfl, rfl, rfl, rfl, rfl, rfl, rfl, rfl⟩
      · cases h
    · cases h

/-- what a successful `clearSatEdges` walk did -/
structure ClearedBy (g g' : Graph) (sel : Edge → Bool) (es : List Edge) : Prop where
  node : ∀ m, g'.node? m = (g.node? m).map (fun x => setSat x ((erasesFor sel m es).foldl List.erase x.sat))
  len : g'.nodes.length = g.nodes.length
  freeNodes : g'.freeNodes = g.freeNodes
  edges : g'.edges = g.edges
  imports : g'.imports = g.imports
  exports : g'.exports = g.exports
  defined : g'.defined = g.defined
  pkgs : g'.pkgs = g.pkgs
  pkgMap : g'.pkgMap = g.pkgMap
  freePkgs : g'.freePkgs = g.freePkgs

theorem clearSatEdges_spec (sel : Edge → Bool) : ∀ (es : List Edge) (g g' : Graph),
    clearSatEdges g sel es = .ok g' → ClearedBy g g' sel es
  | [], g, g', h => by
    simp only [clearSatEdges, Except.ok.injEq] at h
    subst h
    refine ⟨?_, rfl, rfl, rfl, rfl, rfl, rfl, rfl, rfl, rfl⟩
    intro m
    simp only [erasesFor, List.foldl_nil]
    cases g.node? m with
    | none => rfl
    | some x => simp [setSat_sat_self]
  | e :: r, g, g', h => by
    unfold clearSatEdges at h
    cases hk : e.kind with
    | arg i =>
      rw [hk] at h
      simp only at h
      by_cases hs : sel e = true
      · simp only [hs, ↓reduceIte] at h
        split at h
        · cases h
        · rename_i g1 h1
          obtain ⟨nd, sat, hnd, hkind, _, hn1, c2, c3, c4, c5, c6, c7, c8, c9⟩ := clearSat_spec h1
          have ih := clearSatEdges_spec sel r g1 g' h
          have hlt := node?_eq_some_lt hnd
          have hnode1 : ∀ m, g1.node? m = if m = e.dst then some { nd with kind := .instantiation (sat.erase i) }
              else g.node? m := fun m => node?_set hn1 hlt m
          refine ⟨?_, ?_, ih.freeNodes.trans c2, ih.edges.trans c3, ih.imports.trans c4, ih.exports.trans c5,
            ih.defined.trans c6, ih.pkgs.trans c7, ih.pkgMap.trans c8, ih.freePkgs.trans c9⟩
          · intro m
            rw [ih.node m, hnode1 m, erasesFor_cons_arg r hk]
            simp only [hs, Bool.true_and]
            by_cases hm : m = e.dst
            · subst hm
              simp only [↓reduceIte, beq_self_eq_true, Option.map_some, List.foldl_cons, hnd]
              have hsat : nd.sat = sat := by simp [Node.sat, hkind]
              have hsat' : ({ nd with kind := NodeKind.instantiation (sat.erase i) } : Node).sat = sat.erase i := by
                simp [Node.sat]
              rw [hsat, hsat']
              congr 1
              unfold setSat
              simp [hkind]
            · have : (e.dst == m) = false := by simpa using (Ne.symm hm)
              simp [hm, this]
          · rw [ih.len, hn1, List.length_set]
      · simp only [hs, Bool.false_eq_true, ↓reduceIte] at h
        have ih := clearSatEdges_spec sel r g g' h
        refine ⟨?_, ih.len, ih.freeNodes, ih.edges, ih.imports, ih.exports, ih.defined, ih.pkgs, ih.pkgMap, ih.freePkgs⟩
        intro m
        rw [ih.node m, erasesFor_cons_arg r hk]
        simp [hs]
    | alias j =>
      rw [hk] at h
      simp only at h
      have ih := clearSatEdges_spec sel r g g' h
      refine ⟨?_, ih.len, ih.freeNodes, ih.edges, ih.imports, ih.exports, ih.defined, ih.pkgs, ih.pkgMap, ih.freePkgs⟩
      intro m
      rw [ih.node m, erasesFor_cons_alias r hk]
    | dep =>
      rw [hk] at h
      simp only at h
      have ih := clearSatEdges_spec sel r g g' h
      refine ⟨?_, ih.len, ih.freeNodes, ih.edges, ih.imports, ih.exports, ih.defined, ih.pkgs, ih.pkgMap, ih.freePkgs⟩
      intro m
      rw [ih.node m, erasesFor_cons_dep r hk]

end Wac.Graph
