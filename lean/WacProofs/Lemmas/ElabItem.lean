import WacProofs.Lemmas.ElabFunc
/-
  C05 `elab_denotes`, part 4: the type declarations of value types (`record`, `variant`, `enum`,
  `flags`, `type` aliases) of an interface / world body.
-/
namespace Wac.Elab
open Wac Wac.Spec.Wit Wac.Decode

variable {ρ : Nat → Res}

/-- fuel bound for item kinds -/
def kb (T : Types) : Nat := vb T + 1

/-- an exported resource also carries the fuel-explicit leaf fact (needed when it is `use`d and then
aliased) -/
def ResOk (ρ : Nat → Res) (T : Types) (k : ItemKind) (t : Tree) : Prop :=
  ∀ rid, k = .type (.resource rid) → ∃ q : Res, t = .type (.resource q) ∧ HR T rid (ρ q.idx)

theorem ResOk.mono {T T' : Types} {k : ItemKind} {t : Tree} (h : ResOk ρ T k t) (hg : Grow T T') :
    ResOk ρ T' k t := by
  intro rid hk
  obtain ⟨q, hq, hr⟩ := h rid hk
  exact ⟨q, hq, hr.mono hg⟩

/-- the exports the elaboration added correspond to the items the specification lists -/
def ExpRel (ρ : Nat → Res) (T : Types) (ks : List (Str × ItemKind)) (out : List (Str × Tree)) : Prop :=
  All2 (fun (k : Str × ItemKind) (t : Str × Tree) => k.1 = t.1 ∧ HK [] [] T (kb T) k.2 (renT ρ t.2) ∧
    ResOk ρ T k.2 t.2) ks out

theorem ExpRel.mono {T T' : Types} {ks : List (Str × ItemKind)} {out : List (Str × Tree)}
    (h : ExpRel ρ T ks out) (hg : Grow T T') : ExpRel ρ T' ks out :=
  All2.imp (fun _ _ hkt => ⟨hkt.1, HK.mono hkt.2.1 hg.ext (by have := hg.size; unfold kb vb; omega),
    hkt.2.2.mono hg⟩) h

/-- a type export of a value type -/
theorem HK_type_value {T : Types} {v : ValueType} {t : Tree} (h : HV [] [] T (vb T) v (renT ρ t)) :
    HK [] [] T (kb T) (.type (.value v)) (renT ρ (.type t)) := by
  intro T' F he hF
  obtain ⟨F', rfl⟩ : ∃ F', F = F' + 1 := ⟨F - 1, by unfold kb at hF; omega⟩
  simp only [Types.unfoldKind, h T' F' he (by unfold kb at hF; omega), Option.map_some, renT]

/-- a function item -/
theorem HK_func {T : Types} {f : Nat} {t : Tree} (h : FuncRel ρ T f t) :
    HK [] [] T (kb T) (.func f) (renT ρ t) := by
  intro T' F he hF
  obtain ⟨F', rfl⟩ : ∃ F', F = F' + 1 := ⟨F - 1, by unfold kb at hF; omega⟩
  simp only [Types.unfoldKind]
  exact h T' F' he (by unfold kb at hF; omega)

theorem alGet_append {β : Type} (m : List (Str × β)) (k : Str) (v : β) (n : Str) :
    alGet (m ++ [(k, v)]) n = match alGet m n with
      | some x => some x
      | none => if k == n then some v else none := by
  induction m with
  | nil => simp [alGet]
  | cons y ys ih =>
    obtain ⟨k', v'⟩ := y
    simp only [List.cons_append, alGet]
    split
    · rfl
    · exact ih

/-- a new name enters both scopes -/
theorem Sim.push {T : Types} {scope : List (Str × Bound)} {binds : List (Str × Bind)} {n : Str}
    {b : Bound} {bd : Bind} (h : Sim ρ T scope binds) (hfresh : alGet scope n = none)
    (hb : SimB ρ T (some b) (some bd)) : Sim ρ T (scope ++ [(n, b)]) (binds ++ [(n, bd)]) := by
  intro m
  rw [alGet_append, alGet_append]
  have hm := h m
  by_cases hnm : (n == m) = true
  · have : m = n := by simpa using (beq_iff_eq.mp hnm).symm
    subst this
    rw [hfresh] at hm ⊢
    cases hbm : alGet binds m with
    | none => simp only [hnm, if_true]; exact hb
    | some x => rw [hbm] at hm; exact hm.elim
  · simp only [hnm]
    cases hs : alGet scope m <;> cases hbm : alGet binds m <;> rw [hs, hbm] at hm <;> simp_all

theorem register_ok {st st' : St} {n : Str} {b : Bound} (h : register st n b = .ok st') :
    alGet st.scope n = none ∧ st' = { st with scope := st.scope ++ [(n, b)] } := by
  unfold register at h
  split at h
  · cases h
  · rename_i hf
    cases h
    refine ⟨?_, rfl⟩
    simpa using hf

/-- the common end of a value-type declaration: allocate, register the name, export the type -/
theorem valueDecl_ok {st2 st3 : St} {n : Str} {id : Nat} {externs : List (Str × ItemKind)}
    {s : Scope} {t : Tree}
    (hreg : register st2 n (.ty (.value (.defined id))) = .ok st3)
    (hsim : Sim ρ st2.types st2.scope s.binds)
    (hv : HV [] [] st2.types (vb st2.types) (.defined id) (renT ρ t))
    (hfresh : alGet externs n = none) :
    st3.types = st2.types ∧ st3.root = st2.root ∧
    Sim ρ st3.types st3.scope ({ s with binds := s.binds ++ [(n, .val t)] } : Scope).binds ∧
    alInsert externs n (.type (.value (.defined id))) = externs ++ [(n, .type (.value (.defined id)))] ∧
    ExpRel ρ st3.types [(n, .type (.value (.defined id)))] [(n, .type t)] := by
  obtain ⟨hfr, rfl⟩ := register_ok hreg
  refine ⟨rfl, rfl, hsim.push hfr hv, alInsert_fresh _ _ _ (alGet_none_not_mem _ _ hfresh),
    ⟨rfl, HK_type_value hv, fun _ hk => by cases hk⟩, trivial⟩

end Wac.Elab
