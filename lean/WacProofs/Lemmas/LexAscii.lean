import WacModel.Lexer
import WacProofs.Lemmas.Utf8
/-
  The text of an identifier / package-name / package-path token consists of "name characters"
  (ASCII letters, digits and `% - : / @ . +`), so byte offsets inside such a token are character
  offsets; a package-path token contains a `/`.
-/
namespace Wac.Lemmas.LexAscii
open Wac Wac.Lex Wac.Lemmas

def nameChar (c : Char) : Bool :=
  isLower c || isUpper c || isDigit c || c == '-' || c == '%' || c == ':' || c == '/' || c == '@' || c == '.' || c == '+'

/-- the first `n` characters of `s` satisfy `p` -/
def AllP (p : Char → Bool) (s : Str) (n : Nat) : Prop := ∀ c ∈ s.take n, p c = true

theorem AllP.zero {p s} : AllP p s 0 := by intro c h; simp at h

theorem AllP.cons {p c r k} (hc : p c = true) (h : AllP p r k) : AllP p (c :: r) (k + 1) := by
  intro d hd
  simp only [List.take_succ_cons, List.mem_cons] at hd
  rcases hd with rfl | hd
  · exact hc
  · exact h d hd

theorem AllP.add {p s n m} (h1 : AllP p s n) (h2 : AllP p (s.drop n) m) : AllP p s (n + m) := by
  intro c hc
  rw [List.take_add] at hc
  simp only [List.mem_append] at hc
  rcases hc with hc | hc
  · exact h1 c hc
  · exact h2 c hc

theorem AllP.mono {p s n m} (h : AllP p s n) (hm : m ≤ n) : AllP p s m := by
  intro c hc
  exact h c (List.mem_of_mem_take (by
    have : s.take m = (s.take n).take m := by rw [List.take_take]; simp [Nat.min_eq_left hm]
    rw [this] at hc; exact hc))

theorem allP_takeWhile (p : Char → Bool) (s : Str) : AllP p s (s.takeWhile p).length := by
  induction s with
  | nil => intro c h; simp at h
  | cons c r ih =>
    by_cases hc : p c = true
    · simp only [List.takeWhile_cons, hc, if_true, List.length_cons]
      exact AllP.cons hc ih
    · simp [List.takeWhile_cons, hc]; exact AllP.zero

theorem wordTailLen_all (u : Bool) : ∀ s, AllP nameChar s (wordTailLen u s) := by
  intro s
  induction s with
  | nil => simp [wordTailLen]; exact AllP.zero
  | cons c r ih =>
    by_cases h : ((if u then isUpper c else isLower c) || isDigit c) = true
    · have hl : wordTailLen u (c :: r) = wordTailLen u r + 1 := by simp [wordTailLen, h]
      rw [hl]
      refine AllP.cons ?_ ih
      cases u <;> simp at h <;> (rcases h with h | h <;> simp [nameChar, h])
    · have hl : wordTailLen u (c :: r) = 0 := by simp [wordTailLen, h]
      rw [hl]; exact AllP.zero

theorem wordLen_all (s : Str) : AllP nameChar s (wordLen s) := by
  cases s with
  | nil => simp [wordLen]; exact AllP.zero
  | cons c r =>
    by_cases h1 : isLower c = true
    · have hl : wordLen (c :: r) = wordTailLen false r + 1 := by simp [wordLen, h1]
      rw [hl]; exact AllP.cons (by simp [nameChar, h1]) (wordTailLen_all _ r)
    · by_cases h2 : isUpper c = true
      · have hl : wordLen (c :: r) = wordTailLen true r + 1 := by simp [wordLen, h1, h2]
        rw [hl]; exact AllP.cons (by simp [nameChar, h2]) (wordTailLen_all _ r)
      · have hl : wordLen (c :: r) = 0 := by simp [wordLen, h1, h2]
        rw [hl]; exact AllP.zero

/-- a separator character followed by a non-empty run, followed by more -/
theorem sep_step {sep : Char} {r : Str} {w k : Nat} (hsep : nameChar sep = true)
    (h1 : AllP nameChar r w) (h2 : AllP nameChar (r.drop w) k) : AllP nameChar (sep :: r) (1 + w + k) := by
  have a : AllP nameChar (sep :: r) (w + 1) := AllP.cons hsep h1
  have b : AllP nameChar ((sep :: r).drop (w + 1)) k := by simpa using h2
  have := AllP.add a b
  rw [show 1 + w + k = w + 1 + k by omega]; exact this

theorem dashWordsLen_all : ∀ fuel s, AllP nameChar s (dashWordsLen fuel s) := by
  intro fuel
  induction fuel with
  | zero => intro s; simp [dashWordsLen]; exact AllP.zero
  | succ fuel ih =>
    intro s
    match s with
    | [] => simp [dashWordsLen]; exact AllP.zero
    | c :: r =>
      by_cases hc : c = '-'
      · subst hc
        by_cases hw : wordLen r = 0
        · have : dashWordsLen (fuel + 1) ('-' :: r) = 0 := by simp [dashWordsLen, hw]
          rw [this]; exact AllP.zero
        · have : dashWordsLen (fuel + 1) ('-' :: r) = 1 + wordLen r + dashWordsLen fuel (r.drop (wordLen r)) := by
            simp [dashWordsLen, hw]
          rw [this]; exact sep_step (by decide) (wordLen_all r) (ih _)
      · have : dashWordsLen (fuel + 1) (c :: r) = 0 := by
          unfold dashWordsLen; split <;> simp_all
        rw [this]; exact AllP.zero

theorem idLen_all (s : Str) : AllP nameChar s (idLen s) := by
  match s with
  | [] => simp [idLen, wordLen]; exact AllP.zero
  | c :: r =>
    by_cases hc : c = '%'
    · subst hc
      by_cases hw : wordLen r = 0
      · have : idLen ('%' :: r) = 0 := by simp [idLen, hw]
        rw [this]; exact AllP.zero
      · have : idLen ('%' :: r) = 1 + wordLen r + dashWordsLen r.length (r.drop (wordLen r)) := by
          simp [idLen, hw]
        rw [this]; exact sep_step (by decide) (wordLen_all r) (dashWordsLen_all _ _)
    · by_cases hw : wordLen (c :: r) = 0
      · have : idLen (c :: r) = 0 := by
          unfold idLen; split <;> simp_all
        rw [this]; exact AllP.zero
      · have : idLen (c :: r) = wordLen (c :: r) + dashWordsLen (c :: r).length ((c :: r).drop (wordLen (c :: r))) := by
          unfold idLen; split <;> simp_all
        rw [this]; exact AllP.add (wordLen_all _) (dashWordsLen_all _ _)

theorem colonIdsLen_all : ∀ fuel s, AllP nameChar s (colonIdsLen fuel s) := by
  intro fuel
  induction fuel with
  | zero => intro s; simp [colonIdsLen]; exact AllP.zero
  | succ fuel ih =>
    intro s
    match s with
    | [] => simp [colonIdsLen]; exact AllP.zero
    | c :: r =>
      by_cases hc : c = ':'
      · subst hc
        by_cases hw : idLen r = 0
        · have : colonIdsLen (fuel + 1) (':' :: r) = 0 := by simp [colonIdsLen, hw]
          rw [this]; exact AllP.zero
        · have : colonIdsLen (fuel + 1) (':' :: r) = 1 + idLen r + colonIdsLen fuel (r.drop (idLen r)) := by
            simp [colonIdsLen, hw]
          rw [this]; exact sep_step (by decide) (idLen_all r) (ih _)
      · have : colonIdsLen (fuel + 1) (c :: r) = 0 := by
          unfold colonIdsLen; split <;> simp_all
        rw [this]; exact AllP.zero

theorem packageNameLen_all (s : Str) : AllP nameChar s (packageNameLen s) := by
  unfold packageNameLen
  simp only []
  split
  · exact AllP.zero
  · split
    · exact AllP.zero
    · exact AllP.add (idLen_all s) (colonIdsLen_all _ _)

theorem semverChar_name {c : Char} (h : isSemverChar c = true) : nameChar c = true := by
  simp [isSemverChar] at h
  simp [nameChar]
  rcases h with (((h | h) | h) | h) | h <;> simp [h]

theorem takeWhile_semver_all (r : Str) : AllP nameChar r (r.takeWhile isSemverChar).length := by
  intro c hc
  exact semverChar_name (allP_takeWhile isSemverChar r c hc)

theorem takeWhile_digit_all (r : Str) : AllP nameChar r (r.takeWhile isDigit).length := by
  intro c hc
  have := allP_takeWhile isDigit r c hc
  simp [nameChar, this]

theorem dotChunksLen_all : ∀ fuel s, AllP nameChar s (dotChunksLen fuel s) := by
  intro fuel
  induction fuel with
  | zero => intro s; simp [dotChunksLen]; exact AllP.zero
  | succ fuel ih =>
    intro s
    match s with
    | [] => simp [dotChunksLen]; exact AllP.zero
    | c :: r =>
      by_cases hc : c = '.'
      · subst hc
        by_cases hw : (r.takeWhile isSemverChar).length = 0
        · have : dotChunksLen (fuel + 1) ('.' :: r) = 0 := by simp [dotChunksLen, hw]
          rw [this]; exact AllP.zero
        · have : dotChunksLen (fuel + 1) ('.' :: r) = 1 + (r.takeWhile isSemverChar).length + dotChunksLen fuel (r.drop ((r.takeWhile isSemverChar).length)) := by
            simp [dotChunksLen, hw]
          rw [this]; exact sep_step (by decide) (takeWhile_semver_all r) (ih _)
      · have : dotChunksLen (fuel + 1) (c :: r) = 0 := by
          unfold dotChunksLen; split <;> simp_all
        rw [this]; exact AllP.zero

theorem semverLen_all (s : Str) : AllP nameChar s (semverLen s) := by
  unfold semverLen
  simp only []
  split
  · exact AllP.zero
  · exact AllP.add (takeWhile_digit_all s) (dotChunksLen_all _ _)

theorem atVersionLen_all (s : Str) : AllP nameChar s (atVersionLen s) := by
  match s with
  | [] => simp [atVersionLen]; exact AllP.zero
  | c :: r =>
    by_cases hc : c = '@'
    · subst hc
      by_cases hw : semverLen r = 0
      · have : atVersionLen ('@' :: r) = 0 := by simp [atVersionLen, hw]
        rw [this]; exact AllP.zero
      · have : atVersionLen ('@' :: r) = semverLen r + 1 := by simp [atVersionLen, hw]; omega
        rw [this]; exact AllP.cons (by decide) (semverLen_all r)
    · have : atVersionLen (c :: r) = 0 := by
        unfold atVersionLen; split <;> simp_all
      rw [this]; exact AllP.zero

theorem slashIdsLen_all : ∀ fuel s, AllP nameChar s (slashIdsLen fuel s) := by
  intro fuel
  induction fuel with
  | zero => intro s; simp [slashIdsLen]; exact AllP.zero
  | succ fuel ih =>
    intro s
    match s with
    | [] => simp [slashIdsLen]; exact AllP.zero
    | c :: r =>
      by_cases hc : c = '/'
      · subst hc
        by_cases hw : idLen r = 0
        · have : slashIdsLen (fuel + 1) ('/' :: r) = 0 := by simp [slashIdsLen, hw]
          rw [this]; exact AllP.zero
        · have : slashIdsLen (fuel + 1) ('/' :: r) = 1 + idLen r + slashIdsLen fuel (r.drop (idLen r)) := by
            simp [slashIdsLen, hw]
          rw [this]; exact sep_step (by decide) (idLen_all r) (ih _)
      · have : slashIdsLen (fuel + 1) (c :: r) = 0 := by
          unfold slashIdsLen; split <;> simp_all
        rw [this]; exact AllP.zero

theorem packageNameTokLen_all (s : Str) : AllP nameChar s (packageNameTokLen s) := by
  unfold packageNameTokLen
  simp only []
  split
  · exact AllP.zero
  · exact AllP.add (packageNameLen_all s) (atVersionLen_all _)

theorem packagePathTokLen_all (s : Str) : AllP nameChar s (packagePathTokLen s) := by
  unfold packagePathTokLen
  simp only []
  split
  · exact AllP.zero
  · split
    · exact AllP.zero
    · rw [Nat.add_assoc]
      refine AllP.add (packageNameLen_all s) ?_
      refine AllP.add (slashIdsLen_all _ _) ?_
      rw [List.drop_drop]
      exact atVersionLen_all _

/-- a name character is one byte long -/
theorem nameChar_ascii {c : Char} (h : nameChar c = true) : c.utf8Size = 1 := by
  have : c.val ≤ 127 := by
    simp [nameChar, isLower, isUpper, isDigit] at h
    have hv : ∀ d : Char, c = d → c.val = d.val := fun d hd => by rw [hd]
    rcases h with ((((((((h | h) | h) | h) | h) | h) | h) | h) | h) | h
    all_goals first
      | (obtain ⟨_, h2⟩ := h; exact Nat.le_trans (by exact h2) (by decide))
      | (rw [hv _ h]; decide)
  simp [Char.utf8Size, this]

theorem mem_take_of_head_drop {s : Str} {n k : Nat} {c : Char} (h : (s.drop n).head? = some c) (hk : n < k) :
    c ∈ s.take k := by
  obtain ⟨j, rfl⟩ : ∃ j, k = n + (j + 1) := ⟨k - n - 1, by omega⟩
  rw [List.take_add]
  cases hd : s.drop n with
  | nil => simp [hd] at h
  | cons d rest =>
    simp [hd] at h
    subst h
    simp

theorem slashIdsLen_pos {fuel : Nat} {s : Str} (h : slashIdsLen fuel s > 0) : s.head? = some '/' := by
  cases fuel with
  | zero => simp [slashIdsLen] at h
  | succ fuel =>
    unfold slashIdsLen at h
    split at h
    · simp
    · simp at h

/-- a package-path token contains a `/` -/
theorem packagePathTokLen_slash {s : Str} (h : packagePathTokLen s > 0) : '/' ∈ s.take (packagePathTokLen s) := by
  unfold packagePathTokLen at h ⊢
  simp only [] at h ⊢
  split at h
  · simp at h
  · rename_i hn
    rw [if_neg hn]
    split at h
    · simp at h
    · rename_i hm
      rw [if_neg hm]
      have hpos : slashIdsLen s.length (s.drop (packageNameLen s)) > 0 := by omega
      exact mem_take_of_head_drop (n := packageNameLen s) (slashIdsLen_pos hpos) (by omega)

def isPkgKind (k : Token) : Bool := k == .PackageName || k == .PackagePath

theorem keywordTable_not_pkg : keywordTable.all (fun p => !isPkgKind p.2) = true := by decide
theorem symbolTable_not_pkg : symbolTable.all (fun p => !isPkgKind p.2) = true := by decide

theorem lookupKeyword_not_pkg {s : Str} {k : Token} (h : lookupKeyword s = some k) : isPkgKind k = false := by
  unfold lookupKeyword at h
  cases hf : keywordTable.find? (fun x => x.1 == s) with
  | none => simp [hf] at h
  | some p =>
    simp [hf] at h
    have hm := List.mem_of_find?_eq_some hf
    have := List.all_eq_true.mp keywordTable_not_pkg p hm
    subst h; simpa using this

theorem matchSymbol_not_pkg {s : Str} {t : Token} {n : Nat} (h : matchSymbol s = some (t, n)) : isPkgKind t = false := by
  unfold matchSymbol at h
  have key : ∀ (l : List (Str × Token)) (acc : Option (Token × Nat)),
      (∀ p ∈ l, isPkgKind p.2 = false) → (∀ t n, acc = some (t, n) → isPkgKind t = false) →
      ∀ t n, l.foldl (fun best (x : Str × Token) =>
        if x.1.isPrefixOf s && x.1.length > (best.map (·.2)).getD 0 then some (x.2, x.1.length) else best) acc = some (t, n) →
        isPkgKind t = false := by
    intro l
    induction l with
    | nil => intro acc _ hacc t n h; exact hacc t n (by simpa using h)
    | cons x r ih =>
      intro acc hl hacc t n h
      simp only [List.foldl_cons] at h
      refine ih _ (fun p hp => hl p (by simp [hp])) ?_ t n h
      intro t' n' h'
      split at h'
      · simp at h'; rw [← h'.1]; exact hl x (by simp)
      · exact hacc t' n' h'
  refine key symbolTable none ?_ (by simp) t n (by simpa using h)
  intro p hp
  have := List.all_eq_true.mp symbolTable_not_pkg p hp
  simpa using this

/-- the text of a package-name / package-path token consists of name characters -/
theorem lexStep_pkg_all {s : Str} {k : Token} {n : Nat} (h : lexStep s = .tok (.ok k) n) (hk : isPkgKind k = true) :
    0 < n ∧ AllP nameChar s n ∧ (k = .PackagePath → '/' ∈ s.take n) := by
  have hk' : k = .PackageName ∨ k = .PackagePath := by
    simp [isPkgKind] at hk; exact hk
  cases s with
  | nil => simp [lexStep] at h
  | cons c r =>
    simp only [lexStep] at h
    by_cases h1 : isSkipChar c = true
    · rw [if_pos h1] at h; simp at h
    · rw [if_neg h1] at h
      by_cases h2 : (c == '/' && r.head? == some '/') = true
      · rw [if_pos h2] at h; simp at h
      · rw [if_neg h2] at h
        by_cases h3 : (c == '/' && r.head? == some '*') = true
        · rw [if_pos h3] at h
          split at h <;> simp at h
        · rw [if_neg h3] at h
          by_cases h4 : (c == '"') = true
          · rw [if_pos h4] at h
            split at h <;> simp at h
            rcases hk' with rfl | rfl <;> simp at h
          · rw [if_neg h4] at h
            try simp only [] at h
            by_cases h5 : packagePathTokLen (c :: r) > 0
            · rw [if_pos h5] at h; simp at h; rw [← h.2]; exact ⟨h5, packagePathTokLen_all _, fun _ => packagePathTokLen_slash h5⟩
            · rw [if_neg h5] at h
              by_cases h6 : packageNameTokLen (c :: r) > 0
              · rw [if_pos h6] at h; simp at h; rw [← h.2, ← h.1]; exact ⟨h6, packageNameTokLen_all _, fun hc => by cases hc⟩
              · rw [if_neg h6] at h
                by_cases h7 : idLen (c :: r) > 0
                · rw [if_pos h7] at h
                  split at h
                  · rename_i kw hkw
                    simp at h
                    have := lookupKeyword_not_pkg hkw
                    rw [h.1] at this; simp [this] at hk
                  · simp at h; rcases hk' with rfl | rfl <;> simp at h
                · rw [if_neg h7] at h
                  split at h
                  · rename_i t m hm
                    simp at h
                    have := matchSymbol_not_pkg hm
                    rw [h.1] at this; simp [this] at hk
                  · simp at h

/-- what the parser needs to know about package tokens -/
def PkgOk (t : LTok) : Prop :=
  ∀ k, t.res = .ok k → isPkgKind k = true →
    (∀ c ∈ t.text, nameChar c = true) ∧ (k = .PackagePath → '/' ∈ t.text)

theorem lexAll_pkg : ∀ (fuel pos : Nat) (s : Str) (prevPos : Nat) (prev : Str),
    ∀ t ∈ lexAll fuel pos s prevPos prev, PkgOk t := by
  intro fuel
  induction fuel with
  | zero => intro pos s pp pv t ht; simp [lexAll] at ht
  | succ fuel ih =>
    intro pos s pp pv t ht
    unfold lexAll at ht
    split at ht
    · simp at ht
    · exact ih _ _ _ _ t ht
    · rename_i res n hst
      simp only [List.mem_cons] at ht
      rcases ht with rfl | ht
      · intro k hk hp
        simp only [] at hk
        subst hk
        obtain ⟨hn, hall, hsl⟩ := lexStep_pkg_all hst hp
        have hn' : (if n = 0 then 1 else n) = n := by split <;> omega
        simp only [hn']
        exact ⟨hall, hsl⟩
      · exact ih _ _ _ _ t ht

theorem tokenize_pkg (src : Str) : ∀ t ∈ tokenize src, PkgOk t := lexAll_pkg _ _ _ _ _

theorem utf8Len_ascii {s : Str} (h : ∀ c ∈ s, nameChar c = true) : utf8Len s = s.length := by
  induction s with
  | nil => simp
  | cons c r ih =>
    have hc := nameChar_ascii (h c (by simp))
    have := ih (fun d hd => h d (by simp [hd]))
    simp [hc, this]; omega

end Wac.Lemmas.LexAscii
