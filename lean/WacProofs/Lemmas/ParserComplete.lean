import WacProofs.Lemmas.ParserSound
/-
  C12 proofs: completeness of the parser model w.r.t. the grammar specification — expressions.

  The grammar is a list-of-successes recogniser: `gExpr` returns *every* prefix derivation (all
  prefixes of a postfix chain, `id` as well as `id : expr`, …).  The parser is deterministic
  (LL(1) with one extra token of lookahead for `id :`), so completeness is stated per nonterminal
  with the follow condition under which the parser's choice is the only one that can be continued:
    * `expr`: the rest does not start with `.` or `[` (the parser would have continued the chain);
    * instantiation argument: the rest starts with `,` or `}` (`...` is a fill exactly then,
      `id` is an inferred argument and not the name of a named one);
    * primary expressions: none.
  Fuel: a derivation found with grammar fuel `gf` is found by the parser with any fuel `pf ≥ gf`
  (the two recursions descend in lockstep); the local loops (`parse_delimited`, the postfix loop)
  run with `remaining tokens + 1`, which suffices because every iteration consumes a token.
-/
namespace Wac.C12
open Wac Wac.Ast Wac.Lex Wac.Parse Wac.Spec.Grammar

/-! ### forward evaluation of the primitive parser steps -/

theorem parseToken_ok {st : PState} {k : Token} (h : nextTok st = some k) :
    parseToken st k = .ok (tokAt st, adv st) := parseToken_eq_ok.mpr ⟨h, rfl, rfl⟩

theorem parseIdent_ok {st : PState} (h : nextTok st = some .Ident) :
    parseIdent st = .ok (identAt (tokAt st), adv st) := parseIdent_eq_ok.mpr ⟨h, rfl, rfl⟩

theorem parseString_ok {st : PState} (h : nextTok st = some .String) :
    parseString st = .ok (stringAt (tokAt st), adv st) := parseString_eq_ok.mpr ⟨h, rfl, rfl⟩

@[simp] theorem Except.ok_bind {ε α β} (a : α) (f : α → Except ε β) :
    ((Except.ok a : Except ε α) >>= f) = f a := rfl

theorem head_ne_of_nextTok {st : PState} {k k' : Token} (hk' : isLit k' = true)
    (h : nextTok st = some k) (hne : k ≠ k') : (abs st).head? ≠ some (litTok k') := by
  intro hh
  have := (head_abs_lit hk' st).mp hh
  rw [h] at this; exact hne (Option.some.inj this)

/-! ### postfix chains -/

theorem parsePostfix_complete {ps : List PostfixExpr} {ts r : List STok} (hm : Many gPostfix ps ts r)
    (st : PState) (hts : ts = abs st)
    (hd : r.head? ≠ some (litTok .Dot)) (hb : r.head? ≠ some (litTok .OpenBracket))
    (n : Nat) (hn : st.toks.length < n) :
    ∃ post st', parsePostfix n st = .ok (post, st') ∧ post.map erasePostfix = ps ∧ abs st' = r := by
  induction hm generalizing st n with
  | nil =>
    subst hts
    obtain ⟨m, rfl⟩ : ∃ m, n = m + 1 := ⟨n - 1, by omega⟩
    have h1 : peekTok st ≠ some .Dot := fun h =>
      hd ((head_abs_lit rfl st).mpr ((nextTok_iff_peekTok rfl).mpr h))
    have h2 : peekTok st ≠ some .OpenBracket := fun h =>
      hb ((head_abs_lit rfl st).mpr ((nextTok_iff_peekTok rfl).mpr h))
    refine ⟨[], st, ?_, rfl, rfl⟩
    unfold parsePostfix
    split <;> simp_all
  | cons h1 _ ih =>
    subst hts
    obtain ⟨m, rfl⟩ : ∃ m, n = m + 1 := ⟨n - 1, by omega⟩
    rcases mem_gPostfix.mp h1 with ⟨k1, k2, rfl, rfl⟩ | ⟨k1, k2, k3, rfl, rfl⟩
    · have l1 := len_of_nextTok k1
      have l2 := len_of_nextTok k2
      obtain ⟨post, st', hrec, hpost, hst'⟩ := ih (adv (adv st)) rfl hd hb m (by omega)
      refine ⟨.Access ⟨⟨(tokAt st).span.offset, (identAt (tokAt (adv st))).span.offset -
        (tokAt st).span.offset + (identAt (tokAt (adv st))).span.len⟩, identAt (tokAt (adv st))⟩ :: post,
        st', ?_, ?_, hst'⟩
      · unfold parsePostfix
        simp [k1, parseAccessExpr, parseToken_ok k1, parseIdent_ok k2, hrec]
      · simp [hpost, erasePostfix, erase_identAt]
    · have l1 := len_of_nextTok k1
      have l2 := len_of_nextTok k2
      have l3 := len_of_nextTok k3
      obtain ⟨post, st', hrec, hpost, hst'⟩ := ih (adv (adv (adv st))) rfl hd hb m (by omega)
      refine ⟨.NamedAccess ⟨(tokAt st).span.cover (tokAt (adv (adv st))).span, stringAt (tokAt (adv st))⟩ :: post,
        st', ?_, ?_, hst'⟩
      · unfold parsePostfix
        simp [k1, parseNamedAccessExpr, parseToken_ok k1, parseString_ok k2, parseToken_ok k3, hrec]
      · simp [hpost, erasePostfix, erase_stringAt]

/-! ### expressions: completeness -/

/-- a derivation of `expr` whose rest does not start with `.` or `[` is what the parser returns -/
def CompleteE (gf : Nat) : Prop :=
  ∀ st x r, (x, r) ∈ gExpr gf (abs st) →
    r.head? ≠ some (litTok .Dot) → r.head? ≠ some (litTok .OpenBracket) →
    ∀ pf, gf ≤ pf → ∃ e st', parseExpr pf st = .ok (e, st') ∧ eraseExpr e = x ∧ abs st' = r

def CompleteP (gf : Nat) : Prop :=
  ∀ st x r, (x, r) ∈ gPrimary gf (abs st) →
    ∀ pf, gf ≤ pf → ∃ e st', parsePrimaryExpr pf st = .ok (e, st') ∧ erasePrimary e = x ∧ abs st' = r

/-- a derivation of an instantiation argument followed by `,` or `}` is what the parser returns -/
def CompleteA (gf : Nat) : Prop :=
  ∀ st x r, (x, r) ∈ gArg gf (abs st) →
    (r.head? = some comma ∨ r.head? = some (litTok .CloseBrace)) →
    ∀ pf, gf ≤ pf → ∃ e st', parseInstantiationArgument pf st = .ok (e, st') ∧ eraseArg e = x ∧
      abs st' = r ∧ peekIn st instantiationArgumentPeeks = true ∧ peekTok st ≠ some .CloseBrace

theorem gExpr_complete_step (g : Nat) (ihP : CompleteP g) : CompleteE (g + 1) := by
  intro st x r h hd hb pf hpf
  obtain ⟨pf, rfl⟩ : ∃ p, pf = p + 1 := ⟨pf - 1, by omega⟩
  simp only [gExpr, bind_apply, List.mem_flatMap, Prod.exists, mem_many, pure_apply,
    List.mem_singleton, Prod.mk.injEq] at h
  obtain ⟨p, r1, hp, post, r2, ⟨hm, _⟩, rfl, rfl⟩ := h
  obtain ⟨p0, st1, hp0, rfl, rfl⟩ := ihP _ _ _ hp pf (by omega)
  obtain ⟨post0, st2, hpost0, rfl, rfl⟩ := parsePostfix_complete hm st1 rfl hd hb (st1.toks.length + 1) (by omega)
  simp only [parseExpr, hp0, hpost0, Except.ok_bind, Except.ok.injEq, Prod.mk.injEq]
  exact ⟨_, _, ⟨rfl, rfl⟩, by simp [eraseExpr], rfl⟩

theorem head_of_mem_t {s : String} {r1 r : List STok} (h : ∃ u : Unit, (u, r) ∈ t s r1) :
    r1 = ⟨.lit, s.toList⟩ :: r := by
  obtain ⟨u, h⟩ := h
  exact (mem_t _ _ _ _).mp h

theorem gPrimary_complete_step (hV : SemverAgree) (g : Nat) (ihE : CompleteE g) (ihA : CompleteA g) :
    CompleteP (g + 1) := by
  intro st x r h pf hpf
  obtain ⟨pf, rfl⟩ : ∃ p, pf = p + 1 := ⟨pf - 1, by omega⟩
  simp [gPrimary, mem_gPackageName, mem_gId, and_assoc] at h
  rcases h with ⟨k1, k2, pkg', hpkg, k3, args, r1, hargs, hclose, rfl⟩ | ⟨k1, e', r1, he, hclose, rfl⟩ |
    ⟨k1, rfl, rfl⟩
  · -- new
    have hr1 := head_of_mem_t hclose
    have hagree := pkgNameAt_agree hV (tokAt (adv st))
    rw [hpkg] at hagree
    obtain ⟨pkg, hpkg0, rfl⟩ := Option.map_eq_some_iff.mp hagree
    have hstop : r1.head? = some (litTok .CloseBrace) := by rw [hr1]; rfl
    have hdel : ∃ ys st4, parseDelimited .CloseBrace true instantiationArgumentPeeks
        (parseInstantiationArgument pf) ((adv (adv (adv st))).toks.length + 1) (adv (adv (adv st))) =
          .ok (ys, st4) ∧ ys.map eraseArg = args ∧ abs st4 = r1 := by
      rcases (mem_list0 _ _ _ _ _).mp hargs with ⟨hsep, _⟩ | ⟨rfl, rfl⟩
      · exact parseDelimited_commas_complete .CloseBrace instantiationArgumentPeeks
          (parseInstantiationArgument pf) eraseArg (gArg g) rfl (by decide)
          (fun st a r1 ha hf => by
            obtain ⟨e, st1, h1, h2, h3, h4, h5⟩ := ihA st a r1 ha hf pf (by omega)
            exact ⟨e, st1, h1, h2, h3, ((expr_sound hV pf).2.2 _ _ _ h1).2.1, h4, h5⟩)
          hsep _ rfl hstop _ (.inr (by omega))
      · exact ⟨[], _, parseDelimited_nil _ _ _ _ _ _ ((head_abs_lit rfl _).mp hstop), rfl, rfl⟩
    obtain ⟨ys, st4, hdel, rfl, rfl⟩ := hdel
    obtain ⟨k5, habs5⟩ := abs_adv_of_cons (k := .CloseBrace) rfl hr1
    simp only [parsePrimaryExpr, peekTok_of_nextTok k1, parseToken_ok k1, parsePackageName_eq_ok.mpr ⟨k2, hpkg0, rfl⟩,
      parseToken_ok k3, hdel, parseToken_ok k5, Except.ok_bind, Except.ok.injEq, Prod.mk.injEq]
    exact ⟨_, _, ⟨rfl, rfl⟩, by simp [erasePrimary, eraseArgs_eq_map], habs5⟩
  · -- nested
    have hr1 := head_of_mem_t hclose
    obtain ⟨e, st2, he0, rfl, rfl⟩ := ihE _ _ _ he (by rw [hr1]; simp [litTok]; decide) (by rw [hr1]; simp [litTok]; decide) pf (by omega)
    obtain ⟨k3, habs3⟩ := abs_adv_of_cons (k := .CloseParen) rfl hr1
    simp only [parsePrimaryExpr, peekTok_of_nextTok k1, parseToken_ok k1, he0, parseToken_ok k3, Except.ok_bind,
      Except.ok.injEq, Prod.mk.injEq]
    exact ⟨_, _, ⟨rfl, rfl⟩, by simp [erasePrimary], habs3⟩
  · -- identifier
    simp only [parsePrimaryExpr, peekTok_of_nextTok k1, parseIdent_ok k1, Except.ok_bind, Except.ok.injEq, Prod.mk.injEq]
    exact ⟨_, _, ⟨rfl, rfl⟩, by simp [erasePrimary, erase_identAt], rfl⟩

theorem nextTok_of_head {st : PState} {k : Token} (hk : isLit k = true)
    (h : (abs st).head? = some (litTok k)) : nextTok st = some k := (head_abs_lit hk st).mp h

theorem gArg_complete_step (g : Nat) (ihE : CompleteE g) : CompleteA (g + 1) := by
  intro st x r h hfollow pf hpf
  obtain ⟨pf, rfl⟩ : ∃ p, pf = p + 1 := ⟨pf - 1, by omega⟩
  have hfollow' : ∀ st', r = abs st' → (nextTok st' = some .Comma ∨ nextTok st' = some .CloseBrace) := by
    intro st' hr
    subst hr
    rcases hfollow with h | h
    · left; rw [comma_eq] at h; exact nextTok_of_head rfl h
    · right; exact nextTok_of_head rfl h
  simp [gArg, mem_gId, mem_gString, and_assoc] at h
  rcases h with ⟨k1, rfl, rfl⟩ | ⟨k1, k2, rfl, rfl⟩ | ⟨k1, k2, e', he, rfl⟩ | ⟨k1, k2, e', he, rfl⟩ |
    ⟨k1, rfl, rfl⟩
  · -- inferred
    have hnc : peekTok (adv st) ≠ some .Colon := by
      rcases hfollow' _ rfl with h | h <;> simp [peekTok_of_nextTok h]
    refine ⟨.Inferred (identAt (tokAt st)), adv st, ?_, by simp [eraseArg, erase_identAt], rfl, ?_, ?_⟩
    · simp [parseInstantiationArgument, k1, hnc, parseIdent_ok k1]
    · simp [peekIn_iff, k1, instantiationArgumentPeeks]
    · simp [k1]
  · -- spread
    refine ⟨.Spread (identAt (tokAt (adv st))), adv (adv st), ?_, by simp [eraseArg, erase_identAt], rfl, ?_, ?_⟩
    · simp [parseInstantiationArgument, k1, parseToken_ok k1, k2, parseIdent_ok k2]
    · simp [peekIn_iff, k1, instantiationArgumentPeeks]
    · simp [k1]
  · -- named, identifier name
    have hf : r.head? ≠ some (litTok .Dot) ∧ r.head? ≠ some (litTok .OpenBracket) := by
      rcases hfollow with h | h <;> rw [h] <;> simp [litTok, comma] <;> decide
    obtain ⟨e, st3, he0, rfl, rfl⟩ := ihE _ _ _ he hf.1 hf.2 pf (by omega)
    refine ⟨.Named (.mk (.Ident (identAt (tokAt st))) e), st3, ?_,
      by simp [eraseArg, eraseArgName, erase_identAt], rfl, ?_, ?_⟩
    · simp [parseInstantiationArgument, k1, k2, parseInstantiationArgumentName, parseIdent_ok k1,
        parseToken_ok k2, he0]
    · simp [peekIn_iff, k1, instantiationArgumentPeeks]
    · simp [k1]
  · -- named, string name
    have hf : r.head? ≠ some (litTok .Dot) ∧ r.head? ≠ some (litTok .OpenBracket) := by
      rcases hfollow with h | h <;> rw [h] <;> simp [litTok, comma] <;> decide
    obtain ⟨e, st3, he0, rfl, rfl⟩ := ihE _ _ _ he hf.1 hf.2 pf (by omega)
    refine ⟨.Named (.mk (.String (stringAt (tokAt st))) e), st3, ?_,
      by simp [eraseArg, eraseArgName, erase_stringAt], rfl, ?_, ?_⟩
    · simp [parseInstantiationArgument, k1, k2, parseInstantiationArgumentName, parseString_ok k1,
        parseToken_ok k2, he0]
    · simp [peekIn_iff, k1, instantiationArgumentPeeks]
    · simp [k1]
  · -- fill
    refine ⟨.Fill (tokAt st).span, adv st, ?_, by simp [eraseArg], rfl, ?_, ?_⟩
    · rcases hfollow' _ rfl with h | h <;> simp [parseInstantiationArgument, k1, parseToken_ok k1, h]
    · simp [peekIn_iff, k1, instantiationArgumentPeeks]
    · simp [k1]

/-- completeness of the three mutually recursive expression recognisers, for every grammar fuel -/
theorem expr_complete (hV : SemverAgree) (gf : Nat) : CompleteE gf ∧ CompleteP gf ∧ CompleteA gf := by
  induction gf with
  | zero =>
    refine ⟨?_, ?_, ?_⟩
    · intro st x r h; simp [gExpr] at h
    · intro st x r h; simp [gPrimary] at h
    · intro st x r h; simp [gArg] at h
  | succ g ih =>
    obtain ⟨ihE, ihP, ihA⟩ := ih
    exact ⟨gExpr_complete_step g ihP, gPrimary_complete_step hV g ihE ihA, gArg_complete_step g ihE⟩

/-! ### the shape of a completeness statement (used for the rest of the language) -/

/-- the rest `r` starts with a terminal (keyword or punctuation) whose kind is not in `bad` -/
def FollowLit (bad : List Token) (r : List STok) : Prop :=
  ∃ k, isLit k = true ∧ k ∉ bad ∧ r.head? = some (litTok k)

theorem FollowLit.peek {bad : List Token} {st : PState} (h : FollowLit bad (abs st)) :
    ∃ k, nextTok st = some k ∧ k ∉ bad := by
  obtain ⟨k, hk, hb, hh⟩ := h
  exact ⟨k, nextTok_of_head hk hh, hb⟩

theorem FollowLit.peekErr {bad : List Token} {st : PState} (h : FollowLit bad (abs st)) :
    peekErr st = false := by
  obtain ⟨k, hk, _⟩ := h.peek
  exact peekErr_of_nextTok hk

theorem FollowLit.mono {bad bad' : List Token} {r : List STok} (h : FollowLit bad r)
    (hsub : ∀ k, k ∈ bad' → k ∈ bad) : FollowLit bad' r := by
  obtain ⟨k, hk, hb, hh⟩ := h
  exact ⟨k, hk, fun hm => hb (hsub k hm), hh⟩

/-- every derivation `(x, r)` of `g gf` from `abs st` whose rest satisfies `follow` is what the
parser returns (with any parser fuel `pf ≥ gf + 2`), and the parser consumed at least one item -/
def Complete {α β : Type} (er : α → β) (parse : Nat → PState → PR α) (g : Nat → SP β)
    (follow : List STok → Prop) (gf : Nat) : Prop :=
  ∀ st x r, (x, r) ∈ g gf (abs st) → follow r → ∀ pf, gf + 2 ≤ pf →
    ∃ x0 st', parse pf st = .ok (x0, st') ∧ er x0 = x ∧ abs st' = r ∧
      st'.toks.length < st.toks.length

end Wac.C12
