import WacProofs.Lemmas.GraphInvDefine
/-
  `define_type` preserves `Inv` (assembly).
-/
namespace Wac.Graph
open Wac Wac.HashSites

/-- the new definition node entered into the `defined` and `exports` maps, no edges yet -/
theorem inv_defineNode {ctx : Ctx} {g g1 g' : Graph} {idx : Nat} {ty : Ty} {name : Str}
    (h : Inv ctx g) (hty : alGet g.defined ty = none) (hname : alGet g.exports name = none)
    (a : Added g g1 idx ⟨.definition ty, none, ctx.tyKind ty, none, some name⟩)
    (hn : g'.nodes = g1.nodes) (hfn : g'.freeNodes = g1.freeNodes) (he : g'.edges = g1.edges)
    (him : g'.imports = g1.imports) (hde : g'.defined = alInsert g1.defined ty idx)
    (hex : g'.exports = alInsert g1.exports name idx)
    (hp : g'.pkgs = g1.pkgs) (hm : g'.pkgMap = g1.pkgMap) (hfp : g'.freePkgs = g1.freePkgs) : Inv ctx g' := by
  have pk := pkgPart_congr (g' := g') h (hp.trans a.pkgs) (hm.trans a.pkgMap) (hfp.trans a.freePkgs)
  have hnode : ∀ m, g'.node? m = if m = idx then some ⟨.definition ty, none, ctx.tyKind ty, none, some name⟩
      else g.node? m := by
    intro m; rw [node?_congr hn]; exact a.node m
  have hty1 : alGet g1.defined ty = none := by rw [a.defined]; exact hty
  have hname1 : alGet g1.exports name = none := by rw [a.exports]; exact hname
  have hold : ∀ m x, g.node? m = some x → g'.node? m = some x := by
    intro m x hx; rw [node?_congr hn]; exact (a.old hx).1
  apply Inv.build
  · intro e hem
    rw [he, a.edges] at hem
    exact a.edgeOk hn hp (h.edges e hem)
  · rw [he, a.edges]; exact h.argUnique
  · intro m x hx
    rw [hnode] at hx
    by_cases hmi : m = idx
    · subst hmi
      simp only [↓reduceIte, Option.some.injEq] at hx
      subst hx
      refine ⟨by simp, ?_, ?_⟩
      · simp only
        rw [hde, alGet_alInsert]; simp
      · intro nm hnm
        simp only [Option.mem_def, Option.some.injEq] at hnm
        subst hnm
        rw [hex, alGet_alInsert]; simp
    · simp only [hmi, ↓reduceIte] at hx
      refine (h.node hx).mono (NodeSim.refl _) rfl (hp.trans a.pkgs) ?_ ?_ ?_ ?_ ?_
      · intro e hem; rw [he, a.edges]; exact hem
      · intro _; unfold Graph.inEdges; rw [he, a.edges]
      · intro q hq; rw [him, a.imports]; exact hq
      · intro q hq; rw [hde]; exact alGet_insert_other hty1 (by rw [a.defined]; exact hq)
      · intro q hq; rw [hex]; exact alGet_insert_other hname1 (by rw [a.exports]; exact hq)
  · rw [hex]; exact alInsert_keys_nodup hname1 (by rw [a.exports]; exact h.exportsKeys)
  · intro e hem
    rw [hex] at hem
    rcases (alInsert_mem hname1 e).mp hem with hem | rfl
    · rw [a.exports] at hem
      obtain ⟨x, hx, hxe⟩ := h.exportsLive' e hem
      exact ⟨x, hold _ _ hx, hxe⟩
    · exact ⟨⟨.definition ty, none, ctx.tyKind ty, none, some name⟩, by rw [hnode]; simp, rfl⟩
  · rw [him, a.imports]; exact h.importsKeys
  · intro e hem
    rw [him, a.imports] at hem
    obtain ⟨x, hx, hxe⟩ := h.importsLive' e hem
    exact ⟨x, hold _ _ hx, hxe⟩
  · rw [hde]; exact alInsert_keys_nodup hty1 (by rw [a.defined]; exact h.definedKeys)
  · intro e hem
    rw [hde] at hem
    rcases (alInsert_mem hty1 e).mp hem with hem | rfl
    · rw [a.defined] at hem
      obtain ⟨x, hx, hxe⟩ := h.definedLive' e hem
      exact ⟨x, hold _ _ hx, hxe⟩
    · exact ⟨⟨.definition ty, none, ctx.tyKind ty, none, some name⟩, by rw [hnode]; simp, rfl⟩
  · exact pk.1
  · exact pk.2.1
  · exact pk.2.2.1
  · exact pk.2.2.2.1
  · exact pk.2.2.2.2
  · have f := a.free
    refine ⟨by rw [hfn]; exact f.nodup, ?_, ?_⟩
    · intro j hj
      rw [hfn] at hj
      rw [hn, node?_congr hn]; exact f.vacant j hj
    · intro j hj hv
      rw [hn] at hj
      rw [node?_congr hn] at hv
      rw [hfn]; exact f.all j hj hv

theorem inv_defineType {ctx : Ctx} {g g' : Graph} {name : Str} {ty : Ty} {out : Outcome}
    (h : Inv ctx g) (hw : TyWF ctx) (hs : defineType ctx g name ty = (g', out)) : Inv ctx g' := by
  unfold defineType defineTypeWith at hs
  split at hs
  · simp only [Prod.mk.injEq] at hs; rw [← hs.1]; exact h
  · rename_i hty0
    split at hs
    · simp only [Prod.mk.injEq] at hs; rw [← hs.1]; exact h
    · split at hs
      · simp only [Prod.mk.injEq] at hs; rw [← hs.1]; exact h
      · rename_i hname0
        split at hs
        · simp only [Prod.mk.injEq] at hs; rw [← hs.1]; exact h
        · have hty : alGet g.defined ty = none := by
            cases hq : alGet g.defined ty with
            | none => rfl
            | some v => simp [hq] at hty0
          have hname : alGet g.exports name = none := by
            cases hq : alGet g.exports name with
            | none => rfl
            | some v => simp [hq] at hname0
          simp only [Prod.mk.injEq, id_eq] at hs
          rw [← hs.1]
          have a := added_of_addNode h ⟨.definition ty, none, ctx.tyKind ty, none, some name⟩
          generalize (g.addNode ⟨.definition ty, none, ctx.tyKind ty, none, some name⟩).1 = g1 at a ⊢
          generalize (g.addNode ⟨.definition ty, none, ctx.tyKind ty, none, some name⟩).2 = idx at a ⊢
          rw [defineDepsOut_eq, defineDepsIn_eq]
          -- the maps of the loops' result are those of `g1`
          obtain ⟨f1, f2⟩ := depsIn_frame ty idx (ctx.tyVisits ty) g1
          obtain ⟨f3, f4⟩ := depsOut_frame ctx ty idx g.defined ((ctx.tyVisits ty).foldl (depInStep ty idx) g1)
          rw [f3.trans f1, f4.trans f2]
          -- move the map update inside the loops
          show Inv ctx (withMaps _ (alInsert g1.defined ty idx) (alInsert g1.exports name idx))
          rw [← defineDepsOut_maps, ← defineDepsIn_maps]
          · have hA : Inv ctx (withMaps g1 (alInsert g1.defined ty idx) (alInsert g1.exports name idx)) :=
              inv_defineNode h hty hname a rfl rfl rfl rfl rfl rfl rfl rfl rfl
            have hidx : IsDefNode (withMaps g1 (alInsert g1.defined ty idx) (alInsert g1.exports name idx)) idx ty :=
              ⟨⟨.definition ty, none, ctx.tyKind ty, none, some name⟩, a.new, rfl⟩
            obtain ⟨k1, k2, _, k4⟩ := inv_depsIn (ctx := ctx) ty idx (ctx.tyVisits ty) _ (hw ty) hA hidx
            refine inv_depsOut ty idx g.defined _ k1 k2 ?_
            intro e hem
            obtain ⟨x, hx, hxk⟩ := h.definedLive' e hem
            refine ⟨isDefNode_congr k4 ⟨x, (a.old hx).1, hxk⟩, fun hv => Nat.lt_of_le_of_ne (hw e.1 ty hv) ?_⟩
            intro heq
            have := alGet_of_mem _ h.definedKeys e hem
            rw [← heq, hty] at this
            cases this
          · intro k hk
            rw [alGet_alInsert]
            simp [Ne.symm hk]

end Wac.Graph
