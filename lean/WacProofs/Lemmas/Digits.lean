import WacModel.Semver
/-
  Canonical decimal digit strings: two non-empty digit strings without a leading zero (or equal
  to "0") that denote the same number are equal.  This is what makes comparing the *sliced key
  strings* in `alternate_lookup_key` the same as comparing version numbers.
-/
namespace Wac

theorem char_le_iff (a c : Char) : a ≤ c ↔ a.toNat ≤ c.toNat := by
  rw [Char.le_def]
  show a.val ≤ c.val ↔ _
  rw [UInt32.le_iff_toNat_le]
  rfl

theorem isDigit_iff (c : Char) : isDigit c = true ↔ 48 ≤ c.toNat ∧ c.toNat ≤ 57 := by
  simp only [isDigit, Bool.and_eq_true, decide_eq_true_eq, char_le_iff]
  constructor <;> intro ⟨a, b⟩ <;> exact ⟨a, b⟩

theorem digitVal_lt {c : Char} (h : isDigit c = true) : digitVal c < 10 := by
  rw [isDigit_iff] at h; simp only [digitVal]; show c.toNat - 48 < 10; omega

theorem digitVal_inj {c d : Char} (hc : isDigit c = true) (hd : isDigit d = true)
    (h : digitVal c = digitVal d) : c = d := by
  rw [isDigit_iff] at hc hd
  simp only [digitVal] at h
  have h' : c.toNat - 48 = d.toNat - 48 := h
  apply Char.toNat_inj.mp; omega

theorem digitVal_zero {c : Char} (hc : isDigit c = true) : digitVal c = 0 ↔ c = '0' := by
  constructor
  · intro h
    exact digitVal_inj hc (by decide) (by rw [h]; rfl)
  · intro h; subst h; rfl

theorem foldl_digits (ds : Str) (acc : Nat) :
    ds.foldl (fun v d => 10 * v + digitVal d) acc = acc * 10 ^ ds.length + digitsVal ds := by
  induction ds generalizing acc with
  | nil => simp [digitsVal]
  | cons d ds ih =>
    simp only [List.foldl_cons, digitsVal, List.length_cons]
    rw [ih, ih (10 * 0 + digitVal d)]
    simp only [Nat.pow_succ, Nat.mul_zero, Nat.zero_add, Nat.add_mul]
    have : 10 * acc * 10 ^ ds.length = acc * (10 ^ ds.length * 10) := by
      rw [Nat.mul_comm 10 acc, Nat.mul_assoc, Nat.mul_comm 10 (10 ^ ds.length)]
    omega

theorem digitsVal_cons (d : Char) (ds : Str) :
    digitsVal (d :: ds) = digitVal d * 10 ^ ds.length + digitsVal ds := by
  simp only [digitsVal, List.foldl_cons]
  rw [foldl_digits]; simp [digitsVal]

def AllDigits (ds : Str) : Prop := ∀ c ∈ ds, isDigit c = true

theorem digitsVal_lt (ds : Str) (h : AllDigits ds) : digitsVal ds < 10 ^ ds.length := by
  induction ds with
  | nil => simp [digitsVal]
  | cons d ds ih =>
    rw [digitsVal_cons]
    have hd := digitVal_lt (h d (by simp))
    have := ih (fun c hc => h c (by simp [hc]))
    simp only [List.length_cons, Nat.pow_succ]
    have h10 : 10 ^ ds.length * 10 = 9 * 10 ^ ds.length + 10 ^ ds.length := by omega
    have : digitVal d * 10 ^ ds.length ≤ 9 * 10 ^ ds.length := Nat.mul_le_mul_right _ (by omega)
    omega

/-- canonical: no leading zero unless the string is exactly "0" -/
def Canon (ds : Str) : Prop := ds.length > 1 → ds.head? ≠ some '0'

theorem digitsVal_ge (d : Char) (ds : Str) (hd : isDigit d = true) (hnz : d ≠ '0') :
    10 ^ ds.length ≤ digitsVal (d :: ds) := by
  rw [digitsVal_cons]
  have : digitVal d ≠ 0 := fun h => hnz ((digitVal_zero hd).mp h)
  have : 1 * 10 ^ ds.length ≤ digitVal d * 10 ^ ds.length := Nat.mul_le_mul_right _ (by omega)
  omega

theorem eq_of_len_eq (a b : Str) (ha : AllDigits a) (hb : AllDigits b) (hl : a.length = b.length)
    (hv : digitsVal a = digitsVal b) : a = b := by
  induction a generalizing b with
  | nil => cases b <;> simp_all
  | cons x a ih =>
    cases b with
    | nil => simp at hl
    | cons y b =>
      simp only [List.length_cons, Nat.add_right_cancel_iff] at hl
      rw [digitsVal_cons, digitsVal_cons, hl] at hv
      have hxa := digitsVal_lt a (fun c hc => ha c (by simp [hc]))
      have hyb := digitsVal_lt b (fun c hc => hb c (by simp [hc]))
      rw [hl] at hxa
      have hpos : 0 < 10 ^ b.length := Nat.pow_pos (by omega)
      have h1 : (digitVal x * 10 ^ b.length + digitsVal a) / 10 ^ b.length = digitVal x := by
        rw [Nat.mul_comm, Nat.mul_add_div hpos, Nat.div_eq_of_lt hxa]; simp
      have h2 : (digitVal y * 10 ^ b.length + digitsVal b) / 10 ^ b.length = digitVal y := by
        rw [Nat.mul_comm, Nat.mul_add_div hpos, Nat.div_eq_of_lt hyb]; simp
      have hxy : digitVal x = digitVal y := by rw [← h1, ← h2, hv]
      have hx : x = y := digitVal_inj (ha x (by simp)) (hb y (by simp)) hxy
      subst hx
      have : digitsVal a = digitsVal b := by omega
      rw [ih b (fun c hc => ha c (by simp [hc])) (fun c hc => hb c (by simp [hc])) hl this]

theorem canon_len_le (a b : Str) (ha : AllDigits a) (hb : AllDigits b) (hane : a ≠ [])
    (hcb : Canon b) (hv : digitsVal a = digitsVal b) : b.length ≤ a.length := by
  cases b with
  | nil => simp
  | cons y b =>
    cases b with
    | nil =>
      cases a with
      | nil => exact absurd rfl hane
      | cons _ _ => simp
    | cons z b =>
      have hy : y ≠ '0' := by
        have := hcb (by simp)
        simpa using this
      have hge := digitsVal_ge y (z :: b) (hb y (by simp)) hy
      have hlt := digitsVal_lt a ha
      rw [hv] at hlt
      have : 10 ^ (z :: b).length < 10 ^ a.length := Nat.lt_of_le_of_lt hge hlt
      have := (Nat.pow_lt_pow_iff_right (by omega : 1 < 10)).mp this
      simp only [List.length_cons] at *
      omega

/-- canonical digit strings are determined by their value -/
theorem canon_inj (a b : Str) (ha : AllDigits a) (hb : AllDigits b) (hane : a ≠ []) (hbne : b ≠ [])
    (hca : Canon a) (hcb : Canon b) (hv : digitsVal a = digitsVal b) : a = b := by
  have h1 := canon_len_le a b ha hb hane hcb hv
  have h2 := canon_len_le b a hb ha hbne hca hv.symm
  exact eq_of_len_eq a b ha hb (by omega) hv

end Wac
