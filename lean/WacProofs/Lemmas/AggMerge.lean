import WacProofs.Lemmas.AggForest
/-
  C09 general theorems, part 6: `merge_interface` on flat interfaces (exports are functions and
  values, no `uses`).  The merged target interface unfolds to `appendMissing F G` (target forest,
  then the source-only exports), shared names carry equal trees (`Consistent`), nothing else of
  the aggregator changes (`MStep`) and the invariants are kept.
-/
namespace Wac.AggP
open Wac Wac.Spec

/-- invariant of the aggregator state on the fragment -/
structure AInv (W : Colls) (s : AggState) : Prop where
  rinv : RInv W s
  cinv : CInv W s.agg.types s.chk.cache
  nores : s.agg.types.resources = []

/-- interface `ti` (of `T`) is flat and unfolds to the forest `F` -/
structure FlatItf (T : Types) (ti : Interface) (F : Forest) : Prop where
  leaf : ∀ x, x ∈ ti.exports → LeafK x.2
  unf : ∃ n, unfoldItems (T.unfoldKind n) ti.exports = some F

/-- what `merge_interface` into interface `e` may change -/
structure MStep (u e : Nat) (s s' : AggState) : Prop where
  ext : Ext s.agg.types s'.agg.types
  len : s'.agg.types.interfaces.length = s.agg.types.interfaces.length
  others : ∀ i, i ≠ e → s'.agg.types.interfaces[i]? = s.agg.types.interfaces[i]?
  worlds : s'.agg.types.worlds = s.agg.types.worlds
  modules : s'.agg.types.modules = s.agg.types.modules
  cfg : s'.cfg = s.cfg
  imports : s'.agg.imports = s.agg.imports
  imap : s'.agg.interfaces = s.agg.interfaces
  redirects : s'.agg.redirects = s.agg.redirects
  keys : ∀ g, g.ty.hasId = true → (alGet s'.agg.remapped g).isSome = true →
    (alGet s.agg.remapped g).isSome = true ∨ g.uid = u

theorem MStep.refl (u e : Nat) (s : AggState) : MStep u e s s :=
  ⟨Ext.refl _, rfl, fun _ _ => rfl, rfl, rfl, rfl, rfl, rfl, rfl, fun _ _ h => .inl h⟩

theorem MStep.trans {u e : Nat} {s s' s'' : AggState} (h1 : MStep u e s s') (h2 : MStep u e s' s'') : MStep u e s s'' :=
  ⟨h1.ext.trans h2.ext, h2.len.trans h1.len, fun i hi => (h2.others i hi).trans (h1.others i hi),
    h2.worlds.trans h1.worlds, h2.modules.trans h1.modules, h2.cfg.trans h1.cfg, h2.imports.trans h1.imports,
    h2.imap.trans h1.imap, h2.redirects.trans h1.redirects, fun g hid h => by
      rcases h2.keys g hid h with h | h
      · exact h1.keys g hid h
      · exact .inr h⟩

theorem Step.toMStep {u : Nat} (e : Nat) {s s' : AggState} (h : Step u s s') : MStep u e s s' :=
  ⟨h.ext, by rw [h.ifaces], fun i _ => by rw [h.ifaces], h.worlds, h.modules, h.cfg, h.imports, h.imap, h.redirects,
    fun g _ hg => h.keys g hg⟩

/-- the target of a flat merge: the state is fine, interface `e` is flat and unfolds to `F` -/
structure TState (W : Colls) (e : Nat) (s : AggState) (F : Forest) : Prop where
  ainv : AInv W s
  itf : ∃ ti, s.agg.types.interfaces[e]? = some ti ∧ FlatItf s.agg.types ti F
  nd : F.namesDistinct = true

/-- the loop over the source exports, given what one iteration does -/
theorem flat_loop {W : Colls} {types : Types} {e u : Nat} {f : Str × ItemKind → AggM Unit}
    (hstep : ∀ (n : Str) (sk : ItemKind) (s s' : AggState) (F : Forest) (ts : Tree),
      TState W e s F → LeafK sk → types.unfoldKind types.fuel sk = some ts → ts.namesDistinct = true →
      f (n, sk) s = .ok ((), s') →
      MStep u e s s' ∧ ((F.hasName n = true ∧ TState W e s' F ∧ ∀ tf, F.get n = some tf → tf = ts) ∨
        (F.hasName n = false ∧ TState W e s' (snoc F n ts)))) :
    ∀ (Q : List (Str × ItemKind)) (G : Forest) (s s' : AggState) (F : Forest), TState W e s F →
      (∀ x, x ∈ Q → LeafK x.2) → unfoldItems (types.unfoldKind types.fuel) Q = some G → G.namesDistinct = true →
      forMList f Q s = .ok ((), s') →
      MStep u e s s' ∧ TState W e s' (appendMissing F G) ∧ Consistent F G
  | [], G, s, s', F, hT, _, hG, _, h => by
    simp only [forMList, run_pure, Except.ok.injEq, Prod.mk.injEq, true_and] at h
    subst h
    simp only [unfoldItems, Option.some.injEq] at hG
    subst hG
    rw [appendMissing_nil]
    exact ⟨MStep.refl _ _ _, hT, fun k tf tg _ hg => by simp [Forest.get] at hg⟩
  | (n, sk) :: Q, G, s, s', F, hT, hl, hG, hnd, h => by
    simp only [forMList, bind_ok] at h
    obtain ⟨_, s1, h1, h2⟩ := h
    obtain ⟨ts, G', hts, hG', rfl⟩ := unfoldItems_cons n sk Q G hG
    simp only [Forest.namesDistinct, Bool.and_eq_true, Bool.not_eq_true'] at hnd
    obtain ⟨⟨hn', htsnd⟩, hG'nd⟩ := hnd
    obtain ⟨hm1, hcase⟩ := hstep n sk s s1 F ts hT (hl (n, sk) List.mem_cons_self) hts htsnd h1
    have hlQ : ∀ x, x ∈ Q → LeafK x.2 := fun x hx => hl x (List.mem_cons_of_mem _ hx)
    rcases hcase with ⟨hhas, hT1, heq⟩ | ⟨hhas, hT1⟩
    · obtain ⟨hm2, hT2, hc2⟩ := flat_loop hstep Q G' s1 s' F hT1 hlQ hG' hG'nd h2
      refine ⟨hm1.trans hm2, by rw [appendMissing_cons_present F G' n ts hhas]; exact hT2, ?_⟩
      intro k tf tg hf hg
      by_cases hk : n = k
      · subst hk
        simp [Forest.get] at hg; subst hg
        exact heq tf hf
      · exact hc2 k tf tg hf (by simpa [Forest.get, hk] using hg)
    · obtain ⟨hm2, hT2, hc2⟩ := flat_loop hstep Q G' s1 s' (snoc F n ts) hT1 hlQ hG' hG'nd h2
      refine ⟨hm1.trans hm2, by rw [appendMissing_cons_absent F G' n ts hhas hn']; exact hT2, ?_⟩
      intro k tf tg hf hg
      by_cases hk : n = k
      · subst hk
        rw [(Forest.hasName_false_iff F n).1 hhas] at hf; cases hf
      · refine hc2 k tf tg ?_ (by simpa [Forest.get, hk] using hg)
        rw [get_snoc, hf]; rfl

/-! ### helpers -/

theorem listSet_length {α : Type} : ∀ (l : List α) (i : Nat) (x : α), (listSet l i x).length = l.length
  | [], _, _ => rfl
  | _ :: _, 0, _ => rfl
  | a :: r, i + 1, x => by simp [listSet, listSet_length r i x]

theorem listSet_get_self {α : Type} : ∀ (l : List α) (i : Nat) (x : α), i < l.length → (listSet l i x)[i]? = some x
  | [], _, _, h => by simp at h
  | _ :: _, 0, _, _ => rfl
  | a :: r, i + 1, x, h => by
    simp only [listSet, List.getElem?_cons_succ]
    exact listSet_get_self r i x (by simpa using h)

theorem listSet_get_ne {α : Type} : ∀ (l : List α) (i j : Nat) (x : α), j ≠ i → (listSet l i x)[j]? = l[j]?
  | [], _, _, _, _ => rfl
  | _ :: _, 0, j, _, h => by
    cases j with
    | zero => exact absurd rfl h
    | succ j => rfl
  | a :: r, i + 1, j, x, h => by
    cases j with
    | zero => rfl
    | succ j =>
      simp only [listSet, List.getElem?_cons_succ]
      exact listSet_get_ne r i j x (by omega)

theorem getElem?_lt {α : Type} {l : List α} {i : Nat} {x : α} (h : l[i]? = some x) : i < l.length := by
  rcases Nat.lt_or_ge i l.length with h' | h'
  · exact h'
  · rw [List.getElem?_eq_none h'] at h; cases h

theorem Closed.same_defined {T T' : Types} (hc : Closed T) (he : Ext T T') (hd : T'.defined = T.defined) : Closed T' := by
  intro d hd'
  rw [hd] at hd'
  obtain ⟨t, ht⟩ := hc d hd'
  exact ⟨t, he.unfoldVT _ _ _ ht⟩

theorem hasName_of_nd_snoc : ∀ (F : Forest) (n : Str) (t : Tree), F.namesDistinct = true → t.namesDistinct = true →
    F.hasName n = false → (snoc F n t).namesDistinct = true
  | .nil, n, t, _, ht, _ => by simp [snoc, Forest.namesDistinct, Forest.hasName, ht]
  | .cons m u r, n, t, hF, ht, hn => by
    simp only [Forest.namesDistinct, Bool.and_eq_true, Bool.not_eq_true'] at hF
    simp only [Forest.hasName, Bool.or_eq_false_iff] at hn
    simp only [snoc, Forest.namesDistinct, Bool.and_eq_true, Bool.not_eq_true', hasName_snoc, Bool.or_eq_false_iff]
    refine ⟨⟨⟨hF.1.1, ?_⟩, hF.1.2⟩, hasName_of_nd_snoc r n t hF.2 ht hn.2⟩
    rw [Bool.eq_false_iff]
    intro hc
    have : n = m := by simpa using hc
    subst this
    simp at hn

/-- the state after `modifyTypes (setInterface e (exports := E'))` -/
def setExports (s : AggState) (e : Nat) (E' : List (Str × ItemKind)) : AggState :=
  { s with agg := { s.agg with types := s.agg.types.setInterface e fun i => { i with exports := E' } } }

theorem setExports_types_eq (s : AggState) (e : Nat) (E' : List (Str × ItemKind)) (ti : Interface)
    (hti : s.agg.types.interfaces[e]? = some ti) :
    (setExports s e E').agg.types =
      { s.agg.types with interfaces := listSet s.agg.types.interfaces e { ti with exports := E' } } := by
  simp [setExports, Types.setInterface, hti]

theorem setExports_ext (s : AggState) (e : Nat) (E' : List (Str × ItemKind)) :
    Ext s.agg.types (setExports s e E').agg.types := by
  simp only [setExports, Types.setInterface]
  split
  · exact Ext.refl _
  · exact ext_of_eq rfl rfl rfl rfl

theorem setExports_mstep (u : Nat) (s : AggState) (e : Nat) (E' : List (Str × ItemKind)) :
    MStep u e s (setExports s e E') := by
  refine ⟨setExports_ext s e E', ?_, ?_, ?_, ?_, rfl, rfl, rfl, rfl, fun _ _ h => .inl h⟩
  all_goals simp only [setExports, Types.setInterface]
  · split <;> simp [listSet_length]
  · intro i hi
    split
    · rfl
    · exact listSet_get_ne _ _ _ _ hi
  · split <;> rfl
  · split <;> rfl

theorem unfoldItems_fuel_mono {T : Types} {n m : Nat} (h : n ≤ m) {E : List (Str × ItemKind)} {F : Forest}
    (hE : unfoldItems (T.unfoldKind n) E = some F) : unfoldItems (T.unfoldKind m) E = some F :=
  unfoldItems_mono (unfoldKind_mono T h) E F hE

/-- the invariants survive a change of the aggregator's collection that keeps the value-level arenas -/
theorem AInv.of_same {W : Colls} {s s' : AggState} (h : AInv W s) (he : Ext s.agg.types s'.agg.types)
    (hd : s'.agg.types.defined = s.agg.types.defined) (hr : s'.agg.remapped = s.agg.remapped)
    (hc : s'.chk = s.chk) : AInv W s' :=
  ⟨⟨by rw [hr]; exact h.rinv.sound.ext he, h.rinv.closed.same_defined he hd, by rw [hr]; exact h.rinv.shape⟩, by rw [hc]; exact h.cinv.ext he,
    he.resources.trans h.nores⟩

theorem setInterface_congr {T : Types} {e : Nat} {ti : Interface} (hti : T.interfaces[e]? = some ti)
    (f g : Interface → Interface) (h : f ti = g ti) : T.setInterface e f = T.setInterface e g := by
  simp [Types.setInterface, hti, h]

/-- the state after the model's `modifyTypes (setInterface e (exports := amInsert exports n k))` -/
def insExport (s : AggState) (e : Nat) (n : Str) (k : ItemKind) : AggState :=
  { s with agg := { s.agg with types := s.agg.types.setInterface e fun i => { i with exports := amInsert i.exports n k } } }

theorem insExport_eq (s : AggState) (e : Nat) (n : Str) (k : ItemKind) (ti : Interface)
    (hti : s.agg.types.interfaces[e]? = some ti) : insExport s e n k = setExports s e (amInsert ti.exports n k) := by
  simp only [insExport, setExports]
  rw [setInterface_congr hti _ (fun i => { i with exports := amInsert ti.exports n k }) rfl]

/-- the loop body of `merge_interface` (the same term as in the model: `mergeInterface_succ`) -/
def mergeExportBody (fuel existing : Nat) (types : Types) : Str × ItemKind → AggM Unit :=
  fun (e : Str × ItemKind) => do
      let (name, sourceKind) := e
      let ag ← getAgg
      let target ← match ag.types.interfaces[existing]? with
        | none => apanic "interface index"
        | some i => pure (amGet i.exports name)
      let cfg := (← get).cfg
      let skip ← match target with
        | some targetKind => do
          let nested : Option (Nat × Nat × (Nat → ItemKind)) := match targetKind, sourceKind with
            | .instance t, .instance s => if cfg.nestedMerge then some (t, s, ItemKind.instance) else none
            | .type (.interface t), .type (.interface s) =>
              if cfg.typeMerge then some (t, s, fun i => ItemKind.type (.interface i)) else none
            | _, _ => none
          match nested with
          | some (t, s, wrap) =>
            let copy ← match ag.types.interfaces[t]? with
              | none => apanic "interface index"
              | some i => pure i
            let merged := ag.types.interfaces.length
            modifyTypes fun ty => { ty with interfaces := ty.interfaces ++ [copy] }
            withCtx s!"mismatched type for export `{strS name}`" (mergeInterface fuel merged types s)
            modifyTypes fun ty => ty.setInterface existing fun i => { i with exports := amInsert i.exports name (wrap merged) }
            pure true
          | none =>
          match ← chkSubtype types sourceKind ag.types targetKind with
          | .ok =>
            modifyAgg fun ag => { ag with remapped := alInsert ag.remapped (GTy.mk' types sourceKind.ty) targetKind.ty }
            pure true
          | _ =>
            let ag ← getAgg
            withCtx s!"mismatched type for export `{strS name}`" (chkSubtypeQ ag.types targetKind types sourceKind)
            pure false
        | none => pure false
      if !skip then
        let remapped ← remapKind fuel types sourceKind
        modifyTypes fun t => t.setInterface existing fun i => { i with exports := amInsert i.exports name remapped }

theorem mergeInterface_succ (fuel existing : Nat) (types : Types) (id : Nat) :
    mergeInterface (fuel + 1) existing types id = (do
      let src ← match types.interfaces[id]? with
        | none => apanic "interface index"
        | some i => pure i
      mergeUsedTypes (remapInterface fuel) types src.uses
        (fun t => (t.interfaces[existing]?).map (·.uses))
        (fun u t => t.setInterface existing fun i => { i with uses := u })
      forMList (mergeExportBody fuel existing types) src.exports) := by
  rw [mergeInterface]
  rfl

section step
variable {W : Colls} {types : Types} (hW : W.mem types) (hs : Sane types) {e : Nat}
include hW hs

/-- the export is new: it is copied and appended -/
theorem appendExport_spec {s s1 : AggState} {F : Forest} (hT : TState W e s F) {ti : Interface}
    (hti : s.agg.types.interfaces[e]? = some ti) {n : Str} (hnone : amGet ti.exports n = none)
    {sk : ItemKind} (lk : LeafK sk) {ts : Tree} (hts : types.unfoldKind types.fuel sk = some ts)
    (htsnd : ts.namesDistinct = true) {fuel : Nat} {k' : ItemKind}
    (hr : remapKind fuel types sk s = .ok (k', s1)) :
    MStep types.uid e s (insExport s1 e n k') ∧ F.hasName n = false ∧
      TState W e (insExport s1 e n k') (snoc F n ts) := by
  have hti1' : s1.agg.types.interfaces[e]? = some ti := by
    rw [(remapKind_leaf_spec hW hs fuel sk lk s k' s1 hT.ainv.rinv hr).2.1.ifaces]; exact hti
  rw [insExport_eq s1 e n k' ti hti1']
  obtain ⟨ti', hti', hflat⟩ := hT.itf
  rw [hti] at hti'; cases hti'
  obtain ⟨m, hm⟩ := hflat.unf
  have hFn : F.get n = none := (unfoldItems_get ti.exports F n hm).1 (by rw [← amGet_eq_alGet]; exact hnone)
  have hhas : F.hasName n = false := (Forest.hasName_false_iff F n).2 hFn
  obtain ⟨hI1, hst1, hlk', hpost⟩ := remapKind_leaf_spec hW hs fuel sk lk s k' s1 hT.ainv.rinv hr
  have hti1 : s1.agg.types.interfaces[e]? = some ti := by rw [hst1.ifaces]; exact hti
  have hext2 := setExports_ext s1 e (amInsert ti.exports n k')
  have ha1 : AInv W s1 := ⟨hI1, by rw [hst1.chk]; exact hT.ainv.cinv.ext hst1.ext, hst1.ext.resources.trans hT.ainv.nores⟩
  have hT2eq := setExports_types_eq s1 e (amInsert ti.exports n k') ti hti1
  refine ⟨(hst1.toMStep e).trans (setExports_mstep _ s1 e _), hhas, ?_, ?_, hasName_of_nd_snoc F n ts hT.nd htsnd hhas⟩
  · exact ha1.of_same hext2 (by rw [hT2eq]) rfl rfl
  · refine ⟨{ ti with exports := amInsert ti.exports n k' }, ?_, ?_, ?_⟩
    · rw [hT2eq]
      exact listSet_get_self _ _ _ (getElem?_lt hti1)
    · intro x hx
      rw [amInsert_absent ti.exports n k' hnone] at hx
      simp only [List.mem_append, List.mem_singleton] at hx
      rcases hx with hx | rfl
      · exact hflat.leaf x hx
      · exact hlk'
    · refine ⟨max m (s1.agg.types.defined.length + 2), ?_⟩
      have key : unfoldItems ((setExports s1 e (amInsert ti.exports n k')).agg.types.unfoldKind
          (max m (s1.agg.types.defined.length + 2))) (ti.exports ++ [(n, k')]) = some (snoc F n ts) := by
        apply unfoldItems_snoc
        · exact (hst1.ext.trans hext2).unfoldItems_leaf _ _ _ hflat.leaf (unfoldItems_fuel_mono (Nat.le_max_left _ _) hm)
        · exact hext2.unfoldLeaf hlk' _ _ (unfoldKind_mono _ (Nat.le_max_right _ _) _ _ (hpost ts ⟨_, hts⟩))
      rw [← amInsert_absent ti.exports n k' hnone] at key
      exact key

/-- the state after a successful `source <: target` check: new memo, the replacement recorded -/
def keepState (s : AggState) (c' : Checker) (g : GTy) (v : Ty) : AggState :=
  { s with chk := c', agg := { s.agg with remapped := alInsert s.agg.remapped g v } }

omit hW hs in
theorem leaf_ty_hasId_uid (k : ItemKind) (g : GTy) (h : g = GTy.mk' types k.ty) (hid : g.ty.hasId = true) :
    g.uid = types.uid := by
  subst h; simp only [GTy.mk'] at hid ⊢; simp [hid]

/-- the export exists in the target and both kinds are leaf kinds: the trees must be equal, the
target keeps its export (stated without reference to the shape of the other exports) -/
theorem keepExport_core {s : AggState} {F : Forest} (hA : AInv W s) (hnd : F.namesDistinct = true) {ti : Interface}
    {m : Nat} (hm : unfoldItems (s.agg.types.unfoldKind m) ti.exports = some F)
    {n : Str} {tk : ItemKind} (hsome : amGet ti.exports n = some tk) (ltk : LeafK tk)
    {sk : ItemKind} (lk : LeafK sk) {ts : Tree} (hts : types.unfoldKind types.fuel sk = some ts)
    (htsnd : ts.namesDistinct = true) :
    ∃ r c', chkSubtype types sk s.agg.types tk s = .ok (r, { s with chk := c' }) ∧ F.hasName n = true ∧
      (r = .ok → MStep types.uid e s (keepState s c' (GTy.mk' types sk.ty) tk.ty) ∧
        AInv W (keepState s c' (GTy.mk' types sk.ty) tk.ty) ∧ ∀ tf, F.get n = some tf → tf = ts) ∧
      (r ≠ .ok → ∃ m, chkSubtypeQ s.agg.types tk types sk { s with chk := c' } = .error (.err m)) ∧
      ∃ tf, F.get n = some tf ∧ (r = .ok ↔ ts = tf) := by
  obtain ⟨tf, htf, hFn⟩ := (unfoldItems_get ti.exports F n hm).2 tk (by rw [← amGet_eq_alGet]; exact hsome)
  have hhas : F.hasName n = true := Forest.get_hasName hFn
  have htfnd : tf.namesDistinct = true := Forest.nd_get F n tf hnd hFn
  have hT_fuel : ∀ N, s.agg.types.fuel ≤ N → s.agg.types.unfoldKind N tk = some tf := fun N hN =>
    hA.rinv.closed.leaf_fuel ltk htf (Nat.le_trans (Types.fuel_ge _) hN)
  have hC_fuel : ∀ N, types.fuel ≤ N → types.unfoldKind N sk = some ts := fun N hN => unfoldKind_mono _ hN _ _ hts
  -- both trees are resource-free leaf trees: the checker's relation is equality
  have hrs : ts.resourceFree = true := rf_unfoldLeaf hs.nores lk hts
  have hrf : tf.resourceFree = true := rf_unfoldLeaf hA.nores ltk htf
  have heqs : isEqK ts = true := eqKind_unfoldLeaf lk hts
  have heqf : isEqK tf = true := eqKind_unfoldLeaf ltk htf
  obtain ⟨r, c', hr, hiff, hnp, hc'⟩ := chkSubtype_leaf s hA.cinv types s.agg.types (.inl hW) (.inr rfl) sk tk lk ltk
    ts tf (hC_fuel _ (by simp [checkFuel])) (hT_fuel _ (by simp [checkFuel])) htsnd htfnd
  rw [subNames_leaf_eq heqs hrs hrf] at hiff
  refine ⟨r, c', hr, hhas, ?_, ?_, ⟨tf, hFn, hiff⟩⟩
  · intro hok
    have hEq : ts = tf := hiff.1 hok
    subst hEq
    have hsame := leaf_same_tree lk ltk hts htf
    refine ⟨?_, ?_, ?_⟩
    · refine ⟨Ext.refl _, rfl, fun _ _ => rfl, rfl, rfl, rfl, rfl, rfl, rfl, ?_⟩
      intro g hid hg
      simp only [keepState, alGet_alInsert] at hg
      split at hg
      · rename_i he
        exact .inr (leaf_ty_hasId_uid sk g (eq_of_beq he).symm hid)
      · exact .inl hg
    · -- AInv of the new state
      refine ⟨⟨?_, hA.rinv.closed, ?_⟩, hc', hA.nores⟩
      rotate_left
      · -- the recorded replacement has the shape of the source kind
        refine hA.rinv.shape.insert _ _ (fun d hd => ?_) (fun f hf => ?_)
        · obtain ⟨v0, _, h0, _, _⟩ := hsame.1 (.defined d) (by simpa [GTy.mk'] using hd)
          exact ⟨v0, h0⟩
        · obtain ⟨f0, _, h0, _, _⟩ := hsame.2 f (by simpa [GTy.mk'] using hf)
          exact ⟨f0, h0⟩
      intro C hC
      obtain ⟨k1, k2⟩ := hA.rinv.sound C hC
      refine ⟨fun d v' hg t ht => ?_, fun f f' hg t ht => ?_⟩
      · simp only [keepState, alGet_alInsert] at hg
        split at hg
        · rename_i he
          obtain ⟨hCeq, hty⟩ := gty_mk_inj hC hW (ty := .value (.defined d)) rfl (eq_of_beq he).symm
          have hCeq' := hCeq.symm
          subst hCeq'
          obtain ⟨v0, x, h0, hx1, hx2⟩ := hsame.1 (.defined d) hty.symm
          rw [h0] at hg
          simp only [Option.some.injEq, Ty.value.injEq] at hg
          subst hg
          rw [HasVT.det ht hx1]; exact hx2
        · exact k1 d v' hg t ht
      · simp only [keepState, alGet_alInsert] at hg
        split at hg
        · rename_i he
          obtain ⟨hCeq, hty⟩ := gty_mk_inj hC hW (ty := .func f) rfl (eq_of_beq he).symm
          have hCeq' := hCeq.symm
          subst hCeq'
          obtain ⟨f0, x, h0, hx1, hx2⟩ := hsame.2 f hty.symm
          rw [h0] at hg
          simp only [Option.some.injEq, Ty.func.injEq] at hg
          subst hg
          rw [HasFn.det ht hx1]; exact hx2
        · exact k2 f f' hg t ht
    · intro tf' hf'
      rw [hFn] at hf'; cases hf'; rfl
  · intro hne
    have hc'' : CInv W ({ s with chk := c' } : AggState).agg.types ({ s with chk := c' } : AggState).chk.cache := hc'
    obtain ⟨r2, c2, hr2, hiff2, hnp2, _⟩ := chkSubtype_leaf ({ s with chk := c' } : AggState) hc'' s.agg.types types
      (.inr rfl) (.inl hW) tk sk ltk lk tf ts (hT_fuel _ (by simp [checkFuel])) (hC_fuel _ (by simp [checkFuel]))
      htfnd htsnd
    rw [subNames_leaf_eq heqf hrf hrs] at hiff2
    have hr2ne : r2 ≠ .ok := fun h2 => hne (hiff.2 (hiff2.1 h2).symm)
    cases r2 with
    | ok => exact absurd rfl hr2ne
    | panic m => exact absurd rfl (hnp2 m)
    | err m =>
      refine ⟨m, ?_⟩
      simp only [chkSubtypeQ, run_bind, hr2]
      rfl

/-- the export exists in the target: the trees must be equal, the target keeps its export -/
theorem keepExport_spec {s : AggState} {F : Forest} (hT : TState W e s F) {ti : Interface}
    (hti : s.agg.types.interfaces[e]? = some ti) {n : Str} {tk : ItemKind} (hsome : amGet ti.exports n = some tk)
    {sk : ItemKind} (lk : LeafK sk) {ts : Tree} (hts : types.unfoldKind types.fuel sk = some ts)
    (htsnd : ts.namesDistinct = true) :
    ∃ r c', chkSubtype types sk s.agg.types tk s = .ok (r, { s with chk := c' }) ∧ F.hasName n = true ∧
      (r = .ok → MStep types.uid e s (keepState s c' (GTy.mk' types sk.ty) tk.ty) ∧
        TState W e (keepState s c' (GTy.mk' types sk.ty) tk.ty) F ∧ ∀ tf, F.get n = some tf → tf = ts) ∧
      (r ≠ .ok → ∃ m, chkSubtypeQ s.agg.types tk types sk { s with chk := c' } = .error (.err m)) ∧
      ∃ tf, F.get n = some tf ∧ (r = .ok ↔ ts = tf) := by
  obtain ⟨ti', hti', hflat⟩ := hT.itf
  rw [hti] at hti'; cases hti'
  obtain ⟨m, hm⟩ := hflat.unf
  have ltk : LeafK tk := hflat.leaf _ (alGet_mem _ _ _ (by rw [← amGet_eq_alGet]; exact hsome))
  obtain ⟨r, c', h1, h2, h3, h4, h5⟩ := keepExport_core hW hs (e := e) hT.ainv hT.nd hm hsome ltk lk hts htsnd
  refine ⟨r, c', h1, h2, fun hok => ?_, h4, h5⟩
  obtain ⟨a, b, c⟩ := h3 hok
  exact ⟨a, ⟨b, ⟨ti, hti, hflat⟩, hT.nd⟩, c⟩

/-- one iteration of the loop of `merge_interface` on flat interfaces -/
theorem mergeExport_step (fuel : Nat) (n : Str) (sk : ItemKind) (s0 s1 : AggState) (F0 : Forest) (ts : Tree)
    (hT0 : TState W e s0 F0) (lk : LeafK sk) (hts : types.unfoldKind types.fuel sk = some ts)
    (htsnd : ts.namesDistinct = true) (hb : mergeExportBody fuel e types (n, sk) s0 = .ok ((), s1)) :
    MStep types.uid e s0 s1 ∧ ((F0.hasName n = true ∧ TState W e s1 F0 ∧ ∀ tf, F0.get n = some tf → tf = ts) ∨
      (F0.hasName n = false ∧ TState W e s1 (snoc F0 n ts))) := by
  simp only [mergeExportBody] at hb
  obtain ⟨ti, hti, hflat⟩ := hT0.itf
  simp only [bind_ok, run_getAgg, Except.ok.injEq, Prod.mk.injEq] at hb
  obtain ⟨_, _, ⟨rfl, rfl⟩, hb⟩ := hb
  simp only [hti, bind_ok, run_pure, run_get, Except.ok.injEq, Prod.mk.injEq] at hb
  obtain ⟨_, _, ⟨rfl, rfl⟩, _, _, ⟨rfl, rfl⟩, hb⟩ := hb
  cases hget : amGet ti.exports n with
  | none =>
    rw [hget] at hb
    simp only [bind_ok, run_pure, Except.ok.injEq, Prod.mk.injEq] at hb
    obtain ⟨_, _, ⟨rfl, rfl⟩, hb⟩ := hb
    simp only [Bool.not_false, ↓reduceIte, bind_ok, run_modifyTypes, Except.ok.injEq, Prod.mk.injEq, true_and] at hb
    obtain ⟨k', s2, hr, rfl⟩ := hb
    obtain ⟨hm, hhas, hT2⟩ := appendExport_spec hW hs hT0 hti hget lk hts htsnd hr
    exact ⟨hm, .inr ⟨hhas, hT2⟩⟩
  | some tk =>
    rw [hget] at hb
    obtain ⟨r, c', hr, hhas, hok, hne, _⟩ := keepExport_spec hW hs hT0 hti hget lk hts htsnd
    have ltk : LeafK tk := hflat.leaf _ (alGet_mem _ _ _ (by rw [← amGet_eq_alGet]; exact hget))
    have hb' : (do
          let __do_lift ← chkSubtype types sk s0.agg.types tk
          match __do_lift with
            | R.ok => do
              modifyAgg fun ag =>
                  { types := ag.types, imports := ag.imports,
                    remapped := alInsert ag.remapped (GTy.mk' types sk.ty) tk.ty,
                    interfaces := ag.interfaces, redirects := ag.redirects }
              let skip ← pure true
              if (!skip) = true then do
                  let remapped ← remapKind fuel types sk
                  modifyTypes fun t =>
                      t.setInterface e fun i =>
                        { id := i.id, uses := i.uses, exports := amInsert i.exports n remapped }
                else pure ()
            | x => do
              let ag ← getAgg
              withCtx (toString "mismatched type for export `" ++ toString (strS n) ++ toString "`")
                  (chkSubtypeQ ag.types tk types sk)
              let skip ← pure false
              if (!skip) = true then do
                  let remapped ← remapKind fuel types sk
                  modifyTypes fun t =>
                      t.setInterface e fun i =>
                        { id := i.id, uses := i.uses, exports := amInsert i.exports n remapped }
                else pure () : AggM Unit) s0 = .ok ((), s1) := by
      cases tk with
      | func _ => exact hb
      | value _ => exact hb
      | type ty =>
        cases ty with
        | func _ => exact hb
        | value _ => exact hb
        | _ => cases ltk
      | _ => cases ltk
    clear hb
    simp only [bind_ok, hr, Except.ok.injEq, Prod.mk.injEq] at hb'
    obtain ⟨_, _, ⟨rfl, rfl⟩, hb'⟩ := hb'
    cases r with
    | ok =>
      simp only [bind_ok, run_modifyAgg, run_pure, Except.ok.injEq, Prod.mk.injEq, true_and] at hb'
      obtain ⟨_, _, ⟨rfl, _, _, ⟨rfl, rfl⟩, hb'⟩⟩ := hb'
      simp only [Bool.not_true, Bool.false_eq_true, ↓reduceIte, run_pure, Except.ok.injEq, Prod.mk.injEq,
        true_and] at hb'
      subst hb'
      obtain ⟨hm, hT2, heq⟩ := hok rfl
      exact ⟨hm, .inl ⟨hhas, hT2, heq⟩⟩
    | err m =>
      obtain ⟨m', hm'⟩ := hne (by simp)
      simp only [bind_ok, run_getAgg, Except.ok.injEq, Prod.mk.injEq] at hb'
      obtain ⟨_, _, ⟨rfl, rfl⟩, _, _, hq, _⟩ := hb'
      rw [withCtx_ok, hm'] at hq
      cases hq
    | panic m =>
      obtain ⟨m', hm'⟩ := hne (by simp)
      simp only [bind_ok, run_getAgg, Except.ok.injEq, Prod.mk.injEq] at hb'
      obtain ⟨_, _, ⟨rfl, rfl⟩, _, _, hq, _⟩ := hb'
      rw [withCtx_ok, hm'] at hq
      cases hq


/-- **`merge_interface` on flat interfaces** -/
theorem mergeInterface_flat (fuel id : Nat) (s s' : AggState) (F G : Forest) (si : Interface)
    (hT : TState W e s F) (hsi : types.interfaces[id]? = some si) (huses : si.uses = [])
    (hleaf : ∀ x, x ∈ si.exports → LeafK x.2)
    (hG : unfoldItems (types.unfoldKind types.fuel) si.exports = some G) (hGnd : G.namesDistinct = true)
    (h : mergeInterface fuel e types id s = .ok ((), s')) :
    MStep types.uid e s s' ∧ TState W e s' (appendMissing F G) ∧ Consistent F G := by
  cases fuel with
  | zero => simp [mergeInterface, run_apanic] at h
  | succ fuel =>
    rw [mergeInterface_succ] at h
    simp only [hsi, bind_ok, run_pure, Except.ok.injEq, Prod.mk.injEq] at h
    obtain ⟨_, _, ⟨rfl, rfl⟩, h⟩ := h
    simp only [huses, mergeUsedTypes, forMList, run_pure, Except.ok.injEq, Prod.mk.injEq, true_and,
      exists_eq_left'] at h
    obtain ⟨_, h⟩ := h
    exact flat_loop (u := types.uid) (fun n sk s0 s1 F0 ts hT0 lk hts htsnd hb =>
      mergeExport_step hW hs fuel n sk s0 s1 F0 ts hT0 lk hts htsnd hb) si.exports G s s' F hT hleaf hG hGnd h

end step

end Wac.AggP
