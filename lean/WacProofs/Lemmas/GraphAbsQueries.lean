import WacProofs.Lemmas.GraphAbsOps2
import WacProofs.Lemmas.GraphQueries
/-
  C06 refinement: every public query of the model is a function of the abstract state.
-/
namespace Wac.Graph
open Wac Wac.HashSites

/-! ### `node_ids`, `get_export`, `get_import_name`, `get_package_by_name` -/

theorem nodeIds_abs (g : Graph) : g.nodeIds = (abs g).nodeIds := by
  unfold Graph.nodeIds Abs.nodeIds
  show _ = (List.range g.nodes.length).filter (fun n => ((g.node? n).map Node.abs).isSome)
  congr 1
  funext n
  unfold Graph.live
  simp

theorem getExport_abs (g : Graph) (name : Str) : getExport g name = (abs g).getExport name := rfl

theorem getPackageByName_abs (g : Graph) (key : PkgKey) : getPackageByName g key = (abs g).getPackageByName key := rfl

theorem getImportName_abs (g : Graph) (n : Nat) : getImportName g n = (abs g).getImportName n := by
  unfold getImportName Abs.getImportName
  cases hq : g.node? n with
  | none => rw [abs_node_none hq]
  | some x =>
    rw [abs_node_some hq]
    simp only [Node.abs]
    cases x.kind <;> rfl

/-! ### `get_alias_source` -/

/-- what the walk of `get_alias_source` does with an alias edge -/
def aliasLookup (ctx : Ctx) (g : Graph) (s j : Nat) : Except Site (Option (Nat × Str)) :=
  match g.node? s with
  | none => .error .invalidNodeId
  | some sn =>
    match ctx.kindExports sn.item with
    | none => .error .aliasSource
    | some exps =>
      match exps[j]? with
      | none => .error .aliasSource
      | some (nm, _) => .ok (some (s, nm))

theorem aliasGo_eq (ctx : Ctx) (g : Graph) (n : Nat) : ∀ es : List Edge,
    getAliasSource.go ctx g (es.filter (fun e => e.dst == n)) =
      match aliasOfE es n with
      | none => .ok none
      | some (s, j) => aliasLookup ctx g s j
  | [] => rfl
  | e :: r => by
    have ih := aliasGo_eq ctx g n r
    by_cases hd : e.dst = n
    · have hf : (e :: r).filter (fun e => e.dst == n) = e :: r.filter (fun e => e.dst == n) := by
        simp [List.filter_cons, hd]
      rw [hf]
      cases hk : e.kind with
      | alias j =>
        rw [aliasOfE_cons_alias hk, if_pos hd]
        rw [getAliasSource.go]
        simp only [hk]
        unfold aliasLookup
        rfl
      | arg j =>
        rw [aliasOfE_cons_nonalias (by rw [hk]; rfl)]
        rw [getAliasSource.go]
        simp only [hk]
        exact ih
      | dep =>
        rw [aliasOfE_cons_nonalias (by rw [hk]; rfl)]
        rw [getAliasSource.go]
        simp only [hk]
        exact ih
    · have hf : (e :: r).filter (fun e => e.dst == n) = r.filter (fun e => e.dst == n) := by
        simp [List.filter_cons, hd]
      rw [hf, ih]
      cases hk : e.kind with
      | alias j => rw [aliasOfE_cons_alias hk, if_neg hd]
      | arg j => rw [aliasOfE_cons_nonalias (by rw [hk]; rfl)]
      | dep => rw [aliasOfE_cons_nonalias (by rw [hk]; rfl)]

theorem getAliasSource_abs {ctx : Ctx} {g : Graph} (h : Inv ctx g) (n : Nat) :
    getAliasSource ctx g n = .ok ((abs g).getAliasSource ctx n) := by
  unfold getAliasSource
  show getAliasSource.go ctx g (g.edges.filter (fun e => e.dst == n)) = _
  rw [aliasGo_eq]
  unfold Abs.getAliasSource
  have e1 : (abs g).aliasOf n = aliasOfE g.edges n := rfl
  rw [e1]
  cases hq : aliasOfE g.edges n with
  | none => rfl
  | some p =>
    obtain ⟨s, j⟩ := p
    simp only
    have hm := aliasOfE_mem hq
    obtain ⟨sn, hs, d, _, hkk⟩ := h.edges _ hm
    simp only at hkk hs
    obtain ⟨_, _, exps, hexps, q, hq', _⟩ := hkk
    rw [Option.mem_def] at hs hexps hq'
    unfold aliasLookup
    rw [hs, abs_node_some hs]
    simp only
    have : sn.abs.item = sn.item := rfl
    rw [this, hexps]
    simp only
    rw [hq']

/-! ### `get_instantiation_arguments` -/

/-- the entry `get_instantiation_arguments` yields for one incoming edge -/
def argEntry (d : PkgDef) (e : Edge) : Option (Str × Nat) :=
  match e.kind with
  | .arg j => (d.imports[j]?).map (fun p => (p.1, e.src))
  | _ => none

theorem argsGo_eq (d : PkgDef) : ∀ (es : List Edge),
    (∀ e ∈ es, ∃ j, e.kind = .arg j ∧ j < d.imports.length) →
    getInstantiationArguments.go d es = .ok (es.filterMap (argEntry d))
  | [], _ => rfl
  | e :: r, h => by
    obtain ⟨j, hj, hlt⟩ := h e (List.mem_cons_self ..)
    have ih := argsGo_eq d r (fun e' he' => h e' (List.mem_cons_of_mem _ he'))
    have hget : d.imports[j]? = some d.imports[j] := by simp [hlt]
    rw [getInstantiationArguments.go]
    simp only [hj, hget, ih]
    rw [List.filterMap_cons]
    simp only [argEntry, hj, hget, Option.map_some]

theorem filterMap_congr' {α β : Type} {f g : α → Option β} : ∀ {l : List α},
    (∀ x ∈ l, f x = g x) → l.filterMap f = l.filterMap g
  | [], _ => rfl
  | x :: r, h => by
    rw [List.filterMap_cons, List.filterMap_cons, h x (List.mem_cons_self ..),
      filterMap_congr' (fun y hy => h y (List.mem_cons_of_mem _ hy))]

theorem nodup_of_filterMap_some {α β : Type} {f : α → Option β} : ∀ {l : List α},
    (∀ x ∈ l, (f x).isSome = true) → (l.filterMap f).Nodup → l.Nodup
  | [], _, _ => List.nodup_nil
  | x :: r, hs, hn => by
    have hx := hs x (List.mem_cons_self ..)
    cases hfx : f x with
    | none => rw [hfx] at hx; cases hx
    | some b =>
      rw [List.filterMap_cons, hfx, List.nodup_cons] at hn
      rw [List.nodup_cons]
      refine ⟨fun hmem => hn.1 (List.mem_filterMap.mpr ⟨x, hmem, hfx⟩),
        nodup_of_filterMap_some (fun y hy => hs y (List.mem_cons_of_mem _ hy)) hn.2⟩

theorem nodup_filterMap_inj {α β : Type} {f : α → Option β}
    (hinj : ∀ a a' b, f a = some b → f a' = some b → a = a') : ∀ {l : List α}, l.Nodup → (l.filterMap f).Nodup
  | [], _ => List.nodup_nil
  | x :: r, hn => by
    rw [List.nodup_cons] at hn
    rw [List.filterMap_cons]
    cases hfx : f x with
    | none => exact nodup_filterMap_inj hinj hn.2
    | some b =>
      simp only
      rw [List.nodup_cons]
      refine ⟨fun hmem => ?_, nodup_filterMap_inj hinj hn.2⟩
      obtain ⟨a', ha', hfa'⟩ := List.mem_filterMap.mp hmem
      have := hinj x a' b hfx hfa'
      rw [this] at hn
      exact hn.1 ha'

/-- `get_instantiation_arguments` is, up to the adjacency order, the argument map of the node -/
theorem getInstantiationArguments_abs {ctx : Ctx} {g : Graph} (h : Inv ctx g) (n : Nat) :
    ∃ l, getInstantiationArguments g n = .ok l ∧ l.Perm ((abs g).instArgs n) := by
  cases hnd : g.node? n with
  | none =>
    refine ⟨[], ?_, ?_⟩
    · unfold getInstantiationArguments; rw [hnd]
    · unfold Abs.instArgs; rw [abs_node_none hnd]
  | some nd =>
    cases hk : nd.kind with
    | instantiation sat =>
      have hinst : nd.isInst = true := by simp [Node.isInst, hk]
      have h2 := (h.node hnd).2.1
      rw [hk] at h2
      simp only at h2
      obtain ⟨_, _, pid, hpid, d, hpd, _⟩ := h2
      rw [Option.mem_def] at hpid
      have hok := toOption_mem.mp hpd
      -- the incoming edges are argument edges with indices in range
      have hall : ∀ e ∈ g.inEdges n, ∃ j, e.kind = .arg j ∧ j < d.imports.length := by
        intro e he
        obtain ⟨he1, hdst⟩ := mem_inEdges.mp he
        obtain ⟨s, _, dn, hdn, hkk⟩ := h.edges e he1
        rw [hdst, Option.mem_def, hnd] at hdn
        cases hdn
        obtain ⟨j, hj, _⟩ := inEdges_of_inst h hnd hinst e he1 hdst
        rw [hj] at hkk
        simp only at hkk
        obtain ⟨_, _, pid', hpid', pd', hpd', hlt⟩ := hkk
        rw [Option.mem_def, hpid] at hpid'
        cases hpid'
        have : pd' = d := by
          have h1 := toOption_mem.mp hpd'
          rw [h1] at hok
          exact Except.ok.inj hok
        rw [this] at hlt
        exact ⟨j, hj, hlt⟩
      refine ⟨(g.inEdges n).filterMap (argEntry d), ?_, ?_⟩
      · unfold getInstantiationArguments
        rw [hnd]
        simp only [hk, hpid]
        unfold Graph.pkgOf at hok
        cases hs : g.pkgs[pid.index]? with
        | none => rw [hs] at hok; cases hok
        | some slot =>
          rw [hs] at hok
          simp only at hok ⊢
          split at hok
          · cases hok
          · cases hp : slot.pkg with
            | none => rw [hp] at hok; cases hok
            | some d' =>
              rw [hp] at hok
              simp only [Except.ok.injEq] at hok
              subst hok
              simp only
              exact argsGo_eq d' (g.inEdges n) hall
      · -- the abstract list, as the same map over the argument edges in index order
        let E' : List Edge := (List.range d.imports.length).filterMap
          (fun i => (argOfE g.edges n i).map (fun s => (⟨s, n, .arg i⟩ : Edge)))
        have hinstArgs : (abs g).instArgs n = E'.filterMap (argEntry d) := by
          unfold Abs.instArgs
          rw [abs_node_some hnd]
          simp only
          rw [abs_isInst, hinst]
          simp only [Bool.not_true, Bool.false_eq_true, ↓reduceIte]
          have hip : (abs g).instPkg nd.abs = some d := by
            unfold Abs.instPkg
            have : nd.abs.pkg = some pid := hpid
            rw [this]
            show (g.pkgOf pid).toOption = some d
            rw [hok]; rfl
          rw [hip]
          simp only
          rw [List.filterMap_filterMap]
          apply filterMap_congr'
          intro i _
          have earg : (abs g).arg n i = argOfE g.edges n i := rfl
          rw [earg]
          cases hq : argOfE g.edges n i with
          | none => cases d.imports[i]? <;> rfl
          | some s =>
            simp only [Option.map_some, Option.bind_some, argEntry]
            cases hq2 : d.imports[i]? with
            | none => rfl
            | some p => rfl
        rw [hinstArgs]
        apply List.Perm.filterMap
        have hE : (g.inEdges n).Nodup := by
          apply nodup_of_filterMap_some (f := Edge.argKey)
          · intro e he
            obtain ⟨j, hj, _⟩ := hall e he
            simp [Edge.argKey, hj]
          · exact (List.Sublist.filterMap _ List.filter_sublist).nodup h.argUnique
        have hE' : E'.Nodup := by
          apply nodup_filterMap_inj _ List.nodup_range
          intro i i' b h1 h2
          cases hq1 : argOfE g.edges n i with
          | none => rw [hq1] at h1; cases h1
          | some s1 =>
            cases hq2 : argOfE g.edges n i' with
            | none => rw [hq2] at h2; cases h2
            | some s2 =>
              rw [hq1] at h1; rw [hq2] at h2
              simp only [Option.map_some, Option.some.injEq] at h1 h2
              rw [← h2] at h1
              cases h1; rfl
        rw [List.perm_ext_iff_of_nodup hE hE']
        intro e
        rw [mem_inEdges]
        constructor
        · rintro ⟨he, hdst⟩
          obtain ⟨j, hj, hlt⟩ := hall e (mem_inEdges.mpr ⟨he, hdst⟩)
          have heq : e = ⟨e.src, n, .arg j⟩ := by cases e; simp only at hdst hj; subst hdst; subst hj; rfl
          rw [List.mem_filterMap]
          refine ⟨j, List.mem_range.mpr hlt, ?_⟩
          rw [heq] at he
          rw [(argOfE_iff h.argUnique).mpr he]
          simp only [Option.map_some]
          exact congrArg some heq.symm
        · intro he
          obtain ⟨i, _, hi⟩ := List.mem_filterMap.mp he
          cases hq : argOfE g.edges n i with
          | none => rw [hq] at hi; cases hi
          | some s =>
            rw [hq] at hi
            simp only [Option.map_some, Option.some.injEq] at hi
            rw [← hi]
            exact ⟨argOfE_mem hq, rfl⟩
    | definition ty =>
      refine ⟨[], ?_, ?_⟩
      · unfold getInstantiationArguments; rw [hnd]; simp only [hk]
      · unfold Abs.instArgs; rw [abs_node_some hnd]; simp [abs_isInst, Node.isInst, hk]
    | «import» nm =>
      refine ⟨[], ?_, ?_⟩
      · unfold getInstantiationArguments; rw [hnd]; simp only [hk]
      · unfold Abs.instArgs; rw [abs_node_some hnd]; simp [abs_isInst, Node.isInst, hk]
    | alias =>
      refine ⟨[], ?_, ?_⟩
      · unfold getInstantiationArguments; rw [hnd]; simp only [hk]
      · unfold Abs.instArgs; rw [abs_node_some hnd]; simp [abs_isInst, Node.isInst, hk]

/-! ### `imports()` -/

theorem insts_abs {ctx : Ctx} {g : Graph} (h : Inv ctx g) : ∀ l : List Nat,
    importsQuery.insts g l = .ok (l.flatMap (abs g).implicitImports)
  | [] => rfl
  | n :: r => by
    have ih := insts_abs h r
    rw [importsQuery.insts, List.flatMap_cons]
    cases hnd : g.node? n with
    | none =>
      simp only
      rw [ih]
      unfold Abs.implicitImports
      rw [abs_node_none hnd]
      rfl
    | some nd =>
      simp only
      cases hk : nd.kind with
      | instantiation sat =>
        simp only
        have hinst : nd.isInst = true := by simp [Node.isInst, hk]
        have h2 := (h.node hnd).2.1
        rw [hk] at h2
        simp only at h2
        obtain ⟨_, hsat, pid, hpid, d, hpd, _⟩ := h2
        rw [Option.mem_def] at hpid
        have hok := toOption_mem.mp hpd
        rw [hpid]
        simp only
        rw [hok]
        simp only
        rw [ih]
        simp only
        congr 2
        unfold Abs.implicitImports
        rw [abs_node_some hnd]
        simp only
        rw [abs_isInst, hinst]
        simp only [↓reduceIte]
        have hip : (abs g).instPkg nd.abs = some d := by
          unfold Abs.instPkg
          have : nd.abs.pkg = some pid := hpid
          rw [this]
          show (g.pkgOf pid).toOption = some d
          rw [hok]; rfl
        rw [hip]
        simp only
        apply filterMap_congr'
        intro p _
        obtain ⟨i, nm, k⟩ := p
        simp only
        have earg : (abs g).arg n i = argOfE g.edges n i := rfl
        rw [earg]
        -- satisfied ⟺ an argument edge exists
        have hiff : sat.contains i = (argOfE g.edges n i).isSome := by
          apply bool_ext_iff
          rw [argOfE_isSome]
          constructor
          · intro hc
            obtain ⟨e, he, hd, hkk⟩ := hsat i (by simpa using hc)
            exact ⟨e, he, hd, hkk⟩
          · rintro ⟨e, he, hd, hkk⟩
            obtain ⟨s, _, dn, hdn, hok'⟩ := h.edges e he
            rw [hd, Option.mem_def, hnd] at hdn
            cases hdn
            rw [hkk] at hok'
            simp only at hok'
            have := hok'.1
            simp only [Node.sat, hk] at this
            simpa using this
        rw [hiff]
      | definition ty =>
        simp only
        rw [ih]
        unfold Abs.implicitImports
        rw [abs_node_some hnd]
        simp [abs_isInst, Node.isInst, hk]
      | «import» nm =>
        simp only
        rw [ih]
        unfold Abs.implicitImports
        rw [abs_node_some hnd]
        simp [abs_isInst, Node.isInst, hk]
      | alias =>
        simp only
        rw [ih]
        unfold Abs.implicitImports
        rw [abs_node_some hnd]
        simp [abs_isInst, Node.isInst, hk]

theorem importsQuery_abs {ctx : Ctx} {g : Graph} (h : Inv ctx g) :
    importsQuery g = .ok (abs g).importsQuery := by
  unfold importsQuery Abs.importsQuery
  rw [insts_abs h, ← nodeIds_abs]
  simp only
  congr 2
  apply filterMap_congr'
  intro n _
  unfold Abs.explicitImport
  cases hq : g.node? n with
  | none => rw [abs_node_none hq]
  | some x =>
    rw [abs_node_some hq]
    simp only [Node.abs]
    cases x.kind <;> rfl

end Wac.Graph
