import WacProofs.Lemmas.ElabWorld
/-
  C05 `elab_denotes`, part 14 (worlds): every kind of world item is faithful (`worldStep_ok`), and
  so is the first pass over a world body (`worldItems_ok`).
-/
namespace Wac.Elab
open Wac Wac.Spec.Wit Wac.Decode

variable {ρ : Nat → Res}

set_option linter.unusedSimpArgs false

/-- the declared interfaces, as a world refers to them by name: the id the resolver gave the
interface is the id the specification knows the path by, and the interface unfolds to its
denotation (the fuel bound is the one of the arena the interface was declared in, which is why this
fact is kept next to `RootSim`) -/
def RootInst (ρ : Nat → Res) (T : Types) (root : List (Str × Bound)) (ifaces : List (Str × List (Str × Tree)))
    (ids : List (Str × Str)) : Prop :=
  ∀ (path : Str) (i : Nat), alGet root path = some (.iface i) →
    ∃ itf ex id, T.interfaces[i]? = some itf ∧ itf.id = some id ∧ alGet ids path = some id ∧
      alGet ifaces path = some ex ∧
      HK [] [] T (kb T) (.instance i) (renT ρ (.instance (Forest.ofList ex)))

theorem RootInst.mono {T T' : Types} {root : List (Str × Bound)} {ifaces : List (Str × List (Str × Tree))}
    {ids : List (Str × Str)} (h : RootInst ρ T root ifaces ids) (hg : Grow T T') :
    RootInst ρ T' root ifaces ids := by
  intro path i hp
  obtain ⟨itf, ex, id, h1, h2, h3, h4, h5⟩ := h path i hp
  exact ⟨itf, ex, id, hg.keepI i itf h1, h2, h3, h4,
    HK.mono h5 hg.ext (by have := hg.size; unfold kb vb; omega)⟩

/-- a world-level declaration or `use` is the interface-level one, feeding the imports -/
theorem worldStep_item {st st1 : St} {i : Item} {wd wd1 : World}
    (h : worldStep st (.item i) wd = .ok (st1, wd1)) :
    ∃ itf1, ifaceStep st i { id := wd.id, uses := wd.uses, exports := wd.imports } = .ok (st1, itf1) ∧
      wd1 = { wd with uses := itf1.uses, imports := itf1.exports } := by
  cases i with
  | use path items =>
    simp only [worldStep] at h
    simp only [ifaceStep]
    split at h
    · rename_i st2 uses imports hu
      cases h
      simp only [hu]
      exact ⟨_, rfl, rfl⟩
    · cases h
  | func n sg => simp [worldStep, itemTypeDecl] at h
  | record n fs =>
    simp only [worldStep] at h
    simp only [ifaceStep]
    split at h
    · rename_i st2 imports hd
      cases h
      simp only [hd]
      exact ⟨_, rfl, rfl⟩
    · cases h
  | variant n fs =>
    simp only [worldStep] at h
    simp only [ifaceStep]
    split at h
    · rename_i st2 imports hd
      cases h
      simp only [hd]
      exact ⟨_, rfl, rfl⟩
    · cases h
  | enum n fs =>
    simp only [worldStep] at h
    simp only [ifaceStep]
    split at h
    · rename_i st2 imports hd
      cases h
      simp only [hd]
      exact ⟨_, rfl, rfl⟩
    · cases h
  | flags n fs =>
    simp only [worldStep] at h
    simp only [ifaceStep]
    split at h
    · rename_i st2 imports hd
      cases h
      simp only [hd]
      exact ⟨_, rfl, rfl⟩
    · cases h
  | alias n fs =>
    simp only [worldStep] at h
    simp only [ifaceStep]
    split at h
    · rename_i st2 imports hd
      cases h
      simp only [hd]
      exact ⟨_, rfl, rfl⟩
    · cases h
  | resource n fs =>
    simp only [worldStep] at h
    simp only [ifaceStep]
    split at h
    · rename_i st2 imports hd
      cases h
      simp only [hd]
      exact ⟨_, rfl, rfl⟩
    · cases h

/-- `import f: func(…)` / `export f: func(…)`: the function type allocated is the denoted one, and
the item enters the list it is pushed on under the name `n` -/
theorem funcPush_ok {st st2 : St} {sg : Sig} {f : Nat}
    (hf : funcType st sg.params sg.result .free none = .ok (st2, f)) :
    Grow st.types st2.types ∧ st2.root = st.root ∧ st2.scope = st.scope ∧
    ∀ (ρ : Nat → Res) (s : Scope) (t : Tree), Sim ρ st.types st.scope s.binds → sigTree s [] sg none = some t →
      Sim ρ st2.types st2.scope s.binds ∧
      ∀ (ks : List (Str × ItemKind)) (out : List (Str × Tree)) (n : Str), ExpRel ρ st.types ks out →
        alGet ks n = none → ExpRel ρ st2.types (alInsert ks n (.func f)) (addIfAbsent out n t) := by
  have F := fun (ρ : Nat → Res) => funcType_ok (ρ := ρ) hf
  obtain ⟨g1, sc1, rt1, _⟩ := F (fun _ => default)
  refine ⟨g1, rt1, sc1, ?_⟩
  intro ρ s t hsim ht
  have hfr := (F ρ).2.2.2 s hsim [] none t rfl (ForcedOk_free _ _ _) ht
  refine ⟨by rw [sc1]; exact hsim.mono g1, ?_⟩
  intro ks out n hexp hfresh
  exact (hexp.mono g1).pushFresh hfresh (HK_func hfr) (fun _ hk => by cases hk)

/-- `import i: interface {…}` / `export i: interface {…}`: the inline interface allocated unfolds
to the denoted instance type, and the item enters the list it is pushed on under the name `n` -/
theorem ifacePush_ok {st st2 : St} {items : List Item} {i : Nat}
    (hd : interfaceDecl st none items = .ok (st2, i)) :
    Grow st.types st2.types ∧ st2.root = st.root ∧ st2.scope = st.scope ∧
    ∀ (ifaces : List (Str × List (Str × Tree))) (next next' : Nat) (ex : List (Str × Tree)),
      denoteItems [] ifaces next items = some (next', ex) →
      ∃ newR : List Nat, next' = next + newR.length ∧ newR.Pairwise (· < ·) ∧
        (∀ x ∈ newR, st.types.resources.length ≤ x ∧ x < st2.types.resources.length) ∧
        ∀ (ρ : Nat → Res) (RL : List Nat), RL.length = next → ConsE ρ (RL ++ newR) st2.types →
          RootSim ρ st.types st.root ifaces → (ex.map (·.1)).Nodup →
          ∀ (ks : List (Str × ItemKind)) (out : List (Str × Tree)) (n : Str), ExpRel ρ st.types ks out →
            alGet ks n = none →
            ExpRel ρ st2.types (alInsert ks n (.instance i)) (addIfAbsent out n (.instance (Forest.ofList ex))) := by
  obtain ⟨g1, rt1, sc1, k1⟩ := interfaceDeclAll_ok hd
  refine ⟨g1, rt1, sc1, ?_⟩
  intro ifaces next next' ex hden
  obtain ⟨newR, hn, hp, hr, kk⟩ := k1 [] ifaces next next' ex hden
  refine ⟨newR, hn, hp, hr, ?_⟩
  intro ρ RL hRL hcons hrs hnd ks out n hexp hfresh
  obtain ⟨hk, _⟩ := kk ρ RL hRL hcons hrs hnd
  exact (hexp.mono g1).pushFresh hfresh hk (fun _ hk => by cases hk)

/-- inversion of a successful `import f: func(…)` / `export f: func(…)` -/
theorem worldStep_externFunc {st st1 : St} {imp : Bool} {n : Str} {sg : Sig} {wd wd1 : World}
    (h : worldStep st (.externFunc imp n sg) wd = .ok (st1, wd1)) :
    ∃ f, funcType st sg.params sg.result .free none = .ok (st1, f) ∧
      ((imp = true ∧ alGet wd.imports n = none ∧ wd1 = { wd with imports := alInsert wd.imports n (.func f) }) ∨
       (imp = false ∧ alGet wd.exports n = none ∧ wd1 = { wd with exports := alInsert wd.exports n (.func f) })) := by
  cases imp <;> simp only [worldStep, Bool.false_eq_true, if_true, if_false] at h
  · split at h
    · cases h
    · rename_i hfr
      split at h
      · rename_i st2 f hf
        cases h
        exact ⟨f, hf, Or.inr ⟨rfl, by simpa using hfr, rfl⟩⟩
      · cases h
  · split at h
    · cases h
    · rename_i hfr
      split at h
      · rename_i st2 f hf
        cases h
        exact ⟨f, hf, Or.inl ⟨rfl, by simpa using hfr, rfl⟩⟩
      · cases h

/-- inversion of a successful `import i: interface {…}` / `export i: interface {…}` -/
theorem worldStep_externIface {st st1 : St} {imp : Bool} {n : Str} {items : List Item} {wd wd1 : World}
    (h : worldStep st (.externIface imp n items) wd = .ok (st1, wd1)) :
    ∃ i, interfaceDecl st none items = .ok (st1, i) ∧
      ((imp = true ∧ alGet wd.imports n = none ∧ wd1 = { wd with imports := alInsert wd.imports n (.instance i) }) ∨
       (imp = false ∧ alGet wd.exports n = none ∧ wd1 = { wd with exports := alInsert wd.exports n (.instance i) })) := by
  cases imp <;> simp only [worldStep, Bool.false_eq_true, if_true, if_false] at h
  · split at h
    · cases h
    · rename_i hfr
      split at h
      · rename_i st2 f hf
        cases h
        exact ⟨f, hf, Or.inr ⟨rfl, by simpa using hfr, rfl⟩⟩
      · cases h
  · split at h
    · cases h
    · rename_i hfr
      split at h
      · rename_i st2 f hf
        cases h
        exact ⟨f, hf, Or.inl ⟨rfl, by simpa using hfr, rfl⟩⟩
      · cases h

/-- inversion of a successful `import ifc;` / `export ifc;` -/
theorem worldStep_externPath {st st1 : St} {imp : Bool} {path : Str} {wd wd1 : World}
    (h : worldStep st (.externPath imp path) wd = .ok (st1, wd1)) :
    st1 = st ∧ ∃ i itf id, alGet st.root path = some (.iface i) ∧ st.types.interfaces[i]? = some itf ∧
      itf.id = some id ∧
      ((imp = true ∧ alGet wd.imports id = none ∧ wd1 = { wd with imports := alInsert wd.imports id (.instance i) }) ∨
       (imp = false ∧ alGet wd.exports id = none ∧ wd1 = { wd with exports := alInsert wd.exports id (.instance i) })) := by
  cases imp <;> simp only [worldStep, Bool.false_eq_true, if_true, if_false] at h
  · split at h
    · rename_i i hroot
      split at h
      · rename_i itf hitf
        split at h
        · rename_i id hid
          split at h
          · cases h
          · rename_i hfr
            cases h
            exact ⟨rfl, i, itf, id, hroot, hitf, hid, Or.inr ⟨rfl, by simpa using hfr, rfl⟩⟩
        · cases h
      · cases h
    · cases h
    · cases h
  · split at h
    · rename_i i hroot
      split at h
      · rename_i itf hitf
        split at h
        · rename_i id hid
          split at h
          · cases h
          · rename_i hfr
            cases h
            exact ⟨rfl, i, itf, id, hroot, hitf, hid, Or.inl ⟨rfl, by simpa using hfr, rfl⟩⟩
        · cases h
      · cases h
    · cases h
    · cases h

/-- what one world item guarantees -/
def WStepOk (env : Env) (st st1 : St) (wd wd1 : World) (wi : WItem) : Prop :=
  Grow st.types st1.types ∧ st1.root = st.root ∧ wd1.id = wd.id ∧
  ∀ (acc acc1 : Scope × WorldD), denWStep env acc wi = some acc1 →
    ∃ newR : List Nat, acc1.1.next = acc.1.next + newR.length ∧ newR.Pairwise (· < ·) ∧
      (∀ x ∈ newR, st.types.resources.length ≤ x ∧ x < st1.types.resources.length) ∧
      ∀ (ρ : Nat → Res) (RL : List Nat), RL.length = acc.1.next → ConsE ρ (RL ++ newR) st1.types →
        RootSim ρ st.types st.root env.ifaces → RootInst ρ st.types st.root env.ifaces env.ids →
        Sim ρ st.types st.scope acc.1.binds →
        ExpRel ρ st.types wd.imports acc.2.imports → ExpRel ρ st.types wd.exports acc.2.exports →
        stepFreshB env acc wi = true →
        Sim ρ st1.types st1.scope acc1.1.binds ∧
        ExpRel ρ st1.types wd1.imports acc1.2.imports ∧ ExpRel ρ st1.types wd1.exports acc1.2.exports

theorem worldStep_ok (env : Env) {st st1 : St} {wd wd1 : World} {wi : WItem}
    (h : worldStep st wi wd = .ok (st1, wd1)) : WStepOk env st st1 wd wd1 wi := by
  cases wi with
  | item i =>
    obtain ⟨itf1, hstep, rfl⟩ := worldStep_item h
    obtain ⟨g1, rt1, _, k1⟩ := ifaceStep_ok hstep
    refine ⟨g1, rt1, rfl, ?_⟩
    intro acc acc1 hden
    simp only [denWStep] at hden
    obtain ⟨so, hso, hacc⟩ := Option.map_eq_some_iff.mp hden
    obtain ⟨s1, out⟩ := so
    cases hacc
    obtain ⟨newR, hn, hp, hr, kk⟩ := k1 [] env.ifaces acc.1 s1 out hso
    refine ⟨newR, hn, hp, hr, ?_⟩
    intro ρ RL hRL hcons hrs _ hsim hI hE hfr
    have hnd : ((acc.2.imports ++ out).map (·.1)).Nodup := by
      simp only [stepFreshB, hso] at hfr
      exact of_decide_eq_true hfr
    obtain ⟨hsim1, hexp1⟩ := kk ρ RL acc.2.imports hRL hcons hrs hsim hI hnd
    refine ⟨hsim1, ?_, hE.mono g1⟩
    show ExpRel ρ st1.types itf1.exports
      (out.foldl (fun l (nt : Str × Tree) => addIfAbsent l nt.1 nt.2) acc.2.imports)
    rw [foldl_addIfAbsent_fresh _ _ hnd]
    exact hexp1
  | externPath imp path =>
    obtain ⟨rfl, i, itf, id, hroot, hitf, hid, hcase⟩ := worldStep_externPath h
    have hid1 : wd1.id = wd.id := by rcases hcase with ⟨_, _, rfl⟩ | ⟨_, _, rfl⟩ <;> rfl
    refine ⟨Grow.refl _, rfl, hid1, ?_⟩
    intro acc acc1 hden
    refine ⟨[], ?_, List.Pairwise.nil, by simp, ?_⟩
    · simp only [denWStep] at hden
      split at hden
      · cases hden; simp
      · cases hden
    intro ρ RL _ _ _ hri hsim hI hE _
    obtain ⟨itf', ex, id', h1, h2, h3, h4, h5⟩ := hri path i hroot
    rw [hitf] at h1
    cases h1
    rw [hid] at h2
    cases h2
    simp only [denWStep, h4, h3] at hden
    cases hden
    rcases hcase with ⟨rfl, hfrM, rfl⟩ | ⟨rfl, hfrM, rfl⟩
    · simp only [if_true]
      exact ⟨hsim, hI.pushFresh hfrM h5 (fun _ hk => by cases hk), hE⟩
    · simp only [Bool.false_eq_true, if_false]
      exact ⟨hsim, hI, hE.pushFresh hfrM h5 (fun _ hk => by cases hk)⟩
  | externFunc imp n sg =>
    obtain ⟨f, hf, hcase⟩ := worldStep_externFunc h
    obtain ⟨g1, rt1, sc1, k1⟩ := funcPush_ok hf
    have hid1 : wd1.id = wd.id := by rcases hcase with ⟨_, _, rfl⟩ | ⟨_, _, rfl⟩ <;> rfl
    refine ⟨g1, rt1, hid1, ?_⟩
    intro acc acc1 hden
    simp only [denWStep] at hden
    obtain ⟨t, ht, hacc⟩ := Option.map_eq_some_iff.mp hden
    cases hacc
    refine ⟨[], by simp, List.Pairwise.nil, by simp, ?_⟩
    intro ρ RL _ _ _ _ hsim hI hE _
    obtain ⟨hsim1, kp⟩ := k1 ρ acc.1 t hsim ht
    rcases hcase with ⟨rfl, hfrM, rfl⟩ | ⟨rfl, hfrM, rfl⟩
    · simp only [if_true]
      exact ⟨hsim1, kp _ _ n hI hfrM, hE.mono g1⟩
    · simp only [Bool.false_eq_true, if_false]
      exact ⟨hsim1, hI.mono g1, kp _ _ n hE hfrM⟩
  | externIface imp n items =>
    obtain ⟨i, hd, hcase⟩ := worldStep_externIface h
    obtain ⟨g1, rt1, sc1, k1⟩ := ifacePush_ok hd
    have hid1 : wd1.id = wd.id := by rcases hcase with ⟨_, _, rfl⟩ | ⟨_, _, rfl⟩ <;> rfl
    refine ⟨g1, rt1, hid1, ?_⟩
    intro acc acc1 hden
    simp only [denWStep] at hden
    obtain ⟨ne, hne, hacc⟩ := Option.map_eq_some_iff.mp hden
    obtain ⟨next', ex⟩ := ne
    cases hacc
    obtain ⟨newR, hn, hp, hr, kk⟩ := k1 env.ifaces acc.1.next next' ex hne
    refine ⟨newR, hn, hp, hr, ?_⟩
    intro ρ RL hRL hcons hrs _ hsim hI hE hfr
    have hnd : (ex.map (·.1)).Nodup := by
      simp only [stepFreshB, hne] at hfr
      exact of_decide_eq_true hfr
    have kp := kk ρ RL hRL hcons hrs hnd
    have hsim1 : Sim ρ st1.types st1.scope acc.1.binds := by rw [sc1]; exact hsim.mono g1
    rcases hcase with ⟨rfl, hfrM, rfl⟩ | ⟨rfl, hfrM, rfl⟩
    · simp only [if_true]
      exact ⟨hsim1, kp _ _ n hI hfrM, hE.mono g1⟩
    · simp only [Bool.false_eq_true, if_false]
      exact ⟨hsim1, hI.mono g1, kp _ _ n hE hfrM⟩
  | «include» wn withs =>
    simp only [worldStep] at h
    cases h
    refine ⟨Grow.refl _, rfl, rfl, ?_⟩
    intro acc acc1 hden
    simp only [denWStep] at hden
    cases hden
    exact ⟨[], by simp, List.Pairwise.nil, by simp, fun _ _ _ _ _ _ hsim hI hE _ => ⟨hsim, hI, hE⟩⟩

/-- the first pass over a world body: imports and exports item by item -/
theorem worldItems_ok (env : Env) :
    ∀ (items : List WItem) (st st' : St) (wd wd' : World),
      worldItems st items wd = .ok (st', wd') →
      Grow st.types st'.types ∧ st'.root = st.root ∧ wd'.id = wd.id ∧
      ∀ (acc res : Scope × WorldD), items.foldlM (denWStep env) acc = some res →
        ∃ newR : List Nat, res.1.next = acc.1.next + newR.length ∧ newR.Pairwise (· < ·) ∧
          (∀ x ∈ newR, st.types.resources.length ≤ x ∧ x < st'.types.resources.length) ∧
          ∀ (ρ : Nat → Res) (RL : List Nat), RL.length = acc.1.next → ConsE ρ (RL ++ newR) st'.types →
            RootSim ρ st.types st.root env.ifaces → RootInst ρ st.types st.root env.ifaces env.ids →
            Sim ρ st.types st.scope acc.1.binds →
            ExpRel ρ st.types wd.imports acc.2.imports → ExpRel ρ st.types wd.exports acc.2.exports →
            worldFreshB env acc items = true →
            Sim ρ st'.types st'.scope res.1.binds ∧
            ExpRel ρ st'.types wd'.imports res.2.imports ∧ ExpRel ρ st'.types wd'.exports res.2.exports := by
  intro items
  induction items with
  | nil =>
    intro st st' wd wd' h
    simp only [worldItems] at h
    cases h
    refine ⟨Grow.refl _, rfl, rfl, ?_⟩
    intro acc res hfold
    simp only [List.foldlM_nil, Option.pure_def, Option.some.injEq] at hfold
    subst hfold
    exact ⟨[], by simp, List.Pairwise.nil, by simp, fun _ _ _ _ _ _ hsim hI hE _ => ⟨hsim, hI, hE⟩⟩
  | cons i r ih =>
    intro st st' wd wd' h
    rw [worldItems_cons] at h
    cases hstep : worldStep st i wd with
    | error e => rw [hstep] at h; cases h
    | ok si =>
      obtain ⟨st1, wd1⟩ := si
      rw [hstep] at h
      simp only at h
      obtain ⟨g1, rt1, id1, k1⟩ := worldStep_ok env hstep
      obtain ⟨g2, rt2, id2, k2⟩ := ih _ _ _ _ h
      refine ⟨g1.trans g2, rt2.trans rt1, id2.trans id1, ?_⟩
      intro acc res hfold
      simp only [List.foldlM_cons, Option.bind_eq_bind] at hfold
      obtain ⟨acc1, h1, h2⟩ := Option.bind_eq_some_iff.mp hfold
      obtain ⟨newR1, hn1, hp1, hr1, kk1⟩ := k1 acc acc1 h1
      obtain ⟨newR2, hn2, hp2, hr2, kk2⟩ := k2 acc1 res h2
      have hl1 := g1.ext.resources_len
      have hl2 := g2.ext.resources_len
      refine ⟨newR1 ++ newR2, by simp [hn2, hn1]; omega, ?_, ?_, ?_⟩
      · rw [List.pairwise_append]
        refine ⟨hp1, hp2, ?_⟩
        intro a ha b hb
        have := (hr1 a ha).2
        have := (hr2 b hb).1
        omega
      · intro x hx
        rcases List.mem_append.mp hx with hx | hx
        · have := hr1 x hx; omega
        · have := hr2 x hx; omega
      intro ρ RL hRL hcons hrs hri hsim hI hE hfr
      simp only [worldFreshB, h1, Bool.and_eq_true] at hfr
      have hcons1 : ConsE ρ (RL ++ newR1) st1.types :=
        ConsE.back (RL' := RL ++ (newR1 ++ newR2)) hcons g2 (fun k idx hk => by
          rw [← List.append_assoc]; exact prefix_append_getElem? _ _ _ _ hk)
      obtain ⟨hsim1, hI1, hE1⟩ := kk1 ρ RL hRL hcons1 hrs hri hsim hI hE hfr.1
      have hrs1 : RootSim ρ st1.types st1.root env.ifaces := by rw [rt1]; exact hrs.mono g1
      have hri1 : RootInst ρ st1.types st1.root env.ifaces env.ids := by rw [rt1]; exact hri.mono g1
      exact kk2 ρ (RL ++ newR1) (by simp [hRL, hn1]) (by rw [List.append_assoc]; exact hcons) hrs1 hri1
        hsim1 hI1 hE1 hfr.2

end Wac.Elab
