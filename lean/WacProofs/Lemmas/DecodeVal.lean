import WacProofs.Lemmas.DecodeDefined
/-
  C08 `decode_tree`, part 4: `component_defined_type`, `component_val_type`, `component_func_type`
  keep the cache invariant and return ids that denote the validator's trees.
-/
namespace Wac.Decode
open Wac Wac.Spec.Decode

variable {w : WTypes} {ρ : Nat → Res} {oi ow : List Nat} {c : Nat}

theorem Frame.ofCacheInsert (st : St) (k : WKey) (e : Entity) : Frame st (cacheInsert st k e) :=
  ⟨Ext.refl _ _ _, Nat.le_refl _, fun _ _ h => h⟩

theorem RV_stable : Stable (RV w ρ oi ow c) := fun _ _ _ _ hf h => h.mono hf

theorem valType_good_of {fuel : Nat}
    (hd : Good (Inv w ρ oi ow c) (definedType w fuel) (fun st d v => RV w ρ oi ow c st (.ty d) v)) :
    Good (Inv w ρ oi ow c) (valType w fuel) (RV w ρ oi ow c) := by
  intro st x st' y h
  cases x with
  | prim p =>
    simp only [valType] at h
    cases h
    exact ⟨Frame.refl _, fun hP => ⟨hP, RV_prim _ _⟩⟩
  | ty d => exact hd _ _ _ _ h

/-- one converted child: `list`, `option`, `fixed-size list` -/
theorem one_child {st : St} {x : WVal} {v : ValueType} (r1 : RV w ρ oi ow c st x v)
    {g : Nat} {tt : Tree} {mk : Tree → Tree} {mk' : Tree → Tree}
    (hmk : ∀ t, renT ρ (mk t) = mk' (renT ρ t))
    (ht : (valTree w g x).map mk = some tt) {T' : Types} {F : Nat} (he : Ext oi ow st.types T')
    (hF : bnd c st + 1 ≤ F) : (Types.unfoldVT T' F v).map mk' = some (renT ρ tt) := by
  obtain ⟨t1, hc, rfl⟩ := Option.map_eq_some_iff.mp ht
  rw [r1 g t1 hc T' F he hF, hmk]; rfl

/-- one optional converted child: `stream`, `future` -/
theorem one_opt_child {st : St} {x : Option WVal} {v : Option ValueType} (r1 : ROpt (RV w ρ oi ow c st) x v)
    {g : Nat} {tt : Tree} {mk : Tree → Tree} {mk' : Tree → Tree}
    (hmk : ∀ t, renT ρ (mk t) = mk' (renT ρ t))
    (ht : (optTree (valTree w g) x).map mk = some tt) {T' : Types} {F : Nat} (he : Ext oi ow st.types T')
    (hF : bnd c st + 1 ≤ F) : (unfoldOpt (Types.unfoldVT T' F) v).map mk' = some (renT ρ tt) := by
  obtain ⟨t1, hc, rfl⟩ := Option.map_eq_some_iff.mp ht
  rw [optTree_fact r1 g t1 hc T' F he hF, hmk]; rfl

theorem leaf_eq {w : WTypes} {r : Nat} {l : Res} (h : leaf w r = some l) :
    ∃ e, w.res[r]? = some e ∧ l.idx = e.base := by
  unfold leaf at h
  obtain ⟨e, he, rfl⟩ := Option.map_eq_some_iff.mp h
  exact ⟨e, he, rfl⟩

theorem definedType_good (hn : NamesOk w) :
    ∀ fuel, Good (Inv w ρ oi ow c) (definedType w fuel) (fun st d v => RV w ρ oi ow c st (.ty d) v)
  | 0 => by intro st d st' v h; simp [definedType] at h
  | fuel + 1 => by
    have ihd := definedType_good hn fuel
    have ihv := valType_good_of ihd
    intro st d st' v h
    rw [definedType_succ] at h
    split at h
    · rename_i v0 hl
      cases h
      exact ⟨Frame.refl _, fun hP => ⟨hP, hP.defined d _ hl⟩⟩
    · cases h
    · split at h
      · cases h
      · rename_i e he
        have hok := hn.1 e (List.mem_of_getElem? he)
        split at h
        · -- prim
          rename_i p hb
          refine ⟨finishDef_frame h, fun hP => ?_⟩
          exact finishDef_ok hP (by
            intro g tt ht T' F he' hF
            obtain ⟨g', rfl⟩ := valTree_pos ht
            simp only [valTree, he, hb] at ht
            cases ht
            obtain ⟨F', rfl⟩ : ∃ F', F = F' + 1 := ⟨F - 1, by omega⟩
            rfl) h
        · -- record
          rename_i fs hb
          split at h
          · rename_i st1 fs' hl
            obtain ⟨f1, k1⟩ := loopM_good (namedM_good ihv) (Stable.named RV_stable) _ _ _ _ hl
            have hnd : (fs'.map (·.1)).Nodup := by
              rw [loopM_named_fst hl]
              rw [hb] at hok
              exact of_decide_eq_true hok
            rw [collectMap_nodup _ hnd] at h
            refine ⟨f1.trans (finishDef_frame h), fun hP => ?_⟩
            obtain ⟨p1, r1⟩ := k1 hP
            exact finishDef_ok p1 (by
              intro g tt ht T' F he' hF
              obtain ⟨g', rfl⟩ := valTree_pos ht
              simp only [valTree, he, hb] at ht
              obtain ⟨fr, hc, rfl⟩ := Option.map_eq_some_iff.mp ht
              simp only [unfoldDefined, namedTrees_fact r1 g' fr hc T' F he' hF]; rfl) h
          · cases h
          · cases h
        · -- variant
          rename_i cs hb
          split at h
          · rename_i st1 cs' hl
            obtain ⟨f1, k1⟩ := loopM_good (namedM_good (optM_good ihv))
              (Stable.named (Stable.opt RV_stable)) _ _ _ _ hl
            have hnd : (cs'.map (·.1)).Nodup := by
              rw [loopM_named_fst hl]
              rw [hb] at hok
              exact of_decide_eq_true hok
            rw [collectMap_nodup _ hnd] at h
            refine ⟨f1.trans (finishDef_frame h), fun hP => ?_⟩
            obtain ⟨p1, r1⟩ := k1 hP
            exact finishDef_ok p1 (by
              intro g tt ht T' F he' hF
              obtain ⟨g', rfl⟩ := valTree_pos ht
              simp only [valTree, he, hb] at ht
              obtain ⟨fr, hc, rfl⟩ := Option.map_eq_some_iff.mp ht
              simp only [unfoldDefined, namedOptTrees_fact r1 g' fr hc T' F he' hF]; rfl) h
          · cases h
          · cases h
        · -- list
          rename_i t hb
          split at h
          · rename_i st1 v1 hv1
            obtain ⟨f1, k1⟩ := ihv _ _ _ _ hv1
            refine ⟨f1.trans (finishDef_frame h), fun hP => ?_⟩
            obtain ⟨p1, r1⟩ := k1 hP
            exact finishDef_ok p1 (by
              intro g tt ht T' F he' hF
              obtain ⟨g', rfl⟩ := valTree_pos ht
              simp only [valTree, he, hb] at ht
              exact one_child r1 (mk' := .list) (fun _ => by simp [renT]) ht he' hF) h
          · cases h
          · cases h
        · -- tuple
          rename_i ts hb
          split at h
          · rename_i st1 vs hl
            obtain ⟨f1, k1⟩ := loopM_good ihv RV_stable _ _ _ _ hl
            refine ⟨f1.trans (finishDef_frame h), fun hP => ?_⟩
            obtain ⟨p1, r1⟩ := k1 hP
            exact finishDef_ok p1 (by
              intro g tt ht T' F he' hF
              obtain ⟨g', rfl⟩ := valTree_pos ht
              simp only [valTree, he, hb] at ht
              obtain ⟨fr, hc, rfl⟩ := Option.map_eq_some_iff.mp ht
              simp only [unfoldDefined, unnamedTrees_fact r1 g' fr hc T' F he' hF]; rfl) h
          · cases h
          · cases h
        · -- flags
          rename_i ns hb
          rw [hb] at hok
          rw [collectSet_nodup _ (of_decide_eq_true hok)] at h
          refine ⟨finishDef_frame h, fun hP => ?_⟩
          exact finishDef_ok hP (by
            intro g tt ht T' F he' hF
            obtain ⟨g', rfl⟩ := valTree_pos ht
            simp only [valTree, he, hb] at ht
            cases ht
            rfl) h
        · -- enum
          rename_i ns hb
          rw [hb] at hok
          rw [collectSet_nodup _ (of_decide_eq_true hok)] at h
          refine ⟨finishDef_frame h, fun hP => ?_⟩
          exact finishDef_ok hP (by
            intro g tt ht T' F he' hF
            obtain ⟨g', rfl⟩ := valTree_pos ht
            simp only [valTree, he, hb] at ht
            cases ht
            rfl) h
        · -- option
          rename_i t hb
          split at h
          · rename_i st1 v1 hv1
            obtain ⟨f1, k1⟩ := ihv _ _ _ _ hv1
            refine ⟨f1.trans (finishDef_frame h), fun hP => ?_⟩
            obtain ⟨p1, r1⟩ := k1 hP
            exact finishDef_ok p1 (by
              intro g tt ht T' F he' hF
              obtain ⟨g', rfl⟩ := valTree_pos ht
              simp only [valTree, he, hb] at ht
              exact one_child r1 (mk' := .option) (fun _ => by simp [renT]) ht he' hF) h
          · cases h
          · cases h
        · -- result
          rename_i ok err hb
          split at h
          · rename_i st1 a ha
            obtain ⟨f1, k1⟩ := optM_good ihv _ _ _ _ ha
            split at h
            · rename_i st2 b hb2
              obtain ⟨f2, k2⟩ := optM_good ihv _ _ _ _ hb2
              refine ⟨(f1.trans f2).trans (finishDef_frame h), fun hP => ?_⟩
              obtain ⟨p1, r1⟩ := k1 hP
              obtain ⟨p2, r2⟩ := k2 p1
              have r1' := Stable.opt RV_stable _ _ _ _ f2 r1
              exact finishDef_ok p2 (by
                intro g tt ht T' F he' hF
                obtain ⟨g', rfl⟩ := valTree_pos ht
                simp only [valTree, he, hb] at ht
                split at ht
                · rename_i ta tb hta htb
                  cases ht
                  simp only [unfoldDefined, optTree_fact r1' g' ta hta T' F he' hF,
                    optTree_fact r2 g' tb htb T' F he' hF]; rfl
                · cases ht) h
            · cases h
            · cases h
          · cases h
          · cases h
        · -- borrow
          rename_i r hb
          split at h
          · rename_i id hl
            cases h
            refine ⟨Frame.ofCacheInsert _ _ _, fun hP => ?_⟩
            have hrv : RV w ρ oi ow c st (.ty d) (.borrow id) := by
              intro g tt ht T' F he' hF
              obtain ⟨g', rfl⟩ := valTree_pos ht
              simp only [valTree, he, hb] at ht
              obtain ⟨l, hc, rfl⟩ := Option.map_eq_some_iff.mp ht
              obtain ⟨e1, he1, hidx⟩ := leaf_eq hc
              obtain ⟨e2, he2, hl2⟩ := hP.res r id hl
              rw [he1] at he2; cases he2
              obtain ⟨F', rfl⟩ : ∃ F', F = F' + 1 := ⟨F - 1, by omega⟩
              simp only [Types.unfoldVT, hl2 T' he', renT, hidx]; rfl
            exact ⟨hP.insertDefined d _ hrv, hrv⟩
          · cases h
        · -- own
          rename_i r hb
          split at h
          · rename_i id hl
            cases h
            refine ⟨Frame.ofCacheInsert _ _ _, fun hP => ?_⟩
            have hrv : RV w ρ oi ow c st (.ty d) (.own id) := by
              intro g tt ht T' F he' hF
              obtain ⟨g', rfl⟩ := valTree_pos ht
              simp only [valTree, he, hb] at ht
              obtain ⟨l, hc, rfl⟩ := Option.map_eq_some_iff.mp ht
              obtain ⟨e1, he1, hidx⟩ := leaf_eq hc
              obtain ⟨e2, he2, hl2⟩ := hP.res r id hl
              rw [he1] at he2; cases he2
              obtain ⟨F', rfl⟩ : ∃ F', F = F' + 1 := ⟨F - 1, by omega⟩
              simp only [Types.unfoldVT, hl2 T' he', renT, hidx]; rfl
            exact ⟨hP.insertDefined d _ hrv, hrv⟩
          · cases h
        · -- stream
          rename_i t hb
          split at h
          · rename_i st1 v1 hv1
            obtain ⟨f1, k1⟩ := optM_good ihv _ _ _ _ hv1
            refine ⟨f1.trans (finishDef_frame h), fun hP => ?_⟩
            obtain ⟨p1, r1⟩ := k1 hP
            exact finishDef_ok p1 (by
              intro g tt ht T' F he' hF
              obtain ⟨g', rfl⟩ := valTree_pos ht
              simp only [valTree, he, hb] at ht
              exact one_opt_child r1 (mk' := .stream) (fun _ => by simp [renT]) ht he' hF) h
          · cases h
          · cases h
        · -- future
          rename_i t hb
          split at h
          · rename_i st1 v1 hv1
            obtain ⟨f1, k1⟩ := optM_good ihv _ _ _ _ hv1
            refine ⟨f1.trans (finishDef_frame h), fun hP => ?_⟩
            obtain ⟨p1, r1⟩ := k1 hP
            exact finishDef_ok p1 (by
              intro g tt ht T' F he' hF
              obtain ⟨g', rfl⟩ := valTree_pos ht
              simp only [valTree, he, hb] at ht
              exact one_opt_child r1 (mk' := .future) (fun _ => by simp [renT]) ht he' hF) h
          · cases h
          · cases h
        · -- fixed-size list
          rename_i t n hb
          split at h
          · rename_i st1 v1 hv1
            obtain ⟨f1, k1⟩ := ihv _ _ _ _ hv1
            refine ⟨f1.trans (finishDef_frame h), fun hP => ?_⟩
            obtain ⟨p1, r1⟩ := k1 hP
            exact finishDef_ok p1 (by
              intro g tt ht T' F he' hF
              obtain ⟨g', rfl⟩ := valTree_pos ht
              simp only [valTree, he, hb] at ht
              exact one_child r1 (mk' := (.fixedList · n)) (fun _ => by simp [renT]) ht he' hF) h
          · cases h
          · cases h
        · cases h

theorem valType_good (hn : NamesOk w) (fuel : Nat) :
    Good (Inv w ρ oi ow c) (valType w fuel) (RV w ρ oi ow c) :=
  valType_good_of (definedType_good hn fuel)

end Wac.Decode
