import WacProofs.Lemmas.PrinterLayoutDecls
import WacProofs.Lemmas.PrinterLayoutExpr
/-
  C13, layout layer, assembly: lexing the text the printer model writes for a well-formed document
  gives exactly the token sequence of the token-level printer.

  Pieces: `PrinterLexRegex` (one token in front of a stopping text), `PrinterLexStream` (the
  stream, gaps and doc comments), `PrinterLayoutBase`/`Lits` (the invariant `Inv` and its rules),
  `PrinterLayoutTypes`/`Decls`/`Expr` (one lemma per printer function).
-/
namespace Wac.Lemmas.PrinterLayout
open Wac Wac.Ast Wac.Lex Wac.Print Wac.PrintTok Wac.Lemmas.PrinterLex

/-- `import_type` -/
theorem importType_inv (t : ImportType) (hw : t.wf = true) {p : PS} {ts : List PTok}
    (h : Inv p ts [] sAny) :
    Inv (Print.importType p t) (ts ++ PrintTok.importType t) [] stopWP := by
  cases t with
  | Package path =>
    have hp : path.wf = true := by simpa [ImportType.wf] using hw
    exact (stopWP_le_stopP (h.pkgPath path hp wordOK_sAny)).cast
      (by simp [Print.importType, Print.packagePath]) (by simp [PrintTok.importType, PrintTok.packagePath])
  | Func f =>
    have hf : f.wf = true := by simpa [ImportType.wf] using hw
    exact (stopWP_le_stopW (funcType_inv f hf h wordOK_sAny)).cast (by simp [Print.importType])
      (by simp [PrintTok.importType])
  | Interface i =>
    have hi : i.wf = true := by simpa [ImportType.wf] using hw
    exact (stopWP_le_sAny (inlineInterface_inv i hi h wordOK_sAny)).cast (by simp [Print.importType])
      (by simp [PrintTok.importType])
  | Ident id =>
    have hi : id.wf = true := by simpa [ImportType.wf] using hw
    exact (stopWP_le_stopW (h.ident id hi wordOK_sAny)).cast (by simp [Print.importType])
      (by simp [PrintTok.importType, PrintTok.ident])

/-- `layout_tokens`: the printed text of a well-formed document lexes to the tokens of the
token-level printer (kinds, texts, and the doc-comment lines in front of each token) -/
theorem layout_tokens (d : Document) (hw : d.wf = true) :
    tokenizeE (Print.document d) = printTokens d :=
  layout_tokens_of_wf d hw (fun t ht _ _ h => importType_inv t ht h)
    (fun t ht _ _ h => typeStatement_inv t ht h)

end Wac.Lemmas.PrinterLayout
