import WacProofs.Lemmas.EncodeImports
import WacModel.Spec.EncodeWF
/-
  Invariants of the name-level aggregator model (`Agg.aggregate`) along import resolution:
  the import names stay distinct (`IndexMap` keys).
-/
namespace Wac
open Wac.Spec

theorem amGet_none_not_mem {β} {m : List (Str × β)} {k : Str} (h : amGet m k = none) : k ∉ m.map (·.1) := by
  induction m with
  | nil => simp
  | cons e m ih =>
    rw [amGet_cons'] at h
    by_cases he : e.1 = k
    · simp [he] at h
    · simp only [he, ↓reduceIte] at h
      simp only [List.map_cons, List.mem_cons, not_or]
      exact ⟨fun e' => he e'.symm, ih h⟩

theorem register_imports (a : Agg) (ty : ItemTy) : (a.register ty).imports = a.imports := rfl

theorem aggregate_keysNodup {a a' : Agg} {name : Str} {ty : ItemTy} (h : (a.imports.map (·.1)).Nodup)
    (ha : a.aggregate name ty = some a') : (a'.imports.map (·.1)).Nodup := by
  unfold Agg.aggregate at ha
  simp only at ha
  cases hq : amGet (a.register ty).imports name with
  | some ex =>
    simp only [hq] at ha
    split at ha
    · injection ha with ha; rw [← ha, register_imports]; exact h
    · cases ha
  | none =>
    simp only [hq] at ha
    have hnm : name ∉ a.imports.map (·.1) := by
      rw [register_imports] at hq; exact amGet_none_not_mem hq
    cases hc : (a.register ty).findCompat name with
    | none =>
      simp only [hc] at ha
      injection ha with ha
      rw [← ha]
      simp only [register_imports, List.map_append, List.map_cons, List.map_nil]
      exact List.nodup_append.mpr ⟨h, by simp, by
        intro x hx y hy
        simp only [List.mem_singleton] at hy
        subst hy
        exact fun e => hnm (e ▸ hx)⟩
    | some pr =>
      obtain ⟨exName, exTy⟩ := pr
      simp only [hc] at ha
      split at ha
      · cases ha
      · split at ha
        · split at ha
          · injection ha with ha
            rw [← ha]
            simp only [register_imports, List.map_append, List.map_cons, List.map_nil]
            have hsub : ((a.imports.filter fun e => e.1 != exName).map (·.1)).Sublist (a.imports.map (·.1)) :=
              (List.filter_sublist).map _
            refine List.nodup_append.mpr ⟨hsub.nodup h, by simp, ?_⟩
            intro x hx y hy
            simp only [List.mem_singleton] at hy
            subst hy
            exact fun e => hnm (e ▸ hsub.subset hx)
          · injection ha with ha; rw [← ha]; exact h
        · injection ha with ha; rw [← ha, register_imports]; exact h

theorem resolveArgs_keysNodup {g : GraphVal} {inst : Nat} (reqs : List ImportReq) {r r' : Resolved}
    (h : (r.agg.imports.map (·.1)).Nodup) (he : resolveArgs g inst reqs r = .ok r') :
    (r'.agg.imports.map (·.1)).Nodup := by
  induction reqs generalizing r with
  | nil => simp only [resolveArgs] at he; injection he with he; rw [← he]; exact h
  | cons q reqs ih =>
    simp only [resolveArgs] at he
    cases hi : g.importNode? q.name with
    | some i => simp [hi] at he
    | none =>
      simp only [hi] at he
      cases ha : r.agg.aggregate q.name q.ty with
      | none => simp [ha] at he
      | some a' =>
        simp only [ha] at he
        exact ih (aggregate_keysNodup h ha) he

theorem resolveInsts_keysNodup {g : GraphVal} (nodes : List Node) {r r' : Resolved}
    (h : (r.agg.imports.map (·.1)).Nodup) (he : resolveInsts g nodes r = .ok r') :
    (r'.agg.imports.map (·.1)).Nodup := by
  induction nodes generalizing r with
  | nil => simp only [resolveInsts] at he; injection he with he; rw [← he]; exact h
  | cons n nodes ih =>
    simp only [resolveInsts] at he
    cases hk : n.kind with
    | instantiation slot sat =>
      simp only [hk] at he
      cases hp : g.pkg? slot with
      | none => simp [hp] at he
      | some p =>
        simp only [hp] at he
        cases ha : resolveArgs g n.id (unsatisfied p sat) r with
        | ok r1 => simp only [ha] at he; exact ih (resolveArgs_keysNodup _ h ha) he
        | error e => simp [ha] at he
        | panic s => simp [ha] at he
    | «import» nm => simp only [hk] at he; exact ih h he
    | alias => simp only [hk] at he; exact ih h he
    | definition => simp only [hk] at he; exact ih h he

theorem resolveExplicit_keysNodup {g : GraphVal} {first : List (Str × Nat)} (ns : List Nat) {a a' : Agg}
    {ex ex' : List (Str × Nat)} (h : (a.imports.map (·.1)).Nodup)
    (he : resolveExplicit g first ns a ex = .ok (a', ex')) : (a'.imports.map (·.1)).Nodup := by
  induction ns generalizing a ex with
  | nil =>
    simp only [resolveExplicit] at he
    injection he with he
    injection he with h1 _
    rw [← h1]; exact h
  | cons n ns ih =>
    simp only [resolveExplicit] at he
    cases hn : g.node? n with
    | none => simp [hn] at he
    | some nd =>
      simp only [hn] at he
      cases hk : nd.kind with
      | «import» name =>
        simp only [hk] at he
        cases hagg : a.aggregate name nd.ty with
        | none => simp [hagg] at he
        | some a1 => simp only [hagg] at he; exact ih (aggregate_keysNodup h hagg) he
      | instantiation slot sat => simp only [hk] at he; exact ih h he
      | alias => simp only [hk] at he; exact ih h he
      | definition => simp only [hk] at he; exact ih h he

/-- the import names of the aggregation the model computes are distinct -/
theorem aggOf_keysNodup {g : GraphVal} {importNodes : List Nat} {agg : Agg} (h : aggOf g importNodes = some agg) :
    (agg.imports.map (·.1)).Nodup := by
  unfold aggOf at h
  cases hr : resolveInsts g g.nodes {} with
  | error e => simp [hr] at h
  | panic s => simp [hr] at h
  | ok r =>
    simp only [hr] at h
    cases hx : resolveExplicit g r.first importNodes r.agg [] with
    | error e => simp [hx] at h
    | panic s => simp [hx] at h
    | ok ae =>
      obtain ⟨a, ex⟩ := ae
      simp only [hx, Option.some.injEq] at h
      subst h
      exact resolveExplicit_keysNodup _ (resolveInsts_keysNodup _ (by simp) hr) hx

end Wac
