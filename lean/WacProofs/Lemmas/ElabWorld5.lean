import WacProofs.Lemmas.ElabWorld4
/-
  C05 `elab_denotes`, part 17 (worlds): the whole package — the renaming `ρ` read off the run, the
  interface phase and the world phase put together.
-/
namespace Wac.Elab
open Wac Wac.Spec.Wit Wac.Decode

set_option linter.unusedSimpArgs false

theorem All2_get {α β : Type} {R : α → β → Prop} : ∀ {xs : List α} {ys : List β}, All2 R xs ys →
    ∀ (k : Nat) (x : α) (y : β), xs[k]? = some x → ys[k]? = some y → R x y
  | [], [], _, k, _, _, hx, _ => by simp at hx
  | _ :: _, _ :: _, ⟨h1, h2⟩, k, x, y, hx, hy => by
    cases k with
    | zero =>
      simp only [List.getElem?_cons_zero, Option.some.injEq] at hx hy
      subst hx; subst hy
      exact h1
    | succ k =>
      simp only [List.getElem?_cons_succ] at hx hy
      exact All2_get h2 k x y hx hy
  | [], _ :: _, hf, _, _, _, _, _ => hf.elim
  | _ :: _, [], hf, _, _, _, _, _ => hf.elim

/-- interfaces and worlds of a single-package source, all kinds of items -/
theorem elabPkgAll_ok (p : Pkg) (T : Types) (env : Env)
    (h : elabPkg p = .ok T) (hd : denotePkg [] 0 p = some env)
    (hkeys : (p.ifaces.flatMap (fun ni => [ni.1, p.idOf ni.1])).Nodup)
    (hnd : ∀ nx ∈ env.ifaces, (nx.2.map (·.1)).Nodup)
    (hfresh : pkgWorldsFreshB p = true) :
    ∃ (ρ : Nat → Res) (resI : List (Nat × List (Str × Tree))) (resW : List (Nat × WorldD)),
      (∀ a b, (ρ a).idx = (ρ b).idx → a = b) ∧
      resI.length = p.ifaces.length ∧ resW.length = p.worlds.length ∧
      env.ifaces = (List.zip p.ifaces resI).flatMap (fun x => [(x.1.1, x.2.2), (p.idOf x.1.1, x.2.2)]) ∧
      env.worlds = (List.zip p.worlds resW).map (fun x => (x.1.1, x.2.2)) ∧
      (∀ ie ∈ resI, T.unfold (.instance ie.1) = some (renT ρ (.instance (Forest.ofList ie.2)))) ∧
      (∀ we ∈ resW, T.unfold (.component we.1) =
        some (renT ρ (.component (Forest.ofList we.2.imports) (Forest.ofList we.2.exports)))) ∧
      (∀ (k : Nat) (nw : Str × List WItem) (we : Nat × WorldD), p.worlds[k]? = some nw → resW[k]? = some we →
        ∃ wd, T.worlds[we.1]? = some wd ∧ wd.id = some (p.idOf nw.1)) := by
  obtain ⟨stI, st, hstI, hst, rfl⟩ := elabPkg_split p T h
  obtain ⟨envI, hdI, hdW⟩ := denotePkg_split p env hd
  obtain ⟨gI, _, hwI, hnwI, newRI, resI, hnI, hpI, hrI, henvI, kkI⟩ := elabIfacesW_ok p p.ifaces _ _ _ _ hstI hdI
  obtain ⟨gW, _, hifW, newRW, resW, hnW, hpW, hrW, henvW, kkW⟩ := elabWorlds_ok p p.worlds _ _ _ _ hst hdW
  have hlI : stI.types.resources.length ≤ st.types.resources.length := gW.ext.resources_len
  have hp : (newRI ++ newRW).Pairwise (· < ·) := by
    rw [List.pairwise_append]
    refine ⟨hpI, hpW, ?_⟩
    intro a ha b hb
    have := (hrI a ha).2
    have := (hrW b hb).1
    omega
  have hr : ∀ x ∈ newRI ++ newRW, x < st.types.resources.length := by
    intro x hx
    rcases List.mem_append.mp hx with hx | hx
    · have := (hrI x hx).2; omega
    · exact (hrW x hx).2
  have hcons : ConsE (rhoE st.types (newRI ++ newRW)) ([] ++ (newRI ++ newRW)) st.types := consE_rhoE _ _
  have hconsI : ConsE (rhoE st.types (newRI ++ newRW)) ([] ++ newRI) stI.types :=
    ConsE.back hcons gW (fun k idx hk => by
      simp only [List.nil_append] at hk ⊢
      exact prefix_append_getElem? _ _ _ _ hk)
  have hndI : ∀ nx ∈ envI.ifaces, (nx.2.map (·.1)).Nodup := by rw [← hifW]; exact hnd
  obtain ⟨hrsI, hriI, hallI⟩ := kkI (rhoE st.types (newRI ++ newRW)) [] rfl hconsI
    (fun path i hpi => by simp [alGet] at hpi) (fun path i hpi => by simp [alGet] at hpi) rfl
    (by simpa using hkeys) hndI
  have hwsI : WorldSim (rhoE st.types (newRI ++ newRW)) stI.types stI.root envI.worlds := by
    refine ⟨?_, ?_⟩
    · intro wn o hp
      exact absurd hp (hnwI (fun wn o hpp => by simp [alGet] at hpp) wn o)
    · intro wn _
      rw [hwI]
      rfl
  have hfr : worldsFreshB envI p.worlds = true := by
    simp only [pkgWorldsFreshB, hdI] at hfresh
    exact hfresh
  have hallW := kkW (rhoE st.types (newRI ++ newRW)) newRI (by simp [hnI])
    (by simpa using hcons) hrsI hriI hwsI hfr
  refine ⟨rhoE st.types (newRI ++ newRW), resI, resW, rhoE_inj st.types _ hp hr, (All2_length hallI).symm,
    (All2_length hallW).symm, ?_, ?_, ?_, ?_, ?_⟩
  · rw [hifW, henvI]; simp
  · rw [henvW, hwI]; simp
  · exact All2_right (fun _ ie hk => hk st.types _ gW.ext
      (by rw [Types.fuel_eq]; have := gW.size; unfold kb vb; omega)) hallI
  · exact All2_right (fun _ we hk => hk.1 st.types _ (Ext.refl _ _ _)
      (by rw [Types.fuel_eq]; unfold kb vb; omega)) hallW
  · intro k nw we hk hwe
    exact (All2_get hallW k nw we hk hwe).2

/-- a world body of one item is one step -/
theorem worldItems_single (st : St) (wi : WItem) (wd : World) : worldItems st [wi] wd = worldStep st wi wd := by
  rw [worldItems_cons]
  cases worldStep st wi wd with
  | error e => rfl
  | ok si =>
    obtain ⟨st1, wd1⟩ := si
    simp [worldItems]

/-- first-occurrence numbering does not see the renaming: the executable form of "equal up to an
injective renaming of the resource leaves" -/
theorem canon_of_ren {ρ : Nat → Res} (hinj : ∀ a b, (ρ a).idx = (ρ b).idx → a = b) {x : Option Tree} {t : Tree}
    (h : x = some (renT ρ t)) : x.map Wac.Spec.Decode.canon = some (Wac.Spec.Decode.canon t) := by
  rw [h, Option.map_some, canon_ren hinj]

end Wac.Elab
