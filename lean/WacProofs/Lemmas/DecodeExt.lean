import WacProofs.Lemmas.Decode
/-
  C08 `decode_tree`, part 1: arena extension and *robust* unfolding facts.

  The converter allocates an interface / world *before* it converts its exports and fills the
  export list in afterwards (`component_instance_type`, `component_type`).  A fact
  "`k` unfolds to `t`" that was established while some interface is still open must survive the
  later modifications of that open interface.  Facts are therefore stated against every *future*
  arena: `HK oi ow T b k t` says that `k` unfolds to `t` with any fuel `≥ b` in every arena `T'`
  that extends `T` except (possibly) at the open interface ids `oi` and open world ids `ow`.
-/
namespace Wac.Decode
open Wac

/-- `T'` extends `T`: every entry of `T` is still there; resources keep name and alias target
(`clearSelfOwner` changes `alias.owner` only); interfaces and worlds keep their export/import lists
except the open ones (`oi`, `ow`), whose lists are still being filled in. -/
structure Ext (oi ow : List Nat) (T T' : Types) : Prop where
  uid : T'.uid = T.uid
  defined : ∀ (i : Nat) x, T.defined[i]? = some x → T'.defined[i]? = some x
  funcs : ∀ (i : Nat) x, T.funcs[i]? = some x → T'.funcs[i]? = some x
  modules : ∀ (i : Nat) x, T.modules[i]? = some x → T'.modules[i]? = some x
  resources : ∀ (i : Nat) x, T.resources[i]? = some x →
    ∃ x', T'.resources[i]? = some x' ∧ x'.name = x.name ∧
      x'.alias.map (·.source) = x.alias.map (·.source)
  interfaces : ∀ (i : Nat) x, i ∉ oi → T.interfaces[i]? = some x →
    ∃ x', T'.interfaces[i]? = some x' ∧ x'.exports = x.exports
  worlds : ∀ (i : Nat) x, i ∉ ow → T.worlds[i]? = some x →
    ∃ x', T'.worlds[i]? = some x' ∧ x'.imports = x.imports ∧ x'.exports = x.exports

theorem Ext.refl (oi ow : List Nat) (T : Types) : Ext oi ow T T :=
  ⟨rfl, fun _ _ h => h, fun _ _ h => h, fun _ _ h => h, fun _ x h => ⟨x, h, rfl, rfl⟩,
    fun _ x _ h => ⟨x, h, rfl⟩, fun _ x _ h => ⟨x, h, rfl, rfl⟩⟩

theorem Ext.trans {oi ow : List Nat} {T T' T'' : Types} (h1 : Ext oi ow T T') (h2 : Ext oi ow T' T'') :
    Ext oi ow T T'' := by
  refine ⟨h2.uid.trans h1.uid, fun i x h => h2.defined i x (h1.defined i x h),
    fun i x h => h2.funcs i x (h1.funcs i x h), fun i x h => h2.modules i x (h1.modules i x h), ?_, ?_, ?_⟩
  · intro i x h
    obtain ⟨x', hx', hn, ha⟩ := h1.resources i x h
    obtain ⟨x'', hx'', hn', ha'⟩ := h2.resources i x' hx'
    exact ⟨x'', hx'', hn'.trans hn, ha'.trans ha⟩
  · intro i x hi h
    obtain ⟨x', hx', he⟩ := h1.interfaces i x hi h
    obtain ⟨x'', hx'', he'⟩ := h2.interfaces i x' hi hx'
    exact ⟨x'', hx'', he'.trans he⟩
  · intro i x hi h
    obtain ⟨x', hx', he, hf⟩ := h1.worlds i x hi h
    obtain ⟨x'', hx'', he', hf'⟩ := h2.worlds i x' hi hx'
    exact ⟨x'', hx'', he'.trans he, hf'.trans hf⟩

/-- fewer open ids = a stronger extension -/
theorem Ext.weaken {oi ow oi' ow' : List Nat} {T T' : Types} (h : Ext oi ow T T')
    (hi : ∀ i, i ∈ oi → i ∈ oi') (hw : ∀ i, i ∈ ow → i ∈ ow') : Ext oi' ow' T T' :=
  ⟨h.uid, h.defined, h.funcs, h.modules, h.resources,
    fun i x hn hx => h.interfaces i x (fun hm => hn (hi i hm)) hx,
    fun i x hn hx => h.worlds i x (fun hm => hn (hw i hm)) hx⟩

theorem Ext.of_nil {oi ow : List Nat} {T T' : Types} (h : Ext [] [] T T') : Ext oi ow T T' :=
  h.weaken (fun _ hm => by cases hm) (fun _ hm => by cases hm)

theorem getElem?_lt_of_some {α : Type} {l : List α} {i : Nat} {a : α} (h : l[i]? = some a) : i < l.length := by
  rcases Nat.lt_or_ge i l.length with hlt | hge
  · exact hlt
  · rw [List.getElem?_eq_none hge] at h; cases h

theorem len_le_of_pointwise {α β : Type} {l : List α} {l' : List β}
    (h : ∀ (i : Nat) x, l[i]? = some x → ∃ y, l'[i]? = some y) : l.length ≤ l'.length := by
  rcases Nat.lt_or_ge l'.length l.length with hlt | hge
  · obtain ⟨y, hy⟩ := h l'.length l[l'.length] (List.getElem?_eq_getElem hlt)
    have := getElem?_lt_of_some hy
    omega
  · exact hge

theorem Ext.resources_len {oi ow : List Nat} {T T' : Types} (h : Ext oi ow T T') :
    T.resources.length ≤ T'.resources.length :=
  len_le_of_pointwise fun i x hx => by
    obtain ⟨x', hx', _⟩ := h.resources i x hx
    exact ⟨x', hx'⟩

/-! ### resource leaves survive extension -/

theorem resolveResource_ext {oi ow : List Nat} {T T' : Types} (h : Ext oi ow T T') :
    ∀ (n n' r s : Nat), n ≤ n' → T.resolveResource n r = some s → T'.resolveResource n' r = some s := by
  intro n
  induction n with
  | zero => intro n' r s _ hr; simp [Types.resolveResource] at hr
  | succ n ih =>
    intro n' r s hn hr
    cases n' with
    | zero => omega
    | succ n' =>
      unfold Types.resolveResource at hr ⊢
      split at hr
      · cases hr
      · rename_i res hres
        obtain ⟨res', hres', _, hsrc⟩ := h.resources r res hres
        simp only [hres']
        cases ha : res.alias with
        | none =>
          rw [ha] at hr hsrc
          simp only [Option.map_none, Option.map_eq_none_iff] at hsrc
          simp only at hr
          rw [hsrc]
          exact hr
        | some a =>
          rw [ha] at hr hsrc
          simp only [Option.map_some] at hsrc
          cases ha' : res'.alias with
          | none => rw [ha'] at hsrc; cases hsrc
          | some a' =>
            rw [ha'] at hsrc
            simp only [Option.map_some, Option.some.injEq] at hsrc
            simp only at hr ⊢
            rw [hsrc]
            exact ih n' _ _ (by omega) hr

theorem resLeaf_ext {oi ow : List Nat} {T T' : Types} (h : Ext oi ow T T') (r : Nat) (l : Res)
    (hl : T.resLeaf r = some l) : T'.resLeaf r = some l := by
  unfold Types.resLeaf at hl ⊢
  split at hl
  · cases hl
  · rename_i s hs
    have hs' := resolveResource_ext h _ (T'.resources.length + 1) r s (by have := h.resources_len; omega) hs
    rw [hs']
    simp only
    split at hl
    · cases hl
    · rename_i res hres
      obtain ⟨res', hres', hn, _⟩ := h.resources s res hres
      rw [hres']
      simp only
      rw [← hl, h.uid, hn]

/-! ### robust facts -/

/-- value type `v` unfolds to `t` in every future arena, with any fuel `≥ b` -/
def HV (oi ow : List Nat) (T : Types) (b : Nat) (v : ValueType) (t : Tree) : Prop :=
  ∀ T' F, Ext oi ow T T' → b ≤ F → T'.unfoldVT F v = some t

/-- function type `f` unfolds to `t` in every future arena -/
def HF (oi ow : List Nat) (T : Types) (b : Nat) (f : Nat) (t : Tree) : Prop :=
  ∀ T' F, Ext oi ow T T' → b ≤ F → T'.unfoldFunc F f = some t

/-- item kind `k` unfolds to `t` in every future arena -/
def HK (oi ow : List Nat) (T : Types) (b : Nat) (k : ItemKind) (t : Tree) : Prop :=
  ∀ T' F, Ext oi ow T T' → b ≤ F → T'.unfoldKind F k = some t

/-- resource id `r` is the leaf `l` in every future arena -/
def HL (oi ow : List Nat) (T : Types) (r : Nat) (l : Res) : Prop :=
  ∀ T', Ext oi ow T T' → T'.resLeaf r = some l

theorem HV.mono {oi ow : List Nat} {T T1 : Types} {b b1 : Nat} {v : ValueType} {t : Tree}
    (h : HV oi ow T b v t) (he : Ext oi ow T T1) (hb : b ≤ b1) : HV oi ow T1 b1 v t :=
  fun T' F h' hF => h T' F (he.trans h') (by omega)

theorem HF.mono {oi ow : List Nat} {T T1 : Types} {b b1 : Nat} {f : Nat} {t : Tree}
    (h : HF oi ow T b f t) (he : Ext oi ow T T1) (hb : b ≤ b1) : HF oi ow T1 b1 f t :=
  fun T' F h' hF => h T' F (he.trans h') (by omega)

theorem HK.mono {oi ow : List Nat} {T T1 : Types} {b b1 : Nat} {k : ItemKind} {t : Tree}
    (h : HK oi ow T b k t) (he : Ext oi ow T T1) (hb : b ≤ b1) : HK oi ow T1 b1 k t :=
  fun T' F h' hF => h T' F (he.trans h') (by omega)

theorem HL.mono {oi ow : List Nat} {T T1 : Types} {r : Nat} {l : Res}
    (h : HL oi ow T r l) (he : Ext oi ow T T1) : HL oi ow T1 r l :=
  fun T' h' => h T' (he.trans h')

/-- closing an interface / world: a fact that tolerates more open ids tolerates fewer -/
theorem HV.close {oi ow oi' ow' : List Nat} {T : Types} {b : Nat} {v : ValueType} {t : Tree}
    (h : HV oi' ow' T b v t) (hi : ∀ i, i ∈ oi → i ∈ oi') (hw : ∀ i, i ∈ ow → i ∈ ow') : HV oi ow T b v t :=
  fun T' F h' hF => h T' F (h'.weaken hi hw) hF

theorem HF.close {oi ow oi' ow' : List Nat} {T : Types} {b : Nat} {f : Nat} {t : Tree}
    (h : HF oi' ow' T b f t) (hi : ∀ i, i ∈ oi → i ∈ oi') (hw : ∀ i, i ∈ ow → i ∈ ow') : HF oi ow T b f t :=
  fun T' F h' hF => h T' F (h'.weaken hi hw) hF

theorem HK.close {oi ow oi' ow' : List Nat} {T : Types} {b : Nat} {k : ItemKind} {t : Tree}
    (h : HK oi' ow' T b k t) (hi : ∀ i, i ∈ oi → i ∈ oi') (hw : ∀ i, i ∈ ow → i ∈ ow') : HK oi ow T b k t :=
  fun T' F h' hF => h T' F (h'.weaken hi hw) hF

theorem HL.close {oi ow oi' ow' : List Nat} {T : Types} {r : Nat} {l : Res}
    (h : HL oi' ow' T r l) (hi : ∀ i, i ∈ oi → i ∈ oi') (hw : ∀ i, i ∈ ow → i ∈ ow') : HL oi ow T r l :=
  fun T' h' => h T' (h'.weaken hi hw)

/-- the number of entries of a collection (`Types.fuel = size + 2`) -/
def Types.size (t : Types) : Nat :=
  t.defined.length + t.resources.length + t.funcs.length + t.interfaces.length +
    t.worlds.length + t.modules.length

theorem Types.fuel_eq (t : Types) : t.fuel = Types.size t + 2 := rfl

end Wac.Decode
