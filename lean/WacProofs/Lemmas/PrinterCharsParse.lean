import WacProofs.Lemmas.PrinterCharsParseExpr
import WacProofs.Lemmas.PrinterCharsParseItems
/-
  C13: the parser puts only characters of the tokens into the leaves of the tree
  (`parseTokens_chars`): if all characters of the token texts and of the doc comments attached to
  the tokens satisfy `q` (`ToksChars q`), so do all characters of the leaves of the parsed document.
-/
namespace Wac.Lemmas.PrinterChars
open Wac Wac.Ast Wac.Lex Wac.Parse

variable {q : Char → Bool}

theorem parseImportStatement_chars (fuel : Nat) {st : PState} (hst : ToksChars q st) :
    PostC q (parseImportStatement fuel st) (fun s => s.chars q = true) := by
  unfold parseImportStatement
  cbind parseToken_chars _ hst => _ st1 _ hst1
  cbind parseIdent_chars hst1 => id st2 hid hst2
  cbind parseOptional_chars _ hst2 (fun _ h => parseExternName_chars h) => n st3 hn hst3
  cbind parseToken_chars _ hst3 => _ st4 _ hst4
  cbind parseImportType_chars fuel hst4 => ty st5 hty hst5
  cbind parseToken_chars _ hst5 => _ st6 _ hst6
  refine PostC_ok ?_ hst6
  cases n with
  | none => simp [ImportStatement.chars, parseDocs_chars hst, hid, hty]
  | some x => simp [ImportStatement.chars, parseDocs_chars hst, hid, hty, hn x rfl]

theorem parseStatement_chars (fuel : Nat) {st : PState} (hst : ToksChars q st) :
    PostC q (parseStatement fuel st) (fun s => s.chars q = true) := by
  unfold parseStatement
  split
  · cbind parseImportStatement_chars fuel hst => s st1 hs hst1
    exact PostC_ok (by simpa [Statement.chars] using hs) hst1
  · split
    · cbind parseLetStatement_chars fuel hst => s st1 hs hst1
      exact PostC_ok (by simpa [Statement.chars] using hs) hst1
    · split
      · cbind parseExportStatement_chars fuel hst => s st1 hs hst1
        exact PostC_ok (by simpa [Statement.chars] using hs) hst1
      · split
        · cbind parseTypeStatement_chars fuel hst => s st1 hs hst1
          exact PostC_ok (by simpa [Statement.chars] using hs) hst1
        · exact PostC_error

theorem parsePackageDirective_chars {st : PState} (hst : ToksChars q st) :
    PostC q (parsePackageDirective st) (fun d => d.chars q = true) := by
  unfold parsePackageDirective
  cbind parseToken_chars _ hst => _ st1 _ hst1
  cbind parsePackageName_chars hst1 => p st2 hp hst2
  cbind parseOptional_chars _ hst2 (fun _ h => parsePackagePath_chars h) => t st3 ht hst3
  cbind parseToken_chars _ hst3 => _ st4 _ hst4
  refine PostC_ok ?_ hst4
  cases t with
  | none => simp [PackageDirective.chars, hp]
  | some x => simp [PackageDirective.chars, hp, ht x rfl]

theorem parseStatements_chars (fuel : Nat) : ∀ (n : Nat) {st : PState}, ToksChars q st →
    PostC q (parseStatements fuel n st) (fun ss => ss.all (Statement.chars q) = true) := by
  intro n
  induction n with
  | zero => intro st _; unfold parseStatements; exact PostC_error
  | succ n ih =>
    intro st hst
    unfold parseStatements
    split
    · exact PostC_ok rfl hst
    · cbind parseStatement_chars fuel hst => s st1 hs hst1
      cbind ih hst1 => r st2 hr hst2
      exact PostC_ok (by simp only [List.all_cons, hs, hr]; rfl) hst2

/-- **The leaves of the parsed tree consist of characters of the tokens.** -/
theorem parseTokens_chars (q : Char → Bool) (st : PState) (hst : ToksChars q st) (d : Document)
    (h : parseTokens st = .ok d) : d.chars q = true := by
  unfold parseTokens at h
  dsimp only at h
  cases hd : parsePackageDirective st with
  | error e => rw [hd] at h; cases h
  | ok p =>
    obtain ⟨dir, st1⟩ := p
    obtain ⟨hdir, hst1⟩ := parsePackageDirective_chars hst dir st1 hd
    rw [hd] at h
    replace h : (parseStatements (fuelFor st.toks.length) (st1.toks.length + 1) st1 >>=
        fun x => (.ok ⟨parseDocs st, dir, x.1⟩ : Except ParseError Document)) = .ok d := h
    cases hs : parseStatements (fuelFor st.toks.length) (st1.toks.length + 1) st1 with
    | error e => rw [hs] at h; cases h
    | ok r =>
      obtain ⟨ss, st2⟩ := r
      obtain ⟨hss, -⟩ := parseStatements_chars _ _ hst1 ss st2 hs
      rw [hs] at h
      cases h
      simp [Document.chars, parseDocs_chars hst, hdir, hss]

/-- the same for `parseDocument` (the screen `detectInvalidInput` only rejects) -/
theorem parseDocument_chars (q : Char → Bool) (src : Str) (hst : ToksChars q (PState.init src)) (d : Document)
    (h : parseDocument src = .ok d) : d.chars q = true := by
  unfold parseDocument at h
  split at h
  · cases h
  · exact parseTokens_chars q _ hst d h

end Wac.Lemmas.PrinterChars
