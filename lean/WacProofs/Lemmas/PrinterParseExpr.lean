import WacProofs.Lemmas.PrinterParseBase
/-
  C13, expressions: `parsePostfix`, `parseExpr` / `parsePrimaryExpr` / `parseInstantiationArgument`
  (inside the `parseDelimited` loop of `new`) accept the tokens of `Wac.PrintTok.expr` and return the
  expression up to spans.  Fuel hypothesis: `3 * (tokens).length ≤ fuel`.
-/
namespace Wac.Lemmas.PrinterParse
open Wac Wac.Ast Wac.Lex Wac.Parse Wac.PrintTok

theorem parseAccessExpr_ok {a : AccessExpr} (hwf : a.id.wf = true) {st : PState} {rest : List PTok}
    (h : E st = kw .Dot "." :: ident a.id :: rest) :
    ∃ a' st', parseAccessExpr st = .ok (a', st') ∧ a'.id.erase = a.id.erase ∧ E st' = rest := by
  obtain ⟨t1, st1, h1, -, hE1⟩ := parseToken_ok h rfl
  obtain ⟨i', st2, h2, hi, hE2⟩ := parseIdent_ok hwf hE1 rfl rfl
  pt_exists st2, hE2
  · simp only [parseAccessExpr, h1, h2, bind_ok]; rfl
  · exact hi

theorem parseNamedAccessExpr_ok (a : NamedAccessExpr) {st : PState} {rest : List PTok}
    (h : E st = kw .OpenBracket "[" :: string a.string :: kw .CloseBracket "]" :: rest) :
    ∃ a' st', parseNamedAccessExpr st = .ok (a', st') ∧ a'.string.erase = a.string.erase ∧ E st' = rest := by
  obtain ⟨t1, st1, h1, -, hE1⟩ := parseToken_ok h rfl
  obtain ⟨s', st2, h2, hs, hE2⟩ := parseString_ok a.string hE1 rfl rfl
  obtain ⟨t3, st3, h3, -, hE3⟩ := parseToken_ok hE2 rfl
  pt_exists st3, hE3
  · simp only [parseNamedAccessExpr, h1, h2, h3, bind_ok]; rfl
  · exact hs

theorem postfix_ok (ps : List PostfixExpr) (hwf : ps.all PostfixExpr.wf = true) (n : Nat)
    (hn : ps.length + 1 ≤ n) :
    ParsesTo (parsePostfix n) (List.map PostfixExpr.erase) (ps.flatMap postfixExpr) ps
      (headNot [.Dot, .OpenBracket]) := by
  induction ps generalizing n with
  | nil =>
    intro st rest hE hF
    obtain ⟨n, rfl⟩ : ∃ m, n = m + 1 := ⟨n - 1, by simp at hn; omega⟩
    simp only [List.flatMap_nil, List.nil_append] at hE
    refine ⟨[], st, ?_, rfl, hE⟩
    rw [← hE] at hF
    unfold parsePostfix
    rcases peekTok_of_headNot hF with h | ⟨k, h, hk⟩
    · rw [h]
    · rw [h]
      split
      · simp_all
      · simp_all
      · rfl
  | cons p ps ih =>
    intro st rest hE hF
    obtain ⟨n, rfl⟩ : ∃ m, n = m + 1 := ⟨n - 1, by simp at hn; omega⟩
    simp only [List.all_cons, Bool.and_eq_true] at hwf
    cases p with
    | Access a =>
      simp only [List.flatMap_cons, postfixExpr, List.cons_append, List.nil_append] at hE
      obtain ⟨a', st1, h1, ha, hE1⟩ := parseAccessExpr_ok hwf.1 hE
      obtain ⟨ps', st2, h2, hps, hE2⟩ := ih hwf.2 n (by simp at hn ⊢; omega) st1 rest hE1 hF
      pt_exists st2, hE2
      · unfold parsePostfix
        simp only [peekTok_of_E hE rfl, h1, h2, bind_ok]; rfl
      · simp [PostfixExpr.erase, ha, hps]
    | NamedAccess a =>
      simp only [List.flatMap_cons, postfixExpr, List.cons_append, List.nil_append] at hE
      obtain ⟨a', st1, h1, ha, hE1⟩ := parseNamedAccessExpr_ok a hE
      obtain ⟨ps', st2, h2, hps, hE2⟩ := ih hwf.2 n (by simp at hn ⊢; omega) st1 rest hE1 hF
      pt_exists st2, hE2
      · unfold parsePostfix
        simp only [peekTok_of_E hE rfl, h1, h2, bind_ok]; rfl
      · simp [PostfixExpr.erase, ha, hps]

theorem argName_ok {name : InstantiationArgumentName} (hwf : name.wf = true) {st : PState}
    {rest : List PTok} (h : E st = argName name :: rest) :
    ∃ n' st', parseInstantiationArgumentName st = .ok (n', st') ∧ n'.erase = name.erase ∧ E st' = rest := by
  cases name with
  | Ident id =>
    obtain ⟨i', st1, h1, hi, hE1⟩ := parseIdent_ok (i := id) hwf h rfl rfl
    pt_exists st1, hE1
    · unfold parseInstantiationArgumentName
      simp only [peekTok_of_E h (k := .Ident) rfl, h1, bind_ok]; rfl
    · simp [InstantiationArgumentName.erase, hi]
  | String s =>
    obtain ⟨s', st1, h1, hs, hE1⟩ := parseString_ok s h rfl rfl
    pt_exists st1, hE1
    · unfold parseInstantiationArgumentName
      simp only [peekTok_of_E h (k := .String) rfl, h1, bind_ok]; rfl
    · simp [InstantiationArgumentName.erase, hs]

theorem argName_res (name : InstantiationArgumentName) :
    (argName name).res = .ok .Ident ∨ (argName name).res = .ok .String := by
  cases name <;> simp [argName, ident, PrintTok.string]

theorem primary_length_pos (p : PrimaryExpr) : 1 ≤ (primaryExpr p).length := by
  cases p with
  | New e => cases e; simp [primaryExpr]
  | Nested e => cases e; simp [primaryExpr]
  | Ident id => simp [primaryExpr]

theorem args_length_le : (args : List InstantiationArgument) → args.length ≤ (exprArgs args).length
  | [] => by simp
  | a :: r => by
    have := args_length_le r
    cases a with
    | Named arg => cases arg; simp [exprArgs]; omega
    | Fill sp => simp only [exprArgs]; split <;> simp <;> omega
    | _ => simp [exprArgs]; omega

theorem exprArgs_fill_nil (sp : Span) : exprArgs [.Fill sp] = [ellipsis] := by
  simp [exprArgs]

theorem exprArgs_fill_cons (sp : Span) (b : InstantiationArgument) (r : List InstantiationArgument) :
    exprArgs (.Fill sp :: b :: r) = ellipsis :: comma :: exprArgs (b :: r) := by
  rw [exprArgs]; simp

theorem eraseArgs_inferred (id : Ident) (r : List InstantiationArgument) :
    eraseArgs (.Inferred id :: r) = .Inferred id.erase :: eraseArgs r := by rw [eraseArgs]
theorem eraseArgs_spread (id : Ident) (r : List InstantiationArgument) :
    eraseArgs (.Spread id :: r) = .Spread id.erase :: eraseArgs r := by rw [eraseArgs]
theorem eraseArgs_named (name : InstantiationArgumentName) (e : Expr) (r : List InstantiationArgument) :
    eraseArgs (.Named (.mk name e) :: r) = .Named (.mk name.erase e.erase) :: eraseArgs r := by
  rw [eraseArgs]
theorem eraseArgs_fill (sp : Span) (r : List InstantiationArgument) :
    eraseArgs (.Fill sp :: r) = .Fill zspan :: eraseArgs r := by rw [eraseArgs]

mutual
theorem expr_ok : (e : Expr) → e.wf = true → (fuel : Nat) → 3 * (expr e).length ≤ fuel →
    ParsesTo (parseExpr fuel) Expr.erase (expr e) e (headNot [.Dot, .OpenBracket])
  | .mk sp p post, hwf, fuel, hf => by
    intro st rest hE hF
    simp only [Expr.wf, Bool.and_eq_true] at hwf
    simp only [expr, List.append_assoc] at hE
    simp only [expr, List.length_append] at hf
    have hlen := primary_length_pos p
    obtain ⟨f, rfl⟩ : ∃ f, fuel = f + 1 := ⟨fuel - 1, by omega⟩
    obtain ⟨p', st1, h1, hp, hE1⟩ := primary_ok p hwf.1 f (by omega) st _ hE trivial
    have hpl : post.length + 1 ≤ st1.toks.length + 1 := by
      have := length_le_flatMap postfixExpr post (by intro x _; cases x <;> simp [postfixExpr])
      have h2 := congrArg List.length hE1
      rw [E_length, List.length_append] at h2
      omega
    obtain ⟨post', st2, h2, hpost, hE2⟩ := postfix_ok post hwf.2 _ hpl st1 rest hE1 hF
    pt_exists st2, hE2
    · unfold parseExpr
      simp only [h1, h2, bind_ok]; rfl
    · simp [Expr.erase, hp, hpost]
theorem primary_ok : (p : PrimaryExpr) → p.wf = true → (fuel : Nat) →
    3 * (primaryExpr p).length ≤ fuel + 1 →
    ParsesTo (parsePrimaryExpr fuel) PrimaryExpr.erase (primaryExpr p) p (fun _ => True)
  | .Ident id, hwf, fuel, hf => by
    intro st rest hE _
    simp only [primaryExpr, List.length_cons, List.length_nil] at hf
    obtain ⟨f, rfl⟩ : ∃ f, fuel = f + 1 := ⟨fuel - 1, by omega⟩
    simp only [primaryExpr, List.cons_append, List.nil_append] at hE
    obtain ⟨i', st1, h1, hi, hE1⟩ := parseIdent_ok (i := id) hwf hE rfl rfl
    pt_exists st1, hE1
    · unfold parsePrimaryExpr
      simp only [peekTok_of_E hE (k := .Ident) rfl, h1, bind_ok]; rfl
    · simp [PrimaryExpr.erase, hi]
  | .Nested (.mk sp inner), hwf, fuel, hf => by
    intro st rest hE _
    simp only [primaryExpr, List.length_cons, List.length_append, List.length_nil] at hf
    obtain ⟨f, rfl⟩ : ∃ f, fuel = f + 1 := ⟨fuel - 1, by omega⟩
    simp only [primaryExpr, List.cons_append, List.append_assoc, List.nil_append] at hE
    simp only [PrimaryExpr.wf] at hwf
    obtain ⟨t1, st1, h1, -, hE1⟩ := parseToken_ok hE (k := .OpenParen) rfl
    obtain ⟨e', st2, h2, he, hE2⟩ := expr_ok inner hwf f (by omega) st1 _ hE1
      (headNot_cons (k := .CloseParen) rfl (by decide))
    obtain ⟨t3, st3, h3, -, hE3⟩ := parseToken_ok hE2 (k := .CloseParen) rfl
    pt_exists st3, hE3
    · unfold parsePrimaryExpr
      simp only [peekTok_of_E hE (k := .OpenParen) rfl, h1, h2, h3, bind_ok]; rfl
    · simp [PrimaryExpr.erase, he]
  | .New (.mk sp pkg args), hwf, fuel, hf => by
    intro st rest hE _
    simp only [primaryExpr, List.length_cons, List.length_append, List.length_nil] at hf
    obtain ⟨f, rfl⟩ : ∃ f, fuel = f + 1 := ⟨fuel - 1, by omega⟩
    simp only [primaryExpr, List.cons_append, List.append_assoc, List.nil_append] at hE
    simp only [PrimaryExpr.wf, Bool.and_eq_true] at hwf
    obtain ⟨t1, st1, h1, -, hE1⟩ := parseToken_ok hE (k := .NewKeyword) rfl
    obtain ⟨pkg', st2, h2, hpkg, hE2⟩ := parsePackageName_ok hwf.1 hE1 rfl rfl
    obtain ⟨t3, st3, h3, -, hE3⟩ := parseToken_ok hE2 (k := .OpenBrace) rfl
    have hal : args.length + 1 ≤ st3.toks.length + 1 := by
      have := args_length_le args
      have h2 := congrArg List.length hE3
      rw [E_length, List.length_append] at h2
      omega
    obtain ⟨args', st4, h4, hargs, hE4⟩ := args_ok args hwf.2 f (by omega) _ hal st3 _ hE3
      (headIs_cons (k := .CloseBrace) rfl)
    obtain ⟨t5, st5, h5, -, hE5⟩ := parseToken_ok hE4 (k := .CloseBrace) rfl
    pt_exists st5, hE5
    · unfold parsePrimaryExpr
      simp only [peekTok_of_E hE (k := .NewKeyword) rfl, h1, h2, h3, h4, h5, bind_ok]; rfl
    · simp [PrimaryExpr.erase, hpkg, hargs]
theorem args_ok : (args : List InstantiationArgument) → wfArgs args = true → (fuel : Nat) →
    3 * (exprArgs args).length + 3 ≤ fuel → (n : Nat) → args.length + 1 ≤ n →
    ParsesTo (parseDelimited .CloseBrace true instantiationArgumentPeeks
      (parseInstantiationArgument fuel) n) eraseArgs (exprArgs args) args (headIs .CloseBrace)
  | [], _, fuel, _, n, hn => by
    intro st rest hE hF
    obtain ⟨n, rfl⟩ : ∃ m, n = m + 1 := ⟨n - 1, by simp at hn; omega⟩
    simp only [exprArgs, List.nil_append] at hE
    exact ⟨[], st, parseDelimited_stop (hE ▸ hF), rfl, hE⟩
  | .Inferred id :: r, hwf, fuel, hf, n, hn => by
    intro st rest hE hF
    obtain ⟨n, rfl⟩ : ∃ m, n = m + 1 := ⟨n - 1, by simp at hn; omega⟩
    simp only [exprArgs, List.length_cons, List.length_append, List.length_nil] at hf
    obtain ⟨f, rfl⟩ : ∃ f, fuel = f + 1 := ⟨fuel - 1, by omega⟩
    simp only [wfArgs, Bool.and_eq_true] at hwf
    simp only [exprArgs, List.cons_append, List.nil_append] at hE
    obtain ⟨i', st1, h1, hi, hE1⟩ := parseIdent_ok (i := id) hwf.1 hE rfl rfl
    have hitem : parseInstantiationArgument (f + 1) st = .ok (.Inferred i', st1) := by
      unfold parseInstantiationArgument
      simp [peekTok_of_E hE (k := .Ident) rfl, peek2Tok_of_E hE (k := .Comma) rfl, h1]
    obtain ⟨st2, hE2, hstep⟩ := parseDelimited_comma (stop := .CloseBrace) (peeks := instantiationArgumentPeeks) (n := n)
      (hE ▸ headIn_cons (k := .Ident) rfl (by decide)) (by decide) (by decide) hitem hE1 rfl
    obtain ⟨r', st3, h3, hr, hE3⟩ := args_ok r hwf.2 (f + 1) (by omega) n (by simp at hn ⊢; omega) st2 rest hE2 hF
    exact ⟨_, st3, hstep _ _ h3, by rw [eraseArgs_inferred, eraseArgs_inferred, hi, hr], hE3⟩
  | .Spread id :: r, hwf, fuel, hf, n, hn => by
    intro st rest hE hF
    obtain ⟨n, rfl⟩ : ∃ m, n = m + 1 := ⟨n - 1, by simp at hn; omega⟩
    simp only [exprArgs, List.length_cons, List.length_append, List.length_nil] at hf
    obtain ⟨f, rfl⟩ : ∃ f, fuel = f + 1 := ⟨fuel - 1, by omega⟩
    simp only [wfArgs, Bool.and_eq_true] at hwf
    simp only [exprArgs, List.cons_append, List.nil_append] at hE
    obtain ⟨t0, st0, h0, -, hE0⟩ := parseToken_ok hE (k := .Ellipsis) rfl
    obtain ⟨i', st1, h1, hi, hE1⟩ := parseIdent_ok (i := id) hwf.1 hE0 rfl rfl
    have hitem : parseInstantiationArgument (f + 1) st = .ok (.Spread i', st1) := by
      unfold parseInstantiationArgument
      simp [peekTok_of_E hE (k := .Ellipsis) rfl, h0,
        peekIs_false (k' := .Comma) (hE0 ▸ headIs_cons (k := .Ident) rfl) (by decide),
        peekIs_false (k' := .CloseBrace) (hE0 ▸ headIs_cons (k := .Ident) rfl) (by decide), h1]
    obtain ⟨st2, hE2, hstep⟩ := parseDelimited_comma (stop := .CloseBrace) (peeks := instantiationArgumentPeeks) (n := n)
      (hE ▸ headIn_cons (k := .Ellipsis) rfl (by decide)) (by decide) (by decide) hitem hE1 rfl
    obtain ⟨r', st3, h3, hr, hE3⟩ := args_ok r hwf.2 (f + 1) (by omega) n (by simp at hn ⊢; omega) st2 rest hE2 hF
    exact ⟨_, st3, hstep _ _ h3, by rw [eraseArgs_spread, eraseArgs_spread, hi, hr], hE3⟩
  | .Named (.mk name e) :: r, hwf, fuel, hf, n, hn => by
    intro st rest hE hF
    obtain ⟨n, rfl⟩ : ∃ m, n = m + 1 := ⟨n - 1, by simp at hn; omega⟩
    simp only [exprArgs, List.length_cons, List.length_append, List.length_nil] at hf
    obtain ⟨f, rfl⟩ : ∃ f, fuel = f + 1 := ⟨fuel - 1, by omega⟩
    simp only [wfArgs, Bool.and_eq_true] at hwf
    simp only [exprArgs, List.cons_append, List.append_assoc, List.nil_append] at hE
    obtain ⟨n', st0, h0, hn', hE0⟩ := argName_ok hwf.1.1 hE
    obtain ⟨t1, st1, h1, -, hE1⟩ := parseToken_ok hE0 (k := .Colon) rfl
    obtain ⟨e', st2, h2, he, hE2⟩ := expr_ok e hwf.1.2 f (by omega) st1 _ hE1
      (headNot_cons (k := .Comma) rfl (by decide))
    have hitem : parseInstantiationArgument (f + 1) st = .ok (.Named (.mk n' e'), st2) := by
      unfold parseInstantiationArgument
      rcases argName_res name with hk | hk
      · simp [peekTok_of_E hE hk, peek2Tok_of_E hE (k := .Colon) rfl, h0, h1, h2]
      · simp [peekTok_of_E hE hk, peek2Tok_of_E hE (k := .Colon) rfl, h0, h1, h2]
    have hin : headIn instantiationArgumentPeeks (E st) := by
      rcases argName_res name with hk | hk
      · exact hE ▸ headIn_cons hk (by decide)
      · exact hE ▸ headIn_cons hk (by decide)
    obtain ⟨st3, hE3, hstep⟩ := parseDelimited_comma (stop := .CloseBrace) (peeks := instantiationArgumentPeeks) (n := n)
      hin (by decide) (by decide) hitem hE2 rfl
    obtain ⟨r', st4, h4, hr, hE4⟩ := args_ok r hwf.2 (f + 1) (by omega) n (by simp at hn ⊢; omega) st3 rest hE3 hF
    exact ⟨_, st4, hstep _ _ h4, by rw [eraseArgs_named, eraseArgs_named, hn', he, hr], hE4⟩
  | .Fill sp :: r, hwf, fuel, hf, n, hn => by
    intro st rest hE hF
    obtain ⟨n, rfl⟩ : ∃ m, n = m + 1 := ⟨n - 1, by simp at hn; omega⟩
    have hf0 : 1 ≤ fuel := by omega
    obtain ⟨f, rfl⟩ : ∃ f, fuel = f + 1 := ⟨fuel - 1, by omega⟩
    simp only [wfArgs, Bool.and_eq_true] at hwf
    have hfr : 3 * (exprArgs r).length + 3 ≤ f + 1 := by
      simp only [exprArgs, List.length_append] at hf; omega
    have ih := args_ok r hwf.2 (f + 1) hfr n (by simp at hn ⊢; omega)
    have hin : headIn instantiationArgumentPeeks (E st) := by
      simp only [exprArgs] at hE
      split at hE <;> exact hE ▸ headIn_cons (k := .Ellipsis) rfl (by decide)
    cases r with
    | nil =>
      simp only [exprArgs_fill_nil, List.cons_append, List.nil_append] at hE
      obtain ⟨t0, st0, h0, -, hE0⟩ := parseToken_ok hE (k := .Ellipsis) rfl
      have hcb : headIs .CloseBrace (E st0) := hE0 ▸ hF
      have hitem : parseInstantiationArgument (f + 1) st = .ok (.Fill t0.span, st0) := by
        unfold parseInstantiationArgument
        simp [peekTok_of_E hE (k := .Ellipsis) rfl, h0, peekIs_true hcb]
      exact ⟨_, st0, parseDelimited_last hin (by decide) hitem hcb, by rw [eraseArgs_fill, eraseArgs_fill], hE0⟩
    | cons b r' =>
      simp only [exprArgs_fill_cons, List.cons_append] at hE
      obtain ⟨t0, st0, h0, -, hE0⟩ := parseToken_ok hE (k := .Ellipsis) rfl
      have hitem : parseInstantiationArgument (f + 1) st = .ok (.Fill t0.span, st0) := by
        unfold parseInstantiationArgument
        simp [peekTok_of_E hE (k := .Ellipsis) rfl, h0,
          peekIs_true (hE0 ▸ headIs_cons (k := .Comma) rfl)]
      obtain ⟨st2, hE2, hstep⟩ := parseDelimited_comma (stop := .CloseBrace) (peeks := instantiationArgumentPeeks) (n := n)
        hin (by decide) (by decide) hitem hE0 rfl
      obtain ⟨r'', st3, h3, hr, hE3⟩ := ih st2 rest hE2 hF
      exact ⟨_, st3, hstep _ _ h3, by rw [eraseArgs_fill, eraseArgs_fill, hr], hE3⟩
end

end Wac.Lemmas.PrinterParse
