import WacProofs.Lemmas.TypeComplete
import WacProofs.Lemmas.TypeSound
import WacProofs.Lemmas.Document
/-
  C12 proofs: completeness of the parser model w.r.t. the grammar specification — `use`,
  interface items, interfaces, world items, worlds, type statements, import statements, and
  (closing `Statements.lean`) `statement`: `stmtComplete : StmtComplete`.

  Every statement has the shape `CompleteW er parseX gX follow gf`: on a state whose package-path
  tokens are well formed (`WF`), a derivation `(x, r) ∈ gX gf (abs st)` whose rest `r` satisfies
  the follow condition is what the parser returns, for every parser fuel `pf ≥ gf + 2`; the
  result state is a proper suffix of `st`.  Follow conditions: none, except for `world-item-path`
  (see `parseWorldItemPath_complete`).

  Peek facts (as in `TypeComplete.lean`): derivations from `abs st` yield `nextTok` facts (the item
  `Lexer::next` delivers); the parser dispatches on the raw peek, so the `*_first` lemmas and the
  `peekIn … ∧ peekTok st ≠ some stop` parts of item hypotheses are stated for the raw
  `peekTok`/`peekIn` (exception: `gImportStatement_first` concludes `nextTok`, the form
  `gStatement_complete` takes).
-/
namespace Wac.C12
open Wac Wac.Ast Wac.Lex Wac.Parse Wac.Spec.Grammar

/-- like `Complete`, on well-formed states, also returning that the result state is a suffix -/
def CompleteW {α β : Type} (er : α → β) (parse : Nat → PState → PR α) (g : Nat → SP β)
    (follow : List STok → Prop) (gf : Nat) : Prop :=
  ∀ st, WF st → ∀ x r, (x, r) ∈ g gf (abs st) → follow r → ∀ pf, gf + 2 ≤ pf →
    ∃ x0 st', parse pf st = .ok (x0, st') ∧ er x0 = x ∧ abs st' = r ∧ Suf st' st ∧
      st'.toks.length < st.toks.length

/-! ### `use` -/

/-- `use-item ::= id ('as' id)?` (inline in `gUse`) -/
def gUseItemC : SP UseItem := do
  let id ← gId; let a ← opt (do t "as"; gId); pure (⟨id, a⟩ : UseItem)

/-- `use-path ::= package-path | id` (inline in `gUse`) -/
def gUsePathC : SP UsePath :=
  (do let p ← gPackagePath; pure (UsePath.Package p)) <+> (do let id ← gId; pure (UsePath.Ident id))

theorem gUse_eqC (g : Nat) : gUse g = (do
    t "use"
    let path ← gUsePathC
    t "."; t "{"
    let items ← list0 gUseItemC g
    t "}"; t ";"; pure ⟨[], path, items⟩) := rfl

theorem parseUseItem_suf {st st1 : PState} {x : UseItem} (h : parseUseItem st = .ok (x, st1)) :
    Suf st1 st ∧ st1.toks.length < st.toks.length := by
  simp only [parseUseItem, Except.bind_eq_ok, Prod.exists, parseIdent_eq_ok, parseOptional_eq_ok] at h
  obtain ⟨id, st1, ⟨k1, rfl, rfl⟩, o, st2, ho, h3⟩ := h
  cases h3
  have l1 := len_of_nextTok k1
  rcases ho with ⟨k2, a, ⟨k3, rfl, rfl⟩, rfl⟩ | ⟨_, _, rfl, rfl⟩
  · have l2 := len_of_nextTok k2
    have l3 := len_of_nextTok k3
    exact ⟨(Suf.adv _).trans ((Suf.adv _).trans (Suf.adv _)), by omega⟩
  · exact ⟨Suf.adv _, by omega⟩

theorem parseUseItem_complete (st : PState) (a : UseItem) (r1 : List STok)
    (h : (a, r1) ∈ gUseItemC (abs st))
    (hf : r1.head? = some comma ∨ r1.head? = some (litTok .CloseBrace)) :
    ∃ x st1, parseUseItem st = .ok (x, st1) ∧ eraseUseItem x = a ∧ abs st1 = r1 ∧
      st1.toks.length < st.toks.length ∧ peekIn st [.Ident] = true ∧ peekTok st ≠ some .CloseBrace := by
  simp [gUseItemC, mem_gId, and_assoc] at h
  rcases h with ⟨k1, (⟨k2, k3, rfl, rfl⟩ | ⟨rfl, rfl⟩)⟩
  · have l1 := len_of_nextTok k1
    have l2 := len_of_nextTok k2
    have l3 := len_of_nextTok k3
    refine ⟨⟨identAt (tokAt st), some (identAt (tokAt (adv (adv st))))⟩, adv (adv (adv st)), ?_,
      by simp [eraseUseItem, erase_identAt], rfl, by omega, by simp [peekIn_iff, k1], by simp [k1]⟩
    simp only [parseUseItem, parseIdent_ok k1, parseOptional_of_peek _ k2, parseIdent_ok k3,
      Except.ok_bind]
  · have l1 := len_of_nextTok k1
    have hfl : FollowLit [.AsKeyword] (abs (adv st)) :=
      FollowLit.of_sep (stop := .CloseBrace) rfl (by decide) (by decide) hf
    have hno : peekTok (adv st) ≠ some .AsKeyword := hfl.peekTok_ne (by simp)
    refine ⟨⟨identAt (tokAt st), none⟩, adv st, ?_,
      by simp [eraseUseItem, erase_identAt], rfl, by omega, by simp [peekIn_iff, k1], by simp [k1]⟩
    simp only [parseUseItem, parseIdent_ok k1, parseOptional_none hno hfl.peekErr, Except.ok_bind]

theorem gUse_first {g : Nat} {st : PState} {x : Use} {r : List STok}
    (h : (x, r) ∈ gUse g (abs st)) : peekTok st = some .UseKeyword := by
  rw [gUse_eqC] at h
  simp [and_assoc] at h
  exact peekTok_of_nextTok h.1

theorem parseUsePath_complete (hV : SemverAgree) {st : PState} (hwf : WF st) {x : UsePath}
    {r : List STok} (h : (x, r) ∈ gUsePathC (abs st)) :
    ∃ x0, parseUsePath st = .ok (x0, adv st) ∧ eraseUsePath x0 = x ∧ r = abs (adv st) ∧
      st.toks.length = (adv st).toks.length + 1 := by
  simp only [gUsePathC, alt_apply, List.mem_append, bind_apply, List.mem_flatMap, Prod.exists,
    pure_apply, List.mem_singleton, Prod.mk.injEq, mem_gPackagePath, mem_gId] at h
  rcases h with ⟨p', r1, ⟨k1, hp, rfl⟩, rfl, rfl⟩ | ⟨i, r1, ⟨k1, rfl, rfl⟩, rfl, rfl⟩
  · have hag := pkgPathAt_agree hV (tokAt st) (hwf.shape k1)
    rw [hp] at hag
    obtain ⟨p, hp0, rfl⟩ := Option.map_eq_some_iff.mp hag
    refine ⟨.Package p, ?_, rfl, rfl, len_of_nextTok k1⟩
    simp only [parseUsePath, peekTok_of_nextTok k1, parsePackagePath_eq_ok.mpr ⟨k1, hp0, rfl⟩, Except.ok_bind]
  · refine ⟨.Ident (identAt (tokAt st)), ?_, by simp [eraseUsePath, erase_identAt], rfl, len_of_nextTok k1⟩
    simp only [parseUsePath, peekTok_of_nextTok k1, parseIdent_ok k1, Except.ok_bind]

theorem parseUse_complete (hV : SemverAgree) (gf : Nat) :
    CompleteW eraseUse (fun pf => parseUse pf) gUse (fun _ => True) gf := by
  intro st hwf x r h _ pf hpf
  rw [gUse_eqC] at h
  simp [and_assoc] at h
  obtain ⟨k1, path', r1, hpath, hrest⟩ := h
  obtain ⟨path, hpath0, rfl, rfl, l2⟩ := parseUsePath_complete hV hwf.adv hpath
  simp [and_assoc] at hrest
  obtain ⟨k3, k4, items, r2, hl, u, r3, hclose, hsemi, rfl⟩ := hrest
  have hr2 := (mem_t _ _ _ _).mp hclose
  have hr3 := head_of_mem_t hsemi
  obtain ⟨ys, st6, hdel, rfl, k6, habs6, hl6⟩ := delimited_list0 .CloseBrace [.Ident] parseUseItem
    eraseUseItem gUseItemC rfl (by decide) parseUseItem_complete gf _ hl hr2 pf hpf
  obtain ⟨hs6, _, _⟩ := parseDelimited_struct _ _ _ _ (fun st x st1 hx => parseUseItem_suf hx) _ _ _ _ hdel
  obtain ⟨k7, habs7⟩ := abs_adv_of_cons (k := .Semicolon) rfl (habs6.trans hr3)
  have l1 := len_of_nextTok k1
  have l3 := len_of_nextTok k3
  have l4 := len_of_nextTok k4
  have l6 := len_of_nextTok k6
  have l7 := len_of_nextTok k7
  refine ⟨⟨parseDocs st, path, ys⟩, adv (adv st6), ?_, by simp [eraseUse], habs7,
    (Suf.adv _).trans ((Suf.adv _).trans (hs6.trans ((Suf.adv _).trans ((Suf.adv _).trans
      ((Suf.adv _).trans (Suf.adv _)))))), by omega⟩
  simp only [parseUse, parseToken_ok k1, hpath0, parseToken_ok k3, parseToken_ok k4, hdel,
    parseToken_ok k6, parseToken_ok k7, Except.ok_bind]

/-! ### interface items -/

theorem gInterfaceItem_first {g : Nat} {st : PState} {x : InterfaceItem} {r : List STok}
    (h : (x, r) ∈ gInterfaceItem g (abs st)) : peekIn st interfaceItemPeeks = true := by
  simp only [gInterfaceItem, alt_apply, List.mem_append] at h
  rcases h with (h | h) | h
  · simp at h
    obtain ⟨u, hu, _⟩ := h
    rw [peekIn_iff]; exact ⟨_, gUse_first hu, by decide⟩
  · simp at h
    obtain ⟨d, hd, _⟩ := h
    obtain ⟨k, hk, hm⟩ := (peekIn_iff _ _).mp (gItemTypeDecl_first hd)
    rw [peekIn_iff]
    exact ⟨k, hk, List.mem_cons_of_mem _ (List.mem_cons_of_mem _ hm)⟩
  · simp [mem_gId, and_assoc] at h
    rw [peekIn_iff]; exact ⟨_, peekTok_of_nextTok h.1, by decide⟩

theorem parseInterfaceItem_complete (hV : SemverAgree) (gf : Nat) :
    CompleteW eraseInterfaceItem parseInterfaceItem gInterfaceItem (fun _ => True) gf := by
  intro st hwf x r h _ pf hpf
  simp only [gInterfaceItem, alt_apply, List.mem_append] at h
  rcases h with (h | h) | h
  · simp at h
    obtain ⟨u, hu, rfl⟩ := h
    have k1 := gUse_first hu
    obtain ⟨u0, st', h0, rfl, rfl, hs, hl⟩ := parseUse_complete hV gf st hwf _ _ hu trivial pf hpf
    refine ⟨.Use u0, st', ?_, rfl, rfl, hs, hl⟩
    simp [parseInterfaceItem, k1, h0]
  · simp at h
    obtain ⟨d, hd, rfl⟩ := h
    have hin := gItemTypeDecl_first hd
    obtain ⟨d0, st', h0, rfl, rfl, hl⟩ := parseItemTypeDecl_complete gf _ _ _ hd trivial pf hpf
    have hs := (parseItemTypeDecl_sound _ _ _ _ h0).1
    have h1 : peekIs st .UseKeyword = false :=
      (peekIs_false_iff _ _).mpr (peekTok_ne_of_peekIn hin (by decide))
    have h2 : peekIs st .Ident = false :=
      (peekIs_false_iff _ _).mpr (peekTok_ne_of_peekIn hin (by decide))
    refine ⟨.Type' d0, st', ?_, rfl, rfl, hs, hl⟩
    simp [parseInterfaceItem, h1, h2, hin, h0]
  · simp [mem_gId, and_assoc] at h
    obtain ⟨k1, k2, ty, r1, hty, hsemi, rfl⟩ := h
    have hr1 := head_of_mem_t hsemi
    obtain ⟨f0, st3, hf0, rfl, rfl, hl3⟩ := parseFuncTypeRef_complete gf _ _ _ hty
      (FollowLit.of_cons (k := .Semicolon) rfl (by decide) hr1) pf hpf
    have hs3 := (parseFuncTypeRef_sound _ _ _ _ hf0).1
    obtain ⟨k4, habs4⟩ := abs_adv_of_cons (k := .Semicolon) rfl hr1
    have l1 := len_of_nextTok k1
    have l2 := len_of_nextTok k2
    have l4 := len_of_nextTok k4
    have h1 : peekIs st .UseKeyword = false :=
      (peekIs_false_iff _ _).mpr (by rw [peekTok_of_nextTok k1]; decide)
    have h2 : peekIs st .Ident = true := (peekIs_iff _ _).mpr (peekTok_of_nextTok k1)
    refine ⟨.Export ⟨parseDocs st, identAt (tokAt st), f0⟩, adv st3, ?_,
      by simp [eraseInterfaceItem, eraseInterfaceExport, erase_identAt], habs4,
      (Suf.adv _).trans (hs3.trans ((Suf.adv _).trans (Suf.adv _))), by omega⟩
    simp [parseInterfaceItem, h1, h2, parseInterfaceExport, parseIdent_ok k1, parseToken_ok k2, hf0,
      parseToken_ok k4]

/-! ### interfaces -/

/-- a bracketed list without separators (`many`) of items that are complete on well-formed states -/
theorem delimited_many_wf {α β : Type} (stop : Token) (peeks : List Token) (item : PState → PR α)
    (er : α → β) (p : SP β) (hstop : isLit stop = true)
    (hitem : ∀ st a r1, WF st → (a, r1) ∈ p (abs st) →
        ∃ x st1, item st = .ok (x, st1) ∧ er x = a ∧ abs st1 = r1 ∧ Suf st1 st ∧
          st1.toks.length < st.toks.length ∧ peekIn st peeks = true ∧ peekTok st ≠ some stop)
    {xs : List β} {r1 r : List STok} (n : Nat) (st : PState) (hwf : WF st)
    (h : (xs, r1) ∈ many p n (abs st)) (hr : r1 = litTok stop :: r) (fuel : Nat)
    (hfuel : n + 1 ≤ fuel) :
    ∃ ys st', parseDelimited stop false peeks item fuel st = .ok (ys, st') ∧ ys.map er = xs ∧
      nextTok st' = some stop ∧ abs (adv st') = r ∧ Suf st' st := by
  obtain ⟨hm, hlen⟩ := (mem_many _ _ _ _ _).mp h
  have hstop' : r1.head? = some (litTok stop) := by rw [hr]; rfl
  obtain ⟨ys, st', hdel, hys, habs, hs⟩ := parseDelimited_nocommas_complete_inv stop peeks item er p
    WF (fun _ _ h hs => h.suf hs) hstop hitem hm st hwf rfl hstop' fuel (.inl (by omega))
  rw [hr] at habs
  obtain ⟨hp, habs2⟩ := abs_adv_of_cons hstop habs
  exact ⟨ys, st', hdel, hys, hp, habs2, hs⟩

/-- `interface-item* '}'` against the parser's `parse_delimited` -/
theorem interfaceBody_complete (hV : SemverAgree) {gf pf : Nat} (hpf : gf + 2 ≤ pf) (st : PState)
    (hwf : WF st) {xs : List InterfaceItem} {r1 r : List STok}
    (h : (xs, r1) ∈ many (gInterfaceItem gf) gf (abs st)) (hr : r1 = litTok .CloseBrace :: r) :
    ∃ ys st', parseDelimited .CloseBrace false interfaceItemPeeks (parseInterfaceItem pf) pf st =
        .ok (ys, st') ∧ ys.map eraseInterfaceItem = xs ∧ nextTok st' = some .CloseBrace ∧
      abs (adv st') = r ∧ Suf st' st :=
  delimited_many_wf .CloseBrace interfaceItemPeeks (parseInterfaceItem pf) eraseInterfaceItem
    (gInterfaceItem gf) rfl
    (fun st a r1 hwf ha => by
      obtain ⟨x, st1, h1, h2, h3, h4, h5⟩ := parseInterfaceItem_complete hV gf st hwf a r1 ha trivial pf hpf
      exact ⟨x, st1, h1, h2, h3, h4, h5, gInterfaceItem_first ha,
        peekTok_ne_of_peekIn (gInterfaceItem_first ha) (by decide)⟩)
    gf st hwf h hr pf (by omega)

theorem gInlineInterface_first {g : Nat} {st : PState} {x : InlineInterface} {r : List STok}
    (h : (x, r) ∈ gInlineInterface g (abs st)) : peekTok st = some .InterfaceKeyword := by
  simp [gInlineInterface, and_assoc] at h
  exact peekTok_of_nextTok h.1

theorem parseInlineInterface_complete (hV : SemverAgree) (gf : Nat) :
    CompleteW eraseInlineInterface parseInlineInterface gInlineInterface (fun _ => True) gf := by
  intro st hwf x r h _ pf hpf
  simp [gInlineInterface, and_assoc] at h
  obtain ⟨k1, k2, items, r1, hitems, hclose, rfl⟩ := h
  have hr1 := head_of_mem_t hclose
  obtain ⟨ys, st3, hdel, rfl, k4, habs4, hs3⟩ := interfaceBody_complete hV hpf _ hwf.adv.adv hitems hr1
  have l1 := len_of_nextTok k1
  have l2 := len_of_nextTok k2
  have l3 := hs3.len
  have l4 := len_of_nextTok k4
  refine ⟨⟨ys⟩, adv st3, ?_, by simp [eraseInlineInterface], habs4,
    (Suf.adv _).trans (hs3.trans ((Suf.adv _).trans (Suf.adv _))), by omega⟩
  simp only [parseInlineInterface, parseToken_ok k1, parseToken_ok k2, hdel, parseToken_ok k4,
    Except.ok_bind]

/-! ### world items

`world-item-path`: the grammar has three overlapping alternatives (`id ':' extern-type`, package
path, `id`), and derives a function type as a prefix of a longer one.  The parser decides `id ':'`
with one more token of lookahead, so a bare `id` is its choice only when the rest does not start
with `:`; follow condition: the rest starts with a terminal other than `:`, `<`, `->` (in context
the rest starts with `;`). -/

theorem parseWorldItemPath_complete (hV : SemverAgree) (gf : Nat) :
    CompleteW eraseWorldItemPath parseWorldItemPath gWorldItemPath
      (FollowLit [.Colon, .OpenAngle, .Arrow]) gf := by
  intro st hwf x r h hf pf hpf
  simp only [gWorldItemPath, alt_apply, List.mem_append] at h
  rcases h with (h | h) | h
  · simp [mem_gId, and_assoc] at h
    obtain ⟨k1, k2, h⟩ := h
    have l1 := len_of_nextTok k1
    have l2 := len_of_nextTok k2
    have hc : (peekTok (adv st) == some Token.Colon) = true := by rw [peekTok_of_nextTok k2]; rfl
    rcases h with ⟨_, ⟨f, hfn, rfl⟩, rfl⟩ | ⟨_, ⟨i, hi, rfl⟩, rfl⟩ | ⟨k3, rfl, rfl⟩
    · have kf := gFuncType_first hfn
      obtain ⟨f0, st3, hf0, rfl, rfl, hl3⟩ := parseFuncType_complete gf _ _ _ hfn
        (hf.mono (by simp)) pf hpf
      have hs3 := (parseFuncType_sound _ _ _ _ hf0).1
      refine ⟨.Named ⟨identAt (tokAt st), .Func f0⟩, st3, ?_,
        by simp [eraseWorldItemPath, eraseNamedWorldItem, eraseExternType, erase_identAt], rfl,
        hs3.trans ((Suf.adv _).trans (Suf.adv _)), by omega⟩
      simp [parseWorldItemPath, k1, hc, parseNamedWorldItem, parseIdent_ok k1, parseToken_ok k2,
        parseExternType, kf, hf0]
    · have ki := gInlineInterface_first hi
      obtain ⟨i0, st3, hi0, rfl, rfl, hs3, hl3⟩ := parseInlineInterface_complete hV gf _ hwf.adv.adv _ _ hi
        trivial pf hpf
      refine ⟨.Named ⟨identAt (tokAt st), .Interface i0⟩, st3, ?_,
        by simp [eraseWorldItemPath, eraseNamedWorldItem, eraseExternType, erase_identAt], rfl,
        hs3.trans ((Suf.adv _).trans (Suf.adv _)), by omega⟩
      simp [parseWorldItemPath, k1, hc, parseNamedWorldItem, parseIdent_ok k1, parseToken_ok k2,
        parseExternType, ki, hi0]
    · have l3 := len_of_nextTok k3
      refine ⟨.Named ⟨identAt (tokAt st), .Ident (identAt (tokAt (adv (adv st))))⟩, adv (adv (adv st)), ?_,
        by simp [eraseWorldItemPath, eraseNamedWorldItem, eraseExternType, erase_identAt], rfl,
        (Suf.adv _).trans ((Suf.adv _).trans (Suf.adv _)), by omega⟩
      simp [parseWorldItemPath, k1, hc, parseNamedWorldItem, parseIdent_ok k1, parseToken_ok k2,
        parseExternType, k3, parseIdent_ok k3]
  · simp only [bind_apply, List.mem_flatMap, Prod.exists, pure_apply, List.mem_singleton,
      Prod.mk.injEq, mem_gPackagePath] at h
    obtain ⟨p', r1, ⟨k1, hp, rfl⟩, rfl, rfl⟩ := h
    have hag := pkgPathAt_agree hV (tokAt st) (hwf.shape k1)
    rw [hp] at hag
    obtain ⟨p, hp0, rfl⟩ := Option.map_eq_some_iff.mp hag
    have l1 := len_of_nextTok k1
    refine ⟨.Package p, adv st, ?_, rfl, rfl, Suf.adv _, by omega⟩
    simp only [parseWorldItemPath, peekTok_of_nextTok k1, parsePackagePath_eq_ok.mpr ⟨k1, hp0, rfl⟩, Except.ok_bind]
  · simp [mem_gId, and_assoc] at h
    obtain ⟨k1, rfl, rfl⟩ := h
    have hno : (peekTok (adv st) == some Token.Colon) = false := by
      simpa using hf.peekTok_ne (k := .Colon) (by simp)
    have l1 := len_of_nextTok k1
    refine ⟨.Ident (identAt (tokAt st)), adv st, ?_, by simp [eraseWorldItemPath, erase_identAt], rfl,
      Suf.adv _, by omega⟩
    simp [parseWorldItemPath, k1, hno, parseIdent_ok k1]

/-- `world-ref ::= package-path | id` (inline in `gWorldItem`) -/
def gWorldRefC : SP WorldRef :=
  (do let p ← gPackagePath; pure (WorldRef.Package p)) <+> (do let id ← gId; pure (WorldRef.Ident id))

/-- `world-include-item ::= id 'as' id` (inline in `gWorldItem`) -/
def gWorldIncludeItemC : SP WorldIncludeItem := do
  let a ← gId; t "as"; let b ← gId; pure (⟨a, b⟩ : WorldIncludeItem)

/-- `world-import ::= 'import' world-item-path ';'` -/
def gWorldImportC (g : Nat) : SP WorldItem := do
  t "import"; let p ← gWorldItemPath g; t ";"; pure (.Import ⟨[], p⟩)

/-- `world-export ::= 'export' world-item-path ';'` -/
def gWorldExportC (g : Nat) : SP WorldItem := do
  t "export"; let p ← gWorldItemPath g; t ";"; pure (.Export ⟨[], p⟩)

/-- `world-include ::= 'include' world-ref ('with' '{' world-include-items '}')? ';'` -/
def gWorldIncludeC (g : Nat) : SP WorldItem := do
  t "include"
  let w ← gWorldRefC
  let items ← opt (do t "with"; t "{"; let is ← list0 gWorldIncludeItemC g; t "}"; pure is)
  t ";"; pure (.Include ⟨[], w, items.getD []⟩)

theorem gWorldItem_eqC (g : Nat) : gWorldItem g =
    ((do let u ← gUse g; pure (.Use u)) <+> (do let d ← gItemTypeDecl g; pure (.Type' d)) <+>
      gWorldImportC g <+> gWorldExportC g <+> gWorldIncludeC g) := rfl

theorem parseWorldRef_complete (hV : SemverAgree) {st : PState} (hwf : WF st) {x : WorldRef}
    {r : List STok} (h : (x, r) ∈ gWorldRefC (abs st)) :
    ∃ x0, parseWorldRef st = .ok (x0, adv st) ∧ eraseWorldRef x0 = x ∧ r = abs (adv st) ∧
      st.toks.length = (adv st).toks.length + 1 := by
  simp only [gWorldRefC, alt_apply, List.mem_append, bind_apply, List.mem_flatMap, Prod.exists,
    pure_apply, List.mem_singleton, Prod.mk.injEq, mem_gPackagePath, mem_gId] at h
  rcases h with ⟨p', r1, ⟨k1, hp, rfl⟩, rfl, rfl⟩ | ⟨i, r1, ⟨k1, rfl, rfl⟩, rfl, rfl⟩
  · have hag := pkgPathAt_agree hV (tokAt st) (hwf.shape k1)
    rw [hp] at hag
    obtain ⟨p, hp0, rfl⟩ := Option.map_eq_some_iff.mp hag
    refine ⟨.Package p, ?_, rfl, rfl, len_of_nextTok k1⟩
    simp only [parseWorldRef, peekTok_of_nextTok k1, parsePackagePath_eq_ok.mpr ⟨k1, hp0, rfl⟩, Except.ok_bind]
  · refine ⟨.Ident (identAt (tokAt st)), ?_, by simp [eraseWorldRef, erase_identAt], rfl, len_of_nextTok k1⟩
    simp only [parseWorldRef, peekTok_of_nextTok k1, parseIdent_ok k1, Except.ok_bind]

theorem parseWorldIncludeItem_suf {st st1 : PState} {x : WorldIncludeItem}
    (h : parseWorldIncludeItem st = .ok (x, st1)) :
    Suf st1 st ∧ st1.toks.length < st.toks.length := by
  simp only [parseWorldIncludeItem, Except.bind_eq_ok, Prod.exists, parseIdent_eq_ok,
    parseToken_eq_ok] at h
  obtain ⟨a, st1, ⟨k1, rfl, rfl⟩, tk, st2, ⟨k2, rfl, rfl⟩, b, st3, ⟨k3, rfl, rfl⟩, h4⟩ := h
  cases h4
  have l1 := len_of_nextTok k1
  have l2 := len_of_nextTok k2
  have l3 := len_of_nextTok k3
  exact ⟨(Suf.adv _).trans ((Suf.adv _).trans (Suf.adv _)), by omega⟩

theorem parseWorldIncludeItem_complete (st : PState) (a : WorldIncludeItem) (r1 : List STok)
    (h : (a, r1) ∈ gWorldIncludeItemC (abs st))
    (_ : r1.head? = some comma ∨ r1.head? = some (litTok .CloseBrace)) :
    ∃ x st1, parseWorldIncludeItem st = .ok (x, st1) ∧ eraseWorldIncludeItem x = a ∧ abs st1 = r1 ∧
      st1.toks.length < st.toks.length ∧ peekIn st [.Ident] = true ∧ peekTok st ≠ some .CloseBrace := by
  simp [gWorldIncludeItemC, mem_gId, and_assoc] at h
  obtain ⟨k1, k2, k3, rfl, rfl⟩ := h
  have l1 := len_of_nextTok k1
  have l2 := len_of_nextTok k2
  have l3 := len_of_nextTok k3
  refine ⟨⟨identAt (tokAt st), identAt (tokAt (adv (adv st)))⟩, adv (adv (adv st)), ?_,
    by simp [eraseWorldIncludeItem, erase_identAt], rfl, by omega, by simp [peekIn_iff, k1], by simp [k1]⟩
  simp only [parseWorldIncludeItem, parseIdent_ok k1, parseToken_ok k2, parseIdent_ok k3, Except.ok_bind]

theorem parseWorldImport_complete (hV : SemverAgree) (gf : Nat) {st : PState} (hwf : WF st)
    {x : WorldItem} {r : List STok} (h : (x, r) ∈ gWorldImportC gf (abs st)) {pf : Nat}
    (hpf : gf + 2 ≤ pf) :
    nextTok st = some .ImportKeyword ∧
    ∃ x0 st', parseWorldImport pf st = .ok (x0, st') ∧ eraseWorldItem (.Import x0) = x ∧ abs st' = r ∧
      Suf st' st ∧ st'.toks.length < st.toks.length := by
  simp [gWorldImportC, and_assoc] at h
  obtain ⟨k1, p', r1, hp, hsemi, rfl⟩ := h
  have hr1 := head_of_mem_t hsemi
  obtain ⟨p, st2, hp0, rfl, rfl, hs2, hl2⟩ := parseWorldItemPath_complete hV gf _ hwf.adv _ _ hp
    (FollowLit.of_cons (k := .Semicolon) rfl (by decide) hr1) pf hpf
  obtain ⟨k3, habs3⟩ := abs_adv_of_cons (k := .Semicolon) rfl hr1
  have l1 := len_of_nextTok k1
  have l3 := len_of_nextTok k3
  refine ⟨k1, ⟨parseDocs st, p⟩, adv st2, ?_, by simp [eraseWorldItem], habs3,
    (Suf.adv _).trans (hs2.trans (Suf.adv _)), by omega⟩
  simp only [parseWorldImport, parseToken_ok k1, hp0, parseToken_ok k3, Except.ok_bind]

theorem parseWorldExport_complete (hV : SemverAgree) (gf : Nat) {st : PState} (hwf : WF st)
    {x : WorldItem} {r : List STok} (h : (x, r) ∈ gWorldExportC gf (abs st)) {pf : Nat}
    (hpf : gf + 2 ≤ pf) :
    nextTok st = some .ExportKeyword ∧
    ∃ x0 st', parseWorldExport pf st = .ok (x0, st') ∧ eraseWorldItem (.Export x0) = x ∧ abs st' = r ∧
      Suf st' st ∧ st'.toks.length < st.toks.length := by
  simp [gWorldExportC, and_assoc] at h
  obtain ⟨k1, p', r1, hp, hsemi, rfl⟩ := h
  have hr1 := head_of_mem_t hsemi
  obtain ⟨p, st2, hp0, rfl, rfl, hs2, hl2⟩ := parseWorldItemPath_complete hV gf _ hwf.adv _ _ hp
    (FollowLit.of_cons (k := .Semicolon) rfl (by decide) hr1) pf hpf
  obtain ⟨k3, habs3⟩ := abs_adv_of_cons (k := .Semicolon) rfl hr1
  have l1 := len_of_nextTok k1
  have l3 := len_of_nextTok k3
  refine ⟨k1, ⟨parseDocs st, p⟩, adv st2, ?_, by simp [eraseWorldItem], habs3,
    (Suf.adv _).trans (hs2.trans (Suf.adv _)), by omega⟩
  simp only [parseWorldExport, parseToken_ok k1, hp0, parseToken_ok k3, Except.ok_bind]

theorem parseWorldInclude_complete (hV : SemverAgree) (gf : Nat) {st : PState} (hwf : WF st)
    {x : WorldItem} {r : List STok} (h : (x, r) ∈ gWorldIncludeC gf (abs st)) {pf : Nat}
    (hpf : gf + 2 ≤ pf) :
    nextTok st = some .IncludeKeyword ∧
    ∃ x0 st', parseWorldInclude pf st = .ok (x0, st') ∧ eraseWorldItem (.Include x0) = x ∧ abs st' = r ∧
      Suf st' st ∧ st'.toks.length < st.toks.length := by
  simp [gWorldIncludeC, and_assoc] at h
  obtain ⟨k1, w', r1, hw, hrest⟩ := h
  obtain ⟨w, hw0, rfl, rfl, l2⟩ := parseWorldRef_complete hV hwf.adv hw
  simp [and_assoc] at hrest
  have l1 := len_of_nextTok k1
  rcases hrest with ⟨k3, k4, o, r2, ⟨is', ⟨is, r3, hl, hclose, rfl⟩, rfl⟩, hsemi, rfl⟩ | ⟨k3, rfl, rfl⟩
  · have hr3 := head_of_mem_t hclose
    have hr2 := head_of_mem_t hsemi
    obtain ⟨ys, st6, hdel, rfl, k6, habs6, hl6⟩ := delimited_list0 .CloseBrace [.Ident]
      parseWorldIncludeItem eraseWorldIncludeItem gWorldIncludeItemC rfl (by decide)
      parseWorldIncludeItem_complete gf _ hl hr3 pf hpf
    obtain ⟨hs6, _, _⟩ := parseDelimited_struct _ _ _ _
      (fun st x st1 hx => parseWorldIncludeItem_suf hx) _ _ _ _ hdel
    obtain ⟨k7, habs7⟩ := abs_adv_of_cons (k := .Semicolon) rfl (habs6.trans hr2)
    have l3 := len_of_nextTok k3
    have l4 := len_of_nextTok k4
    have l6 := len_of_nextTok k6
    have l7 := len_of_nextTok k7
    refine ⟨k1, ⟨parseDocs st, w, ys⟩, adv (adv st6), ?_, by simp [eraseWorldItem], habs7,
      (Suf.adv _).trans ((Suf.adv _).trans (hs6.trans ((Suf.adv _).trans ((Suf.adv _).trans
        ((Suf.adv _).trans (Suf.adv _)))))), by omega⟩
    simp only [parseWorldInclude, parseToken_ok k1, hw0, parseOptional_of_peek _ k3, parseToken_ok k4,
      hdel, parseToken_ok k6, parseToken_ok k7, Except.ok_bind, Option.getD_some]
  · have l3 := len_of_nextTok k3
    have hno : peekTok (adv (adv st)) ≠ some .WithKeyword := by rw [peekTok_of_nextTok k3]; decide
    refine ⟨k1, ⟨parseDocs st, w, []⟩, adv (adv (adv st)), ?_, by simp [eraseWorldItem], rfl,
      (Suf.adv _).trans ((Suf.adv _).trans (Suf.adv _)), by omega⟩
    simp only [parseWorldInclude, parseToken_ok k1, hw0, parseOptional_none hno (peekErr_of_nextTok k3),
      parseToken_ok k3, Except.ok_bind, Option.getD_none]

theorem gWorldItem_first {g : Nat} {st : PState} {x : WorldItem} {r : List STok}
    (h : (x, r) ∈ gWorldItem g (abs st)) : peekIn st worldItemPeeks = true := by
  rw [gWorldItem_eqC] at h
  simp only [alt_apply, List.mem_append] at h
  rcases h with (((h | h) | h) | h) | h
  · simp at h
    obtain ⟨u, hu, _⟩ := h
    rw [peekIn_iff]; exact ⟨_, gUse_first hu, by decide⟩
  · simp at h
    obtain ⟨d, hd, _⟩ := h
    obtain ⟨k, hk, hm⟩ := (peekIn_iff _ _).mp (gItemTypeDecl_first hd)
    rw [peekIn_iff]
    exact ⟨k, hk, List.mem_cons_of_mem _ (List.mem_cons_of_mem _ (List.mem_cons_of_mem _
      (List.mem_cons_of_mem _ hm)))⟩
  · simp [gWorldImportC, and_assoc] at h
    rw [peekIn_iff]; exact ⟨_, peekTok_of_nextTok h.1, by decide⟩
  · simp [gWorldExportC, and_assoc] at h
    rw [peekIn_iff]; exact ⟨_, peekTok_of_nextTok h.1, by decide⟩
  · simp [gWorldIncludeC, and_assoc] at h
    rw [peekIn_iff]; exact ⟨_, peekTok_of_nextTok h.1, by decide⟩

theorem parseWorldItem_complete (hV : SemverAgree) (gf : Nat) :
    CompleteW eraseWorldItem parseWorldItem gWorldItem (fun _ => True) gf := by
  intro st hwf x r h _ pf hpf
  rw [gWorldItem_eqC] at h
  simp only [alt_apply, List.mem_append] at h
  rcases h with (((h | h) | h) | h) | h
  · simp at h
    obtain ⟨u, hu, rfl⟩ := h
    have k1 := gUse_first hu
    obtain ⟨u0, st', h0, rfl, rfl, hs, hl⟩ := parseUse_complete hV gf st hwf _ _ hu trivial pf hpf
    refine ⟨.Use u0, st', ?_, rfl, rfl, hs, hl⟩
    simp [parseWorldItem, k1, h0]
  · simp at h
    obtain ⟨d, hd, rfl⟩ := h
    have hin := gItemTypeDecl_first hd
    obtain ⟨d0, st', h0, rfl, rfl, hl⟩ := parseItemTypeDecl_complete gf _ _ _ hd trivial pf hpf
    have hs := (parseItemTypeDecl_sound _ _ _ _ h0).1
    have h1 : peekIs st .UseKeyword = false :=
      (peekIs_false_iff _ _).mpr (peekTok_ne_of_peekIn hin (by decide))
    have h2 : peekIs st .ImportKeyword = false :=
      (peekIs_false_iff _ _).mpr (peekTok_ne_of_peekIn hin (by decide))
    have h3 : peekIs st .ExportKeyword = false :=
      (peekIs_false_iff _ _).mpr (peekTok_ne_of_peekIn hin (by decide))
    have h4 : peekIs st .IncludeKeyword = false :=
      (peekIs_false_iff _ _).mpr (peekTok_ne_of_peekIn hin (by decide))
    refine ⟨.Type' d0, st', ?_, rfl, rfl, hs, hl⟩
    simp [parseWorldItem, h1, h2, h3, h4, hin, h0]
  · obtain ⟨k1, x0, st', h0, hx, hr, hs, hl⟩ := parseWorldImport_complete hV gf hwf h hpf
    refine ⟨.Import x0, st', ?_, hx, hr, hs, hl⟩
    simp [parseWorldItem, k1, h0]
  · obtain ⟨k1, x0, st', h0, hx, hr, hs, hl⟩ := parseWorldExport_complete hV gf hwf h hpf
    refine ⟨.Export x0, st', ?_, hx, hr, hs, hl⟩
    simp [parseWorldItem, k1, h0]
  · obtain ⟨k1, x0, st', h0, hx, hr, hs, hl⟩ := parseWorldInclude_complete hV gf hwf h hpf
    refine ⟨.Include x0, st', ?_, hx, hr, hs, hl⟩
    simp [parseWorldItem, k1, h0]

/-- `world-item* '}'` against the parser's `parse_delimited` -/
theorem worldBody_complete (hV : SemverAgree) {gf pf : Nat} (hpf : gf + 2 ≤ pf) (st : PState)
    (hwf : WF st) {xs : List WorldItem} {r1 r : List STok}
    (h : (xs, r1) ∈ many (gWorldItem gf) gf (abs st)) (hr : r1 = litTok .CloseBrace :: r) :
    ∃ ys st', parseDelimited .CloseBrace false worldItemPeeks (parseWorldItem pf) pf st =
        .ok (ys, st') ∧ ys.map eraseWorldItem = xs ∧ nextTok st' = some .CloseBrace ∧
      abs (adv st') = r ∧ Suf st' st :=
  delimited_many_wf .CloseBrace worldItemPeeks (parseWorldItem pf) eraseWorldItem
    (gWorldItem gf) rfl
    (fun st a r1 hwf ha => by
      obtain ⟨x, st1, h1, h2, h3, h4, h5⟩ := parseWorldItem_complete hV gf st hwf a r1 ha trivial pf hpf
      exact ⟨x, st1, h1, h2, h3, h4, h5, gWorldItem_first ha,
        peekTok_ne_of_peekIn (gWorldItem_first ha) (by decide)⟩)
    gf st hwf h hr pf (by omega)

/-! ### type statements -/

/-- `interface-decl ::= 'interface' id '{' interface-item* '}'` (inline in `gTypeStatement`) -/
def gInterfaceDeclC (g : Nat) : SP TypeStatement := do
  t "interface"; let id ← gId; t "{"; let items ← many (gInterfaceItem g) g; t "}"
  pure (.Interface ⟨[], id, items⟩)

/-- `world-decl ::= 'world' id '{' world-item* '}'` (inline in `gTypeStatement`) -/
def gWorldDeclC (g : Nat) : SP TypeStatement := do
  t "world"; let id ← gId; t "{"; let items ← many (gWorldItem g) g; t "}"
  pure (.World ⟨[], id, items⟩)

theorem gTypeStatement_eqC (g : Nat) : gTypeStatement g =
    (gInterfaceDeclC g <+> gWorldDeclC g <+> (do let d ← gTypeDecl g; pure (.Type' d))) := rfl

theorem parseInterfaceDecl_complete (hV : SemverAgree) (gf : Nat) {st : PState} (hwf : WF st)
    {x : TypeStatement} {r : List STok} (h : (x, r) ∈ gInterfaceDeclC gf (abs st)) {pf : Nat}
    (hpf : gf + 2 ≤ pf) :
    nextTok st = some .InterfaceKeyword ∧
    ∃ x0 st', parseInterfaceDecl pf st = .ok (x0, st') ∧ eraseTypeStatement (.Interface x0) = x ∧
      abs st' = r ∧ Suf st' st ∧ st'.toks.length < st.toks.length := by
  simp [gInterfaceDeclC, mem_gId, and_assoc] at h
  obtain ⟨k1, k2, k3, items, r1, hitems, hclose, rfl⟩ := h
  have hr1 := head_of_mem_t hclose
  obtain ⟨ys, st4, hdel, rfl, k5, habs5, hs4⟩ := interfaceBody_complete hV hpf _ hwf.adv.adv.adv hitems hr1
  have l1 := len_of_nextTok k1
  have l2 := len_of_nextTok k2
  have l3 := len_of_nextTok k3
  have l4 := hs4.len
  have l5 := len_of_nextTok k5
  refine ⟨k1, ⟨parseDocs st, identAt (tokAt (adv st)), ys⟩, adv st4, ?_,
    by simp [eraseTypeStatement, eraseInterfaceDecl, erase_identAt], habs5,
    (Suf.adv _).trans (hs4.trans ((Suf.adv _).trans ((Suf.adv _).trans (Suf.adv _)))), by omega⟩
  simp only [parseInterfaceDecl, parseToken_ok k1, parseIdent_ok k2, parseToken_ok k3, hdel,
    parseToken_ok k5, Except.ok_bind]

theorem parseWorldDecl_complete (hV : SemverAgree) (gf : Nat) {st : PState} (hwf : WF st)
    {x : TypeStatement} {r : List STok} (h : (x, r) ∈ gWorldDeclC gf (abs st)) {pf : Nat}
    (hpf : gf + 2 ≤ pf) :
    nextTok st = some .WorldKeyword ∧
    ∃ x0 st', parseWorldDecl pf st = .ok (x0, st') ∧ eraseTypeStatement (.World x0) = x ∧
      abs st' = r ∧ Suf st' st ∧ st'.toks.length < st.toks.length := by
  simp [gWorldDeclC, mem_gId, and_assoc] at h
  obtain ⟨k1, k2, k3, items, r1, hitems, hclose, rfl⟩ := h
  have hr1 := head_of_mem_t hclose
  obtain ⟨ys, st4, hdel, rfl, k5, habs5, hs4⟩ := worldBody_complete hV hpf _ hwf.adv.adv.adv hitems hr1
  have l1 := len_of_nextTok k1
  have l2 := len_of_nextTok k2
  have l3 := len_of_nextTok k3
  have l4 := hs4.len
  have l5 := len_of_nextTok k5
  refine ⟨k1, ⟨parseDocs st, identAt (tokAt (adv st)), ys⟩, adv st4, ?_,
    by simp [eraseTypeStatement, eraseWorldDecl, erase_identAt], habs5,
    (Suf.adv _).trans (hs4.trans ((Suf.adv _).trans ((Suf.adv _).trans (Suf.adv _)))), by omega⟩
  simp only [parseWorldDecl, parseToken_ok k1, parseIdent_ok k2, parseToken_ok k3, hdel,
    parseToken_ok k5, Except.ok_bind]

theorem gTypeStatement_first {g : Nat} {st : PState} {x : TypeStatement} {r : List STok}
    (h : (x, r) ∈ gTypeStatement g (abs st)) : peekIn st typeStatementPeeks = true := by
  rw [gTypeStatement_eqC] at h
  simp only [alt_apply, List.mem_append] at h
  rcases h with (h | h) | h
  · simp [gInterfaceDeclC, and_assoc] at h
    rw [peekIn_iff]; exact ⟨_, peekTok_of_nextTok h.1, by decide⟩
  · simp [gWorldDeclC, and_assoc] at h
    rw [peekIn_iff]; exact ⟨_, peekTok_of_nextTok h.1, by decide⟩
  · simp at h
    obtain ⟨d, hd, _⟩ := h
    obtain ⟨k, hk, hm⟩ := (peekIn_iff _ _).mp (gTypeDecl_first hd)
    rw [peekIn_iff]
    exact ⟨k, hk, List.mem_cons_of_mem _ (List.mem_cons_of_mem _ hm)⟩

theorem parseTypeStatement_complete (hV : SemverAgree) (gf : Nat) :
    CompleteW eraseTypeStatement parseTypeStatement gTypeStatement (fun _ => True) gf := by
  intro st hwf x r h _ pf hpf
  rw [gTypeStatement_eqC] at h
  simp only [alt_apply, List.mem_append] at h
  rcases h with (h | h) | h
  · obtain ⟨k1, x0, st', h0, hx, hr, hs, hl⟩ := parseInterfaceDecl_complete hV gf hwf h hpf
    refine ⟨.Interface x0, st', ?_, hx, hr, hs, hl⟩
    simp [parseTypeStatement, k1, h0]
  · obtain ⟨k1, x0, st', h0, hx, hr, hs, hl⟩ := parseWorldDecl_complete hV gf hwf h hpf
    refine ⟨.World x0, st', ?_, hx, hr, hs, hl⟩
    simp [parseTypeStatement, k1, h0]
  · simp at h
    obtain ⟨d, hd, rfl⟩ := h
    have hin := gTypeDecl_first hd
    obtain ⟨d0, st', h0, rfl, rfl, hl⟩ := parseTypeDecl_complete gf _ _ _ hd trivial pf hpf
    have hs := (parseTypeDecl_sound _ _ _ _ h0).1
    have h1 : peekIs st .InterfaceKeyword = false :=
      (peekIs_false_iff _ _).mpr (peekTok_ne_of_peekIn hin (by decide))
    have h2 : peekIs st .WorldKeyword = false :=
      (peekIs_false_iff _ _).mpr (peekTok_ne_of_peekIn hin (by decide))
    refine ⟨.Type' d0, st', ?_, rfl, rfl, hs, hl⟩
    simp [parseTypeStatement, h1, h2, hin, h0]

/-! ### import statements, `statement` -/

/-- `import-type ::= package-path | func-type | inline-interface | id` (inline in
`gImportStatement`) -/
def gImportTypeC (g : Nat) : SP ImportType :=
  (do let p ← gPackagePath; pure (ImportType.Package p)) <+>
  (do let f ← gFuncType g; pure (ImportType.Func f)) <+>
  (do let i ← gInlineInterface g; pure (ImportType.Interface i)) <+>
  (do let id ← gId; pure (ImportType.Ident id))

theorem gImportStatement_eqC (g : Nat) : gImportStatement g = (do
    t "import"; let id ← gId
    let name ← opt (do t "as"; gExternName)
    t ":"
    let ty ← gImportTypeC g
    t ";"; pure ⟨[], id, name, ty⟩) := rfl

theorem gImportStatement_first {g : Nat} {st : PState} {x : ImportStatement} {r : List STok}
    (h : (x, r) ∈ gImportStatement g (abs st)) : nextTok st = some .ImportKeyword := by
  rw [gImportStatement_eqC] at h
  simp [and_assoc] at h
  exact h.1

/-- the import type, followed by `;` -/
theorem parseImportType_complete (hV : SemverAgree) (gf : Nat) {st : PState} (hwf : WF st)
    {x : ImportType} {r1 r : List STok} (h : (x, r1) ∈ gImportTypeC gf (abs st))
    (hr : r1 = litTok .Semicolon :: r) {pf : Nat} (hpf : gf + 2 ≤ pf) :
    ∃ x0 st', parseImportType pf st = .ok (x0, st') ∧ eraseImportType x0 = x ∧ abs st' = r1 ∧
      Suf st' st ∧ st'.toks.length < st.toks.length := by
  simp only [gImportTypeC, alt_apply, List.mem_append] at h
  rcases h with ((h | h) | h) | h
  · simp only [bind_apply, List.mem_flatMap, Prod.exists, pure_apply, List.mem_singleton,
      Prod.mk.injEq, mem_gPackagePath] at h
    obtain ⟨p', r1, ⟨k1, hp, rfl⟩, rfl, rfl⟩ := h
    have hag := pkgPathAt_agree hV (tokAt st) (hwf.shape k1)
    rw [hp] at hag
    obtain ⟨p, hp0, rfl⟩ := Option.map_eq_some_iff.mp hag
    have l1 := len_of_nextTok k1
    refine ⟨.Package p, adv st, ?_, rfl, rfl, Suf.adv _, by omega⟩
    simp only [parseImportType, peekTok_of_nextTok k1, parsePackagePath_eq_ok.mpr ⟨k1, hp0, rfl⟩, Except.ok_bind]
  · simp at h
    obtain ⟨f, hfn, rfl⟩ := h
    have kf := gFuncType_first hfn
    obtain ⟨f0, st', hf0, rfl, rfl, hl⟩ := parseFuncType_complete gf _ _ _ hfn
      (FollowLit.of_cons (k := .Semicolon) rfl (by decide) hr) pf hpf
    have hs := (parseFuncType_sound _ _ _ _ hf0).1
    refine ⟨.Func f0, st', ?_, rfl, rfl, hs, hl⟩
    simp only [parseImportType, kf, hf0, Except.ok_bind]
  · simp at h
    obtain ⟨i, hi, rfl⟩ := h
    have ki := gInlineInterface_first hi
    obtain ⟨i0, st', hi0, rfl, rfl, hs, hl⟩ := parseInlineInterface_complete hV gf _ hwf _ _ hi
      trivial pf hpf
    refine ⟨.Interface i0, st', ?_, rfl, rfl, hs, hl⟩
    simp only [parseImportType, ki, hi0, Except.ok_bind]
  · simp [mem_gId, and_assoc] at h
    obtain ⟨k1, rfl, rfl⟩ := h
    have l1 := len_of_nextTok k1
    refine ⟨.Ident (identAt (tokAt st)), adv st, ?_, by simp [eraseImportType, erase_identAt], rfl,
      Suf.adv _, by omega⟩
    simp only [parseImportType, peekTok_of_nextTok k1, parseIdent_ok k1, Except.ok_bind]

/-- `import-type ';'` -/
theorem importTail_complete (hV : SemverAgree) (gf : Nat) {st : PState} (hwf : WF st)
    {ty' : ImportType} {r1 r : List STok} (hty : (ty', r1) ∈ gImportTypeC gf (abs st))
    (hsemi : ∃ u : Unit, (u, r) ∈ t ";" r1) {pf : Nat} (hpf : gf + 2 ≤ pf) :
    ∃ ty st', parseImportType pf st = .ok (ty, st') ∧ eraseImportType ty = ty' ∧
      nextTok st' = some .Semicolon ∧ abs (adv st') = r ∧ Suf st' st ∧
      st'.toks.length < st.toks.length := by
  have hr1 := head_of_mem_t hsemi
  obtain ⟨ty, st', h0, hty0, habs, hs, hl⟩ := parseImportType_complete hV gf hwf hty hr1 hpf
  obtain ⟨k, habs2⟩ := abs_adv_of_cons (k := .Semicolon) rfl (habs.trans hr1)
  exact ⟨ty, st', h0, hty0, k, habs2, hs, hl⟩

theorem parseImportStatement_complete (hV : SemverAgree) (gf : Nat) :
    CompleteW eraseImportStatement parseImportStatement gImportStatement (fun _ => True) gf := by
  intro st hwf x r h _ pf hpf
  rw [gImportStatement_eqC] at h
  simp [mem_gId, and_assoc] at h
  obtain ⟨k1, k2, h⟩ := h
  have l1 := len_of_nextTok k1
  have l2 := len_of_nextTok k2
  rcases h with ⟨k3, o, r1, ⟨n', hn, rfl⟩, u, r2, hcolon, ty', r3, hty, hsemi, rfl⟩ |
    ⟨k3, ty', r3, hty, hsemi, rfl⟩
  · have l3 := len_of_nextTok k3
    rcases mem_gExternName.mp hn with ⟨kn, rfl, rfl⟩ | ⟨kn, rfl, rfl⟩
    · simp at hcolon
      obtain ⟨k5, rfl⟩ := hcolon
      obtain ⟨ty, st7, h0, rfl, k8, habs8, hs7, hl7⟩ := importTail_complete hV gf hwf.adv.adv.adv.adv.adv
        hty hsemi hpf
      have l4 := len_of_nextTok kn
      have l5 := len_of_nextTok k5
      have l8 := len_of_nextTok k8
      refine ⟨⟨parseDocs st, identAt (tokAt (adv st)), some (.Ident (identAt (tokAt (adv (adv (adv st)))))), ty⟩,
        adv st7, ?_, by simp [eraseImportStatement, eraseExternName, erase_identAt], habs8,
        (Suf.adv _).trans (hs7.trans ((Suf.adv _).trans ((Suf.adv _).trans ((Suf.adv _).trans
          ((Suf.adv _).trans (Suf.adv _)))))), by omega⟩
      simp only [parseImportStatement, parseToken_ok k1, parseIdent_ok k2, parseOptional_of_peek _ k3,
        parseExternName_ok_ident kn, parseToken_ok k5, h0, parseToken_ok k8, Except.ok_bind]
    · simp at hcolon
      obtain ⟨k5, rfl⟩ := hcolon
      obtain ⟨ty, st7, h0, rfl, k8, habs8, hs7, hl7⟩ := importTail_complete hV gf hwf.adv.adv.adv.adv.adv
        hty hsemi hpf
      have l4 := len_of_nextTok kn
      have l5 := len_of_nextTok k5
      have l8 := len_of_nextTok k8
      refine ⟨⟨parseDocs st, identAt (tokAt (adv st)), some (.String (stringAt (tokAt (adv (adv (adv st)))))), ty⟩,
        adv st7, ?_, by simp [eraseImportStatement, eraseExternName, erase_identAt, erase_stringAt], habs8,
        (Suf.adv _).trans (hs7.trans ((Suf.adv _).trans ((Suf.adv _).trans ((Suf.adv _).trans
          ((Suf.adv _).trans (Suf.adv _)))))), by omega⟩
      simp only [parseImportStatement, parseToken_ok k1, parseIdent_ok k2, parseOptional_of_peek _ k3,
        parseExternName_ok_string kn, parseToken_ok k5, h0, parseToken_ok k8, Except.ok_bind]
  · obtain ⟨ty, st7, h0, rfl, k8, habs8, hs7, hl7⟩ := importTail_complete hV gf hwf.adv.adv.adv
      hty hsemi hpf
    have l3 := len_of_nextTok k3
    have l8 := len_of_nextTok k8
    have hno : peekTok (adv (adv st)) ≠ some .AsKeyword := by rw [peekTok_of_nextTok k3]; decide
    refine ⟨⟨parseDocs st, identAt (tokAt (adv st)), none, ty⟩,
      adv st7, ?_, by simp [eraseImportStatement, erase_identAt], habs8,
      (Suf.adv _).trans (hs7.trans ((Suf.adv _).trans ((Suf.adv _).trans (Suf.adv _)))), by omega⟩
    simp only [parseImportStatement, parseToken_ok k1, parseIdent_ok k2,
      parseOptional_none hno (peekErr_of_nextTok k3), parseToken_ok k3, h0, parseToken_ok k8,
      Except.ok_bind]

/-- **completeness of `statement`**, as needed by the document level -/
theorem stmtComplete (hV : SemverAgree) : StmtComplete := by
  intro gf st hwf x r h pf hpf
  obtain ⟨s, st', h0, hs, hr, _⟩ := gStatement_complete hV gf st
    (fun x r hx pf hpf => by
      obtain ⟨x0, st', h1, h2, h3, _, h5⟩ := parseImportStatement_complete hV gf st hwf x r hx trivial pf hpf
      exact ⟨x0, st', h1, h2, h3, h5⟩)
    (fun x r hx pf hpf => by
      obtain ⟨x0, st', h1, h2, h3, _, h5⟩ := parseTypeStatement_complete hV gf st hwf x r hx trivial pf hpf
      exact ⟨x0, st', h1, h2, h3, h5⟩)
    (fun x r hx => gImportStatement_first hx)
    (fun x r hx => gTypeStatement_first hx)
    x r h pf hpf
  exact ⟨s, st', h0, hs, hr⟩

end Wac.C12
