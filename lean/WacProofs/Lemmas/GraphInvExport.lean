import WacProofs.Lemmas.GraphInv
/-
  `export` and `unexport` preserve `Inv`.
-/
namespace Wac.Graph
open Wac Wac.HashSites

/-- overwriting a live slot, stated on field equalities -/
theorem freeInv_of_set {g g' : Graph} (f : FreeInv g) {n : Nat} {old nd : Node} (hl : g.node? n = some old)
    (hn : g'.nodes = g.nodes.set n (some nd)) (hf : g'.freeNodes = g.freeNodes) :
    FreeInv g' ∧ ∀ m, g'.node? m = if m = n then some nd else g.node? m := by
  have hlt := node?_eq_some_lt hl
  have hnode : ∀ m, g'.node? m = if m = n then some nd else g.node? m := fun m => node?_set hn hlt m
  refine ⟨⟨by rw [hf]; exact f.nodup, ?_, ?_⟩, hnode⟩
  · intro i hi
    rw [hf] at hi
    have := f.vacant i hi
    refine ⟨by rw [hn, List.length_set]; exact this.1, ?_⟩
    rw [hnode]
    have hne : i ≠ n := fun e => by rw [e, hl] at this; exact absurd this.2 (by simp)
    simp [hne, this.2]
  · intro i hi hv
    rw [hn, List.length_set] at hi
    rw [hnode] at hv
    by_cases h : i = n
    · simp [h] at hv
    · simp only [h, ↓reduceIte] at hv
      rw [hf]; exact f.all i hi hv

/-- the nodes of `g'` are those of `g` with slot `n` replaced by a similar node -/
structure Replaced (g g' : Graph) (n : Nat) (nd nd' : Node) : Prop where
  old : g.node? n = some nd
  node : ∀ m, g'.node? m = if m = n then some nd' else g.node? m
  sim : NodeSim nd nd'

theorem Replaced.fwd {g g' : Graph} {n : Nat} {nd nd' : Node} (r : Replaced g g' n nd nd') {m : Nat} {x : Node}
    (hx : g.node? m = some x) : ∃ x', g'.node? m = some x' ∧ NodeSim x x' ∧ (m ≠ n → x' = x) ∧ (m = n → x = nd ∧ x' = nd') := by
  rw [r.node]
  by_cases hm : m = n
  · subst hm
    rw [r.old] at hx; cases hx
    exact ⟨nd', by simp, r.sim, fun h => absurd rfl h, fun _ => ⟨rfl, rfl⟩⟩
  · exact ⟨x, by simp [hm, hx], NodeSim.refl _, fun _ => rfl, fun h => absurd h hm⟩

theorem Replaced.bwd {g g' : Graph} {n : Nat} {nd nd' : Node} (r : Replaced g g' n nd nd') {m : Nat} {x' : Node}
    (hx : g'.node? m = some x') : (m = n ∧ x' = nd') ∨ (m ≠ n ∧ g.node? m = some x') := by
  rw [r.node] at hx
  by_cases hm : m = n
  · simp only [hm, ↓reduceIte, Option.some.injEq] at hx
    exact Or.inl ⟨hm, hx.symm⟩
  · simp only [hm, ↓reduceIte] at hx
    exact Or.inr ⟨hm, hx⟩

theorem Replaced.edgeOk {ctx : Ctx} {g g' : Graph} {n : Nat} {nd nd' : Node} (r : Replaced g g' n nd nd')
    (hp : g'.pkgs = g.pkgs) {e : Edge} (h : EdgeOk ctx g e) : EdgeOk ctx g' e :=
  h.transfer hp (fun _ _ hx => let ⟨x', a, b, _⟩ := r.fwd hx; ⟨x', a, b⟩)

/-- `export`, successful call, on field equalities -/
theorem inv_export {ctx : Ctx} {g g' : Graph} {n : Nat} {name : Str} {nd nd' : Node}
    (h : Inv ctx g) (hfresh : alGet g.exports name = none) (hnd : g.node? n = some nd)
    (hsim : NodeSim nd nd') (hname : nd'.name = nd.name)
    (hexp : (nd.isDef = true ∧ nd'.exp = nd.exp) ∨ nd'.exp = some name)
    (hn : g'.nodes = g.nodes.set n (some nd')) (hfn : g'.freeNodes = g.freeNodes) (he : g'.edges = g.edges)
    (him : g'.imports = g.imports) (hde : g'.defined = g.defined)
    (hex : g'.exports = alInsert g.exports name n)
    (hp : g'.pkgs = g.pkgs) (hm : g'.pkgMap = g.pkgMap) (hfp : g'.freePkgs = g.freePkgs) : Inv ctx g' := by
  obtain ⟨hfree, hnode⟩ := freeInv_of_set h.free hnd hn hfn
  have r : Replaced g g' n nd nd' := ⟨hnd, hnode, hsim⟩
  have pk := pkgPart_congr h hp hm hfp
  have hnok := h.node hnd
  -- the new node has an export name
  have hexpSome : nd'.exp.isSome = true := by
    rcases hexp with ⟨hd, he'⟩ | he'
    · rw [he']
      obtain ⟨_, h2, _⟩ := hnok
      unfold Node.isDef at hd
      split at hd
      · rename_i ty hk
        rw [hk] at h2; exact h2.2
      · cases hd
    · rw [he']; rfl
  apply Inv.build
  · intro e hem; rw [he] at hem; exact r.edgeOk hp (h.edges e hem)
  · rw [he]; exact h.argUnique
  · intro m x' hx'
    rcases r.bwd hx' with ⟨rfl, rfl⟩ | ⟨hm', hx⟩
    · -- the exported node itself
      rcases hexp with ⟨_, he'⟩ | he'
      · refine hnok.mono hsim he' hp (fun e hem => by rw [he]; exact hem) (fun _ => by unfold Graph.inEdges; rw [he])
          (fun k hk => by rw [him]; exact hk) (fun k hk => by rw [hde]; exact hk) ?_
        intro k hk; rw [hex]; exact alGet_insert_other hfresh hk
      · obtain ⟨h1, h2, _⟩ := hnok
        refine ⟨?_, ?_, ?_⟩
        · intro pid hpid
          rw [hsim.2.1] at hpid
          rw [pkgLive_congr hp]; exact h1 pid hpid
        · rw [hsim.1]
          cases hk : nd.kind with
          | instantiation sat =>
            rw [hk] at h2
            simp only at h2 ⊢
            rw [he, hsim.2.1, hsim.2.2]
            obtain ⟨a, b, pid, hpid, pd, hpd, hit⟩ := h2
            exact ⟨a, b, pid, hpid, pd, by rw [pkgOf_congr hp]; exact hpd, hit⟩
          | alias =>
            rw [hk] at h2
            simp only at h2 ⊢
            unfold Graph.inEdges at h2 ⊢
            rw [he]; exact h2
          | «import» nm =>
            rw [hk] at h2
            simp only at h2 ⊢
            rw [him]; exact h2
          | definition ty =>
            rw [hk] at h2
            simp only at h2 ⊢
            rw [hde]; exact ⟨h2.1, hexpSome⟩
        · intro nm hnm
          rw [he'] at hnm
          simp only [Option.mem_def, Option.some.injEq] at hnm
          subst hnm
          rw [hex, alGet_alInsert]; simp
    · refine (h.node hx).mono (NodeSim.refl _) rfl hp (fun e hem => by rw [he]; exact hem)
        (fun _ => by unfold Graph.inEdges; rw [he]) (fun k hk => by rw [him]; exact hk)
        (fun k hk => by rw [hde]; exact hk) ?_
      intro k hk; rw [hex]; exact alGet_insert_other hfresh hk
  · rw [hex]; exact alInsert_keys_nodup hfresh h.exportsKeys
  · intro e hem
    rw [hex] at hem
    rcases (alInsert_mem hfresh e).mp hem with hem | rfl
    · obtain ⟨x, hx, hxe⟩ := h.exportsLive' e hem
      obtain ⟨x', a, _, c, d⟩ := r.fwd hx
      refine ⟨x', a, ?_⟩
      by_cases hm' : e.2 = n
      · rw [(d hm').2]; exact hexpSome
      · rw [c hm']; exact hxe
    · exact ⟨nd', by rw [hnode]; simp, hexpSome⟩
  · rw [him]; exact h.importsKeys
  · intro e hem; rw [him] at hem
    obtain ⟨x, hx, hxe⟩ := h.importsLive' e hem
    obtain ⟨x', a, b, _⟩ := r.fwd hx
    exact ⟨x', a, by rw [b.1]; exact hxe⟩
  · rw [hde]; exact h.definedKeys
  · intro e hem; rw [hde] at hem
    obtain ⟨x, hx, hxe⟩ := h.definedLive' e hem
    obtain ⟨x', a, b, _⟩ := r.fwd hx
    exact ⟨x', a, by rw [b.1]; exact hxe⟩
  · exact pk.1
  · exact pk.2.1
  · exact pk.2.2.1
  · exact pk.2.2.2.1
  · exact pk.2.2.2.2
  · exact hfree

theorem inv_exportNode {ctx : Ctx} {g g' : Graph} {n : Nat} {name : Str} {out : Outcome}
    (h : Inv ctx g) (hs : exportNode ctx g n name = (g', out)) : Inv ctx g' := by
  unfold exportNode at hs
  split at hs
  · simp only [Prod.mk.injEq] at hs; rw [← hs.1]; exact h
  · rename_i hfresh
    split at hs
    · simp only [Prod.mk.injEq] at hs; rw [← hs.1]; exact h
    · split at hs
      · simp only [Prod.mk.injEq] at hs; rw [← hs.1]; exact h
      · rename_i nd hnd
        simp only [Prod.mk.injEq] at hs
        rw [← hs.1]
        cases hk : nd.kind with
        | definition ty =>
          cases hr : ctx.exportRenamesDefinition with
          | false =>
            refine inv_export (nd' := nd) h hfresh hnd (NodeSim.refl _) rfl (Or.inl ⟨by simp [Node.isDef, hk], rfl⟩)
              ?_ rfl rfl rfl rfl rfl rfl rfl rfl
            simp [Graph.setNode, hk, hr]
          | true =>
            refine inv_export (nd' := { nd with exp := some name }) h hfresh hnd ⟨rfl, rfl, rfl⟩ rfl
              (Or.inr rfl) ?_ rfl rfl rfl rfl rfl rfl rfl rfl
            simp [Graph.setNode, hk, hr]
        | instantiation sat =>
          refine inv_export (nd' := { nd with exp := some name }) h hfresh hnd ⟨rfl, rfl, rfl⟩ rfl
            (Or.inr rfl) ?_ rfl rfl rfl rfl rfl rfl rfl rfl
          simp [Graph.setNode, hk]
        | alias =>
          refine inv_export (nd' := { nd with exp := some name }) h hfresh hnd ⟨rfl, rfl, rfl⟩ rfl
            (Or.inr rfl) ?_ rfl rfl rfl rfl rfl rfl rfl rfl
          simp [Graph.setNode, hk]
        | «import» nm =>
          refine inv_export (nd' := { nd with exp := some name }) h hfresh hnd ⟨rfl, rfl, rfl⟩ rfl
            (Or.inr rfl) ?_ rfl rfl rfl rfl rfl rfl rfl rfl
          simp [Graph.setNode, hk]

end Wac.Graph
