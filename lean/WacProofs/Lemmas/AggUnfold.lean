import WacProofs.Lemmas.AggMonad
/-
  C09 general theorems, part 2: fuel-free unfolding (`HasVT`, `HasFn`, `HasTree`), collections all
  of whose defined types unfold (`Closed`: the aggregator's own collection; `Sane`: a contributor's),
  fuel sufficiency, and congruence of `unfoldDefined` under a component-wise relation (`DRel`).
-/
namespace Wac.AggP
open Wac Wac.Spec

def HasVT (T : Types) (v : ValueType) (t : Tree) : Prop := ∃ n, T.unfoldVT n v = some t
def HasFn (T : Types) (f : Nat) (t : Tree) : Prop := ∃ n, T.unfoldFunc n f = some t
def HasTree (T : Types) (k : ItemKind) (t : Tree) : Prop := ∃ n, T.unfoldKind n k = some t

theorem HasVT.ext {T T' : Types} (h : Ext T T') {v : ValueType} {t : Tree} (hv : HasVT T v t) : HasVT T' v t := by
  obtain ⟨n, hn⟩ := hv; exact ⟨n, h.unfoldVT n v t hn⟩

theorem HasFn.ext {T T' : Types} (h : Ext T T') {f : Nat} {t : Tree} (hv : HasFn T f t) : HasFn T' f t := by
  obtain ⟨n, hn⟩ := hv; exact ⟨n, h.unfoldFunc n f t hn⟩

theorem unfoldVT_det (T : Types) {n m : Nat} {v : ValueType} {x y : Tree}
    (hx : T.unfoldVT n v = some x) (hy : T.unfoldVT m v = some y) : x = y := by
  have h1 := unfoldVT_mono T (Nat.le_max_left n m) v x hx
  have h2 := unfoldVT_mono T (Nat.le_max_right n m) v y hy
  rw [h1] at h2; exact Option.some.inj h2

theorem HasVT.det {T : Types} {v : ValueType} {x y : Tree} (hx : HasVT T v x) (hy : HasVT T v y) : x = y := by
  obtain ⟨n, hn⟩ := hx; obtain ⟨m, hm⟩ := hy; exact unfoldVT_det T hn hm

theorem HasFn.det {T : Types} {f : Nat} {x y : Tree} (hx : HasFn T f x) (hy : HasFn T f y) : x = y := by
  obtain ⟨n, hn⟩ := hx; obtain ⟨m, hm⟩ := hy
  exact unfoldKind_det T (n := n + 1) (m := m + 1) (k := .func f) (by simpa [Types.unfoldKind] using hn)
    (by simpa [Types.unfoldKind] using hm)

/-- every defined type of the collection unfolds, within fuel `index + 2` (true of the collection
the aggregator builds: a defined type is appended after its components) -/
def Closed (T : Types) : Prop := ∀ d, d < T.defined.length → ∃ t, T.unfoldVT (d + 2) (.defined d) = some t

theorem unfoldVT_defined_lt {T : Types} {n d : Nat} {t : Tree} (h : T.unfoldVT n (.defined d) = some t) :
    d < T.defined.length := by
  cases n with
  | zero => simp [Types.unfoldVT] at h
  | succ n =>
    simp only [Types.unfoldVT] at h
    rcases Nat.lt_or_ge d T.defined.length with hl | hl
    · exact hl
    · rw [List.getElem?_eq_none hl] at h; cases h

/-- **fuel sufficiency** for a closed collection -/
theorem Closed.vt_fuel {T : Types} (hc : Closed T) {n : Nat} {v : ValueType} {t : Tree}
    (h : T.unfoldVT n v = some t) : T.unfoldVT (T.defined.length + 1) v = some t := by
  cases n with
  | zero => simp [Types.unfoldVT] at h
  | succ n =>
    cases v with
    | prim p => simpa [Types.unfoldVT] using h
    | own r => simpa [Types.unfoldVT] using h
    | borrow r => simpa [Types.unfoldVT] using h
    | defined d =>
      have hl := unfoldVT_defined_lt h
      obtain ⟨t', ht'⟩ := hc d hl
      have := unfoldVT_det T h ht'
      subst this
      exact unfoldVT_mono T (by omega) _ _ ht'

theorem Closed.hasVT {T : Types} (hc : Closed T) {v : ValueType} {t : Tree} (h : HasVT T v t) :
    T.unfoldVT (T.defined.length + 1) v = some t := by
  obtain ⟨n, hn⟩ := h; exact hc.vt_fuel hn

theorem Closed.fn_fuel {T : Types} (hc : Closed T) {n f : Nat} {t : Tree}
    (h : T.unfoldFunc n f = some t) : T.unfoldFunc (T.defined.length + 1) f = some t := by
  simp only [Types.unfoldFunc] at h ⊢
  cases hd : T.funcs[f]? with
  | none => simp [hd] at h
  | some ft =>
    simp only [hd] at h ⊢
    split at h
    · rename_i ps r h1 h2
      have e1 : unfoldNamed (T.unfoldVT (T.defined.length + 1)) ft.params = some ps := by
        have : ∀ (l : List (Str × ValueType)) (F : Forest), unfoldNamed (T.unfoldVT n) l = some F →
            unfoldNamed (T.unfoldVT (T.defined.length + 1)) l = some F := by
          intro l
          induction l with
          | nil => intro F hF; simpa [unfoldNamed] using hF
          | cons e l ih =>
            obtain ⟨nm, a⟩ := e
            intro F hF
            simp only [unfoldNamed] at hF ⊢
            split at hF
            · rename_i t0 fr g1 g2
              rw [hc.vt_fuel g1, ih fr g2]; exact hF
            · cases hF
        exact this _ _ h1
      have e2 : unfoldOpt (T.unfoldVT (T.defined.length + 1)) ft.result = some r := by
        cases hr : ft.result with
        | none => rw [hr] at h2; simpa [unfoldOpt] using h2
        | some x => rw [hr] at h2; simp only [unfoldOpt] at h2 ⊢; exact hc.vt_fuel h2
      rw [e1, e2]; exact h
    · cases h

/-- leaf kinds of a closed collection unfold within the collection's default fuel -/
theorem Closed.leaf_fuel {T : Types} (hc : Closed T) {k : ItemKind} (hk : LeafK k) {n : Nat} {t : Tree}
    (h : T.unfoldKind n k = some t) {m : Nat} (hm : T.defined.length + 2 ≤ m) : T.unfoldKind m k = some t := by
  cases n with
  | zero => simp [Types.unfoldKind] at h
  | succ n =>
    refine unfoldKind_mono T hm k t ?_
    cases k with
    | func f => simp only [Types.unfoldKind] at h ⊢; exact hc.fn_fuel h
    | value v =>
      simp only [Types.unfoldKind] at h ⊢
      obtain ⟨x, hx, rfl⟩ := Option.map_eq_some_iff.1 h
      rw [hc.vt_fuel hx]; rfl
    | type ty =>
      cases ty with
      | func f =>
        simp only [Types.unfoldKind] at h ⊢
        obtain ⟨x, hx, rfl⟩ := Option.map_eq_some_iff.1 h
        rw [hc.fn_fuel hx]; rfl
      | value v =>
        simp only [Types.unfoldKind] at h ⊢
        obtain ⟨x, hx, rfl⟩ := Option.map_eq_some_iff.1 h
        rw [hc.vt_fuel hx]; rfl
      | _ => cases hk
    | «instance» _ => cases hk
    | component _ => cases hk
    | module _ => cases hk

/-- a contributor's collection: no resources, every defined type unfolds (acyclic, no dangling id) -/
def saneB (C : Types) : Bool :=
  C.resources.isEmpty && (List.range C.defined.length).all fun d => (C.unfoldVT C.fuel (.defined d)).isSome

structure Sane (C : Types) : Prop where
  nores : C.resources = []
  total : ∀ d, d < C.defined.length → ∃ t, HasVT C (.defined d) t

theorem sane_of_saneB {C : Types} (h : saneB C = true) : Sane C := by
  simp only [saneB, Bool.and_eq_true, List.isEmpty_iff, List.all_eq_true, List.mem_range] at h
  refine ⟨h.1, fun d hd => ?_⟩
  have := h.2 d hd
  cases hu : C.unfoldVT C.fuel (.defined d) with
  | none => simp [hu] at this
  | some t => exact ⟨t, C.fuel, hu⟩

theorem resLeaf_nores {C : Types} (h : C.resources = []) (r : Nat) : C.resLeaf r = none := by
  simp [Types.resLeaf, h, Types.resolveResource]

theorem Sane.no_own {C : Types} (h : Sane C) (r : Nat) (t : Tree) : ¬ HasVT C (.own r) t := by
  rintro ⟨n, hn⟩
  cases n with
  | zero => simp [Types.unfoldVT] at hn
  | succ n => simp [Types.unfoldVT, resLeaf_nores h.nores] at hn

theorem Sane.no_borrow {C : Types} (h : Sane C) (r : Nat) (t : Tree) : ¬ HasVT C (.borrow r) t := by
  rintro ⟨n, hn⟩
  cases n with
  | zero => simp [Types.unfoldVT] at hn
  | succ n => simp [Types.unfoldVT, resLeaf_nores h.nores] at hn

/-! ### component-wise relations on defined types -/

def ORel {α β : Type} (Q : α → β → Prop) : Option α → Option β → Prop
  | none, none => True
  | some a, some b => Q a b
  | _, _ => False

/-- `x'` is `x` with every component value type replaced by a `Q`-related one -/
def DRel (Q : ValueType → ValueType → Prop) : DefinedType → DefinedType → Prop
  | .tuple ts, .tuple ts' => All2 Q ts ts'
  | .list a, .list a' => Q a a'
  | .fixedSizeList a n, .fixedSizeList a' n' => Q a a' ∧ n = n'
  | .option a, .option a' => Q a a'
  | .result ok err, .result ok' err' => ORel Q ok ok' ∧ ORel Q err err'
  | .variant cs, .variant cs' => All2 (fun c c' => c.1 = c'.1 ∧ ORel Q c.2 c'.2) cs cs'
  | .record fs, .record fs' => All2 (fun f f' => f.1 = f'.1 ∧ Q f.2 f'.2) fs fs'
  | .flags ns, .flags ns' => ns = ns'
  | .enum ns, .enum ns' => ns = ns'
  | .alias a, .alias a' => Q a a'
  | .stream a, .stream a' => ORel Q a a'
  | .future a, .future a' => ORel Q a a'
  | _, _ => False

section congr
variable {Q : ValueType → ValueType → Prop} {u u' : ValueType → Option Tree}
  (H : ∀ v v' t, Q v v' → u v = some t → u' v' = some t)
include H

theorem unfoldOpt_congr {a a' : Option ValueType} (h : ORel Q a a') (t : Tree)
    (ha : unfoldOpt u a = some t) : unfoldOpt u' a' = some t := by
  cases a with
  | none => cases a' with
    | none => simpa [unfoldOpt] using ha
    | some _ => cases h
  | some x => cases a' with
    | none => cases h
    | some y => exact H x y t h (by simpa [unfoldOpt] using ha)

theorem unfoldUnnamed_congr : ∀ {l l' : List ValueType}, All2 Q l l' → ∀ F, unfoldUnnamed u l = some F →
    unfoldUnnamed u' l' = some F
  | _, _, .nil, F, hF => by simpa [unfoldUnnamed] using hF
  | _, _, .cons (a := a) (b := b) (l := l) (l' := l') hq hr, F, hF => by
    simp only [unfoldUnnamed] at hF ⊢
    split at hF
    · rename_i t fr h1 h2
      rw [H a b t hq h1, unfoldUnnamed_congr hr fr h2]; exact hF
    · cases hF

theorem unfoldNamed_congr : ∀ {l l' : List (Str × ValueType)}, All2 (fun f f' => f.1 = f'.1 ∧ Q f.2 f'.2) l l' →
    ∀ F, unfoldNamed u l = some F → unfoldNamed u' l' = some F
  | _, _, .nil, F, hF => by simpa [unfoldNamed] using hF
  | _, _, .cons (a := a) (b := b) (l := l) (l' := l') hq hr, F, hF => by
    obtain ⟨na, va⟩ := a
    obtain ⟨nb, vb⟩ := b
    obtain ⟨hn, hq⟩ := hq
    simp only at hn hq
    subst hn
    simp only [unfoldNamed] at hF ⊢
    split at hF
    · rename_i t fr h1 h2
      rw [H va vb t hq h1, unfoldNamed_congr hr fr h2]; exact hF
    · cases hF

theorem unfoldNamedOpt_congr : ∀ {l l' : List (Str × Option ValueType)},
    All2 (fun c c' => c.1 = c'.1 ∧ ORel Q c.2 c'.2) l l' →
    ∀ F, unfoldNamedOpt u l = some F → unfoldNamedOpt u' l' = some F
  | _, _, .nil, F, hF => by simpa [unfoldNamedOpt] using hF
  | _, _, .cons (a := a) (b := b) (l := l) (l' := l') hq hr, F, hF => by
    obtain ⟨na, va⟩ := a
    obtain ⟨nb, vb⟩ := b
    obtain ⟨hn, hq⟩ := hq
    simp only at hn hq
    subst hn
    simp only [unfoldNamedOpt] at hF ⊢
    split at hF
    · rename_i t fr h1 h2
      rw [unfoldOpt_congr H hq t h1, unfoldNamedOpt_congr hr fr h2]; exact hF
    · cases hF

theorem unfoldDefined_congr {x x' : DefinedType} (h : DRel Q x x') (t : Tree)
    (hx : unfoldDefined u x = some t) : unfoldDefined u' x' = some t := by
  cases x <;> cases x' <;> simp only [DRel] at h <;> simp only [unfoldDefined] at hx ⊢
  case alias.alias a a' => exact H a a' t h hx
  case tuple.tuple ts ts' =>
    obtain ⟨F, hF, rfl⟩ := Option.map_eq_some_iff.1 hx
    rw [unfoldUnnamed_congr H h F hF]; rfl
  case list.list a a' =>
    obtain ⟨F, hF, rfl⟩ := Option.map_eq_some_iff.1 hx
    rw [H a a' F h hF]; rfl
  case fixedSizeList.fixedSizeList a n a' n' =>
    obtain ⟨F, hF, rfl⟩ := Option.map_eq_some_iff.1 hx
    rw [H a a' F h.1 hF, h.2]; rfl
  case option.option a a' =>
    obtain ⟨F, hF, rfl⟩ := Option.map_eq_some_iff.1 hx
    rw [H a a' F h hF]; rfl
  case result.result ok err ok' err' =>
    split at hx
    · rename_i a b h1 h2
      rw [unfoldOpt_congr H h.1 a h1, unfoldOpt_congr H h.2 b h2]; exact hx
    · cases hx
  case variant.variant cs cs' =>
    obtain ⟨F, hF, rfl⟩ := Option.map_eq_some_iff.1 hx
    rw [unfoldNamedOpt_congr H h F hF]; rfl
  case record.record fs fs' =>
    obtain ⟨F, hF, rfl⟩ := Option.map_eq_some_iff.1 hx
    rw [unfoldNamed_congr H h F hF]; rfl
  case flags.flags => rw [← h]; exact hx
  case enum.enum => rw [← h]; exact hx
  case stream.stream a a' =>
    obtain ⟨F, hF, rfl⟩ := Option.map_eq_some_iff.1 hx
    rw [unfoldOpt_congr H h F hF]; rfl
  case future.future a a' =>
    obtain ⟨F, hF, rfl⟩ := Option.map_eq_some_iff.1 hx
    rw [unfoldOpt_congr H h F hF]; rfl

end congr

theorem All2.mono {α β : Type} {Q Q' : α → β → Prop} (h : ∀ a b, Q a b → Q' a b) :
    ∀ {l l'}, All2 Q l l' → All2 Q' l l'
  | _, _, .nil => .nil
  | _, _, .cons hq hr => .cons (h _ _ hq) (All2.mono h hr)

end Wac.AggP
