import WacModel.Encode
import WacProofs.Lemmas.Skeleton
/-
  Basic facts about the encoder model's state: what the section reader sees after each `emit`
  (`G st`), counters in step with the provenance tables (`Sync`), and provenance facts that
  survive every later emission (`Has`, `Ext`).
-/
namespace Wac

/-- what the section reader has read after the items emitted so far -/
def G (st : EncSt) : WState := wiringSt st.items

/-- the builder's counters are the lengths of the provenance tables -/
def Sync (st : EncSt) : Prop := ∀ k, st.cnt k = ((G st).prov k).length

/-- index `i` of space `k` exists and has provenance `t` -/
def Has (w : WState) (k : Kind) (i : Nat) (t : Term) : Prop := i < (w.prov k).length ∧ w.look k i = t

/-- `w'` keeps every provenance fact of `w` -/
def Ext (w w' : WState) : Prop := ∀ k i t, Has w k i t → Has w' k i t

theorem Ext.refl (w : WState) : Ext w w := fun _ _ _ h => h
theorem Ext.trans {a b c : WState} (h1 : Ext a b) (h2 : Ext b c) : Ext a c := fun k i t h => h2 k i t (h1 k i t h)

theorem Ext.wstep (w : WState) (it : Item) : Ext w (wstep w it) := by
  intro k i t ⟨hlt, hl⟩
  exact ⟨Nat.lt_of_lt_of_le hlt (wstep_len_le w it k), by rw [wstep_look_lt w it k i hlt]; exact hl⟩

theorem Has.new (w : WState) (it : Item) (k : Kind) (h : it.alloc = some k) :
    Has (wstep w it) k (w.prov k).length (newTerm w it) :=
  ⟨by rw [wstep_len]; simp [h], wstep_look_new w it k h⟩

theorem Has.look {w : WState} {k : Kind} {i : Nat} {t : Term} (h : Has w k i t) : w.look k i = t := h.2

theorem Has.unique {w : WState} {k : Kind} {i : Nat} {t t' : Term} (h : Has w k i t) (h' : Has w k i t') : t = t' := by
  rw [← h.2, ← h'.2]

/-! ### `emit` -/

theorem emit_items (st : EncSt) (it : Item) : (st.emit it).1.items = st.items ++ [it] := by
  unfold EncSt.emit; split <;> rfl

theorem emit_G (st : EncSt) (it : Item) : G (st.emit it).1 = wstep (G st) it := by
  simp [G, emit_items, wiringSt_snoc]

theorem emit_nodeIdx (st : EncSt) (it : Item) : (st.emit it).1.nodeIdx = st.nodeIdx := by
  unfold EncSt.emit; split <;> rfl
theorem emit_pkgs (st : EncSt) (it : Item) : (st.emit it).1.pkgs = st.pkgs := by
  unfold EncSt.emit; split <;> rfl
theorem emit_implicit (st : EncSt) (it : Item) : (st.emit it).1.implicit = st.implicit := by
  unfold EncSt.emit; split <;> rfl
theorem emit_instances (st : EncSt) (it : Item) : (st.emit it).1.instances = st.instances := by
  unfold EncSt.emit; split <;> rfl

theorem emit_cnt (st : EncSt) (it : Item) (k : Kind) :
    (st.emit it).1.cnt k = st.cnt k + (if it.alloc = some k then 1 else 0) := by
  unfold EncSt.emit
  split
  · rename_i k0 h0
    by_cases hk : k = k0
    · subst hk; simp [h0]
    · have : ¬ (k0 = k) := fun e => hk e.symm
      simp [hk, h0, this]
  · rename_i h0; simp [h0]

theorem emit_sync {st : EncSt} (h : Sync st) (it : Item) : Sync (st.emit it).1 := by
  intro k
  rw [emit_cnt, emit_G, wstep_len, h k]

theorem emit_idx {st : EncSt} (h : Sync st) (it : Item) (k : Kind) (ha : it.alloc = some k) :
    (st.emit it).2 = ((G st).prov k).length := by
  unfold EncSt.emit
  simp [ha, h k]

theorem emit_ext (st : EncSt) (it : Item) : Ext (G st) (G (st.emit it).1) := by
  rw [emit_G]; exact Ext.wstep _ _

/-- the index returned by `emit` has the item's provenance -/
theorem emit_has {st : EncSt} (h : Sync st) (it : Item) (k : Kind) (ha : it.alloc = some k) :
    Has (G (st.emit it).1) k (st.emit it).2 (newTerm (G st) it) := by
  rw [emit_G, emit_idx h it k ha]
  exact Has.new _ _ _ ha

theorem emit_w (st : EncSt) (it : Item) : (G (st.emit it).1).w = (wstep (G st) it).w := by
  rw [emit_G]

/-! ### association lists keyed by node / slot numbers -/

theorem natGet_nil {β} (k : Nat) : natGet ([] : List (Nat × β)) k = none := rfl

theorem natGet_cons {β} (e : Nat × β) (m : List (Nat × β)) (k : Nat) :
    natGet (e :: m) k = if e.1 = k then some e.2 else natGet m k := by
  unfold natGet
  by_cases h : e.1 = k
  · simp [List.find?_cons, h]
  · have : (e.1 == k) = false := by simpa using h
    simp [List.find?_cons, this, h]

theorem natGet_append {β} (m m' : List (Nat × β)) (k : Nat) :
    natGet (m ++ m') k = match natGet m k with | some v => some v | none => natGet m' k := by
  induction m with
  | nil => simp [natGet_nil]
  | cons e m ih =>
    simp only [List.cons_append, natGet_cons]
    by_cases h : e.1 = k
    · simp [h]
    · simp [h, ih]

theorem natGet_snoc {β} (m : List (Nat × β)) (n : Nat) (v : β) (k : Nat) :
    natGet (m ++ [(n, v)]) k = match natGet m k with | some x => some x | none => if n = k then some v else none := by
  rw [natGet_append]
  cases natGet m k <;> simp [natGet_cons, natGet_nil]

theorem natGet_filter_ne {β} (m : List (Nat × β)) (n k : Nat) (h : k ≠ n) :
    natGet (m.filter fun e => e.1 != n) k = natGet m k := by
  induction m with
  | nil => rfl
  | cons e m ih =>
    by_cases he : e.1 = n
    · have : (e.1 != n) = false := by simp [he]
      rw [List.filter_cons_of_neg (by simpa using he), natGet_cons, ih]
      have : ¬ e.1 = k := fun ek => h (ek ▸ he)
      simp [this]
    · rw [List.filter_cons_of_pos (by simpa using he), natGet_cons, natGet_cons, ih]

end Wac
