import WacModel.GraphToVal
import WacModel.Spec.EncodeWF
import WacProofs.Lemmas.GraphAbsOps2
import WacProofs.Lemmas.GraphQueries
import WacProofs.Lemmas.GraphAbsQueries
/-
  Bridge C06 → C01: the graph value of a consistent state of the graph model is well formed
  in the sense of the encoder family (`Spec.WF`), so the encoding theorems apply to it.
-/
namespace Wac.Graph
open Wac Wac.HashSites

/-- lookup by key in a list produced by `filterMap` from a list of keys -/
theorem find_filterMap_key {β : Type} (key : β → Nat) (F : Nat → Option β)
    (hkey : ∀ n b, F n = some b → key b = n) (m : Nat) : ∀ l : List Nat,
    (l.filterMap F).find? (fun b => key b == m) = if m ∈ l then F m else none
  | [] => by simp
  | a :: r => by
    have ih := find_filterMap_key key F hkey m r
    rw [List.filterMap_cons]
    cases hfa : F a with
    | none =>
      simp only
      rw [ih]
      by_cases hma : m = a
      · subst hma; simp [hfa]
      · simp [hma]
    | some b =>
      simp only
      rw [List.find?_cons]
      have hk := hkey a b hfa
      by_cases hma : m = a
      · subst hma; simp [hk, hfa]
      · have : (key b == m) = false := by rw [hk]; simpa using Ne.symm hma
        rw [this, ih]
        simp [hma]

theorem toNode_id (ctx : Ctx) (vc : ValCtx) (g : Graph) (n : Nat) (nd : Node) : (toNode ctx vc g n nd).id = n := rfl

/-- `GraphVal.node?` of the graph value is the node of the model -/
theorem toGraphVal_node? (ctx : Ctx) (vc : ValCtx) (g : Graph) (m : Nat) :
    (toGraphVal ctx vc g).node? m = (g.node? m).map (toNode ctx vc g m) := by
  unfold GraphVal.node? toGraphVal
  simp only
  rw [find_filterMap_key (fun b : Wac.Node => b.id) (fun n => (g.node? n).map (toNode ctx vc g n))]
  · by_cases hm : m ∈ g.nodeIds
    · simp [hm]
    · simp only [hm, ↓reduceIte]
      have : g.live m = false := by
        cases hq : g.live m with
        | false => rfl
        | true => exact absurd (mem_nodeIds.mpr hq) hm
      unfold Graph.live at this
      cases hq : g.node? m with
      | none => rfl
      | some x => rw [hq] at this; cases this
  · intro n b hb
    cases hq : g.node? n with
    | none => rw [hq] at hb; cases hb
    | some x => rw [hq] at hb; simp only [Option.map_some, Option.some.injEq] at hb; rw [← hb]; rfl

theorem mem_toGraphVal_nodes {ctx : Ctx} {vc : ValCtx} {g : Graph} {v : Wac.Node} (hv : v ∈ (toGraphVal ctx vc g).nodes) :
    ∃ n nd, g.node? n = some nd ∧ v = toNode ctx vc g n nd := by
  unfold toGraphVal at hv
  simp only [List.mem_filterMap] at hv
  obtain ⟨n, _, hn⟩ := hv
  cases hq : g.node? n with
  | none => rw [hq] at hn; cases hn
  | some nd => rw [hq] at hn; exact ⟨n, nd, hq, (Option.some.inj hn).symm⟩

theorem toGraphVal_ids (ctx : Ctx) (vc : ValCtx) (g : Graph) : (toGraphVal ctx vc g).ids = g.nodeIds := by
  unfold GraphVal.ids toGraphVal
  simp only
  have key : ∀ l : List Nat, (∀ n ∈ l, g.live n = true) →
      (l.filterMap fun n => (g.node? n).map (toNode ctx vc g n)).map (·.id) = l := by
    intro l
    induction l with
    | nil => intro _; rfl
    | cons a r ih =>
      intro hl
      obtain ⟨x, hx⟩ := live_iff.mp (hl a (List.mem_cons_self ..))
      rw [List.filterMap_cons, hx]
      simp only [Option.map_some, List.map_cons]
      rw [ih (fun n hn => hl n (List.mem_cons_of_mem _ hn))]
      rfl
  exact key _ (fun n hn => mem_nodeIds.mp hn)

/-- `GraphVal.pkg?` of the graph value is the occupied slot of the model -/
theorem toGraphVal_pkg? (ctx : Ctx) (vc : ValCtx) (g : Graph) (s : Nat) :
    (toGraphVal ctx vc g).pkg? s = pkgEntry vc g s := by
  unfold GraphVal.pkg? toGraphVal
  simp only
  rw [find_filterMap_key (fun b : Wac.PkgVal => b.slot) (pkgEntry vc g)]
  · by_cases hs : s ∈ List.range g.pkgs.length
    · simp [hs]
    · simp only [hs, ↓reduceIte]
      rw [List.mem_range] at hs
      unfold pkgEntry
      rw [List.getElem?_eq_none (Nat.le_of_not_lt hs)]
  · intro n b hb
    unfold pkgEntry at hb
    cases hq : g.pkgs[n]? with
    | none => rw [hq] at hb; cases hb
    | some slot =>
      rw [hq] at hb
      simp only at hb
      cases hp : slot.pkg with
      | none => rw [hp] at hb; cases hb
      | some d => rw [hp] at hb; simp only [Option.map_some, Option.some.injEq] at hb; rw [← hb]; rfl

/-! ### the satisfied set and the argument edges -/

theorem mem_argsOf {l : List (Wac.EdgeW × Nat)} {a : Str × Nat} :
    a ∈ Wac.Node.argsOf l ↔ ∃ i, (Wac.EdgeW.arg i a.1, a.2) ∈ l := by
  induction l with
  | nil => simp [Wac.Node.argsOf]
  | cons x r ih =>
    obtain ⟨w, s⟩ := x
    cases w with
    | arg i nm =>
      simp only [Wac.Node.argsOf, List.mem_cons, ih]
      constructor
      · rintro (h | ⟨j, h⟩)
        · exact ⟨i, Or.inl (by rw [h])⟩
        · exact ⟨j, Or.inr h⟩
      · rintro ⟨j, h | h⟩
        · left
          simp only [Prod.mk.injEq, Wac.EdgeW.arg.injEq] at h
          obtain ⟨⟨_, h2⟩, h3⟩ := h
          exact Prod.ext h2 h3
        · exact Or.inr ⟨j, h⟩
    | alias e =>
      simp only [Wac.Node.argsOf, List.mem_cons, ih]
      constructor
      · rintro ⟨j, h⟩; exact ⟨j, Or.inr h⟩
      · rintro ⟨j, h | h⟩
        · cases h
        · exact ⟨j, h⟩
    | dep =>
      simp only [Wac.Node.argsOf, List.mem_cons, ih]
      constructor
      · rintro ⟨j, h⟩; exact ⟨j, Or.inr h⟩
      · rintro ⟨j, h | h⟩
        · cases h
        · exact ⟨j, h⟩

theorem zipIdx_filter_map {α : Type} (P : α × Nat → Bool) (Q : α → Bool) : ∀ (l : List α) (k : Nat),
    (∀ i (h : i < l.length), P (l[i], k + i) = Q l[i]) →
    ((l.zipIdx k).filter P).map (·.1) = l.filter Q
  | [], _, _ => rfl
  | x :: r, k, h => by
    have h0 : P (x, k) = Q x := by
      have := h 0 (Nat.zero_lt_succ _)
      simp only [List.getElem_cons_zero, Nat.add_zero] at this
      exact this
    have ih := zipIdx_filter_map P Q r (k + 1) (fun i hi => by
      have := h (i + 1) (by simpa using hi)
      simpa [Nat.add_assoc, Nat.add_comm 1 i] using this)
    rw [List.zipIdx_cons, List.filter_cons, List.filter_cons, h0]
    cases hq : Q x with
    | true => simp only [↓reduceIte, List.map_cons, ih]
    | false => simp only [Bool.false_eq_true, ↓reduceIte, ih]

theorem nodup_getElem_inj {α : Type} : ∀ {l : List α}, l.Nodup → ∀ {i j : Nat} (hi : i < l.length) (hj : j < l.length),
    l[i] = l[j] → i = j
  | [], _, i, _, hi, _, _ => by simp at hi
  | x :: r, hn, i, j, hi, hj, he => by
    rw [List.nodup_cons] at hn
    cases i with
    | zero =>
      cases j with
      | zero => rfl
      | succ j =>
        exfalso
        simp only [List.getElem_cons_zero, List.getElem_cons_succ] at he
        exact hn.1 (he ▸ List.getElem_mem _)
    | succ i =>
      cases j with
      | zero =>
        exfalso
        simp only [List.getElem_cons_zero, List.getElem_cons_succ] at he
        exact hn.1 (he ▸ List.getElem_mem _)
      | succ j =>
        simp only [List.getElem_cons_succ] at he
        have := nodup_getElem_inj hn.2 (by simpa using hi) (by simpa using hj) he
        rw [this]

theorem pkgOf_ok_slot {g : Graph} {id : PkgId} {d : PkgDef} (h : g.pkgOf id = .ok d) :
    ∃ sl, g.pkgs[id.index]? = some sl ∧ sl.pkg = some d := by
  unfold Graph.pkgOf at h
  cases hs : g.pkgs[id.index]? with
  | none => rw [hs] at h; cases h
  | some sl =>
    rw [hs] at h
    simp only at h
    split at h
    · cases h
    · cases hp : sl.pkg with
      | none => rw [hp] at h; cases h
      | some d' => rw [hp] at h; simp only [Except.ok.injEq] at h; exact ⟨sl, rfl, by rw [hp, h]⟩

/-- the graph value of a consistent state is well formed (`Spec.WF`, the hypothesis of the
    encoder family's theorems), given what the graph model does not contain: the encoder-level
    kinds of definitions and instances, distinct import names per package, and that no definition
    is exported under a second name (known finding `enc-definition-renamed-by-export`) -/
theorem wf_toGraphVal {ctx : Ctx} (vc : ValCtx) {g : Graph} (h : Inv ctx g)
    (hdef : ∀ n nd, g.node? n = some nd → nd.isDef = true → (vc.ty nd.item).kind = .type)
    (hinst : ∀ id d, g.pkgOf id = .ok d → (vc.ty d.instKind).kind = .instance)
    (hnames : ∀ id d, g.pkgOf id = .ok d → (d.imports.map (·.1)).Nodup)
    (hdefs : ∀ e ∈ g.exports, ∀ nd, g.node? e.2 = some nd → nd.isDef = true → nd.exp = some e.1) :
    Spec.WF (toGraphVal ctx vc g) := by
  refine ⟨?_, ?_, ?_, ?_, ?_, ?_⟩
  · rw [toGraphVal_ids]
    unfold Graph.nodeIds
    exact List.filter_sublist.nodup List.nodup_range
  · intro v hv hk
    obtain ⟨n, nd, hnd, rfl⟩ := mem_toGraphVal_nodes hv
    have hk' : toNodeKind nd = .definition := hk
    apply hdef n nd hnd
    unfold toNodeKind at hk'
    unfold Node.isDef
    cases hq : nd.kind <;> rw [hq] at hk' <;> first | rfl | cases hk'
  · intro v hv slot sat hk
    obtain ⟨n, nd, hnd, rfl⟩ := mem_toGraphVal_nodes hv
    have hk' : toNodeKind nd = .instantiation slot sat := hk
    show (vc.ty nd.item).kind = .instance
    unfold toNodeKind at hk'
    cases hq : nd.kind with
    | instantiation s =>
      have h2 := (h.node hnd).2.1
      rw [hq] at h2
      simp only at h2
      obtain ⟨_, _, pid, _, pd, hpd, hitem⟩ := h2
      rw [hitem]
      exact hinst pid pd (toOption_mem.mp hpd)
    | definition ty => rw [hq] at hk'; cases hk'
    | «import» nm => rw [hq] at hk'; cases hk'
    | alias => rw [hq] at hk'; cases hk'
  · intro v hv m hm
    obtain ⟨n, nd, hnd, rfl⟩ := mem_toGraphVal_nodes hv
    cases hm
  · intro e he v hv hd
    rw [toGraphVal_node?] at hv
    cases hq : g.node? e.2 with
    | none => rw [hq] at hv; cases hv
    | some nd =>
      rw [hq] at hv
      simp only [Option.map_some, Option.some.injEq] at hv
      subst hv
      show nd.exp = some e.1
      apply hdefs e he nd hq
      have hd' : (toNodeKind nd = .definition) := by
        unfold Wac.Node.isDefinition at hd
        have : (toNode ctx vc g e.2 nd).kind = toNodeKind nd := rfl
        rw [this] at hd
        cases hk : toNodeKind nd <;> rw [hk] at hd <;> first | rfl | cases hd
      unfold toNodeKind at hd'
      unfold Node.isDef
      cases hk : nd.kind <;> rw [hk] at hd' <;> first | rfl | cases hd'
  · intro v hv slot sat p hk hp
    obtain ⟨n, nd, hnd, rfl⟩ := mem_toGraphVal_nodes hv
    have hk' : toNodeKind nd = .instantiation slot sat := hk
    unfold toNodeKind at hk'
    cases hkk : nd.kind with
    | definition ty => rw [hkk] at hk'; cases hk'
    | «import» nm => rw [hkk] at hk'; cases hk'
    | alias => rw [hkk] at hk'; cases hk'
    | instantiation sat' =>
      rw [hkk] at hk'
      simp only [Wac.NodeKind.instantiation.injEq] at hk'
      obtain ⟨hslot, hsat'⟩ := hk'
      subst hsat'
      have h2 := (h.node hnd).2.1
      rw [hkk] at h2
      simp only at h2
      obtain ⟨_, hsat, pid, hpid, pd, hpd, _⟩ := h2
      rw [Option.mem_def] at hpid
      rw [hpid] at hslot
      simp only at hslot
      have hok := toOption_mem.mp hpd
      obtain ⟨sl, hsl, hslp⟩ := pkgOf_ok_slot hok
      rw [toGraphVal_pkg?] at hp
      unfold pkgEntry at hp
      rw [← hslot, hsl] at hp
      simp only [hslp, Option.map_some, Option.some.injEq] at hp
      subst hp
      have hinstDef : instDef g n = some pd := by
        unfold instDef
        rw [hnd]; simp only [hpid, hsl, hslp]
      have hargName : ∀ j (hj : j < pd.imports.length), argName g n j = (pd.imports[j]).1 := by
        intro j hj
        unfold argName
        rw [hinstDef]
        simp only
        rw [List.getElem?_eq_getElem hj]
      have hnd' := hnames pid pd hok
      unfold Wac.unsatisfied Spec.unsatisfiedByArgs
      apply zipIdx_filter_map
      intro i hi
      have hi' : i < pd.imports.length := by simpa [toPkgVal] using hi
      have hname : ((toPkgVal vc pid.index pd).imports[i]).name = (pd.imports[i]).1 := by
        simp [toPkgVal]
      simp only [Nat.zero_add]
      rw [hname]
      congr 1
      apply bool_ext_iff
      simp only [List.contains_eq_mem, decide_eq_true_eq, List.any_eq_true, beq_iff_eq]
      constructor
      · intro hmem
        obtain ⟨e, he, hd, hke⟩ := hsat i hmem
        refine ⟨(argName g n i, e.src), ?_, hargName i hi'⟩
        unfold Wac.Node.args
        rw [mem_argsOf]
        refine ⟨i, ?_⟩
        show (Wac.EdgeW.arg i (argName g n i), e.src) ∈ (g.inEdges n).map fun e => (edgeW ctx g e, e.src)
        rw [List.mem_map]
        refine ⟨e, mem_inEdges.mpr ⟨he, hd⟩, ?_⟩
        unfold edgeW
        rw [hke, hd]
      · rintro ⟨a, ha, hname'⟩
        unfold Wac.Node.args at ha
        rw [mem_argsOf] at ha
        obtain ⟨j, hj⟩ := ha
        have hj' : (Wac.EdgeW.arg j a.1, a.2) ∈ (g.inEdges n).map fun e => (edgeW ctx g e, e.src) := hj
        rw [List.mem_map] at hj'
        obtain ⟨e, he, hee⟩ := hj'
        obtain ⟨he1, hdst⟩ := mem_inEdges.mp he
        simp only [Prod.mk.injEq] at hee
        obtain ⟨hw, _⟩ := hee
        unfold edgeW at hw
        cases hke : e.kind with
        | alias q => rw [hke] at hw; cases hw
        | dep => rw [hke] at hw; cases hw
        | arg j' =>
          rw [hke] at hw
          simp only [Wac.EdgeW.arg.injEq] at hw
          obtain ⟨hjj, hnm⟩ := hw
          subst hjj
          rw [hdst] at hnm
          -- the edge is well formed: its index is satisfied and in range
          obtain ⟨s, _, dn, hdn, hkk⟩ := h.edges e he1
          rw [hdst, Option.mem_def, hnd] at hdn
          cases hdn
          rw [hke] at hkk
          simp only at hkk
          obtain ⟨hjsat, _, pid', hpid', pd', hpd', hlt⟩ := hkk
          rw [Option.mem_def, hpid] at hpid'
          cases hpid'
          have : pd' = pd := by
            have h1 := toOption_mem.mp hpd'
            rw [h1] at hok
            exact Except.ok.inj hok
          rw [this] at hlt
          have hjs : j' ∈ sat' := by simpa [Node.sat, hkk] using hjsat
          -- same name, distinct names: same index
          have heqn : (pd.imports[j']).1 = (pd.imports[i]).1 := by
            rw [← hargName j' hlt, hnm, hname']
          have hji : j' = i := by
            have e1 : (pd.imports.map (·.1))[j']'(by simpa using hlt) = (pd.imports.map (·.1))[i]'(by simpa using hi') := by
              simpa using heqn
            exact nodup_getElem_inj hnd' _ _ e1
          rw [← hji]; exact hjs

/-! ### the graph value contains what the public queries report -/

/-- `Node.aliasSource` of the graph value is `get_alias_source` -/
theorem toNode_aliasSource {ctx : Ctx} (vc : ValCtx) {g : Graph} (h : Inv ctx g) (n : Nat) (nd : Node) :
    getAliasSource ctx g n = .ok (toNode ctx vc g n nd).aliasSource := by
  rw [getAliasSource_abs h]
  congr 1
  unfold Abs.getAliasSource Wac.Node.aliasSource
  show _ = ((g.inEdges n).map fun e => (edgeW ctx g e, e.src)).findSome? _
  have e1 : (abs g).aliasOf n = aliasOfE g.edges n := rfl
  rw [e1]
  unfold Graph.inEdges
  -- walk the edge list
  have key : ∀ es : List Edge, (∀ e ∈ es, e ∈ g.edges) →
      (match aliasOfE es n with
        | none => none
        | some (s, j) =>
          match (abs g).node s with
          | none => none
          | some snd =>
            match ctx.kindExports snd.item with
            | none => none
            | some exps => match exps[j]? with
              | none => none
              | some (nm, _) => some (s, nm)) =
      ((es.filter (fun e => e.dst == n)).map fun e => (edgeW ctx g e, e.src)).findSome?
        (fun x => match x.1 with | .alias e => some (x.2, e) | _ => none) := by
    intro es
    induction es with
    | nil => intro _; rfl
    | cons e r ih =>
      intro hsub
      have ih' := ih (fun e' he' => hsub e' (List.mem_cons_of_mem _ he'))
      by_cases hd : e.dst = n
      · have hf : (e :: r).filter (fun e => e.dst == n) = e :: r.filter (fun e => e.dst == n) := by
          simp [List.filter_cons, hd]
        rw [hf, List.map_cons, List.findSome?_cons]
        cases hk : e.kind with
        | alias j =>
          rw [aliasOfE_cons_alias hk, if_pos hd]
          simp only [edgeW, hk]
          -- the edge is well formed: the lookups succeed
          obtain ⟨sn, hs, d, _, hkk⟩ := h.edges e (hsub e (List.mem_cons_self ..))
          rw [hk] at hkk
          simp only at hkk
          obtain ⟨_, _, exps, hexps, q, hq', _⟩ := hkk
          rw [Option.mem_def] at hs hexps hq'
          rw [abs_node_some hs]
          simp only
          have : sn.abs.item = sn.item := rfl
          rw [this, hexps]
          simp only
          rw [hq']
          simp only [aliasName, hs, hexps, hq']
        | arg j =>
          rw [aliasOfE_cons_nonalias (by rw [hk]; rfl)]
          simp only [edgeW, hk]
          exact ih'
        | dep =>
          rw [aliasOfE_cons_nonalias (by rw [hk]; rfl)]
          simp only [edgeW, hk]
          exact ih'
      · have hf : (e :: r).filter (fun e => e.dst == n) = r.filter (fun e => e.dst == n) := by
          simp [List.filter_cons, hd]
        rw [hf]
        cases hk : e.kind with
        | alias j => rw [aliasOfE_cons_alias hk, if_neg hd]; exact ih'
        | arg j => rw [aliasOfE_cons_nonalias (by rw [hk]; rfl)]; exact ih'
        | dep => rw [aliasOfE_cons_nonalias (by rw [hk]; rfl)]; exact ih'
  exact key g.edges (fun _ he => he)

theorem argsOf_nil_of_nonarg : ∀ (l : List (Wac.EdgeW × Nat)), (∀ x ∈ l, ∀ i nm, x.1 ≠ .arg i nm) → Wac.Node.argsOf l = []
  | [], _ => rfl
  | (w, s) :: r, h => by
    have ih := argsOf_nil_of_nonarg r (fun x hx => h x (List.mem_cons_of_mem _ hx))
    cases w with
    | arg i nm => exact absurd rfl (h (.arg i nm, s) (List.mem_cons_self ..) i nm)
    | alias e => simp only [Wac.Node.argsOf, ih]
    | dep => simp only [Wac.Node.argsOf, ih]

/-- `Node.args` of the graph value is `get_instantiation_arguments`, in the same order -/
theorem toNode_args {ctx : Ctx} (vc : ValCtx) {g : Graph} (h : Inv ctx g) {n : Nat} {nd : Node}
    (hnd : g.node? n = some nd) : getInstantiationArguments g n = .ok (toNode ctx vc g n nd).args := by
  unfold Wac.Node.args
  show _ = Except.ok (Wac.Node.argsOf ((g.inEdges n).map fun e => (edgeW ctx g e, e.src)))
  cases hk : nd.kind with
  | instantiation sat =>
    have hinst : nd.isInst = true := by simp [Node.isInst, hk]
    have h2 := (h.node hnd).2.1
    rw [hk] at h2
    simp only at h2
    obtain ⟨_, _, pid, hpid, d, hpd, _⟩ := h2
    rw [Option.mem_def] at hpid
    have hok := toOption_mem.mp hpd
    obtain ⟨sl, hsl, hslp⟩ := pkgOf_ok_slot hok
    have hall : ∀ e ∈ g.inEdges n, ∃ j, e.kind = .arg j ∧ j < d.imports.length := by
      intro e he
      obtain ⟨he1, hdst⟩ := mem_inEdges.mp he
      obtain ⟨s, _, dn, hdn, hkk⟩ := h.edges e he1
      rw [hdst, Option.mem_def, hnd] at hdn
      cases hdn
      obtain ⟨j, hj, _⟩ := inEdges_of_inst h hnd hinst e he1 hdst
      rw [hj] at hkk
      simp only at hkk
      obtain ⟨_, _, pid', hpid', pd', hpd', hlt⟩ := hkk
      rw [Option.mem_def, hpid] at hpid'
      cases hpid'
      have : pd' = d := by
        have h1 := toOption_mem.mp hpd'
        rw [h1] at hok
        exact Except.ok.inj hok
      rw [this] at hlt
      exact ⟨j, hj, hlt⟩
    have hq : getInstantiationArguments g n = .ok ((g.inEdges n).filterMap (argEntry d)) := by
      unfold getInstantiationArguments
      rw [hnd]
      simp only [hk, hpid, hsl, hslp]
      exact argsGo_eq d (g.inEdges n) hall
    rw [hq]
    congr 1
    have hinstDef : instDef g n = some d := by
      unfold instDef
      rw [hnd]; simp only [hpid, hsl, hslp]
    have key : ∀ es : List Edge, (∀ e ∈ es, e ∈ g.inEdges n) →
        es.filterMap (argEntry d) = Wac.Node.argsOf (es.map fun e => (edgeW ctx g e, e.src)) := by
      intro es
      induction es with
      | nil => intro _; rfl
      | cons e r ih =>
        intro hsub
        have ih' := ih (fun e' he' => hsub e' (List.mem_cons_of_mem _ he'))
        have hein := hsub e (List.mem_cons_self ..)
        obtain ⟨j, hj, hlt⟩ := hall e hein
        obtain ⟨_, hdst⟩ := mem_inEdges.mp hein
        rw [List.filterMap_cons, List.map_cons]
        have h1 : argEntry d e = some ((d.imports[j]).1, e.src) := by
          unfold argEntry
          rw [hj]
          simp only
          rw [List.getElem?_eq_getElem hlt]
          rfl
        have h2 : edgeW ctx g e = .arg j (d.imports[j]).1 := by
          unfold edgeW
          rw [hj]
          simp only
          unfold argName
          rw [hdst, hinstDef]
          simp only
          rw [List.getElem?_eq_getElem hlt]
        rw [h1, h2]
        simp only [Wac.Node.argsOf, ih']
    exact key _ (fun _ he => he)
  | definition ty =>
    have hq : getInstantiationArguments g n = .ok [] := by
      unfold getInstantiationArguments; rw [hnd]; simp only [hk]
    rw [hq]
    congr 1
    symm
    apply argsOf_nil_of_nonarg
    intro x hx i nm hxe
    obtain ⟨e, he, rfl⟩ := List.mem_map.mp hx
    obtain ⟨he1, hdst⟩ := mem_inEdges.mp he
    simp only at hxe
    unfold edgeW at hxe
    cases hke : e.kind with
    | alias q => rw [hke] at hxe; cases hxe
    | dep => rw [hke] at hxe; cases hxe
    | arg j =>
      obtain ⟨s, _, dn, hdn, hkk⟩ := h.edges e he1
      rw [hdst, Option.mem_def, hnd] at hdn
      cases hdn
      rw [hke] at hkk
      simp only at hkk
      have := hkk.2.1
      simp [Node.isInst, hk] at this
  | «import» nm0 =>
    have hq : getInstantiationArguments g n = .ok [] := by
      unfold getInstantiationArguments; rw [hnd]; simp only [hk]
    rw [hq]
    congr 1
    symm
    apply argsOf_nil_of_nonarg
    intro x hx i nm hxe
    obtain ⟨e, he, rfl⟩ := List.mem_map.mp hx
    obtain ⟨he1, hdst⟩ := mem_inEdges.mp he
    simp only at hxe
    unfold edgeW at hxe
    cases hke : e.kind with
    | alias q => rw [hke] at hxe; cases hxe
    | dep => rw [hke] at hxe; cases hxe
    | arg j =>
      obtain ⟨s, _, dn, hdn, hkk⟩ := h.edges e he1
      rw [hdst, Option.mem_def, hnd] at hdn
      cases hdn
      rw [hke] at hkk
      simp only at hkk
      have := hkk.2.1
      simp [Node.isInst, hk] at this
  | alias =>
    have hq : getInstantiationArguments g n = .ok [] := by
      unfold getInstantiationArguments; rw [hnd]; simp only [hk]
    rw [hq]
    congr 1
    symm
    apply argsOf_nil_of_nonarg
    intro x hx i nm hxe
    obtain ⟨e, he, rfl⟩ := List.mem_map.mp hx
    obtain ⟨he1, hdst⟩ := mem_inEdges.mp he
    simp only at hxe
    unfold edgeW at hxe
    cases hke : e.kind with
    | alias q => rw [hke] at hxe; cases hxe
    | dep => rw [hke] at hxe; cases hxe
    | arg j =>
      obtain ⟨s, _, dn, hdn, hkk⟩ := h.edges e he1
      rw [hdst, Option.mem_def, hnd] at hdn
      cases hdn
      rw [hke] at hkk
      simp only at hkk
      have := hkk.2.1
      simp [Node.isInst, hk] at this

end Wac.Graph
