import WacModel.HashSites
/-
  Helper lemmas for C16: lookups in association lists with distinct keys do not depend on the
  order of the entries.
-/
namespace Wac.HashSites
open Wac Wac.Graph

theorem alGet_cons {κ β : Type} [DecidableEq κ] (x : κ × β) (l : List (κ × β)) (k : κ) :
    alGet (x :: l) k = if x.1 = k then some x.2 else alGet l k := by
  cases x; rfl

theorem alGet_none_of_not_mem {κ β : Type} [DecidableEq κ] (l : List (κ × β)) (k : κ)
    (h : k ∉ l.map (·.1)) : alGet l k = none := by
  induction l with
  | nil => rfl
  | cons x r ih =>
    rw [alGet_cons]
    simp only [List.map_cons, List.mem_cons, not_or] at h
    rw [if_neg (fun e => h.1 e.symm), ih h.2]

theorem alGet_of_mem {κ β : Type} [DecidableEq κ] (l : List (κ × β)) (nd : (l.map (·.1)).Nodup)
    (e : κ × β) (h : e ∈ l) : alGet l e.1 = some e.2 := by
  induction l with
  | nil => cases h
  | cons x r ih =>
    rw [alGet_cons]
    simp only [List.map_cons, List.nodup_cons] at nd
    rcases List.mem_cons.mp h with rfl | h'
    · simp
    · have : x.1 ≠ e.1 := fun eq => nd.1 (eq ▸ List.mem_map_of_mem (f := (·.1)) h')
      rw [if_neg this, ih nd.2 h']

/-- with distinct keys a lookup only depends on the set of entries -/
theorem alGet_of_perm {κ β : Type} [DecidableEq κ] {l l' : List (κ × β)} (h : l.Perm l')
    (nd : (l.map (·.1)).Nodup) (k : κ) : alGet l k = alGet l' k := by
  have nd' : (l'.map (·.1)).Nodup := ((h.map (·.1)).nodup_iff).mp nd
  by_cases hk : k ∈ l.map (·.1)
  · obtain ⟨e, he, rfl⟩ := List.mem_map.mp hk
    rw [alGet_of_mem l nd e he, alGet_of_mem l' nd' e (h.mem_iff.mp he)]
  · have hk' : k ∉ l'.map (·.1) := fun m => hk (((h.map (·.1)).mem_iff).mpr m)
    rw [alGet_none_of_not_mem l k hk, alGet_none_of_not_mem l' k hk']

/-- entries with distinct second components are determined by their second component -/
theorem eq_of_nodup_map_snd {α β : Type} {l : List (α × β)} (nd : (l.map (·.2)).Nodup)
    {a b : α × β} (ha : a ∈ l) (hb : b ∈ l) (h : a.2 = b.2) : a = b := by
  induction l with
  | nil => cases ha
  | cons x r ih =>
    simp only [List.map_cons, List.nodup_cons] at nd
    rcases List.mem_cons.mp ha with rfl | ha' <;> rcases List.mem_cons.mp hb with rfl | hb'
    · rfl
    · exact absurd (List.mem_map.mpr ⟨b, hb', h.symm⟩) nd.1
    · exact absurd (List.mem_map.mpr ⟨a, ha', h⟩) nd.1
    · exact ih nd.2 ha' hb'

theorem alInsert_keys{κ β : Type} [DecidableEq κ] (l : List (κ × β)) (k : κ) (v : β) :
    ∀ k', k' ∈ (alInsert l k v).map (·.1) ↔ k' = k ∨ k' ∈ l.map (·.1) := by
  induction l with
  | nil => intro k'; simp [alInsert]
  | cons x r ih =>
    intro k'
    obtain ⟨a, b⟩ := x
    unfold alInsert
    split
    · rename_i h; subst h; simp
    · simp only [List.map_cons, List.mem_cons, ih k']
      constructor
      · rintro (h | h | h)
        · exact Or.inr (Or.inl h)
        · exact Or.inl h
        · exact Or.inr (Or.inr h)
      · rintro (h | h | h)
        · exact Or.inr (Or.inl h)
        · exact Or.inl h
        · exact Or.inr (Or.inr h)

theorem alGet_alInsert {κ β : Type} [DecidableEq κ] (l : List (κ × β)) (k : κ) (v : β) (q : κ) :
    alGet (alInsert l k v) q = if k = q then some v else alGet l q := by
  induction l with
  | nil => simp [alInsert, alGet]
  | cons x r ih =>
    obtain ⟨a, b⟩ := x
    unfold alInsert
    split
    · rename_i h; subst h
      simp only [alGet]
      split <;> rfl
    · rename_i h
      simp only [alGet, ih]
      by_cases h1 : a = q
      · subst h1; simp [h, Ne.symm h]
      · simp [h1]

/-- lookups after inserting a list of entries with distinct keys, in any order -/
theorem alGet_foldl_insert {κ β γ : Type} [DecidableEq κ] (f : γ → κ × β) :
    ∀ (l : List γ) (init : List (κ × β)) (q : κ), ((l.map (fun e => (f e).1)).Nodup) →
      alGet (l.foldl (fun acc e => alInsert acc (f e).1 (f e).2) init) q =
        match l.find? (fun e => (f e).1 = q) with
        | some e => some (f e).2
        | none => alGet init q
  | [], init, q, _ => by simp
  | x :: r, init, q, nd => by
    simp only [List.map_cons, List.nodup_cons] at nd
    rw [List.foldl_cons, alGet_foldl_insert f r _ q nd.2]
    by_cases hx : (f x).1 = q
    · have : r.find? (fun e => decide ((f e).1 = q)) = none := by
        rw [List.find?_eq_none]
        intro e he
        simp only [decide_eq_true_eq]
        intro heq
        exact nd.1 (List.mem_map.mpr ⟨e, he, by rw [heq, hx]⟩)
      simp [this, hx, alGet_alInsert]
    · simp [List.find?_cons, hx, alGet_alInsert]

end Wac.HashSites

namespace Wac.HashSites

theorem foldl_min_le (xs : List Nat) (x : Nat) : xs.foldl min x ≤ x := by
  induction xs generalizing x with
  | nil => simp
  | cons y ys ih => simp only [List.foldl_cons]; exact Nat.le_trans (ih _) (Nat.min_le_left _ _)

theorem foldl_min_le_mem (xs : List Nat) (x y : Nat) (h : y ∈ xs) : xs.foldl min x ≤ y := by
  induction xs generalizing x with
  | nil => simp at h
  | cons z zs ih =>
    simp only [List.foldl_cons]
    rcases List.mem_cons.mp h with rfl | h
    · exact Nat.le_trans (foldl_min_le _ _) (Nat.min_le_right _ _)
    · exact ih _ h

theorem foldl_min_mem (xs : List Nat) (x : Nat) : xs.foldl min x = x ∨ xs.foldl min x ∈ xs := by
  induction xs generalizing x with
  | nil => simp
  | cons z zs ih =>
    simp only [List.foldl_cons]
    rcases ih (min x z) with h | h
    · rw [h]; rcases Nat.le_total x z with hle | hle
      · left; exact Nat.min_eq_left hle
      · right; rw [Nat.min_eq_right hle]; simp
    · right; exact List.mem_cons_of_mem _ h

/-- the minimum of a non-empty list, as computed by the fold, is the least element -/
theorem minOf_spec (x : Nat) (xs : List Nat) :
    (xs.foldl min x) ∈ x :: xs ∧ ∀ y ∈ x :: xs, xs.foldl min x ≤ y := by
  refine ⟨?_, ?_⟩
  · rcases foldl_min_mem xs x with h | h
    · rw [h]; simp
    · exact List.mem_cons_of_mem _ h
  · intro y hy
    rcases List.mem_cons.mp hy with rfl | hy
    · exact foldl_min_le _ _
    · exact foldl_min_le_mem _ _ _ hy


end Wac.HashSites
