import WacProofs.Lemmas.DecodeExt
/-
  C08 `decode_tree`, part 2: the cache invariant `Inv`, the frame of a conversion call, the generic
  loop lemmas, and the renaming of resource leaves.
-/
namespace Wac.Decode
open Wac Wac.Spec.Decode

/-! ### renaming resource leaves: validator base resource ↦ decoded root resource -/

mutual
/-- replace every resource leaf `r` (a base resource of the validator) by `ρ r.idx` -/
def renT (ρ : Nat → Res) : Tree → Tree
  | .none => .none
  | .prim p => .prim p
  | .own r => .own (ρ r.idx)
  | .borrow r => .borrow (ρ r.idx)
  | .tuple f => .tuple (renF ρ f)
  | .list t => .list (renT ρ t)
  | .fixedList t n => .fixedList (renT ρ t) n
  | .option t => .option (renT ρ t)
  | .result a b => .result (renT ρ a) (renT ρ b)
  | .variant f => .variant (renF ρ f)
  | .record f => .record (renF ρ f)
  | .flags ns => .flags ns
  | .enum ns => .enum ns
  | .stream t => .stream (renT ρ t)
  | .future t => .future (renT ρ t)
  | .func a ps r => .func a (renF ρ ps) (renT ρ r)
  | .instance f => .instance (renF ρ f)
  | .component i e => .component (renF ρ i) (renF ρ e)
  | .module m => .module m
  | .value t => .value (renT ρ t)
  | .type t => .type (renT ρ t)
  | .resource r => .resource (ρ r.idx)
termination_by structural t => t
def renF (ρ : Nat → Res) : Forest → Forest
  | .nil => .nil
  | .cons n t r => .cons n (renT ρ t) (renF ρ r)
termination_by structural f => f
end

/-! ### pointwise relation of two lists -/

def All2 {α β : Type} (R : α → β → Prop) : List α → List β → Prop
  | [], [] => True
  | x :: xs, y :: ys => R x y ∧ All2 R xs ys
  | _, _ => False

theorem All2.imp {α β : Type} {R R' : α → β → Prop} (h : ∀ x y, R x y → R' x y) :
    ∀ {xs : List α} {ys : List β}, All2 R xs ys → All2 R' xs ys
  | [], [], _ => trivial
  | _ :: _, _ :: _, ⟨h1, h2⟩ => ⟨h _ _ h1, All2.imp h h2⟩
  | [], _ :: _, hf => hf.elim
  | _ :: _, [], hf => hf.elim

/-- optional payloads correspond -/
def ROpt {α β : Type} (R : α → β → Prop) : Option α → Option β → Prop
  | none, none => True
  | some x, some y => R x y
  | _, _ => False

/-! ### the frame of a conversion call -/

/-- what every conversion call guarantees about the state it returns -/
structure Frame (st st' : St) : Prop where
  ext : Ext [] [] st.types st'.types
  size : Types.size st.types ≤ Types.size st'.types
  rmap : ∀ b s, lookup st.resourceMap b = some s → lookup st'.resourceMap b = some s

theorem Frame.refl (st : St) : Frame st st := ⟨Ext.refl _ _ _, Nat.le_refl _, fun _ _ h => h⟩

theorem Frame.trans {st st' st'' : St} (h1 : Frame st st') (h2 : Frame st' st'') : Frame st st'' :=
  ⟨h1.ext.trans h2.ext, Nat.le_trans h1.size h2.size, fun b s h => h2.rmap b s (h1.rmap b s h)⟩

/-- fuel bound of the facts of a state: entries minus open interfaces/worlds -/
def bnd (c : Nat) (st : St) : Nat := Types.size st.types - c

theorem bnd_mono {c : Nat} {st st' : St} (h : Frame st st') : bnd c st ≤ bnd c st' := by
  have := h.size; unfold bnd; omega

/-! ### facts about converted items, relative to a state -/

section
variable (w : WTypes) (ρ : Nat → Res) (oi ow : List Nat) (c : Nat)

/-- `v` is the conversion of the validator's value type `x` -/
def RV (st : St) (x : WVal) (v : ValueType) : Prop :=
  ∀ g t, valTree w g x = some t → HV oi ow st.types (bnd c st + 1) v (renT ρ t)

/-- `id` is the conversion of the validator's function type `f` -/
def RF (st : St) (f : Nat) (id : Nat) : Prop :=
  ∀ g t, funcTree w g f = some t → HF oi ow st.types (bnd c st + 1) id (renT ρ t)

/-- `k` is the conversion of the validator's import/export `e` -/
def RK (st : St) (e : WEnt) (k : ItemKind) : Prop :=
  ∀ g t, entTree w g e = some t → HK oi ow st.types (bnd c st + 2) k (renT ρ t)

/-- the cache invariant: every cached id denotes the tree of the validator's id -/
structure Inv (st : St) : Prop where
  hc : c ≤ Types.size st.types
  defined : ∀ d v, lookup st.cache (.any (.defined d)) = some (.type (.value v)) → RV w ρ oi ow c st (.ty d) v
  func : ∀ f id, lookup st.cache (.any (.func f)) = some (.type (.func id)) → RF w ρ oi ow c st f id
  inst : ∀ i id, lookup st.cache (.any (.instance i)) = some (.type (.interface id)) →
    RK w ρ oi ow c st (.instance i) (.instance id)
  comp : ∀ i id, lookup st.cache (.any (.component i)) = some (.type (.world id)) →
    RK w ρ oi ow c st (.component i) (.component id)
  mod : ∀ m id, lookup st.cache (.module m) = some (.type (.module id)) →
    ∃ mt, w.mods[m]? = some mt ∧ st.types.modules[id]? = some mt
  res : ∀ r id, lookup st.cache (.any (.res r)) = some (.resource id) →
    ∃ e, w.res[r]? = some e ∧ HL oi ow st.types id (ρ e.base)
  rm : ∀ b s, lookup st.resourceMap b = some s →
    ∃ x, st.types.resources[s]? = some x ∧ x.alias = none
  inj : ∀ b b' s, lookup st.resourceMap b = some s → lookup st.resourceMap b' = some s → b = b'

variable {w ρ oi ow c}

theorem RV.mono {st st' : St} {x : WVal} {v : ValueType} (h : RV w ρ oi ow c st x v) (hf : Frame st st') :
    RV w ρ oi ow c st' x v :=
  fun g t ht => (h g t ht).mono hf.ext.of_nil (by have := bnd_mono (c := c) hf; omega)

theorem RF.mono {st st' : St} {f id : Nat} (h : RF w ρ oi ow c st f id) (hf : Frame st st') :
    RF w ρ oi ow c st' f id :=
  fun g t ht => (h g t ht).mono hf.ext.of_nil (by have := bnd_mono (c := c) hf; omega)

theorem RK.mono {st st' : St} {e : WEnt} {k : ItemKind} (h : RK w ρ oi ow c st e k) (hf : Frame st st') :
    RK w ρ oi ow c st' e k :=
  fun g t ht => (h g t ht).mono hf.ext.of_nil (by have := bnd_mono (c := c) hf; omega)

/-- the invariant survives a step that keeps cache and resource map and extends the arenas -/
theorem Inv.step {st st' : St} (h : Inv w ρ oi ow c st) (hf : Frame st st')
    (hcache : st'.cache = st.cache) (hrm : st'.resourceMap = st.resourceMap) : Inv w ρ oi ow c st' := by
  refine ⟨Nat.le_trans h.hc hf.size, ?_, ?_, ?_, ?_, ?_, ?_, ?_, by rw [hrm]; exact h.inj⟩
  · intro d v hl; rw [hcache] at hl; exact (h.defined d v hl).mono hf
  · intro f id hl; rw [hcache] at hl; exact (h.func f id hl).mono hf
  · intro i id hl; rw [hcache] at hl; exact (h.inst i id hl).mono hf
  · intro i id hl; rw [hcache] at hl; exact (h.comp i id hl).mono hf
  · intro m id hl; rw [hcache] at hl
    obtain ⟨mt, h1, h2⟩ := h.mod m id hl
    exact ⟨mt, h1, hf.ext.modules _ _ h2⟩
  · intro r id hl; rw [hcache] at hl
    obtain ⟨e, h1, h2⟩ := h.res r id hl
    exact ⟨e, h1, h2.mono hf.ext.of_nil⟩
  · intro b s hl; rw [hrm] at hl
    obtain ⟨x, h1, h2⟩ := h.rm b s hl
    obtain ⟨x', hx', _, ha⟩ := hf.ext.resources s x h1
    refine ⟨x', hx', ?_⟩
    rw [h2] at ha
    simpa using ha

end

/-! ### generic loop lemmas -/

section
variable {P : St → Prop}

/-- a converter `f` of `α` into `β`: the frame holds unconditionally; if `P` held before, it holds
afterwards and `R` relates input and output -/
def Good {α β : Type} (P : St → Prop) (f : St → α → Outcome (St × β)) (R : St → α → β → Prop) : Prop :=
  ∀ st x st' y, f st x = .ok (st', y) → Frame st st' ∧ (P st → P st' ∧ R st' x y)

/-- `R` survives later calls -/
def Stable {α β : Type} (R : St → α → β → Prop) : Prop :=
  ∀ st st' x y, Frame st st' → R st x y → R st' x y

theorem loopM_good {α β : Type} {f : St → α → Outcome (St × β)} {R : St → α → β → Prop}
    (hf : Good P f R) (hR : Stable R) :
    Good P (loopM f) (fun st xs ys => All2 (R st) xs ys) := by
  intro st xs
  induction xs generalizing st with
  | nil =>
    intro st' ys h
    simp only [loopM] at h
    cases h
    exact ⟨Frame.refl _, fun hP => ⟨hP, trivial⟩⟩
  | cons x xs ih =>
    intro st' ys h
    simp only [loopM] at h
    split at h
    · rename_i st1 y hy
      obtain ⟨f1, k1⟩ := hf _ _ _ _ hy
      split at h
      · rename_i st2 ys' hys
        cases h
        obtain ⟨f2, k2⟩ := ih _ _ _ hys
        refine ⟨f1.trans f2, fun hP => ?_⟩
        obtain ⟨p1, r1⟩ := k1 hP
        obtain ⟨p2, r2⟩ := k2 p1
        exact ⟨p2, hR _ _ _ _ f2 r1, r2⟩
      · cases h
      · cases h
    · cases h
    · cases h

theorem namedM_good {α β : Type} {g : St → α → Outcome (St × β)} {R : St → α → β → Prop}
    (hg : Good P g R) :
    Good P (namedM g) (fun st (x : Str × α) (y : Str × β) => x.1 = y.1 ∧ R st x.2 y.2) := by
  intro st x st' y h
  simp only [namedM] at h
  split at h
  · rename_i st1 v hv
    cases h
    obtain ⟨f1, k1⟩ := hg _ _ _ _ hv
    exact ⟨f1, fun hP => ⟨(k1 hP).1, rfl, (k1 hP).2⟩⟩
  · cases h
  · cases h

theorem optM_good {β : Type} {g : St → WVal → Outcome (St × β)} {R : St → WVal → β → Prop}
    (hg : Good P g R) :
    Good P (optM g) (fun st o o' => ROpt (R st) o o') := by
  intro st x st' y h
  cases x with
  | none =>
    simp only [optM] at h
    cases h
    exact ⟨Frame.refl _, fun hP => ⟨hP, trivial⟩⟩
  | some v =>
    simp only [optM] at h
    split at h
    · rename_i st1 y' hv
      cases h
      obtain ⟨f1, k1⟩ := hg _ _ _ _ hv
      exact ⟨f1, fun hP => ⟨(k1 hP).1, (k1 hP).2⟩⟩
    · cases h
    · cases h

theorem Stable.named {α β : Type} {R : St → α → β → Prop} (hR : Stable R) :
    Stable (fun st (x : Str × α) (y : Str × β) => x.1 = y.1 ∧ R st x.2 y.2) :=
  fun _ _ _ _ hf h => ⟨h.1, hR _ _ _ _ hf h.2⟩

theorem Stable.opt {α β : Type} {R : St → α → β → Prop} (hR : Stable R) :
    Stable (fun st (o : Option α) (o' : Option β) => ROpt (R st) o o') := by
  intro st st' o o' hf h
  cases o <;> cases o' <;> simp_all [ROpt]
  exact hR _ _ _ _ hf h

end

/-! ### the renaming agrees with the resource map -/

/-- `ρ` names, for every base resource of the resource map, the root resource it maps to -/
def Cons (ρ : Nat → Res) (st : St) : Prop :=
  ∀ b s x, lookup st.resourceMap b = some s → st.types.resources[s]? = some x →
    ρ b = ⟨st.types.uid, s, x.name⟩

/-- consistency with a later state implies consistency with an earlier one -/
theorem Cons.back {ρ : Nat → Res} {st st' : St} (hf : Frame st st') (h : Cons ρ st') : Cons ρ st := by
  intro b s x hb hx
  obtain ⟨x', hx', hn, _⟩ := hf.ext.resources s x hx
  rw [h b s x' (hf.rmap b s hb) hx', hn, hf.ext.uid]

theorem lookup_cons {κ β : Type} [DecidableEq κ] (k : κ) (v : β) (m : List (κ × β)) (k' : κ) :
    lookup ((k, v) :: m) k' = if k = k' then some v else lookup m k' := rfl

end Wac.Decode
