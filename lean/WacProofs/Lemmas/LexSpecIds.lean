import WacModel.Lexer
import WacProofs.Lemmas.LexShape
import WacProofs.Lemmas.LexSpecGreedy
/-
  C12 proofs, lexical layer 2b: every hand-written recogniser of the lexer model computes the
  longest match of the documented regular expression (0 when there is none):

    `wordLen` / `reWord`, `idLen` / `reId`, `packageNameLen` / `rePackageName`,
    `semverLen` / `reVersion`, `packageNameTokLen` / `rePackageNameTok`,
    `packagePathTokLen` / `rePackagePathTok`, and the string rule / `reString`.

  The recognisers are greedy (each part takes as much as it can, nothing is ever given back); this
  is the longest match because the characters inside the greedy match of a part can never start
  the next part (`Wac.C12.isMax_seq`, `isMax_star_step`).
-/
namespace Wac.C12
open Wac Wac.Lex Wac.Spec.Grammar Wac.Spec.Grammar.Re

/-! ### character classes -/

theorem inRanges_lower (c : Char) : inRanges c [('a', 'z')] = isLower c := by
  simp [inRanges, isLower]

theorem inRanges_upper (c : Char) : inRanges c [('A', 'Z')] = isUpper c := by
  simp [inRanges, isUpper]

theorem inRanges_digit (c : Char) : inRanges c [('0', '9')] = isDigit c := by
  simp [inRanges, isDigit]

theorem inRanges_lowerDigit (c : Char) :
    inRanges c [('a', 'z'), ('0', '9')] = (isLower c || isDigit c) := by
  simp [inRanges, isLower, isDigit]

theorem inRanges_upperDigit (c : Char) :
    inRanges c [('A', 'Z'), ('0', '9')] = (isUpper c || isDigit c) := by
  simp [inRanges, isUpper, isDigit]

theorem char_between_self (c d : Char) : (decide (d ≤ c) && decide (c ≤ d)) = (c == d) := by
  rw [Bool.eq_iff_iff]
  simp only [Bool.and_eq_true, decide_eq_true_eq, beq_iff_eq]
  constructor
  · rintro ⟨h1, h2⟩; exact Char.le_antisymm h2 h1
  · rintro rfl; exact ⟨Char.le_refl _, Char.le_refl _⟩

theorem inRanges_semver (c : Char) :
    inRanges c [('0', '9'), ('a', 'z'), ('A', 'Z'), ('-', '-'), ('+', '+')] = isSemverChar c := by
  simp only [inRanges, List.any_cons, List.any_nil, Bool.or_false, char_between_self, isSemverChar,
    isDigit, isLower, isUpper, Bool.or_assoc]

theorem not_upper_of_lower {c : Char} (h : isLower c = true) : isUpper c = false := by
  simp only [isLower, isUpper, Bool.and_eq_true, decide_eq_true_eq, Bool.and_eq_false_iff,
    decide_eq_false_iff_not] at *
  by_cases h2 : c ≤ 'Z'
  · exact absurd (Char.le_trans h.1 h2) (by decide)
  · exact .inr h2

/-- a character a word can contain -/
def isWordChar (c : Char) : Bool := isLower c || isUpper c || isDigit c

theorem wordTailLen_eq (u : Bool) (s : Str) :
    wordTailLen u s = (s.takeWhile fun c => (if u then isUpper c else isLower c) || isDigit c).length := by
  induction s with
  | nil => rfl
  | cons a r ih =>
    unfold wordTailLen
    by_cases hc : ((if u = true then isUpper a else isLower a) || isDigit a) = true
    · rw [if_pos hc, ih]
      simp only [List.takeWhile_cons, hc, if_true, List.length_cons]
    · rw [if_neg hc]
      have hc' : ((if u = true then isUpper a else isLower a) || isDigit a) = false := by
        simpa using hc
      simp only [List.takeWhile_cons, hc', Bool.false_eq_true, if_false, List.length_nil]

theorem wordTailLen_wordChars (u : Bool) (s : Str) :
    ∀ c ∈ s.take (wordTailLen u s), isWordChar c = true := by
  rw [wordTailLen_eq, take_length_takeWhile]
  intro c hc
  have := mem_takeWhile_imp hc
  cases u <;> simp only [isWordChar] <;> simp at this ⊢ <;> rcases this with h | h <;> simp [h]

theorem wordLen_wordChars (s : Str) : ∀ c ∈ s.take (wordLen s), isWordChar c = true := by
  cases s with
  | nil => simp [wordLen]
  | cons a r =>
    simp only [wordLen]
    by_cases hl : isLower a = true
    · rw [if_pos hl, List.take_succ_cons]
      intro c hc
      rcases List.mem_cons.mp hc with rfl | hc
      · simp [isWordChar, hl]
      · exact wordTailLen_wordChars _ _ c hc
    · rw [if_neg hl]
      by_cases hu : isUpper a = true
      · rw [if_pos hu, List.take_succ_cons]
        intro c hc
        rcases List.mem_cons.mp hc with rfl | hc
        · simp [isWordChar, hu]
        · exact wordTailLen_wordChars _ _ c hc
      · rw [if_neg hu]; simp

theorem wordChar_ne_dash {c : Char} (h : isWordChar c = true) : c ≠ '-' := by
  intro he; subst he; revert h; decide

/-! ### `word` -/

theorem pm_cls_seq_cons {rs : List (Char × Char)} {r : Re} {c : Char} {t : Str} {m : Nat} :
    PM (seq (cls rs) r) (c :: t) m ↔ inRanges c rs = true ∧ ∃ j, m = j + 1 ∧ PM r t j := by
  rw [pm_cls_seq]
  constructor
  · rintro ⟨c', t', j, h, rfl, hin, hj⟩
    cases h
    exact ⟨hin, j, rfl, hj⟩
  · rintro ⟨hin, j, rfl, hj⟩
    exact ⟨c, t, j, rfl, rfl, hin, hj⟩

theorem reWord_eq : reWord =
    alt (seq (cls [('a', 'z')]) (star (cls [('a', 'z'), ('0', '9')])))
        (seq (cls [('A', 'Z')]) (star (cls [('A', 'Z'), ('0', '9')]))) := rfl

theorem not_matches_reWord_nil : ¬ Matches reWord [] := by
  rw [reWord_eq, matches_alt]
  rintro (h | h) <;> exact not_matches_cls_seq_nil h

theorem firstIn_reWord : FirstIn reWord (fun c => isLower c = true ∨ isUpper c = true) := by
  rw [reWord_eq]
  apply firstIn_alt
  · exact firstIn_cls_seq.mono fun c h => .inl (by rw [← inRanges_lower]; exact h)
  · exact firstIn_cls_seq.mono fun c h => .inr (by rw [← inRanges_upper]; exact h)

theorem wordLen_spec (s : Str) : Recognises reWord s (wordLen s) := by
  cases s with
  | nil =>
    left
    refine ⟨rfl, fun m hm => ?_⟩
    exact not_matches_reWord_nil (pm_nil.mp hm).2
  | cons c t =>
    simp only [wordLen]
    by_cases hl : isLower c = true
    · rw [if_pos hl]
      right
      refine ⟨Nat.succ_pos _, ?_⟩
      rw [wordTailLen_eq]
      refine isMax_shift (r := star (cls [('a', 'z'), ('0', '9')])) ?_
        (isMax_star_cls (fun c => by rw [inRanges_lowerDigit]; rfl) t)
      intro m
      rw [reWord_eq, pm_alt, pm_cls_seq_cons, pm_cls_seq_cons, inRanges_lower, inRanges_upper,
        not_upper_of_lower hl]
      simp [hl]
    · rw [if_neg hl]
      by_cases hu : isUpper c = true
      · rw [if_pos hu]
        right
        refine ⟨Nat.succ_pos _, ?_⟩
        rw [wordTailLen_eq]
        refine isMax_shift (r := star (cls [('A', 'Z'), ('0', '9')])) ?_
          (isMax_star_cls (fun c => by rw [inRanges_upperDigit]; rfl) t)
        intro m
        rw [reWord_eq, pm_alt, pm_cls_seq_cons, pm_cls_seq_cons, inRanges_lower, inRanges_upper]
        simp [hl, hu]
      · rw [if_neg hu]
        left
        refine ⟨rfl, fun m hm => ?_⟩
        rw [reWord_eq, pm_alt, pm_cls_seq_cons, pm_cls_seq_cons, inRanges_lower, inRanges_upper] at hm
        simp [hl, hu] at hm

/-! ### separated repetitions `(d piece)*` -/

/-- a loop `g` that repeats "the character `d`, then the recogniser `f`" computes the longest
match of `(d r)*` when `f` computes that of `r` and never matches a `d` -/
theorem sepStar_spec (d : Char) (r : Re) (f : Str → Nat) (g : Nat → Str → Nat)
    (hf : ∀ s, Recognises r s (f s))
    (hall : ∀ s : Str, ∀ c ∈ s.take (f s), c ≠ d)
    (h0 : ∀ s, g 0 s = 0)
    (h1 : ∀ fuel t, g (fuel + 1) (d :: t) = if f t = 0 then 0 else 1 + f t + g fuel (t.drop (f t)))
    (h2 : ∀ fuel s, (∀ t, s ≠ d :: t) → g (fuel + 1) s = 0) :
    ∀ fuel s, s.length ≤ fuel → IsMax (star (seq (cls [(d, d)]) r)) s (g fuel s) := by
  intro fuel
  induction fuel with
  | zero =>
    intro s hs
    have : s = [] := List.eq_nil_of_length_eq_zero (by omega)
    subst this
    rw [h0]
    exact isMax_nil .starNil
  | succ fuel ih =>
    intro s hs
    by_cases hd : ∃ t, s = d :: t
    · obtain ⟨t, rfl⟩ := hd
      rw [h1]
      rcases hf t with ⟨hz, hno⟩ | ⟨hpos, hmax⟩
      · rw [if_pos hz]
        exact isMax_star_zero (noPM_shift pm_chr_seq_cons hno)
      · rw [if_neg (by omega)]
        have hX : IsMax (seq (cls [(d, d)]) r) (d :: t) (f t + 1) := isMax_shift pm_chr_seq_cons hmax
        have ih' := ih (t.drop (f t)) (by rw [List.length_drop]; simp at hs; omega)
        have e : 1 + f t + g fuel (t.drop (f t)) = (f t + 1) + g fuel (t.drop (f t)) := by omega
        rw [e]
        refine isMax_star_step hX ?_ (by rw [List.drop_succ_cons]; exact ih')
        intro m hm hlt j hj
        obtain ⟨i, rfl, _⟩ := (pm_chr_seq_cons m).mp hm
        rw [List.drop_succ_cons] at hj
        exact pm_zero_of_first (firstIn_star firstIn_chr_seq)
          (fun c w hcw => hall t c (head_drop_mem_take (n := f t) (by omega) hcw)) hj
    · have hd' : ∀ t, s ≠ d :: t := fun t ht => hd ⟨t, ht⟩
      rw [h2 _ _ hd']
      exact isMax_star_zero (noPM_chr_seq_ne hd')

/-! ### `id` -/

/-- `word ('-' word)*` -/
def reW : Re := seq reWord (star (seq (cls [('-', '-')]) reWord))

theorem reId_eq : reId = seq (opt (cls [('%', '%')])) reW := rfl

theorem dashWordsLen_spec (fuel : Nat) (s : Str) (h : s.length ≤ fuel) :
    IsMax (star (seq (cls [('-', '-')]) reWord)) s (dashWordsLen fuel s) := by
  refine sepStar_spec '-' reWord wordLen dashWordsLen wordLen_spec
    (fun s c hc => wordChar_ne_dash (wordLen_wordChars s c hc)) (fun _ => rfl) (fun _ _ => rfl) ?_ fuel s h
  intro fuel s hs
  unfold dashWordsLen
  split
  · exact absurd rfl (hs _)
  · rfl

/-- the recogniser for `word ('-' word)*` inside `idLen` -/
def wLen (s : Str) : Nat :=
  if wordLen s = 0 then 0 else wordLen s + dashWordsLen s.length (s.drop (wordLen s))

theorem not_matches_reW_nil : ¬ Matches reW [] := not_matches_seq_nil not_matches_reWord_nil

theorem firstIn_reW : FirstIn reW (fun c => isLower c = true ∨ isUpper c = true) :=
  firstIn_seq not_matches_reWord_nil firstIn_reWord

theorem wLen_spec (s : Str) : Recognises reW s (wLen s) := by
  unfold wLen
  rcases wordLen_spec s with ⟨hz, hno⟩ | ⟨hpos, hmax⟩
  · rw [if_pos hz]
    exact .inl ⟨rfl, noPM_seq_left hno⟩
  · rw [if_neg (by omega)]
    right
    refine ⟨by omega, isMax_seq hmax ?_ (dashWordsLen_spec _ _ (by rw [List.length_drop]; omega))⟩
    intro m _ hlt
    exact follow_of_all (firstIn_star firstIn_chr_seq)
      (fun c hc => wordChar_ne_dash (wordLen_wordChars s c hc)) m hlt

theorem idLen_pct' (r : Str) : idLen ('%' :: r) = if wLen r = 0 then 0 else 1 + wLen r := by
  rw [idLen_pct]
  unfold wLen
  by_cases h : wordLen r = 0
  · simp [h]
  · simp only [h, if_false]
    rw [if_neg (by omega)]
    omega

theorem idLen_nopct (s : Str) (h : ∀ r, s ≠ '%' :: r) : idLen s = wLen s := by
  rcases idLen_eq s with ⟨r, hr⟩ | he
  · exact absurd hr (h r)
  · exact he

theorem not_matches_reId_nil : ¬ Matches reId [] := by
  rw [reId_eq]
  intro h
  exact not_matches_reW_nil (matches_seq_nil.mp h).2

theorem idLen_spec (s : Str) : Recognises reId s (idLen s) := by
  rw [reId_eq]
  by_cases hp : ∃ r, s = '%' :: r
  · obtain ⟨r, rfl⟩ := hp
    rw [idLen_pct']
    have hopt : IsMax (opt (cls [('%', '%')])) ('%' :: r) 1 := by
      refine ⟨pm_alt.mpr (.inl ⟨by simp, ?_⟩), fun m hm => ?_⟩
      · rw [List.take_succ_cons, List.take_zero]
        exact .cls (inRanges_single.mpr rfl)
      · rcases pm_alt.mp hm with h | h
        · obtain ⟨_, h', _⟩ := matches_cls.mp h.2
          have := congrArg List.length h'
          have hle := h.1
          rw [List.length_take] at this
          simp only [List.length_cons, List.length_nil] at this hle
          omega
        · rw [pm_eps.mp h]; exact Nat.zero_le _
    have hfollow : ∀ m, PM (opt (cls [('%', '%')])) ('%' :: r) m → m < 1 →
        ∀ j, PM reW (('%' :: r).drop m) j → j = 0 := by
      intro m _ hlt j hj
      have : m = 0 := by omega
      subst this
      refine pm_zero_of_first firstIn_reW ?_ hj
      intro c w hcw
      rw [List.drop_zero] at hcw
      cases hcw
      decide
    rcases wLen_spec r with ⟨hz, hno⟩ | ⟨hpos, hmax⟩
    · rw [if_pos hz]
      exact .inl ⟨rfl, noPM_seq_right hopt not_matches_reW_nil hfollow hno⟩
    · rw [if_neg (by omega)]
      exact .inr ⟨by omega, isMax_seq hopt hfollow hmax⟩
  · have hp' : ∀ r, s ≠ '%' :: r := fun r hr => hp ⟨r, hr⟩
    rw [idLen_nopct s hp']
    have hopt : IsMax (opt (cls [('%', '%')])) s 0 := by
      refine isMax_opt_none fun m hm => ?_
      obtain ⟨c, h, hin⟩ := matches_cls.mp hm.2
      rw [inRanges_single] at hin
      subst hin
      cases s with
      | nil => cases m <;> simp at h
      | cons a t =>
        cases m with
        | zero => simp at h
        | succ m =>
          rw [List.take_succ_cons] at h
          exact hp' t (by rw [(List.cons.inj h).1])
    have hfollow : ∀ m, PM (opt (cls [('%', '%')])) s m → m < 0 →
        ∀ j, PM reW (s.drop m) j → j = 0 := fun m _ h => absurd h (Nat.not_lt_zero _)
    rcases wLen_spec s with ⟨hz, hno⟩ | ⟨hpos, hmax⟩
    · rw [hz]
      exact .inl ⟨rfl, noPM_seq_right hopt not_matches_reW_nil hfollow hno⟩
    · refine .inr ⟨hpos, ?_⟩
      have := isMax_seq hopt hfollow (by rw [List.drop_zero]; exact hmax)
      rwa [Nat.zero_add] at this

/-- the characters that can start an identifier -/
def isIdStart (c : Char) : Bool := isLower c || isUpper c || c == '%'

theorem firstIn_reId : FirstIn reId (fun c => isIdStart c = true) := by
  intro c w h
  rw [reId_eq] at h
  rcases matches_seq_cons.mp h with ⟨_, h2⟩ | ⟨u, v, _, h1, _⟩
  · rcases firstIn_reW c w h2 with h | h <;> simp [isIdStart, h]
  · rcases matches_alt.mp h1 with h | h
    · obtain ⟨d, hd, hin⟩ := matches_cls.mp h
      rw [inRanges_single] at hin
      subst hin
      rw [(List.cons.inj hd).1]
      decide
    · cases matches_eps.mp h

theorem idLen_pos_start {c : Char} {t : Str} (h : 0 < idLen (c :: t)) : isIdStart c = true := by
  rcases idLen_spec (c :: t) with ⟨hz, _⟩ | ⟨hpos, hmax⟩
  · omega
  · have hm := hmax.1.2
    obtain ⟨k, hk⟩ : ∃ k, idLen (c :: t) = k + 1 := ⟨idLen (c :: t) - 1, by omega⟩
    rw [hk, List.take_succ_cons] at hm
    exact firstIn_reId _ _ hm

/-! ### `package_name` -/

theorem idChars_ne_colon : IdChars (fun c => c ≠ ':') where
  lower := by intro c hc he; subst he; revert hc; decide
  upper := by intro c hc he; subst he; revert hc; decide
  digit := by intro c hc he; subst he; revert hc; decide
  dash := by decide
  pct := by decide

/-- `':' id` -/
def reCI : Re := seq (cls [(':', ':')]) reId

theorem rePackageName_eq : rePackageName = seq reId (plus reCI) := rfl

theorem not_matches_reCI_nil : ¬ Matches reCI [] := not_matches_cls_seq_nil

theorem colonIdsLen_spec (fuel : Nat) (s : Str) (h : s.length ≤ fuel) :
    IsMax (star reCI) s (colonIdsLen fuel s) := by
  refine sepStar_spec ':' reId idLen colonIdsLen idLen_spec
    (fun s => idLen_all idChars_ne_colon s) (fun _ => rfl) (fun _ _ => rfl) ?_ fuel s h
  intro fuel s hs
  unfold colonIdsLen
  split
  · exact absurd rfl (hs _)
  · rfl

theorem packageNameLen_spec (s : Str) : Recognises rePackageName s (packageNameLen s) := by
  rw [rePackageName_eq]
  unfold packageNameLen
  dsimp only
  rcases idLen_spec s with ⟨hz, hno⟩ | ⟨hpos, hmax⟩
  · rw [if_pos hz]
    exact .inl ⟨rfl, noPM_seq_left hno⟩
  · rw [if_neg (by omega)]
    have hfollow : ∀ m, PM reId s m → m < idLen s → ∀ j, PM (plus reCI) (s.drop m) j → j = 0 := by
      intro m _ hlt
      exact follow_of_all (firstIn_plus not_matches_reCI_nil firstIn_chr_seq)
        (fun c hc => idLen_all idChars_ne_colon s c hc) m hlt
    rcases recognises_plus not_matches_reCI_nil
        (colonIdsLen_spec s.length (s.drop (idLen s)) (by rw [List.length_drop]; omega)) with
      ⟨hz', hno'⟩ | ⟨hpos', hmax'⟩
    · rw [if_pos hz']
      exact .inl ⟨rfl, noPM_seq_right hmax (not_matches_plus_nil not_matches_reCI_nil) hfollow hno'⟩
    · rw [if_neg (by omega)]
      exact .inr ⟨by omega, isMax_seq hmax hfollow hmax'⟩

theorem not_matches_rePackageName_nil : ¬ Matches rePackageName [] := by
  rw [rePackageName_eq]
  exact not_matches_seq_nil not_matches_reId_nil

/-! ### versions -/

/-- `'.' [0-9a-zA-Z-+]+` -/
def reDotChunk : Re :=
  seq (cls [('.', '.')]) (plus (cls [('0', '9'), ('a', 'z'), ('A', 'Z'), ('-', '-'), ('+', '+')]))

theorem reVersion_eq : reVersion = seq (plus (cls [('0', '9')])) (star reDotChunk) := rfl

theorem semverChar_ne_dot {c : Char} (h : isSemverChar c = true) : c ≠ '.' := by
  intro he; subst he; revert h; decide

theorem digit_ne_dot {c : Char} (h : isDigit c = true) : c ≠ '.' := by
  intro he; subst he; revert h; decide

theorem dotChunksLen_spec (fuel : Nat) (s : Str) (h : s.length ≤ fuel) :
    IsMax (star reDotChunk) s (dotChunksLen fuel s) := by
  refine sepStar_spec '.' _ (fun r => (r.takeWhile isSemverChar).length) dotChunksLen
    (fun s => recognises_plus_cls (fun c => (inRanges_semver c).symm) s) ?_
    (fun _ => rfl) (fun _ _ => rfl) ?_ fuel s h
  · intro s c hc
    rw [take_length_takeWhile] at hc
    exact semverChar_ne_dot (mem_takeWhile_imp hc)
  · intro fuel s hs
    unfold dotChunksLen
    split
    · exact absurd rfl (hs _)
    · rfl

theorem semverLen_spec (s : Str) : Recognises reVersion s (semverLen s) := by
  rw [reVersion_eq]
  unfold semverLen
  dsimp only
  rcases recognises_plus_cls (p := isDigit) (fun c => (inRanges_digit c).symm) s with
    ⟨hz, hno⟩ | ⟨hpos, hmax⟩
  · rw [if_pos hz]
    exact .inl ⟨rfl, noPM_seq_left hno⟩
  · rw [if_neg (by omega)]
    refine .inr ⟨by omega, isMax_seq hmax ?_ (dotChunksLen_spec _ _ (by rw [List.length_drop]; omega))⟩
    intro m _ hlt
    refine follow_of_all (firstIn_star firstIn_chr_seq) (fun c hc => ?_) m hlt
    rw [take_length_takeWhile] at hc
    exact digit_ne_dot (mem_takeWhile_imp hc)

/-- `'@' version` -/
def reAtV : Re := seq (cls [('@', '@')]) reVersion

theorem atVersionLen_cons (r : Str) :
    atVersionLen ('@' :: r) = if semverLen r = 0 then 0 else 1 + semverLen r := rfl

theorem atVersionLen_spec (s : Str) : IsMax (opt reAtV) s (atVersionLen s) := by
  by_cases h : ∃ r, s = '@' :: r
  · obtain ⟨r, rfl⟩ := h
    rw [atVersionLen_cons]
    rcases semverLen_spec r with ⟨hz, hno⟩ | ⟨hpos, hmax⟩
    · rw [if_pos hz]
      exact isMax_opt_none (noPM_shift pm_chr_seq_cons hno)
    · rw [if_neg (by omega), Nat.add_comm]
      exact isMax_opt_some (isMax_shift pm_chr_seq_cons hmax)
  · have h' : ∀ r, s ≠ '@' :: r := fun r hr => h ⟨r, hr⟩
    have : atVersionLen s = 0 := by
      unfold atVersionLen
      split
      · exact absurd rfl (h' _)
      · rfl
    rw [this]
    exact isMax_opt_none (noPM_chr_seq_ne h')

/-! ### the `PackageName` token -/

theorem rePackageNameTok_eq : rePackageNameTok = seq rePackageName (opt reAtV) := rfl

theorem packageNameTokLen_spec (s : Str) : Recognises rePackageNameTok s (packageNameTokLen s) := by
  rw [rePackageNameTok_eq]
  unfold packageNameTokLen
  dsimp only
  rcases packageNameLen_spec s with ⟨hz, hno⟩ | ⟨hpos, hmax⟩
  · rw [if_pos hz]
    exact .inl ⟨rfl, noPM_seq_left hno⟩
  · rw [if_neg (by omega)]
    refine .inr ⟨by omega, isMax_seq hmax ?_ (atVersionLen_spec _)⟩
    intro m _ hlt
    exact follow_of_all (firstIn_opt firstIn_chr_seq)
      (fun c hc => packageNameLen_all idChars_ne_at (by decide) s c hc) m hlt

/-! ### the `PackagePath` token -/

/-- `'/' id` -/
def reSI : Re := seq (cls [('/', '/')]) reId

theorem rePackagePathTok_eq :
    rePackagePathTok = seq rePackageName (seq (plus reSI) (opt reAtV)) := rfl

theorem not_matches_reSI_nil : ¬ Matches reSI [] := not_matches_cls_seq_nil

theorem slashIdsLen_spec (fuel : Nat) (s : Str) (h : s.length ≤ fuel) :
    IsMax (star reSI) s (slashIdsLen fuel s) := by
  refine sepStar_spec '/' reId idLen slashIdsLen idLen_spec
    (fun s => idLen_all idChars_ne_slash s) (fun _ => rfl) (fun _ _ => rfl) ?_ fuel s h
  intro fuel s hs
  unfold slashIdsLen
  split
  · exact absurd rfl (hs _)
  · rfl

/-- `('/' id)+ ('@' version)?` -/
theorem pathTail_spec (fuel : Nat) (t : Str) (h : t.length ≤ fuel) :
    Recognises (seq (plus reSI) (opt reAtV)) t
      (if slashIdsLen fuel t = 0 then 0
       else slashIdsLen fuel t + atVersionLen (t.drop (slashIdsLen fuel t))) := by
  rcases recognises_plus not_matches_reSI_nil (slashIdsLen_spec fuel t h) with
    ⟨hz, hno⟩ | ⟨hpos, hmax⟩
  · rw [if_pos hz]
    exact .inl ⟨rfl, noPM_seq_left hno⟩
  · rw [if_neg (by omega)]
    refine .inr ⟨by omega, isMax_seq hmax ?_ (atVersionLen_spec _)⟩
    intro m _ hlt
    exact follow_of_all (firstIn_opt firstIn_chr_seq)
      (fun c hc => slashIdsLen_all idChars_ne_at (by decide) fuel t c hc) m hlt

theorem packagePathTokLen_spec (s : Str) : Recognises rePackagePathTok s (packagePathTokLen s) := by
  rw [rePackagePathTok_eq]
  unfold packagePathTokLen
  dsimp only
  rcases packageNameLen_spec s with ⟨hz, hno⟩ | ⟨hpos, hmax⟩
  · rw [if_pos hz]
    exact .inl ⟨rfl, noPM_seq_left hno⟩
  · rw [if_neg (by omega)]
    have hfollow : ∀ m, PM rePackageName s m → m < packageNameLen s →
        ∀ j, PM (seq (plus reSI) (opt reAtV)) (s.drop m) j → j = 0 := by
      intro m _ hlt
      exact follow_of_all
        (firstIn_seq (not_matches_plus_nil not_matches_reSI_nil)
          (firstIn_plus not_matches_reSI_nil firstIn_chr_seq))
        (fun c hc => packageNameLen_all idChars_ne_slash (by decide) s c hc) m hlt
    have htail := pathTail_spec s.length (s.drop (packageNameLen s)) (by rw [List.length_drop]; omega)
    by_cases hm : slashIdsLen s.length (s.drop (packageNameLen s)) = 0
    · rw [if_pos hm]
      rw [if_pos hm] at htail
      rcases htail with ⟨_, hno'⟩ | ⟨hpos', _⟩
      · exact .inl ⟨rfl, noPM_seq_right hmax
          (not_matches_seq_nil (not_matches_plus_nil not_matches_reSI_nil)) hfollow hno'⟩
      · omega
    · rw [if_neg hm]
      rw [if_neg hm, List.drop_drop] at htail
      rcases htail with ⟨hz', _⟩ | ⟨hpos', hmax'⟩
      · omega
      · refine .inr ⟨by omega, ?_⟩
        rw [Nat.add_assoc]
        exact isMax_seq hmax hfollow hmax'

/-! ### strings -/

theorem reString_eq : reString =
    seq (cls [('"', '"')]) (seq (star (ncls [('"', '"')])) (cls [('"', '"')])) := rfl

theorem not_inRanges_quote (c : Char) : (!inRanges c [('"', '"')]) = (c != '"') := by
  simp only [inRanges, List.any_cons, List.any_nil, Bool.or_false, char_between_self]
  rfl

/-- the only prefix of `'"' :: r` that is a string literal ends at the first `"` of `r` -/
theorem pm_reString_cons (r : Str) (m : Nat) :
    PM reString ('"' :: r) m ↔
      m = (r.takeWhile (· != '"')).length + 2 ∧ (r.takeWhile (· != '"')).length < r.length := by
  have hsingle := ncls_single [('"', '"')]
  simp only [not_inRanges_quote] at hsingle
  rw [reString_eq, pm_chr_seq_cons]
  constructor
  · rintro ⟨j, rfl, hj⟩
    obtain ⟨i, k, rfl, ⟨hi, h1⟩, ⟨hk, h2⟩⟩ := pm_seq.mp hj
    obtain ⟨c, hc, hin⟩ := matches_cls.mp h2
    rw [inRanges_single] at hin
    subst hin
    have hall := (matches_star_single hsingle).mp h1
    cases hd : r.drop i with
    | nil => rw [hd] at hc; simp at hc
    | cons d w =>
      rw [hd] at hc
      have hk1 : k = 1 := by
        have := congrArg List.length hc
        rw [List.length_take] at this
        simp only [List.length_cons, List.length_nil] at this
        rw [hd] at hk
        simp only [List.length_cons] at hk
        omega
      subst hk1
      rw [List.take_succ_cons, List.take_zero] at hc
      have hdq : d = '"' := (List.cons.inj hc).1
      subst hdq
      have hlen := takeWhile_length_lt (· != '"') r i '"' w hall hd (by decide)
      rw [hlen]
      have : i < r.length := by
        have := congrArg List.length hd
        rw [List.length_drop, List.length_cons] at this
        omega
      exact ⟨by omega, this⟩
  · rintro ⟨rfl, hlt⟩
    refine ⟨(r.takeWhile (· != '"')).length + 1, rfl, by omega, ?_⟩
    obtain ⟨d, hd, e⟩ := take_takeWhile_succ _ r hlt
    have hd : d = '"' := by simpa using hd
    subst hd
    rw [e]
    refine .seq ((matches_star_single hsingle).mpr fun c hc => ?_) ?_
    · have := mem_takeWhile_imp hc
      exact this
    exact .cls (inRanges_single.mpr rfl)

theorem string_isMax (r : Str) (h : (r.takeWhile (· != '"')).length < r.length) :
    IsMax reString ('"' :: r) ((r.takeWhile (· != '"')).length + 2) :=
  ⟨(pm_reString_cons r _).mpr ⟨rfl, h⟩, fun m hm => by rw [((pm_reString_cons r m).mp hm).1]; exact Nat.le_refl _⟩

theorem string_noPM (r : Str) (h : ¬ (r.takeWhile (· != '"')).length < r.length) :
    NoPM reString ('"' :: r) :=
  fun m hm => h ((pm_reString_cons r m).mp hm).2

theorem string_noPM_ne (s : Str) (h : ∀ r, s ≠ '"' :: r) : NoPM reString s := by
  rw [reString_eq]
  exact noPM_chr_seq_ne h

/-! ### summary: the recognisers are `Re.longest` -/

/-- `idLen` is the length of the longest prefix matching `id`, 0 if there is none -/
theorem idLen_eq_longest (s : Str) : idLen s = (longest reId s).getD 0 := (idLen_spec s).getD

/-- `idLen s > 0` iff some (necessarily non-empty) prefix of `s` matches `id` -/
theorem idLen_pos_iff (s : Str) : 0 < idLen s ↔ ∃ m, PM reId s m := by
  rcases idLen_spec s with ⟨hz, hno⟩ | ⟨hpos, hmax⟩
  · rw [hz]
    exact ⟨fun h => absurd h (Nat.lt_irrefl _), fun ⟨m, hm⟩ => absurd hm (hno m)⟩
  · exact ⟨fun _ => ⟨_, hmax.1⟩, fun _ => hpos⟩

theorem packageNameTokLen_eq_longest (s : Str) :
    packageNameTokLen s = (longest rePackageNameTok s).getD 0 := (packageNameTokLen_spec s).getD

theorem packagePathTokLen_eq_longest (s : Str) :
    packagePathTokLen s = (longest rePackagePathTok s).getD 0 := (packagePathTokLen_spec s).getD

/-- the string rule of `lexStep` against `reString` -/
theorem string_eq_longest (r : Str) :
    longest reString ('"' :: r) =
      if (r.takeWhile (· != '"')).length < r.length then some ((r.takeWhile (· != '"')).length + 2)
      else none := by
  split
  · rename_i h; exact longest_of_isMax (string_isMax r h)
  · rename_i h; exact longest_of_noPM (string_noPM r h)

end Wac.C12
