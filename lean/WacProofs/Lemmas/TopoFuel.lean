import WacProofs.Lemmas.Toposort
/-
  `toposort` never runs out of model fuel on a graph value whose successor lists only name live
  nodes, and its result only lists live nodes.
-/
namespace Wac

/-- every successor listed by a live node is a live node -/
def SuccLive (g : GraphVal) : Prop := ∀ n ∈ g.nodes, ∀ m ∈ n.succ, m ∈ g.ids

/-- the part of the potential contributed by the not yet discovered nodes -/
def phiSum (nodes : List Node) (disc : List Nat) : Nat :=
  (nodes.map fun n => if disc.contains n.id then 0 else 1 + n.succ.length).sum

theorem phiSum_cons_le (nodes : List Node) (disc : List Nat) (x : Nat) :
    phiSum nodes (x :: disc) ≤ phiSum nodes disc := by
  unfold phiSum
  induction nodes with
  | nil => simp
  | cons a as ih =>
    simp only [List.map_cons, List.sum_cons]
    by_cases h1 : (x :: disc).contains a.id = true
    · simp only [h1, ↓reduceIte]
      omega
    · have h2 : disc.contains a.id = false := by
        simp only [List.contains_eq_mem, List.mem_cons, decide_eq_true_eq, not_or] at h1
        simpa using h1.2
      simp only [h1, h2, Bool.false_eq_true, ↓reduceIte]
      omega

theorem phiSum_drop (nodes : List Node) (disc : List Nat) {n : Node} (hn : n ∈ nodes)
    (hd : n.id ∉ disc) :
    phiSum nodes (n.id :: disc) + (1 + n.succ.length) ≤ phiSum nodes disc := by
  induction nodes with
  | nil => simp at hn
  | cons a as ih =>
    rcases List.mem_cons.mp hn with e | e
    · subst e
      have hle := phiSum_cons_le as disc n.id
      have h2 : disc.contains n.id = false := by simpa using hd
      have h1 : (n.id :: disc).contains n.id = true := by simp
      unfold phiSum at hle ⊢
      simp only [List.map_cons, List.sum_cons, h1, h2, Bool.false_eq_true, ↓reduceIte]
      omega
    · have ih' := ih e
      have hstep : (if (n.id :: disc).contains a.id then 0 else 1 + a.succ.length)
          ≤ (if disc.contains a.id then 0 else 1 + a.succ.length) := by
        by_cases h1 : (n.id :: disc).contains a.id = true
        · simp only [h1, ↓reduceIte]; omega
        · have h2 : disc.contains a.id = false := by
            simp only [List.contains_eq_mem, List.mem_cons, decide_eq_true_eq, not_or] at h1
            simpa using h1.2
          simp only [h1, h2, Bool.false_eq_true, ↓reduceIte]
          omega
      unfold phiSum at ih' ⊢
      simp only [List.map_cons, List.sum_cons]
      omega

theorem phiSum_le (nodes : List Node) (disc : List Nat) :
    phiSum nodes disc ≤ nodes.length + (nodes.map fun n => n.succ.length).sum := by
  unfold phiSum
  induction nodes with
  | nil => simp
  | cons a as ih =>
    simp only [List.map_cons, List.sum_cons, List.length_cons]
    by_cases h1 : disc.contains a.id = true
    · simp only [h1, ↓reduceIte]; omega
    · simp only [h1, Bool.false_eq_true, ↓reduceIte]; omega

theorem length_pushUndiscovered (disc ns stack : List Nat) :
    (pushUndiscovered disc ns stack).length ≤ stack.length + ns.length := by
  unfold pushUndiscovered
  induction ns generalizing stack with
  | nil => simp
  | cons m ms ih =>
    simp only [List.foldl_cons, List.length_cons]
    by_cases hm : disc.contains m = true
    · simp only [hm, ↓reduceIte]
      have := ih stack
      omega
    · simp only [hm, Bool.false_eq_true, ↓reduceIte]
      have := ih (m :: stack)
      simp only [List.length_cons] at this
      omega

/-- a live id has a node -/
theorem node?_of_mem_ids {g : GraphVal} {i : Nat} (h : i ∈ g.ids) :
    ∃ n, g.node? i = some n ∧ n ∈ g.nodes ∧ n.id = i := by
  unfold GraphVal.ids at h
  obtain ⟨a, ha, hai⟩ := List.mem_map.mp h
  cases hf : g.node? i with
  | none =>
    unfold GraphVal.node? at hf
    have := List.find?_eq_none.mp hf a ha
    simp [hai] at this
  | some n =>
    refine ⟨n, rfl, ?_, ?_⟩
    · unfold GraphVal.node? at hf
      exact List.mem_of_find?_eq_some hf
    · unfold GraphVal.node? at hf
      simpa using List.find?_some hf

theorem succs_live {g : GraphVal} (hs : SuccLive g) (nx : Nat) : ∀ m ∈ g.succs nx, m ∈ g.ids := by
  intro m hm
  unfold GraphVal.succs at hm
  cases hf : g.node? nx with
  | none => simp [hf] at hm
  | some n =>
    simp only [hf, Option.map_some, Option.getD_some] at hm
    unfold GraphVal.node? at hf
    exact hs n (List.mem_of_find?_eq_some hf) m hm

/-- the stack and the output only hold live ids -/
def Live (g : GraphVal) (st : DfsSt) : Prop :=
  (∀ n ∈ st.stack, n ∈ g.ids) ∧ (∀ n ∈ st.out, n ∈ g.ids)

theorem topoInner_no_fuel {g : GraphVal} (hs : SuccLive g) (fuel : Nat) (st : DfsSt)
    (hl : ∀ n ∈ st.stack, n ∈ g.ids)
    (hf : st.stack.length + phiSum g.nodes st.discovered < fuel) :
    topoInner g fuel st ≠ none := by
  induction fuel generalizing st with
  | zero => omega
  | succ fuel ih =>
    unfold topoInner
    cases hst : st.stack with
    | nil => simp
    | cons nx rest =>
      simp only
      rw [hst] at hl hf
      simp only [List.length_cons] at hf
      by_cases hd : st.discovered.contains nx = true
      · simp only [hd, Bool.not_true, Bool.false_eq_true, ↓reduceIte]
        have hl' : ∀ n ∈ rest, n ∈ g.ids := fun n hn => hl n (List.mem_cons_of_mem _ hn)
        by_cases hfin : st.finished.contains nx = true
        · simp only [hfin, ↓reduceIte]
          exact ih _ hl' (by simp only; omega)
        · simp only [hfin, Bool.false_eq_true, ↓reduceIte]
          exact ih _ hl' (by simp only; omega)
      · have hdm : nx ∉ st.discovered := by simpa using hd
        simp only [hd, Bool.not_false, ↓reduceIte]
        by_cases hself : (g.succs nx).contains nx = true
        · have hm : nx ∈ g.succs nx := by simpa using hself
          simp [hm]
        · simp only [hself, Bool.false_eq_true, ↓reduceIte]
          apply ih
          · intro n hn
            simp only [mem_pushUndiscovered] at hn
            rcases hn with h1 | ⟨h1, _⟩
            · exact hl n h1
            · exact succs_live hs nx n h1
          · simp only
            obtain ⟨nd, hnd1, hnd2, hnd3⟩ := node?_of_mem_ids (hl nx (List.mem_cons_self ..))
            have hsucc : g.succs nx = nd.succ := by simp [GraphVal.succs, hnd1]
            have hlen := length_pushUndiscovered (nx :: st.discovered) (g.succs nx) (nx :: rest)
            have hdrop := phiSum_drop g.nodes st.discovered hnd2 (by rw [hnd3]; exact hdm)
            rw [hnd3] at hdrop
            rw [hsucc] at hlen ⊢
            simp only [List.length_cons] at hlen
            omega

theorem topoInner_live {g : GraphVal} (hs : SuccLive g) (fuel : Nat) {st st' : DfsSt}
    (hl : Live g st) (h : topoInner g fuel st = some (.ok st')) : Live g st' := by
  induction fuel generalizing st with
  | zero => simp [topoInner] at h
  | succ fuel ih =>
    unfold topoInner at h
    cases hst : st.stack with
    | nil =>
      simp only [hst] at h
      injection h with h
      injection h with h
      subst h
      exact hl
    | cons nx rest =>
      simp only [hst] at h
      have hl1 : ∀ n ∈ nx :: rest, n ∈ g.ids := by rw [← hst]; exact hl.1
      have hl' : ∀ n ∈ rest, n ∈ g.ids := fun n hn => hl1 n (List.mem_cons_of_mem _ hn)
      by_cases hd : st.discovered.contains nx = true
      · simp only [hd, Bool.not_true, Bool.false_eq_true, ↓reduceIte] at h
        by_cases hfin : st.finished.contains nx = true
        · simp only [hfin, ↓reduceIte] at h
          refine ih ?_ h
          exact ⟨hl', hl.2⟩
        · simp only [hfin, Bool.false_eq_true, ↓reduceIte] at h
          refine ih ?_ h
          refine ⟨hl', ?_⟩
          intro n hn
          rcases List.mem_cons.mp hn with e | e
          · subst e; exact hl1 _ (List.mem_cons_self ..)
          · exact hl.2 n e
      · simp only [hd, Bool.not_false, ↓reduceIte] at h
        by_cases hself : (g.succs nx).contains nx = true
        · have hm : nx ∈ g.succs nx := by simpa using hself
          simp [hm] at h
        · simp only [hself, Bool.false_eq_true, ↓reduceIte] at h
          refine ih ?_ h
          refine ⟨?_, hl.2⟩
          intro n hn
          simp only [mem_pushUndiscovered] at hn
          rcases hn with h1 | ⟨h1, _⟩
          · exact hl1 n h1
          · exact succs_live hs nx n h1

theorem topoOuter_no_fuel {g : GraphVal} (hs : SuccLive g) (fuel : Nat) (ids : List Nat) (st : DfsSt)
    (hi : TInv st) (hstk : st.stack = []) (hids : ∀ i ∈ ids, i ∈ g.ids)
    (hf : 1 + g.nodes.length + edgeCount g < fuel) :
    topoOuter g fuel ids st ≠ none := by
  induction ids generalizing st with
  | nil => simp [topoOuter]
  | cons i is ih =>
    have hids' : ∀ j ∈ is, j ∈ g.ids := fun j hj => hids j (List.mem_cons_of_mem _ hj)
    simp only [topoOuter]
    by_cases hd : st.discovered.contains i = true
    · simp only [hd, ↓reduceIte]
      exact ih st hi hstk hids'
    · simp only [hd, Bool.false_eq_true, ↓reduceIte]
      cases hin : topoInner g fuel { st with stack := i :: st.stack } with
      | none =>
        exfalso
        refine topoInner_no_fuel hs fuel _ ?_ ?_ hin
        · simp only [hstk]
          intro n hn
          simp only [List.mem_singleton] at hn
          subst hn
          exact hids _ (List.mem_cons_self ..)
        · simp only [hstk, List.length_cons, List.length_nil]
          have := phiSum_le g.nodes st.discovered
          unfold edgeCount at hf
          omega
      | some r =>
        cases r with
        | error n => simp
        | ok st1 =>
          simp only
          have hi0 : TInv { st with stack := i :: st.stack } := by
            refine ⟨?_, hi.fin, hi.nodup⟩
            intro n hn
            rcases hi.pending n hn with h1 | h1
            · exact Or.inl h1
            · exact Or.inr (List.mem_cons_of_mem _ h1)
          obtain ⟨g1, g2, _, _⟩ := topoInner_ok g fuel hi0 hin
          exact ih st1 g1 g2 hids'

theorem topoOuter_live {g : GraphVal} (hs : SuccLive g) (fuel : Nat) (ids : List Nat) {st st' : DfsSt}
    (hl : Live g st) (hids : ∀ i ∈ ids, i ∈ g.ids)
    (h : topoOuter g fuel ids st = some (.ok st')) : Live g st' := by
  induction ids generalizing st with
  | nil =>
    simp only [topoOuter] at h
    injection h with h
    injection h with h
    subst h
    exact hl
  | cons i is ih =>
    have hids' : ∀ j ∈ is, j ∈ g.ids := fun j hj => hids j (List.mem_cons_of_mem _ hj)
    simp only [topoOuter] at h
    by_cases hd : st.discovered.contains i = true
    · simp only [hd, ↓reduceIte] at h
      exact ih hl hids' h
    · simp only [hd, Bool.false_eq_true, ↓reduceIte] at h
      cases hin : topoInner g fuel { st with stack := i :: st.stack } with
      | none => simp [hin] at h
      | some r =>
        cases r with
        | error n => simp [hin] at h
        | ok st1 =>
          simp only [hin] at h
          have hl0 : Live g { st with stack := i :: st.stack } := by
            refine ⟨?_, hl.2⟩
            intro n hn
            rcases List.mem_cons.mp hn with e | e
            · subst e; exact hids _ (List.mem_cons_self ..)
            · exact hl.1 n e
          exact ih (topoInner_live hs fuel hl0 hin) hids' h

/-- `toposort` does not run out of model fuel (`hnd` is not needed) -/
theorem toposort_no_fuel' {g : GraphVal} (hs : SuccLive g) : toposort g ≠ .fuel := by
  unfold toposort
  simp only
  have hi0 : TInv {} := ⟨by simp, rfl, by simp⟩
  have hne := topoOuter_no_fuel hs (2 * (g.nodes.length + edgeCount g) + 2) g.ids.reverse {} hi0 rfl
    (by intro i hi; simpa using hi) (by omega)
  cases ho : topoOuter g (2 * (g.nodes.length + edgeCount g) + 2) g.ids.reverse {} with
  | none => exact absurd ho hne
  | some r =>
    cases r with
    | error n => simp
    | ok st =>
      simp only
      cases hc : cycleCheck g st.out [] with
      | some j => simp
      | none => simp

theorem toposort_no_fuel {g : GraphVal} (_hnd : g.ids.Nodup) (hs : SuccLive g) : toposort g ≠ .fuel :=
  toposort_no_fuel' hs

theorem toposort_subset {g : GraphVal} (hs : SuccLive g) {order : List Nat} (h : toposort g = .ok order) :
    ∀ n ∈ order, n ∈ g.ids := by
  unfold toposort at h
  simp only at h
  cases ho : topoOuter g (2 * (g.nodes.length + edgeCount g) + 2) g.ids.reverse {} with
  | none => simp [ho] at h
  | some r =>
    cases r with
    | error n => simp [ho] at h
    | ok st =>
      simp only [ho] at h
      cases hc : cycleCheck g st.out [] with
      | some j => simp [hc] at h
      | none =>
        simp only [hc] at h
        injection h with h
        subst h
        have hl0 : Live g {} := ⟨by simp, by simp⟩
        exact (topoOuter_live hs _ g.ids.reverse hl0 (by intro i hi; simpa using hi) ho).2

end Wac
