import WacProofs.Lemmas.AggMergeTotal
/-
  C09 general theorems, part 14: `aggregate` / `aggregateAll` on the flat fragment never panic and
  fail exactly when two semver-compatible requirement names disagree on a shared export
  (`fails_iff_incompatible`), independently of the order.
-/
namespace Wac.AggP
open Wac Wac.Spec

section fresh
variable {W : Colls} {types : Types} (hW : W.mem types) (hs : Sane types)
include hW hs

/-- **`remap_item_kind` of a new flat instance requirement is total** -/
theorem remapKind_flat_total (fuel id : Nat) (s : AggState) (si : Interface) (G : Forest)
    (hI : TI W s) (hfuel : 2 * types.fuel + 3 ≤ fuel)
    (hsi : types.interfaces[id]? = some si) (huses : si.uses = []) (hid : si.id = none)
    (hleaf : ∀ x, x ∈ si.exports → LeafK x.2)
    (hG : unfoldItems (types.unfoldKind types.fuel) si.exports = some G)
    (hmiss : alGet s.agg.remapped (GTy.mk' types (.interface id)) = none) :
    ∃ k' s', remapKind fuel types (.instance id) s = .ok (k', s') := by
  obtain ⟨f, rfl⟩ : ∃ f, fuel = f + 3 := ⟨fuel - 3, by omega⟩
  -- the exports
  have hexp : ∀ (E : List (Str × ItemKind)) (F : Forest), (∀ x, x ∈ E → LeafK x.2) →
      unfoldItems (types.unfoldKind types.fuel) E = some F → ∀ s0, TI W s0 →
      ∃ E' s1, mapMList (fun (e : Str × ItemKind) => do return (e.1, ← remapKind (f + 1) types e.2)) E s0 = .ok (E', s1) ∧
        TI W s1 ∧ NKL types s0 s1 := by
    intro E
    induction E with
    | nil => intro F _ _ s0 h0; exact ⟨[], s0, rfl, h0, NKL.refl _⟩
    | cons x E ih =>
      obtain ⟨nm, k⟩ := x
      intro F hl hF s0 h0
      obtain ⟨t, fr, h1, h2, _⟩ := unfoldItems_cons nm k E F hF
      obtain ⟨k', s1, g1, g2, g3⟩ := remapKind_leaf_total hW hs types.fuel (f + 1) k (hl (nm, k) List.mem_cons_self) t s0 h0 h1 (by omega)
      obtain ⟨E', s2, j1, j2, j3⟩ := ih fr (fun x hx => hl x (List.mem_cons_of_mem _ hx)) h2 s1 g2
      exact ⟨(nm, k') :: E', s2, by simp only [mapMList, run_bind, g1, run_pure, j1], j2, g3.trans j3⟩
  obtain ⟨E', s1, h1, _, hK⟩ := hexp si.exports G hleaf hG s hI
  have hfree : (alGet s1.agg.remapped (GTy.mk' types (.interface id))).isSome = false := by
    cases hq : (alGet s1.agg.remapped (GTy.mk' types (.interface id))).isSome with
    | false => rfl
    | true =>
      rcases hK _ hq with h | ⟨d, hd⟩ | ⟨f0, hf0⟩
      · rw [hmiss] at h; cases h
      · simp [GTy.mk'] at hd
      · simp [GTy.mk'] at hf0
  cases hres : remapKind (f + 3) types (.instance id) s with
  | ok r => exact ⟨r.1, r.2, rfl⟩
  | error err =>
    exfalso
    simp only [remapKind, run_bind] at hres
    rw [remapInterface] at hres
    simp only [hsi, run_bind, run_pure, run_getAgg, hid, run_remappedGet, hmiss, huses, remapUses, mapMList, h1,
      run_modifyTypes, run_remappedInsertNew] at hres
    simp only [hfree, Bool.false_eq_true, ↓reduceIte] at hres
    cases hres

end fresh

/-! ### one `aggregate` call -/

theorem flatItf_eqF {T : Types} {ti : Interface} {F : Forest} (h : FlatItf T ti F) : eqF F = true := by
  obtain ⟨n, hn⟩ := h.unf
  have : ∀ (E : List (Str × ItemKind)) (F : Forest), (∀ x, x ∈ E → LeafK x.2) →
      unfoldItems (T.unfoldKind n) E = some F → eqF F = true := by
    intro E
    induction E with
    | nil => intro F _ hF; simp [unfoldItems] at hF; subst hF; rfl
    | cons x E ih =>
      obtain ⟨nm, k⟩ := x
      intro F hl hF
      obtain ⟨t, fr, h1, h2, rfl⟩ := unfoldItems_cons nm k E F hF
      simp only [eqF, Bool.and_eq_true]
      exact ⟨eqKind_unfoldLeaf (hl (nm, k) List.mem_cons_self) h1, ih fr (fun x hx => hl x (List.mem_cons_of_mem _ hx)) h2⟩
  exact this ti.exports F h.leaf hn

/-- the merged import of a class is consistent with a new forest iff every member of the class is -/
theorem consistent_iff_class {W : Colls} {seen : List (Req × Forest)} {cls : Str → Str} {s : AggState}
    (hT : TInv W seen cls s) {en : Str} {F G : Forest} (hF : ImpForest s en F) :
    Consistent F G ↔ ∀ q, q ∈ seen → cls q.1.1 = en → Consistent q.2 G := by
  obtain ⟨e, ti, h1, h2, h3, h4⟩ := hF
  have heq := flatItf_eqF h3
  have hk := keysNd_of_nd F h4
  constructor
  · intro hc q hq hcl k tq tg hqk hgk
    obtain ⟨Fq, hFq, hs⟩ := hT.sat q hq
    rw [hcl] at hFq
    rw [hFq.det ⟨e, ti, h1, h2, h3, h4⟩] at hs
    rw [sub_instance_iff_k _ _ hk] at hs
    obtain ⟨tf, htf, hsub⟩ := hs k tq hqk
    rw [sub_eqK_left tf tq (eqF_get F k tf heq htf)] at hsub
    have : tf = tq := by simpa using hsub
    subst this
    exact hc k tf tg htf hgk
  · intro hall k tf tg hfk hgk
    obtain ⟨q, hq, hcl, hqk⟩ := hT.wit en F ⟨e, ti, h1, h2, h3, h4⟩ k tf hfk
    exact hall q hq hcl k tf tg hqk hgk

/-- the name update after a merge into a semver-compatible import -/
def nameUpdate (name exName : Str) : AggM Unit :=
  match altKey name, altKey exName with
  | some (_, newVersion), some (_, existingVersion) =>
    if existingVersion.lt newVersion then
      modifyAgg fun ag =>
        match amGet ag.imports exName with
        | none => ag
        | some merged =>
          { ag with
            imports := (alRemove ag.imports exName) ++ [(name, merged)],
            redirects := amInsert (ag.redirects.map fun e => if e.2 == exName then (e.1, name) else e)
              exName name }
    else
      modifyAgg fun ag => { ag with redirects := amInsert ag.redirects name exName }
  | _, _ => apanic "alternate_lookup_key unwrap"

/-- the end of the fresh case of `aggregate` -/
def freshTail (name : Str) (remapped : ItemKind) : AggM Unit := do
  let ag ← getAgg
  if (amGet ag.imports name).isSome then apanic "assertion failed: prev.is_none() (imports)"
  else modifyAgg fun ag => { ag with imports := amInsert ag.imports name remapped }

theorem aggregate_exact {name : Str} {types : Types} {kind existing : ItemKind} {s : AggState}
    (hg : amGet s.agg.imports name = some existing) :
    aggregate name types kind s = mergeKind existing types kind s := by
  unfold aggregate
  simp only [run_bind, run_getAgg, hg]

theorem aggregate_semver {name exName : Str} {types : Types} {kind exKind : ItemKind} {s : AggState}
    (hg : amGet s.agg.imports name = none) (hf : findSemver s.agg.imports name = some (exName, exKind)) :
    aggregate name types kind s = (mergeKind exKind types kind >>= fun _ => nameUpdate name exName) s := by
  unfold aggregate
  simp only [run_bind, run_getAgg, hg, findSemverImport_eq, hf]
  rfl

theorem aggregate_fresh {name : Str} {types : Types} {kind : ItemKind} {s : AggState}
    (hg : amGet s.agg.imports name = none) (hf : findSemver s.agg.imports name = none) :
    aggregate name types kind s = (remapKind (aggFuel s.agg types) types kind >>= freshTail name) s := by
  unfold aggregate
  simp only [run_bind, run_getAgg, hg, findSemverImport_eq, hf]
  rfl

/-- **one `aggregate` call on the fragment is total**: `Ok`, or an error (never a panic), and it
is `Ok` exactly when the new requirement agrees with every semver-compatible requirement seen so
far on their shared export names -/
theorem aggregate_total {W : Colls} {seen : List (Req × Forest)} {s : AggState} (hG : GInv W seen s)
    (hcfg : s.cfg.remapReplaced = true) {r : Req} {G : Forest} (hr : FlatReq r G) (hW : W.mem r.2.1)
    (hfresh : r.1 ∉ seen.map (·.1.1) → ∀ p, p ∈ seen → p.1.2.1.uid ≠ r.2.1.uid) :
    ((∃ s', aggregate r.1 r.2.1 r.2.2 s = .ok ((), s')) ∨ (∃ m, aggregate r.1 r.2.1 r.2.2 s = .error (.err m))) ∧
    ((∃ s', aggregate r.1 r.2.1 r.2.2 s = .ok ((), s')) ↔
      ∀ q, q ∈ seen → compat q.1.1 r.1 = true → Consistent q.2 G) := by
  obtain ⟨name, types, kind⟩ := r
  simp only at hr hW hfresh ⊢
  have hT := hG.tinv
  have hN := hG.ninv
  obtain ⟨i, si, hk, hsi, hid, huses, hleaf, hGu⟩ := hr.shape
  simp only at hk hsi
  subst hk
  have hS : ∀ q : Req × Forest, q ∈ seen → q.1.1 ∈ seen.map (·.1.1) := fun q hq => List.mem_map.2 ⟨q, hq, rfl⟩
  -- merging into the import `en` of the class
  have mergeCase : ∀ (en : Str) (existing : ItemKind), amGet s.agg.imports en = some existing →
      (∀ q, q ∈ seen → (canon s.agg.redirects q.1.1 = en ↔ compat q.1.1 name = true)) →
      ((∃ s1, mergeKind existing types (.instance i) s = .ok ((), s1)) ∨
        (∃ m, mergeKind existing types (.instance i) s = .error (.err m))) ∧
      ((∃ s1, mergeKind existing types (.instance i) s = .ok ((), s1)) ↔
        ∀ q, q ∈ seen → compat q.1.1 name = true → Consistent q.2 G) := by
    intro en existing hget hcls
    obtain ⟨F, hF⟩ := hT.imp en existing hget
    have hF' := hF
    obtain ⟨e, ti, hge, hti, hflat, hFnd⟩ := hF'
    rw [hget] at hge; cases hge
    rw [mergeKind_instance]
    have hTS : TState W e s F := ⟨hT.ainv, ⟨ti, hti, hflat⟩, hFnd⟩
    have hcl : Consistent F G ↔ ∀ q, q ∈ seen → compat q.1.1 name = true → Consistent q.2 G := by
      rw [consistent_iff_class hT hF]
      exact ⟨fun h q hq hc => h q hq ((hcls q hq).2 hc), fun h q hq hc => h q hq ((hcls q hq).1 hc)⟩
    rcases mergeInterface_flat_total hW hr.sane (aggFuel s.agg types) i s F G si hTS hcfg
        (by simp only [aggFuel]; omega) hsi huses hleaf hGu hr.nd with ⟨s1, h1⟩ | ⟨m, h1, hnc⟩
    · refine ⟨.inl ⟨s1, h1⟩, ⟨(fun _ => hcl.1 ?_), (fun _ => ⟨s1, h1⟩)⟩⟩
      exact (mergeInterface_flat hW hr.sane _ i s s1 F G si hTS hsi huses hleaf hGu hr.nd h1).2.2
    · refine ⟨.inr ⟨m, h1⟩, ⟨(fun ⟨s1, h2⟩ => by rw [h1] at h2; cases h2), (fun h => absurd (hcl.2 h) hnc)⟩⟩
  cases hg : amGet s.agg.imports name with
  | some existing =>
    have hin : (amGet s.agg.imports name).isSome = true := by rw [hg]; rfl
    have hname : name ∈ seen.map (·.1.1) := hN.from_ name hin
    rw [aggregate_exact hg]
    exact mergeCase name existing hg (fun q hq => by
      have h1 := hN.canon_eq_iff (hS q hq) hname
      rw [hN.canon_self hin] at h1; exact h1)
  | none =>
    cases hf : findSemver s.agg.imports name with
    | none =>
      rw [aggregate_fresh hg hf]
      -- no requirement of the class has been seen
      have hunseen : name ∉ seen.map (·.1.1) := by
        intro hs'
        rcases hN.seen name hs' with h1 | h1
        · rw [hg] at h1; cases h1
        · obtain ⟨b, hb⟩ := Option.isSome_iff_exists.1 h1
          obtain ⟨_, hbi, k0, va, vb, hka, hkb, _⟩ := hN.red name b hb
          obtain ⟨x, hx⟩ := Option.isSome_iff_exists.1 hbi
          exact findSemver_none hf hka (b, x) (amGet_mem _ _ _ hx) vb hkb
      have hnoclass : ∀ q, q ∈ seen → compat q.1.1 name = true → False := by
        intro q hq hc
        by_cases hne : q.1.1 = name
        · exact hunseen (by rw [← hne]; exact hS q hq)
        · obtain ⟨k0, vq, vn, hkq, hkn⟩ := key_of_compat hc hne
          obtain ⟨vh, hkc, _⟩ := hN.canon_key (n := q.1.1) hkq
          obtain ⟨x, hx⟩ := Option.isSome_iff_exists.1 (hN.canon_imported (hS q hq))
          exact findSemver_none hf hkn (_, x) (amGet_mem _ _ _ hx) vh hkc
      have hmiss : alGet s.agg.remapped (GTy.mk' types (.interface i)) = none := by
        cases hq : alGet s.agg.remapped (GTy.mk' types (.interface i)) with
        | none => rfl
        | some v =>
          obtain ⟨p, hp, hu⟩ := hT.keys (GTy.mk' types (.interface i)) rfl (by rw [hq]; rfl)
          exact absurd (hu.trans (gty_uid_of_hasId _ _ rfl)) (hfresh hunseen p hp)
      obtain ⟨k', s1, h1⟩ := remapKind_flat_total hW hr.sane (aggFuel s.agg types) i s si G ⟨hT.ainv.rinv, hcfg⟩
        (by simp only [aggFuel]; omega) hsi huses hid hleaf hGu hmiss
      obtain ⟨_, hfs⟩ := remapKind_flat_spec hW hr.sane _ i s s1 si k' G _ hT.ainv.rinv hsi huses hid hleaf hGu hmiss h1
      have hok : ∃ s', (remapKind (aggFuel s.agg types) types (.instance i) >>= freshTail name) s = .ok ((), s') := by
        simp only [run_bind, h1, freshTail, run_getAgg, hfs.imports, hg, Option.isSome_none, Bool.false_eq_true,
          ↓reduceIte, run_modifyAgg]
        exact ⟨_, rfl⟩
      exact ⟨.inl hok, ⟨fun _ q hq hc => (hnoclass q hq hc).elim, fun _ => hok⟩⟩
    | some p =>
      obtain ⟨exName, exKind⟩ := p
      rw [aggregate_semver hg hf]
      obtain ⟨hmem, k, vn, vex, hkn, hke⟩ := findSemver_some hf
      have hex : amGet s.agg.imports exName = some exKind := amGet_of_mem_nodup _ _ _ hN.nodup hmem
      have hexs : (amGet s.agg.imports exName).isSome = true := by rw [hex]; rfl
      have hexseen : exName ∈ seen.map (·.1.1) := hN.from_ exName hexs
      have hcls : ∀ q, q ∈ seen → (canon s.agg.redirects q.1.1 = exName ↔ compat q.1.1 name = true) := by
        intro q hq
        have h0 := hN.canon_eq_iff (hS q hq) hexseen
        rw [hN.canon_self hexs] at h0
        rw [h0]
        constructor
        · intro hc
          by_cases hne : q.1.1 = exName
          · rw [hne]; exact compat_of_key hke hkn
          · obtain ⟨k0, vq, ve, hkq, hke'⟩ := key_of_compat hc hne
            rw [hke] at hke'; cases hke'
            exact compat_of_key hkq hkn
        · intro hc
          by_cases hne : q.1.1 = name
          · rw [hne]; exact compat_of_key hkn hke
          · obtain ⟨k0, vq, vn', hkq, hkn'⟩ := key_of_compat hc hne
            rw [hkn] at hkn'; cases hkn'
            exact compat_of_key hkq hke
      obtain ⟨hdisj, hiff⟩ := mergeCase exName exKind hex hcls
      -- the name update after a successful merge cannot fail
      have after : ∀ s1, ∃ s', nameUpdate name exName s1 = .ok ((), s') := by
        intro s1
        simp only [nameUpdate, hkn, hke]
        split
        · exact ⟨_, rfl⟩
        · exact ⟨_, rfl⟩
      constructor
      · rcases hdisj with ⟨s1, h1⟩ | ⟨m, h1⟩
        · left
          obtain ⟨s', hs'⟩ := after s1
          exact ⟨s', by simp only [run_bind, h1, hs']⟩
        · right
          exact ⟨m, by simp only [run_bind, h1]⟩
      · constructor
        · rintro ⟨s', hs'⟩
          apply hiff.1
          cases hmk : mergeKind exKind types (.instance i) s with
          | ok us => obtain ⟨u, s1⟩ := us; exact ⟨s1, by cases u; rfl⟩
          | error e => simp only [run_bind, hmk] at hs'; cases hs'
        · intro hall
          obtain ⟨s1, h1⟩ := hiff.2 hall
          obtain ⟨s', hs'⟩ := after s1
          exact ⟨s', by simp only [run_bind, h1, hs']⟩

/-! ### the whole list -/

/-- every requirement agrees with the semver-compatible requirements before it -/
def CompatFrom : List (Req × Forest) → List (Req × Forest) → Prop
  | _, [] => True
  | seen, p :: cs => (∀ q, q ∈ seen → compat q.1.1 p.1.1 = true → Consistent q.2 p.2) ∧ CompatFrom (p :: seen) cs

/-- **`aggregateAll` on the fragment is total** and succeeds exactly when every requirement agrees
with the semver-compatible requirements before it -/
theorem aggregateAll_total {W : Colls} : ∀ (cs : List (Req × Forest)) (seen : List (Req × Forest)) (s : AggState),
    GInv W seen s → s.cfg.remapReplaced = true → (∀ p, p ∈ cs → FlatReq p.1 p.2 ∧ W.mem p.1.2.1) →
    (∀ p, p ∈ cs → ∀ q, q ∈ seen → q.1.2.1.uid ≠ p.1.2.1.uid) →
    cs.Pairwise (fun a b => a.1.2.1.uid ≠ b.1.2.1.uid) →
    ((∃ s', aggregateAll (cs.map (·.1)) s = .ok s') ↔ CompatFrom seen cs) ∧
      (∀ e, aggregateAll (cs.map (·.1)) s = .error e → ∃ m, e = .err m)
  | [], seen, s, _, _, _, _, _ => by
    simp only [List.map_nil, aggregateAll, CompatFrom, iff_true, reduceCtorEq, false_implies, implies_true, and_true]
    exact ⟨s, rfl⟩
  | p :: cs, seen, s, hG, hcfg, hfl, hfr, hpw => by
    rw [List.map_cons, aggregateAll_cons]
    rw [List.pairwise_cons] at hpw
    obtain ⟨hp1, hp2⟩ := hfl p List.mem_cons_self
    obtain ⟨hdisj, hiff⟩ := aggregate_total hG hcfg hp1 hp2 (fun _ q hq => hfr p List.mem_cons_self q hq)
    cases ha : aggregate p.1.1 p.1.2.1 p.1.2.2 s with
    | error e =>
      simp only [CompatFrom]
      refine ⟨⟨(fun ⟨s', h⟩ => by cases h), (fun hc => ?_)⟩, fun e' he' => ?_⟩
      · obtain ⟨s', hs'⟩ := hiff.2 hc.1
        rw [ha] at hs'; cases hs'
      · cases he'
        rcases hdisj with ⟨s', hs'⟩ | ⟨m, hm⟩
        · rw [ha] at hs'; cases hs'
        · rw [ha] at hm; cases hm; exact ⟨m, rfl⟩
    | ok us =>
      obtain ⟨u, s1⟩ := us
      have hau : aggregate p.1.1 p.1.2.1 p.1.2.2 s = .ok ((), s1) := by cases u; exact ha
      obtain ⟨hG1, hcf⟩ := ginv_step hG hp1 hp2 (fun _ q hq => hfr p List.mem_cons_self q hq) hau
      have ih := aggregateAll_total cs ((p.1, p.2) :: seen) s1 hG1 (by rw [hcf]; exact hcfg)
        (fun q hq => hfl q (List.mem_cons_of_mem _ hq))
        (by
          intro q hq q' hq'
          rcases List.mem_cons.1 hq' with rfl | hq'
          · exact hpw.1 q hq
          · exact hfr q (List.mem_cons_of_mem _ hq) q' hq')
        hpw.2
      simp only [CompatFrom]
      refine ⟨⟨(fun h => ⟨hiff.1 ⟨s1, hau⟩, ih.1.1 h⟩), (fun hc => ih.1.2 hc.2)⟩, ih.2⟩

/-- the order-independent reading: any two semver-compatible requirements agree on shared names -/
def CompatAll (cs : List (Req × Forest)) : Prop :=
  ∀ p q, p ∈ cs → q ∈ cs → compat q.1.1 p.1.1 = true → Consistent q.2 p.2

theorem Consistent.symm {F G : Forest} (h : Consistent F G) : Consistent G F :=
  fun k tg tf hg hf => (h k tf tg hf hg).symm

theorem Consistent.refl (F : Forest) : Consistent F F := fun k t t' h h' => by rw [h] at h'; exact Option.some.inj h'

theorem compat_comm (a b : Str) : compat a b = compat b a := by
  unfold compat
  by_cases h : a = b
  · subst h; rfl
  · have h1 : (a == b) = false := by simpa using h
    have h2 : (b == a) = false := by simpa using fun e => h e.symm
    simp only [h1, h2, Bool.false_eq_true, ↓reduceIte]
    cases altKey a <;> cases altKey b <;> simp only
    rename_i x y
    exact Bool.eq_iff_iff.2 ⟨fun h => by simpa using (by simpa using h : x.1 = y.1).symm,
      fun h => by simpa using (by simpa using h : y.1 = x.1).symm⟩

theorem compatFrom_iff (cs : List (Req × Forest)) :
    ∀ seen, CompatFrom seen cs ↔
      (∀ p q, p ∈ cs → q ∈ seen → compat q.1.1 p.1.1 = true → Consistent q.2 p.2) ∧
      cs.Pairwise (fun q p => compat q.1.1 p.1.1 = true → Consistent q.2 p.2) := by
  induction cs with
  | nil => intro seen; simp [CompatFrom]
  | cons a cs ih =>
    intro seen
    simp only [CompatFrom, ih, List.pairwise_cons, List.mem_cons]
    constructor
    · rintro ⟨h1, h2, h3⟩
      refine ⟨?_, ⟨fun p hp => h2 p a hp (.inl rfl), h3⟩⟩
      rintro p q (rfl | hp) hq hc
      · exact h1 q hq hc
      · exact h2 p q hp (.inr hq) hc
    · rintro ⟨h1, h2, h3⟩
      refine ⟨fun q hq hc => h1 a q (.inl rfl) hq hc, ?_, h3⟩
      rintro p q hp (rfl | hq) hc
      · exact h2 p hp hc
      · exact h1 p q (.inr hp) hq hc

theorem compatFrom_nil_iff (cs : List (Req × Forest)) : CompatFrom [] cs ↔ CompatAll cs := by
  rw [compatFrom_iff]
  constructor
  · rintro ⟨_, hpw⟩ p q hp hq hc
    -- positions: either one is earlier, or they are the same element
    have key : ∀ (l : List (Req × Forest)), l.Pairwise (fun q p => compat q.1.1 p.1.1 = true → Consistent q.2 p.2) →
        ∀ p q, p ∈ l → q ∈ l → compat q.1.1 p.1.1 = true → Consistent q.2 p.2 := by
      intro l
      induction l with
      | nil => intro _ p q hp; cases hp
      | cons a l ih =>
        intro hl p q hp hq hc
        rw [List.pairwise_cons] at hl
        rcases List.mem_cons.1 hp with hp' | hp' <;> rcases List.mem_cons.1 hq with hq' | hq'
        · rw [hp', hq']; exact Consistent.refl _
        · subst hp'; exact (hl.1 q hq' (by rw [compat_comm]; exact hc)).symm
        · subst hq'; exact hl.1 p hp' hc
        · exact ih hl.2 p q hp' hq' hc
    exact key cs hpw p q hp hq hc
  · intro h
    refine ⟨(fun p q _ hq => by cases hq), ?_⟩
    exact List.pairwise_of_forall_mem_list (fun a ha b hb hc => h b a hb ha hc)

end Wac.AggP
