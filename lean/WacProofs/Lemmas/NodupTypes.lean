import WacProofs.Lemmas.Nodup
/-
  C12 proofs: multiplicity, part 2: the leaves, types, function types and type declarations are
  duplicate-free (`Inj`, see `Nodup.lean`).
-/
namespace Wac.C12.ND
open Wac Wac.Ast Wac.Spec.Grammar

/-! ### leaves: at most one result -/

theorem det_gId : Det gId := by
  unfold gId
  refine det_bind (det_class_ _) fun s => ?_
  split <;> exact det_pure _

theorem det_gString : Det gString := by
  unfold gString
  exact det_bind (det_class_ _) fun s => det_pure _

theorem det_gPackageName : Det gPackageName := by
  unfold gPackageName
  refine det_bind (det_class_ _) fun s => ?_
  dsimp only
  split
  · exact det_pure _
  · split
    · exact det_pure _
    · exact det_fail

theorem det_gPackagePath : Det gPackagePath := by
  unfold gPackagePath
  refine det_bind (det_class_ _) fun s => ?_
  dsimp only
  split
  · exact det_pure _
  · split
    · exact det_pure _
    · exact det_fail


/-! ### types -/

/-- a keyword type -/
theorem inj_kw {F : List STok → Prop} (c : String) (x : Ty) : Inj F (do t c; pure x : SP Ty) :=
  inj_bind_det (det_t _) fun _ => inj_pure _

/-- `result` alone against an alternative starting with `result <` -/
theorem cross_result {k : Unit → SP Ty} {ts : List STok} {x : Ty} {r r' : List STok}
    (h : (x, r) ∈ (do t "result"; pure (Ty.Result none none z) : SP Ty) ts)
    (h' : (x, r') ∈ (t "result" >>= fun _ => t "<" >>= k) ts) (hF : NHL ["<"] r) : False := by
  obtain ⟨r1, e1, h1⟩ := head_of_t h
  obtain ⟨r1', e2, h2⟩ := head_of_t h'
  obtain ⟨r2, e3, _⟩ := head_of_t h2
  rw [mem_pure_iff] at h1
  rw [e1, e3] at e2
  rw [h1.2, (List.cons.inj e2).2] at hF
  exact not_NHL_lit_cons List.mem_cons_self _ hF


theorem cross_result23 {n : Nat} (ihH : Inj (NHL ["<"]) (gTypeOrHole n)) {ts : List STok} {x : Ty} {r r' : List STok}
    (h : (x, r) ∈ (do t "result"; t "<"; let ok ← gTypeOrHole n; t ">"; pure (Ty.Result ok none z) : SP Ty) ts)
    (h' : (x, r') ∈ (do t "result"; t "<"; let ok ← gTypeOrHole n; t ","; let err ← gTypeOrHole n; t ">"; pure (Ty.Result ok err z) : SP Ty) ts) : False := by
  obtain ⟨r1, e1, h1⟩ := head_of_t h
  obtain ⟨r2, e2, h2⟩ := head_of_t h1
  obtain ⟨r1', e1', h1'⟩ := head_of_t h'
  obtain ⟨r2', e2', h2'⟩ := head_of_t h1'
  rw [mem_bind_iff] at h2 h2'
  obtain ⟨ok, r3, hok, h3⟩ := h2
  obtain ⟨ok', r3', hok', h3'⟩ := h2'
  obtain ⟨r4, e4, h4⟩ := head_of_t h3
  obtain ⟨r4', e4', h4'⟩ := head_of_t h3'
  rw [mem_pure_iff] at h4
  simp only [mem_bind_iff, mem_pure_iff] at h4'
  obtain ⟨err, _, _, _, _, _, hx, _⟩ := h4'
  have hok_eq : ok = ok' := by
    have := h4.1.symm.trans hx
    injection this
  subst hok_eq
  have er : r2 = r2' := by
    rw [e1, e2] at e1'
    rw [e2'] at e1'
    exact (List.cons.inj (List.cons.inj e1').2).2
  subst er
  have := inj_rest_eq ihH hok hok' (by rw [e4]; exact NHL_lit_cons (by decide) _)
    (by rw [e4']; exact NHL_lit_cons (by decide) _)
  rw [e4, e4'] at this
  have := (List.cons.inj this).1
  revert this; decide


def tyTag : Ty → Nat
  | .U8 _ => 0 | .S8 _ => 1 | .U16 _ => 2 | .S16 _ => 3 | .U32 _ => 4 | .S32 _ => 5 | .U64 _ => 6
  | .S64 _ => 7 | .F32 _ => 8 | .F64 _ => 9 | .Char _ => 10 | .Bool _ => 11 | .String _ => 12
  | .Tuple _ _ => 13 | .List _ _ => 14 | .Option _ _ => 15 | .Result _ _ _ => 16 | .Borrow _ _ => 17
  | .Ident _ => 18

scoped macro "nd_out" : tactic =>
  `(tactic| (intro ts x r h; simp only [mem_bind_iff, mem_pure_iff] at h; grind [tyTag]))

theorem inj_gType_aux (fuel : Nat) :
    Inj (NHL ["<"]) (gType fuel) ∧ Inj (NHL ["<"]) (gTypeOrHole fuel) := by
  induction fuel with
  | zero => exact ⟨by unfold gType; exact inj_fail, by unfold gTypeOrHole; exact inj_fail⟩
  | succ n ih =>
    obtain ⟨ihT, ihH⟩ := ih
    constructor
    · unfold gType
      suffices h : InjT (NHL ["<"]) tyTag 19 _ from h.1
      -- id
      refine injT_alt 18 ?_ (inj_bind_det det_gId fun _ => inj_pure _) (by nd_out)
      -- borrow
      refine injT_alt 17 ?_ (inj_bind_det (det_t _) fun _ => inj_bind_det (det_t _) fun _ =>
        inj_bind_det det_gId fun _ => inj_bind_det (det_t _) fun _ => inj_pure _) (by nd_out)
      -- result, result<a>, result<a, b>
      refine injT_alt3 16 ?_ (inj_kw _ _)
        (inj_bind_det (det_t _) fun _ => inj_bind_det (det_t _) fun _ =>
          inj_bind ihH (fun ok => inj_bind_det (det_t _) fun _ => inj_pure _) (by nd_inj) (by nd_pres))
        (inj_bind_det (det_t _) fun _ => inj_bind_det (det_t _) fun _ =>
          inj_bind ihH (fun ok => inj_bind_det (det_t _) fun _ => inj_bind ihH
            (fun err => inj_bind_det (det_t _) fun _ => inj_pure _) (by nd_inj) (by nd_pres)) (by nd_inj) (by nd_pres))
        (by nd_out) (by nd_out) (by nd_out)
        (fun ts x r r' h h' hF _ => cross_result h h' hF)
        (fun ts x r r' h h' hF _ => cross_result h h' hF)
        (fun ts x r r' h h' _ _ => cross_result23 ihH h h')
      -- option
      refine injT_alt 15 ?_ (inj_bind_det (det_t _) fun _ => inj_bind_det (det_t _) fun _ =>
        inj_bind ihT (fun ok => inj_bind_det (det_t _) fun _ => inj_pure _) (by nd_inj) (by nd_pres)) (by nd_out)
      -- list
      refine injT_alt 14 ?_ (inj_bind_det (det_t _) fun _ => inj_bind_det (det_t _) fun _ =>
        inj_bind ihT (fun ok => inj_bind_det (det_t _) fun _ => inj_pure _) (by nd_inj) (by nd_pres)) (by nd_out)
      -- tuple
      refine injT_alt 13 ?_ (inj_bind_det (det_t _) fun _ => inj_bind_det (det_t _) fun _ =>
        inj_bind (inj_list1 ihT (by decide) n) (fun ok => inj_bind_det (det_t _) fun _ => inj_pure _)
          (by nd_inj) (by nd_pres)) (by nd_out)
      refine injT_alt 12 ?_ (inj_kw _ _) (by nd_out)
      refine injT_alt 11 ?_ (inj_kw _ _) (by nd_out)
      refine injT_alt 10 ?_ (inj_kw _ _) (by nd_out)
      refine injT_alt 9 ?_ (inj_kw _ _) (by nd_out)
      refine injT_alt 8 ?_ (inj_kw _ _) (by nd_out)
      refine injT_alt 7 ?_ (inj_kw _ _) (by nd_out)
      refine injT_alt 6 ?_ (inj_kw _ _) (by nd_out)
      refine injT_alt 5 ?_ (inj_kw _ _) (by nd_out)
      refine injT_alt 4 ?_ (inj_kw _ _) (by nd_out)
      refine injT_alt 3 ?_ (inj_kw _ _) (by nd_out)
      refine injT_alt 2 ?_ (inj_kw _ _) (by nd_out)
      refine injT_alt 1 ?_ (inj_kw _ _) (by nd_out)
      exact injT_base (inj_kw _ _) (by nd_out)
    · unfold gTypeOrHole
      exact inj_alt (inj_bind_det (det_t _) fun _ => inj_pure _)
        (inj_map ihT fun a a' h => Option.some.inj h) (by nd_cross)


theorem inj_gType (fuel : Nat) : Inj (NHL ["<"]) (gType fuel) := (inj_gType_aux fuel).1

/-! ### named types, parameter lists, function types -/

theorem inj_gNamedType (fuel : Nat) : Inj (NHL ["<"]) (gNamedType fuel) := by
  unfold gNamedType
  exact inj_bind_det det_gId fun id => inj_bind_det (det_t _) fun _ => inj_map (inj_gType fuel) (by nd_map)

theorem inj_gParamList (fuel : Nat) : Inj (NHL []) (gParamList fuel) := by
  unfold gParamList
  exact inj_bind_det (det_t _) fun _ => inj_bind (inj_list0 (inj_gNamedType fuel) (by decide) fuel)
    (fun ps => inj_bind_det (det_t _) fun _ => inj_pure _) (by nd_inj) (by nd_pres)

theorem inj_gFuncType (fuel : Nat) : Inj (NHL ["<"]) (gFuncType fuel) := by
  unfold gFuncType
  refine inj_bind_det (det_t _) fun _ => inj_bind_top (inj_gParamList fuel)
    (fun ps => inj_map (inj_opt (inj_bind_det (det_t _) fun _ => inj_gType fuel)) ?_) (by nd_inj)
  intro a a' h
  cases a <;> cases a' <;> simp at h ⊢
  exact h

theorem inj_gFuncTypeRef (fuel : Nat) : Inj (NHL ["<"]) (gFuncTypeRef fuel) := by
  unfold gFuncTypeRef
  exact inj_alt (inj_map (inj_gFuncType fuel) (by nd_map)) (inj_bind_det det_gId fun _ => inj_pure _) (by nd_cross)

/-! ### resources and type declarations -/

theorem inj_gResourceItem (fuel : Nat) : Inj (NHL []) (gResourceItem fuel) := by
  unfold gResourceItem
  refine inj_alt
    (inj_bind_det (det_t _) fun _ => inj_bind_top (inj_gParamList fuel)
      (fun ps => inj_bind_det (det_t _) fun _ => inj_pure _) (by nd_inj))
    (inj_bind_det det_gId fun id => inj_bind_det (det_t _) fun _ =>
      inj_bind_top (inj_opt (inj_of_det (det_t _)))
        (fun s => inj_bind (inj_gFuncType fuel) (fun f => inj_bind_det (det_t _) fun _ => inj_pure _)
          (by nd_inj) (by nd_pres)) ?_)
    (by nd_cross)
  intro a a' r r' y s s' h h'
  simp only [mem_bind_iff, mem_pure_iff] at h h'
  obtain ⟨_, _, _, _, _, _, rfl, _⟩ := h
  obtain ⟨_, _, _, _, _, _, e, _⟩ := h'
  cases a <;> cases a' <;> simp at e ⊢

theorem inj_gResourceDecl (fuel : Nat) : Inj (NHL []) (gResourceDecl fuel) := by
  unfold gResourceDecl
  exact inj_bind_det (det_t _) fun _ => inj_bind_det det_gId fun id =>
    inj_alt (inj_bind_det (det_t _) fun _ => inj_pure _)
      (inj_bind_det (det_t _) fun _ => inj_bind_top (inj_many_top (inj_gResourceItem fuel) fuel)
        (fun ms => inj_bind_det (det_t _) fun _ => inj_pure _) (by nd_inj))
      (cross_t (by decide))

theorem inj_gVariantDecl (fuel : Nat) : Inj (NHL []) (gVariantDecl fuel) := by
  unfold gVariantDecl
  refine inj_bind_det (det_t _) fun _ => inj_bind_det det_gId fun id => inj_bind_det (det_t _) fun _ =>
    inj_bind (inj_list1 (cs := []) ?_ (by decide) fuel)
      (fun cases => inj_bind_det (det_t _) fun _ => inj_pure _) (by nd_inj) (by nd_pres)
  exact inj_bind_det det_gId fun id => inj_map (inj_opt (inj_bind_det (det_t _) fun _ =>
    inj_bind (inj_gType fuel) (fun ty => inj_bind_det (det_t _) fun _ => inj_pure _) (by nd_inj) (by nd_pres)))
    (by nd_map)

theorem inj_gRecordDecl (fuel : Nat) : Inj (NHL []) (gRecordDecl fuel) := by
  unfold gRecordDecl
  exact inj_bind_det (det_t _) fun _ => inj_bind_det det_gId fun id => inj_bind_det (det_t _) fun _ =>
    inj_bind (inj_list1 (inj_map (inj_gNamedType fuel) (by
        rintro ⟨i, ty⟩ ⟨i', ty'⟩ h; simp only [Field.mk.injEq, true_and] at h; rw [h.1, h.2])) (by decide) fuel)
      (fun fields => inj_bind_det (det_t _) fun _ => inj_pure _) (by nd_inj) (by nd_pres)

theorem inj_gFlagsDecl (fuel : Nat) : Inj (NHL []) (gFlagsDecl fuel) := by
  unfold gFlagsDecl
  exact inj_bind_det (det_t _) fun _ => inj_bind_det det_gId fun id => inj_bind_det (det_t _) fun _ =>
    inj_bind (inj_list1 (cs := []) (inj_bind_det det_gId fun _ => inj_pure _) (by decide) fuel)
      (fun flags => inj_bind_det (det_t _) fun _ => inj_pure _) (by nd_inj) (by nd_pres)

theorem inj_gEnumDecl (fuel : Nat) : Inj (NHL []) (gEnumDecl fuel) := by
  unfold gEnumDecl
  exact inj_bind_det (det_t _) fun _ => inj_bind_det det_gId fun id => inj_bind_det (det_t _) fun _ =>
    inj_bind (inj_list1 (cs := []) (inj_bind_det det_gId fun _ => inj_pure _) (by decide) fuel)
      (fun cases => inj_bind_det (det_t _) fun _ => inj_pure _) (by nd_inj) (by nd_pres)

theorem inj_gTypeAlias (fuel : Nat) : Inj (NHL []) (gTypeAlias fuel) := by
  unfold gTypeAlias
  exact inj_bind_det (det_t _) fun _ => inj_bind_det det_gId fun id => inj_bind_det (det_t _) fun _ =>
    inj_bind (inj_alt (inj_map (inj_gFuncType fuel) (by nd_map)) (inj_map (inj_gType fuel) (by nd_map)) (by nd_cross))
      (fun kind => inj_bind_det (det_t _) fun _ => inj_pure _) (by nd_inj) (by nd_pres)

theorem inj_gTypeDecl (fuel : Nat) : Inj (NHL []) (gTypeDecl fuel) := by
  unfold gTypeDecl
  exact inj_alt (inj_alt (inj_alt (inj_alt
    (inj_map (inj_gVariantDecl fuel) (by nd_map)) (inj_map (inj_gRecordDecl fuel) (by nd_map)) (by nd_cross))
    (inj_map (inj_gFlagsDecl fuel) (by nd_map)) (by nd_cross))
    (inj_map (inj_gEnumDecl fuel) (by nd_map)) (by nd_cross))
    (inj_map (inj_gTypeAlias fuel) (by nd_map)) (by nd_cross)

theorem inj_gItemTypeDecl (fuel : Nat) : Inj (NHL []) (gItemTypeDecl fuel) := by
  unfold gItemTypeDecl
  refine inj_alt (inj_map (inj_gResourceDecl fuel) (by nd_map)) (inj_map (inj_gTypeDecl fuel) ?_) ?_
  · intro a a' h
    cases a <;> cases a' <;> simp at h ⊢ <;> exact h
  · intro ts x r r' h h' _ _
    simp only [mem_bind_iff, mem_pure_iff] at h h'
    obtain ⟨_, _, _, rfl, _⟩ := h
    obtain ⟨d, _, _, e, _⟩ := h'
    cases d <;> simp at e

end Wac.C12.ND
