import WacProofs.Lemmas.Nodup
/-
  C12 proofs: multiplicity, part 2: the leaves, types, function types and type declarations are
  duplicate-free (`Inj`, see `Nodup.lean`).
-/
namespace Wac.C12.ND
open Wac Wac.Ast Wac.Spec.Grammar

/-! ### leaves: at most one result -/

theorem det_gId : Det gId := by
  unfold gId
  refine det_bind (det_class_ _) fun s => ?_
  split <;> exact det_pure _

theorem det_gString : Det gString := by
  unfold gString
  exact det_bind (det_class_ _) fun s => det_pure _

theorem det_gPackageName : Det gPackageName := by
  unfold gPackageName
  refine det_bind (det_class_ _) fun s => ?_
  dsimp only
  split
  · exact det_pure _
  · split
    · exact det_pure _
    · exact det_fail

theorem det_gPackagePath : Det gPackagePath := by
  unfold gPackagePath
  refine det_bind (det_class_ _) fun s => ?_
  dsimp only
  split
  · exact det_pure _
  · split
    · exact det_pure _
    · exact det_fail


/-! ### types -/

/-- a keyword type -/
theorem inj_kw {F : List STok → Prop} (c : String) (x : Ty) : Inj F (do t c; pure x : SP Ty) :=
  inj_bind_det (det_t _) fun _ => inj_pure _

/-- `result` alone against an alternative starting with `result <` -/
theorem cross_result {k : Unit → SP Ty} {ts : List STok} {x : Ty} {r r' : List STok}
    (h : (x, r) ∈ (do t "result"; pure (Ty.Result none none z) : SP Ty) ts)
    (h' : (x, r') ∈ (t "result" >>= fun _ => t "<" >>= k) ts) (hF : NHL ["<"] r) : False := by
  obtain ⟨r1, e1, h1⟩ := head_of_t h
  obtain ⟨r1', e2, h2⟩ := head_of_t h'
  obtain ⟨r2, e3, _⟩ := head_of_t h2
  rw [mem_pure_iff] at h1
  rw [e1, e3] at e2
  rw [h1.2, (List.cons.inj e2).2] at hF
  exact not_NHL_lit_cons List.mem_cons_self _ hF


/-- an alternative whose first part is itself a sequence starting with a terminal, against one starting
with another terminal -/
theorem cross_t_assoc {α β} {F : List STok → Prop} {c c' : String} {g : Unit → SP β} {k : β → SP α}
    {g' : Unit → SP α} (hne : c ≠ c') : Cross F ((t c >>= g) >>= k) (t c' >>= g') := by
  intro ts x r r' h h' _ _
  rw [mem_bind_iff] at h
  obtain ⟨b, r0, h0, _⟩ := h
  obtain ⟨r1, e1, _⟩ := head_of_t h0
  obtain ⟨r2, e2, _⟩ := head_of_t h'
  rw [e1] at e2
  have := (List.cons.inj e2).1
  simp only [lit, STok.mk.injEq, true_and] at this
  exact hne (String.toList_inj.mp this)

/-- `(',' (type | '_'))? '>'` after the first component of a `result`: `result<t>` and `result<t, _>`
give the same tree, but the first needs `>` and the second `,` at the same place -/
theorem inj_result_tail {n : Nat} (ihH : Inj (NHL ["<"]) (gTypeOrHole n)) (ok : Option Ty) :
    Inj (NHL ["<"]) (opt (do t ","; gTypeOrHole n) >>= fun err =>
      (do t ">"; pure (Ty.Result ok (err.getD none) z) : SP Ty)) := by
  refine inj_opt_bind
    (inj_bind (inj_bind_det (det_t _) fun _ => ihH)
      (fun err => inj_bind_det (det_t _) fun _ => inj_pure _) ?_ (by nd_pres))
    (inj_bind_det (det_t _) fun _ => inj_pure _)
    (cross_t_assoc (by decide))
  intro a a' r r' y s s' h h'
  simp only [mem_bind_iff, mem_pure_iff, Option.getD_some] at h h'
  obtain ⟨_, _, _, rfl, _⟩ := h
  obtain ⟨_, _, _, e, _⟩ := h'
  injection e

/-- the tail of a `result<` starts with `,` or `>` -/
theorem pres_result_tail {n : Nat} {ok : Option Ty} {r s : List STok} {y : Ty}
    (h : (y, s) ∈ (opt (do t ","; gTypeOrHole n) >>= fun err =>
      (do t ">"; pure (Ty.Result ok (err.getD none) z) : SP Ty)) r) : NHL ["<"] r := by
  rw [opt_bind, mem_alt_iff] at h
  rcases h with h | h
  · rw [mem_bind_iff] at h
    obtain ⟨_, _, h0, _⟩ := h
    exact NHL_of_t h0 (by decide)
  · exact NHL_of_t h (by decide)

/-- two alternatives with the same tag -/
theorem injT_alt2 {α} {F : List STok → Prop} {tag : α → Nat} {p q1 q2 : SP α} (k : Nat)
    (hp : InjT F tag k p) (h1 : Inj F q1) (h2 : Inj F q2)
    (o1 : Out q1 (fun x => tag x = k)) (o2 : Out q2 (fun x => tag x = k))
    (x12 : Cross F q1 q2) : InjT F tag (k + 1) ((p <+> q1) <+> q2) := by
  have c : ∀ {q : SP α}, Out q (fun x => tag x = k) → Cross F p q := fun oq =>
    cross_of_out hp.2 oq fun x h1 h2 => by have h1' : tag x < k := h1; have h2' : tag x = k := h2; omega
  refine ⟨inj_alt (inj_alt hp.1 h1 (c o1)) h2 (cross_alt (c o2) x12), ?_⟩
  intro ts x r h
  simp only [mem_alt_iff] at h
  rcases h with (h | h) | h
  · have := hp.2 ts x r h; simp only at this ⊢; omega
  · have := o1 ts x r h; simp only at this ⊢; omega
  · have := o2 ts x r h; simp only at this ⊢; omega

def tyTag : Ty → Nat
  | .U8 _ => 0 | .S8 _ => 1 | .U16 _ => 2 | .S16 _ => 3 | .U32 _ => 4 | .S32 _ => 5 | .U64 _ => 6
  | .S64 _ => 7 | .F32 _ => 8 | .F64 _ => 9 | .Char _ => 10 | .Bool _ => 11 | .String _ => 12
  | .Tuple _ _ => 13 | .List _ _ => 14 | .Option _ _ => 15 | .Result _ _ _ => 16 | .Borrow _ _ => 17
  | .Ident _ => 18

scoped macro "nd_out" : tactic =>
  `(tactic| (intro ts x r h; simp only [mem_bind_iff, mem_pure_iff] at h; grind [tyTag]))

theorem inj_gType_aux (fuel : Nat) :
    Inj (NHL ["<"]) (gType fuel) ∧ Inj (NHL ["<"]) (gTypeOrHole fuel) := by
  induction fuel with
  | zero => exact ⟨by unfold gType; exact inj_fail, by unfold gTypeOrHole; exact inj_fail⟩
  | succ n ih =>
    obtain ⟨ihT, ihH⟩ := ih
    constructor
    · unfold gType
      suffices h : InjT (NHL ["<"]) tyTag 19 _ from h.1
      -- id
      refine injT_alt 18 ?_ (inj_bind_det det_gId fun _ => inj_pure _) (by nd_out)
      -- borrow
      refine injT_alt 17 ?_ (inj_bind_det (det_t _) fun _ => inj_bind_det (det_t _) fun _ =>
        inj_bind_det det_gId fun _ => inj_bind_det (det_t _) fun _ => inj_pure _) (by nd_out)
      -- result, result<a (, b)?>
      refine injT_alt2 16 ?_ (inj_kw _ _)
        (inj_bind_det (det_t _) fun _ => inj_bind_det (det_t _) fun _ =>
          inj_bind ihH (fun ok => inj_result_tail ihH ok) (by nd_inj) (fun _ _ _ _ h _ => pres_result_tail h))
        (by nd_out) (by nd_out)
        (fun ts x r r' h h' hF _ => cross_result h h' hF)
      -- option
      refine injT_alt 15 ?_ (inj_bind_det (det_t _) fun _ => inj_bind_det (det_t _) fun _ =>
        inj_bind ihT (fun ok => inj_bind_det (det_t _) fun _ => inj_pure _) (by nd_inj) (by nd_pres)) (by nd_out)
      -- list
      refine injT_alt 14 ?_ (inj_bind_det (det_t _) fun _ => inj_bind_det (det_t _) fun _ =>
        inj_bind ihT (fun ok => inj_bind_det (det_t _) fun _ => inj_pure _) (by nd_inj) (by nd_pres)) (by nd_out)
      -- tuple
      refine injT_alt 13 ?_ (inj_bind_det (det_t _) fun _ => inj_bind_det (det_t _) fun _ =>
        inj_bind (inj_list1 ihT (by decide) n) (fun ok => inj_bind_det (det_t _) fun _ => inj_pure _)
          (by nd_inj) (by nd_pres)) (by nd_out)
      refine injT_alt 12 ?_ (inj_kw _ _) (by nd_out)
      refine injT_alt 11 ?_ (inj_kw _ _) (by nd_out)
      refine injT_alt 10 ?_ (inj_kw _ _) (by nd_out)
      refine injT_alt 9 ?_ (inj_kw _ _) (by nd_out)
      refine injT_alt 8 ?_ (inj_kw _ _) (by nd_out)
      refine injT_alt 7 ?_ (inj_kw _ _) (by nd_out)
      refine injT_alt 6 ?_ (inj_kw _ _) (by nd_out)
      refine injT_alt 5 ?_ (inj_kw _ _) (by nd_out)
      refine injT_alt 4 ?_ (inj_kw _ _) (by nd_out)
      refine injT_alt 3 ?_ (inj_kw _ _) (by nd_out)
      refine injT_alt 2 ?_ (inj_kw _ _) (by nd_out)
      refine injT_alt 1 ?_ (inj_kw _ _) (by nd_out)
      exact injT_base (inj_kw _ _) (by nd_out)
    · unfold gTypeOrHole
      exact inj_alt (inj_bind_det (det_t _) fun _ => inj_pure _)
        (inj_map ihT fun a a' h => Option.some.inj h) (by nd_cross)


theorem inj_gType (fuel : Nat) : Inj (NHL ["<"]) (gType fuel) := (inj_gType_aux fuel).1

/-! ### named types, parameter lists, function types -/

theorem inj_gNamedType (fuel : Nat) : Inj (NHL ["<"]) (gNamedType fuel) := by
  unfold gNamedType
  exact inj_bind_det det_gId fun id => inj_bind_det (det_t _) fun _ => inj_map (inj_gType fuel) (by nd_map)

theorem inj_gParamList (fuel : Nat) : Inj (NHL []) (gParamList fuel) := by
  unfold gParamList
  exact inj_bind_det (det_t _) fun _ => inj_bind (inj_list0 (inj_gNamedType fuel) (by decide) fuel)
    (fun ps => inj_bind_det (det_t _) fun _ => inj_pure _) (by nd_inj) (by nd_pres)

theorem inj_gFuncType (fuel : Nat) : Inj (NHL ["<"]) (gFuncType fuel) := by
  unfold gFuncType
  refine inj_bind_det (det_t _) fun _ => inj_bind_top (inj_gParamList fuel)
    (fun ps => inj_map (inj_opt (inj_bind_det (det_t _) fun _ => inj_gType fuel)) ?_) (by nd_inj)
  intro a a' h
  cases a <;> cases a' <;> simp at h ⊢
  exact h

theorem inj_gFuncTypeRef (fuel : Nat) : Inj (NHL ["<"]) (gFuncTypeRef fuel) := by
  unfold gFuncTypeRef
  exact inj_alt (inj_map (inj_gFuncType fuel) (by nd_map)) (inj_bind_det det_gId fun _ => inj_pure _) (by nd_cross)

/-! ### resources and type declarations -/

theorem inj_gResourceItem (fuel : Nat) : Inj (NHL []) (gResourceItem fuel) := by
  unfold gResourceItem
  refine inj_alt
    (inj_bind_det (det_t _) fun _ => inj_bind_top (inj_gParamList fuel)
      (fun ps => inj_bind_det (det_t _) fun _ => inj_pure _) (by nd_inj))
    (inj_bind_det det_gId fun id => inj_bind_det (det_t _) fun _ =>
      inj_bind_top (inj_opt (inj_of_det (det_t _)))
        (fun s => inj_bind (inj_gFuncType fuel) (fun f => inj_bind_det (det_t _) fun _ => inj_pure _)
          (by nd_inj) (by nd_pres)) ?_)
    (by nd_cross)
  intro a a' r r' y s s' h h'
  simp only [mem_bind_iff, mem_pure_iff] at h h'
  obtain ⟨_, _, _, _, _, _, rfl, _⟩ := h
  obtain ⟨_, _, _, _, _, _, e, _⟩ := h'
  cases a <;> cases a' <;> simp at e ⊢

theorem inj_gResourceDecl (fuel : Nat) : Inj (NHL []) (gResourceDecl fuel) := by
  unfold gResourceDecl
  exact inj_bind_det (det_t _) fun _ => inj_bind_det det_gId fun id =>
    inj_alt (inj_bind_det (det_t _) fun _ => inj_pure _)
      (inj_bind_det (det_t _) fun _ => inj_bind_top (inj_many_top (inj_gResourceItem fuel) fuel)
        (fun ms => inj_bind_det (det_t _) fun _ => inj_pure _) (by nd_inj))
      (cross_t (by decide))

theorem inj_gVariantDecl (fuel : Nat) : Inj (NHL []) (gVariantDecl fuel) := by
  unfold gVariantDecl
  refine inj_bind_det (det_t _) fun _ => inj_bind_det det_gId fun id => inj_bind_det (det_t _) fun _ =>
    inj_bind (inj_list1 (cs := []) ?_ (by decide) fuel)
      (fun cases => inj_bind_det (det_t _) fun _ => inj_pure _) (by nd_inj) (by nd_pres)
  exact inj_bind_det det_gId fun id => inj_map (inj_opt (inj_bind_det (det_t _) fun _ =>
    inj_bind (inj_gType fuel) (fun ty => inj_bind_det (det_t _) fun _ => inj_pure _) (by nd_inj) (by nd_pres)))
    (by nd_map)

theorem inj_gRecordDecl (fuel : Nat) : Inj (NHL []) (gRecordDecl fuel) := by
  unfold gRecordDecl
  exact inj_bind_det (det_t _) fun _ => inj_bind_det det_gId fun id => inj_bind_det (det_t _) fun _ =>
    inj_bind (inj_list1 (inj_map (inj_gNamedType fuel) (by
        rintro ⟨i, ty⟩ ⟨i', ty'⟩ h; simp only [Field.mk.injEq, true_and] at h; rw [h.1, h.2])) (by decide) fuel)
      (fun fields => inj_bind_det (det_t _) fun _ => inj_pure _) (by nd_inj) (by nd_pres)

theorem inj_gFlagsDecl (fuel : Nat) : Inj (NHL []) (gFlagsDecl fuel) := by
  unfold gFlagsDecl
  exact inj_bind_det (det_t _) fun _ => inj_bind_det det_gId fun id => inj_bind_det (det_t _) fun _ =>
    inj_bind (inj_list1 (cs := []) (inj_bind_det det_gId fun _ => inj_pure _) (by decide) fuel)
      (fun flags => inj_bind_det (det_t _) fun _ => inj_pure _) (by nd_inj) (by nd_pres)

theorem inj_gEnumDecl (fuel : Nat) : Inj (NHL []) (gEnumDecl fuel) := by
  unfold gEnumDecl
  exact inj_bind_det (det_t _) fun _ => inj_bind_det det_gId fun id => inj_bind_det (det_t _) fun _ =>
    inj_bind (inj_list1 (cs := []) (inj_bind_det det_gId fun _ => inj_pure _) (by decide) fuel)
      (fun cases => inj_bind_det (det_t _) fun _ => inj_pure _) (by nd_inj) (by nd_pres)

theorem inj_gTypeAlias (fuel : Nat) : Inj (NHL []) (gTypeAlias fuel) := by
  unfold gTypeAlias
  exact inj_bind_det (det_t _) fun _ => inj_bind_det det_gId fun id => inj_bind_det (det_t _) fun _ =>
    inj_bind (inj_alt (inj_map (inj_gFuncType fuel) (by nd_map)) (inj_map (inj_gType fuel) (by nd_map)) (by nd_cross))
      (fun kind => inj_bind_det (det_t _) fun _ => inj_pure _) (by nd_inj) (by nd_pres)

theorem inj_gTypeDecl (fuel : Nat) : Inj (NHL []) (gTypeDecl fuel) := by
  unfold gTypeDecl
  exact inj_alt (inj_alt (inj_alt (inj_alt
    (inj_map (inj_gVariantDecl fuel) (by nd_map)) (inj_map (inj_gRecordDecl fuel) (by nd_map)) (by nd_cross))
    (inj_map (inj_gFlagsDecl fuel) (by nd_map)) (by nd_cross))
    (inj_map (inj_gEnumDecl fuel) (by nd_map)) (by nd_cross))
    (inj_map (inj_gTypeAlias fuel) (by nd_map)) (by nd_cross)

theorem inj_gItemTypeDecl (fuel : Nat) : Inj (NHL []) (gItemTypeDecl fuel) := by
  unfold gItemTypeDecl
  refine inj_alt (inj_map (inj_gResourceDecl fuel) (by nd_map)) (inj_map (inj_gTypeDecl fuel) ?_) ?_
  · intro a a' h
    cases a <;> cases a' <;> simp at h ⊢ <;> exact h
  · intro ts x r r' h h' _ _
    simp only [mem_bind_iff, mem_pure_iff] at h h'
    obtain ⟨_, _, _, rfl, _⟩ := h
    obtain ⟨d, _, _, e, _⟩ := h'
    cases d <;> simp at e

end Wac.C12.ND
