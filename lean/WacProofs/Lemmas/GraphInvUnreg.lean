import WacProofs.Lemmas.GraphInvBulk
/-
  `unregister_package`: specification of `retainNodes`, shape of the result.
-/
namespace Wac.Graph
open Wac Wac.HashSites

/-- one step of `retain_nodes` -/
def retainStep (id : PkgId) (g : Graph) (i : Nat) : Graph :=
  if g.nodePkgIs i id then
    match g.rawRemove i with
    | some (_, g') => g'
    | none => g
  else g

theorem retainNodes_eq (g : Graph) (id : PkgId) :
    retainNodes g id = (List.range g.nodes.length).foldl (retainStep id) g := rfl

theorem nodePkgIs_congr {g g' : Graph} {m : Nat} (h : g'.node? m = g.node? m) (id : PkgId) :
    g'.nodePkgIs m id = g.nodePkgIs m id := by
  unfold Graph.nodePkgIs; rw [h]

/-- a step that does nothing -/
theorem retainStep_skip {id : PkgId} {g : Graph} {i : Nat} (h : g.nodePkgIs i id = false) : retainStep id g i = g := by
  unfold retainStep; simp [h]

/-- a step that removes node `i` -/
theorem retainStep_remove {id : PkgId} {g : Graph} {i : Nat} {nd : Node} (h : g.nodePkgIs i id = true)
    (hnd : g.node? i = some nd) :
    retainStep id g i = { g with nodes := g.nodes.set i none,
                                 edges := g.edges.filter (fun e => !(e.src == i || e.dst == i)),
                                 freeNodes := i :: g.freeNodes } := by
  unfold retainStep Graph.rawRemove
  simp [h, hnd]

/-- what one step does -/
theorem retainStep_spec (id : PkgId) (g : Graph) (i : Nat) (f : FreeInv g) :
    (∀ m, (retainStep id g i).node? m = if m = i ∧ g.nodePkgIs i id = true then none else g.node? m) ∧
    (retainStep id g i).edges =
      g.edges.filter (fun e => !((e.src == i && g.nodePkgIs i id) || (e.dst == i && g.nodePkgIs i id))) ∧
    FreeInv (retainStep id g i) ∧ (retainStep id g i).nodes.length = g.nodes.length ∧
    (retainStep id g i).imports = g.imports ∧ (retainStep id g i).exports = g.exports ∧
    (retainStep id g i).defined = g.defined ∧ (retainStep id g i).pkgs = g.pkgs ∧
    (retainStep id g i).pkgMap = g.pkgMap ∧ (retainStep id g i).freePkgs = g.freePkgs := by
  cases hd : g.nodePkgIs i id with
  | false =>
    rw [retainStep_skip hd]
    refine ⟨fun m => by simp, ?_, f, rfl, rfl, rfl, rfl, rfl, rfl, rfl⟩
    symm
    rw [List.filter_eq_self]
    intro e _; simp
  | true =>
    have hlive : ∃ nd, g.node? i = some nd := by
      unfold Graph.nodePkgIs at hd
      cases hq : g.node? i with
      | none => rw [hq] at hd; cases hd
      | some nd => exact ⟨nd, rfl⟩
    obtain ⟨nd, hnd⟩ := hlive
    rw [retainStep_remove hd hnd]
    have hlt := node?_eq_some_lt hnd
    have hnode : ∀ (g' : Graph), g'.nodes = g.nodes.set i none → ∀ m, g'.node? m = if m = i then none else g.node? m :=
      fun g' h m => node?_set h hlt m
    refine ⟨fun m => by rw [hnode _ rfl m]; simp, ?_, ?_, by simp, rfl, rfl, rfl, rfl, rfl, rfl⟩
    · show g.edges.filter _ = g.edges.filter _
      congr 1
      funext e
      simp [Bool.not_or]
    · refine ⟨?_, ?_, ?_⟩
      · show (i :: g.freeNodes).Nodup
        rw [List.nodup_cons]
        refine ⟨fun hm => ?_, f.nodup⟩
        have := (f.vacant i hm).2
        rw [hnd] at this; cases this
      · intro j hj
        have hj' : j ∈ i :: g.freeNodes := hj
        refine ⟨?_, ?_⟩
        · show j < (g.nodes.set i none).length
          rw [List.length_set]
          rcases List.mem_cons.mp hj' with rfl | hj'
          · exact hlt
          · exact (f.vacant j hj').1
        · rw [hnode _ rfl]
          rcases List.mem_cons.mp hj' with rfl | hj'
          · simp
          · have := (f.vacant j hj').2
            split <;> simp [this]
      · intro j hj hv
        have hj' : j < (g.nodes.set i none).length := hj
        rw [List.length_set] at hj'
        rw [hnode _ rfl] at hv
        show j ∈ i :: g.freeNodes
        by_cases hji : j = i
        · rw [hji]; exact List.mem_cons_self ..
        · simp only [hji, ↓reduceIte] at hv
          exact List.mem_cons_of_mem _ (f.all j hj' hv)

/-- the whole loop over a duplicate-free index list -/
theorem retainList_spec (id : PkgId) : ∀ (is : List Nat) (g : Graph), is.Nodup → FreeInv g →
    (∀ m, (is.foldl (retainStep id) g).node? m = if m ∈ is ∧ g.nodePkgIs m id = true then none else g.node? m) ∧
    (is.foldl (retainStep id) g).edges = g.edges.filter (fun e => !((is.contains e.src && g.nodePkgIs e.src id) ||
      (is.contains e.dst && g.nodePkgIs e.dst id))) ∧
    FreeInv (is.foldl (retainStep id) g) ∧ (is.foldl (retainStep id) g).nodes.length = g.nodes.length ∧
    (is.foldl (retainStep id) g).imports = g.imports ∧ (is.foldl (retainStep id) g).exports = g.exports ∧
    (is.foldl (retainStep id) g).defined = g.defined ∧ (is.foldl (retainStep id) g).pkgs = g.pkgs ∧
    (is.foldl (retainStep id) g).pkgMap = g.pkgMap ∧ (is.foldl (retainStep id) g).freePkgs = g.freePkgs
  | [], g, _, f => by
    refine ⟨fun m => by simp, ?_, f, rfl, rfl, rfl, rfl, rfl, rfl, rfl⟩
    show g.edges = _
    symm
    rw [List.filter_eq_self]
    intro e _; simp
  | i :: r, g, hnd, f => by
    rw [List.nodup_cons] at hnd
    obtain ⟨s1, s2, s3, s4, s5, s6, s7, s8, s9, s10⟩ := retainStep_spec id g i f
    obtain ⟨t1, t2, t3, t4, t5, t6, t7, t8, t9, t10⟩ := retainList_spec id r (retainStep id g i) hnd.2 s3
    -- `nodePkgIs` of the other slots is unchanged by the step
    have hpk : ∀ m, m ≠ i → (retainStep id g i).nodePkgIs m id = g.nodePkgIs m id := by
      intro m hm
      apply nodePkgIs_congr
      rw [s1 m]; simp [hm]
    have hfold : (i :: r).foldl (retainStep id) g = r.foldl (retainStep id) (retainStep id g i) := rfl
    rw [hfold]
    refine ⟨?_, ?_, t3, t4.trans s4, t5.trans s5, t6.trans s6, t7.trans s7, t8.trans s8, t9.trans s9, t10.trans s10⟩
    · intro m
      rw [t1 m]
      by_cases hmi : m = i
      · subst hmi
        have : m ∉ r := hnd.1
        rw [s1 m]
        simp [this]
      · rw [hpk m hmi, s1 m]
        by_cases hr : m ∈ r
        · simp [hr, hmi]
        · simp [hr, hmi]
    · rw [t2, s2, List.filter_filter]
      congr 1
      funext e
      -- pointwise on the endpoints
      have key : ∀ x, ((r.contains x && (retainStep id g i).nodePkgIs x id) || (x == i && g.nodePkgIs i id)) =
          ((i :: r).contains x && g.nodePkgIs x id) := by
        intro x
        by_cases hx : x = i
        · subst hx
          have hxr : x ∉ r := hnd.1
          simp [hxr]
        · rw [hpk x hx]
          simp [hx]
      rw [← key e.src, ← key e.dst]
      cases (r.contains e.src && (retainStep id g i).nodePkgIs e.src id) <;>
        cases (r.contains e.dst && (retainStep id g i).nodePkgIs e.dst id) <;>
        cases (e.src == i && g.nodePkgIs i id) <;> cases (e.dst == i && g.nodePkgIs i id) <;> rfl

/-- `retain_nodes`: the nodes of the package and their edges go, nothing else changes -/
theorem retainNodes_spec (g : Graph) (id : PkgId) (f : FreeInv g) :
    (∀ m, (retainNodes g id).node? m = if g.nodePkgIs m id = true then none else g.node? m) ∧
    (retainNodes g id).edges = g.edges.filter (fun e => !(g.nodePkgIs e.src id || g.nodePkgIs e.dst id)) ∧
    FreeInv (retainNodes g id) ∧
    (retainNodes g id).imports = g.imports ∧ (retainNodes g id).exports = g.exports ∧
    (retainNodes g id).defined = g.defined ∧ (retainNodes g id).pkgs = g.pkgs ∧
    (retainNodes g id).pkgMap = g.pkgMap ∧ (retainNodes g id).freePkgs = g.freePkgs := by
  rw [retainNodes_eq]
  obtain ⟨t1, t2, t3, _, t5, t6, t7, t8, t9, t10⟩ :=
    retainList_spec id (List.range g.nodes.length) g List.nodup_range f
  -- a node of the package is a live node, hence in range
  have hin : ∀ m, g.nodePkgIs m id = true → m ∈ List.range g.nodes.length := by
    intro m hm
    unfold Graph.nodePkgIs at hm
    cases hq : g.node? m with
    | none => rw [hq] at hm; cases hm
    | some nd => exact List.mem_range.mpr (node?_eq_some_lt hq)
  refine ⟨?_, ?_, t3, t5, t6, t7, t8, t9, t10⟩
  · intro m
    rw [t1 m]
    by_cases hm : g.nodePkgIs m id = true
    · simp [hm, hin m hm]
    · simp [hm]
  · rw [t2]
    congr 1
    funext e
    have key : ∀ x, ((List.range g.nodes.length).contains x && g.nodePkgIs x id) = g.nodePkgIs x id := by
      intro x
      cases hx : g.nodePkgIs x id with
      | false => simp
      | true =>
        have := hin x hx
        simp [this]
    rw [key e.src, key e.dst]

end Wac.Graph
