import WacProofs.Lemmas.Plug
/-
  C10 helper lemmas, part 2: a second offer for a satisfied import fails; idle plugs; nothing
  offered ⇒ `NoPlugHappened`.
-/
namespace Wac.Graph
open Wac Wac.HashSites

theorem scanArgs_found {es : List Edge} {i a a' : Nat}
    (hall : ∀ e ∈ es, ∃ j, e.kind = .arg j) (hex : ∃ e ∈ es, e.kind = .arg i)
    (huniq : ∀ e ∈ es, e.kind = .arg i → e.src = a') : scanArgs es i a = some (.ok (a' == a)) := by
  induction es with
  | nil => obtain ⟨e, he, _⟩ := hex; cases he
  | cons x r ih =>
    unfold scanArgs
    obtain ⟨j, hj⟩ := hall x (List.mem_cons_self ..)
    rw [hj]
    simp only
    by_cases hji : j = i
    · subst hji
      simp only [↓reduceIte]
      rw [huniq x (List.mem_cons_self ..) hj]
    · simp only [hji, ↓reduceIte]
      apply ih (fun e he => hall e (List.mem_cons_of_mem _ he))
      · obtain ⟨e, he, hk⟩ := hex
        rcases List.mem_cons.mp he with rfl | he
        · rw [hj] at hk; cases hk; exact absurd rfl hji
        · exact ⟨e, he, hk⟩
      · exact fun e he => huniq e (List.mem_cons_of_mem _ he)

/-- `set_instantiation_argument` on an argument that another node already supplies -/
theorem setArg_already_passed {ctx : Ctx} {g : Graph} (h : Inv ctx g) {inst arg a' i : Nat} {name : Str}
    {nd : Node} {sat : List Nat} {pid : PkgId} {d : PkgDef} {k : Kind}
    (hnd : g.node? inst = some nd) (hk : nd.kind = .instantiation sat) (hpid : nd.pkg = some pid)
    (hd : g.pkgOf pid = .ok d) (hfull : alFull d.imports name = some (i, k))
    (hedge : (⟨a', inst, .arg i⟩ : Edge) ∈ g.edges) (hne : a' ≠ arg) :
    setArg ctx g inst name arg = (g, .err (.argumentAlreadyPassed inst name)) := by
  have hinst : nd.isInst = true := by simp [Node.isInst, hk]
  have hall : ∀ e ∈ g.inEdges inst, ∃ j, e.kind = .arg j := by
    intro e he
    unfold Graph.inEdges at he
    rw [List.mem_filter] at he
    obtain ⟨j, hj, _⟩ := inEdges_of_inst h hnd hinst e he.1 (by simpa using he.2)
    exact ⟨j, hj⟩
  have hin : (⟨a', inst, .arg i⟩ : Edge) ∈ g.inEdges inst := by
    unfold Graph.inEdges; rw [List.mem_filter]; exact ⟨hedge, by simp⟩
  have huniq : ∀ e ∈ g.inEdges inst, e.kind = .arg i → e.src = a' := by
    intro e he hke
    unfold Graph.inEdges at he
    rw [List.mem_filter] at he
    have hdst : e.dst = inst := by simpa using he.2
    have : e = ⟨a', inst, .arg i⟩ :=
      argKey_inj h.argUnique he.1 hedge (k := (inst, i)) (by simp [Edge.argKey, hke, hdst]) (by simp [Edge.argKey])
    rw [this]
  have hscan := scanArgs_found (a := arg) hall ⟨_, hin, rfl⟩ huniq
  have hf : (a' == arg) = false := by simpa using hne
  rw [hf] at hscan
  unfold setArg
  rw [hnd]
  simp only [hk, hpid, pkgAt_of_pkgOf hd, hfull, hscan]

/-- a plug that offers nothing is skipped: it is not instantiated, the graph is untouched -/
theorem plugAll_idle {ctx : Ctx} {g : Graph} {si : Nat} {socketD plugD : PkgDef} {p : PkgId} {ps : List PkgId}
    (hp : g.pkgOf p = .ok plugD) (hidle : offers ctx socketD plugD = []) :
    plugAll ctx si socketD (p :: ps) g = plugAll ctx si socketD ps g := by
  have : plugExports ctx plugD socketD = [] := by rw [plugExports_eq_offers, hidle]; rfl
  rw [plugAll]
  simp only [hp, this, plugOne]

/-- all plugs idle: the loop over the plugs leaves the graph untouched -/
theorem plugAll_all_idle {ctx : Ctx} {si : Nat} {socketD : PkgDef} : ∀ (ps : List PkgId) (g : Graph),
    (∀ p ∈ ps, ∃ plugD, g.pkgOf p = .ok plugD ∧ offers ctx socketD plugD = []) →
    plugAll ctx si socketD ps g = (g, none)
  | [], g, _ => rfl
  | p :: ps, g, h => by
    obtain ⟨plugD, hp, hidle⟩ := h p (List.mem_cons_self ..)
    rw [plugAll_idle hp hidle]
    exact plugAll_all_idle ps g (fun q hq => h q (List.mem_cons_of_mem _ hq))

/-- a fresh instantiation has no arguments -/
theorem args_of_fresh_inst {ctx : Ctx} {g : Graph} (h : Inv ctx g) {id : PkgId} {d : PkgDef}
    (hd : g.pkgOf id = .ok d) :
    getInstantiationArguments (g.addNode ⟨.instantiation [], some id, d.instKind, none, none⟩).1
      (g.addNode ⟨.instantiation [], some id, d.instKind, none, none⟩).2 = .ok [] := by
  have a := added_of_addNode h ⟨.instantiation [], some id, d.instKind, none, none⟩
  generalize (g.addNode ⟨.instantiation [], some id, d.instKind, none, none⟩).1 = g1 at a ⊢
  generalize (g.addNode ⟨.instantiation [], some id, d.instKind, none, none⟩).2 = idx at a ⊢
  have hin : g1.inEdges idx = [] := by
    unfold Graph.inEdges
    rw [a.edges, List.filter_eq_nil_iff]
    intro e he
    obtain ⟨_, ⟨dn, hdn⟩⟩ := h.edge_live he
    have : e.dst ≠ idx := fun e' => by rw [e', a.fresh] at hdn; cases hdn
    simpa using this
  have hslot : ∃ slot, g1.pkgs[id.index]? = some slot ∧ slot.pkg = some d := by
    rw [a.pkgs]
    unfold Graph.pkgOf at hd
    cases hs : g.pkgs[id.index]? with
    | none => rw [hs] at hd; cases hd
    | some slot =>
      rw [hs] at hd
      simp only at hd
      split at hd
      · cases hd
      · cases hp : slot.pkg with
        | none => rw [hp] at hd; cases hd
        | some d' =>
          rw [hp] at hd
          simp only [Except.ok.injEq] at hd
          exact ⟨slot, rfl, by rw [hp, hd]⟩
  obtain ⟨slot, hs, hp⟩ := hslot
  unfold getInstantiationArguments
  rw [a.new]
  simp only [hs, hp, hin]
  rfl

end Wac.Graph
