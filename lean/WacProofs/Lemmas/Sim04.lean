import WacProofs.Lemmas.Graph04
import WacProofs.Lemmas.Names04
/-
  C04 refinement, part 2: the simulation relation between the resolver model's state and the
  reference evaluator's state, and its preservation by the primitive steps.
-/
namespace Wac.Lemmas.C04
open Wac.Lang Wac.Lang.Model

/-! ### export lists -/

theorem exportsIndex_spec (n : Str) : ∀ (es : Exports) (i j : Nat) (k : Kind),
    exportsIndex n es i = some (j, k) → i ≤ j ∧ exportsAt es (j - i) = some (n, k) ∧ es.get n = some k
  | .nil, i, j, k, h => by simp [exportsIndex] at h
  | .cons m k' r, i, j, k, h => by
    simp only [exportsIndex] at h
    by_cases hm : (m == n) = true
    · have hmn : m = n := by simpa using hm
      simp only [hm, ↓reduceIte, Option.some.injEq, Prod.mk.injEq] at h
      obtain ⟨rfl, rfl⟩ := h
      simp [exportsAt, Exports.get, hmn]
    · simp only [hm, Bool.false_eq_true, ↓reduceIte] at h
      obtain ⟨h1, h2, h3⟩ := exportsIndex_spec n r (i + 1) j k h
      refine ⟨by omega, ?_, ?_⟩
      · have : j - i = (j - (i + 1)) + 1 := by omega
        rw [this]
        simpa [exportsAt] using h2
      · simp [Exports.get, hm, h3]

theorem exportsIndex_none (n : Str) : ∀ (es : Exports) (i : Nat),
    exportsIndex n es i = none ↔ es.get n = none
  | .nil, i => by simp [exportsIndex, Exports.get]
  | .cons m k' r, i => by
    simp only [exportsIndex, Exports.get]
    by_cases hm : (m == n) = true
    · simp [hm]
    · simp only [hm, Bool.false_eq_true, ↓reduceIte]
      exact exportsIndex_none n r (i + 1)

theorem exports_has_iff (n : Str) (es : Exports) : es.has n = true ↔ ∃ k, es.get n = some k := by
  unfold Exports.has
  cases es.get n <;> simp

theorem exports_get_toList (n : Str) : ∀ (es : Exports), es.get n = alGet n es.toList
  | .nil => rfl
  | .cons m k r => by
    simp only [Exports.get, Exports.toList, alGet]
    rw [exports_get_toList n r]

theorem exports_names_get (es : Exports) (n : Str) : (es.get n).isSome = true ↔ n ∈ es.names := by
  rw [exports_get_toList]
  exact alHas_iff_mem_keys n es.toList

/-! ### packages -/

/-- the key test used by `get_package_by_name`, the supplied table and `Lib.find` -/
def keyIs (name : Str) (ver : Option Str) (p : Package) : Bool := p.name == name && p.version == ver

theorem findPackage_spec (name : Str) (ver : Option Str) (l : List Package) (i : Nat) :
    (∀ j, findPackage name ver l i = some j → i ≤ j ∧ l[j - i]? = l.find? (keyIs name ver) ∧ (l.find? (keyIs name ver)).isSome) ∧
    (findPackage name ver l i = none → l.find? (keyIs name ver) = none) := by
  induction l generalizing i with
  | nil => simp [findPackage]
  | cons p r ih =>
    simp only [findPackage]
    by_cases hk : (p.name == name && p.version == ver) = true
    · have hk' : keyIs name ver p = true := hk
      simp only [hk, ↓reduceIte, Option.some.injEq, reduceCtorEq, false_imp_iff, and_true]
      intro j hj
      subst hj
      simp [List.find?, hk']
    · have hk' : keyIs name ver p = false := by simpa [keyIs] using hk
      simp only [hk, Bool.false_eq_true, ↓reduceIte]
      obtain ⟨h1, h2⟩ := ih (i + 1)
      constructor
      · intro j hj
        obtain ⟨a, b, c⟩ := h1 j hj
        refine ⟨by omega, ?_, ?_⟩
        · have : j - i = (j - (i + 1)) + 1 := by omega
          rw [this]
          simpa [List.find?, hk'] using b
        · simpa [List.find?, hk'] using c
      · intro hn
        simpa [List.find?, hk'] using h2 hn

/-- registered packages first, then the supplied table: always what the library says -/
def PkgOK (lib : Lib) (ms : State) : Prop :=
  ∀ name ver, ((ms.graph.packages.find? (keyIs name ver)).or (ms.pending.find? (keyIs name ver))) = lib.find name ver

theorem lib_find_eq (lib : Lib) (name : Str) (ver : Option Str) : lib.find name ver = List.find? (keyIs name ver) lib := rfl

theorem keyIs_unique (p : Package) (n n' : Str) (v v' : Option Str)
    (h : keyIs n v p = true) (h' : keyIs n' v' p = true) : n = n' ∧ v = v' := by
  simp only [keyIs, Bool.and_eq_true, beq_iff_eq] at h h'
  exact ⟨h.1.symm.trans h'.1, h.2.symm.trans h'.2⟩

theorem find_filter_keep {α} (l : List α) (f g : α → Bool) (h : ∀ q, g q = true → f q = true) :
    (l.filter f).find? g = l.find? g := by
  induction l with
  | nil => rfl
  | cons q r ih =>
    by_cases hf : f q = true
    · rw [List.filter_cons_of_pos hf]
      simp only [List.find?_cons]
      cases g q with
      | true => rfl
      | false => exact ih
    · rw [List.filter_cons_of_neg hf]
      have hg : g q = false := by
        cases hh : g q with
        | false => rfl
        | true => exact absurd (h q hh) hf
      simp only [List.find?_cons, hg]
      exact ih

/-- what a successful `resolve_package` leaves behind -/
structure PkgStep (lib : Lib) (ms ms' : State) (id : Nat) (p : Package) : Prop where
  get : ms'.graph.packages[id]? = some p
  ok : PkgOK lib ms'
  scope : ms'.scope = ms.scope
  ext : Ext ms.graph ms'.graph
  nodes : ms'.graph.nodes = ms.graph.nodes
  edges : ms'.graph.edges = ms.graph.edges
  imports : ms'.graph.imports = ms.graph.imports
  exports : ms'.graph.exports = ms.graph.exports

theorem resolvePackage_err (lib : Lib) (ms : State) (name : Str) (ver : Option Str) (hp : PkgOK lib ms)
    (hl : lib.find name ver = none) : resolvePackage ms name ver = .error (.unknownPackage name) := by
  have hq := hp name ver
  rw [hl] at hq
  obtain ⟨f1, f2⟩ := findPackage_spec name ver ms.graph.packages 0
  unfold resolvePackage
  cases hf : findPackage name ver ms.graph.packages 0 with
  | some id =>
    obtain ⟨_, _, hc⟩ := f1 id hf
    cases hfind : List.find? (keyIs name ver) ms.graph.packages with
    | none => rw [hfind] at hc; cases hc
    | some p => rw [hfind] at hq; simp at hq
  | none =>
    rw [f2 hf] at hq
    simp only [Option.none_or] at hq
    have hpend : ms.pending.find? (fun p => p.name == name && p.version == ver) = none := hq
    simp only [hpend]

theorem resolvePackage_ok (lib : Lib) (ms : State) (name : Str) (ver : Option Str) (hp : PkgOK lib ms)
    (p : Package) (hl : lib.find name ver = some p) :
    ∃ ms' id, resolvePackage ms name ver = .ok (ms', id) ∧ PkgStep lib ms ms' id p := by
  have hq := hp name ver
  rw [hl] at hq
  obtain ⟨f1, f2⟩ := findPackage_spec name ver ms.graph.packages 0
  unfold resolvePackage
  cases hf : findPackage name ver ms.graph.packages 0 with
  | some id =>
    obtain ⟨_, hb, hc⟩ := f1 id hf
    simp only [Nat.sub_zero] at hb
    cases hfind : List.find? (keyIs name ver) ms.graph.packages with
    | none => rw [hfind] at hc; cases hc
    | some q =>
      rw [hfind] at hq hb
      simp only [Option.some_or, Option.some.injEq] at hq
      subst hq
      exact ⟨ms, id, rfl, ⟨hb, hp, rfl, Ext.refl _, rfl, rfl, rfl, rfl⟩⟩
  | none =>
    have hnone := f2 hf
    rw [hnone] at hq
    simp only [Option.none_or] at hq
    have hpend : ms.pending.find? (fun p => p.name == name && p.version == ver) = some p := hq
    simp only [hpend]
    have hkp : keyIs name ver p = true := List.find?_some hq
    refine ⟨_, _, rfl, ⟨by simp, ?_, rfl, ⟨⟨[], by simp⟩, ⟨[p], rfl⟩⟩, rfl, rfl, rfl, rfl⟩⟩
    intro n' v'
    simp only
    by_cases hsame : keyIs n' v' p = true
    · obtain ⟨rfl, rfl⟩ := keyIs_unique p name n' ver v' hkp hsame
      rw [hl, List.find?_append, hnone]
      simp [List.find?, hsame]
    · have hdiff : keyIs n' v' p = false := by simpa using hsame
      rw [← hp n' v', List.find?_append]
      have h1 : List.find? (keyIs n' v') [p] = none := by simp [List.find?, hdiff]
      rw [h1, Option.or_none]
      congr 1
      apply find_filter_keep
      intro q hq'
      cases hh : (q.name == name && q.version == ver) with
      | false => rfl
      | true =>
        have hqk : keyIs name ver q = true := hh
        obtain ⟨e1, e2⟩ := keyIs_unique q name n' ver v' hqk hq'
        subst e1; subst e2
        rw [hkp] at hdiff; cases hdiff

/-! ### the simulation relation -/

structure Sim (lib : Lib) (ms : State) (ss : Spec.St) : Prop where
  wf : GraphWF ms.graph
  scopeBound : ∀ x ∈ ms.scope, x.2 < ms.graph.nodes.length
  env : ss.env = ms.scope.map fun (x, n) => (x, valOf ms.graph n)
  imports : ss.imports = explicitOf ms.graph
  insts : ss.insts = instsOf ms.graph
  implicit : ss.implicit = implicitOf ms.graph
  exports : ss.exports = exportsOf ms.graph
  pkgs : PkgOK lib ms

/-- a graph step that appends nodes and leaves everything the specification state is derived from
    untouched (alias nodes; registering a package) -/
structure Frame (g g' : Graph) : Prop where
  ext : Ext g g'
  wf : GraphWF g'
  edges : g'.edges = g.edges
  imports : g'.imports = g.imports
  exports : g'.exports = g.exports
  explicit : explicitOf g' = explicitOf g
  instNodes : instNodes g' = instNodes g

theorem implicitOf_frame {g g' : Graph} (f : Frame g g') : implicitOf g' = implicitOf g := by
  unfold implicitOf
  rw [f.instNodes]
  congr 1
  funext ip
  apply unsatisfied_congr
  intro idx
  rw [f.edges]

theorem instsOf_frame {g g' : Graph} (hwf : GraphWF g) (f : Frame g g') : instsOf g' = instsOf g := by
  unfold instsOf
  rw [f.instNodes]
  apply List.map_congr_left
  intro ip _
  apply instRecord_congr
  · rw [f.edges]
  · intro e he
    exact f.ext.provOf e.src (hwf.edges e he).1

theorem exportsOf_frame {g g' : Graph} (hwf : GraphWF g) (f : Frame g g') : exportsOf g' = exportsOf g := by
  unfold exportsOf
  rw [f.exports]
  apply List.map_congr_left
  intro x hx
  have := hwf.exports x hx
  obtain ⟨name, node⟩ := x
  simp only
  rw [f.ext.provOf node this, f.ext.kindOf node this]

theorem Sim.frame {lib : Lib} {ms : State} {ss : Spec.St} (hs : Sim lib ms ss) (g' : Graph)
    (f : Frame ms.graph g') (pending' : List Package)
    (hp : PkgOK lib { ms with graph := g', pending := pending' }) :
    Sim lib { ms with graph := g', pending := pending' } ss where
  wf := f.wf
  scopeBound := fun x hx => Nat.lt_of_lt_of_le (hs.scopeBound x hx) f.ext.length_le
  env := by
    rw [hs.env]
    apply List.map_congr_left
    intro x hx
    obtain ⟨y, n⟩ := x
    simp only
    rw [f.ext.valOf n (hs.scopeBound _ hx)]
  imports := by rw [hs.imports]; exact f.explicit.symm
  insts := by rw [hs.insts]; exact (instsOf_frame hs.wf f).symm
  implicit := by rw [hs.implicit]; exact (implicitOf_frame f).symm
  exports := by rw [hs.exports]; exact (exportsOf_frame hs.wf f).symm
  pkgs := hp

theorem getElem?_snoc {α} (l : List α) (a b : α) (i : Nat) (h : (l ++ [a])[i]? = some b) :
    (i < l.length ∧ l[i]? = some b) ∨ (i = l.length ∧ b = a) := by
  by_cases hi : i < l.length
  · left
    rw [List.getElem?_append_left hi] at h
    exact ⟨hi, h⟩
  · right
    have hge : l.length ≤ i := by omega
    rw [List.getElem?_append_right hge] at h
    have : i - l.length = 0 := by
      cases hd : i - l.length with
      | zero => rfl
      | succ k => rw [hd] at h; simp at h
    rw [this] at h
    simp at h
    exact ⟨by omega, h.symm⟩

/-- appending a node that is not an import and not an instantiation (an alias) is a frame step -/
theorem frame_alias (g : Graph) (hwf : GraphWF g) (nd : Node) (src idx : Nat) (hk : nd.kind = .alias src idx)
    (hok : NodeOK { g with nodes := g.nodes ++ [nd] } g.nodes.length nd) :
    Frame g { g with nodes := g.nodes ++ [nd] } := by
  have hext : Ext g { g with nodes := g.nodes ++ [nd] } := ⟨⟨[nd], rfl⟩, ⟨[], by simp⟩⟩
  have hexp : explicitOf { g with nodes := g.nodes ++ [nd] } = explicitOf g := by
    rw [explicitOf_addNode g nd _ rfl, hk]; simp
  refine ⟨hext, ⟨?_, ?_, ?_, ?_⟩, rfl, rfl, rfl, hexp, ?_⟩
  · intro e he
    have := hwf.edges e he
    simp only [List.length_append, List.length_cons, List.length_nil]
    omega
  · intro i nd' hi
    rcases getElem?_snoc g.nodes nd nd' i hi with ⟨hlt, hget⟩ | ⟨rfl, rfl⟩
    · exact NodeOK.ext hext hlt (hwf.nodes i nd' hget)
    · exact hok
  · intro x hx
    have := hwf.exports x hx
    simp only [List.length_append, List.length_cons, List.length_nil]
    omega
  · rw [hexp]; exact hwf.imports
  · rw [instNodes_addNode g { g with nodes := g.nodes ++ [nd] } nd rfl rfl, hk]; simp

/-- registering a package is a frame step -/
theorem frame_package (g : Graph) (hwf : GraphWF g) (p : Package) :
    Frame g { g with packages := g.packages ++ [p] } := by
  have hext : Ext g { g with packages := g.packages ++ [p] } := ⟨⟨[], by simp⟩, ⟨[p], rfl⟩⟩
  refine ⟨hext, ⟨hwf.edges, ?_, hwf.exports, hwf.imports⟩, rfl, rfl, rfl, rfl, ?_⟩
  · intro i nd hi
    have hlt : i < g.nodes.length := (List.getElem?_eq_some_iff.mp hi).1
    exact NodeOK.ext hext hlt (hwf.nodes i nd hi)
  · unfold instNodes
    apply filterMap_congr_mem
    intro x hx
    obtain ⟨i, nd⟩ := x
    simp only
    cases hk : nd.kind with
    | imp _ => rfl
    | alias _ _ => rfl
    | defn _ => rfl
    | inst pkg =>
      simp only
      have hmem := (indexedFrom_mem 0 g.nodes i nd).mp hx
      have hget : g.nodes[i]? = some nd := by simpa using hmem.2
      have hok := hwf.nodes i nd hget
      unfold NodeOK at hok
      rw [hk] at hok
      rw [List.getElem?_append_left hok.1]

/-! ### aliasing an export -/

theorem findAlias_some (src idx : Nat) : ∀ (l : List Node) (i n : Nat), findAlias src idx l i = some n →
    i ≤ n ∧ ∃ nd, l[n - i]? = some nd ∧ nd.kind = .alias src idx
  | [], i, n, h => by simp [findAlias] at h
  | nd :: r, i, n, h => by
    unfold findAlias at h
    cases hk : nd.kind with
    | imp _ =>
      rw [hk] at h
      obtain ⟨h1, nd', h2, h3⟩ := findAlias_some src idx r (i + 1) n h
      refine ⟨by omega, nd', ?_, h3⟩
      have : n - i = (n - (i + 1)) + 1 := by omega
      rw [this]; simpa using h2
    | inst _ =>
      rw [hk] at h
      obtain ⟨h1, nd', h2, h3⟩ := findAlias_some src idx r (i + 1) n h
      refine ⟨by omega, nd', ?_, h3⟩
      have : n - i = (n - (i + 1)) + 1 := by omega
      rw [this]; simpa using h2
    | defn _ =>
      rw [hk] at h
      obtain ⟨h1, nd', h2, h3⟩ := findAlias_some src idx r (i + 1) n h
      refine ⟨by omega, nd', ?_, h3⟩
      have : n - i = (n - (i + 1)) + 1 := by omega
      rw [this]; simpa using h2
    | alias s j =>
      rw [hk] at h
      simp only at h
      by_cases hc : (s == src && j == idx) = true
      · simp only [hc, ↓reduceIte, Option.some.injEq] at h
        subst h
        simp only [Bool.and_eq_true, beq_iff_eq] at hc
        obtain ⟨rfl, rfl⟩ := hc
        exact ⟨Nat.le_refl _, nd, by simp, hk⟩
      · simp only [hc, Bool.false_eq_true, ↓reduceIte] at h
        obtain ⟨h1, nd', h2, h3⟩ := findAlias_some src idx r (i + 1) n h
        refine ⟨by omega, nd', ?_, h3⟩
        have : n - i = (n - (i + 1)) + 1 := by omega
        rw [this]; simpa using h2

/-- the result of a successful aliasing step -/
structure AliasStep (lib : Lib) (ms ms' : State) (ss : Spec.St) (n : Nat) (v : Spec.Val) : Prop where
  sim : Sim lib ms' ss
  ext : Ext ms.graph ms'.graph
  bound : n < ms'.graph.nodes.length
  val : valOf ms'.graph n = v
  scope : ms'.scope = ms.scope
  packages : ms'.graph.packages = ms.graph.packages

theorem aliasExport_sim {lib : Lib} {ms : State} {ss : Spec.St} (hs : Sim lib ms ss) (item : Nat)
    (hi : item < ms.graph.nodes.length) (name : Str) (op : InstOp) :
    (∀ d, Spec.select op (valOf ms.graph item) name = .error d → aliasExport ms item name op = .error d) ∧
    (Spec.select op (valOf ms.graph item) name = .ok none → aliasExport ms item name op = .ok (ms, none)) ∧
    (∀ v, Spec.select op (valOf ms.graph item) name = .ok (some v) →
       ∃ ms' n, aliasExport ms item name op = .ok (ms', some n) ∧ AliasStep lib ms ms' ss n v) := by
  unfold Spec.select aliasExport
  have hkind : (valOf ms.graph item).kind = ms.graph.kindOf item := rfl
  have hprov : (valOf ms.graph item).prov = ms.graph.provOf item := rfl
  rw [hkind, hprov]
  cases hes : (ms.graph.kindOf item).instExports with
  | none => simp
  | some es =>
    simp only
    cases hget : es.get name with
    | none =>
      have : es.has name = false := by simp [Exports.has, hget]
      simp [this]
    | some k =>
      have hhas : es.has name = true := by simp [Exports.has, hget]
      simp only [hhas, Bool.not_true, Bool.false_eq_true, ↓reduceIte, reduceCtorEq, false_imp_iff, implies_true,
        Except.ok.injEq, Option.some.injEq, true_and]
      intro v hv
      subst hv
      unfold Graph.aliasInstanceExport
      rw [hes]
      simp only
      cases hidx : exportsIndex name es 0 with
      | none => rw [(exportsIndex_none name es 0).mp hidx] at hget; cases hget
      | some ik =>
        obtain ⟨index, kind⟩ := ik
        obtain ⟨_, hat, hget'⟩ := exportsIndex_spec name es 0 index kind hidx
        simp only [Nat.sub_zero] at hat
        have hkk : kind = k := by rw [hget] at hget'; cases hget'; rfl
        subst hkk
        simp only
        cases hfa : findAlias item index ms.graph.nodes 0 with
        | some n =>
          obtain ⟨_, nd, hnd, hndk⟩ := findAlias_some item index ms.graph.nodes 0 n hfa
          simp only [Nat.sub_zero] at hnd
          have hok := hs.wf.nodes n nd hnd
          unfold NodeOK at hok
          rw [hndk] at hok
          obtain ⟨_, es', name', k', h1, h2, h3, h4⟩ := hok
          rw [hes] at h1
          cases h1
          rw [hat] at h2
          cases h2
          refine ⟨ms, n, rfl, ⟨hs, Ext.refl _, (List.getElem?_eq_some_iff.mp hnd).1, ?_, rfl, rfl⟩⟩
          unfold valOf Graph.provOf Graph.kindOf Graph.node?
          rw [hnd]
          simp only [h3, h4]
          rfl
        | none =>
          simp only
          let nd : Node := { kind := .alias item index, item := kind, prov := .exportOf (ms.graph.provOf item) name }
          have hext : Ext ms.graph { ms.graph with nodes := ms.graph.nodes ++ [nd] } := ⟨⟨[nd], rfl⟩, ⟨[], by simp⟩⟩
          have hok : NodeOK { ms.graph with nodes := ms.graph.nodes ++ [nd] } ms.graph.nodes.length nd := by
            unfold NodeOK
            simp only [nd]
            refine ⟨hi, es, name, kind, ?_, hat, ?_, rfl⟩
            · rw [hext.kindOf item hi]; exact hes
            · rw [hext.provOf item hi]
          have hframe := frame_alias ms.graph hs.wf nd item index rfl hok
          refine ⟨_, _, rfl, ⟨hs.frame _ hframe ms.pending hs.pkgs, hext, by simp, ?_, rfl, rfl⟩⟩
          unfold valOf Graph.provOf Graph.kindOf Graph.node?
          simp [nd]

end Wac.Lemmas.C04
