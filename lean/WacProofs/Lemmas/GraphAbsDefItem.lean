import WacProofs.Lemmas.GraphAbsBasic
/-
  C06 → C01 bridge: "a definition node of type `ty` has item kind `ItemKind::Type(ty)`" is an
  invariant of the graph API (proved on the abstract state, transported by `abs_step`).
-/
namespace Wac.Graph
open Wac Wac.HashSites

/-- a definition node of type `ty` has the item kind `ctx.tyKind ty` -/
def DefItem (ctx : Ctx) (g : Graph) : Prop :=
  ∀ n nd ty, g.node? n = some nd → nd.kind = .definition ty → nd.item = ctx.tyKind ty

def DefItemA (ctx : Ctx) (a : Abs) : Prop :=
  ∀ n nd ty, a.node n = some nd → nd.kind = .definition ty → nd.item = ctx.tyKind ty

theorem defItem_iff_abs (ctx : Ctx) (g : Graph) : DefItem ctx g ↔ DefItemA ctx (abs g) := by
  constructor
  · intro hd n y ty hy hk
    obtain ⟨x, hx, rfl⟩ := abs_node_eq_some hy
    have hk' : x.kind.abs = .definition ty := hk
    have : x.kind = .definition ty := by
      unfold NodeKind.abs at hk'
      cases hq : x.kind <;> rw [hq] at hk' <;> first | (cases hk'; rfl) | cases hk'
    exact hd n x ty hx this
  · intro hd n x ty hx hk
    have := hd n x.abs ty (abs_node_some hx) (by simp [Node.abs, NodeKind.abs, hk])
    exact this

theorem defItemA_congr {ctx : Ctx} {a a' : Abs} (hd : DefItemA ctx a) (h : a'.node = a.node) : DefItemA ctx a' := by
  intro n nd ty hn hk
  rw [h] at hn
  exact hd n nd ty hn hk

theorem defItemA_addNode {ctx : Ctx} {a : Abs} (hd : DefItemA ctx a) (idx : Nat) (x : ANode)
    (hx : ∀ ty, x.kind = .definition ty → x.item = ctx.tyKind ty) : DefItemA ctx (a.addNode idx x) := by
  intro n nd ty hn hk
  have hn' : (if n = idx then some x else a.node n) = some nd := hn
  split at hn'
  · cases hn'; exact hx ty hk
  · exact hd n nd ty hn' hk

theorem defItemA_removeSet {ctx : Ctx} {a : Abs} (hd : DefItemA ctx a) (S : Nat → Bool) : DefItemA ctx (a.removeSet S) := by
  intro n nd ty hn hk
  have hn' : (if S n = true then none else a.node n) = some nd := hn
  split at hn'
  · cases hn'
  · exact hd n nd ty hn' hk

theorem defItemA_step (ctx : Ctx) (fr : Fresh) (a : Abs) (op : Op) (hd : DefItemA ctx a) :
    DefItemA ctx (specStep ctx fr a op).1 := by
  cases op with
  | register d =>
    simp only [specStep]
    split <;> exact defItemA_congr hd rfl
  | unregister id =>
    simp only [specStep]
    split
    · exact hd
    · exact defItemA_congr (defItemA_removeSet hd _) rfl
  | defineType name ty =>
    simp only [specStep]
    repeat' split
    all_goals first
      | exact defItemA_congr hd rfl
      | exact defItemA_congr (defItemA_addNode hd _ _ (fun t ht => by cases ht; rfl)) rfl
  | importItem name kind =>
    simp only [specStep]
    repeat' split
    all_goals first
      | exact defItemA_congr hd rfl
      | exact defItemA_congr (defItemA_addNode hd _ _ (fun t ht => by cases ht)) rfl
  | instantiate id =>
    simp only [specStep]
    repeat' split
    all_goals first
      | exact defItemA_congr hd rfl
      | exact defItemA_addNode hd _ _ (fun t ht => by cases ht)
  | alias inst ename =>
    simp only [specStep]
    repeat' split
    all_goals first
      | exact defItemA_congr hd rfl
      | exact defItemA_congr (defItemA_addNode hd _ _ (fun t ht => by cases ht)) rfl
  | setArg inst name arg =>
    simp only [specStep]
    repeat' split
    all_goals exact defItemA_congr hd rfl
  | unsetArg inst name arg =>
    simp only [specStep]
    repeat' split
    all_goals exact defItemA_congr hd rfl
  | exportNode n name =>
    simp only [specStep]
    repeat' split
    all_goals exact defItemA_congr hd rfl
  | unexport n =>
    simp only [specStep]
    repeat' split
    all_goals exact defItemA_congr hd rfl
  | setName n name =>
    simp only [specStep]
    split
    · exact hd
    · rename_i nd hnd
      intro m x ty hm hk
      have hm' : (if m = n then some { nd with name := some name } else a.node m) = some x := hm
      split at hm'
      · rename_i hmn
        cases hm'
        rw [hmn] at *
        exact hd n nd ty hnd hk
      · exact hd m x ty hm' hk
  | removeNode n =>
    simp only [specStep]
    split
    · exact hd
    · exact defItemA_removeSet hd _

end Wac.Graph
