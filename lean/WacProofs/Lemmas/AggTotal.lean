import WacProofs.Lemmas.AggAll
/-
  C09 general theorems, part 12: TOTALITY.  On a sane contributor collection, with
  `cfg.remapReplaced` (repair b2ae0a5), `remap_value_type` / `remap_defined_type` /
  `remap_func_type` cannot fail once the fuel is twice the unfolding fuel plus a constant: no
  dangling index, no `expected a …` panic (`TableShape`), and the `prev.is_none()` assertion of
  `remapped.insert` holds because the keys added while the components of a defined type are
  copied have a strictly smaller unfolding rank than the defined type itself.
-/
namespace Wac.AggP
open Wac Wac.Spec

/-! ### totality of the traversals -/

theorem mapMList_total {α β : Type} {f : α → AggM β} {I : AggState → Prop} {R : AggState → AggState → Prop}
    (hrefl : ∀ s, R s s) (htrans : ∀ s s' s'', R s s' → R s' s'' → R s s'') :
    ∀ (l : List α), (∀ a, a ∈ l → ∀ s, I s → ∃ b s', f a s = .ok (b, s') ∧ I s' ∧ R s s') →
      ∀ s, I s → ∃ bs s', mapMList f l s = .ok (bs, s') ∧ I s' ∧ R s s'
  | [], _, s, hI => ⟨[], s, rfl, hI, hrefl s⟩
  | a :: l, hf, s, hI => by
    obtain ⟨b, s1, h1, hI1, hR1⟩ := hf a List.mem_cons_self s hI
    obtain ⟨bs, s2, h2, hI2, hR2⟩ := mapMList_total hrefl htrans l (fun a' ha' => hf a' (List.mem_cons_of_mem _ ha')) s1 hI1
    refine ⟨b :: bs, s2, ?_, hI2, htrans _ _ _ hR1 hR2⟩
    simp only [mapMList, run_bind, h1, h2, run_pure]

theorem mapMOpt_total {α β : Type} {f : α → AggM β} {I : AggState → Prop} {R : AggState → AggState → Prop}
    (hrefl : ∀ s, R s s) (o : Option α)
    (hf : ∀ a, o = some a → ∀ s, I s → ∃ b s', f a s = .ok (b, s') ∧ I s' ∧ R s s') (s : AggState) (hI : I s) :
    ∃ ob s', mapMOpt f o s = .ok (ob, s') ∧ I s' ∧ R s s' := by
  cases o with
  | none => exact ⟨none, s, rfl, hI, hrefl s⟩
  | some a =>
    obtain ⟨b, s1, h1, hI1, hR1⟩ := hf a rfl s hI
    exact ⟨some b, s1, by simp only [mapMOpt, run_bind, h1, run_pure], hI1, hR1⟩

/-! ### the components of a defined type -/

/-- every component value type of a defined type satisfies `P` -/
def DAll (P : ValueType → Prop) : DefinedType → Prop
  | .tuple ts => ∀ v, v ∈ ts → P v
  | .list a => P a
  | .fixedSizeList a _ => P a
  | .option a => P a
  | .result ok err => (∀ v, ok = some v → P v) ∧ (∀ v, err = some v → P v)
  | .variant cs => ∀ c, c ∈ cs → ∀ v, c.2 = some v → P v
  | .record fs => ∀ f, f ∈ fs → P f.2
  | .flags _ => True
  | .enum _ => True
  | .alias a => P a
  | .stream a => ∀ v, a = some v → P v
  | .future a => ∀ v, a = some v → P v

section inv
variable {u : ValueType → Option Tree}

theorem unfoldOpt_inv {a : Option ValueType} {t : Tree} (h : unfoldOpt u a = some t) :
    ∀ v, a = some v → (u v).isSome = true := by
  rintro v rfl
  simp only [unfoldOpt] at h
  rw [h]; rfl

theorem unfoldUnnamed_inv : ∀ (l : List ValueType) (F : Forest), unfoldUnnamed u l = some F →
    ∀ v, v ∈ l → (u v).isSome = true
  | [], _, _, v, hv => by cases hv
  | a :: l, F, h, v, hv => by
    simp only [unfoldUnnamed] at h
    split at h
    · rename_i t fr h1 h2
      rcases List.mem_cons.1 hv with rfl | hv
      · rw [h1]; rfl
      · exact unfoldUnnamed_inv l fr h2 v hv
    · cases h

theorem unfoldNamed_inv : ∀ (l : List (Str × ValueType)) (F : Forest), unfoldNamed u l = some F →
    ∀ f, f ∈ l → (u f.2).isSome = true
  | [], _, _, v, hv => by cases hv
  | (n, a) :: l, F, h, v, hv => by
    simp only [unfoldNamed] at h
    split at h
    · rename_i t fr h1 h2
      rcases List.mem_cons.1 hv with rfl | hv
      · rw [h1]; rfl
      · exact unfoldNamed_inv l fr h2 v hv
    · cases h

theorem unfoldNamedOpt_inv : ∀ (l : List (Str × Option ValueType)) (F : Forest), unfoldNamedOpt u l = some F →
    ∀ c, c ∈ l → ∀ v, c.2 = some v → (u v).isSome = true
  | [], _, _, c, hc => by cases hc
  | (n, a) :: l, F, h, c, hc => by
    simp only [unfoldNamedOpt] at h
    split at h
    · rename_i t fr h1 h2
      rcases List.mem_cons.1 hc with rfl | hc
      · exact unfoldOpt_inv h1
      · exact unfoldNamedOpt_inv l fr h2 c hc
    · cases h

theorem unfoldDefined_inv {x : DefinedType} {t : Tree} (h : unfoldDefined u x = some t) :
    DAll (fun v => (u v).isSome = true) x := by
  cases x <;> simp only [unfoldDefined] at h <;> simp only [DAll]
  case «alias» a => rw [h]; rfl
  case tuple ts =>
    obtain ⟨F, hF, _⟩ := Option.map_eq_some_iff.1 h
    exact unfoldUnnamed_inv ts F hF
  case list a =>
    obtain ⟨F, hF, _⟩ := Option.map_eq_some_iff.1 h
    rw [hF]; rfl
  case fixedSizeList a n =>
    obtain ⟨F, hF, _⟩ := Option.map_eq_some_iff.1 h
    rw [hF]; rfl
  case option a =>
    obtain ⟨F, hF, _⟩ := Option.map_eq_some_iff.1 h
    rw [hF]; rfl
  case result ok err =>
    split at h
    · rename_i a b h1 h2
      exact ⟨unfoldOpt_inv h1, unfoldOpt_inv h2⟩
    · cases h
  case variant cs =>
    obtain ⟨F, hF, _⟩ := Option.map_eq_some_iff.1 h
    exact unfoldNamedOpt_inv cs F hF
  case record fs =>
    obtain ⟨F, hF, _⟩ := Option.map_eq_some_iff.1 h
    exact unfoldNamed_inv fs F hF
  case stream a =>
    obtain ⟨F, hF, _⟩ := Option.map_eq_some_iff.1 h
    exact unfoldOpt_inv hF
  case future a =>
    obtain ⟨F, hF, _⟩ := Option.map_eq_some_iff.1 h
    exact unfoldOpt_inv hF

end inv

/-! ### `remapShape` is total when the component remap is -/

theorem remapShape_total {rv : ValueType → AggM ValueType} {I : AggState → Prop} {R : AggState → AggState → Prop}
    (hrefl : ∀ s, R s s) (htrans : ∀ s s' s'', R s s' → R s' s'' → R s s'') {P : ValueType → Prop}
    (hrv : ∀ v, P v → ∀ s, I s → ∃ v' s', rv v s = .ok (v', s') ∧ I s' ∧ R s s')
    (dt : DefinedType) (hd : DAll P dt) (s : AggState) (hI : I s) :
    ∃ dt' s', remapShape rv dt s = .ok (dt', s') ∧ I s' ∧ R s s' := by
  cases dt <;> simp only [DAll] at hd
  case tuple ts =>
    obtain ⟨bs, s1, h1, hI1, hR1⟩ := mapMList_total hrefl htrans ts (fun a ha => hrv a (hd a ha)) s hI
    exact ⟨.tuple bs, s1, by simp only [remapShape, run_bind, h1, run_pure], hI1, hR1⟩
  case list a =>
    obtain ⟨b, s1, h1, hI1, hR1⟩ := hrv a hd s hI
    exact ⟨.list b, s1, by simp only [remapShape, run_bind, h1, run_pure], hI1, hR1⟩
  case fixedSizeList a n =>
    obtain ⟨b, s1, h1, hI1, hR1⟩ := hrv a hd s hI
    exact ⟨.fixedSizeList b n, s1, by simp only [remapShape, run_bind, h1, run_pure], hI1, hR1⟩
  case option a =>
    obtain ⟨b, s1, h1, hI1, hR1⟩ := hrv a hd s hI
    exact ⟨.option b, s1, by simp only [remapShape, run_bind, h1, run_pure], hI1, hR1⟩
  case result ok err =>
    obtain ⟨b1, s1, h1, hI1, hR1⟩ := mapMOpt_total (R := R) hrefl ok (fun a ha => hrv a (hd.1 a ha)) s hI
    obtain ⟨b2, s2, h2, hI2, hR2⟩ := mapMOpt_total (R := R) hrefl err (fun a ha => hrv a (hd.2 a ha)) s1 hI1
    exact ⟨.result b1 b2, s2, by simp only [remapShape, run_bind, h1, h2, run_pure], hI2, htrans _ _ _ hR1 hR2⟩
  case variant cs =>
    obtain ⟨bs, s1, h1, hI1, hR1⟩ := mapMList_total (f := fun (c : Str × Option ValueType) => do
        return (c.1, ← mapMOpt rv c.2)) hrefl htrans cs
      (fun c hc s hI => by
        obtain ⟨b, s1, h1, hI1, hR1⟩ := mapMOpt_total (R := R) hrefl c.2 (fun a ha => hrv a (hd c hc a ha)) s hI
        exact ⟨(c.1, b), s1, by simp only [run_bind, h1, run_pure], hI1, hR1⟩) s hI
    exact ⟨.variant bs, s1, by simp only [remapShape, run_bind, h1, run_pure], hI1, hR1⟩
  case record fs =>
    obtain ⟨bs, s1, h1, hI1, hR1⟩ := mapMList_total (f := fun (f : Str × ValueType) => do return (f.1, ← rv f.2))
      hrefl htrans fs
      (fun c hc s hI => by
        obtain ⟨b, s1, h1, hI1, hR1⟩ := hrv c.2 (hd c hc) s hI
        exact ⟨(c.1, b), s1, by simp only [run_bind, h1, run_pure], hI1, hR1⟩) s hI
    exact ⟨.record bs, s1, by simp only [remapShape, run_bind, h1, run_pure], hI1, hR1⟩
  case flags ns => exact ⟨.flags ns, s, rfl, hI, hrefl s⟩
  case enum ns => exact ⟨.enum ns, s, rfl, hI, hrefl s⟩
  case «alias» a =>
    obtain ⟨b, s1, h1, hI1, hR1⟩ := hrv a hd s hI
    exact ⟨.alias b, s1, by simp only [remapShape, run_bind, h1, run_pure], hI1, hR1⟩
  case stream a =>
    obtain ⟨b, s1, h1, hI1, hR1⟩ := mapMOpt_total (R := R) hrefl a (fun x hx => hrv x (hd x hx)) s hI
    exact ⟨.stream b, s1, by simp only [remapShape, run_bind, h1, run_pure], hI1, hR1⟩
  case future a =>
    obtain ⟨b, s1, h1, hI1, hR1⟩ := mapMOpt_total (R := R) hrefl a (fun x hx => hrv x (hd x hx)) s hI
    exact ⟨.future b, s1, by simp only [remapShape, run_bind, h1, run_pure], hI1, hR1⟩

/-! ### `remap_value_type` / `remap_defined_type` are total -/

/-- invariant for totality: `RInv` and the repaired configuration -/
structure TI (W : Colls) (s : AggState) : Prop where
  rinv : RInv W s
  cfg : s.cfg.remapReplaced = true

/-- the keys a remap adds are defined-type keys of unfolding rank at most `m` -/
def NK (types : Types) (m : Nat) (s s' : AggState) : Prop :=
  ∀ g, (alGet s'.agg.remapped g).isSome = true → (alGet s.agg.remapped g).isSome = true ∨
    ∃ d, g = GTy.mk' types (.value (.defined d)) ∧ (types.unfoldVT m (.defined d)).isSome = true

theorem NK.refl (types : Types) (m : Nat) (s : AggState) : NK types m s s := fun _ h => .inl h

theorem NK.trans {types : Types} {m : Nat} {s s' s'' : AggState} (h1 : NK types m s s') (h2 : NK types m s' s'') :
    NK types m s s'' := by
  intro g hg
  rcases h2 g hg with h | h
  · exact h1 g h
  · exact .inr h

theorem NK.mono {types : Types} {m m' : Nat} (hm : m ≤ m') {s s' : AggState} (h : NK types m s s') : NK types m' s s' := by
  intro g hg
  rcases h g hg with h | ⟨d, rfl, hd⟩
  · exact .inl h
  · obtain ⟨t, ht⟩ := Option.isSome_iff_exists.1 hd
    exact .inr ⟨d, rfl, by rw [unfoldVT_mono types hm _ _ ht]; rfl⟩

section total
variable {W : Colls} {types : Types} (hW : W.mem types) (hs : Sane types)
include hW hs

def VTTotal (W : Colls) (types : Types) (m : Nat) : Prop :=
  ∀ n v t s, TI W s → types.unfoldVT m v = some t → 2 * m + 1 ≤ n →
    ∃ v' s', remapValueType n types v s = .ok (v', s') ∧ TI W s' ∧ NK types m s s'

def DTotal (W : Colls) (types : Types) (m : Nat) : Prop :=
  ∀ n d t s, TI W s → types.unfoldVT (m + 1) (.defined d) = some t → 2 * m + 2 ≤ n →
    alGet s.agg.remapped (GTy.mk' types (.value (.defined d))) = none →
    ∃ d' s', remapDefined n types d s = .ok (d', s') ∧ TI W s' ∧ NK types (m + 1) s s'

omit hW hs in
theorem ti_of_vt_ok (hW : W.mem types) (hs : Sane types) {n : Nat} {v v' : ValueType} {s s' : AggState} (hI : TI W s)
    (h : remapValueType n types v s = .ok (v', s')) : TI W s' := by
  obtain ⟨a, b, _⟩ := (remapVT_spec hW hs n).1 v s v' s' hI.rinv h
  exact ⟨a, by rw [b.cfg]; exact hI.cfg⟩

omit hW hs in
theorem ti_of_d_ok (hW : W.mem types) (hs : Sane types) {n : Nat} {d d' : Nat} {s s' : AggState} (hI : TI W s)
    (h : remapDefined n types d s = .ok (d', s')) : TI W s' := by
  obtain ⟨a, b, _⟩ := (remapVT_spec hW hs n).2 d s d' s' hI.rinv h
  exact ⟨a, by rw [b.cfg]; exact hI.cfg⟩

theorem dTotal_of (m : Nat) (hvt : VTTotal W types m) (hprev : ∀ m', m' + 1 = m → DTotal W types m') :
    DTotal W types m := by
  intro n d t s hI hu hn hmiss
  -- does `d` unfold with less fuel already?
  cases hlow : types.unfoldVT m (.defined d) with
  | some t' =>
    cases m with
    | zero => simp [Types.unfoldVT] at hlow
    | succ m' =>
      obtain ⟨d', s', h1, h2, h3⟩ := hprev m' rfl n d t' s hI hlow (by omega) hmiss
      exact ⟨d', s', h1, h2, h3.mono (by omega)⟩
  | none =>
    obtain ⟨n', rfl⟩ : ∃ n', n = n' + 1 := ⟨n - 1, by omega⟩
    have hu' := hu
    simp only [Types.unfoldVT] at hu'
    cases hdt : types.defined[d]? with
    | none => simp [hdt] at hu'
    | some dt =>
      simp only [hdt] at hu'
      have hcomps := unfoldDefined_inv hu'
      -- the components are copied
      obtain ⟨dt', s1, h1, hI1, hK1⟩ := remapShape_total (rv := remapValueType n' types) (I := TI W)
        (R := NK types m) (NK.refl types m) (fun _ _ _ => NK.trans)
        (P := fun v => (types.unfoldVT m v).isSome = true)
        (by
          intro v hv s hI
          obtain ⟨tv, htv⟩ := Option.isSome_iff_exists.1 hv
          exact hvt n' v tv s hI htv (by omega))
        dt hcomps s hI
      -- the key of `d` is still free
      have hfree : (alGet s1.agg.remapped (GTy.mk' types (.value (.defined d)))).isSome = false := by
        cases hq : (alGet s1.agg.remapped (GTy.mk' types (.value (.defined d)))).isSome with
        | false => rfl
        | true =>
          rcases hK1 _ hq with h | ⟨d0, hd0, hd0'⟩
          · rw [hmiss] at h; cases h
          · have : d0 = d := by
              simp only [GTy.mk', GTy.mk.injEq, Ty.value.injEq, ValueType.defined.injEq] at hd0
              exact hd0.2.symm
            subst this
            rw [hlow] at hd0'; cases hd0'
      have hrun : remapDefined (n' + 1) types d s =
          .ok (s1.agg.types.defined.length, setRemapped (pushDefined s1 dt') (GTy.mk' types (.value (.defined d)))
            (.value (.defined s1.agg.types.defined.length))) := by
        rw [remapDefined_succ]
        simp only [run_bind, run_remappedGet, hmiss, hdt, h1, definedTail, run_getAgg, run_modifyTypes,
          run_remappedInsertNew, run_pure]
        simp only [hfree, Bool.false_eq_true, ↓reduceIte]
        rfl
      refine ⟨_, _, hrun, ti_of_d_ok hW hs hI hrun, ?_⟩
      intro g hg
      simp only [setRemapped, pushDefined, alGet_alInsert] at hg
      split at hg
      · rename_i he
        exact .inr ⟨d, (eq_of_beq he).symm, by rw [hu]; rfl⟩
      · rcases hK1 g hg with h | ⟨d0, hd0, hd0'⟩
        · exact .inl h
        · obtain ⟨t0, ht0⟩ := Option.isSome_iff_exists.1 hd0'
          exact .inr ⟨d0, hd0, by rw [unfoldVT_mono types (Nat.le_succ m) _ _ ht0]; rfl⟩

theorem vtTotal_of (m : Nat) (hd : ∀ m', m' + 1 = m → DTotal W types m') : VTTotal W types m := by
  intro n v t s hI hu hn
  cases m with
  | zero => simp [Types.unfoldVT] at hu
  | succ m' =>
    obtain ⟨n', rfl⟩ : ∃ n', n = n' + 1 := ⟨n - 1, by omega⟩
    cases v with
    | prim p => exact ⟨.prim p, s, by simp [remapValueType, run_pure], hI, NK.refl _ _ _⟩
    | own r => exact absurd ⟨m' + 1, hu⟩ (hs.no_own r t)
    | borrow r => exact absurd ⟨m' + 1, hu⟩ (hs.no_borrow r t)
    | defined d =>
      -- the lookup is a miss or a value type
      cases hg : alGet s.agg.remapped (GTy.mk' types (.value (.defined d))) with
      | some ty =>
        obtain ⟨v0, rfl⟩ := hI.rinv.shape.1 _ d ty hg
        refine ⟨v0, s, ?_, hI, NK.refl _ _ _⟩
        simp only [remapValueType, run_bind, run_get, run_remappedGet, hg, hI.cfg, run_pure]
      | none =>
        obtain ⟨d1, s1, h1, hI1, hK1⟩ := hd m' rfl n' d t s hI hu (by omega) hg
        refine ⟨.defined d1, s1, ?_, hI1, hK1⟩
        simp only [remapValueType, run_bind, run_get, run_remappedGet, hg, h1, run_pure]
        cases s.cfg.remapReplaced <;> simp only [run_bind, h1, run_pure]

/-- **`remap_value_type` and `remap_defined_type` are total** (every unfolding rank) -/
theorem remapVT_total : ∀ m, VTTotal W types m ∧ DTotal W types m
  | 0 => by
    have hv : VTTotal W types 0 := vtTotal_of hW hs 0 (fun m' h => by omega)
    exact ⟨hv, dTotal_of hW hs 0 hv (fun m' h => by omega)⟩
  | m + 1 => by
    obtain ⟨_, hd⟩ := remapVT_total m
    have hv : VTTotal W types (m + 1) := vtTotal_of hW hs (m + 1) (fun m' h => by
      have : m' = m := by omega
      subst this; exact hd)
    exact ⟨hv, dTotal_of hW hs (m + 1) hv (fun m' h => by
      have : m' = m := by omega
      subst this; exact hd)⟩

/-! ### function types and leaf kinds -/

/-- the keys a leaf remap adds are defined-type or function-type keys of the contributor -/
def NKL (types : Types) (s s' : AggState) : Prop :=
  ∀ g, (alGet s'.agg.remapped g).isSome = true → (alGet s.agg.remapped g).isSome = true ∨
    (∃ d, g = GTy.mk' types (.value (.defined d))) ∨ ∃ f, g = GTy.mk' types (.func f)

omit hW hs in
theorem NKL.refl (s : AggState) : NKL types s s := fun _ h => .inl h

omit hW hs in
theorem NKL.trans {s s' s'' : AggState} (h1 : NKL types s s') (h2 : NKL types s' s'') : NKL types s s'' := by
  intro g hg
  rcases h2 g hg with h | h
  · exact h1 g h
  · exact .inr h

/-- the keys a value remap adds are defined-type keys of the contributor -/
def NKV (types : Types) (s s' : AggState) : Prop :=
  ∀ g, (alGet s'.agg.remapped g).isSome = true → (alGet s.agg.remapped g).isSome = true ∨
    ∃ d, g = GTy.mk' types (.value (.defined d))

omit hW hs in
theorem NKV.refl (s : AggState) : NKV types s s := fun _ h => .inl h

omit hW hs in
theorem NKV.trans {s s' s'' : AggState} (h1 : NKV types s s') (h2 : NKV types s' s'') : NKV types s s'' := by
  intro g hg
  rcases h2 g hg with h | h
  · exact h1 g h
  · exact .inr h

omit hW hs in
theorem NKV.toNKL {s s' : AggState} (h : NKV types s s') : NKL types s s' := by
  intro g hg
  rcases h g hg with h | h
  · exact .inl h
  · exact .inr (.inl h)

theorem vt_total (m n : Nat) (v : ValueType) (t : Tree) (s : AggState) (hI : TI W s)
    (hu : types.unfoldVT m v = some t) (hn : 2 * m + 1 ≤ n) :
    ∃ v' s', remapValueType n types v s = .ok (v', s') ∧ TI W s' ∧ NKV types s s' := by
  obtain ⟨v', s', h1, h2, h3⟩ := (remapVT_total hW hs m).1 n v t s hI hu hn
  refine ⟨v', s', h1, h2, ?_⟩
  intro g hg
  rcases h3 g hg with h | ⟨d, hd, _⟩
  · exact .inl h
  · exact .inr ⟨d, hd⟩

/-- **`remap_func_type` is total** -/
theorem remapFunc_total (m n f : Nat) (t : Tree) (s : AggState) (hI : TI W s)
    (hu : types.unfoldFunc m f = some t) (hn : 2 * m + 2 ≤ n) :
    ∃ f' s', remapFunc n types f s = .ok (f', s') ∧ TI W s' ∧ NKL types s s' := by
  obtain ⟨n', rfl⟩ : ∃ n', n = n' + 1 := ⟨n - 1, by omega⟩
  have tiok : ∀ f' s', remapFunc (n' + 1) types f s = .ok (f', s') → TI W s' := by
    intro f' s' h
    obtain ⟨a, b, _⟩ := remapFunc_spec hW hs (n' + 1) f s f' s' hI.rinv h
    exact ⟨a, by rw [b.cfg]; exact hI.cfg⟩
  cases hg : alGet s.agg.remapped (GTy.mk' types (.func f)) with
  | some ty =>
    obtain ⟨f0, rfl⟩ := hI.rinv.shape.2 _ f ty hg
    exact ⟨f0, s, by rw [remapFunc]; simp only [run_bind, run_remappedGet, hg, run_pure], hI, NKL.refl _⟩
  | none =>
    simp only [Types.unfoldFunc] at hu
    cases hft : types.funcs[f]? with
    | none => simp [hft] at hu
    | some ft =>
      simp only [hft] at hu
      split at hu
      · rename_i ps r hps hr
        obtain ⟨ps', s1, h1, hI1, hK1⟩ := mapMList_total (f := fun (p : Str × ValueType) => do
            return (p.1, ← remapValueType n' types p.2)) (I := TI W) (R := NKV types) NKV.refl (fun _ _ _ => NKV.trans)
          ft.params
          (fun p hp s hI => by
            obtain ⟨tp, htp⟩ := Option.isSome_iff_exists.1 (unfoldNamed_inv ft.params ps hps p hp)
            obtain ⟨b, s1, g1, g2, g3⟩ := vt_total hW hs m n' p.2 tp s hI htp (by omega)
            exact ⟨(p.1, b), s1, by simp only [run_bind, g1, run_pure], g2, g3⟩) s hI
        obtain ⟨r', s2, h2, hI2, hK2⟩ := mapMOpt_total (f := remapValueType n' types) (I := TI W) (R := NKV types)
          NKV.refl ft.result
          (fun a ha s hI => by
            obtain ⟨ta, hta⟩ := Option.isSome_iff_exists.1 (unfoldOpt_inv hr a ha)
            exact vt_total hW hs m n' a ta s hI hta (by omega)) s1 hI1
        have hfree : (alGet s2.agg.remapped (GTy.mk' types (.func f))).isSome = false := by
          cases hq : (alGet s2.agg.remapped (GTy.mk' types (.func f))).isSome with
          | false => rfl
          | true =>
            rcases (hK1.trans hK2) _ hq with h | ⟨d, hd⟩
            · rw [hg] at h; cases h
            · simp [GTy.mk'] at hd
        have hrun : remapFunc (n' + 1) types f s =
            .ok (s2.agg.types.funcs.length, setRemapped (pushFunc s2 { params := ps', result := r', isAsync := ft.isAsync })
              (GTy.mk' types (.func f)) (.func s2.agg.types.funcs.length)) := by
          rw [remapFunc]
          simp only [run_bind, run_remappedGet, hg, hft, run_pure, h1, h2, run_getAgg, run_modifyTypes,
            run_remappedInsertNew]
          simp only [hfree, Bool.false_eq_true, ↓reduceIte]
          rfl
        refine ⟨_, _, hrun, tiok _ _ hrun, ?_⟩
        intro g hg2
        simp only [setRemapped, pushFunc, alGet_alInsert] at hg2
        split at hg2
        · rename_i he
          exact .inr (.inr ⟨f, (eq_of_beq he).symm⟩)
        · exact (hK1.trans hK2).toNKL g hg2
      · cases hu

/-- **`remap_item_kind` is total on functions and values** -/
theorem remapKind_leaf_total (M n : Nat) (k : ItemKind) (hk : LeafK k) (t : Tree) (s : AggState) (hI : TI W s)
    (hu : types.unfoldKind M k = some t) (hn : 2 * M + 1 ≤ n) :
    ∃ k' s', remapKind n types k s = .ok (k', s') ∧ TI W s' ∧ NKL types s s' := by
  obtain ⟨n', rfl⟩ : ∃ n', n = n' + 1 := ⟨n - 1, by omega⟩
  cases M with
  | zero => simp [Types.unfoldKind] at hu
  | succ M' =>
    cases k with
    | func f =>
      simp only [Types.unfoldKind] at hu
      obtain ⟨f', s', h1, h2, h3⟩ := remapFunc_total hW hs M' n' f t s hI hu (by omega)
      exact ⟨.func f', s', by simp only [remapKind, run_bind, h1, run_pure], h2, h3⟩
    | value v =>
      simp only [Types.unfoldKind] at hu
      obtain ⟨x, hx, _⟩ := Option.map_eq_some_iff.1 hu
      obtain ⟨v', s', h1, h2, h3⟩ := vt_total hW hs M' n' v x s hI hx (by omega)
      exact ⟨.value v', s', by simp only [remapKind, run_bind, h1, run_pure], h2, h3.toNKL⟩
    | type ty =>
      cases ty with
      | func f =>
        simp only [Types.unfoldKind] at hu
        obtain ⟨x, hx, _⟩ := Option.map_eq_some_iff.1 hu
        obtain ⟨f', s', h1, h2, h3⟩ := remapFunc_total hW hs M' n' f x s hI hx (by omega)
        exact ⟨.type (.func f'), s', by simp only [remapKind, run_bind, h1, run_pure], h2, h3⟩
      | value v =>
        simp only [Types.unfoldKind] at hu
        obtain ⟨x, hx, _⟩ := Option.map_eq_some_iff.1 hu
        obtain ⟨v', s', h1, h2, h3⟩ := vt_total hW hs M' n' v x s hI hx (by omega)
        exact ⟨.type (.value v'), s', by simp only [remapKind, run_bind, h1, run_pure], h2, h3.toNKL⟩
      | _ => cases hk
    | «instance» _ => cases hk
    | component _ => cases hk
    | module _ => cases hk

end total

end Wac.AggP
