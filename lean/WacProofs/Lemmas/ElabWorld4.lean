import WacProofs.Lemmas.ElabWorld3
/-
  C05 `elab_denotes`, part 16 (worlds): the interfaces and then the worlds of a package.
-/
namespace Wac.Elab
open Wac Wac.Spec.Wit Wac.Decode

variable {ρ : Nat → Res}

set_option linter.unusedSimpArgs false

/-! ### the root scope -/

/-- the id the resolver records for a declared interface -/
theorem interfaceDecl_id {st st' : St} {id : Option Str} {items : List Item} {i : Nat}
    (h : interfaceDecl st id items = .ok (st', i)) :
    ∃ itf, st'.types.interfaces[i]? = some itf ∧ itf.id = id := by
  unfold interfaceDecl at h
  simp only at h
  split at h
  · rename_i st1 itf hitems
    cases h
    obtain ⟨_, _, hid, _⟩ := interfaceItemsAll_ok _ _ _ _ _ hitems
    exact ⟨itf, by simp [Elab.addInterface], hid⟩
  · cases h

/-- no world has been declared yet -/
def NoWorld (root : List (Str × Bound)) : Prop := ∀ (wn : Str) (o : Nat), alGet root wn ≠ some (.world o)

theorem NoWorld.push {root : List (Str × Bound)} (h : NoWorld root) (n : Str) (i : Nat) :
    NoWorld (root ++ [(n, .iface i)]) := by
  intro wn o hp
  rw [alGet_append] at hp
  cases hr : alGet root wn with
  | some b =>
    rw [hr] at hp
    simp only [Option.some.injEq] at hp
    subst hp
    exact h wn o hr
  | none =>
    rw [hr] at hp
    simp only at hp
    split at hp <;> cases hp

theorem RootSim.pushWorld {T : Types} {root : List (Str × Bound)} {ifaces : List (Str × List (Str × Tree))}
    (h : RootSim ρ T root ifaces) (n : Str) (w : Nat) : RootSim ρ T (root ++ [(n, .world w)]) ifaces := by
  intro path i hp
  rw [alGet_append] at hp
  cases hr : alGet root path with
  | some b =>
    rw [hr] at hp
    simp only [Option.some.injEq] at hp
    subst hp
    exact h path i hr
  | none =>
    rw [hr] at hp
    simp only at hp
    split at hp <;> cases hp

theorem RootInst.pushWorld {T : Types} {root : List (Str × Bound)} {ifaces : List (Str × List (Str × Tree))}
    {ids : List (Str × Str)} (h : RootInst ρ T root ifaces ids) (n : Str) (w : Nat) :
    RootInst ρ T (root ++ [(n, .world w)]) ifaces ids := by
  intro path i hp
  rw [alGet_append] at hp
  cases hr : alGet root path with
  | some b =>
    rw [hr] at hp
    simp only [Option.some.injEq] at hp
    subst hp
    exact h path i hr
  | none =>
    rw [hr] at hp
    simp only at hp
    split at hp <;> cases hp

/-- a new interface enters the root scope and the environment -/
theorem RootInst.push {T : Types} {root : List (Str × Bound)} {ifaces : List (Str × List (Str × Tree))}
    {ids : List (Str × Str)} {n idn : Str} {i : Nat} {itf : Interface} {ex : List (Str × Tree)}
    (h : RootInst ρ T root ifaces ids) (hi : T.interfaces[i]? = some itf) (hid : itf.id = some idn)
    (hk : HK [] [] T (kb T) (.instance i) (renT ρ (.instance (Forest.ofList ex))))
    (hfresh : alGet ifaces n = none) (hfreshI : alGet ids n = none) :
    RootInst ρ T (root ++ [(n, .iface i)]) (ifaces ++ [(n, ex), (idn, ex)]) (ids ++ [(n, idn), (idn, idn)]) := by
  intro path j hp
  rw [alGet_append] at hp
  cases hr : alGet root path with
  | some b =>
    rw [hr] at hp
    simp only [Option.some.injEq] at hp
    subst hp
    obtain ⟨itf', ex', id', h1, h2, h3, h4, h5⟩ := h path j hr
    exact ⟨itf', ex', id', h1, h2, alGet_append_some _ _ _ _ h3, alGet_append_some _ _ _ _ h4, h5⟩
  | none =>
    rw [hr] at hp
    simp only at hp
    split at hp
    · rename_i hnp
      cases hp
      have : path = n := by simpa using (beq_iff_eq.mp hnp).symm
      subst this
      refine ⟨itf, ex, idn, hi, hid, ?_, ?_, hk⟩
      · rw [alGet_append_none _ _ _ hfreshI]
        simp [alGet]
      · rw [alGet_append_none _ _ _ hfresh]
        simp [alGet]
    · cases hp

/-- a new world enters the root scope and the environment -/
theorem WorldSim.push {T : Types} {root : List (Str × Bound)} {worlds : List (Str × WorldD)} {n : Str} {w : Nat}
    {wd : World} {dW : WorldD} (h : WorldSim ρ T root worlds) (hw : T.worlds[w]? = some wd)
    (hI : ExpRel ρ T wd.imports dW.imports) (hE : ExpRel ρ T wd.exports dW.exports) :
    WorldSim ρ T (root ++ [(n, .world w)]) (worlds ++ [(n, dW)]) := by
  refine ⟨?_, ?_⟩
  · intro wn o hp
    rw [alGet_append] at hp
    cases hr : alGet root wn with
    | some b =>
      rw [hr] at hp
      simp only [Option.some.injEq] at hp
      subst hp
      obtain ⟨wdo, dW', h1, h2, h3, h4⟩ := h.1 wn o hr
      exact ⟨wdo, dW', h1, alGet_append_some _ _ _ _ h2, h3, h4⟩
    | none =>
      rw [hr] at hp
      simp only at hp
      split at hp
      · rename_i hnp
        cases hp
        have : wn = n := by simpa using (beq_iff_eq.mp hnp).symm
        subst this
        refine ⟨wd, dW, hw, ?_, hI, hE⟩
        rw [alGet_append_none _ _ _ (h.2 wn hr)]
        simp [alGet]
      · cases hp
  · intro wn hp
    rw [alGet_append] at hp
    cases hr : alGet root wn with
    | some b => rw [hr] at hp; cases hp
    | none =>
      rw [hr] at hp
      simp only at hp
      split at hp
      · cases hp
      · rename_i hnp
        rw [alGet_append, h.2 wn hr]
        simp only [hnp]
        rfl

/-! ### the interfaces of a package, with the facts worlds need -/

theorem elabIfacesW_ok (p : Pkg) :
    ∀ (ifs : List (Str × List Item)) (st st' : St) (env env' : Env),
      elabIfaces p ifs st = .ok st' → denIfaces p ifs env = some env' →
      Grow st.types st'.types ∧ st'.scope = st.scope ∧ env'.worlds = env.worlds ∧
      (NoWorld st.root → NoWorld st'.root) ∧
      ∃ (newR : List Nat) (res : List (Nat × List (Str × Tree))),
        env'.next = env.next + newR.length ∧ newR.Pairwise (· < ·) ∧
        (∀ x ∈ newR, st.types.resources.length ≤ x ∧ x < st'.types.resources.length) ∧
        env'.ifaces = env.ifaces ++ (List.zip ifs res).flatMap
          (fun x => [(x.1.1, x.2.2), (p.idOf x.1.1, x.2.2)]) ∧
        ∀ (ρ : Nat → Res) (RL : List Nat), RL.length = env.next → ConsE ρ (RL ++ newR) st'.types →
          RootSim ρ st.types st.root env.ifaces → RootInst ρ st.types st.root env.ifaces env.ids →
          env.ids.map (·.1) = env.ifaces.map (·.1) →
          (env.ifaces.map (·.1) ++ ifs.flatMap (fun ni => [ni.1, p.idOf ni.1])).Nodup →
          (∀ nx ∈ env'.ifaces, (nx.2.map (·.1)).Nodup) →
          RootSim ρ st'.types st'.root env'.ifaces ∧ RootInst ρ st'.types st'.root env'.ifaces env'.ids ∧
          All2 (fun (_ : Str × List Item) (ie : Nat × List (Str × Tree)) =>
            HK [] [] st'.types (kb st'.types) (.instance ie.1) (renT ρ (.instance (Forest.ofList ie.2)))) ifs res := by
  intro ifs
  induction ifs with
  | nil =>
    intro st st' env env' h hd
    simp only [elabIfaces, List.foldlM_nil] at h
    cases h
    simp only [denIfaces, List.foldlM_nil, Option.pure_def, Option.some.injEq] at hd
    subst hd
    exact ⟨Grow.refl _, rfl, rfl, fun h => h, [], [], by simp, List.Pairwise.nil, by simp, by simp,
      fun _ _ _ _ hrs hri _ _ _ => ⟨hrs, hri, trivial⟩⟩
  | cons ni r ih =>
    intro st st' env env' h hd
    simp only [elabIfaces, List.foldlM_cons] at h
    simp only [denIfaces, List.foldlM_cons, Option.bind_eq_bind] at hd
    obtain ⟨env1, hd1, hd2⟩ := Option.bind_eq_some_iff.mp hd
    obtain ⟨ne, hne, henv1⟩ := Option.map_eq_some_iff.mp hd1
    obtain ⟨next1, ex⟩ := ne
    cases hdec : interfaceDecl st (some (idOf p ni.1)) ni.2 with
    | error e => simp [hdec] at h; cases h
    | ok si =>
      obtain ⟨st1, i⟩ := si
      simp only [hdec] at h
      have h' : elabIfaces p r { st1 with root := st1.root ++ [(ni.1, .iface i)] } = .ok st' := h
      have hd2' : denIfaces p r env1 = some env' := hd2
      obtain ⟨g1, rt1, sc1, k1⟩ := interfaceDeclAll_ok hdec
      obtain ⟨itf0, hitf0, hid0⟩ := interfaceDecl_id hdec
      obtain ⟨g2, sc2, hw2, hnw2, newR2, res, hn2, hp2, hr2, henv, kk2⟩ := ih _ _ _ _ h' hd2'
      obtain ⟨newR1, hn1, hp1, hr1, kk1⟩ := k1 (p.idOf ni.1) env.ifaces env.next next1 ex hne
      have hl1 := g1.ext.resources_len
      have hl2 : st1.types.resources.length ≤ st'.types.resources.length := g2.ext.resources_len
      have henv1n : env1.next = next1 := by rw [← henv1]
      have henv1i : env1.ifaces = env.ifaces ++ [(ni.1, ex), (p.idOf ni.1, ex)] := by rw [← henv1]
      have henv1d : env1.ids = env.ids ++ [(ni.1, p.idOf ni.1), (p.idOf ni.1, p.idOf ni.1)] := by rw [← henv1]
      have henv1w : env1.worlds = env.worlds := by rw [← henv1]
      refine ⟨g1.trans g2, sc2.trans sc1, hw2.trans henv1w, ?_, newR1 ++ newR2, (i, ex) :: res, ?_, ?_, ?_, ?_, ?_⟩
      · intro hnw
        apply hnw2
        show NoWorld (st1.root ++ [(ni.1, .iface i)])
        rw [rt1]
        exact hnw.push _ _
      · simp only [List.length_append]; rw [hn2, henv1n, hn1]; omega
      · rw [List.pairwise_append]
        refine ⟨hp1, hp2, ?_⟩
        intro a ha b hb
        have h3 := (hr1 a ha).2
        have h4 : st1.types.resources.length ≤ b := (hr2 b hb).1
        omega
      · intro x hx
        rcases List.mem_append.mp hx with hx | hx
        · have := hr1 x hx; omega
        · have h3 : st1.types.resources.length ≤ x ∧ x < st'.types.resources.length := hr2 x hx
          omega
      · rw [henv, henv1i]; simp
      · intro ρ RL hRL hcons hrs hri hidk hkeys hnd
        have hex_nd : (ex.map (·.1)).Nodup := by
          apply hnd (ni.1, ex)
          rw [henv, henv1i]
          simp
        have hcons1 : ConsE ρ (RL ++ newR1) st1.types :=
          ConsE.back (RL' := RL ++ (newR1 ++ newR2)) hcons g2 (fun k idx hk => by
            rw [← List.append_assoc]; exact prefix_append_getElem? _ _ _ _ hk)
        obtain ⟨hk, itf, hitf, hexp⟩ := kk1 ρ RL hRL hcons1 hrs hex_nd
        have hfresh : alGet env.ifaces ni.1 = none := by
          apply alGet_none_of_not_mem
          intro hm
          simp only [List.flatMap_cons, List.cons_append, List.nil_append] at hkeys
          rw [List.nodup_append] at hkeys
          exact hkeys.2.2 _ hm _ (List.mem_cons_self ..) rfl
        have hfreshI : alGet env.ids ni.1 = none := by
          apply alGet_none_of_not_mem
          rw [hidk]
          intro hm
          simp only [List.flatMap_cons, List.cons_append, List.nil_append] at hkeys
          rw [List.nodup_append] at hkeys
          exact hkeys.2.2 _ hm _ (List.mem_cons_self ..) rfl
        have hrs1 : RootSim ρ st1.types (st1.root ++ [(ni.1, .iface i)]) env1.ifaces := by
          rw [henv1i, rt1]
          exact (hrs.mono g1).push hitf hexp hfresh
        have hri1 : RootInst ρ st1.types (st1.root ++ [(ni.1, .iface i)]) env1.ifaces env1.ids := by
          rw [henv1i, henv1d, rt1]
          exact (hri.mono g1).push hitf0 hid0 hk hfresh hfreshI
        have hidk1 : env1.ids.map (·.1) = env1.ifaces.map (·.1) := by
          rw [henv1i, henv1d]
          simp [hidk]
        have hkeys1 : (env1.ifaces.map (·.1) ++ r.flatMap (fun nj => [nj.1, p.idOf nj.1])).Nodup := by
          rw [henv1i]
          simpa [List.flatMap_cons, List.append_assoc] using hkeys
        obtain ⟨hrs', hri', hall⟩ := kk2 ρ (RL ++ newR1) (by rw [henv1n, hn1]; simp [hRL])
          (by rw [List.append_assoc]; exact hcons) hrs1 hri1 hidk1 hkeys1 hnd
        have hs2 : Types.size st1.types ≤ Types.size st'.types := g2.size
        exact ⟨hrs', hri', HK.mono hk g2.ext (by unfold kb vb; omega), hall⟩

/-! ### the worlds of a package -/

/-- the world fold of `elabPkg` -/
def elabWorlds (p : Pkg) (ws : List (Str × List WItem)) (st : St) : M St :=
  ws.foldlM (fun (st : St) (nw : Str × List WItem) =>
    match worldDecl st (idOf p nw.1) nw.2 with
    | .ok (st, w) => (.ok { st with root := st.root ++ [(nw.1, .world w)] } : M St)
    | .error e => .error e) st

/-- the world fold of `denotePkg` -/
def denWorlds (ws : List (Str × List WItem)) (env : Env) : Option Env :=
  ws.foldlM (fun (env : Env) (nw : Str × List WItem) =>
    (denoteWorld env nw.2).map fun (next, wd) =>
      { env with worlds := env.worlds ++ [(nw.1, wd)], next := next }) env

/-- `worldFreshB` for every world of the list, each in the environment it is denoted in -/
def worldsFreshB (env : Env) : List (Str × List WItem) → Bool
  | [] => true
  | nw :: r =>
    worldFreshB env ({ next := env.next }, {}) nw.2 &&
      match denoteWorld env nw.2 with
      | some (next, wd) => worldsFreshB { env with worlds := env.worlds ++ [(nw.1, wd)], next := next } r
      | none => true

/-- well-formedness of the worlds of a package (specification side): no world-level declaration
re-declares a name the world already imports; the export names of every inline interface are
pairwise distinct.  Both hold of every WIT-valid package. -/
def pkgWorldsFreshB (p : Pkg) : Bool :=
  match denIfaces p p.ifaces { ifaces := [], ids := [], next := 0 } with
  | some envI => worldsFreshB envI p.worlds
  | none => true

theorem elabWorlds_ok (p : Pkg) :
    ∀ (ws : List (Str × List WItem)) (st st' : St) (env env' : Env),
      elabWorlds p ws st = .ok st' → denWorlds ws env = some env' →
      Grow st.types st'.types ∧ st'.scope = st.scope ∧ env'.ifaces = env.ifaces ∧
      ∃ (newR : List Nat) (res : List (Nat × WorldD)),
        env'.next = env.next + newR.length ∧ newR.Pairwise (· < ·) ∧
        (∀ x ∈ newR, st.types.resources.length ≤ x ∧ x < st'.types.resources.length) ∧
        env'.worlds = env.worlds ++ (List.zip ws res).map (fun x => (x.1.1, x.2.2)) ∧
        ∀ (ρ : Nat → Res) (RL : List Nat), RL.length = env.next → ConsE ρ (RL ++ newR) st'.types →
          RootSim ρ st.types st.root env.ifaces → RootInst ρ st.types st.root env.ifaces env.ids →
          WorldSim ρ st.types st.root env.worlds → worldsFreshB env ws = true →
          All2 (fun (nw : Str × List WItem) (we : Nat × WorldD) =>
            HK [] [] st'.types (kb st'.types) (.component we.1)
              (renT ρ (.component (Forest.ofList we.2.imports) (Forest.ofList we.2.exports))) ∧
            ∃ wd, st'.types.worlds[we.1]? = some wd ∧ wd.id = some (p.idOf nw.1)) ws res := by
  intro ws
  induction ws with
  | nil =>
    intro st st' env env' h hd
    simp only [elabWorlds, List.foldlM_nil] at h
    cases h
    simp only [denWorlds, List.foldlM_nil, Option.pure_def, Option.some.injEq] at hd
    subst hd
    exact ⟨Grow.refl _, rfl, rfl, [], [], by simp, List.Pairwise.nil, by simp, by simp,
      fun _ _ _ _ _ _ _ _ => trivial⟩
  | cons nw r ih =>
    intro st st' env env' h hd
    simp only [elabWorlds, List.foldlM_cons] at h
    simp only [denWorlds, List.foldlM_cons, Option.bind_eq_bind] at hd
    obtain ⟨env1, hd1, hd2⟩ := Option.bind_eq_some_iff.mp hd
    obtain ⟨ne, hne, henv1⟩ := Option.map_eq_some_iff.mp hd1
    obtain ⟨next1, dwd⟩ := ne
    cases hdec : worldDecl st (idOf p nw.1) nw.2 with
    | error e => simp [hdec] at h; cases h
    | ok si =>
      obtain ⟨st1, w⟩ := si
      simp only [hdec] at h
      have h' : elabWorlds p r { st1 with root := st1.root ++ [(nw.1, .world w)] } = .ok st' := h
      have hd2' : denWorlds r env1 = some env' := hd2
      obtain ⟨g1, rt1, sc1, k1⟩ := worldDecl_ok env hdec
      obtain ⟨g2, sc2, hif2, newR2, res, hn2, hp2, hr2, henv, kk2⟩ := ih _ _ _ _ h' hd2'
      obtain ⟨newR1, hn1, hp1, hr1, kk1⟩ := k1 next1 dwd hne
      have hl1 := g1.ext.resources_len
      have hl2 : st1.types.resources.length ≤ st'.types.resources.length := g2.ext.resources_len
      have henv1n : env1.next = next1 := by rw [← henv1]
      have henv1i : env1.ifaces = env.ifaces := by rw [← henv1]
      have henv1d : env1.ids = env.ids := by rw [← henv1]
      have henv1w : env1.worlds = env.worlds ++ [(nw.1, dwd)] := by rw [← henv1]
      refine ⟨g1.trans g2, sc2.trans sc1, hif2.trans henv1i, newR1 ++ newR2, (w, dwd) :: res, ?_, ?_, ?_, ?_, ?_⟩
      · simp only [List.length_append]; rw [hn2, henv1n, hn1]; omega
      · rw [List.pairwise_append]
        refine ⟨hp1, hp2, ?_⟩
        intro a ha b hb
        have h3 := (hr1 a ha).2
        have h4 : st1.types.resources.length ≤ b := (hr2 b hb).1
        omega
      · intro x hx
        rcases List.mem_append.mp hx with hx | hx
        · have := hr1 x hx; omega
        · have h3 : st1.types.resources.length ≤ x ∧ x < st'.types.resources.length := hr2 x hx
          omega
      · rw [henv, henv1w]; simp
      · intro ρ RL hRL hcons hrs hri hws hfr
        simp only [worldsFreshB, hne, Bool.and_eq_true] at hfr
        have hcons1 : ConsE ρ (RL ++ newR1) st1.types :=
          ConsE.back (RL' := RL ++ (newR1 ++ newR2)) hcons g2 (fun k idx hk => by
            rw [← List.append_assoc]; exact prefix_append_getElem? _ _ _ _ hk)
        obtain ⟨hk, wd, hwd, hwid, hI, hE⟩ := kk1 ρ RL hRL hcons1 hrs hri hws hfr.1
        have hrs1 : RootSim ρ st1.types (st1.root ++ [(nw.1, .world w)]) env1.ifaces := by
          rw [henv1i, rt1]
          exact (hrs.mono g1).pushWorld _ _
        have hri1 : RootInst ρ st1.types (st1.root ++ [(nw.1, .world w)]) env1.ifaces env1.ids := by
          rw [henv1i, henv1d, rt1]
          exact (hri.mono g1).pushWorld _ _
        have hws1 : WorldSim ρ st1.types (st1.root ++ [(nw.1, .world w)]) env1.worlds := by
          rw [henv1w, rt1]
          exact (hws.mono g1).push hwd hI hE
        have hfr2 : worldsFreshB env1 r = true := by rw [← henv1]; exact hfr.2
        have hall := kk2 ρ (RL ++ newR1) (by rw [henv1n, hn1]; simp [hRL])
          (by rw [List.append_assoc]; exact hcons) hrs1 hri1 hws1 hfr2
        have hs2 : Types.size st1.types ≤ Types.size st'.types := g2.size
        exact ⟨⟨HK.mono hk g2.ext (by unfold kb vb; omega), wd, g2.keepW w wd hwd, hwid⟩, hall⟩

/-! ### the two phases of a package -/

theorem elabPkg_split (p : Pkg) (T : Types) (h : elabPkg p = .ok T) :
    ∃ stI st, elabIfaces p p.ifaces {} = .ok stI ∧ elabWorlds p p.worlds stI = .ok st ∧ T = st.types := by
  unfold elabPkg at h
  simp only at h
  split at h
  · cases h
  · rename_i stI hstI
    split at h
    · rename_i st hst
      cases h
      exact ⟨stI, st, hstI, hst, rfl⟩
    · cases h

theorem denotePkg_split (p : Pkg) (env : Env) (h : denotePkg [] 0 p = some env) :
    ∃ envI, denIfaces p p.ifaces { ifaces := [], ids := [], next := 0 } = some envI ∧
      denWorlds p.worlds envI = some env := by
  unfold denotePkg at h
  simp only [List.map_nil] at h
  split at h
  · cases h
  · rename_i envI henvI
    exact ⟨envI, henvI, h⟩

end Wac.Elab
