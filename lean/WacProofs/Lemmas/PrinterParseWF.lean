import WacProofs.Lemmas.PrinterParseWFExpr
import WacProofs.Lemmas.PrinterParseWFItems
/-
  C13: every tree the parser model returns is well-formed (`parseTokens_wf`), provided the tokens
  it reads are OK (`ToksOK`: the text of every identifier / string / package-name / package-path
  token is a whole token of its kind — what the lexer guarantees).
-/
namespace Wac.Lemmas.PrinterWF
open Wac Wac.Ast Wac.Lex Wac.Parse

theorem parseImportStatement_post (fuel : Nat) {st : PState} (hst : ToksOK st) :
    Post (parseImportStatement fuel st) (fun s => s.wf = true) := by
  unfold parseImportStatement
  pbind parseToken_post _ hst => _ st1 _ hst1
  pbind parseIdent_post hst1 => id st2 hid hst2
  pbind parseOptional_post _ hst2 (fun _ h => parseExternName_post h) => n st3 hn hst3
  pbind parseToken_post _ hst3 => _ st4 _ hst4
  pbind parseImportType_post fuel hst4 => ty st5 hty hst5
  pbind parseToken_post _ hst5 => _ st6 _ hst6
  refine Post_ok ?_ hst6
  cases n with
  | none => simp [ImportStatement.wf, hid, hty]
  | some x => simp [ImportStatement.wf, hid, hty, hn x rfl]

theorem parseStatement_post (fuel : Nat) {st : PState} (hst : ToksOK st) :
    Post (parseStatement fuel st) (fun s => s.wf = true) := by
  unfold parseStatement
  split
  · pbind parseImportStatement_post fuel hst => s st1 hs hst1
    exact Post_ok (by simpa [Statement.wf] using hs) hst1
  · split
    · pbind parseLetStatement_post fuel hst => s st1 hs hst1
      exact Post_ok (by simpa [Statement.wf] using hs) hst1
    · split
      · pbind parseExportStatement_post fuel hst => s st1 hs hst1
        exact Post_ok (by simpa [Statement.wf] using hs) hst1
      · split
        · pbind parseTypeStatement_post fuel hst => s st1 hs hst1
          exact Post_ok (by simpa [Statement.wf] using hs) hst1
        · exact Post_error

theorem parsePackageDirective_post {st : PState} (hst : ToksOK st) :
    Post (parsePackageDirective st) (fun d => d.wf = true) := by
  unfold parsePackageDirective
  pbind parseToken_post _ hst => _ st1 _ hst1
  pbind parsePackageName_post hst1 => p st2 hp hst2
  pbind parseOptional_post _ hst2 (fun _ h => parsePackagePath_post h) => t st3 ht hst3
  pbind parseToken_post _ hst3 => _ st4 _ hst4
  refine Post_ok ?_ hst4
  cases t with
  | none => simp [PackageDirective.wf, hp]
  | some x => simp [PackageDirective.wf, hp, ht x rfl]

theorem parseStatements_post (fuel : Nat) : ∀ (n : Nat) {st : PState}, ToksOK st →
    Post (parseStatements fuel n st) (fun ss => ss.all Statement.wf = true) := by
  intro n
  induction n with
  | zero => intro st _; unfold parseStatements; exact Post_error
  | succ n ih =>
    intro st hst
    unfold parseStatements
    split
    · exact Post_ok rfl hst
    · pbind parseStatement_post fuel hst => s st1 hs hst1
      pbind ih hst1 => r st2 hr hst2
      exact Post_ok (by simp only [List.all_cons, hs, hr]; rfl) hst2

/-- **Every tree the parser returns is well-formed**, when the tokens it reads are OK. -/
theorem parseTokens_wf (st : PState) (hst : ToksOK st) (d : Document)
    (h : parseTokens st = .ok d) : d.wf = true := by
  unfold parseTokens at h
  dsimp only at h
  cases hd : parsePackageDirective st with
  | error e => rw [hd] at h; cases h
  | ok p =>
    obtain ⟨dir, st1⟩ := p
    obtain ⟨hdir, hst1⟩ := parsePackageDirective_post hst dir st1 hd
    rw [hd] at h
    replace h : (parseStatements (fuelFor st.toks.length) (st1.toks.length + 1) st1 >>=
        fun x => (.ok ⟨parseDocs st, dir, x.1⟩ : Except ParseError Document)) = .ok d := h
    cases hs : parseStatements (fuelFor st.toks.length) (st1.toks.length + 1) st1 with
    | error e => rw [hs] at h; cases h
    | ok q =>
      obtain ⟨ss, st2⟩ := q
      obtain ⟨hss, -⟩ := parseStatements_post _ _ hst1 ss st2 hs
      rw [hs] at h
      cases h
      simp [Document.wf, hdir, hss]

/-- the same for `parseDocument` (the screen `detectInvalidInput` only rejects) -/
theorem parseDocument_wf (src : Str) (hst : ToksOK (PState.init src)) (d : Document)
    (h : parseDocument src = .ok d) : d.wf = true := by
  unfold parseDocument at h
  split at h
  · cases h
  · exact parseTokens_wf _ hst d h

end Wac.Lemmas.PrinterWF
