import WacProofs.Lemmas.ElabItem2
/-
  C05 `elab_denotes`, part 6: interface bodies (`interface_items`) and interface declarations
  (`interface_decl` / `inline_interface`) of the fragment: value-type declarations and functions.
-/
namespace Wac.Elab
open Wac Wac.Spec.Wit Wac.Decode

variable {ρ : Nat → Res}

/-- the fragment: value-type declarations and functions -/
def isVF : Item → Bool
  | .record _ _ | .variant _ _ | .enum _ _ | .flags _ _ | .alias _ _ | .func _ _ => true
  | _ => false

theorem ForcedOk_free (ρ : Nat → Res) (T : Types) (r : Option WTy) : ForcedOk ρ T r .free none none := by
  cases r <;> rfl

/-- one step of `denoteItems` -/
def denStep (container : Str) (ifaces : List (Str × List (Str × Tree))) (acc : Scope × List (Str × Tree)) (i : Item) :
    Option (Scope × List (Str × Tree)) :=
  (denoteItem container ifaces acc.1 i).map fun (s, out) => (s, acc.2 ++ out)

theorem ExpRel.names {T : Types} : ∀ {ks : List (Str × ItemKind)} {out : List (Str × Tree)},
    ExpRel ρ T ks out → ks.map (·.1) = out.map (·.1)
  | [], [], _ => rfl
  | _ :: _, _ :: _, ⟨⟨h, _⟩, hr⟩ => by
    simp only [List.map_cons, h]
    rw [ExpRel.names (T := T) hr]
  | [], _ :: _, hf => hf.elim
  | _ :: _, [], hf => hf.elim

theorem alGet_none_of_not_mem {β : Type} (m : List (Str × β)) (k : Str) (h : k ∉ m.map (·.1)) :
    alGet m k = none := by
  induction m with
  | nil => rfl
  | cons x xs ih =>
    obtain ⟨k', v'⟩ := x
    simp only [List.map_cons, List.mem_cons, not_or] at h
    simp only [alGet]
    have : (k' == k) = false := by
      simp only [beq_eq_false_iff_ne, ne_eq]
      exact fun e => h.1 e.symm
    simp only [this]
    exact ih h.2

/-- the denotation steps only append to the output -/
theorem denFold_prefix (container : Str) (ifaces : List (Str × List (Str × Tree))) :
    ∀ (items : List Item) (acc res : Scope × List (Str × Tree)),
      items.foldlM (denStep container ifaces) acc = some res → ∃ more, res.2 = acc.2 ++ more := by
  intro items
  induction items with
  | nil =>
    intro acc res h
    simp only [List.foldlM_nil, Option.pure_def, Option.some.injEq] at h
    subst h
    exact ⟨[], by simp⟩
  | cons i r ih =>
    intro acc res h
    simp only [List.foldlM_cons, Option.bind_eq_bind] at h
    obtain ⟨acc1, h1, h2⟩ := Option.bind_eq_some_iff.mp h
    obtain ⟨more, hm⟩ := ih _ _ h2
    simp only [denStep] at h1
    obtain ⟨so, _, hso⟩ := Option.map_eq_some_iff.mp h1
    cases hso
    exact ⟨so.2 ++ more, by simp [hm]⟩

theorem interfaceItems_ok :
    ∀ (items : List Item) (st st' : St) (itf itf' : Interface), (∀ i ∈ items, isVF i = true) →
      interfaceItems st items itf = .ok (st', itf') →
      Grow st.types st'.types ∧ st'.root = st.root ∧ itf'.id = itf.id ∧
      ∀ (container : Str) (ifaces : List (Str × List (Str × Tree))) (s : Scope) (acc : List (Str × Tree))
        (res : Scope × List (Str × Tree)),
        Sim ρ st.types st.scope s.binds → ExpRel ρ st.types itf.exports acc →
        items.foldlM (denStep container ifaces) (s, acc) = some res → (res.2.map (·.1)).Nodup →
        Sim ρ st'.types st'.scope res.1.binds ∧ ExpRel ρ st'.types itf'.exports res.2 := by
  intro items
  induction items with
  | nil =>
    intro st st' itf itf' _ h
    simp only [interfaceItems] at h
    cases h
    refine ⟨Grow.refl _, rfl, rfl, ?_⟩
    intro container ifaces s acc res hsim hexp hfold _
    simp only [List.foldlM_nil, Option.pure_def, Option.some.injEq] at hfold
    subst hfold
    exact ⟨hsim, hexp⟩
  | cons i r ih =>
    intro st st' itf itf' hvf h
    have hvfi := hvf i (List.mem_cons_self ..)
    have hvfr : ∀ j ∈ r, isVF j = true := fun j hj => hvf j (List.mem_cons_of_mem _ hj)
    cases i with
    | use _ _ => simp [isVF] at hvfi
    | resource _ _ => simp [isVF] at hvfi
    | func n sg =>
      simp only [interfaceItems] at h
      split at h
      · rename_i st1 f hf
        split at h
        · cases h
        · rename_i hfreshE
          obtain ⟨g1, sc1, rt1, k1⟩ := funcType_ok (ρ := ρ) hf
          obtain ⟨g2, rt2, id2, k2⟩ := ih _ _ _ _ hvfr h
          refine ⟨g1.trans g2, rt2.trans rt1, id2, ?_⟩
          intro container ifaces s acc res hsim hexp hfold hnd
          simp only [List.foldlM_cons, Option.bind_eq_bind] at hfold
          obtain ⟨acc1, h1, h2⟩ := Option.bind_eq_some_iff.mp hfold
          simp only [denStep, denoteItem] at h1
          obtain ⟨so, hso, hacc⟩ := Option.map_eq_some_iff.mp h1
          obtain ⟨t, ht, hso'⟩ := Option.map_eq_some_iff.mp hso
          cases hso'
          cases hacc
          have hfr := k1 s hsim [] none t rfl (ForcedOk_free _ _ _) ht
          have hsim1 : Sim ρ st1.types st1.scope s.binds := by rw [sc1]; exact hsim.mono g1
          have hins : alInsert itf.exports n (.func f) = itf.exports ++ [(n, .func f)] :=
            alInsert_fresh _ _ _ (alGet_none_not_mem _ _ (by simpa using hfreshE))
          have hexp1 : ExpRel ρ st1.types (itf.exports ++ [(n, .func f)]) (acc ++ [(n, t)]) :=
            All2.append (hexp.mono g1) ⟨rfl, HK_func hfr, fun _ hk => by cases hk⟩
          exact k2 container ifaces s (acc ++ [(n, t)]) res hsim1 (by simpa [hins] using hexp1) h2 hnd
      · cases h
    | record n fs => exact typeStep ih hvfr (by rfl) h
    | variant n cs => exact typeStep ih hvfr (by rfl) h
    | enum n cs => exact typeStep ih hvfr (by rfl) h
    | flags n cs => exact typeStep ih hvfr (by rfl) h
    | alias n t => exact typeStep ih hvfr (by rfl) h
where
  typeStep {i : Item} {r : List Item} {st st' : St} {itf itf' : Interface}
      (ih : ∀ (st st' : St) (itf itf' : Interface), (∀ i ∈ r, isVF i = true) →
        interfaceItems st r itf = .ok (st', itf') →
        Grow st.types st'.types ∧ st'.root = st.root ∧ itf'.id = itf.id ∧
        ∀ (container : Str) (ifaces : List (Str × List (Str × Tree))) (s : Scope) (acc : List (Str × Tree))
          (res : Scope × List (Str × Tree)),
          Sim ρ st.types st.scope s.binds → ExpRel ρ st.types itf.exports acc →
          r.foldlM (denStep container ifaces) (s, acc) = some res → (res.2.map (·.1)).Nodup →
          Sim ρ st'.types st'.scope res.1.binds ∧ ExpRel ρ st'.types itf'.exports res.2)
      (hvfr : ∀ j ∈ r, isVF j = true) (hvd : isValueDecl i = true)
      (h : interfaceItems st (i :: r) itf = .ok (st', itf')) :
      Grow st.types st'.types ∧ st'.root = st.root ∧ itf'.id = itf.id ∧
      ∀ (container : Str) (ifaces : List (Str × List (Str × Tree))) (s : Scope) (acc : List (Str × Tree))
        (res : Scope × List (Str × Tree)),
        Sim ρ st.types st.scope s.binds → ExpRel ρ st.types itf.exports acc →
        (i :: r).foldlM (denStep container ifaces) (s, acc) = some res → (res.2.map (·.1)).Nodup →
        Sim ρ st'.types st'.scope res.1.binds ∧ ExpRel ρ st'.types itf'.exports res.2 := by
    have hstep : ∃ st1 exports, itemTypeDecl st i itf.exports = .ok (st1, exports) ∧
        interfaceItems st1 r { itf with exports := exports } = .ok (st', itf') := by
      cases i with
      | use _ _ => simp [isValueDecl] at hvd
      | resource _ _ => simp [isValueDecl] at hvd
      | func _ _ => simp [isValueDecl] at hvd
      | record n fs =>
        simp only [interfaceItems] at h
        split at h
        · rename_i st1 exports hd; exact ⟨st1, exports, hd, h⟩
        · cases h
      | variant n fs =>
        simp only [interfaceItems] at h
        split at h
        · rename_i st1 exports hd; exact ⟨st1, exports, hd, h⟩
        · cases h
      | enum n fs =>
        simp only [interfaceItems] at h
        split at h
        · rename_i st1 exports hd; exact ⟨st1, exports, hd, h⟩
        · cases h
      | flags n fs =>
        simp only [interfaceItems] at h
        split at h
        · rename_i st1 exports hd; exact ⟨st1, exports, hd, h⟩
        · cases h
      | alias n fs =>
        simp only [interfaceItems] at h
        split at h
        · rename_i st1 exports hd; exact ⟨st1, exports, hd, h⟩
        · cases h
    obtain ⟨st1, exports, hd, h⟩ := hstep
    obtain ⟨g1, rt1, k1⟩ := itemTypeDecl_ok (ρ := ρ) hvd hd
    obtain ⟨g2, rt2, id2, k2⟩ := ih _ _ _ _ hvfr h
    refine ⟨g1.trans g2, rt2.trans rt1, id2, ?_⟩
    intro container ifaces s acc res hsim hexp hfold hnd
    simp only [List.foldlM_cons, Option.bind_eq_bind] at hfold
    obtain ⟨acc1, h1, h2⟩ := Option.bind_eq_some_iff.mp hfold
    simp only [denStep] at h1
    obtain ⟨so, hso, hacc⟩ := Option.map_eq_some_iff.mp h1
    obtain ⟨s1, out⟩ := so
    cases hacc
    -- the new names are fresh: the final output has no duplicate name
    obtain ⟨more, hmore⟩ := denFold_prefix container ifaces r _ _ h2
    have hfresh : ∀ x ∈ out, alGet itf.exports x.1 = none := by
      intro x hx
      apply alGet_none_of_not_mem
      rw [hexp.names]
      intro hm
      simp only [hmore, List.map_append, List.append_assoc] at hnd
      rw [List.nodup_append] at hnd
      exact hnd.2.2 _ hm _ (List.mem_append_left _ (List.mem_map_of_mem hx)) rfl
    have hk := k1 container ifaces s s1 out hsim hso hfresh
    obtain ⟨ks, hks, hexpks⟩ := hk.exp
    have hexp1 : ExpRel ρ st1.types exports (acc ++ out) := by
      rw [hks]
      exact All2.append2 (hexp.mono g1) hexpks
    exact k2 container ifaces s1 (acc ++ out) res hk.sim hexp1 h2 hnd

end Wac.Elab
