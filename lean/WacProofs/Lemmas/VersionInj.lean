import WacProofs.Lemmas.Names
/-
  The version order has no ties between distinct names of one track: `Version.key` determines
  the version, and an accepted version string is determined by its parsed version.
-/
namespace Wac
open Wac.Spec

/-! ### `splitOnDot` is injective -/

def joinDot : List Str → Str
  | [] => []
  | [x] => x
  | x :: y :: r => x ++ '.' :: joinDot (y :: r)

theorem go_ne_nil (acc s : Str) : splitOnDot.go acc s ≠ [] := by
  induction s generalizing acc with
  | nil => simp [splitOnDot.go]
  | cons c r ih =>
    simp only [splitOnDot.go]
    split
    · simp
    · exact ih _

theorem joinDot_cons (x : Str) (l : List Str) (h : l ≠ []) : joinDot (x :: l) = x ++ '.' :: joinDot l := by
  cases l with
  | nil => exact absurd rfl h
  | cons y r => rfl

theorem joinDot_go (acc s : Str) : joinDot (splitOnDot.go acc s) = acc.reverse ++ s := by
  induction s generalizing acc with
  | nil => simp [splitOnDot.go, joinDot]
  | cons c r ih =>
    simp only [splitOnDot.go]
    split
    · rename_i hc
      have : c = '.' := by simpa using hc
      subst this
      rw [joinDot_cons _ _ (go_ne_nil _ _), ih]; simp
    · rw [ih]; simp

theorem joinDot_split (s : Str) : joinDot (splitOnDot s) = s := by
  simp [splitOnDot, joinDot_go]

theorem splitOnDot_inj {a b : Str} (h : splitOnDot a = splitOnDot b) : a = b := by
  rw [← joinDot_split a, ← joinDot_split b, h]

theorem splitOnDot_ne_nil (s : Str) : splitOnDot s ≠ [] := go_ne_nil _ _

/-! ### `segKey` is injective -/

theorem toNat_map_inj {a b : Str} (h : a.map Char.toNat = b.map Char.toNat) : a = b := by
  induction a generalizing b with
  | nil => cases b <;> simp_all
  | cons x a ih =>
    cases b with
    | nil => simp at h
    | cons y b =>
      simp only [List.map_cons, List.cons.injEq] at h
      rw [Char.toNat_inj.mp h.1, ih h.2]

theorem takeWhile_zero (s : Str) : s.takeWhile (· == '0') = List.replicate (s.takeWhile (· == '0')).length '0' := by
  apply List.eq_replicate_iff.mpr
  refine ⟨rfl, ?_⟩
  intro c hc
  have := mem_takeWhile_imp' _ _ _ hc
  simpa using this

theorem zeros_trim (s : Str) : s = List.replicate (s.length - (trimZeros s).length) '0' ++ trimZeros s := by
  have h := (List.takeWhile_append_dropWhile (p := (· == '0')) (l := s))
  have hl : s.length = (s.takeWhile (· == '0')).length + (s.dropWhile (· == '0')).length := by
    have := congrArg List.length h
    rw [List.length_append] at this
    exact this.symm
  unfold trimZeros
  have : s.length - (s.dropWhile (· == '0')).length = (s.takeWhile (· == '0')).length := by omega
  rw [this, ← takeWhile_zero]
  exact h.symm

theorem segKey_inj {a b : Str} (h : segKey a = segKey b) : a = b := by
  unfold segKey at h
  by_cases ha : a.all isDigit = true <;> by_cases hb : b.all isDigit = true
  · simp only [ha, hb, ↓reduceIte, List.cons_append, List.nil_append, List.cons.injEq, true_and] at h
    obtain ⟨hl, hrest⟩ := h
    have hl' : (List.map Char.toNat (trimZeros a)).length = (List.map Char.toNat (trimZeros b)).length := by
      simp [hl]
    obtain ⟨h1, h2⟩ := List.append_inj hrest hl'
    have ht : trimZeros a = trimZeros b := toNat_map_inj h1
    have hlen : a.length = b.length := by simpa using h2
    rw [zeros_trim a, zeros_trim b, ht, hlen]
  · simp only [ha, hb, ↓reduceIte] at h; simp at h
  · simp only [ha, hb, ↓reduceIte] at h; simp at h
  · simp only [ha, hb, ↓reduceIte, List.cons.injEq, true_and] at h
    exact toNat_map_inj (by simpa using h)

theorem map_segKey_inj {a b : List Str} (h : a.map segKey = b.map segKey) : a = b := by
  induction a generalizing b with
  | nil => cases b <;> simp_all
  | cons x a ih =>
    cases b with
    | nil => simp at h
    | cons y b =>
      simp only [List.map_cons, List.cons.injEq] at h
      rw [segKey_inj h.1, ih h.2]

theorem buildKey_inj {a b : Str} (h : buildKey a = buildKey b) : a = b := by
  unfold buildKey at h
  by_cases ha : a.isEmpty = true <;> by_cases hb : b.isEmpty = true
  · simp at ha hb; rw [ha, hb]
  · simp only [ha, hb, ↓reduceIte] at h
    have := splitOnDot_ne_nil b
    cases hs : splitOnDot b <;> simp_all
  · simp only [ha, hb, ↓reduceIte] at h
    have := splitOnDot_ne_nil a
    cases hs : splitOnDot a <;> simp_all
  · simp only [ha, hb, ↓reduceIte] at h
    exact splitOnDot_inj (map_segKey_inj h)

theorem key_inj {v w : Version} (h : v.key = w.key) :
    v.major = w.major ∧ v.minor = w.minor ∧ v.patch = w.patch ∧ v.build = w.build := by
  unfold Version.key at h
  simp only [List.cons_append, List.nil_append, List.cons.injEq] at h
  obtain ⟨h1, h2, h3, h4⟩ := h
  exact ⟨h1.1, h2.1, h3.1, buildKey_inj h4⟩

/-! ### an accepted version string is determined by the parsed version -/

def tailStr (pre build : Str) : Str :=
  (if pre.isEmpty then [] else '-' :: pre) ++ (if build.isEmpty then [] else '+' :: build)

theorem identifier_some {b : Bool} {s p r : Str} (h : identifier b s = some (p, r)) : s = p ++ r := by
  unfold identifier at h
  simp only at h
  split at h
  · simp at h; obtain ⟨rfl, rfl⟩ := h; simp
  · split at h
    · simp at h; obtain ⟨rfl, rfl⟩ := h; exact (List.takeWhile_append_dropWhile).symm
    · simp at h

theorem parsePre_some {s pre r : Str} (h : parsePre s = some (pre, r)) :
    s = (if pre.isEmpty then [] else '-' :: pre) ++ r := by
  unfold parsePre at h
  split at h
  · rename_i r0
    split at h
    · simp at h
    · rename_i p r1 hid
      split at h
      · simp at h
      · rename_i hne
        simp at h; obtain ⟨rfl, rfl⟩ := h
        simp only [hne, Bool.false_eq_true, ↓reduceIte, List.cons_append]
        rw [identifier_some hid]
  · simp at h; obtain ⟨rfl, rfl⟩ := h; simp

theorem parseBuild_some {s b r : Str} (h : parseBuild s = some (b, r)) :
    s = (if b.isEmpty then [] else '+' :: b) ++ r := by
  unfold parseBuild at h
  split at h
  · rename_i r0
    split at h
    · simp at h
    · rename_i p r1 hid
      split at h
      · simp at h
      · rename_i hne
        simp at h; obtain ⟨rfl, rfl⟩ := h
        simp only [hne, Bool.false_eq_true, ↓reduceIte, List.cons_append]
        rw [identifier_some hid]
  · simp at h; obtain ⟨rfl, rfl⟩ := h; simp

theorem parseTail_some {M m p : Nat} {s : Str} {v : Version} (h : parseTail M m p s = some v) :
    s = tailStr v.pre v.build := by
  unfold parseTail at h
  split at h
  · simp at h
  · rename_i pre s1 hp
    split at h
    · simp at h
    · rename_i build s2 hb
      split at h
      · rename_i he
        simp at h; subst h
        simp only [tailStr]
        have : s2 = [] := by simpa using he
        rw [parsePre_some hp, parseBuild_some hb, this]; simp
      · simp at h

/-- full shape of an accepted version string -/
theorem parseVersion_render {vs : Str} {v : Version} (h : parseVersion vs = some v) :
    ∃ D1 D2 D3, vs = D1 ++ '.' :: (D2 ++ '.' :: (D3 ++ tailStr v.pre v.build)) ∧
      D1 ≠ [] ∧ AllDigits D1 ∧ Canon D1 ∧ digitsVal D1 = v.major ∧
      D2 ≠ [] ∧ AllDigits D2 ∧ Canon D2 ∧ digitsVal D2 = v.minor ∧
      D3 ≠ [] ∧ AllDigits D3 ∧ Canon D3 ∧ digitsVal D3 = v.patch := by
  unfold parseVersion at h
  split at h
  · simp at h
  · rename_i major s1 h1
    split at h
    · simp at h
    · rename_i s2 hd1
      split at h
      · simp at h
      · rename_i minor s3 h2
        split at h
        · simp at h
        · rename_i s4 hd2
          split at h
          · simp at h
          · rename_i patch s5 h3
            obtain ⟨D1, e1, ne1, ad1, c1, v1⟩ := numericIdent_some h1
            obtain ⟨D2, e2, ne2, ad2, c2, v2⟩ := numericIdent_some h2
            obtain ⟨D3, e3, ne3, ad3, c3, v3⟩ := numericIdent_some h3
            have f := parseTail_fields h
            refine ⟨D1, D2, D3, ?_, ne1, ad1, c1, by rw [v1, f.1], ne2, ad2, c2, by rw [v2, f.2.1],
              ne3, ad3, c3, by rw [v3, f.2.2]⟩
            rw [e1, eatDot_some hd1, e2, eatDot_some hd2, e3, parseTail_some h]

theorem parseVersion_inj {a b : Str} {v : Version} (ha : parseVersion a = some v)
    (hb : parseVersion b = some v) : a = b := by
  obtain ⟨A1, A2, A3, ea, an1, aa1, ac1, av1, an2, aa2, ac2, av2, an3, aa3, ac3, av3⟩ := parseVersion_render ha
  obtain ⟨B1, B2, B3, eb, bn1, ba1, bc1, bv1, bn2, ba2, bc2, bv2, bn3, ba3, bc3, bv3⟩ := parseVersion_render hb
  rw [ea, eb,
    canon_inj A1 B1 aa1 ba1 an1 bn1 ac1 bc1 (by rw [av1, bv1]),
    canon_inj A2 B2 aa2 ba2 an2 bn2 ac2 bc2 (by rw [av2, bv2]),
    canon_inj A3 B3 aa3 ba3 an3 bn3 ac3 bc3 (by rw [av3, bv3])]

end Wac

namespace Wac
open Wac.Spec

def Spec.Track.base : Track → Str
  | .major b _ => b
  | .minor b _ => b

theorem trackOf_some {n : Str} {t : Track} (h : trackOf n = some t) :
    ∃ vs v, n = t.base ++ '@' :: vs ∧ parseVersion vs = some v ∧ v.pre = [] ∧ versionOf n = some v := by
  unfold trackOf at h
  unfold versionOf
  cases hr : releaseOf n with
  | none => simp [hr] at h
  | some bv =>
    obtain ⟨base, v⟩ := bv
    simp only [hr] at h
    unfold releaseOf at hr
    cases hs : splitAt_ n with
    | none => simp [hs] at hr
    | some bvs =>
      obtain ⟨b, vs⟩ := bvs
      simp only [hs] at hr
      cases hp : parseVersion vs with
      | none => simp [hp] at hr
      | some v0 =>
        simp only [hp] at hr
        split at hr
        · rename_i hpre
          simp at hr; obtain ⟨rfl, rfl⟩ := hr
          have hname := (splitAt_some hs).1
          have hb : t.base = b := by
            split at h
            · simp at h; subst h; rfl
            · split at h
              · simp at h; subst h; rfl
              · simp at h
          refine ⟨vs, v0, by rw [hb]; exact hname, hp, by simpa using hpre, by simp⟩
        · simp at hr

/-- distinct names of one track never tie in the version order -/
theorem tieFree_always {β : Type} (es : List (Str × β)) : TieFree es := by
  intro e _ e' _ t ht ht' v v' hv hv' hk
  obtain ⟨vs, w, hn, hp, hpre, hw⟩ := trackOf_some ht
  obtain ⟨vs', w', hn', hp', hpre', hw'⟩ := trackOf_some ht'
  rw [hv] at hw; cases hw
  rw [hv'] at hw'; cases hw'
  obtain ⟨k1, k2, k3, k4⟩ := key_inj hk
  have : v = v' := by
    cases v; cases v'; simp_all
  subst this
  rw [hn, hn', parseVersion_inj hp hp']

end Wac
