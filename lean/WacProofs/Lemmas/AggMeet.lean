import WacProofs.Lemmas.AggForest
/-
  C09 general theorems, part 15 (specification side): on the covariant fragment the merge
  `meet a b`, when it exists, is the GREATEST common subtype (`meet_greatest`, complementing
  `meet_lower_bound`) and has distinct names (`meet_nd`).
-/
namespace Wac.AggP
open Wac Wac.Spec

theorem nd_of_keysNd_get : ∀ F : Forest, keysNd F = true → (∀ k t, F.get k = some t → t.namesDistinct = true) →
    F.namesDistinct = true
  | .nil, _, _ => rfl
  | .cons n t r, hk, h => by
    simp only [keysNd, Bool.and_eq_true, Bool.not_eq_true'] at hk
    simp only [Forest.namesDistinct, Bool.and_eq_true, Bool.not_eq_true']
    refine ⟨⟨hk.1, h n t (Forest.get_cons_self n t r)⟩, nd_of_keysNd_get r hk.2 ?_⟩
    intro k t' hk'
    have hne : n ≠ k := by
      rintro rfl
      have := Forest.get_hasName hk'
      rw [hk.1] at this; cases this
    exact h k t' (by simpa [Forest.get, hne] using hk')

/-- entries of `meetShared f g` come from entries of `f` -/
theorem meetShared_get_rev {f g h : Forest} (hm : meetShared f g = some h) {k : Str} {m : Tree}
    (hk : h.get k = some m) :
    ∃ t, f.get k = some t ∧ (match g.get k with
      | some u => meet t u = some m
      | none => m = t) := by
  cases hf : f.get k with
  | none => rw [(meetShared_get f g h hm k).1 hf] at hk; cases hk
  | some t =>
    obtain ⟨m', hm', hrel⟩ := (meetShared_get f g h hm k).2 t hf
    rw [hk] at hm'; cases hm'
    exact ⟨t, rfl, hrel⟩

def GreatP (a : Tree) : Prop :=
  ∀ b m x, cov a = true → a.namesDistinct = true → b.namesDistinct = true → x.namesDistinct = true →
    meet a b = some m → sub x a = true → sub x b = true → sub x m = true

def NdP (a : Tree) : Prop :=
  ∀ b m, cov a = true → a.namesDistinct = true → b.namesDistinct = true → meet a b = some m → m.namesDistinct = true

theorem great_eqKind (a : Tree) (h : isEqKind a = true) : GreatP a := by
  intro b m x _ _ _ _ hm hxa _
  rw [meet_eqKind a b h] at hm
  split at hm
  · cases hm; exact hxa
  · cases hm

theorem nd_eqKind (a : Tree) (h : isEqKind a = true) : NdP a := by
  intro b m _ ha _ hm
  rw [meet_eqKind a b h] at hm
  split at hm
  · cases hm; exact ha
  · cases hm

mutual
theorem tree_great : ∀ a : Tree, GreatP a ∧ NdP a
  | .instance ea => by
    constructor
    · intro b m x hc ha hb hx hm hxa hxb
      cases b with
      | «instance» eb =>
        simp only [meet] at hm
        cases hs : meetShared ea eb with
        | none => simp [hs] at hm
        | some f =>
          simp only [hs, Option.some.injEq] at hm
          subst hm
          obtain ⟨XF, rfl⟩ := sub_instance_left_shape hxa
          simp only [Tree.namesDistinct] at ha hb hx
          simp only [cov] at hc
          have hkX := keysNd_of_nd XF hx
          rw [sub_instance_iff_k _ _ hkX] at hxa hxb ⊢
          intro k t hk
          rw [get_appendMissing] at hk
          cases hfk : f.get k with
          | some mm =>
            rw [hfk] at hk
            simp only [Option.orElse_some, Option.some.injEq] at hk
            subst hk
            obtain ⟨ta, hta, hrel⟩ := meetShared_get_rev hs hfk
            obtain ⟨tx, htx, hsa⟩ := hxa k ta hta
            refine ⟨tx, htx, ?_⟩
            cases hg : eb.get k with
            | some tb =>
              rw [hg] at hrel
              obtain ⟨tx', htx', hsb⟩ := hxb k tb hg
              rw [htx] at htx'; cases htx'
              exact (forest_great ea k ta hta).1 tb mm tx (covF_get ea k ta hc hta) (Forest.nd_get ea k ta ha hta)
                (Forest.nd_get eb k tb hb hg) (Forest.nd_get XF k tx hx htx) hrel hsa hsb
            | none =>
              rw [hg] at hrel
              subst hrel
              exact hsa
          | none =>
            rw [hfk] at hk
            exact hxb k t (by simpa using hk)
      | _ => simp [meet] at hm
    · intro b m hc ha hb hm
      cases b with
      | «instance» eb =>
        simp only [meet] at hm
        cases hs : meetShared ea eb with
        | none => simp [hs] at hm
        | some f =>
          simp only [hs, Option.some.injEq] at hm
          subst hm
          simp only [Tree.namesDistinct] at ha hb ⊢
          simp only [cov] at hc
          have hka := keysNd_of_nd ea ha
          have hkb := keysNd_of_nd eb hb
          refine nd_of_keysNd_get _ (keysNd_appendMissing f eb (meetShared_keysNd ea eb f hs hka) hkb) ?_
          intro k t hk
          rw [get_appendMissing] at hk
          cases hfk : f.get k with
          | some mm =>
            rw [hfk] at hk
            simp only [Option.orElse_some, Option.some.injEq] at hk
            subst hk
            obtain ⟨ta, hta, hrel⟩ := meetShared_get_rev hs hfk
            cases hg : eb.get k with
            | some tb =>
              rw [hg] at hrel
              exact (forest_great ea k ta hta).2 tb mm (covF_get ea k ta hc hta) (Forest.nd_get ea k ta ha hta)
                (Forest.nd_get eb k tb hb hg) hrel
            | none =>
              rw [hg] at hrel
              subst hrel
              exact Forest.nd_get ea k _ ha hta
          | none =>
            rw [hfk] at hk
            exact Forest.nd_get eb k t hb (by simpa using hk)
      | _ => simp [meet] at hm
  | .type ta => by
    constructor
    · intro b m x hc ha hb hx hm hxa hxb
      cases b with
      | type tb =>
        simp only [meet] at hm
        obtain ⟨m', hm', rfl⟩ := Option.map_eq_some_iff.1 hm
        cases x with
        | type tx =>
          simp only [Tree.namesDistinct] at ha hb hx
          simp only [cov] at hc
          simp only [sub] at hxa hxb ⊢
          exact (tree_great ta).1 tb m' tx hc ha hb hx hm' hxa hxb
        | _ => simp [sub] at hxa
      | _ => simp [meet] at hm
    · intro b m hc ha hb hm
      cases b with
      | type tb =>
        simp only [meet] at hm
        obtain ⟨m', hm', rfl⟩ := Option.map_eq_some_iff.1 hm
        simp only [Tree.namesDistinct] at ha hb ⊢
        simp only [cov] at hc
        exact (tree_great ta).2 tb m' hc ha hb hm'
      | _ => simp [meet] at hm
  | .component _ _ => ⟨by intro b m x hc; simp [cov] at hc, by intro b m hc; simp [cov] at hc⟩
  | .module _ => ⟨by intro b m x hc; simp [cov] at hc, by intro b m hc; simp [cov] at hc⟩
  | .none => ⟨great_eqKind _ rfl, nd_eqKind _ rfl⟩
  | .prim _ => ⟨great_eqKind _ rfl, nd_eqKind _ rfl⟩
  | .own _ => ⟨great_eqKind _ rfl, nd_eqKind _ rfl⟩
  | .borrow _ => ⟨great_eqKind _ rfl, nd_eqKind _ rfl⟩
  | .tuple _ => ⟨great_eqKind _ rfl, nd_eqKind _ rfl⟩
  | .list _ => ⟨great_eqKind _ rfl, nd_eqKind _ rfl⟩
  | .fixedList _ _ => ⟨great_eqKind _ rfl, nd_eqKind _ rfl⟩
  | .option _ => ⟨great_eqKind _ rfl, nd_eqKind _ rfl⟩
  | .result _ _ => ⟨great_eqKind _ rfl, nd_eqKind _ rfl⟩
  | .variant _ => ⟨great_eqKind _ rfl, nd_eqKind _ rfl⟩
  | .record _ => ⟨great_eqKind _ rfl, nd_eqKind _ rfl⟩
  | .flags _ => ⟨great_eqKind _ rfl, nd_eqKind _ rfl⟩
  | .enum _ => ⟨great_eqKind _ rfl, nd_eqKind _ rfl⟩
  | .stream _ => ⟨great_eqKind _ rfl, nd_eqKind _ rfl⟩
  | .future _ => ⟨great_eqKind _ rfl, nd_eqKind _ rfl⟩
  | .func _ _ _ => ⟨great_eqKind _ rfl, nd_eqKind _ rfl⟩
  | .value _ => ⟨great_eqKind _ rfl, nd_eqKind _ rfl⟩
  | .resource _ => ⟨great_eqKind _ rfl, nd_eqKind _ rfl⟩
termination_by structural a => a
theorem forest_great : ∀ (f : Forest) (k : Str) (t : Tree), f.get k = some t → GreatP t ∧ NdP t
  | .nil, k, t, h => by simp [Forest.get] at h
  | .cons n u r, k, t, h => by
    by_cases hk : n = k
    · subst hk; simp [Forest.get] at h; subst h; exact tree_great u
    · simp [Forest.get, hk] at h; exact forest_great r k t h
termination_by structural f => f
end

/-- **`meet_greatest`**: on the covariant fragment the merge is the greatest common subtype -/
theorem meet_greatest (a b m x : Tree) (hc : cov a = true) (ha : a.namesDistinct = true)
    (hb : b.namesDistinct = true) (hx : x.namesDistinct = true) (hm : meet a b = some m)
    (hxa : sub x a = true) (hxb : sub x b = true) : sub x m = true :=
  (tree_great a).1 b m x hc ha hb hx hm hxa hxb

/-- the merge of trees with distinct names has distinct names -/
theorem meet_nd (a b m : Tree) (hc : cov a = true) (ha : a.namesDistinct = true) (hb : b.namesDistinct = true)
    (hm : meet a b = some m) : m.namesDistinct = true :=
  (tree_great a).2 b m hc ha hb hm

end Wac.AggP
