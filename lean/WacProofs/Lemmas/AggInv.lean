import WacProofs.Lemmas.AggGlobal
/-
  C09 general theorems, part 10: `GInv`, the invariant of `aggregateAll` on lists of flat instance
  requirements from separate collections: `TInv` with `canonical_import_name` as class assignment
  plus the name-level invariant `NInv`; one `aggregate` call keeps it (`ginv_step`), the empty
  aggregator satisfies it (`ginv_empty`).
-/
namespace Wac.AggP
open Wac Wac.Spec

structure GInv (W : Colls) (seen : List (Req × Forest)) (s : AggState) : Prop where
  tinv : TInv W seen (canon s.agg.redirects) s
  ninv : NInv s.agg.imports s.agg.redirects (seen.map (·.1.1))

theorem amGet_of_mem_nodup {β : Type} : ∀ (m : List (Str × β)) (k : Str) (v : β), (m.map (·.1)).Nodup →
    (k, v) ∈ m → amGet m k = some v
  | [], _, _, _, h => by cases h
  | (k', v') :: r, k, v, hn, h => by
    simp only [List.map_cons, List.nodup_cons] at hn
    rcases List.mem_cons.1 h with h | h
    · cases h; simp [amGet]
    · have hne : k' ≠ k := by
        rintro rfl
        exact hn.1 (List.mem_map.2 ⟨(k', v), h, rfl⟩)
      have : (k' == k) = false := by simpa using hne
      simp only [amGet, this, Bool.false_eq_true, ↓reduceIte]
      exact amGet_of_mem_nodup r k v hn.2 h

theorem ginv_empty (W : Colls) (hfresh : ∀ C, W.mem C → C.uid ≠ 0) : GInv W [] Agg.empty := by
  refine ⟨⟨⟨⟨?_, ?_, ?_⟩, cinv_nil W _ hfresh, rfl⟩, ?_, ?_, ?_, ?_, ?_, ?_, ?_⟩, ninv_empty⟩
  · intro C _
    refine ⟨?_, ?_⟩
    · intro d v' h; cases h
    · intro f f' h; cases h
  · intro d hd; simp [Agg.empty] at hd
  · refine ⟨?_, ?_⟩
    · intro uid d ty h; cases h
    · intro uid f ty h; cases h
  · intro n k h; cases h
  · intro n1 n2 e h; cases h
  · intro g _ h; cases h
  · intro p h; cases h
  · intro p h; cases h
  · rintro n F ⟨e, ti, h, _⟩; cases h
  · rintro n F ⟨e, ti, h, _⟩; cases h

/-- **one `aggregate` call keeps the invariant** -/
theorem ginv_step {W : Colls} {seen : List (Req × Forest)} {s s' : AggState} (hG : GInv W seen s)
    {r : Req} {G : Forest} (hr : FlatReq r G) (hW : W.mem r.2.1)
    (hfresh : r.1 ∉ seen.map (·.1.1) → ∀ p, p ∈ seen → p.1.2.1.uid ≠ r.2.1.uid)
    (h : aggregate r.1 r.2.1 r.2.2 s = .ok ((), s')) : GInv W ((r, G) :: seen) s' ∧ s'.cfg = s.cfg := by
  obtain ⟨name, types, kind⟩ := r
  simp only at hr hW hfresh h
  unfold aggregate at h
  simp only [bind_ok, run_getAgg, Except.ok.injEq, Prod.mk.injEq] at h
  obtain ⟨_, _, ⟨rfl, rfl⟩, h⟩ := h
  have hT := hG.tinv
  have hN := hG.ninv
  cases hg : amGet s.agg.imports name with
  | some existing =>
    -- the name is imported already
    rw [hg] at h
    have hself : canon s.agg.redirects name = name := hN.canon_self (by rw [hg]; rfl)
    obtain ⟨hT1, hi, hrd, hcf⟩ := hT.merge (r := (name, types, kind)) hr hW hg h (cls' := canon s.agg.redirects) hself
      (fun _ _ => rfl)
    refine ⟨⟨by rw [hrd]; exact hT1, ?_⟩, hcf⟩
    rw [hi, hrd]
    exact hN.exact (by rw [hg]; rfl)
  | none =>
    rw [hg] at h
    simp only [findSemverImport_eq] at h
    cases hf : findSemver s.agg.imports name with
    | none =>
      -- a new import
      rw [hf] at h
      simp only [bind_ok, run_getAgg, Except.ok.injEq, Prod.mk.injEq] at h
      obtain ⟨k', s1, hrm, _, _, ⟨rfl, rfl⟩, h⟩ := h
      have hN' := hN.fresh k' hg hf
      -- the name has not been seen: otherwise it would be imported or redirected to its track's import
      have hunseen : name ∉ seen.map (·.1.1) := by
        intro hs
        rcases hN.seen name hs with h1 | h1
        · rw [hg] at h1; cases h1
        · obtain ⟨b, hb⟩ := Option.isSome_iff_exists.1 h1
          obtain ⟨_, hbi, k0, va, vb, hka, hkb, _⟩ := hN.red name b hb
          obtain ⟨x, hx⟩ := Option.isSome_iff_exists.1 hbi
          exact findSemver_none hf hka (b, x) (amGet_mem _ _ _ hx) vb hkb
      have hfresh := hfresh hunseen
      have hself : canon s.agg.redirects name = name := hN'.canon_self (by rw [AggP.amGet_amInsert]; simp)
      obtain ⟨hT1, hi, hrd, hcf⟩ := hT.fresh (r := (name, types, kind)) hr hW hfresh hg hrm (cls' := canon s.agg.redirects) hself
        (fun _ _ => rfl)
      rw [hi, hg] at h
      simp only [Option.isSome_none, Bool.false_eq_true, ↓reduceIte, run_modifyAgg, Except.ok.injEq, Prod.mk.injEq,
        true_and] at h
      subst h
      refine ⟨⟨?_, ?_⟩, hcf⟩
      · have : (addImport s1 name k').agg.redirects = s.agg.redirects := hrd
        rw [show ({ s1 with agg := { s1.agg with imports := amInsert s1.agg.imports name k' } } : AggState) =
          addImport s1 name k' from rfl, this]
        exact hT1
      · show NInv (amInsert s1.agg.imports name k') s1.agg.redirects _
        rw [hi, hrd]; exact hN'
    | some p =>
      obtain ⟨exName, exKind⟩ := p
      rw [hf] at h
      simp only [bind_ok] at h
      obtain ⟨_, s1, hm, h⟩ := h
      obtain ⟨hmem, k, vn, vex, hkn, hke⟩ := findSemver_some hf
      have hex : amGet s.agg.imports exName = some exKind := amGet_of_mem_nodup _ _ _ hN.nodup hmem
      have hexs : (amGet s.agg.imports exName).isSome = true := by rw [hex]; rfl
      -- class assignment after the merge: the new name belongs to the existing import
      obtain ⟨hT1, hi, hrd, hcf⟩ := hT.merge (r := (name, types, kind)) hr hW hex hm
        (cls' := fun n => if n = name then exName else canon s.agg.redirects n) (by simp)
        (by
          intro p hp
          by_cases hpn : p.1.1 = name
          · simp only [hpn, ↓reduceIte]
            exact (hN.seen_canon (by rw [← hpn]; exact List.mem_map.2 ⟨p, hp, rfl⟩) hg hexs hkn hke).symm
          · simp only [hpn, ↓reduceIte])
      rw [hkn, hke] at h
      simp only at h
      by_cases hlt : vex.lt vn = true
      · -- rename
        simp only [hlt, ↓reduceIte, run_modifyAgg, Except.ok.injEq, Prod.mk.injEq, true_and] at h
        have hex1 : amGet s1.agg.imports exName = some exKind := by rw [hi]; exact hex
        rw [hex1] at h
        simp only at h
        subst h
        have hnokey := hN.rename_nokey hexs hkn hke hlt
        have hnot_seen : ∀ p, p ∈ seen → p.1.1 ≠ name := by
          intro p hp hpn
          rcases hN.seen name (by rw [← hpn]; exact List.mem_map.2 ⟨p, hp, rfl⟩) with h1 | h1
          · rw [hg] at h1; cases h1
          · rw [hnokey] at h1; cases h1
        refine ⟨⟨?_, ?_⟩, hcf⟩
        · have := hT1.rename (name := name) (exName := exName) (m := exKind) (by rw [hi]; exact hex) (by rw [hi]; exact hg)
            (amInsert (repoint s1.agg.redirects exName name) exName name)
            (cls' := canon (amInsert (repoint s1.agg.redirects exName name) exName name))
            (by
              intro p hp
              rw [canon_rename, hrd]
              rcases List.mem_cons.1 hp with rfl | hp
              · -- the new requirement
                simp only [↓reduceIte]
                have e1 : (exName == name) = false := by
                  rw [Bool.eq_false_iff]; intro hc
                  have : exName = name := by simpa using hc
                  rw [this, hg] at hexs; cases hexs
                have e2 : canon s.agg.redirects name = name := by unfold canon; rw [hnokey]; rfl
                rw [e1, e2]
                have e3 : (name == exName) = false := by
                  rw [Bool.eq_false_iff]; intro hc
                  have : name = exName := by simpa using hc
                  rw [← this, hg] at hexs; cases hexs
                simp [e3]
              · have hpn := hnot_seen p hp
                simp only [hpn, ↓reduceIte]
                by_cases a1 : exName = p.1.1
                · have : canon s.agg.redirects p.1.1 = exName := by rw [← a1]; exact hN.canon_self hexs
                  simp [a1, this]
                · have a1' : (exName == p.1.1) = false := by simpa using a1
                  rw [a1']
                  simp only [Bool.false_eq_true, ↓reduceIte, beq_iff_eq]
                  by_cases a2 : canon s.agg.redirects p.1.1 = exName
                  · simp only [a2, ↓reduceIte]
                    cases hr' : amGet s.agg.redirects p.1.1 with
                    | some b => rfl
                    | none =>
                      exfalso
                      unfold canon at a2; rw [hr'] at a2
                      exact a1 a2.symm
                  · simp only [a2, ↓reduceIte])
          exact this
        · show NInv (alRemove s1.agg.imports exName ++ [(name, exKind)])
            (amInsert (List.map (fun e => if (e.snd == exName) = true then (e.fst, name) else e) s1.agg.redirects) exName name) _
          rw [hi, hrd]
          exact hN.rename hg hex hkn hke hlt
      · -- redirect
        simp only [hlt, Bool.false_eq_true, ↓reduceIte, run_modifyAgg, Except.ok.injEq, Prod.mk.injEq, true_and] at h
        subst h
        refine ⟨⟨?_, ?_⟩, hcf⟩
        · have := (hT1.set_redirects (amInsert s1.agg.redirects name exName)).congr
            (cls' := canon (amInsert s1.agg.redirects name exName))
            (by
              intro p _
              rw [canon_redirect, hrd]
              by_cases a : name = p.1.1
              · simp [a]
              · have a' : (name == p.1.1) = false := by simpa using a
                have : ¬ p.1.1 = name := fun e => a e.symm
                simp [a', this])
          exact this
        · show NInv s1.agg.imports (amInsert s1.agg.redirects name exName) _
          rw [hi, hrd]
          exact hN.redirect hg hexs hkn hke hlt

end Wac.AggP
