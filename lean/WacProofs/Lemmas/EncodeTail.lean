import WacProofs.Lemmas.EncodeNodes
/-
  The exports loop and `encode_names`: what they add to the wiring is what the specification
  reads off the export map and the node names.
-/
namespace Wac
open Wac.Spec

/-- every recorded node index has the node's designated provenance -/
def NodesOk (g : GraphVal) (ss : SpecSt) (st : EncSt) : Prop :=
  ∀ n idx, natGet st.nodeIdx n = some idx → Has (G st) (kindOf g n) idx (ss.term n)

theorem NodesOk.ext {g : GraphVal} {ss : SpecSt} {st st' : EncSt} (h : NodesOk g ss st)
    (he : Ext (G st) (G st')) (hn : st'.nodeIdx = st.nodeIdx) : NodesOk g ss st' := by
  intro n idx hq
  rw [hn] at hq
  exact he _ _ _ (h n idx hq)

theorem encExports_spec {g : GraphVal} {ss : SpecSt} (exps : List (Str × Nat)) {st st' : EncSt}
    (hdn : ∀ e ∈ exps, ∀ n, g.node? e.2 = some n → n.isDefinition = true → n.exportName = some e.1)
    (hs : Sync st) (hn : NodesOk g ss st) (he : encExports g exps st = .ok st') :
    Sync st' ∧ Ext (G st) (G st') ∧ st'.nodeIdx = st.nodeIdx ∧
      (G st').w = { (G st).w with exports := (G st).w.exports ++ exps.filterMap (specExport1 g ss) } := by
  induction exps generalizing st with
  | nil =>
    simp only [encExports] at he
    injection he with he
    subst he
    exact ⟨hs, Ext.refl _, rfl, by simp⟩
  | cons e rest ih =>
    obtain ⟨name, id⟩ := e
    simp only [encExports] at he
    cases hnode : g.node? id with
    | none => simp [hnode] at he
    | some n =>
      simp only [hnode] at he
      have hdn' : ∀ e ∈ rest, ∀ n, g.node? e.2 = some n → n.isDefinition = true → n.exportName = some e.1 :=
        fun e he' => hdn e (List.mem_cons_of_mem _ he')
      by_cases hd : n.isDefinition = true
      · have hdef : n.isDefinition = true ∧ n.exportName = some name :=
          ⟨hd, hdn (name, id) (List.mem_cons_self ..) n hnode hd⟩
        simp only [hd, ↓reduceIte] at he
        have := ih hdn' hs hn he
        refine ⟨this.1, this.2.1, this.2.2.1, ?_⟩
        rw [this.2.2.2]
        simp [List.filterMap_cons, specExport1, hnode, hdef]
      · have hdef : ¬ (n.isDefinition = true ∧ n.exportName = some name) := fun h => hd h.1
        simp only [hd, Bool.false_eq_true, ↓reduceIte] at he
        cases hq : natGet st.nodeIdx id with
        | none => simp [hq] at he
        | some idx =>
          simp only [hq] at he
          have hH := hn id idx hq
          rw [kindOf_of_node? hnode] at hH
          have hs1 := emit_sync hs (.export name n.ty.kind idx)
          have hext := emit_ext st (.export name n.ty.kind idx)
          have hn1 : NodesOk g ss (st.emit (.export name n.ty.kind idx)).1 :=
            hn.ext hext (emit_nodeIdx _ _)
          have := ih hdn' hs1 hn1 he
          refine ⟨this.1, hext.trans this.2.1, by rw [this.2.2.1, emit_nodeIdx], ?_⟩
          rw [this.2.2.2, emit_w, wstep_export_w, hH.2]
          simp [List.filterMap_cons, specExport1, hnode, hdef]

theorem nameEntries_spec {g : GraphVal} {ss : SpecSt} {st : EncSt} (hn : NodesOk g ss st) (k : Kind)
    (nodes : List Node) (hsub : ∀ n ∈ nodes, g.node? n.id = some n ∨ kindOf g n.id = n.ty.kind)
    (l : List (Kind × Nat × Str)) (he : nameEntries st k nodes = .ok l) :
    l.map (fun (e : Kind × Nat × Str) => (e.1, (G st).look e.1 e.2.1, e.2.2)) = nodes.filterMap (specName1 ss k) := by
  induction nodes generalizing l with
  | nil =>
    simp only [nameEntries] at he
    injection he with he
    subst he
    rfl
  | cons n rest ih =>
    have hsub' : ∀ m ∈ rest, g.node? m.id = some m ∨ kindOf g m.id = m.ty.kind :=
      fun m hm => hsub m (List.mem_cons_of_mem _ hm)
    simp only [nameEntries] at he
    cases hnm : n.name with
    | none =>
      simp only [hnm] at he
      rw [ih hsub' l he]
      simp [List.filterMap_cons, specName1, hnm]
    | some nm =>
      simp only [hnm] at he
      by_cases hk : n.ty.kind = k
      · simp only [hk, ne_eq, not_true_eq_false, ↓reduceIte] at he
        cases hq : natGet st.nodeIdx n.id with
        | none => simp [hq] at he
        | some idx =>
          simp only [hq] at he
          cases hr : nameEntries st k rest with
          | error e => simp [hr] at he
          | panic s => simp [hr] at he
          | ok l' =>
            simp only [hr] at he
            injection he with he
            subst he
            have hH := hn n.id idx hq
            have hkind : kindOf g n.id = k := by
              rcases hsub n (List.mem_cons_self ..) with h1 | h1
              · rw [kindOf_of_node? h1, hk]
              · rw [h1, hk]
            rw [hkind] at hH
            simp [List.filterMap_cons, specName1, hnm, hk, hH.2, ih hsub' l' hr]
      · simp only [ne_eq, hk, not_false_eq_true, ↓reduceIte] at he
        rw [ih hsub' l he]
        simp [List.filterMap_cons, specName1, hnm, hk]

theorem allNameEntries_spec {g : GraphVal} {ss : SpecSt} {st : EncSt} (hn : NodesOk g ss st)
    (nodes : List Node) (hsub : ∀ n ∈ nodes, g.node? n.id = some n ∨ kindOf g n.id = n.ty.kind)
    (ks : List Kind) (l : List (Kind × Nat × Str)) (he : allNameEntries st nodes ks = .ok l) :
    l.map (fun (e : Kind × Nat × Str) => (e.1, (G st).look e.1 e.2.1, e.2.2)) =
      ks.flatMap fun k => nodes.filterMap (specName1 ss k) := by
  induction ks generalizing l with
  | nil =>
    simp only [allNameEntries] at he
    injection he with he
    subst he
    rfl
  | cons k ks ih =>
    simp only [allNameEntries] at he
    cases h1 : nameEntries st k nodes with
    | error e => simp [h1] at he
    | panic s => simp [h1] at he
    | ok l1 =>
      simp only [h1] at he
      cases h2 : allNameEntries st nodes ks with
      | error e => simp [h2] at he
      | panic s => simp [h2] at he
      | ok l2 =>
        simp only [h2] at he
        injection he with he
        subst he
        simp [List.flatMap_cons, nameEntries_spec hn k nodes hsub l1 h1, ih l2 h2]

/-- every node of the graph is found by its index (node indices are distinct) -/
theorem find?_of_mem_nodup (l : List Node) (hnd : (l.map (·.id)).Nodup) {n : Node} (h : n ∈ l) :
    l.find? (·.id == n.id) = some n := by
  induction l with
  | nil => simp at h
  | cons m ms ih =>
    simp only [List.map_cons, List.nodup_cons] at hnd
    rcases List.mem_cons.mp h with e | e
    · subst e; simp
    · have hne : m.id ≠ n.id := fun eq => hnd.1 (eq ▸ List.mem_map_of_mem e)
      have : (m.id == n.id) = false := by simpa using hne
      rw [List.find?_cons, this]
      exact ih hnd.2 e

theorem node?_of_mem {g : GraphVal} (hnd : g.ids.Nodup) {n : Node} (h : n ∈ g.nodes) : g.node? n.id = some n :=
  find?_of_mem_nodup g.nodes hnd h

theorem encNames_spec {g : GraphVal} {ss : SpecSt} {st st' : EncSt} (wf : WF g)
    (hs : Sync st) (hn : NodesOk g ss st) (he : encNames g st = .ok st') :
    (G st').w = { (G st).w with names := (G st).w.names ++ specNames g ss } := by
  unfold encNames at he
  have hsub : ∀ n ∈ g.nodes, g.node? n.id = some n ∨ kindOf g n.id = n.ty.kind :=
    fun n hm => Or.inl (node?_of_mem wf.idsNodup hm)
  cases hall : allNameEntries st g.nodes [.type, .func, .instance, .component, .module, .value] with
  | error e => simp [hall] at he
  | panic s => simp [hall] at he
  | ok es =>
    have hspec := allNameEntries_spec hn g.nodes hsub _ es hall
    cases es with
    | nil =>
      simp only [hall] at he
      injection he with he
      subst he
      have : specNames g ss = [] := by
        unfold specNames
        rw [← hspec]; rfl
      simp [this]
    | cons e es =>
      simp only [hall] at he
      injection he with he
      rw [← he, emit_w, wstep_names_w]
      have : specNames g ss = (e :: es).map (fun (e : Kind × Nat × Str) => (e.1, (G st).look e.1 e.2.1, e.2.2)) := by
        unfold specNames
        rw [hspec]
      rw [this]

end Wac
