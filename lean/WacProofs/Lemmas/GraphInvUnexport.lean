import WacProofs.Lemmas.GraphInvExport
/-
  `unexport` preserves `Inv` (repaired code: every export name of the node goes).
-/
namespace Wac.Graph
open Wac Wac.HashSites

/-- the export map after `swap_remove(name)` followed by `retain(|_, x| x != n)` -/
def dropped (m : List (Str × Nat)) (name : Str) (n : Nat) : List (Str × Nat) :=
  (alSwapRemove m name).filter (fun e => e.2 != n)

theorem dropExportsOf_fixed (m : List (Str × Nat)) (n : Nat) :
    dropExportsOf .fixed m n = m.filter (fun e => e.2 != n) := rfl

theorem dropped_mem {m : List (Str × Nat)} (nd : (m.map (·.1)).Nodup) (name : Str) (n : Nat) (e : Str × Nat) :
    e ∈ dropped m name n ↔ e ∈ m ∧ e.1 ≠ name ∧ e.2 ≠ n := by
  unfold dropped
  rw [List.mem_filter, (alSwapRemove_perm m name).mem_iff, alErase_mem nd]
  simp only [bne_iff_ne, ne_eq, and_assoc]

theorem dropped_keys_nodup {m : List (Str × Nat)} (nd : (m.map (·.1)).Nodup) (name : Str) (n : Nat) :
    ((dropped m name n).map (·.1)).Nodup := by
  unfold dropped
  have h1 : ((alErase m name).map (·.1)).Nodup := ((alErase_sublist m name).map _).nodup nd
  have h2 : ((alSwapRemove m name).map (·.1)).Nodup := (((alSwapRemove_perm m name).map (·.1)).nodup_iff).mpr h1
  exact (List.Sublist.map _ List.filter_sublist).nodup h2

theorem dropped_get {m : List (Str × Nat)} (nd : (m.map (·.1)).Nodup) {name : Str} {n : Nat} {k : Str} {v : Nat}
    (h : alGet m k = some v) (hk : k ≠ name) (hv : v ≠ n) : alGet (dropped m name n) k = some v := by
  have hm : (k, v) ∈ dropped m name n := (dropped_mem nd name n (k, v)).mpr ⟨alGet_eq_some_mem h, hk, hv⟩
  exact alGet_of_mem _ (dropped_keys_nodup nd name n) (k, v) hm

/-- `unexport`, the case that changes the graph, on field equalities -/
theorem inv_unexport_core {ctx : Ctx} {g g' : Graph} {n : Nat} {name : Str} {nd nd' : Node}
    (h : Inv ctx g) (hnd : g.node? n = some nd) (hdef : nd.isDef = false) (hexp : nd.exp = some name)
    (hsim : NodeSim nd nd') (hexp' : nd'.exp = none)
    (hn : g'.nodes = g.nodes.set n (some nd')) (hfn : g'.freeNodes = g.freeNodes) (he : g'.edges = g.edges)
    (him : g'.imports = g.imports) (hde : g'.defined = g.defined)
    (hex : g'.exports = dropped g.exports name n)
    (hp : g'.pkgs = g.pkgs) (hm : g'.pkgMap = g.pkgMap) (hfp : g'.freePkgs = g.freePkgs) : Inv ctx g' := by
  obtain ⟨hfree, hnode⟩ := freeInv_of_set h.free hnd hn hfn
  have r : Replaced g g' n nd nd' := ⟨hnd, hnode, hsim⟩
  have pk := pkgPart_congr h hp hm hfp
  have hnok := h.node hnd
  have hname : alGet g.exports name = some n := hnok.2.2 name (by rw [hexp]; rfl)
  apply Inv.build
  · intro e hem; rw [he] at hem; exact r.edgeOk hp (h.edges e hem)
  · rw [he]; exact h.argUnique
  · intro m x' hx'
    rcases r.bwd hx' with ⟨rfl, rfl⟩ | ⟨hm', hx⟩
    · obtain ⟨h1, h2, _⟩ := hnok
      refine ⟨?_, ?_, ?_⟩
      · intro pid hpid
        rw [hsim.2.1] at hpid
        rw [pkgLive_congr hp]; exact h1 pid hpid
      · rw [hsim.1]
        cases hk : nd.kind with
        | instantiation sat =>
          rw [hk] at h2
          simp only at h2 ⊢
          rw [he, hsim.2.1, hsim.2.2]
          obtain ⟨a, b, pid, hpid, pd, hpd, hit⟩ := h2
          exact ⟨a, b, pid, hpid, pd, by rw [pkgOf_congr hp]; exact hpd, hit⟩
        | alias =>
          rw [hk] at h2
          simp only at h2 ⊢
          unfold Graph.inEdges at h2 ⊢
          rw [he]; exact h2
        | «import» nm =>
          rw [hk] at h2
          simp only at h2 ⊢
          rw [him]; exact h2
        | definition ty => simp [Node.isDef, hk] at hdef
      · rw [hexp']; intro nm hnm; cases hnm
    · refine (h.node hx).mono (NodeSim.refl _) rfl hp (fun e hem => by rw [he]; exact hem)
        (fun _ => by unfold Graph.inEdges; rw [he]) (fun k hk => by rw [him]; exact hk)
        (fun k hk => by rw [hde]; exact hk) ?_
      intro k hk
      rw [hex]
      have hkn : k ≠ name := fun e => by
        rw [e, hname] at hk
        exact hm' (Option.some.inj hk).symm
      exact dropped_get h.exportsKeys hk hkn hm'
  · rw [hex]; exact dropped_keys_nodup h.exportsKeys name n
  · intro e hem
    rw [hex] at hem
    obtain ⟨hem', _, hne⟩ := (dropped_mem h.exportsKeys name n e).mp hem
    obtain ⟨x, hx, hxe⟩ := h.exportsLive' e hem'
    obtain ⟨x', a, _, c, _⟩ := r.fwd hx
    exact ⟨x', a, by rw [c hne]; exact hxe⟩
  · rw [him]; exact h.importsKeys
  · intro e hem; rw [him] at hem
    obtain ⟨x, hx, hxe⟩ := h.importsLive' e hem
    obtain ⟨x', a, b, _⟩ := r.fwd hx
    exact ⟨x', a, by rw [b.1]; exact hxe⟩
  · rw [hde]; exact h.definedKeys
  · intro e hem; rw [hde] at hem
    obtain ⟨x, hx, hxe⟩ := h.definedLive' e hem
    obtain ⟨x', a, b, _⟩ := r.fwd hx
    exact ⟨x', a, by rw [b.1]; exact hxe⟩
  · exact pk.1
  · exact pk.2.1
  · exact pk.2.2.1
  · exact pk.2.2.2.1
  · exact pk.2.2.2.2
  · exact hfree

theorem inv_unexport {ctx : Ctx} {g g' : Graph} {n : Nat} {out : Outcome}
    (h : Inv ctx g) (hs : unexport .fixed g n = (g', out)) : Inv ctx g' := by
  unfold unexport at hs
  split at hs
  · simp only [Prod.mk.injEq] at hs; rw [← hs.1]; exact h
  · rename_i nd hnd
    split at hs
    · simp only [Prod.mk.injEq] at hs; rw [← hs.1]; exact h
    · rename_i hk
      have hdef : nd.isDef = false := by
        unfold Node.isDef
        split
        · rename_i ty hk'; exact absurd hk' (hk ty)
        · rfl
      split at hs
      · simp only [Prod.mk.injEq] at hs; rw [← hs.1]; exact h
      · rename_i name hexp
        split at hs
        · simp only [Prod.mk.injEq] at hs; rw [← hs.1]; exact h
        · simp only [Prod.mk.injEq] at hs
          rw [← hs.1]
          exact inv_unexport_core (nd' := { nd with exp := none }) h hnd hdef hexp ⟨rfl, rfl, rfl⟩ rfl
            rfl rfl rfl rfl rfl rfl rfl rfl rfl

end Wac.Graph
