import WacProofs.Lemmas.ElabItem
/-
  C05 `elab_denotes`, part 5: `item_type_decl` for value types and function items.
-/
namespace Wac.Elab
open Wac Wac.Spec.Wit Wac.Decode

variable {ρ : Nat → Res}

/-- the result of elaborating one item against its denotation -/
structure ItemOk (ρ : Nat → Res) (st' : St) (externs externs' : List (Str × ItemKind)) (s' : Scope)
    (out : List (Str × Tree)) : Prop where
  sim : Sim ρ st'.types st'.scope s'.binds
  exp : ∃ ks, externs' = externs ++ ks ∧ ExpRel ρ st'.types ks out

/-- allocate the defined type `d`, register `n`, export it -/
theorem declare_ok {st1 st' : St} {n : Str} {d : DefinedType} {externs externs' : List (Str × ItemKind)}
    {s : Scope} {t : Tree}
    (h : (match register (Elab.addDefined st1 d).1 n (.ty (.value (.defined (Elab.addDefined st1 d).2))) with
          | .ok st => Except.ok (st, alInsert externs n (.type (.value (.defined (Elab.addDefined st1 d).2))))
          | .error e => .error e : M (St × List (Str × ItemKind))) = .ok (st', externs'))
    (hsim : Sim ρ st1.types st1.scope s.binds)
    (hd : ∀ T' F, Ext [] [] st1.types T' → vb st1.types ≤ F →
      unfoldDefined (Types.unfoldVT T' F) d = some (renT ρ t))
    (hfresh : alGet externs n = none) :
    Grow st1.types st'.types ∧ st'.root = st1.root ∧
    ItemOk ρ st' externs externs' ({ s with binds := s.binds ++ [(n, .val t)] } : Scope) [(n, .type t)] := by
  split at h
  · rename_i st3 hreg
    cases h
    have hv := HV_new (st := st1) (d := d) hd
    have hsim2 : Sim ρ (Elab.addDefined st1 d).1.types (Elab.addDefined st1 d).1.scope s.binds :=
      hsim.mono (Grow.addDefined st1 d)
    obtain ⟨ht, hr, hs, hins, hexp⟩ := valueDecl_ok hreg hsim2 hv hfresh
    refine ⟨?_, hr, hs, _, hins, hexp⟩
    rw [ht]
    exact Grow.addDefined st1 d
  · cases h

theorem unfoldNamedOpt_all2 {T' : Types} {F : Nat} :
    ∀ {vs : List (Str × Option ValueType)} {l : List (Str × Tree)},
      All2 (fun v t => v.1 = t.1 ∧ unfoldOpt (Types.unfoldVT T' F) v.2 = some (renT ρ t.2)) vs l →
      unfoldNamedOpt (Types.unfoldVT T' F) vs = some (renF ρ (Forest.ofList l))
  | [], [], _ => rfl
  | (n, v) :: vs, (n', t) :: l, ⟨⟨hn, h1⟩, h2⟩ => by
    simp only at hn h1
    subst hn
    simp only [unfoldNamedOpt, h1, unfoldNamedOpt_all2 h2, Forest.ofList, renF]
  | [], _ :: _, hf => hf.elim
  | _ :: _, [], hf => hf.elim

/-- the denotation of the cases of a variant, case by case -/
def casesL (s : Scope) (cs : List (Str × Option WTy)) : Option (List (Str × Tree)) :=
  cs.mapM fun (ct : Str × Option WTy) =>
    match ct.2 with
    | none => some (ct.1, Tree.none)
    | some t => (tyTree s 64 t).map fun t => (ct.1, t)

theorem variantGo_ok :
    ∀ (cs : List (Str × Option WTy)) (st st' : St) (acc out : List (Str × Option ValueType)),
      itemTypeDecl.go st acc cs = .ok (st', out) →
      Grow st.types st'.types ∧ st'.scope = st.scope ∧ st'.root = st.root ∧
      ∃ rest, out = acc ++ rest ∧
        ∀ (s : Scope), Sim ρ st.types st.scope s.binds → ∀ l, casesL s cs = some l →
          All2 (fun (v : Str × Option ValueType) (t : Str × Tree) => v.1 = t.1 ∧
            ∀ T' F, Ext [] [] st'.types T' → vb st'.types ≤ F →
              unfoldOpt (Types.unfoldVT T' F) v.2 = some (renT ρ t.2)) rest l := by
  intro cs
  induction cs with
  | nil =>
    intro st st' acc out h
    simp only [itemTypeDecl.go] at h
    cases h
    refine ⟨Grow.refl _, rfl, rfl, [], by simp, ?_⟩
    intro s _ l hl
    simp only [casesL, List.mapM_nil] at hl
    cases hl
    trivial
  | cons x cs ih =>
    intro st st' acc out h
    obtain ⟨c, o⟩ := x
    cases o with
    | none =>
      simp only [itemTypeDecl.go] at h
      split at h
      · cases h
      · obtain ⟨g2, sc2, rt2, rest, hrest, k2⟩ := ih _ _ _ _ h
        refine ⟨g2, sc2, rt2, (c, none) :: rest, by simp [hrest], ?_⟩
        intro s hsim l hl
        simp only [casesL, List.mapM_cons, Option.pure_def, Option.bind_eq_bind] at hl
        obtain ⟨y, hy, hl⟩ := Option.bind_eq_some_iff.mp hl
        obtain ⟨l', hl', hl⟩ := Option.bind_eq_some_iff.mp hl
        cases hl
        cases hy
        exact ⟨⟨rfl, fun _ _ _ _ => rfl⟩, k2 s hsim l' hl'⟩
    | some t =>
      simp only [itemTypeDecl.go] at h
      split at h
      · rename_i st1 v hv
        split at h
        · cases h
        · have k1 := ty_ok (ρ := ρ) _ _ _ _ _ hv
          obtain ⟨g2, sc2, rt2, rest, hrest, k2⟩ := ih _ _ _ _ h
          have g1 := (k1 default 0).grow
          have sc1 := (k1 default 0).scope
          have rt1 := (k1 default 0).root
          refine ⟨g1.trans g2, sc2.trans sc1, rt2.trans rt1, (c, some v) :: rest, by simp [hrest], ?_⟩
          intro s hsim l hl
          simp only [casesL, List.mapM_cons, Option.pure_def, Option.bind_eq_bind] at hl
          obtain ⟨y, hy, hl⟩ := Option.bind_eq_some_iff.mp hl
          obtain ⟨l', hl', hl⟩ := Option.bind_eq_some_iff.mp hl
          cases hl
          obtain ⟨t1, ht1, rfl⟩ := Option.map_eq_some_iff.mp hy
          have hsim1 : Sim ρ st1.types st1.scope s.binds := by rw [sc1]; exact hsim.mono g1
          refine ⟨⟨rfl, ?_⟩, k2 s hsim1 l' hl'⟩
          intro T' F he hF
          exact (k1 s 64).tree hsim t1 ht1 T' F (g2.ext.trans he) (by have := g2.size; unfold vb at hF ⊢; omega)
      · cases h

/-- the owner recorded for an alias of resource `r`: the owner of `r` itself -/
def aliasOwner (st : St) (r : Nat) : Option Nat :=
  match st.types.resources[r]? with
  | some res => res.alias.bind (·.owner)
  | none => none

/-- the value type an alias declaration names (specification side) -/
def aliasTree (s : Scope) : WTy → Option Tree
  | .id m => match s.get m with
    | some (.val t) => some t
    | _ => none
  | t => tyTree s 64 t

/-- the two ways `type_alias` succeeds: an alias of a resource, or an alias of a value type -/
theorem typeAlias_cases {st st3 : St} {n : Str} {t : WTy} {ty3 : Ty} (h : typeAlias st n t = .ok (st3, ty3)) :
    (∃ m r, t = .id m ∧ alGet st.scope m = some (.ty (.resource r))) ∨
    (∃ st1 v, Grow st.types st1.types ∧ st1.scope = st.scope ∧ st1.root = st.root ∧
      (∀ s : Scope, Sim ρ st.types st.scope s.binds → ∀ tt, aliasTree s t = some tt →
        HV [] [] st1.types (vb st1.types) v (renT ρ tt)) ∧
      register (Elab.addDefined st1 (.alias v)).1 n (.ty (.value (.defined (Elab.addDefined st1 (.alias v)).2))) = .ok st3 ∧
      ty3 = .value (.defined (Elab.addDefined st1 (.alias v)).2) ∧
      (∀ m, t = .id m → ∃ v', alGet st.scope m = some (.ty (.value v')))) := by
  cases t
  case id m =>
    simp only [typeAlias, localItem] at h
    cases hs : alGet st.scope m with
    | none => simp [hs] at h
    | some bd =>
      rw [hs] at h
      simp only at h
      split at h
      · rename_i r heq
        cases heq
        exact Or.inl ⟨m, r, rfl, hs⟩
      · rename_i v heq
        cases heq
        split at h
        · rename_i st3' hreg
          cases h
          refine Or.inr ⟨st, v, Grow.refl _, rfl, rfl, ?_, hreg, rfl, fun m' hm' => by cases hm'; exact ⟨v, hs⟩⟩
          intro s hsim tt htt
          simp only [aliasTree] at htt
          have hn := hsim m
          rw [hs] at hn
          split at htt
          · rename_i t' hq
            cases htt
            have hq' : alGet s.binds m = some (.val tt) := hq
            rw [hq'] at hn
            exact hn
          · cases htt
        · cases h
      · cases h
      · cases h
  all_goals
    simp only [typeAlias] at h
    split at h
    · rename_i st1 v hv
      split at h
      · rename_i st3' hreg
        cases h
        have k := ty_ok (ρ := ρ) _ _ _ _ _ hv
        refine Or.inr ⟨st1, v, (k default 0).grow, (k default 0).scope, (k default 0).root, ?_, hreg, rfl,
          fun m' hm' => by cases hm'⟩
        intro s hsim tt htt
        exact (k s 64).tree hsim tt (by simpa only [aliasTree] using htt)
      · cases h
    · cases h

/-- the value-type declarations -/
def isValueDecl : Item → Bool
  | .record _ _ | .variant _ _ | .enum _ _ | .flags _ _ | .alias _ _ => true
  | _ => false

theorem itemTypeDecl_ok {st st' : St} {i : Item} {externs externs' : List (Str × ItemKind)}
    (hvd : isValueDecl i = true) (h : itemTypeDecl st i externs = .ok (st', externs')) :
    Grow st.types st'.types ∧ st'.root = st.root ∧
    ∀ (container : Str) (ifaces : List (Str × List (Str × Tree))) (s s' : Scope) (out : List (Str × Tree)),
      Sim ρ st.types st.scope s.binds → denoteItem container ifaces s i = some (s', out) →
      (∀ x ∈ out, alGet externs x.1 = none) → ItemOk ρ st' externs externs' s' out := by
  cases i with
  | record n fs =>
    simp only [itemTypeDecl] at h
    split at h
    · rename_i st1 fields hf
      obtain ⟨g1, sc1, rt1, rest, hrest, k1⟩ := namedTys_ok (ρ := ρ) _ _ _ _ _ _ hf
      simp only [List.nil_append] at hrest
      subst hrest
      -- frame, independent of the denotation
      have hframe : Grow st.types st'.types ∧ st'.root = st.root := by
        split at h
        · rename_i st3 hreg
          cases h
          obtain ⟨_, rfl⟩ := register_ok hreg
          exact ⟨g1.trans (Grow.addDefined _ _), rt1⟩
        · cases h
      refine ⟨hframe.1, hframe.2, ?_⟩
      intro container ifaces s s' out hsim hden hfresh
      simp only [denoteItem, namedTrees] at hden
      obtain ⟨f, hf', hden⟩ := Option.map_eq_some_iff.mp hden
      obtain ⟨l, hl, rfl⟩ := Option.map_eq_some_iff.mp hf'
      cases hden
      have hsim1 : Sim ρ st1.types st1.scope s.binds := by rw [sc1]; exact hsim.mono g1
      exact (declare_ok (t := .record (Forest.ofList l)) h hsim1 (by
        intro T' F he hF
        have := k1 s hsim l hl
        simp only [unfoldDefined,
          unfoldNamed_all2 (All2.imp (fun v t hvt => ⟨hvt.1, hvt.2 T' F he hF⟩) this), Option.map_some, renT])
        (hfresh _ (List.mem_cons_self ..))).2.2
    · cases h
  | variant n cs =>
    simp only [itemTypeDecl] at h
    split at h
    · rename_i st1 cases hc
      obtain ⟨g1, sc1, rt1, rest, hrest, k1⟩ := variantGo_ok (ρ := ρ) _ _ _ _ _ hc
      simp only [List.nil_append] at hrest
      subst hrest
      have hframe : Grow st.types st'.types ∧ st'.root = st.root := by
        split at h
        · rename_i st3 hreg
          cases h
          obtain ⟨_, rfl⟩ := register_ok hreg
          exact ⟨g1.trans (Grow.addDefined _ _), rt1⟩
        · cases h
      refine ⟨hframe.1, hframe.2, ?_⟩
      intro container ifaces s s' out hsim hden hfresh
      simp only [denoteItem] at hden
      obtain ⟨l, hl, hden⟩ := Option.map_eq_some_iff.mp hden
      cases hden
      have hsim1 : Sim ρ st1.types st1.scope s.binds := by rw [sc1]; exact hsim.mono g1
      exact (declare_ok (t := .variant (Forest.ofList l)) h hsim1 (by
        intro T' F he hF
        have := k1 s hsim l hl
        simp only [unfoldDefined,
          unfoldNamedOpt_all2 (All2.imp (fun v t hvt => ⟨hvt.1, hvt.2 T' F he hF⟩) this), Option.map_some, renT])
        (hfresh _ (List.mem_cons_self ..))).2.2
    · cases h
  | enum n ns =>
    simp only [itemTypeDecl] at h
    split at h
    · cases h
    · have hframe : Grow st.types st'.types ∧ st'.root = st.root := by
        split at h
        · rename_i st3 hreg
          cases h
          obtain ⟨_, rfl⟩ := register_ok hreg
          exact ⟨Grow.addDefined _ _, rfl⟩
        · cases h
      refine ⟨hframe.1, hframe.2, ?_⟩
      intro container ifaces s s' out hsim hden hfresh
      simp only [denoteItem] at hden
      cases hden
      exact (declare_ok (t := .enum ns) h hsim (fun _ _ _ _ => rfl)
        (hfresh _ (List.mem_cons_self ..))).2.2
  | flags n ns =>
    simp only [itemTypeDecl] at h
    split at h
    · cases h
    · have hframe : Grow st.types st'.types ∧ st'.root = st.root := by
        split at h
        · rename_i st3 hreg
          cases h
          obtain ⟨_, rfl⟩ := register_ok hreg
          exact ⟨Grow.addDefined _ _, rfl⟩
        · cases h
      refine ⟨hframe.1, hframe.2, ?_⟩
      intro container ifaces s s' out hsim hden hfresh
      simp only [denoteItem] at hden
      cases hden
      exact (declare_ok (t := .flags ns) h hsim (fun _ _ _ _ => rfl)
        (hfresh _ (List.mem_cons_self ..))).2.2
  | alias n t =>
    simp only [itemTypeDecl] at h
    split at h
    · rename_i st3 ty3 hta
      cases h
      rcases typeAlias_cases (ρ := ρ) hta with ⟨m, r, rfl, hs⟩ | ⟨st1, v, g1, sc1, rt1, k1, hreg, rfl, hidv⟩
      · -- an alias of a resource: a second name for the same resource
        simp only [typeAlias, localItem, hs] at hta
        split at hta
        · rename_i st4 hreg
          cases hta
          obtain ⟨hfr, rfl⟩ := register_ok hreg
          refine ⟨Grow.addResource st _, rfl, ?_⟩
          intro container ifaces s s' out hsim hden hfresh
          have hn := hsim m
          rw [hs] at hn
          simp only [denoteItem, Scope.get] at hden
          cases hb : alGet s.binds m with
          | none => rw [hb] at hn; exact hn.elim
          | some bd =>
            rw [hb] at hn hden
            cases bd with
            | val t' => exact hn.elim
            | res q =>
              simp only at hden
              cases hden
              have hr := HR_alias (n := n) (o := aliasOwner st r) hn
              have hsim2 := hsim.mono (Grow.addResource st
                { name := n, alias := some { owner := aliasOwner st r, source := r } })
              refine ⟨hsim2.push hfr hr, _, alInsert_fresh _ _ _
                (alGet_none_not_mem _ _ (hfresh _ (List.mem_cons_self ..))), ⟨rfl, ?_, ?_⟩, trivial⟩
              · intro T' F he hF
                obtain ⟨F', rfl⟩ : ∃ F', F = F' + 1 := ⟨F - 1, by unfold kb at hF; omega⟩
                simp only [Types.unfoldKind, renT]
                exact congrArg (Option.map fun x => Tree.type (Tree.resource x)) (hr.toHL T' he)
              · intro rid hk
                cases hk
                exact ⟨q, rfl, hr⟩
        · cases hta
      · obtain ⟨hfr, rfl⟩ := register_ok hreg
        refine ⟨g1.trans (Grow.addDefined _ _), rt1, ?_⟩
        intro container ifaces s s' out hsim hden hfresh
        -- the denotation names the same value type
        have hden' : ∃ tt, aliasTree s t = some tt ∧ s' = { s with binds := s.binds ++ [(n, .val tt)] } ∧
            out = [(n, .type tt)] := by
          cases t with
          | id m =>
            simp only [denoteItem] at hden
            split at hden
            · rename_i q hq
              -- the resolver found a value type under `m` (`aliasTree`), so the denotation does too
              obtain ⟨v', hv'⟩ := hidv m rfl
              have hn := hsim m
              have hq2 : alGet s.binds m = some (.res q) := hq
              rw [hv', hq2] at hn
              exact hn.elim
            · rename_i t' hq
              cases hden
              exact ⟨t', by simp [aliasTree, hq], rfl, rfl⟩
            · cases hden
          | prim p => simp only [denoteItem] at hden; obtain ⟨tt, h1, h2⟩ := Option.map_eq_some_iff.mp hden; cases h2; exact ⟨tt, h1, rfl, rfl⟩
          | list t1 => simp only [denoteItem] at hden; obtain ⟨tt, h1, h2⟩ := Option.map_eq_some_iff.mp hden; cases h2; exact ⟨tt, h1, rfl, rfl⟩
          | option t1 => simp only [denoteItem] at hden; obtain ⟨tt, h1, h2⟩ := Option.map_eq_some_iff.mp hden; cases h2; exact ⟨tt, h1, rfl, rfl⟩
          | result a b => simp only [denoteItem] at hden; obtain ⟨tt, h1, h2⟩ := Option.map_eq_some_iff.mp hden; cases h2; exact ⟨tt, h1, rfl, rfl⟩
          | tuple ts => simp only [denoteItem] at hden; obtain ⟨tt, h1, h2⟩ := Option.map_eq_some_iff.mp hden; cases h2; exact ⟨tt, h1, rfl, rfl⟩
          | borrow m => simp only [denoteItem] at hden; obtain ⟨tt, h1, h2⟩ := Option.map_eq_some_iff.mp hden; cases h2; exact ⟨tt, h1, rfl, rfl⟩
        obtain ⟨tt, htt, rfl, rfl⟩ := hden'
        have hv1 := k1 s hsim tt htt
        have hv : HV [] [] (Elab.addDefined st1 (.alias v)).1.types (vb (Elab.addDefined st1 (.alias v)).1.types)
            (.defined (Elab.addDefined st1 (.alias v)).2) (renT ρ tt) :=
          HV_new (st := st1) (d := .alias v) (fun T' F he hF => by simp only [unfoldDefined]; exact hv1 T' F he hF)
        have hsim2 : Sim ρ (Elab.addDefined st1 (.alias v)).1.types (Elab.addDefined st1 (.alias v)).1.scope s.binds := by
          have : (Elab.addDefined st1 (.alias v)).1.scope = st.scope := sc1
          rw [this]
          exact hsim.mono (g1.trans (Grow.addDefined _ _))
        have hfr' : alGet (Elab.addDefined st1 (.alias v)).1.scope n = none := hfr
        refine ⟨hsim2.push hfr' hv, _, alInsert_fresh _ _ _
          (alGet_none_not_mem _ _ (hfresh _ (List.mem_cons_self ..))),
          ⟨rfl, HK_type_value hv, fun _ hk => by cases hk⟩, trivial⟩
    · cases h
  | use _ _ => simp [isValueDecl] at hvd
  | resource _ _ => simp [isValueDecl] at hvd
  | func _ _ => simp [isValueDecl] at hvd

end Wac.Elab
