import WacProofs.Lemmas.GraphRank
/-
  `remove_node` with a live node id does not panic on a consistent graph whose alias /
  dependency edges respect the rank (`KindWF`, `DepOrder`): the cascade terminates within the
  model's fuel and every assertion of the bookkeeping holds.
-/
namespace Wac.Graph
open Wac Wac.HashSites

/-- the bookkeeping after the cascade cannot fail -/
theorem detach_ok {ctx : Ctx} {g : Graph} {n : Nat} {nd : Node} (h : Inv ctx g) (hn : g.node? n = some nd) :
    ∃ g', detachNode .fixed g n = (g', none) := by
  have hnok := h.node hn
  -- the clearing pass
  have hkeys : ((g.outEdges n).filterMap Edge.argKey).Nodup := by
    unfold Graph.outEdges
    exact (List.Sublist.filterMap _ List.filter_sublist).nodup h.argUnique
  have htargets : ∀ e ∈ g.outEdges n, ∀ i, e.kind = .arg i →
      ∃ x s, g.node? e.dst = some x ∧ x.kind = .instantiation s ∧ i ∈ s := by
    intro e he
    unfold Graph.outEdges at he
    exact h.argTargets e (List.mem_filter.mp he).1
  obtain ⟨g0, hc⟩ := clearSatEdges_ok (fun _ => true) (g.outEdges n) g hkeys htargets
  have c := clearSatEdges_spec _ _ _ _ hc
  have hn0 : g0.node? n = some (setSat nd ((erasesFor (fun _ => true) n (g.outEdges n)).foldl List.erase nd.sat)) := by
    rw [c.node n, hn]; rfl
  generalize hnd0 : setSat nd ((erasesFor (fun _ => true) n (g.outEdges n)).foldl List.erase nd.sat) = nd0 at hn0
  have hexp0 : nd0.exp = nd.exp := by rw [← hnd0, setSat_exp]
  have hraw : ∃ g1, g0.rawRemove n = some (nd0, g1) ∧ g1.imports = g0.imports ∧ g1.exports = g0.exports ∧
      g1.defined = g0.defined := by
    unfold Graph.rawRemove; rw [hn0]; exact ⟨_, rfl, rfl, rfl, rfl⟩
  obtain ⟨g1, hraw, i1, x1, d1⟩ := hraw
  unfold detachNode
  simp only [Legacy.fixed, Bool.false_eq_true, ↓reduceIte, hc, hraw]
  -- the three map clean-ups
  have hI : ∀ (g1 : Graph), g1.imports = g.imports → ∃ g2, dropImport g1 nd0 = .ok g2 ∧
      g2.exports = g1.exports ∧ g2.defined = g1.defined := by
    intro g1 hi
    unfold dropImport
    cases hk0 : nd0.kind with
    | «import» name =>
      have hk : nd.kind = .import name := by
        rw [← hnd0] at hk0; unfold setSat at hk0; cases hkk : nd.kind <;> simp [hkk] at hk0 ⊢; exact hk0
      have h2 := hnok.2.1
      rw [hk] at h2
      simp only at h2 ⊢
      rw [hi, h2]
      exact ⟨_, rfl, rfl, rfl⟩
    | definition ty => exact ⟨g1, rfl, rfl, rfl⟩
    | instantiation s => exact ⟨g1, rfl, rfl, rfl⟩
    | alias => exact ⟨g1, rfl, rfl, rfl⟩
  have hX : ∀ (g2 : Graph), g2.exports = g.exports → ∃ g3, dropExport .fixed g2 nd0 n = .ok g3 ∧
      g3.defined = g2.defined := by
    intro g2 hx
    unfold dropExport
    rw [hexp0]
    cases hxn : nd.exp with
    | some name =>
      have := hnok.2.2 name (by rw [hxn]; rfl)
      simp only
      rw [hx, this]
      exact ⟨_, rfl, rfl⟩
    | none => exact ⟨g2, rfl, rfl⟩
  have hD : ∀ (g3 : Graph), g3.defined = g.defined → ∃ g4, dropDefined g3 nd0 = .ok g4 := by
    intro g3 hd
    unfold dropDefined
    cases hk0 : nd0.kind with
    | definition ty =>
      have hk : nd.kind = .definition ty := by
        rw [← hnd0] at hk0; unfold setSat at hk0; cases hkk : nd.kind <;> simp [hkk] at hk0 ⊢; exact hk0
      have h2 := hnok.2.1
      rw [hk] at h2
      simp only at h2 ⊢
      rw [hd, h2.1]
      exact ⟨_, rfl⟩
    | «import» name => exact ⟨g3, rfl⟩
    | instantiation s => exact ⟨g3, rfl⟩
    | alias => exact ⟨g3, rfl⟩
  obtain ⟨g2, e2, x2, d2⟩ := hI g1 (i1.trans c.imports)
  rw [e2]
  simp only
  obtain ⟨g3, e3, d3⟩ := hX g2 (by rw [x2, x1]; exact c.exports)
  rw [show dropExport { staleSat := false, staleExport := false, doubleRemove := false } g2 nd0 n = .ok g3 from e3]
  simp only
  obtain ⟨g4, e4⟩ := hD g3 (by rw [d3, d2, d1]; exact c.defined)
  rw [e4]
  exact ⟨g4, rfl⟩

/-- what a successful removal of `n` guarantees, for the termination induction -/
structure RemovedOk (ctx : Ctx) (g g' : Graph) (n : Nat) (nd : Node) : Prop where
  inv : Inv ctx g'
  dep : DepOrder g'
  shrinks : Shrinks g g'
  satOnly : SatOnly g g'
  /-- only `n` and nodes strictly below it disappear -/
  lost : ∀ m x, g.node? m = some x → g'.node? m = none → m = n ∨ below x.key nd.key = true

theorem depOrder_of {g g' : Graph} (hd : DepOrder g) (hsh : Shrinks g g') (hso : SatOnly g g') : DepOrder g' := by
  intro e he hk s d hs hdn
  obtain ⟨s0, t1, hs0, rfl⟩ := hso.2 _ _ hs
  obtain ⟨d0, t2, hd0, rfl⟩ := hso.2 _ _ hdn
  obtain ⟨ts, td, h1, h2, hlt⟩ := hd e (hsh.1 e he) hk s0 d0 hs0 hd0
  refine ⟨ts, td, ?_, ?_, hlt⟩
  · simp [setSat, h1]
  · simp [setSat, h2]

/-- the state of the cascade loop of `remove_node n` -/
structure LoopState (ctx : Ctx) (g gk : Graph) (n : Nat) (nd : Node) : Prop where
  inv : Inv ctx gk
  dep : DepOrder gk
  shrinks : Shrinks g gk
  satOnly : SatOnly g gk
  lost : ∀ m x, g.node? m = some x → gk.node? m = none → below x.key nd.key = true

/-- termination: with fuel above the number of live nodes below `n`, the removal succeeds -/
theorem removeNodeAux_ok {ctx : Ctx} (hw : KindWF ctx) : ∀ (fuel : Nat) (g : Graph) (n : Nat) (nd : Node),
    Inv ctx g → DepOrder g → g.node? n = some nd → belowCount g nd.key < fuel →
    ∃ g', removeNodeAux .fixed fuel g n = (g', none) ∧ RemovedOk ctx g g' n nd
  | 0, _, _, _, _, _, _, hlt => by omega
  | fuel + 1, g, n, nd, h, hd, hn, hlt => by
    rw [removeNodeAux_succ]
    -- the cascade loop over the targets
    have loop : ∀ (ts : List Nat) (gk : Graph), LoopState ctx g gk n nd →
        (∀ t ∈ ts, ∃ e ∈ g.edges, e.src = n ∧ e.dst = t ∧ e.kind.isArg = false) →
        ∃ gA, ts.foldl (cascadeStep fuel) (gk, none) = (gA, none) ∧ LoopState ctx g gA n nd ∧
          Shrinks gk gA ∧ ∀ t ∈ ts, gA.node? t = none := by
      intro ts
      induction ts with
      | nil => intro gk st _; exact ⟨gk, rfl, st, Shrinks.refl _, fun _ ht => by cases ht⟩
      | cons t r ih =>
        intro gk st hts
        simp only [List.foldl_cons]
        obtain ⟨e, he, hsrc, hdst, hkind⟩ := hts t (List.mem_cons_self ..)
        -- the target in the original graph
        obtain ⟨_, ⟨xt0, hxt0⟩⟩ := h.edge_live he
        rw [hdst] at hxt0
        have hbelow0 : below xt0.key nd.key = true :=
          edge_below h hw hd he hkind (by rw [hsrc]; exact hn) (by rw [hdst]; exact hxt0)
        have hstep : ∃ g1, cascadeStep fuel (gk, none) t = (g1, none) ∧ LoopState ctx g g1 n nd ∧
            Shrinks gk g1 ∧ g1.node? t = none := by
          unfold cascadeStep
          simp only [Legacy.fixed, Bool.false_or]
          cases hq : gk.node? t with
          | none =>
            have : gk.live t = false := by unfold Graph.live; rw [hq]; rfl
            simp only [this, Bool.false_eq_true, ↓reduceIte]
            exact ⟨gk, rfl, st, Shrinks.refl _, hq⟩
          | some xt =>
            have : gk.live t = true := by unfold Graph.live; rw [hq]; rfl
            simp only [this, ↓reduceIte]
            obtain ⟨x0, s0, hx0, hxe⟩ := st.satOnly.2 t xt hq
            rw [hxt0] at hx0
            cases hx0
            have hkey : xt.key = xt0.key := by rw [hxe, setSat_key]
            have hcount : belowCount gk xt.key < fuel := by
              have := belowCount_child st.satOnly hxt0 hbelow0
              rw [hkey]; omega
            obtain ⟨g1, hr, ok⟩ := removeNodeAux_ok hw fuel gk t xt st.inv st.dep hq hcount
            have hgone : g1.node? t = none := (level_all ctx fuel gk t g1 st.inv hr).2.1
            refine ⟨g1, hr, ⟨ok.inv, ok.dep, st.shrinks.trans ok.shrinks, st.satOnly.trans ok.satOnly, ?_⟩,
              ok.shrinks, hgone⟩
            intro m x hx hm1
            cases hmk : gk.node? m with
            | none => exact st.lost m x hx hmk
            | some xk =>
              obtain ⟨x0', s', hx0', hxe'⟩ := st.satOnly.2 m xk hmk
              rw [hx] at hx0'
              cases hx0'
              have hkm : xk.key = x.key := by rw [hxe', setSat_key]
              rcases ok.lost m xk hmk hm1 with rfl | hb
              · rw [hxt0] at hx; cases hx; exact hbelow0
              · rw [hkm, hkey] at hb
                exact below_trans hb hbelow0
        obtain ⟨g1, hs1, st1, hsh1, hg1⟩ := hstep
        rw [hs1]
        obtain ⟨gA, hf, stA, hshA, hdead⟩ := ih g1 st1 (fun t' ht' => hts t' (List.mem_cons_of_mem _ ht'))
        refine ⟨gA, hf, stA, hsh1.trans hshA, ?_⟩
        intro t' ht'
        rcases List.mem_cons.mp ht' with rfl | ht'
        · exact hshA.dead hg1
        · exact hdead t' ht'
    -- run it from the initial state
    have st0 : LoopState ctx g g n nd :=
      ⟨h, hd, Shrinks.refl _, SatOnly.refl _, fun m x hx hm => by rw [hx] at hm; cases hm⟩
    have htargets : ∀ t ∈ cascadeTargets (g.outEdges n), ∃ e ∈ g.edges, e.src = n ∧ e.dst = t ∧ e.kind.isArg = false := by
      intro t ht
      obtain ⟨e, he, hdst, hk⟩ := mem_cascadeTargets.mp ht
      unfold Graph.outEdges at he
      rw [List.mem_filter] at he
      exact ⟨e, he.1, by simpa using he.2, hdst, hk⟩
    obtain ⟨gA, hf, stA, _, hdead⟩ := loop _ g st0 htargets
    rw [hf]
    simp only
    -- `n` is still there: only nodes strictly below it were removed
    have hnA : ∃ ndA, gA.node? n = some ndA := by
      cases hq : gA.node? n with
      | some x => exact ⟨x, rfl⟩
      | none =>
        have := stA.lost n nd hn hq
        rw [below_irrefl] at this; cases this
    obtain ⟨ndA, hnA⟩ := hnA
    -- it has no outgoing alias edge any more
    have hnoalias : ∀ e ∈ gA.edges, e.src = n → e.kind.isAlias = false := by
      intro e he hsrc
      cases hk : e.kind with
      | alias j =>
        exfalso
        have he0 : e ∈ g.outEdges n := by
          unfold Graph.outEdges
          rw [List.mem_filter]; exact ⟨stA.shrinks.1 e he, by simpa using hsrc⟩
        have ht : e.dst ∈ cascadeTargets (g.outEdges n) :=
          mem_cascadeTargets.mpr ⟨e, he0, rfl, by simp [hk, EdgeKind.isArg]⟩
        obtain ⟨_, ⟨d, hd'⟩⟩ := stA.inv.edge_live he
        rw [hdead _ ht] at hd'; cases hd'
      | arg j => rfl
      | dep => rfl
    obtain ⟨g', hdet⟩ := detach_ok stA.inv hnA
    have r := detach_removed stA.inv hnA hdet
    refine ⟨g', hdet, ⟨inv_removed stA.inv hnA hnoalias r, ?_, stA.shrinks.trans r.shrinks,
      stA.satOnly.trans r.satOnly, ?_⟩⟩
    · exact depOrder_of hd (stA.shrinks.trans r.shrinks) (stA.satOnly.trans r.satOnly)
    · intro m x hx hm'
      cases hmA : gA.node? m with
      | none => exact Or.inr (stA.lost m x hx hmA)
      | some xA =>
        by_cases hmn : m = n
        · exact Or.inl hmn
        · obtain ⟨s, hs, _, _⟩ := r.kept m xA hmn hmA
          rw [hm'] at hs; cases hs

end Wac.Graph
