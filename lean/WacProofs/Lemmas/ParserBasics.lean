import WacProofs.Lemmas.GrammarBasics
/-
  C12 proofs, layer 1 (parser side): what the primitive steps of the parser model
  (`parseToken`, `peekTok`, `parseIdent`, `parseString`, `parseOptional` …) do to the token list of
  the state, and the matching membership rules of the grammar's terminals on `abs st`.

  Normal form used by all later proofs: conditions `peekTok st = some k` on the states
  `st`, `adv st`, `adv (adv st)`, … (`adv` = consume one item).
-/
namespace Wac.C12
open Wac Wac.Ast Wac.Lex Wac.Parse Wac.Spec.Grammar

/-- the state after consuming one item -/
def adv (st : PState) : PState := st.next.2

/-- the next item (a default item at end of input) -/
def tokAt (st : PState) : LTok := st.toks.head?.getD default

@[simp] theorem adv_toks (st : PState) : (adv st).toks = st.toks.tail := by
  unfold adv PState.next; cases st.toks <;> rfl

theorem peekTok_eq (st : PState) : peekTok st = st.toks.head?.bind LTok.tok? := rfl

theorem peekTok_nil {st : PState} (h : st.toks = []) : peekTok st = none := by
  simp [peekTok_eq, h]

theorem peekTok_cons {st : PState} {tk : LTok} {r : List LTok} (h : st.toks = tk :: r) :
    peekTok st = tk.tok? := by
  simp [peekTok_eq, h]

/-- a successful peek: the shape of the token list -/
theorem toks_of_peekTok {st : PState} {k : Token} (h : peekTok st = some k) :
    st.toks = tokAt st :: (adv st).toks ∧ (tokAt st).tok? = some k := by
  unfold tokAt
  rw [peekTok_eq] at h
  cases hs : st.toks with
  | nil => simp [hs] at h
  | cons a r => simp [hs] at h; simp [hs, h]

theorem len_of_peekTok {st : PState} {k : Token} (h : peekTok st = some k) :
    st.toks.length = (adv st).toks.length + 1 := by
  have := (toks_of_peekTok h).1
  rw [this]; simp

theorem abs_of_peekTok {st : PState} {k : Token} (h : peekTok st = some k) :
    abs st = absTok (tokAt st) :: abs (adv st) := by
  have := (toks_of_peekTok h).1
  unfold abs; rw [this]; simp

theorem abs_nil {st : PState} (h : st.toks = []) : abs st = [] := by simp [abs, h]

/-- the item at the head is a lexical error -/
def peekErr (st : PState) : Bool :=
  match st.toks with
  | tk :: _ => tk.tok?.isNone
  | [] => false

theorem peekErr_of_peekTok {st : PState} {k : Token} (h : peekTok st = some k) : peekErr st = false := by
  have ⟨h1, h2⟩ := toks_of_peekTok h
  unfold peekErr; rw [h1]; simp [h2]

@[simp] theorem peekIs_iff (st : PState) (k : Token) : peekIs st k = true ↔ peekTok st = some k := by
  simp [peekIs]

theorem peekIs_false_iff (st : PState) (k : Token) : peekIs st k = false ↔ peekTok st ≠ some k := by
  simp [peekIs]

theorem peekIn_iff (st : PState) (ks : List Token) :
    peekIn st ks = true ↔ ∃ k, peekTok st = some k ∧ k ∈ ks := by
  unfold peekIn; split <;> simp_all

@[simp] theorem peek2Tok_eq (st : PState) : peek2Tok st = peekTok (adv st) := by
  simp [peek2Tok, PState.peek2, peekTok, PState.peek, adv_toks, List.drop_one]

/-! ### `parse_token` -/

theorem parseToken_eq_ok {st : PState} {k : Token} {tk : LTok} {st' : PState} :
    parseToken st k = .ok (tk, st') ↔ peekTok st = some k ∧ tk = tokAt st ∧ st' = adv st := by
  unfold parseToken adv tokAt
  rw [peekTok_eq]
  unfold PState.next
  cases h : st.toks with
  | nil => simp
  | cons a r =>
    simp only [List.head?_cons, Option.bind_some, Option.getD_some]
    cases hr : a.res with
    | error e => simp [tok?_error hr]
    | ok k' =>
      simp only [tok?_ok hr, Option.some.injEq]
      by_cases hk : k' = k
      · subst hk; simp [eq_comm]
      · simp [hk]

/-- a terminal of the grammar on an abstracted state -/
theorem mem_t_abs (k : Token) (hk : isLit k = true) (st : PState) (u : Unit) (r : List STok) :
    (u, r) ∈ t (litText k) (abs st) ↔ peekTok st = some k ∧ r = abs (adv st) := by
  cases hs : st.toks with
  | nil => simp [abs_nil hs, peekTok_nil hs]
  | cons a l =>
    have : abs st = absTok a :: abs (adv st) := by simp [abs, hs]
    rw [this, t_abs k hk, peekTok_cons hs]
    split <;> simp_all

theorem mem_class_abs (k : Token) (c : SKind) (hc : classOf k = some c) (st : PState) (s : Str)
    (r : List STok) :
    (s, r) ∈ class_ c (abs st) ↔ peekTok st = some k ∧ s = (tokAt st).text ∧ r = abs (adv st) := by
  cases hs : st.toks with
  | nil => simp [abs_nil hs, peekTok_nil hs]
  | cons a l =>
    have : abs st = absTok a :: abs (adv st) := by simp [abs, hs]
    rw [this, class_abs k c hc, peekTok_cons hs]
    unfold tokAt
    split <;> simp_all

/-- generic form: a terminal consumes exactly its own token -/
theorem mem_t (s : String) (ts : List STok) (u : Unit) (r : List STok) :
    (u, r) ∈ t s ts ↔ ts = ⟨.lit, s.toList⟩ :: r := by
  cases ts with
  | nil => simp
  | cons a l =>
    obtain ⟨k, tx⟩ := a
    simp only [t]
    split
    · rename_i h
      simp at h
      simp [h.1, h.2, eq_comm]
    · rename_i h
      simp at h
      simp
      intro h1 h2; subst h1 h2; simp at h

/-! ### one membership rule per terminal -/


@[simp] theorem mem_t_ImportKeyword (st : PState) (u : Unit) (r : List STok) :
    (u, r) ∈ t "import" (abs st) ↔ peekTok st = some .ImportKeyword ∧ r = abs (adv st) := mem_t_abs .ImportKeyword rfl st u r
@[simp] theorem mem_t_WithKeyword (st : PState) (u : Unit) (r : List STok) :
    (u, r) ∈ t "with" (abs st) ↔ peekTok st = some .WithKeyword ∧ r = abs (adv st) := mem_t_abs .WithKeyword rfl st u r
@[simp] theorem mem_t_TypeKeyword (st : PState) (u : Unit) (r : List STok) :
    (u, r) ∈ t "type" (abs st) ↔ peekTok st = some .TypeKeyword ∧ r = abs (adv st) := mem_t_abs .TypeKeyword rfl st u r
@[simp] theorem mem_t_TupleKeyword (st : PState) (u : Unit) (r : List STok) :
    (u, r) ∈ t "tuple" (abs st) ↔ peekTok st = some .TupleKeyword ∧ r = abs (adv st) := mem_t_abs .TupleKeyword rfl st u r
@[simp] theorem mem_t_ListKeyword (st : PState) (u : Unit) (r : List STok) :
    (u, r) ∈ t "list" (abs st) ↔ peekTok st = some .ListKeyword ∧ r = abs (adv st) := mem_t_abs .ListKeyword rfl st u r
@[simp] theorem mem_t_OptionKeyword (st : PState) (u : Unit) (r : List STok) :
    (u, r) ∈ t "option" (abs st) ↔ peekTok st = some .OptionKeyword ∧ r = abs (adv st) := mem_t_abs .OptionKeyword rfl st u r
@[simp] theorem mem_t_ResultKeyword (st : PState) (u : Unit) (r : List STok) :
    (u, r) ∈ t "result" (abs st) ↔ peekTok st = some .ResultKeyword ∧ r = abs (adv st) := mem_t_abs .ResultKeyword rfl st u r
@[simp] theorem mem_t_BorrowKeyword (st : PState) (u : Unit) (r : List STok) :
    (u, r) ∈ t "borrow" (abs st) ↔ peekTok st = some .BorrowKeyword ∧ r = abs (adv st) := mem_t_abs .BorrowKeyword rfl st u r
@[simp] theorem mem_t_ResourceKeyword (st : PState) (u : Unit) (r : List STok) :
    (u, r) ∈ t "resource" (abs st) ↔ peekTok st = some .ResourceKeyword ∧ r = abs (adv st) := mem_t_abs .ResourceKeyword rfl st u r
@[simp] theorem mem_t_VariantKeyword (st : PState) (u : Unit) (r : List STok) :
    (u, r) ∈ t "variant" (abs st) ↔ peekTok st = some .VariantKeyword ∧ r = abs (adv st) := mem_t_abs .VariantKeyword rfl st u r
@[simp] theorem mem_t_RecordKeyword (st : PState) (u : Unit) (r : List STok) :
    (u, r) ∈ t "record" (abs st) ↔ peekTok st = some .RecordKeyword ∧ r = abs (adv st) := mem_t_abs .RecordKeyword rfl st u r
@[simp] theorem mem_t_FlagsKeyword (st : PState) (u : Unit) (r : List STok) :
    (u, r) ∈ t "flags" (abs st) ↔ peekTok st = some .FlagsKeyword ∧ r = abs (adv st) := mem_t_abs .FlagsKeyword rfl st u r
@[simp] theorem mem_t_EnumKeyword (st : PState) (u : Unit) (r : List STok) :
    (u, r) ∈ t "enum" (abs st) ↔ peekTok st = some .EnumKeyword ∧ r = abs (adv st) := mem_t_abs .EnumKeyword rfl st u r
@[simp] theorem mem_t_FuncKeyword (st : PState) (u : Unit) (r : List STok) :
    (u, r) ∈ t "func" (abs st) ↔ peekTok st = some .FuncKeyword ∧ r = abs (adv st) := mem_t_abs .FuncKeyword rfl st u r
@[simp] theorem mem_t_StaticKeyword (st : PState) (u : Unit) (r : List STok) :
    (u, r) ∈ t "static" (abs st) ↔ peekTok st = some .StaticKeyword ∧ r = abs (adv st) := mem_t_abs .StaticKeyword rfl st u r
@[simp] theorem mem_t_ConstructorKeyword (st : PState) (u : Unit) (r : List STok) :
    (u, r) ∈ t "constructor" (abs st) ↔ peekTok st = some .ConstructorKeyword ∧ r = abs (adv st) := mem_t_abs .ConstructorKeyword rfl st u r
@[simp] theorem mem_t_U8Keyword (st : PState) (u : Unit) (r : List STok) :
    (u, r) ∈ t "u8" (abs st) ↔ peekTok st = some .U8Keyword ∧ r = abs (adv st) := mem_t_abs .U8Keyword rfl st u r
@[simp] theorem mem_t_S8Keyword (st : PState) (u : Unit) (r : List STok) :
    (u, r) ∈ t "s8" (abs st) ↔ peekTok st = some .S8Keyword ∧ r = abs (adv st) := mem_t_abs .S8Keyword rfl st u r
@[simp] theorem mem_t_U16Keyword (st : PState) (u : Unit) (r : List STok) :
    (u, r) ∈ t "u16" (abs st) ↔ peekTok st = some .U16Keyword ∧ r = abs (adv st) := mem_t_abs .U16Keyword rfl st u r
@[simp] theorem mem_t_S16Keyword (st : PState) (u : Unit) (r : List STok) :
    (u, r) ∈ t "s16" (abs st) ↔ peekTok st = some .S16Keyword ∧ r = abs (adv st) := mem_t_abs .S16Keyword rfl st u r
@[simp] theorem mem_t_U32Keyword (st : PState) (u : Unit) (r : List STok) :
    (u, r) ∈ t "u32" (abs st) ↔ peekTok st = some .U32Keyword ∧ r = abs (adv st) := mem_t_abs .U32Keyword rfl st u r
@[simp] theorem mem_t_S32Keyword (st : PState) (u : Unit) (r : List STok) :
    (u, r) ∈ t "s32" (abs st) ↔ peekTok st = some .S32Keyword ∧ r = abs (adv st) := mem_t_abs .S32Keyword rfl st u r
@[simp] theorem mem_t_U64Keyword (st : PState) (u : Unit) (r : List STok) :
    (u, r) ∈ t "u64" (abs st) ↔ peekTok st = some .U64Keyword ∧ r = abs (adv st) := mem_t_abs .U64Keyword rfl st u r
@[simp] theorem mem_t_S64Keyword (st : PState) (u : Unit) (r : List STok) :
    (u, r) ∈ t "s64" (abs st) ↔ peekTok st = some .S64Keyword ∧ r = abs (adv st) := mem_t_abs .S64Keyword rfl st u r
@[simp] theorem mem_t_F32Keyword (st : PState) (u : Unit) (r : List STok) :
    (u, r) ∈ t "f32" (abs st) ↔ peekTok st = some .F32Keyword ∧ r = abs (adv st) := mem_t_abs .F32Keyword rfl st u r
@[simp] theorem mem_t_F64Keyword (st : PState) (u : Unit) (r : List STok) :
    (u, r) ∈ t "f64" (abs st) ↔ peekTok st = some .F64Keyword ∧ r = abs (adv st) := mem_t_abs .F64Keyword rfl st u r
@[simp] theorem mem_t_CharKeyword (st : PState) (u : Unit) (r : List STok) :
    (u, r) ∈ t "char" (abs st) ↔ peekTok st = some .CharKeyword ∧ r = abs (adv st) := mem_t_abs .CharKeyword rfl st u r
@[simp] theorem mem_t_BoolKeyword (st : PState) (u : Unit) (r : List STok) :
    (u, r) ∈ t "bool" (abs st) ↔ peekTok st = some .BoolKeyword ∧ r = abs (adv st) := mem_t_abs .BoolKeyword rfl st u r
@[simp] theorem mem_t_StringKeyword (st : PState) (u : Unit) (r : List STok) :
    (u, r) ∈ t "string" (abs st) ↔ peekTok st = some .StringKeyword ∧ r = abs (adv st) := mem_t_abs .StringKeyword rfl st u r
@[simp] theorem mem_t_InterfaceKeyword (st : PState) (u : Unit) (r : List STok) :
    (u, r) ∈ t "interface" (abs st) ↔ peekTok st = some .InterfaceKeyword ∧ r = abs (adv st) := mem_t_abs .InterfaceKeyword rfl st u r
@[simp] theorem mem_t_WorldKeyword (st : PState) (u : Unit) (r : List STok) :
    (u, r) ∈ t "world" (abs st) ↔ peekTok st = some .WorldKeyword ∧ r = abs (adv st) := mem_t_abs .WorldKeyword rfl st u r
@[simp] theorem mem_t_ExportKeyword (st : PState) (u : Unit) (r : List STok) :
    (u, r) ∈ t "export" (abs st) ↔ peekTok st = some .ExportKeyword ∧ r = abs (adv st) := mem_t_abs .ExportKeyword rfl st u r
@[simp] theorem mem_t_NewKeyword (st : PState) (u : Unit) (r : List STok) :
    (u, r) ∈ t "new" (abs st) ↔ peekTok st = some .NewKeyword ∧ r = abs (adv st) := mem_t_abs .NewKeyword rfl st u r
@[simp] theorem mem_t_LetKeyword (st : PState) (u : Unit) (r : List STok) :
    (u, r) ∈ t "let" (abs st) ↔ peekTok st = some .LetKeyword ∧ r = abs (adv st) := mem_t_abs .LetKeyword rfl st u r
@[simp] theorem mem_t_UseKeyword (st : PState) (u : Unit) (r : List STok) :
    (u, r) ∈ t "use" (abs st) ↔ peekTok st = some .UseKeyword ∧ r = abs (adv st) := mem_t_abs .UseKeyword rfl st u r
@[simp] theorem mem_t_IncludeKeyword (st : PState) (u : Unit) (r : List STok) :
    (u, r) ∈ t "include" (abs st) ↔ peekTok st = some .IncludeKeyword ∧ r = abs (adv st) := mem_t_abs .IncludeKeyword rfl st u r
@[simp] theorem mem_t_AsKeyword (st : PState) (u : Unit) (r : List STok) :
    (u, r) ∈ t "as" (abs st) ↔ peekTok st = some .AsKeyword ∧ r = abs (adv st) := mem_t_abs .AsKeyword rfl st u r
@[simp] theorem mem_t_PackageKeyword (st : PState) (u : Unit) (r : List STok) :
    (u, r) ∈ t "package" (abs st) ↔ peekTok st = some .PackageKeyword ∧ r = abs (adv st) := mem_t_abs .PackageKeyword rfl st u r
@[simp] theorem mem_t_TargetsKeyword (st : PState) (u : Unit) (r : List STok) :
    (u, r) ∈ t "targets" (abs st) ↔ peekTok st = some .TargetsKeyword ∧ r = abs (adv st) := mem_t_abs .TargetsKeyword rfl st u r
@[simp] theorem mem_t_Semicolon (st : PState) (u : Unit) (r : List STok) :
    (u, r) ∈ t ";" (abs st) ↔ peekTok st = some .Semicolon ∧ r = abs (adv st) := mem_t_abs .Semicolon rfl st u r
@[simp] theorem mem_t_OpenBrace (st : PState) (u : Unit) (r : List STok) :
    (u, r) ∈ t "{" (abs st) ↔ peekTok st = some .OpenBrace ∧ r = abs (adv st) := mem_t_abs .OpenBrace rfl st u r
@[simp] theorem mem_t_CloseBrace (st : PState) (u : Unit) (r : List STok) :
    (u, r) ∈ t "}" (abs st) ↔ peekTok st = some .CloseBrace ∧ r = abs (adv st) := mem_t_abs .CloseBrace rfl st u r
@[simp] theorem mem_t_Colon (st : PState) (u : Unit) (r : List STok) :
    (u, r) ∈ t ":" (abs st) ↔ peekTok st = some .Colon ∧ r = abs (adv st) := mem_t_abs .Colon rfl st u r
@[simp] theorem mem_t_Equals (st : PState) (u : Unit) (r : List STok) :
    (u, r) ∈ t "=" (abs st) ↔ peekTok st = some .Equals ∧ r = abs (adv st) := mem_t_abs .Equals rfl st u r
@[simp] theorem mem_t_OpenParen (st : PState) (u : Unit) (r : List STok) :
    (u, r) ∈ t "(" (abs st) ↔ peekTok st = some .OpenParen ∧ r = abs (adv st) := mem_t_abs .OpenParen rfl st u r
@[simp] theorem mem_t_CloseParen (st : PState) (u : Unit) (r : List STok) :
    (u, r) ∈ t ")" (abs st) ↔ peekTok st = some .CloseParen ∧ r = abs (adv st) := mem_t_abs .CloseParen rfl st u r
@[simp] theorem mem_t_Arrow (st : PState) (u : Unit) (r : List STok) :
    (u, r) ∈ t "->" (abs st) ↔ peekTok st = some .Arrow ∧ r = abs (adv st) := mem_t_abs .Arrow rfl st u r
@[simp] theorem mem_t_OpenAngle (st : PState) (u : Unit) (r : List STok) :
    (u, r) ∈ t "<" (abs st) ↔ peekTok st = some .OpenAngle ∧ r = abs (adv st) := mem_t_abs .OpenAngle rfl st u r
@[simp] theorem mem_t_CloseAngle (st : PState) (u : Unit) (r : List STok) :
    (u, r) ∈ t ">" (abs st) ↔ peekTok st = some .CloseAngle ∧ r = abs (adv st) := mem_t_abs .CloseAngle rfl st u r
@[simp] theorem mem_t_Underscore (st : PState) (u : Unit) (r : List STok) :
    (u, r) ∈ t "_" (abs st) ↔ peekTok st = some .Underscore ∧ r = abs (adv st) := mem_t_abs .Underscore rfl st u r
@[simp] theorem mem_t_OpenBracket (st : PState) (u : Unit) (r : List STok) :
    (u, r) ∈ t "[" (abs st) ↔ peekTok st = some .OpenBracket ∧ r = abs (adv st) := mem_t_abs .OpenBracket rfl st u r
@[simp] theorem mem_t_CloseBracket (st : PState) (u : Unit) (r : List STok) :
    (u, r) ∈ t "]" (abs st) ↔ peekTok st = some .CloseBracket ∧ r = abs (adv st) := mem_t_abs .CloseBracket rfl st u r
@[simp] theorem mem_t_Dot (st : PState) (u : Unit) (r : List STok) :
    (u, r) ∈ t "." (abs st) ↔ peekTok st = some .Dot ∧ r = abs (adv st) := mem_t_abs .Dot rfl st u r
@[simp] theorem mem_t_Ellipsis (st : PState) (u : Unit) (r : List STok) :
    (u, r) ∈ t "..." (abs st) ↔ peekTok st = some .Ellipsis ∧ r = abs (adv st) := mem_t_abs .Ellipsis rfl st u r
@[simp] theorem mem_t_Comma (st : PState) (u : Unit) (r : List STok) :
    (u, r) ∈ t "," (abs st) ↔ peekTok st = some .Comma ∧ r = abs (adv st) := mem_t_abs .Comma rfl st u r
@[simp] theorem mem_t_Slash (st : PState) (u : Unit) (r : List STok) :
    (u, r) ∈ t "/" (abs st) ↔ peekTok st = some .Slash ∧ r = abs (adv st) := mem_t_abs .Slash rfl st u r
@[simp] theorem mem_t_At (st : PState) (u : Unit) (r : List STok) :
    (u, r) ∈ t "@" (abs st) ↔ peekTok st = some .At ∧ r = abs (adv st) := mem_t_abs .At rfl st u r

@[simp] theorem mem_class_id (st : PState) (s : Str) (r : List STok) :
    (s, r) ∈ class_ .id (abs st) ↔ peekTok st = some .Ident ∧ s = (tokAt st).text ∧ r = abs (adv st) :=
  mem_class_abs .Ident .id rfl st s r
@[simp] theorem mem_class_string (st : PState) (s : Str) (r : List STok) :
    (s, r) ∈ class_ .string (abs st) ↔ peekTok st = some .String ∧ s = (tokAt st).text ∧ r = abs (adv st) :=
  mem_class_abs .String .string rfl st s r
@[simp] theorem mem_class_packageName (st : PState) (s : Str) (r : List STok) :
    (s, r) ∈ class_ .packageName (abs st) ↔
      peekTok st = some .PackageName ∧ s = (tokAt st).text ∧ r = abs (adv st) :=
  mem_class_abs .PackageName .packageName rfl st s r
@[simp] theorem mem_class_packagePath (st : PState) (s : Str) (r : List STok) :
    (s, r) ∈ class_ .packagePath (abs st) ↔
      peekTok st = some .PackagePath ∧ s = (tokAt st).text ∧ r = abs (adv st) :=
  mem_class_abs .PackagePath .packagePath rfl st s r

end Wac.C12
