import WacProofs.Lemmas.GrammarBasics
/-
  C12 proofs, layer 1 (parser side): what the primitive steps of the parser model
  (`parseToken`, `peekTok`, `parseIdent`, `parseString`, `parseOptional` …) do to the token list of
  the state, and the matching membership rules of the grammar's terminals on `abs st`.

  Normal form used by all later proofs: conditions `nextTok st = some k` on the states
  `st`, `adv st`, `adv (adv st)`, … (`adv` = consume one item, `nextTok st` = the kind of the item
  `Lexer::next` would deliver: the next token, unless it is a lexical error or an opening bracket
  beyond the nesting limit).  The parser *peeks* at the raw token (`peekTok`, no nesting check)
  and *consumes* with `next`; `nextTok st = some k` implies `peekTok st = some k`, and conversely
  for every kind that is not an opening bracket.
-/
namespace Wac.C12
open Wac Wac.Ast Wac.Lex Wac.Parse Wac.Spec.Grammar

/-- the state after consuming one item -/
def adv (st : PState) : PState := st.next.2

/-- the next item of the raw token list (a default item at end of input) -/
def tokAt (st : PState) : LTok := st.toks.head?.getD default

/-- the kind of the item `Lexer::next` would deliver -/
def nextTok (st : PState) : Option Token := (eff st).head?.bind LTok.tok?

/-- the item delivered for the raw item `t` at nesting depth `d` -/
def deliver (d : Nat) (t : LTok) : LTok :=
  match t.res with
  | .ok k => if isOpenBracket k = true ∧ tooDeep (d + 1) = true
      then { t with res := .error .NestingTooDeep } else t
  | .error _ => t

/-- the nesting depth after the raw item `t` -/
def depthAfter (d : Nat) (t : LTok) : Nat :=
  match t.res with
  | .ok k => if isOpenBracket k then d + 1 else if isCloseBracket k then d - 1 else d
  | .error _ => d

theorem effToks_cons (d : Nat) (t : LTok) (r : List LTok) :
    effToks d (t :: r) = deliver d t :: effToks (depthAfter d t) r := by
  unfold deliver depthAfter
  cases hr : t.res with
  | error e => simp [effToks, hr]
  | ok k =>
    simp only [effToks, hr]
    by_cases ho : isOpenBracket k = true
    · simp [ho]
    · simp only [ho]
      by_cases hc : isCloseBracket k = true <;> simp [hc]

theorem next_cons {st : PState} {a : LTok} {r : List LTok} (h : st.toks = a :: r) :
    st.next = (some (deliver st.depth a),
      { st with toks := r, lastStart := a.span.offset, lastEnd := a.span.offset + a.span.len,
                depth := depthAfter st.depth a }) := by
  unfold PState.next
  rw [h]
  cases hr : a.res with
  | error e => simp [deliver, depthAfter, hr]
  | ok k =>
    simp only [deliver, depthAfter, hr]
    by_cases ho : isOpenBracket k = true
    · by_cases htd : tooDeep (st.depth + 1) = true
      · simp [ho, htd]
      · simp [ho, htd]
    · by_cases hc : isCloseBracket k = true
      · simp [ho, hc]
      · simp [ho, hc]

theorem next_nil {st : PState} (h : st.toks = []) :
    st.next = (none, { st with lastStart := st.srcLen, lastEnd := st.srcLen }) := by
  unfold PState.next; rw [h]

@[simp] theorem adv_toks (st : PState) : (adv st).toks = st.toks.tail := by
  unfold adv
  cases hs : st.toks with
  | nil => rw [next_nil hs]; simp [hs]
  | cons a r => rw [next_cons hs]; rfl

theorem eff_adv (st : PState) : eff (adv st) = (eff st).tail := by
  unfold adv eff
  cases hs : st.toks with
  | nil => rw [next_nil hs]; simp [hs, effToks]
  | cons a r => rw [next_cons hs, effToks_cons]; rfl

theorem eff_nil {st : PState} (h : st.toks = []) : eff st = [] := by simp [eff, h, effToks]

theorem eff_cons {st : PState} {a : LTok} {r : List LTok} (h : st.toks = a :: r) :
    eff st = deliver st.depth a :: eff (adv st) := by
  have := eff_adv st
  rw [this]
  unfold eff
  rw [h, effToks_cons]
  rfl

theorem next_fst (st : PState) : st.next.1 = (eff st).head? := by
  cases hs : st.toks with
  | nil => rw [next_nil hs, eff_nil hs]; rfl
  | cons a r => rw [next_cons hs, eff_cons hs]; rfl

theorem nextTok_eq_next (st : PState) : nextTok st = st.next.1.bind LTok.tok? := by
  rw [next_fst]; rfl

theorem peekTok_eq (st : PState) : peekTok st = st.toks.head?.bind LTok.tok? := rfl

theorem peekTok_nil {st : PState} (h : st.toks = []) : peekTok st = none := by
  simp [peekTok_eq, h]

theorem peekTok_cons {st : PState} {tk : LTok} {r : List LTok} (h : st.toks = tk :: r) :
    peekTok st = tk.tok? := by
  simp [peekTok_eq, h]

theorem nextTok_nil {st : PState} (h : st.toks = []) : nextTok st = none := by
  simp [nextTok, eff_nil h]

theorem nextTok_cons {st : PState} {a : LTok} {r : List LTok} (h : st.toks = a :: r) :
    nextTok st = (deliver st.depth a).tok? := by
  simp [nextTok, eff_cons h]

/-- a delivered token is the raw token -/
theorem deliver_tok? {d : Nat} {a : LTok} {k : Token} (h : (deliver d a).tok? = some k) :
    deliver d a = a ∧ a.tok? = some k := by
  unfold deliver at h ⊢
  cases hr : a.res with
  | error e => simp [hr] at h ⊢; simp [LTok.tok?, hr] at h
  | ok k' =>
    simp only [hr] at h ⊢
    split at h
    · simp [LTok.tok?] at h
    · rename_i hd
      simp only [hd, if_false]
      exact ⟨trivial, h⟩

/-- a successful `next`: the shape of the token list -/
theorem toks_of_nextTok {st : PState} {k : Token} (h : nextTok st = some k) :
    st.toks = tokAt st :: (adv st).toks ∧ (tokAt st).tok? = some k ∧
      eff st = tokAt st :: eff (adv st) := by
  unfold tokAt
  cases hs : st.toks with
  | nil => rw [nextTok_nil hs] at h; cases h
  | cons a r =>
    rw [nextTok_cons hs] at h
    obtain ⟨h1, h2⟩ := deliver_tok? h
    have he := eff_cons hs
    rw [h1] at he
    refine ⟨by simp [hs], by simpa using h2, by simpa using he⟩

theorem len_of_nextTok {st : PState} {k : Token} (h : nextTok st = some k) :
    st.toks.length = (adv st).toks.length + 1 := by
  have := (toks_of_nextTok h).1
  rw [this]; simp

theorem abs_of_nextTok {st : PState} {k : Token} (h : nextTok st = some k) :
    abs st = absTok (tokAt st) :: abs (adv st) := by
  unfold abs; rw [(toks_of_nextTok h).2.2]; simp

theorem abs_nil {st : PState} (h : st.toks = []) : abs st = [] := by simp [abs, eff_nil h]

/-- what is delivered is what was peeked … -/
theorem peekTok_of_nextTok {st : PState} {k : Token} (h : nextTok st = some k) : peekTok st = some k := by
  obtain ⟨h1, h2, _⟩ := toks_of_nextTok h
  rw [peekTok_cons h1, h2]

/-- … and conversely unless it is an opening bracket beyond the nesting limit -/
theorem nextTok_of_peekTok {st : PState} {k : Token} (h : peekTok st = some k)
    (hd : isOpenBracket k = false ∨ tooDeep (st.depth + 1) = false) : nextTok st = some k := by
  cases hs : st.toks with
  | nil => rw [peekTok_nil hs] at h; cases h
  | cons a r =>
    rw [peekTok_cons hs] at h
    have hr := tok?_eq_some.mp h
    rw [nextTok_cons hs]
    unfold deliver
    simp only [hr]
    have : ¬ (isOpenBracket k = true ∧ tooDeep (st.depth + 1) = true) := by
      rcases hd with hd | hd <;> simp [hd]
    simp [this, h]

theorem nextTok_iff_peekTok {st : PState} {k : Token} (hk : isOpenBracket k = false) :
    nextTok st = some k ↔ peekTok st = some k :=
  ⟨peekTok_of_nextTok, fun h => nextTok_of_peekTok h (.inl hk)⟩

/-- rewriting the parser's peek to `nextTok` where an item is deliverable (a conditional simp
lemma: the side condition is discharged from a hypothesis `nextTok st = some k` in the simp set) -/
@[simp] theorem peekTok_eq_nextTok {st : PState} (h : (nextTok st).isSome = true) :
    peekTok st = nextTok st := by
  obtain ⟨k, hk⟩ := Option.isSome_iff_exists.mp h
  rw [hk, peekTok_of_nextTok hk]

/-- the step `next` itself -/
theorem next_of_nextTok {st : PState} {k : Token} (h : nextTok st = some k) :
    st.next = (some (tokAt st), adv st) := by
  have h1 : st.next.1 = some (tokAt st) := by
    rw [next_fst, (toks_of_nextTok h).2.2]; rfl
  exact Prod.ext h1 rfl

/-- the raw item at the head is a lexical error -/
def peekErr (st : PState) : Bool :=
  match st.toks with
  | tk :: _ => tk.tok?.isNone
  | [] => false

theorem peekErr_of_peekTok {st : PState} {k : Token} (h : peekTok st = some k) : peekErr st = false := by
  rw [peekTok_eq] at h
  unfold peekErr
  cases hs : st.toks with
  | nil => rfl
  | cons a r => simp [hs] at h; simp [h]

theorem peekErr_of_nextTok {st : PState} {k : Token} (h : nextTok st = some k) : peekErr st = false :=
  peekErr_of_peekTok (peekTok_of_nextTok h)

@[simp] theorem peekIs_iff (st : PState) (k : Token) : peekIs st k = true ↔ peekTok st = some k := by
  simp [peekIs]

theorem peekIs_false_iff (st : PState) (k : Token) : peekIs st k = false ↔ peekTok st ≠ some k := by
  simp [peekIs]

theorem peekIn_iff (st : PState) (ks : List Token) :
    peekIn st ks = true ↔ ∃ k, peekTok st = some k ∧ k ∈ ks := by
  unfold peekIn; split <;> simp_all

@[simp] theorem peek2Tok_eq (st : PState) : peek2Tok st = peekTok (adv st) := by
  simp [peek2Tok, PState.peek2, peekTok, PState.peek, adv_toks, List.drop_one]

/-! ### `parse_token` -/

theorem parseToken_eq_ok {st : PState} {k : Token} {tk : LTok} {st' : PState} :
    parseToken st k = .ok (tk, st') ↔ nextTok st = some k ∧ tk = tokAt st ∧ st' = adv st := by
  constructor
  · intro h
    unfold parseToken at h
    have hn := nextTok_eq_next st
    cases hnx : st.next with
    | mk o st1 =>
      rw [hnx] at h hn
      cases o with
      | none => simp at h
      | some t =>
        simp only at h
        cases hr : t.res with
        | error e => simp [hr] at h
        | ok found =>
          simp only [hr] at h
          split at h
          · rename_i hf
            cases h
            subst hf
            have hk : nextTok st = some found := by rw [hn]; simp [tok?_ok hr]
            have := next_of_nextTok hk
            rw [hnx] at this
            cases this
            exact ⟨hk, rfl, rfl⟩
          · cases h
  · rintro ⟨h, rfl, rfl⟩
    unfold parseToken
    rw [next_of_nextTok h]
    have := tok?_eq_some.mp (toks_of_nextTok h).2.1
    simp [this]

/-- a terminal of the grammar on an abstracted state -/
theorem mem_t_abs (k : Token) (hk : isLit k = true) (st : PState) (u : Unit) (r : List STok) :
    (u, r) ∈ t (litText k) (abs st) ↔ nextTok st = some k ∧ r = abs (adv st) := by
  cases hs : st.toks with
  | nil => simp [abs_nil hs, nextTok_nil hs]
  | cons a l =>
    have he : abs st = absTok (deliver st.depth a) :: abs (adv st) := by
      unfold abs; rw [eff_cons hs]; simp
    rw [he, t_abs k hk, nextTok_cons hs]
    split <;> simp_all

theorem mem_class_abs (k : Token) (c : SKind) (hc : classOf k = some c) (st : PState) (s : Str)
    (r : List STok) :
    (s, r) ∈ class_ c (abs st) ↔ nextTok st = some k ∧ s = (tokAt st).text ∧ r = abs (adv st) := by
  cases hs : st.toks with
  | nil => simp [abs_nil hs, nextTok_nil hs]
  | cons a l =>
    by_cases hk : nextTok st = some k
    · rw [abs_of_nextTok hk, class_abs k c hc, (toks_of_nextTok hk).2.1]
      simp [hk]
    · have he : abs st = absTok (deliver st.depth a) :: abs (adv st) := by
        unfold abs; rw [eff_cons hs]; simp
      rw [he, class_abs k c hc, ← nextTok_cons hs]
      simp [hk]

/-- generic form: a terminal consumes exactly its own token -/
theorem mem_t (s : String) (ts : List STok) (u : Unit) (r : List STok) :
    (u, r) ∈ t s ts ↔ ts = ⟨.lit, s.toList⟩ :: r := by
  cases ts with
  | nil => simp
  | cons a l =>
    obtain ⟨k, tx⟩ := a
    simp only [t]
    split
    · rename_i h
      simp at h
      simp [h.1, h.2, eq_comm]
    · rename_i h
      simp at h
      simp
      intro h1 h2; subst h1 h2; simp at h

/-! ### one membership rule per terminal -/


@[simp] theorem mem_t_ImportKeyword (st : PState) (u : Unit) (r : List STok) :
    (u, r) ∈ t "import" (abs st) ↔ nextTok st = some .ImportKeyword ∧ r = abs (adv st) := mem_t_abs .ImportKeyword rfl st u r
@[simp] theorem mem_t_WithKeyword (st : PState) (u : Unit) (r : List STok) :
    (u, r) ∈ t "with" (abs st) ↔ nextTok st = some .WithKeyword ∧ r = abs (adv st) := mem_t_abs .WithKeyword rfl st u r
@[simp] theorem mem_t_TypeKeyword (st : PState) (u : Unit) (r : List STok) :
    (u, r) ∈ t "type" (abs st) ↔ nextTok st = some .TypeKeyword ∧ r = abs (adv st) := mem_t_abs .TypeKeyword rfl st u r
@[simp] theorem mem_t_TupleKeyword (st : PState) (u : Unit) (r : List STok) :
    (u, r) ∈ t "tuple" (abs st) ↔ nextTok st = some .TupleKeyword ∧ r = abs (adv st) := mem_t_abs .TupleKeyword rfl st u r
@[simp] theorem mem_t_ListKeyword (st : PState) (u : Unit) (r : List STok) :
    (u, r) ∈ t "list" (abs st) ↔ nextTok st = some .ListKeyword ∧ r = abs (adv st) := mem_t_abs .ListKeyword rfl st u r
@[simp] theorem mem_t_OptionKeyword (st : PState) (u : Unit) (r : List STok) :
    (u, r) ∈ t "option" (abs st) ↔ nextTok st = some .OptionKeyword ∧ r = abs (adv st) := mem_t_abs .OptionKeyword rfl st u r
@[simp] theorem mem_t_ResultKeyword (st : PState) (u : Unit) (r : List STok) :
    (u, r) ∈ t "result" (abs st) ↔ nextTok st = some .ResultKeyword ∧ r = abs (adv st) := mem_t_abs .ResultKeyword rfl st u r
@[simp] theorem mem_t_BorrowKeyword (st : PState) (u : Unit) (r : List STok) :
    (u, r) ∈ t "borrow" (abs st) ↔ nextTok st = some .BorrowKeyword ∧ r = abs (adv st) := mem_t_abs .BorrowKeyword rfl st u r
@[simp] theorem mem_t_ResourceKeyword (st : PState) (u : Unit) (r : List STok) :
    (u, r) ∈ t "resource" (abs st) ↔ nextTok st = some .ResourceKeyword ∧ r = abs (adv st) := mem_t_abs .ResourceKeyword rfl st u r
@[simp] theorem mem_t_VariantKeyword (st : PState) (u : Unit) (r : List STok) :
    (u, r) ∈ t "variant" (abs st) ↔ nextTok st = some .VariantKeyword ∧ r = abs (adv st) := mem_t_abs .VariantKeyword rfl st u r
@[simp] theorem mem_t_RecordKeyword (st : PState) (u : Unit) (r : List STok) :
    (u, r) ∈ t "record" (abs st) ↔ nextTok st = some .RecordKeyword ∧ r = abs (adv st) := mem_t_abs .RecordKeyword rfl st u r
@[simp] theorem mem_t_FlagsKeyword (st : PState) (u : Unit) (r : List STok) :
    (u, r) ∈ t "flags" (abs st) ↔ nextTok st = some .FlagsKeyword ∧ r = abs (adv st) := mem_t_abs .FlagsKeyword rfl st u r
@[simp] theorem mem_t_EnumKeyword (st : PState) (u : Unit) (r : List STok) :
    (u, r) ∈ t "enum" (abs st) ↔ nextTok st = some .EnumKeyword ∧ r = abs (adv st) := mem_t_abs .EnumKeyword rfl st u r
@[simp] theorem mem_t_FuncKeyword (st : PState) (u : Unit) (r : List STok) :
    (u, r) ∈ t "func" (abs st) ↔ nextTok st = some .FuncKeyword ∧ r = abs (adv st) := mem_t_abs .FuncKeyword rfl st u r
@[simp] theorem mem_t_StaticKeyword (st : PState) (u : Unit) (r : List STok) :
    (u, r) ∈ t "static" (abs st) ↔ nextTok st = some .StaticKeyword ∧ r = abs (adv st) := mem_t_abs .StaticKeyword rfl st u r
@[simp] theorem mem_t_ConstructorKeyword (st : PState) (u : Unit) (r : List STok) :
    (u, r) ∈ t "constructor" (abs st) ↔ nextTok st = some .ConstructorKeyword ∧ r = abs (adv st) := mem_t_abs .ConstructorKeyword rfl st u r
@[simp] theorem mem_t_U8Keyword (st : PState) (u : Unit) (r : List STok) :
    (u, r) ∈ t "u8" (abs st) ↔ nextTok st = some .U8Keyword ∧ r = abs (adv st) := mem_t_abs .U8Keyword rfl st u r
@[simp] theorem mem_t_S8Keyword (st : PState) (u : Unit) (r : List STok) :
    (u, r) ∈ t "s8" (abs st) ↔ nextTok st = some .S8Keyword ∧ r = abs (adv st) := mem_t_abs .S8Keyword rfl st u r
@[simp] theorem mem_t_U16Keyword (st : PState) (u : Unit) (r : List STok) :
    (u, r) ∈ t "u16" (abs st) ↔ nextTok st = some .U16Keyword ∧ r = abs (adv st) := mem_t_abs .U16Keyword rfl st u r
@[simp] theorem mem_t_S16Keyword (st : PState) (u : Unit) (r : List STok) :
    (u, r) ∈ t "s16" (abs st) ↔ nextTok st = some .S16Keyword ∧ r = abs (adv st) := mem_t_abs .S16Keyword rfl st u r
@[simp] theorem mem_t_U32Keyword (st : PState) (u : Unit) (r : List STok) :
    (u, r) ∈ t "u32" (abs st) ↔ nextTok st = some .U32Keyword ∧ r = abs (adv st) := mem_t_abs .U32Keyword rfl st u r
@[simp] theorem mem_t_S32Keyword (st : PState) (u : Unit) (r : List STok) :
    (u, r) ∈ t "s32" (abs st) ↔ nextTok st = some .S32Keyword ∧ r = abs (adv st) := mem_t_abs .S32Keyword rfl st u r
@[simp] theorem mem_t_U64Keyword (st : PState) (u : Unit) (r : List STok) :
    (u, r) ∈ t "u64" (abs st) ↔ nextTok st = some .U64Keyword ∧ r = abs (adv st) := mem_t_abs .U64Keyword rfl st u r
@[simp] theorem mem_t_S64Keyword (st : PState) (u : Unit) (r : List STok) :
    (u, r) ∈ t "s64" (abs st) ↔ nextTok st = some .S64Keyword ∧ r = abs (adv st) := mem_t_abs .S64Keyword rfl st u r
@[simp] theorem mem_t_F32Keyword (st : PState) (u : Unit) (r : List STok) :
    (u, r) ∈ t "f32" (abs st) ↔ nextTok st = some .F32Keyword ∧ r = abs (adv st) := mem_t_abs .F32Keyword rfl st u r
@[simp] theorem mem_t_F64Keyword (st : PState) (u : Unit) (r : List STok) :
    (u, r) ∈ t "f64" (abs st) ↔ nextTok st = some .F64Keyword ∧ r = abs (adv st) := mem_t_abs .F64Keyword rfl st u r
@[simp] theorem mem_t_CharKeyword (st : PState) (u : Unit) (r : List STok) :
    (u, r) ∈ t "char" (abs st) ↔ nextTok st = some .CharKeyword ∧ r = abs (adv st) := mem_t_abs .CharKeyword rfl st u r
@[simp] theorem mem_t_BoolKeyword (st : PState) (u : Unit) (r : List STok) :
    (u, r) ∈ t "bool" (abs st) ↔ nextTok st = some .BoolKeyword ∧ r = abs (adv st) := mem_t_abs .BoolKeyword rfl st u r
@[simp] theorem mem_t_StringKeyword (st : PState) (u : Unit) (r : List STok) :
    (u, r) ∈ t "string" (abs st) ↔ nextTok st = some .StringKeyword ∧ r = abs (adv st) := mem_t_abs .StringKeyword rfl st u r
@[simp] theorem mem_t_InterfaceKeyword (st : PState) (u : Unit) (r : List STok) :
    (u, r) ∈ t "interface" (abs st) ↔ nextTok st = some .InterfaceKeyword ∧ r = abs (adv st) := mem_t_abs .InterfaceKeyword rfl st u r
@[simp] theorem mem_t_WorldKeyword (st : PState) (u : Unit) (r : List STok) :
    (u, r) ∈ t "world" (abs st) ↔ nextTok st = some .WorldKeyword ∧ r = abs (adv st) := mem_t_abs .WorldKeyword rfl st u r
@[simp] theorem mem_t_ExportKeyword (st : PState) (u : Unit) (r : List STok) :
    (u, r) ∈ t "export" (abs st) ↔ nextTok st = some .ExportKeyword ∧ r = abs (adv st) := mem_t_abs .ExportKeyword rfl st u r
@[simp] theorem mem_t_NewKeyword (st : PState) (u : Unit) (r : List STok) :
    (u, r) ∈ t "new" (abs st) ↔ nextTok st = some .NewKeyword ∧ r = abs (adv st) := mem_t_abs .NewKeyword rfl st u r
@[simp] theorem mem_t_LetKeyword (st : PState) (u : Unit) (r : List STok) :
    (u, r) ∈ t "let" (abs st) ↔ nextTok st = some .LetKeyword ∧ r = abs (adv st) := mem_t_abs .LetKeyword rfl st u r
@[simp] theorem mem_t_UseKeyword (st : PState) (u : Unit) (r : List STok) :
    (u, r) ∈ t "use" (abs st) ↔ nextTok st = some .UseKeyword ∧ r = abs (adv st) := mem_t_abs .UseKeyword rfl st u r
@[simp] theorem mem_t_IncludeKeyword (st : PState) (u : Unit) (r : List STok) :
    (u, r) ∈ t "include" (abs st) ↔ nextTok st = some .IncludeKeyword ∧ r = abs (adv st) := mem_t_abs .IncludeKeyword rfl st u r
@[simp] theorem mem_t_AsKeyword (st : PState) (u : Unit) (r : List STok) :
    (u, r) ∈ t "as" (abs st) ↔ nextTok st = some .AsKeyword ∧ r = abs (adv st) := mem_t_abs .AsKeyword rfl st u r
@[simp] theorem mem_t_PackageKeyword (st : PState) (u : Unit) (r : List STok) :
    (u, r) ∈ t "package" (abs st) ↔ nextTok st = some .PackageKeyword ∧ r = abs (adv st) := mem_t_abs .PackageKeyword rfl st u r
@[simp] theorem mem_t_TargetsKeyword (st : PState) (u : Unit) (r : List STok) :
    (u, r) ∈ t "targets" (abs st) ↔ nextTok st = some .TargetsKeyword ∧ r = abs (adv st) := mem_t_abs .TargetsKeyword rfl st u r
@[simp] theorem mem_t_Semicolon (st : PState) (u : Unit) (r : List STok) :
    (u, r) ∈ t ";" (abs st) ↔ nextTok st = some .Semicolon ∧ r = abs (adv st) := mem_t_abs .Semicolon rfl st u r
@[simp] theorem mem_t_OpenBrace (st : PState) (u : Unit) (r : List STok) :
    (u, r) ∈ t "{" (abs st) ↔ nextTok st = some .OpenBrace ∧ r = abs (adv st) := mem_t_abs .OpenBrace rfl st u r
@[simp] theorem mem_t_CloseBrace (st : PState) (u : Unit) (r : List STok) :
    (u, r) ∈ t "}" (abs st) ↔ nextTok st = some .CloseBrace ∧ r = abs (adv st) := mem_t_abs .CloseBrace rfl st u r
@[simp] theorem mem_t_Colon (st : PState) (u : Unit) (r : List STok) :
    (u, r) ∈ t ":" (abs st) ↔ nextTok st = some .Colon ∧ r = abs (adv st) := mem_t_abs .Colon rfl st u r
@[simp] theorem mem_t_Equals (st : PState) (u : Unit) (r : List STok) :
    (u, r) ∈ t "=" (abs st) ↔ nextTok st = some .Equals ∧ r = abs (adv st) := mem_t_abs .Equals rfl st u r
@[simp] theorem mem_t_OpenParen (st : PState) (u : Unit) (r : List STok) :
    (u, r) ∈ t "(" (abs st) ↔ nextTok st = some .OpenParen ∧ r = abs (adv st) := mem_t_abs .OpenParen rfl st u r
@[simp] theorem mem_t_CloseParen (st : PState) (u : Unit) (r : List STok) :
    (u, r) ∈ t ")" (abs st) ↔ nextTok st = some .CloseParen ∧ r = abs (adv st) := mem_t_abs .CloseParen rfl st u r
@[simp] theorem mem_t_Arrow (st : PState) (u : Unit) (r : List STok) :
    (u, r) ∈ t "->" (abs st) ↔ nextTok st = some .Arrow ∧ r = abs (adv st) := mem_t_abs .Arrow rfl st u r
@[simp] theorem mem_t_OpenAngle (st : PState) (u : Unit) (r : List STok) :
    (u, r) ∈ t "<" (abs st) ↔ nextTok st = some .OpenAngle ∧ r = abs (adv st) := mem_t_abs .OpenAngle rfl st u r
@[simp] theorem mem_t_CloseAngle (st : PState) (u : Unit) (r : List STok) :
    (u, r) ∈ t ">" (abs st) ↔ nextTok st = some .CloseAngle ∧ r = abs (adv st) := mem_t_abs .CloseAngle rfl st u r
@[simp] theorem mem_t_Underscore (st : PState) (u : Unit) (r : List STok) :
    (u, r) ∈ t "_" (abs st) ↔ nextTok st = some .Underscore ∧ r = abs (adv st) := mem_t_abs .Underscore rfl st u r
@[simp] theorem mem_t_OpenBracket (st : PState) (u : Unit) (r : List STok) :
    (u, r) ∈ t "[" (abs st) ↔ nextTok st = some .OpenBracket ∧ r = abs (adv st) := mem_t_abs .OpenBracket rfl st u r
@[simp] theorem mem_t_CloseBracket (st : PState) (u : Unit) (r : List STok) :
    (u, r) ∈ t "]" (abs st) ↔ nextTok st = some .CloseBracket ∧ r = abs (adv st) := mem_t_abs .CloseBracket rfl st u r
@[simp] theorem mem_t_Dot (st : PState) (u : Unit) (r : List STok) :
    (u, r) ∈ t "." (abs st) ↔ nextTok st = some .Dot ∧ r = abs (adv st) := mem_t_abs .Dot rfl st u r
@[simp] theorem mem_t_Ellipsis (st : PState) (u : Unit) (r : List STok) :
    (u, r) ∈ t "..." (abs st) ↔ nextTok st = some .Ellipsis ∧ r = abs (adv st) := mem_t_abs .Ellipsis rfl st u r
@[simp] theorem mem_t_Comma (st : PState) (u : Unit) (r : List STok) :
    (u, r) ∈ t "," (abs st) ↔ nextTok st = some .Comma ∧ r = abs (adv st) := mem_t_abs .Comma rfl st u r
@[simp] theorem mem_t_Slash (st : PState) (u : Unit) (r : List STok) :
    (u, r) ∈ t "/" (abs st) ↔ nextTok st = some .Slash ∧ r = abs (adv st) := mem_t_abs .Slash rfl st u r
@[simp] theorem mem_t_At (st : PState) (u : Unit) (r : List STok) :
    (u, r) ∈ t "@" (abs st) ↔ nextTok st = some .At ∧ r = abs (adv st) := mem_t_abs .At rfl st u r

@[simp] theorem mem_class_id (st : PState) (s : Str) (r : List STok) :
    (s, r) ∈ class_ .id (abs st) ↔ nextTok st = some .Ident ∧ s = (tokAt st).text ∧ r = abs (adv st) :=
  mem_class_abs .Ident .id rfl st s r
@[simp] theorem mem_class_string (st : PState) (s : Str) (r : List STok) :
    (s, r) ∈ class_ .string (abs st) ↔ nextTok st = some .String ∧ s = (tokAt st).text ∧ r = abs (adv st) :=
  mem_class_abs .String .string rfl st s r
@[simp] theorem mem_class_packageName (st : PState) (s : Str) (r : List STok) :
    (s, r) ∈ class_ .packageName (abs st) ↔
      nextTok st = some .PackageName ∧ s = (tokAt st).text ∧ r = abs (adv st) :=
  mem_class_abs .PackageName .packageName rfl st s r
@[simp] theorem mem_class_packagePath (st : PState) (s : Str) (r : List STok) :
    (s, r) ∈ class_ .packagePath (abs st) ↔
      nextTok st = some .PackagePath ∧ s = (tokAt st).text ∧ r = abs (adv st) :=
  mem_class_abs .PackagePath .packagePath rfl st s r

end Wac.C12
