import WacProofs.Lemmas.Plug3
/-
  C10, `socket_exports_reexported`: what every step of `plug` keeps (`Keeps`), and the
  re-export loop.
-/
namespace Wac.Graph
open Wac Wac.HashSites

/-- what survives every step of `plug`: the package table, edges, export-map entries, and of
    every live node its package, item kind and "is an instantiation" -/
structure Keeps (g g' : Graph) : Prop where
  pkgs : g'.pkgs = g.pkgs
  edges : ∀ e ∈ g.edges, e ∈ g'.edges
  exports : ∀ k a, alGet g.exports k = some a → alGet g'.exports k = some a
  nodes : ∀ m x, g.node? m = some x →
    ∃ x', g'.node? m = some x' ∧ x'.item = x.item ∧ x'.pkg = x.pkg ∧ x'.isInst = x.isInst

theorem Keeps.refl (g : Graph) : Keeps g g :=
  ⟨rfl, fun _ h => h, fun _ _ h => h, fun _ x h => ⟨x, h, rfl, rfl, rfl⟩⟩

theorem Keeps.trans {a b c : Graph} (h1 : Keeps a b) (h2 : Keeps b c) : Keeps a c := by
  refine ⟨h2.pkgs.trans h1.pkgs, fun e he => h2.edges e (h1.edges e he),
    fun k v hk => h2.exports k v (h1.exports k v hk), ?_⟩
  intro m x hx
  obtain ⟨y, hy, y1, y2, y3⟩ := h1.nodes m x hx
  obtain ⟨z, hz, z1, z2, z3⟩ := h2.nodes m y hy
  exact ⟨z, hz, z1.trans y1, z2.trans y2, z3.trans y3⟩

theorem addNode_keeps {ctx : Ctx} {g : Graph} (h : Inv ctx g) (nd : Node) : Keeps g (g.addNode nd).1 := by
  have a := added_of_addNode h nd
  refine ⟨a.pkgs, fun e he => by rw [a.edges]; exact he, fun k v hk => by rw [a.exports]; exact hk, ?_⟩
  intro m x hx
  exact ⟨x, (a.old hx).1, rfl, rfl, rfl⟩

theorem addEdge_keeps (g : Graph) (s d : Nat) (k : EdgeKind) : Keeps g (g.addEdge s d k) :=
  ⟨rfl, fun _ he => List.mem_cons_of_mem _ he, fun _ _ h => h, fun _ x h => ⟨x, h, rfl, rfl, rfl⟩⟩

theorem instantiate_keeps {ctx : Ctx} {g : Graph} (h : Inv ctx g) (id : PkgId) : Keeps g (instantiate g id).1 := by
  unfold instantiate
  split
  · exact Keeps.refl g
  · exact addNode_keeps h _

theorem findAliasEdge_some {es : List Edge} {i t : Nat} (h : findAliasEdge es i = some t) :
    ∃ e ∈ es, e.kind = .alias i ∧ e.dst = t := by
  induction es with
  | nil => simp [findAliasEdge] at h
  | cons x r ih =>
    unfold findAliasEdge at h
    split at h
    · rename_i hk
      simp only [Option.some.injEq] at h
      exact ⟨x, List.mem_cons_self .., hk, h⟩
    · obtain ⟨e, he, h1, h2⟩ := ih h
      exact ⟨e, List.mem_cons_of_mem _ he, h1, h2⟩

/-- `alias_instance_export`: what it keeps, and on success the alias edge of the named export -/
theorem alias_keeps {ctx : Ctx} {g : Graph} (h : Inv ctx g) (inst : Nat) (ename : Str) :
    Keeps g (aliasInstanceExport ctx g inst ename).1 ∧
    ∀ a, (aliasInstanceExport ctx g inst ename).2 = .ok (.node a) →
      ∃ nd exps i k, g.node? inst = some nd ∧ ctx.kindExports nd.item = some exps ∧
        alFull exps ename = some (i, k) ∧
        (⟨inst, a, .alias i⟩ : Edge) ∈ (aliasInstanceExport ctx g inst ename).1.edges := by
  unfold aliasInstanceExport
  split
  · exact ⟨Keeps.refl g, fun a ha => by cases ha⟩
  · rename_i nd hnd
    split
    · exact ⟨Keeps.refl g, fun a ha => by cases ha⟩
    · rename_i exps hexps
      split
      · exact ⟨Keeps.refl g, fun a ha => by cases ha⟩
      · rename_i i k hfull
        split
        · rename_i t ht
          refine ⟨Keeps.refl g, fun a ha => ?_⟩
          simp only [Outcome.ok.injEq, Val.node.injEq] at ha
          subst ha
          obtain ⟨e, he, hk, hdst⟩ := findAliasEdge_some ht
          unfold Graph.outEdges at he
          rw [List.mem_filter] at he
          have hsrc : e.src = inst := by simpa using he.2
          refine ⟨nd, exps, i, k, hnd, hexps, hfull, ?_⟩
          have : e = ⟨inst, t, .alias i⟩ := by
            cases e
            simp only at hsrc hk hdst
            subst hsrc; subst hk; subst hdst
            rfl
          rw [← this]; exact he.1
        · refine ⟨(addNode_keeps h _).trans (addEdge_keeps _ _ _ _), fun a ha => ?_⟩
          simp only [Outcome.ok.injEq, Val.node.injEq] at ha
          subst ha
          exact ⟨nd, exps, i, k, hnd, hexps, hfull, List.mem_cons_self ..⟩

theorem setNode_keeps {g : Graph} {n : Nat} {nd nd' : Node} (hn : g.node? n = some nd) (h1 : nd'.item = nd.item)
    (h2 : nd'.pkg = nd.pkg) (h3 : nd'.isInst = nd.isInst) : Keeps g (g.setNode n nd') := by
  refine ⟨rfl, fun _ he => he, fun _ _ hk => hk, ?_⟩
  intro m x hx
  have hnode := node?_set (g := g) (g' := g.setNode n nd') (i := n) (x := some nd') rfl (node?_eq_some_lt hn) m
  by_cases hm : m = n
  · subst hm
    rw [hn] at hx
    cases hx
    exact ⟨nd', by rw [hnode]; simp, h1, h2, h3⟩
  · exact ⟨x, by rw [hnode]; simp [hm, hx], rfl, rfl, rfl⟩

theorem setArg_keeps (ctx : Ctx) (g : Graph) (inst : Nat) (name : Str) (arg : Nat) :
    Keeps g (setArg ctx g inst name arg).1 := by
  unfold setArg
  split
  · exact Keeps.refl g
  · rename_i nd hnd
    split
    · rename_i sat hk
      split
      · exact Keeps.refl g
      · split
        · exact Keeps.refl g
        · split
          · exact Keeps.refl g
          · split
            · exact Keeps.refl g
            · exact Keeps.refl g
            · exact Keeps.refl g
            · split
              · exact Keeps.refl g
              · split
                · exact Keeps.refl g
                · split
                  · exact Keeps.refl g
                  · simp only
                    refine Keeps.trans ?_ (setNode_keeps (nd := nd) ?_ rfl rfl ?_)
                    · exact addEdge_keeps _ _ _ _
                    · exact hnd
                    · simp [Node.isInst, hk]
    · exact Keeps.refl g

/-- `export`: what it keeps, and on success the entry of the export map -/
theorem exportNode_keeps (ctx : Ctx) (g : Graph) (n : Nat) (name : Str) :
    Keeps g (exportNode ctx g n name).1 ∧
    ∀ v, (exportNode ctx g n name).2 = .ok v → alGet (exportNode ctx g n name).1.exports name = some n := by
  unfold exportNode
  split
  · exact ⟨Keeps.refl g, fun v hv => by cases hv⟩
  · rename_i hnone
    split
    · exact ⟨Keeps.refl g, fun v hv => by cases hv⟩
    · split
      · exact ⟨Keeps.refl g, fun v hv => by cases hv⟩
      · rename_i nd hnd
        refine ⟨?_, fun v _ => ?_⟩
        · have hk : Keeps g (g.setNode n (match nd.kind with
              | .definition _ => if ctx.exportRenamesDefinition then { nd with exp := some name } else nd
              | _ => { nd with exp := some name })) := by
            apply setNode_keeps hnd
            · split
              · split <;> rfl
              · rfl
            · split
              · split <;> rfl
              · rfl
            · split
              · split <;> rfl
              · rfl
          refine ⟨hk.pkgs, hk.edges, ?_, hk.nodes⟩
          intro k a hka
          exact alGet_insert_other hnone hka
        · simp only
          rw [alGet_alInsert]
          simp

/-- the inner loop of `plug` keeps -/
theorem plugOne_keeps {ctx : Ctx} (si : Nat) (p : PkgId) : ∀ (l : List (Str × Str)) (g g' : Graph) (inst : Option Nat)
    (o : Option PlugOutcome), Inv ctx g → plugOne ctx si p l g inst = (g', o) → Keeps g g'
  | [], g, g', inst, o, _, hs => by
    simp only [plugOne, Prod.mk.injEq] at hs
    rw [← hs.1]; exact Keeps.refl g
  | (plugName, socketName) :: rest, g, g', inst, o, h, hs => by
    unfold plugOne at hs
    have key : ∀ (g1 : Graph) (i : Nat), Inv ctx g1 → Keeps g g1 →
        (match aliasInstanceExport ctx g1 i plugName with
          | (g2, .ok (.node a)) =>
            match setArg ctx g2 si socketName a with
            | (g3, .ok _) => plugOne ctx si p rest g3 (some i)
            | (g3, .err e) => (g3, some (.graphError e))
            | (g3, .panic s) => (g3, some (.panic s))
          | (g2, .err e) => (g2, some (.graphError e))
          | (g2, .panic s) => (g2, some (.panic s))
          | (g2, .ok _) => (g2, some (.panic .invalidNodeId))) = (g', o) → Keeps g g' := by
      intro g1 i h1 k1 hs1
      have ka := (alias_keeps h1 i plugName).1
      cases ha : aliasInstanceExport ctx g1 i plugName with
      | mk g2 oa =>
        have h2 : Inv ctx g2 := inv_aliasInstanceExport h1 ha
        rw [ha] at hs1 ka
        simp only at ka
        have k2 := k1.trans ka
        cases oa with
        | ok v =>
          cases v with
          | node a =>
            simp only at hs1
            have ks := setArg_keeps ctx g2 si socketName a
            cases hsa : setArg ctx g2 si socketName a with
            | mk g3 os =>
              have h3 : Inv ctx g3 := inv_setArg h2 hsa
              rw [hsa] at hs1 ks
              simp only at ks
              have k3 := k2.trans ks
              cases os with
              | ok v' => exact k3.trans (plugOne_keeps si p rest g3 g' (some i) o h3 hs1)
              | err e => simp only [Prod.mk.injEq] at hs1; rw [← hs1.1]; exact k3
              | panic s => simp only [Prod.mk.injEq] at hs1; rw [← hs1.1]; exact k3
          | unit => simp only [Prod.mk.injEq] at hs1; rw [← hs1.1]; exact k2
          | pkg id => simp only [Prod.mk.injEq] at hs1; rw [← hs1.1]; exact k2
        | err e => simp only [Prod.mk.injEq] at hs1; rw [← hs1.1]; exact k2
        | panic s => simp only [Prod.mk.injEq] at hs1; rw [← hs1.1]; exact k2
    cases inst with
    | some i =>
      simp only at hs
      exact key g i h (Keeps.refl g) hs
    | none =>
      simp only at hs
      have ki := instantiate_keeps h p
      cases hi : instantiate g p with
      | mk g1 oi =>
        have h1 : Inv ctx g1 := inv_instantiate h hi
        rw [hi] at hs ki
        simp only at ki
        cases oi with
        | ok v =>
          cases v with
          | node i => simp only at hs; exact key g1 i h1 ki hs
          | unit => simp only [Prod.mk.injEq] at hs; rw [← hs.1]; exact ki
          | pkg id => simp only [Prod.mk.injEq] at hs; rw [← hs.1]; exact ki
        | err e => simp only [Prod.mk.injEq] at hs; rw [← hs.1]; exact ki
        | panic s => simp only [Prod.mk.injEq] at hs; rw [← hs.1]; exact ki

theorem plugAll_keeps {ctx : Ctx} (si : Nat) (socketD : PkgDef) : ∀ (ps : List PkgId) (g g' : Graph)
    (o : Option PlugOutcome), Inv ctx g → plugAll ctx si socketD ps g = (g', o) → Keeps g g'
  | [], g, g', o, _, hs => by
    simp only [plugAll, Prod.mk.injEq] at hs
    rw [← hs.1]; exact Keeps.refl g
  | p :: ps, g, g', o, h, hs => by
    unfold plugAll at hs
    cases hp : g.pkgOf p with
    | error s => rw [hp] at hs; simp only [Prod.mk.injEq] at hs; rw [← hs.1]; exact Keeps.refl g
    | ok plugD =>
      rw [hp] at hs
      simp only at hs
      cases h1 : plugOne ctx si p (plugExports ctx plugD socketD) g none with
      | mk g1 o1 =>
        have hi1 : Inv ctx g1 := plugOne_inv si p _ g g1 none o1 h h1
        have k1 := plugOne_keeps si p _ g g1 none o1 h h1
        rw [h1] at hs
        cases o1 with
        | some o' => simp only [Prod.mk.injEq] at hs; rw [← hs.1]; exact k1
        | none => exact k1.trans (plugAll_keeps si socketD ps g1 g' o hi1 hs)

/-- the completed re-export loop: every name of the list is an entry of the export map whose
    node is the target of the alias edge of that export of `si` -/
theorem exportSocket_spec {ctx : Ctx} (si : Nat) : ∀ (names : List Str) (g g' : Graph),
    Inv ctx g → exportSocket ctx si names g = (g', none) → Keeps g g' ∧
      ∀ nm ∈ names, ∃ a nd exps i k, g.node? si = some nd ∧ ctx.kindExports nd.item = some exps ∧
        alFull exps nm = some (i, k) ∧ alGet g'.exports nm = some a ∧ (⟨si, a, .alias i⟩ : Edge) ∈ g'.edges
  | [], g, g', _, hs => by
    simp only [exportSocket, Prod.mk.injEq] at hs
    rw [← hs.1]
    exact ⟨Keeps.refl g, fun _ hnm => nomatch hnm⟩
  | name :: rest, g, g', h, hs => by
    unfold exportSocket at hs
    have ka := alias_keeps h si name
    cases ha : aliasInstanceExport ctx g si name with
    | mk g1 oa =>
      have h1 : Inv ctx g1 := inv_aliasInstanceExport h ha
      rw [ha] at hs ka
      simp only at ka
      cases oa with
      | err e => simp at hs
      | panic s => simp at hs
      | ok v =>
        cases v with
        | unit => simp at hs
        | pkg id => simp at hs
        | node a =>
          simp only at hs
          obtain ⟨nd, exps, i, k, hnd, hexps, hfull, hedge⟩ := ka.2 a rfl
          have ke := exportNode_keeps ctx g1 a name
          cases he : exportNode ctx g1 a name with
          | mk g2 oe =>
            have h2 : Inv ctx g2 := inv_exportNode h1 he
            rw [he] at hs ke
            simp only at ke
            cases oe with
            | err e => simp at hs
            | panic s => simp at hs
            | ok w =>
              simp only at hs
              obtain ⟨kr, hr⟩ := exportSocket_spec si rest g2 g' h2 hs
              have k02 := ka.1.trans ke.1
              refine ⟨k02.trans kr, ?_⟩
              intro nm hnm
              rcases List.mem_cons.mp hnm with rfl | hnm'
              · exact ⟨a, nd, exps, i, k, hnd, hexps, hfull, kr.exports _ _ (ke.2 w rfl),
                  kr.edges _ (ke.1.edges _ hedge)⟩
              · obtain ⟨a', nd2, exps2, i2, k2, hnd2, hexps2, hfull2, hget2, hedge2⟩ := hr nm hnm'
                -- the node `si` of the later state has the item kind of the earlier one
                obtain ⟨x', hx', hitem, _, _⟩ := k02.nodes si nd hnd
                rw [hnd2] at hx'
                cases hx'
                rw [hitem] at hexps2
                exact ⟨a', nd, exps2, i2, k2, hnd, hexps2, hfull2, hget2, hedge2⟩

end Wac.Graph
