import WacModel.Spec.Scoped
import WacProofs.Lemmas.EncAgg2
/-
  The scoping invariant of the encoder model, kept by every step of `encode`:

  `SInv g A B C st` — the builder's counters are the counters of the items emitted so far, the
  items are well scoped, every index the encoder remembers (`node_indexes`, `packages`,
  `implicit_args`, `instances`) is below the counter of its index space, every import item
  emitted so far satisfies `A`, the argument list of every instantiate item `B`, every export item `C`.
  Nothing here depends on the hypotheses about the aggregated imports.
-/
namespace Wac
open Wac.Spec

/-! ### counters and scoping of item lists -/

theorem bump_apply (c : Kind → Nat) (it : Item) (k : Kind) :
    bump c it k = c k + (if it.alloc = some k then 1 else 0) := by
  unfold bump
  cases h : it.alloc with
  | none => simp
  | some k0 =>
    simp only
    by_cases hk : k = k0
    · subst hk; simp
    · have : ¬ k0 = k := fun e => hk e.symm
      simp [hk, this]

theorem bump_le (c : Kind → Nat) (it : Item) (k : Kind) : c k ≤ bump c it k := by
  rw [bump_apply]; omega

theorem wellScopedFrom_append (c : Kind → Nat) (l l' : Skeleton) :
    wellScopedFrom c (l ++ l') = (wellScopedFrom c l && wellScopedFrom (l.foldl bump c) l') := by
  induction l generalizing c with
  | nil => simp [wellScopedFrom]
  | cons it l ih => simp [wellScopedFrom, ih, Bool.and_assoc]

theorem wellScoped_snoc (l : Skeleton) (it : Item) :
    WellScoped (l ++ [it]) = (WellScoped l && operandsOk (countersOf l) it) := by
  unfold WellScoped countersOf
  rw [wellScopedFrom_append]
  simp [wellScopedFrom]

theorem countersOf_snoc (l : Skeleton) (it : Item) : countersOf (l ++ [it]) = bump (countersOf l) it := by
  simp [countersOf, List.foldl_append]

/-- an operand check only gets easier with larger counters -/
theorem operandsOk_mono {c c' : Kind → Nat} (h : ∀ k, c k ≤ c' k) (it : Item) (ho : operandsOk c it = true) :
    operandsOk c' it = true := by
  cases it with
  | «import» n k => rfl
  | typeDef => rfl
  | component b => rfl
  | instantiate cidx args =>
    simp only [operandsOk, Bool.and_eq_true, decide_eq_true_eq, List.all_eq_true] at ho ⊢
    exact ⟨Nat.lt_of_lt_of_le ho.1 (h _), fun a ha => Nat.lt_of_lt_of_le (ho.2 a ha) (h _)⟩
  | aliasExport i k n =>
    simp only [operandsOk, decide_eq_true_eq] at ho ⊢
    exact Nat.lt_of_lt_of_le ho (h _)
  | «export» n k i =>
    simp only [operandsOk, decide_eq_true_eq] at ho ⊢
    exact Nat.lt_of_lt_of_le ho (h _)
  | names es =>
    simp only [operandsOk, List.all_eq_true, decide_eq_true_eq] at ho ⊢
    exact fun e he => Nat.lt_of_lt_of_le (ho e he) (h _)

/-! ### the invariant -/

structure SInv (g : GraphVal) (A : Str → Kind → Prop) (B : List (Str × Kind × Nat) → Prop) (C : Str → Kind → Prop)
    (st : EncSt) : Prop where
  cnt : st.cnt = countersOf st.items
  wsc : WellScoped st.items = true
  nodes : ∀ n idx, natGet st.nodeIdx n = some idx → idx < st.cnt (kindOf g n)
  pkgs : ∀ s c, natGet st.pkgs s = some c → c < st.cnt .component
  implicit : ∀ n, ∀ a ∈ implicitList st.implicit n, a.2.2 < st.cnt a.2.1
  instances : ∀ d i, amGet st.instances d = some i → i < st.cnt .instance
  imports : ∀ n k, Item.import n k ∈ st.items → A n k
  insts : ∀ c args, Item.instantiate c args ∈ st.items → B args
  exports : ∀ n k i, Item.export n k i ∈ st.items → C n k

/-- the counters only grow -/
def CntLe (st st' : EncSt) : Prop := ∀ k, st.cnt k ≤ st'.cnt k

theorem CntLe.refl (st : EncSt) : CntLe st st := fun _ => Nat.le_refl _
theorem CntLe.trans {a b c : EncSt} (h1 : CntLe a b) (h2 : CntLe b c) : CntLe a c :=
  fun k => Nat.le_trans (h1 k) (h2 k)

theorem SInv.init {g : GraphVal} {A B C} : SInv g A B C {} :=
  ⟨rfl, rfl, by simp [natGet], by simp [natGet], by simp [implicitList, natGet], by simp [amGet], by simp, by simp, by simp⟩

theorem emit_cntLe (st : EncSt) (it : Item) : CntLe st (st.emit it).1 := by
  intro k; rw [emit_cnt]; omega

theorem emit_snd (st : EncSt) (it : Item) (k : Kind) (ha : it.alloc = some k) : (st.emit it).2 = st.cnt k := by
  unfold EncSt.emit; simp [ha]

theorem emit_snd_lt (st : EncSt) (it : Item) (k : Kind) (ha : it.alloc = some k) :
    (st.emit it).2 < (st.emit it).1.cnt k := by
  rw [emit_snd st it k ha, emit_cnt]; simp [ha]

theorem SInv.emit {g : GraphVal} {A B C} {st : EncSt} (h : SInv g A B C st) (it : Item)
    (hop : operandsOk st.cnt it = true) (hA : ∀ n k, it = .import n k → A n k)
    (hB : ∀ c args, it = .instantiate c args → B args) (hC : ∀ n k i, it = .export n k i → C n k) :
    SInv g A B C (st.emit it).1 := by
  have hle := emit_cntLe st it
  refine ⟨?_, ?_, ?_, ?_, ?_, ?_, ?_, ?_, ?_⟩
  · funext k
    rw [emit_cnt, emit_items, countersOf_snoc, bump_apply, ← h.cnt]
  · rw [emit_items, wellScoped_snoc, h.wsc, ← h.cnt, hop]; rfl
  · intro n idx hq
    rw [emit_nodeIdx] at hq
    exact Nat.lt_of_lt_of_le (h.nodes n idx hq) (hle _)
  · intro s c hq
    rw [emit_pkgs] at hq
    exact Nat.lt_of_lt_of_le (h.pkgs s c hq) (hle _)
  · intro n a ha
    rw [emit_implicit] at ha
    exact Nat.lt_of_lt_of_le (h.implicit n a ha) (hle _)
  · intro d i hq
    rw [emit_instances] at hq
    exact Nat.lt_of_lt_of_le (h.instances d i hq) (hle _)
  · intro n k hm
    rw [emit_items] at hm
    rcases List.mem_append.mp hm with h1 | h1
    · exact h.imports n k h1
    · simp only [List.mem_singleton] at h1
      exact hA n k h1.symm
  · intro c args hm
    rw [emit_items] at hm
    rcases List.mem_append.mp hm with h1 | h1
    · exact h.insts c args h1
    · simp only [List.mem_singleton] at h1
      exact hB c args h1.symm
  · intro n k i hm
    rw [emit_items] at hm
    rcases List.mem_append.mp hm with h1 | h1
    · exact h.exports n k i h1
    · simp only [List.mem_singleton] at h1
      exact hC n k i h1.symm

theorem SInv.emit_plain {g : GraphVal} {A B C} {st : EncSt} (h : SInv g A B C st) (it : Item)
    (hop : operandsOk st.cnt it = true) (hA : ∀ n k, it ≠ .import n k) (hB : ∀ c args, it ≠ .instantiate c args)
    (hC : ∀ n k i, it ≠ .export n k i) :
    SInv g A B C (st.emit it).1 :=
  h.emit it hop (fun n k e => absurd e (hA n k)) (fun c args e => absurd e (hB c args))
    (fun n k i e => absurd e (hC n k i))

theorem SInv.typeDef {g : GraphVal} {A B C} {st : EncSt} (h : SInv g A B C st) : SInv g A B C (st.emit .typeDef).1 :=
  h.emit_plain .typeDef rfl (by simp) (by simp) (by simp)

theorem SInv.import {g : GraphVal} {A B C} {st : EncSt} (h : SInv g A B C st) (n : Str) (k : Kind) (hA : A n k) :
    SInv g A B C (st.emit (.import n k)).1 :=
  h.emit _ rfl (by intro n' k' e; injection e with e1 e2; subst e1 e2; exact hA) (by simp) (by simp)

theorem SInv.setInstances {g : GraphVal} {A B C} {st : EncSt} (h : SInv g A B C st) (x : List (Str × Nat))
    (hx : ∀ d i, amGet x d = some i → i < st.cnt .instance) : SInv g A B C { st with instances := x } :=
  ⟨h.cnt, h.wsc, h.nodes, h.pkgs, h.implicit, hx, h.imports, h.insts, h.exports⟩

theorem SInv.setImplicit {g : GraphVal} {A B C} {st : EncSt} (h : SInv g A B C st) (x : List (Nat × List (Str × Kind × Nat)))
    (hx : ∀ n, ∀ a ∈ implicitList x n, a.2.2 < st.cnt a.2.1) : SInv g A B C { st with implicit := x } :=
  ⟨h.cnt, h.wsc, h.nodes, h.pkgs, hx, h.instances, h.imports, h.insts, h.exports⟩

theorem SInv.setNodeIdx {g : GraphVal} {A B C} {st : EncSt} (h : SInv g A B C st) (x : List (Nat × Nat))
    (hx : ∀ n idx, natGet x n = some idx → idx < st.cnt (kindOf g n)) : SInv g A B C { st with nodeIdx := x } :=
  ⟨h.cnt, h.wsc, hx, h.pkgs, h.implicit, h.instances, h.imports, h.insts, h.exports⟩

theorem SInv.setPkgs {g : GraphVal} {A B C} {st : EncSt} (h : SInv g A B C st) (x : List (Nat × Nat))
    (hx : ∀ s c, natGet x s = some c → c < st.cnt .component) : SInv g A B C { st with pkgs := x } :=
  ⟨h.cnt, h.wsc, h.nodes, hx, h.implicit, h.instances, h.imports, h.insts, h.exports⟩

/-! ### the import phase -/

theorem importDeps_sinv {g : GraphVal} {A B C} (ds : List Str) {st : EncSt} (h : SInv g A B C st)
    (hA : ∀ d ∈ ds, A d .instance) : SInv g A B C (importDeps ds st) ∧ CntLe st (importDeps ds st) := by
  induction ds generalizing st with
  | nil => exact ⟨h, CntLe.refl _⟩
  | cons d ds ih =>
    have hA' : ∀ d' ∈ ds, A d' .instance := fun d' h' => hA d' (List.mem_cons_of_mem _ h')
    simp only [importDeps]
    cases hq : amGet st.instances d with
    | some i => simpa [hq] using ih h hA'
    | none =>
      simp only [hq]
      have h1 := h.typeDef
      have h2 := h1.import d .instance (hA d (List.mem_cons_self ..))
      have hle : CntLe st ((st.emit .typeDef).1.emit (.import d .instance)).1 :=
        (emit_cntLe _ _).trans (emit_cntLe _ _)
      have h3 := h2.setInstances
        (amInsert ((st.emit .typeDef).1.emit (.import d .instance)).1.instances d
          ((st.emit .typeDef).1.emit (.import d .instance)).2) (by
          intro d' i hq'
          rw [amGet_amInsert'] at hq'
          by_cases hd : d = d'
          · simp only [hd, ↓reduceIte, Option.some.injEq] at hq'
            rw [← hq']
            exact emit_snd_lt _ _ .instance rfl
          · simp only [hd, ↓reduceIte] at hq'
            exact h2.instances d' i hq')
      have := ih h3 hA'
      exact ⟨this.1, hle.trans this.2⟩

theorem importItem_sinv {g : GraphVal} {A B C} {st : EncSt} (h : SInv g A B C st) (name : Str) (ty : ItemTy)
    (hA : A name ty.kind) (hAd : ty.kind = .instance → ∀ d ∈ ty.deps, A d .instance) :
    SInv g A B C (importItem id st name ty).1 ∧ CntLe st (importItem id st name ty).1 ∧
      (importItem id st name ty).2 < (importItem id st name ty).1.cnt ty.kind := by
  unfold importItem
  cases hre : (if ty.kind = .instance then
      match ty.iface with
      | some i => if providesIface name i then amGet st.instances i else none
      | none => none
    else none : Option Nat) with
  | some idx =>
    simp only
    refine ⟨h, CntLe.refl _, ?_⟩
    by_cases hk : ty.kind = .instance
    · simp only [hk, ↓reduceIte] at hre
      rw [hk]
      cases hif : ty.iface with
      | none => simp [hif] at hre
      | some i =>
        simp only [hif] at hre
        split at hre
        · exact h.instances i idx hre
        · cases hre
    · simp [hk] at hre
  | none =>
    simp only
    have hd : SInv g A B C (if ty.kind = .instance then importDeps (ty.deps.map id) st else st) ∧
        CntLe st (if ty.kind = .instance then importDeps (ty.deps.map id) st else st) := by
      split
      · rename_i hk
        exact importDeps_sinv _ h (by simpa using hAd hk)
      · exact ⟨h, CntLe.refl _⟩
    generalize (if ty.kind = .instance then importDeps (ty.deps.map id) st else st) = st0 at hd
    obtain ⟨h0, hle0⟩ := hd
    have h1 := h0.typeDef
    have h2 := h1.import name ty.kind hA
    have hle : CntLe st ((st0.emit .typeDef).1.emit (.import name ty.kind)).1 :=
      hle0.trans ((emit_cntLe _ _).trans (emit_cntLe _ _))
    have hlt := emit_snd_lt (st0.emit .typeDef).1 (.import name ty.kind) ty.kind rfl
    by_cases hk : ty.kind = .instance
    · simp only [hk, ↓reduceIte]
      cases hif : ty.iface with
      | none => exact ⟨by simpa [hk] using h2, by simpa [hk] using hle, by simpa [hk] using hlt⟩
      | some i =>
        simp only
        by_cases hp : providesIface name i = true
        · simp only [hp, ↓reduceIte]
          refine ⟨?_, by intro k; have := hle k; simpa [hk] using this, by simpa [hk] using hlt⟩
          have := h2.setInstances
            (amInsert ((st0.emit .typeDef).1.emit (.import name ty.kind)).1.instances i
              ((st0.emit .typeDef).1.emit (.import name ty.kind)).2) (by
              intro d' j hq'
              rw [amGet_amInsert'] at hq'
              by_cases hd : i = d'
              · simp only [hd, ↓reduceIte, Option.some.injEq] at hq'
                rw [← hq']
                simpa [hk] using hlt
              · simp only [hd, ↓reduceIte] at hq'
                exact h2.instances d' j hq')
          simpa [hk] using this
        · simp only [hp, Bool.false_eq_true, ↓reduceIte]
          exact ⟨by simpa [hk] using h2, by simpa [hk] using hle, by simpa [hk] using hlt⟩
    · simp only [hk, ↓reduceIte]
      exact ⟨h2, hle, hlt⟩

/-- every entry of `encoded` is in range and carries the kind of a list entry of its name -/
def EncRange (st : EncSt) (l : List (Str × ItemTy)) (enc : List (Str × (Kind × Nat))) : Prop :=
  ∀ nm k idx, amGet enc nm = some (k, idx) → idx < st.cnt k ∧ ∃ ty, (nm, ty) ∈ l ∧ k = ty.kind

theorem importAll_sinv {g : GraphVal} {A B C} (l : List (Str × ItemTy)) {st : EncSt} {enc : List (Str × (Kind × Nat))}
    (l0 : List (Str × ItemTy)) (h : SInv g A B C st) (he : EncRange st l0 enc)
    (hA : ∀ e ∈ l, A e.1 e.2.kind ∧ (e.2.kind = .instance → ∀ d ∈ e.2.deps, A d .instance)) :
    SInv g A B C (importAll id l st enc).1 ∧ CntLe st (importAll id l st enc).1 ∧
      EncRange (importAll id l st enc).1 (l0 ++ l) (importAll id l st enc).2 ∧
      (∀ e ∈ l, amGet (importAll id l st enc).2 e.1 ≠ none) ∧
      (∀ nm, amGet enc nm ≠ none → amGet (importAll id l st enc).2 nm ≠ none) := by
  induction l generalizing st enc l0 with
  | nil =>
    simp only [importAll, List.append_nil]
    exact ⟨h, CntLe.refl _, he, by simp, fun _ h => h⟩
  | cons e l ih =>
    obtain ⟨name, ty⟩ := e
    simp only [importAll]
    obtain ⟨hA1, hA2⟩ := hA (name, ty) (List.mem_cons_self ..)
    obtain ⟨h1, hle1, hlt1⟩ := importItem_sinv h name ty hA1 hA2
    have he1 : EncRange (importItem id st name ty).1 (l0 ++ [(name, ty)])
        (amInsert enc name (ty.kind, (importItem id st name ty).2)) := by
      intro nm k idx hq
      rw [amGet_amInsert'] at hq
      by_cases hn : name = nm
      · subst hn
        simp only [↓reduceIte, Option.some.injEq, Prod.mk.injEq] at hq
        obtain ⟨hkk, hidx⟩ := hq
        subst hkk hidx
        exact ⟨hlt1, ty, by simp, rfl⟩
      · simp only [hn, ↓reduceIte] at hq
        obtain ⟨h2, ty', hm, hkk⟩ := he nm k idx hq
        exact ⟨Nat.lt_of_lt_of_le h2 (hle1 _), ty', by simp [hm], hkk⟩
    obtain ⟨r1, r2, r3, r4, r5⟩ := ih (l0 ++ [(name, ty)]) h1 he1
      (fun e he' => hA e (List.mem_cons_of_mem _ he'))
    refine ⟨r1, hle1.trans r2, by simpa [List.append_assoc] using r3, ?_, ?_⟩
    · intro e he'
      rcases List.mem_cons.mp he' with e1 | e1
      · subst e1
        exact r5 name (by rw [amGet_amInsert']; simp)
      · exact r4 e e1
    · intro nm hne
      apply r5
      rw [amGet_amInsert']
      by_cases hn : name = nm
      · simp [hn]
      · simpa [hn] using hne

theorem fillImplicit_sinv {g : GraphVal} {A B C} {agg : Agg} {enc : List (Str × (Kind × Nat))} {l0 : List (Str × ItemTy)}
    (L : List (Str × Nat)) {st st' : EncSt} (h : SInv g A B C st) (hr : EncRange st l0 enc)
    (he : fillImplicit agg enc L st = .ok st') :
    SInv g A B C st' ∧ st'.cnt = st.cnt ∧ st'.items = st.items ∧ st'.nodeIdx = st.nodeIdx ∧ st'.pkgs = st.pkgs := by
  induction L generalizing st with
  | nil =>
    simp only [fillImplicit] at he
    injection he with he; subst he
    exact ⟨h, rfl, rfl, rfl, rfl⟩
  | cons e L ih =>
    obtain ⟨name, node⟩ := e
    simp only [fillImplicit] at he
    cases hq : amGet enc (agg.canonical name) with
    | none => simp [hq] at he
    | some ki =>
      obtain ⟨k, idx⟩ := ki
      simp only [hq] at he
      have h1 : SInv g A B C { st with implicit := pushImplicit st.implicit node (name, k, idx) } :=
        h.setImplicit _ (by
          intro n a ha
          rw [implicitList_push] at ha
          split at ha
          · rcases List.mem_append.mp ha with h2 | h2
            · exact h.implicit n a h2
            · simp only [List.mem_singleton] at h2
              subst h2
              exact (hr _ _ _ hq).1
          · exact h.implicit n a ha)
      obtain ⟨r1, r2, r3, r4, r5⟩ := ih h1 hr he
      exact ⟨r1, r2, r3, r4, r5⟩

theorem fillExplicit_sinv {g : GraphVal} {A B C} {agg : Agg} {enc : List (Str × (Kind × Nat))} {l0 : List (Str × ItemTy)}
    (L : List (Str × Nat)) {st st' : EncSt} (h : SInv g A B C st) (hr : EncRange st l0 enc)
    (hk : ∀ e ∈ L, ∀ k idx, amGet enc (agg.canonical e.1) = some (k, idx) → k = kindOf g e.2)
    (he : fillExplicit agg enc L st = .ok st') :
    SInv g A B C st' ∧ st'.cnt = st.cnt ∧ st'.items = st.items ∧ st'.implicit = st.implicit ∧ st'.pkgs = st.pkgs := by
  induction L generalizing st with
  | nil =>
    simp only [fillExplicit] at he
    injection he with he; subst he
    exact ⟨h, rfl, rfl, rfl, rfl⟩
  | cons e L ih =>
    obtain ⟨name, node⟩ := e
    simp only [fillExplicit] at he
    cases hq : amGet enc (agg.canonical name) with
    | none => simp [hq] at he
    | some ki =>
      obtain ⟨k, idx⟩ := ki
      simp only [hq] at he
      have hkk := hk (name, node) (List.mem_cons_self ..) k idx hq
      have h1 : SInv g A B C { st with nodeIdx := st.nodeIdx ++ [(node, idx)] } :=
        h.setNodeIdx _ (by
          intro n i hq'
          rw [natGet_snoc] at hq'
          cases hq0 : natGet st.nodeIdx n with
          | some x =>
            simp only [hq0, Option.some.injEq] at hq'
            subst hq'
            exact h.nodes n x hq0
          | none =>
            simp only [hq0] at hq'
            split at hq'
            · rename_i hn
              injection hq' with hq'
              subst hn hq'
              simp only at hkk
              rw [← hkk]
              exact (hr _ _ _ hq).1
            · cases hq')
      obtain ⟨r1, r2, r3, r4, r5⟩ := ih h1 hr (fun e he' => hk e (List.mem_cons_of_mem _ he')) he
      exact ⟨r1, r2, r3, r4, r5⟩

end Wac
