import WacProofs.Lemmas.GraphNoPanic
/-
  The public queries on a consistent graph: they do not fail, and every node they mention is
  live ("every query reflects exactly the surviving items").
-/
namespace Wac.Graph
open Wac Wac.HashSites

theorem mem_nodeIds {g : Graph} {m : Nat} : m ∈ g.nodeIds ↔ g.live m = true := by
  unfold Graph.nodeIds
  rw [List.mem_filter, List.mem_range]
  constructor
  · exact fun h => h.2
  · intro h
    obtain ⟨nd, hnd⟩ := live_iff.mp h
    exact ⟨node?_eq_some_lt hnd, h⟩

/-- `get_export` answers with a live node, and finds every exported node -/
theorem getExport_live {ctx : Ctx} {g : Graph} (h : Inv ctx g) {name : Str} {n : Nat}
    (hq : getExport g name = some n) : g.live n = true ∧ (name, n) ∈ g.exports := by
  have hm := alGet_eq_some_mem hq
  obtain ⟨x, hx, _⟩ := h.exportsLive' (name, n) hm
  exact ⟨live_iff.mpr ⟨x, hx⟩, hm⟩

theorem getExport_complete {ctx : Ctx} {g : Graph} (h : Inv ctx g) {name : Str} {n : Nat}
    (hm : (name, n) ∈ g.exports) : getExport g name = some n :=
  alGet_of_mem _ h.exportsKeys (name, n) hm

/-- `get_alias_source` of an alias node: its (only) incoming edge, a live instance node and the
    name of the aliased export -/
theorem getAliasSource_alias {ctx : Ctx} {g : Graph} (h : Inv ctx g) {n : Nat} {nd : Node}
    (hnd : g.node? n = some nd) (hk : nd.kind = .alias) :
    ∃ src ename, getAliasSource ctx g n = .ok (some (src, ename)) ∧ g.live src = true := by
  have h2 := (h.node hnd).2.1
  rw [hk] at h2
  simp only at h2
  obtain ⟨e0, hl⟩ := List.length_eq_one_iff.mp h2
  have he0 : e0 ∈ g.inEdges n := by rw [hl]; exact List.mem_cons_self ..
  unfold Graph.inEdges at he0
  rw [List.mem_filter] at he0
  have hd0 : e0.dst = n := by simpa using he0.2
  obtain ⟨s, hs, d, hd, hkk⟩ := h.edges e0 he0.1
  rw [hd0, Option.mem_def, hnd] at hd
  cases hd
  cases hek : e0.kind with
  | alias j =>
    rw [hek] at hkk
    simp only at hkk
    obtain ⟨_, _, exps, hexps, p, hp, _⟩ := hkk
    refine ⟨e0.src, p.1, ?_, live_iff.mpr ⟨s, hs⟩⟩
    unfold getAliasSource
    rw [hl]
    simp only [getAliasSource.go, hek]
    rw [Option.mem_def] at hs hexps hp
    rw [hs]
    simp only [hexps, hp]
  | arg j =>
    rw [hek] at hkk
    simp only at hkk
    have : nd.isInst = false := by simp [Node.isInst, hk]
    rw [this] at hkk; exact absurd hkk.2.1 (by simp)
  | dep =>
    rw [hek] at hkk
    simp only at hkk
    have : nd.isDef = false := by simp [Node.isDef, hk]
    have hdd := (dep_isDef hkk).2
    rw [this] at hdd; cases hdd

/-- the walk of `get_instantiation_arguments` over argument edges with in-range indices -/
theorem argsGo_ok (d : PkgDef) : ∀ (es : List Edge),
    (∀ e ∈ es, ∃ j, e.kind = .arg j ∧ j < d.imports.length) →
    ∃ l, getInstantiationArguments.go d es = .ok l ∧ l.map (·.2) = es.map (·.src)
  | [], _ => ⟨[], rfl, rfl⟩
  | e :: r, h => by
    obtain ⟨j, hj, hlt⟩ := h e (List.mem_cons_self ..)
    obtain ⟨l, hl, hm⟩ := argsGo_ok d r (fun e' he' => h e' (List.mem_cons_of_mem _ he'))
    have hget : ∃ p, d.imports[j]? = some p := ⟨d.imports[j], by simp [hlt]⟩
    obtain ⟨p, hp⟩ := hget
    refine ⟨(p.1, e.src) :: l, ?_, by simp [hm]⟩
    rw [getInstantiationArguments.go]
    simp only [hj, hp, hl]

/-- `get_instantiation_arguments` of an instantiation does not fail on a consistent graph and
    lists exactly the sources of its incoming edges -/
theorem getInstantiationArguments_sources {ctx : Ctx} {g : Graph} (h : Inv ctx g) {n : Nat} {nd : Node}
    (hnd : g.node? n = some nd) (hinst : nd.isInst = true) :
    ∃ l, getInstantiationArguments g n = .ok l ∧ l.map (·.2) = (g.inEdges n).map (·.src) := by
  unfold getInstantiationArguments
  rw [hnd]
  simp only
  cases hk : nd.kind with
  | instantiation sat =>
    simp only
    have h2 := (h.node hnd).2.1
    rw [hk] at h2
    simp only at h2
    obtain ⟨_, _, pid, hpid, pd, hpd, _⟩ := h2
    rw [Option.mem_def] at hpid
    rw [hpid]
    simp only
    -- the slot of the package
    have hok := toOption_mem.mp hpd
    unfold Graph.pkgOf at hok
    cases hs : g.pkgs[pid.index]? with
    | none => rw [hs] at hok; cases hok
    | some slot =>
      rw [hs] at hok
      simp only at hok ⊢
      split at hok
      · cases hok
      · cases hp : slot.pkg with
        | none => rw [hp] at hok; cases hok
        | some d =>
          rw [hp] at hok
          simp only [Except.ok.injEq] at hok
          subst hok
          simp only
          have hall : ∀ e ∈ g.inEdges n, ∃ j, e.kind = .arg j ∧ j < d.imports.length := by
            intro e he
            unfold Graph.inEdges at he
            rw [List.mem_filter] at he
            have hdst : e.dst = n := by simpa using he.2
            obtain ⟨s, _, dn, hdn, hkk⟩ := h.edges e he.1
            rw [hdst, Option.mem_def, hnd] at hdn
            cases hdn
            obtain ⟨j, hj, _⟩ := inEdges_of_inst h hnd hinst e he.1 hdst
            rw [hj] at hkk
            simp only at hkk
            obtain ⟨_, _, pid', hpid', pd', hpd', hlt⟩ := hkk
            rw [Option.mem_def, hpid] at hpid'
            cases hpid'
            have : pd' = d := by
              have h1 := toOption_mem.mp hpd'
              have h2 := toOption_mem.mp hpd
              rw [h1] at h2
              exact Except.ok.inj h2
            rw [this] at hlt
            exact ⟨j, hj, hlt⟩
          exact argsGo_ok d (g.inEdges n) hall
  | definition ty => simp [Node.isInst, hk] at hinst
  | «import» nm => simp [Node.isInst, hk] at hinst
  | alias => simp [Node.isInst, hk] at hinst

/-- `get_instantiation_arguments` does not fail on a consistent graph, and every argument
    source it reports is live -/
theorem getInstantiationArguments_ok {ctx : Ctx} {g : Graph} (h : Inv ctx g) (n : Nat) :
    ∃ l, getInstantiationArguments g n = .ok l ∧ ∀ p ∈ l, g.live p.2 = true := by
  cases hnd : g.node? n with
  | none =>
    refine ⟨[], ?_, fun _ hp => nomatch hp⟩
    unfold getInstantiationArguments
    rw [hnd]
  | some nd =>
    cases hinst : nd.isInst with
    | true =>
      obtain ⟨l, hl, hm⟩ := getInstantiationArguments_sources h hnd hinst
      refine ⟨l, hl, ?_⟩
      intro p hp'
      have : p.2 ∈ l.map (·.2) := List.mem_map_of_mem (f := (·.2)) hp'
      rw [hm] at this
      obtain ⟨e, he, hsrc⟩ := List.mem_map.mp this
      unfold Graph.inEdges at he
      rw [List.mem_filter] at he
      obtain ⟨⟨s, hs'⟩, _⟩ := h.edge_live he.1
      rw [← hsrc]
      exact live_iff.mpr ⟨s, hs'⟩
    | false =>
      refine ⟨[], ?_, fun _ hp => nomatch hp⟩
      unfold getInstantiationArguments
      rw [hnd]
      simp only
      unfold Node.isInst at hinst
      cases hk : nd.kind <;> simp [hk] at hinst ⊢

end Wac.Graph
