import WacModel.Aggregate
import WacProofs.Lemmas.C07Aux
/-
  C09 general theorems, part 1: running the `AggM` monad (`StateT AggState (Except AErr)`),
  sequential list traversals with an invariant, extension of the aggregator's arenas (`Ext`) and
  stability of unfolding under it, and fuel sufficiency for collections whose defined types all
  unfold (`Closed`).
-/
namespace Wac.AggP
open Wac Wac.Spec

/-! ### running `AggM` -/

theorem run_pure {α : Type} (a : α) (s : AggState) : (pure a : AggM α) s = .ok (a, s) := rfl

theorem run_bind {α β : Type} (m : AggM α) (f : α → AggM β) (s : AggState) :
    (m >>= f) s = match m s with
      | .ok (a, s') => f a s'
      | .error e => .error e := by
  show (StateT.bind m f) s = _
  simp only [StateT.bind, bind, Except.bind]
  cases m s with
  | error e => rfl
  | ok p => cases p; rfl

theorem bind_ok {α β : Type} {m : AggM α} {f : α → AggM β} {s : AggState} {r : β × AggState} :
    (m >>= f) s = .ok r ↔ ∃ a s', m s = .ok (a, s') ∧ f a s' = .ok r := by
  rw [run_bind]
  cases h : m s with
  | error e => simp
  | ok p =>
    obtain ⟨a, s'⟩ := p
    exact ⟨fun h => ⟨a, s', rfl, h⟩, fun ⟨a', s'', h1, h2⟩ => by cases h1; exact h2⟩

theorem bind_err {α β : Type} {m : AggM α} {f : α → AggM β} {s : AggState} {e : AErr} :
    (m >>= f) s = .error e ↔ m s = .error e ∨ ∃ a s', m s = .ok (a, s') ∧ f a s' = .error e := by
  rw [run_bind]
  cases h : m s with
  | error e' => simp
  | ok p =>
    obtain ⟨a, s'⟩ := p
    exact ⟨fun h => .inr ⟨a, s', rfl, h⟩, fun h => by
      rcases h with h | ⟨a', s'', h1, h2⟩
      · cases h
      · cases h1; exact h2⟩

theorem run_getAgg (s : AggState) : getAgg s = .ok (s.agg, s) := rfl
theorem run_get (s : AggState) : (get : AggM AggState) s = .ok (s, s) := rfl
theorem run_modifyAgg (f : Agg → Agg) (s : AggState) :
    modifyAgg f s = .ok ((), { s with agg := f s.agg }) := rfl
theorem run_modifyTypes (f : Types → Types) (s : AggState) :
    modifyTypes f s = .ok ((), { s with agg := { s.agg with types := f s.agg.types } }) := rfl
theorem run_bail {α : Type} (m : String) (s : AggState) : (bail m : AggM α) s = .error (.err m) := rfl
theorem run_apanic {α : Type} (m : String) (s : AggState) : (apanic m : AggM α) s = .error (.panic m) := rfl
theorem run_remappedGet (types : Types) (ty : Ty) (s : AggState) :
    remappedGet types ty s = .ok (alGet s.agg.remapped (GTy.mk' types ty), s) := rfl

theorem run_remappedInsertNew (types : Types) (ty v : Ty) (s : AggState) :
    remappedInsertNew types ty v s =
      if (alGet s.agg.remapped (GTy.mk' types ty)).isSome then .error (.panic "assertion failed: prev.is_none() (remapped)")
      else .ok ((), { s with agg := { s.agg with remapped := alInsert s.agg.remapped (GTy.mk' types ty) v } }) := by
  simp only [remappedInsertNew, run_bind, run_getAgg]
  split <;> rfl

theorem withCtx_ok {α : Type} {c : String} {act : AggM α} {s : AggState} {r : α × AggState} :
    withCtx c act s = .ok r ↔ act s = .ok r := by
  unfold withCtx
  cases h : act s with
  | ok p => simp
  | error e => cases e <;> simp

/-! ### list traversals with an invariant -/

/-- two lists related element by element -/
inductive All2 {α β : Type} (Q : α → β → Prop) : List α → List β → Prop
  | nil : All2 Q [] []
  | cons {a b l l'} : Q a b → All2 Q l l' → All2 Q (a :: l) (b :: l')

/-- `mapMList`: an invariant `I`, a preorder `R` on states the steps respect, and a per-element
postcondition `Q` that survives later steps -/
theorem mapMList_inv {α β : Type} {f : α → AggM β} {I : AggState → Prop} {R : AggState → AggState → Prop}
    {Q : AggState → α → β → Prop}
    (hrefl : ∀ s, R s s) (htrans : ∀ s s' s'', R s s' → R s' s'' → R s s'')
    (hmono : ∀ s s' a b, R s s' → Q s a b → Q s' a b) :
    ∀ (l : List α), (∀ a ∈ l, ∀ s b s', I s → f a s = .ok (b, s') → I s' ∧ R s s' ∧ Q s' a b) →
      ∀ s bs s', I s → mapMList f l s = .ok (bs, s') → I s' ∧ R s s' ∧ All2 (Q s') l bs
  | [], _, s, bs, s', hI, h => by
    simp only [mapMList, run_pure, Except.ok.injEq, Prod.mk.injEq] at h
    obtain ⟨rfl, rfl⟩ := h
    exact ⟨hI, hrefl _, .nil⟩
  | a :: l, hf, s, bs, s', hI, h => by
    simp only [mapMList, bind_ok, run_pure, Except.ok.injEq, Prod.mk.injEq] at h
    obtain ⟨b, s1, h1, bs', s2, h2, rfl, rfl⟩ := h
    obtain ⟨hI1, hR1, hQ1⟩ := hf a List.mem_cons_self s b s1 hI h1
    obtain ⟨hI2, hR2, hQ2⟩ := mapMList_inv hrefl htrans hmono l (fun a' ha' => hf a' (List.mem_cons_of_mem _ ha')) s1 bs' s2 hI1 h2
    exact ⟨hI2, htrans _ _ _ hR1 hR2, .cons (hmono _ _ _ _ hR2 hQ1) hQ2⟩

theorem mapMOpt_inv {α β : Type} {f : α → AggM β} {I : AggState → Prop} {R : AggState → AggState → Prop}
    {Q : AggState → α → β → Prop} (hrefl : ∀ s, R s s) (o : Option α)
    (hf : ∀ a, o = some a → ∀ s b s', I s → f a s = .ok (b, s') → I s' ∧ R s s' ∧ Q s' a b)
    (s : AggState) (ob : Option β) (s' : AggState) (hI : I s) (h : mapMOpt f o s = .ok (ob, s')) :
    I s' ∧ R s s' ∧ (match o, ob with
      | none, none => True
      | some a, some b => Q s' a b
      | _, _ => False) := by
  cases o with
  | none =>
    simp only [mapMOpt, run_pure, Except.ok.injEq, Prod.mk.injEq] at h
    obtain ⟨rfl, rfl⟩ := h
    exact ⟨hI, hrefl _, trivial⟩
  | some a =>
    simp only [mapMOpt, bind_ok, run_pure, Except.ok.injEq, Prod.mk.injEq] at h
    obtain ⟨b, s1, h1, rfl, rfl⟩ := h
    exact hf a rfl s b s1 hI h1

/-- `forMList` with an invariant -/
theorem forMList_inv {α : Type} {f : α → AggM Unit} {I : AggState → Prop} :
    ∀ (l : List α), (∀ a ∈ l, ∀ s s', I s → f a s = .ok ((), s') → I s') →
      ∀ s s', I s → forMList f l s = .ok ((), s') → I s'
  | [], _, s, s', hI, h => by
    simp only [forMList, run_pure, Except.ok.injEq, Prod.mk.injEq, true_and] at h
    subst h; exact hI
  | a :: l, hf, s, s', hI, h => by
    simp only [forMList, bind_ok] at h
    obtain ⟨u, s1, h1, h2⟩ := h
    exact forMList_inv l (fun a' ha' => hf a' (List.mem_cons_of_mem _ ha')) s1 s'
      (hf a List.mem_cons_self s s1 hI h1) h2

/-! ### association lists -/

theorem alGet_alInsert {κ β : Type} [BEq κ] [LawfulBEq κ] (m : List (κ × β)) (k k' : κ) (v : β) :
    alGet (alInsert m k v) k' = if k == k' then some v else alGet m k' := by
  induction m with
  | nil => simp only [alInsert, alGet]
  | cons e m ih =>
    obtain ⟨k0, v0⟩ := e
    simp only [alInsert]
    by_cases h0 : (k0 == k) = true
    · have e0 : k0 = k := by simpa using h0
      subst e0
      simp only [BEq.rfl, ↓reduceIte, alGet]
      split <;> rfl
    · have h0' : (k0 == k) = false := by simpa using h0
      simp only [h0', Bool.false_eq_true, ↓reduceIte, alGet, ih]
      by_cases h1 : (k0 == k') = true
      · have e1 : k0 = k' := by simpa using h1
        subst e1
        have : (k == k0) = false := by
          rw [Bool.eq_false_iff]; intro hk
          have : k = k0 := by simpa using hk
          subst this; simp at h0'
        simp [this]
      · have h1' : (k0 == k') = false := by simpa using h1
        simp [h1']

theorem amGet_eq_alGet {β : Type} (m : List (Str × β)) (k : Str) : amGet m k = alGet m k := by
  induction m with
  | nil => rfl
  | cons e m ih => obtain ⟨k0, v0⟩ := e; simp only [amGet, alGet, ih]

theorem amInsert_eq_alInsert {β : Type} (m : List (Str × β)) (k : Str) (v : β) : amInsert m k v = alInsert m k v := by
  induction m with
  | nil => rfl
  | cons e m ih => obtain ⟨k0, v0⟩ := e; simp only [amInsert, alInsert, ih]

theorem amGet_amInsert {β : Type} (m : List (Str × β)) (k k' : Str) (v : β) :
    amGet (amInsert m k v) k' = if k == k' then some v else amGet m k' := by
  rw [amGet_eq_alGet, amInsert_eq_alInsert, alGet_alInsert, amGet_eq_alGet]

/-! ### extension of the aggregator's collection -/

/-- `T'` extends `T`: same uid, the value-level arenas only grow at the end, no resources are
added.  (Interfaces are mutated in place by `merge_interface`; they are tracked separately.) -/
structure Ext (T T' : Types) : Prop where
  uid : T'.uid = T.uid
  defined : ∃ l, T'.defined = T.defined ++ l
  funcs : ∃ l, T'.funcs = T.funcs ++ l
  resources : T'.resources = T.resources

theorem Ext.refl (T : Types) : Ext T T := ⟨rfl, ⟨[], by simp⟩, ⟨[], by simp⟩, rfl⟩

theorem Ext.trans {T T' T'' : Types} (h1 : Ext T T') (h2 : Ext T' T'') : Ext T T'' := by
  obtain ⟨u1, ⟨d1, hd1⟩, ⟨f1, hf1⟩, r1⟩ := h1
  obtain ⟨u2, ⟨d2, hd2⟩, ⟨f2, hf2⟩, r2⟩ := h2
  exact ⟨u2.trans u1, ⟨d1 ++ d2, by rw [hd2, hd1, List.append_assoc]⟩,
    ⟨f1 ++ f2, by rw [hf2, hf1, List.append_assoc]⟩, r2.trans r1⟩

theorem Ext.defined_get {T T' : Types} (h : Ext T T') {d : Nat} {x : DefinedType}
    (hx : T.defined[d]? = some x) : T'.defined[d]? = some x := by
  obtain ⟨l, hl⟩ := h.defined
  rw [hl]
  have hlt : d < T.defined.length := by
    rcases Nat.lt_or_ge d T.defined.length with h | h
    · exact h
    · rw [List.getElem?_eq_none h] at hx; cases hx
  rw [List.getElem?_append_left hlt]; exact hx

theorem Ext.funcs_get {T T' : Types} (h : Ext T T') {d : Nat} {x : FuncType}
    (hx : T.funcs[d]? = some x) : T'.funcs[d]? = some x := by
  obtain ⟨l, hl⟩ := h.funcs
  rw [hl]
  have hlt : d < T.funcs.length := by
    rcases Nat.lt_or_ge d T.funcs.length with h | h
    · exact h
    · rw [List.getElem?_eq_none h] at hx; cases hx
  rw [List.getElem?_append_left hlt]; exact hx

theorem Ext.resLeaf {T T' : Types} (h : Ext T T') (r : Nat) : T'.resLeaf r = T.resLeaf r := by
  simp only [Types.resLeaf, h.resources, h.uid]
  have : ∀ n r, T'.resolveResource n r = T.resolveResource n r := by
    intro n
    induction n with
    | zero => intro r; rfl
    | succ n ih => intro r; simp only [Types.resolveResource, h.resources, ih]
  rw [this]

theorem Ext.unfoldVT {T T' : Types} (h : Ext T T') : ∀ n, ULe (T.unfoldVT n) (T'.unfoldVT n)
  | 0 => by intro v t hv; simp [Types.unfoldVT] at hv
  | n + 1 => by
    intro v t hv
    cases v with
    | prim p => simpa [Types.unfoldVT] using hv
    | own r => simpa [Types.unfoldVT, h.resLeaf] using hv
    | borrow r => simpa [Types.unfoldVT, h.resLeaf] using hv
    | defined d =>
      simp only [Types.unfoldVT] at hv ⊢
      cases hd : T.defined[d]? with
      | none => simp [hd] at hv
      | some x =>
        simp only [hd] at hv
        simp only [h.defined_get hd]
        exact unfoldDefined_mono (Ext.unfoldVT h n) x t hv

theorem Ext.unfoldFunc {T T' : Types} (h : Ext T T') (n f : Nat) (t : Tree)
    (hf : T.unfoldFunc n f = some t) : T'.unfoldFunc n f = some t := by
  simp only [Types.unfoldFunc] at hf ⊢
  cases hd : T.funcs[f]? with
  | none => simp [hd] at hf
  | some ft =>
    simp only [hd] at hf
    simp only [h.funcs_get hd]
    split at hf
    · rename_i ps r h1 h2
      rw [unfoldNamed_mono (h.unfoldVT n) _ _ h1, unfoldOpt_mono (h.unfoldVT n) _ _ h2]; exact hf
    · cases hf

/-! ### leaf kinds: functions, values, and `type` exports of function / value types (their trees
depend on the value-level arenas only) -/

def LeafK : ItemKind → Prop
  | .func _ => True
  | .value _ => True
  | .type (.func _) => True
  | .type (.value _) => True
  | _ => False

instance : DecidablePred LeafK := fun k => by
  cases k with
  | type t => cases t <;> simp only [LeafK] <;> infer_instance
  | _ => simp only [LeafK] <;> infer_instance

theorem Ext.unfoldLeaf {T T' : Types} (h : Ext T T') {k : ItemKind} (hk : LeafK k) (n : Nat) (t : Tree)
    (hu : T.unfoldKind n k = some t) : T'.unfoldKind n k = some t := by
  cases n with
  | zero => simp [Types.unfoldKind] at hu
  | succ n =>
    cases k with
    | func f => simp only [Types.unfoldKind] at hu ⊢; exact h.unfoldFunc n f t hu
    | value v =>
      simp only [Types.unfoldKind] at hu ⊢
      obtain ⟨x, hx, rfl⟩ := Option.map_eq_some_iff.1 hu
      rw [h.unfoldVT n v x hx]; rfl
    | type ty =>
      cases ty with
      | func f =>
        simp only [Types.unfoldKind] at hu ⊢
        obtain ⟨x, hx, rfl⟩ := Option.map_eq_some_iff.1 hu
        rw [h.unfoldFunc n f x hx]; rfl
      | value v =>
        simp only [Types.unfoldKind] at hu ⊢
        obtain ⟨x, hx, rfl⟩ := Option.map_eq_some_iff.1 hu
        rw [h.unfoldVT n v x hx]; rfl
      | _ => cases hk
    | «instance» _ => cases hk
    | component _ => cases hk
    | module _ => cases hk

end Wac.AggP
