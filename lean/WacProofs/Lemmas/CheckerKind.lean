import WacProofs.Lemmas.Checker
/-
  Part B: the item-kind level of the checker (`isSubtype` with memo and variance stack) decides
  `subNames` on the unfolded trees, for every sound memo and every variance stack.
-/
namespace Wac
open Wac.Spec

/-! ### forests and erasure -/

theorem get_eraseResF : ∀ (f : Forest) (k : Str), (eraseResF f).get k = (f.get k).map eraseRes
  | .nil, k => by simp [eraseResF, Forest.get]
  | .cons n t r, k => by
    by_cases h : n = k
    · subst h; simp [eraseResF, Forest.get]
    · simp [eraseResF, Forest.get, h, get_eraseResF r k]

theorem hasName_eraseResF : ∀ (f : Forest) (k : Str), (eraseResF f).hasName k = f.hasName k
  | .nil, k => by simp [eraseResF, Forest.hasName]
  | .cons n t r, k => by simp [eraseResF, Forest.hasName, hasName_eraseResF r k]

mutual
theorem nd_eraseRes : ∀ t : Tree, (eraseRes t).namesDistinct = t.namesDistinct
  | .none => rfl | .prim _ => rfl | .own _ => rfl | .borrow _ => rfl | .resource _ => rfl
  | .flags _ => rfl | .enum _ => rfl | .module _ => rfl
  | .tuple f => by simp [eraseRes, Tree.namesDistinct, sd_eraseResF f]
  | .variant f => by simp [eraseRes, Tree.namesDistinct, nd_eraseResF f]
  | .record f => by simp [eraseRes, Tree.namesDistinct, nd_eraseResF f]
  | .instance f => by simp [eraseRes, Tree.namesDistinct, nd_eraseResF f]
  | .list t => by simp [eraseRes, Tree.namesDistinct, nd_eraseRes t]
  | .fixedList t _ => by simp [eraseRes, Tree.namesDistinct, nd_eraseRes t]
  | .option t => by simp [eraseRes, Tree.namesDistinct, nd_eraseRes t]
  | .stream t => by simp [eraseRes, Tree.namesDistinct, nd_eraseRes t]
  | .future t => by simp [eraseRes, Tree.namesDistinct, nd_eraseRes t]
  | .value t => by simp [eraseRes, Tree.namesDistinct, nd_eraseRes t]
  | .type t => by simp [eraseRes, Tree.namesDistinct, nd_eraseRes t]
  | .result a b => by simp [eraseRes, Tree.namesDistinct, nd_eraseRes a, nd_eraseRes b]
  | .func _ ps r => by simp [eraseRes, Tree.namesDistinct, nd_eraseResF ps, nd_eraseRes r]
  | .component i e => by simp [eraseRes, Tree.namesDistinct, nd_eraseResF i, nd_eraseResF e]
termination_by structural t => t
theorem nd_eraseResF : ∀ f : Forest, (eraseResF f).namesDistinct = f.namesDistinct
  | .nil => rfl
  | .cons n t r => by
    simp [eraseResF, Forest.namesDistinct, hasName_eraseResF, nd_eraseRes t, nd_eraseResF r]
termination_by structural f => f
theorem sd_eraseResF : ∀ f : Forest, (eraseResF f).subtreesDistinct = f.subtreesDistinct
  | .nil => rfl
  | .cons n t r => by
    simp [eraseResF, Forest.subtreesDistinct, nd_eraseRes t, sd_eraseResF r]
termination_by structural f => f
end

/-- `subNames` on instances: the declarative reading on the un-erased forests -/
theorem subNames_instance_iff (x y : Forest) (hx : x.namesDistinct = true) :
    subNames (.instance x) (.instance y) = true ↔
      ∀ k ty, y.get k = some ty → ∃ tx, x.get k = some tx ∧ subNames tx ty = true := by
  simp only [subNames, eraseRes]
  rw [sub_instance_iff _ _ (by rw [nd_eraseResF]; exact hx)]
  simp only [get_eraseResF, Option.map_eq_some_iff]
  constructor
  · intro h k ty hy
    obtain ⟨tx', ⟨tx, htx, rfl⟩, hs⟩ := h k (eraseRes ty) ⟨ty, hy, rfl⟩
    exact ⟨tx, htx, hs⟩
  · rintro h k _ ⟨ty, hy, rfl⟩
    obtain ⟨tx, htx, hs⟩ := h k ty hy
    exact ⟨eraseRes tx, ⟨tx, htx, rfl⟩, hs⟩

theorem subNames_component_iff (ix ex iy ey : Forest)
    (hix : ix.namesDistinct = true) (hex : ex.namesDistinct = true) (hiy : iy.namesDistinct = true) :
    subNames (.component ix ex) (.component iy ey) = true ↔
      (∀ k tx, ix.get k = some tx → ∃ ty, iy.get k = some ty ∧ subNames ty tx = true) ∧
      (∀ k ty, ey.get k = some ty → ∃ tx, ex.get k = some tx ∧ subNames tx ty = true) := by
  simp only [subNames, eraseRes]
  rw [sub_component_iff _ _ _ _ (by rw [nd_eraseResF]; exact hix) (by rw [nd_eraseResF]; exact hex)
    (by rw [nd_eraseResF]; exact hiy)]
  simp only [get_eraseResF, Option.map_eq_some_iff]
  constructor
  · rintro ⟨h1, h2⟩
    refine ⟨fun k tx hk => ?_, fun k ty hy => ?_⟩
    · obtain ⟨ty', ⟨ty, hty, rfl⟩, hs⟩ := h1 k (eraseRes tx) ⟨tx, hk, rfl⟩
      exact ⟨ty, hty, hs⟩
    · obtain ⟨tx', ⟨tx, htx, rfl⟩, hs⟩ := h2 k (eraseRes ty) ⟨ty, hy, rfl⟩
      exact ⟨tx, htx, hs⟩
  · rintro ⟨h1, h2⟩
    refine ⟨?_, ?_⟩
    · rintro k _ ⟨tx, hk, rfl⟩
      obtain ⟨ty, hty, hs⟩ := h1 k tx hk
      exact ⟨eraseRes ty, ⟨ty, hty, rfl⟩, hs⟩
    · rintro k _ ⟨ty, hy, rfl⟩
      obtain ⟨tx, htx, hs⟩ := h2 k ty hy
      exact ⟨eraseRes tx, ⟨tx, htx, rfl⟩, hs⟩

/-! ### `unfoldItems` -/

theorem unfoldItems_get {u : ItemKind → Option Tree} : ∀ (l : List (Str × ItemKind)) (F : Forest) (k : Str),
    unfoldItems u l = some F →
    (alGet l k = none → F.get k = none) ∧
    (∀ ki, alGet l k = some ki → ∃ t, u ki = some t ∧ F.get k = some t)
  | [], F, k, h => by simp [unfoldItems] at h; subst h; simp [alGet, Forest.get]
  | (n, ki) :: l, F, k, h => by
    simp only [unfoldItems] at h
    split at h
    · rename_i t fr h1 h2
      cases h
      have ih := unfoldItems_get l fr k h2
      by_cases hk : n = k
      · subst hk; simp [alGet, Forest.get, h1]
      · simp only [alGet, hk, beq_iff_eq, ↓reduceIte, Forest.get]
        exact ih
    · cases h

/-- entries of the unfolded forest, in order -/
theorem unfoldItems_cons {u : ItemKind → Option Tree} (n : Str) (ki : ItemKind) (l : List (Str × ItemKind))
    (F : Forest) (h : unfoldItems u ((n, ki) :: l) = some F) :
    ∃ t fr, u ki = some t ∧ unfoldItems u l = some fr ∧ F = .cons n t fr := by
  simp only [unfoldItems] at h
  split at h
  · rename_i t fr h1 h2
    cases h; exact ⟨t, fr, h1, h2, rfl⟩
  · cases h

/-! ### memo soundness -/

/-- a family of collections in which the uid identifies the collection (distinct `Types` values of
the Rust program have distinct arena ids) -/
structure Colls where
  mem : Types → Prop
  inj : ∀ s t, mem s → mem t → s.uid = t.uid → s = t

/-- every memo entry is a true subtype fact about the collections of the world -/
def MemoSound (W : Colls) (cache : List (GKind × GKind)) : Prop :=
  ∀ at_ a bt b, W.mem at_ → W.mem bt → (GKind.mk' at_ a, GKind.mk' bt b) ∈ cache →
    ∀ n ta tb, at_.unfoldKind n a = some ta → bt.unfoldKind n b = some tb → subNames ta tb = true

/-- what a correct kind-level check satisfies: it decides `subNames`, keeps the memo sound and
leaves the variance stack as it was whenever it succeeds -/
def KOk (W : Colls) (f : Checker → ItemKind → ItemKind → R × Checker) (ua ub : ItemKind → Option Tree) : Prop :=
  ∀ c a b ta tb, MemoSound W c.cache → ua a = some ta → ub b = some tb →
    ta.namesDistinct = true → tb.namesDistinct = true →
    Decides (f c a b).1 (subNames ta tb = true) ∧ MemoSound W (f c a b).2.cache ∧
      ((f c a b).1 = .ok → (f c a b).2.kinds = c.kinds)

theorem instanceExports_spec {W : Colls} {f : Checker → ItemKind → ItemKind → R × Checker}
    {ua ub : ItemKind → Option Tree} (hf : KOk W f ua ub) (bt : Types) (aE : List (Str × ItemKind)) (Fa : Forest)
    (hFa : unfoldItems ua aE = some Fa) (hnd : Fa.namesDistinct = true) :
    ∀ (l : List (Str × ItemKind)) (Fl : Forest) (c : Checker), unfoldItems ub l = some Fl →
      Fl.namesDistinct = true → MemoSound W c.cache →
      Decides (instanceExports f bt aE c l).1
        (∀ k tb, Fl.get k = some tb → ∃ ta, Fa.get k = some ta ∧ subNames ta tb = true) ∧
      MemoSound W (instanceExports f bt aE c l).2.cache ∧
      ((instanceExports f bt aE c l).1 = .ok → (instanceExports f bt aE c l).2.kinds = c.kinds)
  | [], Fl, c, hl, _, hm => by
    simp [unfoldItems] at hl; subst hl
    simp only [instanceExports]
    exact ⟨decides_ok (by simp [Forest.get]), hm, by simp⟩
  | (n, kb) :: rest, Fl, c, hl, hndl, hm => by
    obtain ⟨tb, fr, hkb, hrest, rfl⟩ := unfoldItems_cons n kb rest Fl hl
    simp only [Forest.namesDistinct, Bool.and_eq_true, Bool.not_eq_true'] at hndl
    have split_P : (∀ k tb', (Forest.cons n tb fr).get k = some tb' → ∃ ta, Fa.get k = some ta ∧ subNames ta tb' = true) ↔
        ((∃ ta, Fa.get n = some ta ∧ subNames ta tb = true) ∧
          (∀ k tb', fr.get k = some tb' → ∃ ta, Fa.get k = some ta ∧ subNames ta tb' = true)) := by
      constructor
      · intro h
        refine ⟨h n tb (Forest.get_cons_self n tb fr), fun k tb' hk => ?_⟩
        have hne : n ≠ k := by
          rintro rfl
          have := Forest.get_hasName hk
          simp [hndl.1.1] at this
        exact h k tb' (by simpa [Forest.get, hne] using hk)
      · rintro ⟨h1, h2⟩ k tb' hk
        by_cases hnk : n = k
        · subst hnk
          simp [Forest.get] at hk; subst hk; exact h1
        · exact h2 k tb' (by simpa [Forest.get, hnk] using hk)
    have hga := unfoldItems_get aE Fa n hFa
    simp only [instanceExports]
    cases hag : alGet aE n with
    | none =>
      have hnone := hga.1 hag
      simp only
      refine ⟨?_, ?_, ?_⟩
      · cases c.kind <;> refine decides_err (fun h => ?_) <;>
          (obtain ⟨ta, hta, _⟩ := h n tb (Forest.get_cons_self n tb fr); rw [hnone] at hta; cases hta)
      · cases c.kind <;> exact hm
      · cases c.kind <;> simp
    | some ka =>
      obtain ⟨ta, hka, hta⟩ := hga.2 ka hag
      simp only
      have hk := hf c ka kb ta tb hm hka hkb (Forest.nd_get Fa n ta hnd hta) hndl.1.2
      cases hfc : f c ka kb with
      | mk r c' =>
        rw [hfc] at hk
        cases r with
        | ok =>
          simp only
          have ih := instanceExports_spec hf bt aE Fa hFa hnd rest fr c' hrest hndl.2 hk.2.1
          have hsub : subNames ta tb = true := hk.1.1.1 rfl
          refine ⟨?_, ih.2.1, fun h => (ih.2.2 h).trans (hk.2.2 rfl)⟩
          rw [split_P]
          exact ih.1.and_left ⟨ta, hta, hsub⟩
        | err m =>
          simp only
          refine ⟨?_, hk.2.1, by simp [R.ctx]⟩
          refine (decides_err (fun h => ?_) : Decides (R.err m) _).ctx _
          obtain ⟨ta', hta', hs⟩ := (split_P.1 h).1
          rw [hta] at hta'; cases hta'
          have := hk.1.1.2 hs
          cases this
        | panic s => exact absurd rfl (hk.1.2 s)

theorem worldExports_spec {W : Colls} {f : Checker → ItemKind → ItemKind → R × Checker}
    {ua ub : ItemKind → Option Tree} (hf : KOk W f ua ub) (bt : Types) (aE : List (Str × ItemKind)) (Fa : Forest)
    (hFa : unfoldItems ua aE = some Fa) (hnd : Fa.namesDistinct = true) :
    ∀ (l : List (Str × ItemKind)) (Fl : Forest) (c : Checker), unfoldItems ub l = some Fl →
      Fl.namesDistinct = true → MemoSound W c.cache →
      Decides (worldExports f bt aE c l).1
        (∀ k tb, Fl.get k = some tb → ∃ ta, Fa.get k = some ta ∧ subNames ta tb = true) ∧
      MemoSound W (worldExports f bt aE c l).2.cache ∧
      ((worldExports f bt aE c l).1 = .ok → (worldExports f bt aE c l).2.kinds = c.kinds)
  | [], Fl, c, hl, _, hm => by
    simp [unfoldItems] at hl; subst hl
    simp only [worldExports]
    exact ⟨decides_ok (by simp [Forest.get]), hm, by simp⟩
  | (n, kb) :: rest, Fl, c, hl, hndl, hm => by
    obtain ⟨tb, fr, hkb, hrest, rfl⟩ := unfoldItems_cons n kb rest Fl hl
    simp only [Forest.namesDistinct, Bool.and_eq_true, Bool.not_eq_true'] at hndl
    have split_P : (∀ k tb', (Forest.cons n tb fr).get k = some tb' → ∃ ta, Fa.get k = some ta ∧ subNames ta tb' = true) ↔
        ((∃ ta, Fa.get n = some ta ∧ subNames ta tb = true) ∧
          (∀ k tb', fr.get k = some tb' → ∃ ta, Fa.get k = some ta ∧ subNames ta tb' = true)) := by
      constructor
      · intro h
        refine ⟨h n tb (Forest.get_cons_self n tb fr), fun k tb' hk => ?_⟩
        have hne : n ≠ k := by
          rintro rfl
          have := Forest.get_hasName hk
          simp [hndl.1.1] at this
        exact h k tb' (by simpa [Forest.get, hne] using hk)
      · rintro ⟨h1, h2⟩ k tb' hk
        by_cases hnk : n = k
        · subst hnk
          simp [Forest.get] at hk; subst hk; exact h1
        · exact h2 k tb' (by simpa [Forest.get, hnk] using hk)
    have hga := unfoldItems_get aE Fa n hFa
    simp only [worldExports]
    cases hag : alGet aE n with
    | none =>
      have hnone := hga.1 hag
      simp only
      refine ⟨?_, ?_, ?_⟩
      · cases c.kind <;> refine decides_err (fun h => ?_) <;>
          (obtain ⟨ta, hta, _⟩ := h n tb (Forest.get_cons_self n tb fr); rw [hnone] at hta; cases hta)
      · cases c.kind <;> exact hm
      · cases c.kind <;> simp
    | some ka =>
      obtain ⟨ta, hka, hta⟩ := hga.2 ka hag
      simp only
      have hk := hf c ka kb ta tb hm hka hkb (Forest.nd_get Fa n ta hnd hta) hndl.1.2
      cases hfc : f c ka kb with
      | mk r c' =>
        rw [hfc] at hk
        cases r with
        | ok =>
          simp only
          have ih := worldExports_spec hf bt aE Fa hFa hnd rest fr c' hrest hndl.2 hk.2.1
          have hsub : subNames ta tb = true := hk.1.1.1 rfl
          refine ⟨?_, ih.2.1, fun h => (ih.2.2 h).trans (hk.2.2 rfl)⟩
          rw [split_P]
          exact ih.1.and_left ⟨ta, hta, hsub⟩
        | err m =>
          simp only
          refine ⟨?_, hk.2.1, by simp [R.ctx]⟩
          refine (decides_err (fun h => ?_) : Decides (R.err m) _).ctx _
          obtain ⟨ta', hta', hs⟩ := (split_P.1 h).1
          rw [hta] at hta'; cases hta'
          have := hk.1.1.2 hs
          cases this
        | panic s => exact absurd rfl (hk.1.2 s)

theorem worldImports_spec {W : Colls} {g : Checker → ItemKind → ItemKind → R × Checker}
    {ua ub : ItemKind → Option Tree} (hg : KOk W g ub ua) (at_ : Types) (prev : Variance)
    (bI : List (Str × ItemKind)) (Fb : Forest)
    (hFb : unfoldItems ub bI = some Fb) (hnd : Fb.namesDistinct = true) :
    ∀ (l : List (Str × ItemKind)) (Fl : Forest) (c : Checker), unfoldItems ua l = some Fl →
      Fl.namesDistinct = true → MemoSound W c.cache →
      Decides (worldImports g at_ prev bI c l).1
        (∀ k ta, Fl.get k = some ta → ∃ tb, Fb.get k = some tb ∧ subNames tb ta = true) ∧
      MemoSound W (worldImports g at_ prev bI c l).2.cache ∧
      ((worldImports g at_ prev bI c l).1 = .ok → (worldImports g at_ prev bI c l).2.kinds = c.kinds)
  | [], Fl, c, hl, _, hm => by
    simp [unfoldItems] at hl; subst hl
    simp only [worldImports]
    exact ⟨decides_ok (by simp [Forest.get]), hm, by simp⟩
  | (n, ka) :: rest, Fl, c, hl, hndl, hm => by
    obtain ⟨ta, fr, hka, hrest, rfl⟩ := unfoldItems_cons n ka rest Fl hl
    simp only [Forest.namesDistinct, Bool.and_eq_true, Bool.not_eq_true'] at hndl
    have split_P : (∀ k ta', (Forest.cons n ta fr).get k = some ta' → ∃ tb, Fb.get k = some tb ∧ subNames tb ta' = true) ↔
        ((∃ tb, Fb.get n = some tb ∧ subNames tb ta = true) ∧
          (∀ k ta', fr.get k = some ta' → ∃ tb, Fb.get k = some tb ∧ subNames tb ta' = true)) := by
      constructor
      · intro h
        refine ⟨h n ta (Forest.get_cons_self n ta fr), fun k ta' hk => ?_⟩
        have hne : n ≠ k := by
          rintro rfl
          have := Forest.get_hasName hk
          simp [hndl.1.1] at this
        exact h k ta' (by simpa [Forest.get, hne] using hk)
      · rintro ⟨h1, h2⟩ k ta' hk
        by_cases hnk : n = k
        · subst hnk
          simp [Forest.get] at hk; subst hk; exact h1
        · exact h2 k ta' (by simpa [Forest.get, hnk] using hk)
    have hgb := unfoldItems_get bI Fb n hFb
    simp only [worldImports]
    cases hbg : alGet bI n with
    | none =>
      have hnone := hgb.1 hbg
      simp only
      refine ⟨?_, ?_, ?_⟩
      · cases prev <;> refine decides_err (fun h => ?_) <;>
          (obtain ⟨tb, htb, _⟩ := h n ta (Forest.get_cons_self n ta fr); rw [hnone] at htb; cases htb)
      · cases prev <;> exact hm
      · cases prev <;> simp
    | some kb =>
      obtain ⟨tb, hkb, htb⟩ := hgb.2 kb hbg
      simp only
      have hk := hg c kb ka tb ta hm hkb hka (Forest.nd_get Fb n tb hnd htb) hndl.1.2
      cases hfc : g c kb ka with
      | mk r c' =>
        rw [hfc] at hk
        cases r with
        | ok =>
          simp only
          have ih := worldImports_spec hg at_ prev bI Fb hFb hnd rest fr c' hrest hndl.2 hk.2.1
          have hsub : subNames tb ta = true := hk.1.1.1 rfl
          refine ⟨?_, ih.2.1, fun h => (ih.2.2 h).trans (hk.2.2 rfl)⟩
          rw [split_P]
          exact ih.1.and_left ⟨tb, htb, hsub⟩
        | err m =>
          simp only
          refine ⟨?_, hk.2.1, by simp [R.ctx]⟩
          refine (decides_err (fun h => ?_) : Decides (R.err m) _).ctx _
          obtain ⟨tb', htb', hs⟩ := (split_P.1 h).1
          rw [htb] at htb'; cases htb'
          have := hk.1.1.2 hs
          cases this
        | panic s => exact absurd rfl (hk.1.2 s)

/-! ### monotonicity and determinism of `unfoldKind` -/

def KLe (u u' : ItemKind → Option Tree) : Prop := ∀ k t, u k = some t → u' k = some t

theorem unfoldItems_mono {u u' : ItemKind → Option Tree} (h : KLe u u') :
    ∀ (l : List (Str × ItemKind)) (F : Forest), unfoldItems u l = some F → unfoldItems u' l = some F
  | [], F, hl => by simpa [unfoldItems] using hl
  | (n, k) :: l, F, hl => by
    simp only [unfoldItems] at hl ⊢
    split at hl
    · rename_i t fr h1 h2
      rw [h k t h1, unfoldItems_mono h l fr h2]; exact hl
    · cases hl

theorem unfoldFunc_succ (t : Types) (n : Nat) (f : Nat) (tr : Tree) (h : t.unfoldFunc n f = some tr) :
    t.unfoldFunc (n + 1) f = some tr := by
  simp only [Types.unfoldFunc] at h ⊢
  cases hf : t.funcs[f]? with
  | none => simp [hf] at h
  | some ft =>
    simp only [hf] at h ⊢
    split at h
    · rename_i ps r h1 h2
      rw [unfoldNamed_mono (unfoldVT_succ t n) _ ps h1, unfoldOpt_mono (unfoldVT_succ t n) _ r h2]; exact h
    · cases h

theorem unfoldKind_succ (t : Types) : ∀ n, KLe (t.unfoldKind n) (t.unfoldKind (n + 1))
  | 0 => by intro k tr h; simp [Types.unfoldKind] at h
  | n + 1 => by
    have ih := unfoldKind_succ t n
    intro k tr h
    cases k with
    | func f => simp only [Types.unfoldKind] at h ⊢; exact unfoldFunc_succ t n f tr h
    | value v =>
      simp only [Types.unfoldKind] at h ⊢
      obtain ⟨x, hx, rfl⟩ := Option.map_eq_some_iff.1 h
      rw [unfoldVT_succ t n v x hx]; rfl
    | module m => simpa [Types.unfoldKind] using h
    | «instance» i =>
      simp only [Types.unfoldKind] at h ⊢
      cases hi : t.interfaces[i]? with
      | none => simp [hi] at h
      | some itf =>
        simp only [hi] at h ⊢
        obtain ⟨F, hF, rfl⟩ := Option.map_eq_some_iff.1 h
        rw [unfoldItems_mono ih _ F hF]; rfl
    | component w =>
      simp only [Types.unfoldKind] at h ⊢
      cases hw : t.worlds[w]? with
      | none => simp [hw] at h
      | some wd =>
        simp only [hw] at h ⊢
        split at h
        · rename_i i e h1 h2
          rw [unfoldItems_mono ih _ i h1, unfoldItems_mono ih _ e h2]; exact h
        · cases h
    | type ty =>
      cases ty with
      | resource r => simpa [Types.unfoldKind] using h
      | func f =>
        simp only [Types.unfoldKind] at h ⊢
        obtain ⟨x, hx, rfl⟩ := Option.map_eq_some_iff.1 h
        rw [unfoldFunc_succ t n f x hx]; rfl
      | value v =>
        simp only [Types.unfoldKind] at h ⊢
        obtain ⟨x, hx, rfl⟩ := Option.map_eq_some_iff.1 h
        rw [unfoldVT_succ t n v x hx]; rfl
      | module m => simpa [Types.unfoldKind] using h
      | interface i =>
        simp only [Types.unfoldKind] at h ⊢
        cases hi : t.interfaces[i]? with
        | none => simp [hi] at h
        | some itf =>
          simp only [hi] at h ⊢
          obtain ⟨F, hF, rfl⟩ := Option.map_eq_some_iff.1 h
          rw [unfoldItems_mono ih _ F hF]; rfl
      | world w =>
        simp only [Types.unfoldKind] at h ⊢
        cases hw : t.worlds[w]? with
        | none => simp [hw] at h
        | some wd =>
          simp only [hw] at h ⊢
          split at h
          · rename_i i e h1 h2
            rw [unfoldItems_mono ih _ i h1, unfoldItems_mono ih _ e h2]; exact h
          · cases h

theorem unfoldKind_mono (t : Types) {n m : Nat} (h : n ≤ m) : KLe (t.unfoldKind n) (t.unfoldKind m) := by
  induction h with
  | refl => exact fun _ _ h => h
  | step _ ih => exact fun k tr hk => unfoldKind_succ t _ k tr (ih k tr hk)

/-- the tree of a kind does not depend on the fuel -/
theorem unfoldKind_det (t : Types) {n m : Nat} {k : ItemKind} {x y : Tree}
    (hx : t.unfoldKind n k = some x) (hy : t.unfoldKind m k = some y) : x = y := by
  have h1 := unfoldKind_mono t (Nat.le_max_left n m) k x hx
  have h2 := unfoldKind_mono t (Nat.le_max_right n m) k y hy
  rw [h1] at h2; exact Option.some.inj h2

theorem unfoldVT_prim (t : Types) (n : Nat) (p : Prim) (x : Tree) (h : t.unfoldVT n (.prim p) = some x) :
    x = .prim p := by
  cases n <;> simp [Types.unfoldVT] at h
  exact h.symm

/-- kinds without ids unfold the same way in every collection -/
theorem unfoldKind_noId (s t : Types) {n m : Nat} {k : ItemKind} {x y : Tree} (hk : k.hasId = false)
    (hx : s.unfoldKind n k = some x) (hy : t.unfoldKind m k = some y) : x = y := by
  cases k with
  | value v =>
    cases v <;> simp [ItemKind.hasId] at hk
    rename_i p
    cases n <;> simp only [Types.unfoldKind] at hx <;> try (cases hx)
    cases m <;> simp only [Types.unfoldKind] at hy <;> try (cases hy)
    obtain ⟨x', hx', rfl⟩ := Option.map_eq_some_iff.1 hx
    obtain ⟨y', hy', rfl⟩ := Option.map_eq_some_iff.1 hy
    rw [unfoldVT_prim _ _ _ _ hx', unfoldVT_prim _ _ _ _ hy']
  | type ty =>
    cases ty <;> simp [ItemKind.hasId] at hk
    rename_i v
    cases v <;> simp at hk
    rename_i p
    cases n <;> simp only [Types.unfoldKind] at hx <;> try (cases hx)
    cases m <;> simp only [Types.unfoldKind] at hy <;> try (cases hy)
    obtain ⟨x', hx', rfl⟩ := Option.map_eq_some_iff.1 hx
    obtain ⟨y', hy', rfl⟩ := Option.map_eq_some_iff.1 hy
    rw [unfoldVT_prim _ _ _ _ hx', unfoldVT_prim _ _ _ _ hy']
  | _ => simp [ItemKind.hasId] at hk

/-! ### `interface` and `world` -/

theorem subNames_refl (t : Tree) (h : t.namesDistinct = true) : subNames t t = true := by
  simp only [subNames]
  exact sub_refl _ (by rw [nd_eraseRes]; exact h)

theorem checkInterface_spec {W : Colls} {fwd : Checker → ItemKind → ItemKind → R × Checker}
    {ua ub : ItemKind → Option Tree} (hf : KOk W fwd ua ub) (c : Checker) (at_ bt : Types) (ia ib : Nat)
    (x y : Interface) (hx : at_.interfaces[ia]? = some x) (hy : bt.interfaces[ib]? = some y)
    (Fa Fb : Forest) (hFa : unfoldItems ua x.exports = some Fa) (hFb : unfoldItems ub y.exports = some Fb)
    (hnda : Fa.namesDistinct = true) (hndb : Fb.namesDistinct = true)
    (hsame : at_.uid = bt.uid → ia = ib → Fa = Fb) (hm : MemoSound W c.cache) :
    Decides (checkInterface fwd c at_ ia bt ib).1 (subNames (.instance Fa) (.instance Fb) = true) ∧
      MemoSound W (checkInterface fwd c at_ ia bt ib).2.cache ∧
      ((checkInterface fwd c at_ ia bt ib).1 = .ok → (checkInterface fwd c at_ ia bt ib).2.kinds = c.kinds) := by
  simp only [checkInterface]
  by_cases hs : (at_.uid == bt.uid && ia == ib) = true
  · simp only [hs, ↓reduceIte]
    simp only [Bool.and_eq_true, beq_iff_eq] at hs
    have := hsame hs.1 hs.2
    subst this
    exact ⟨decides_ok (subNames_refl _ (by simpa [Tree.namesDistinct] using hnda)), hm, by simp⟩
  · simp only [hs, Bool.false_eq_true, ↓reduceIte, hx, hy]
    have h := instanceExports_spec hf bt x.exports Fa hFa hnda y.exports Fb c hFb hndb hm
    rw [subNames_instance_iff Fa Fb hnda]
    exact h

theorem checkWorld_spec {W : Colls} {fwd bwd : Checker → ItemKind → ItemKind → R × Checker}
    {ua ub : ItemKind → Option Tree} (hf : KOk W fwd ua ub) (hb : KOk W bwd ub ua) (c : Checker)
    (at_ bt : Types) (wa wb : Nat)
    (x y : Wac.World) (hx : at_.worlds[wa]? = some x) (hy : bt.worlds[wb]? = some y)
    (Ia Ea Ib Eb : Forest)
    (hIa : unfoldItems ua x.imports = some Ia) (hEa : unfoldItems ua x.exports = some Ea)
    (hIb : unfoldItems ub y.imports = some Ib) (hEb : unfoldItems ub y.exports = some Eb)
    (hnia : Ia.namesDistinct = true) (hnea : Ea.namesDistinct = true)
    (hnib : Ib.namesDistinct = true) (hneb : Eb.namesDistinct = true)
    (hm : MemoSound W c.cache) :
    Decides (checkWorld fwd bwd c at_ wa bt wb).1 (subNames (.component Ia Ea) (.component Ib Eb) = true) ∧
      MemoSound W (checkWorld fwd bwd c at_ wa bt wb).2.cache ∧
      ((checkWorld fwd bwd c at_ wa bt wb).1 = .ok → (checkWorld fwd bwd c at_ wa bt wb).2.kinds = c.kinds) := by
  simp only [checkWorld, hx, hy]
  have hi := worldImports_spec hb at_ c.invert.1 y.imports Ib hIb hnib x.imports Ia c.invert.2 hIa hnia
    (by simpa [Checker.invert] using hm)
  rw [subNames_component_iff Ia Ea Ib Eb hnia hnea hnib]
  cases hr : worldImports bwd at_ c.invert.1 y.imports c.invert.2 x.imports with
  | mk r c2 =>
    rw [hr] at hi
    cases r with
    | ok =>
      have hk : c2.kinds = c.invert.2.kinds := hi.2.2 rfl
      have hrev : c2.revert = some { c2 with kinds := c.kinds } := by
        simp [Checker.revert, hk, Checker.invert]
      simp only [hrev]
      have he := worldExports_spec hf bt x.exports Ea hEa hnea y.exports Eb { c2 with kinds := c.kinds } hEb hneb hi.2.1
      exact ⟨he.1.and_left (hi.1.1.1 rfl), he.2.1, he.2.2⟩
    | err m =>
      simp only
      refine ⟨decides_err (fun h => ?_), hi.2.1, by simp⟩
      have := hi.1.1.2 h.1
      cases this
    | panic s => exact absurd rfl (hi.1.2 s)

/-! ### kinds that cannot be related -/

def ktag : Tree → Nat
  | .func _ _ _ => 0 | .value _ => 1 | .module _ => 2 | .instance _ => 3 | .component _ _ => 4
  | .type _ => 5 | .resource _ => 6 | _ => 10

theorem ktag_eraseRes (t : Tree) : ktag (eraseRes t) = ktag t := by
  cases t <;> simp [eraseRes, ktag]

theorem sub_false_of_ktag (x y : Tree) (h : ktag x ≠ ktag y) : sub x y = false := by
  cases x <;> cases y <;> simp [ktag] at h <;> simp [sub]

theorem subNames_false_of_ktag (x y : Tree) (h : ktag x ≠ ktag y) : ¬ subNames x y = true := by
  simp only [subNames]
  rw [sub_false_of_ktag _ _ (by rw [ktag_eraseRes, ktag_eraseRes]; exact h)]
  simp

theorem unfoldVT_ktag (t : Types) : ∀ (n : Nat) (v : ValueType) (tr : Tree), t.unfoldVT n v = some tr → ktag tr = 10
  | 0, v, tr, h => by simp [Types.unfoldVT] at h
  | n + 1, .prim p, tr, h => by simp [Types.unfoldVT] at h; subst h; rfl
  | n + 1, .own r, tr, h => by
    simp only [Types.unfoldVT] at h
    obtain ⟨_, _, rfl⟩ := Option.map_eq_some_iff.1 h; rfl
  | n + 1, .borrow r, tr, h => by
    simp only [Types.unfoldVT] at h
    obtain ⟨_, _, rfl⟩ := Option.map_eq_some_iff.1 h; rfl
  | n + 1, .defined d, tr, h => by
    simp only [Types.unfoldVT] at h
    cases hd : t.defined[d]? with
    | none => simp [hd] at h
    | some x =>
      simp only [hd] at h
      by_cases hx : dtag x = 9
      · cases x <;> simp [dtag] at hx
        simp only [unfoldDefined] at h
        exact unfoldVT_ktag t n _ tr h
      · have := unfoldDefined_tag x tr h hx
        cases x <;> simp [dtag] at hx this <;> cases tr <;> simp [ttag] at this <;> rfl

theorem subNames_type (x y : Tree) : subNames (.type x) (.type y) = subNames x y := by
  simp [subNames, eraseRes, sub]

theorem subNames_value (x y : Tree) : subNames (.value x) (.value y) = true ↔ eraseRes x = eraseRes y := by
  simp [subNames, eraseRes, sub]

theorem subNames_eq_of_ktag10 (x y : Tree) (hx : ktag x = 10) : subNames x y = true ↔ eraseRes x = eraseRes y := by
  simp only [subNames]
  have : isEqKind (eraseRes x) = true := by
    cases x <;> simp [ktag] at hx <;> simp [eraseRes, isEqKind]
  rw [sub_eqKind_left _ _ this]
  simp

theorem subNames_func (a b : Bool) (p q : Forest) (r s : Tree) :
    subNames (.func a p r) (.func b q s) = true ↔ eraseRes (.func a p r) = eraseRes (.func b q s) := by
  simp [subNames, eraseRes, sub]

theorem subNames_resource (r s : Res) :
    subNames (.resource r) (.resource s) = true ↔ eraseR r = eraseR s := by
  simp [subNames, eraseRes, sub]

theorem subNames_module (a b : ModuleType) : subNames (.module a) (.module b) = moduleSub a b := by
  simp [subNames, eraseRes, sub]

/-! ### shapes of unfolded kinds -/

theorem unfoldFunc_shape (t : Types) (n f : Nat) (x : Tree) (h : t.unfoldFunc n f = some x) :
    ∃ a p r, x = .func a p r := by
  simp only [Types.unfoldFunc] at h
  cases hf : t.funcs[f]? with
  | none => simp [hf] at h
  | some ft =>
    simp only [hf] at h
    split at h
    · cases h; exact ⟨_, _, _, rfl⟩
    · cases h

theorem shape_func (t : Types) (n f : Nat) (x : Tree) (h : t.unfoldKind (n + 1) (.func f) = some x) :
    t.unfoldFunc n f = some x := by simpa [Types.unfoldKind] using h

theorem shape_value (t : Types) (n : Nat) (v : ValueType) (x : Tree) (h : t.unfoldKind (n + 1) (.value v) = some x) :
    ∃ y, t.unfoldVT n v = some y ∧ x = .value y := by
  simp only [Types.unfoldKind] at h
  obtain ⟨y, hy, rfl⟩ := Option.map_eq_some_iff.1 h
  exact ⟨y, hy, rfl⟩

theorem shape_module (t : Types) (n m : Nat) (x : Tree) (h : t.unfoldKind (n + 1) (.module m) = some x) :
    ∃ y, t.modules[m]? = some y ∧ x = .module y := by
  simp only [Types.unfoldKind] at h
  obtain ⟨y, hy, rfl⟩ := Option.map_eq_some_iff.1 h
  exact ⟨y, hy, rfl⟩

theorem shape_instance (t : Types) (n i : Nat) (x : Tree) (h : t.unfoldKind (n + 1) (.instance i) = some x) :
    ∃ itf F, t.interfaces[i]? = some itf ∧ unfoldItems (t.unfoldKind n) itf.exports = some F ∧ x = .instance F := by
  simp only [Types.unfoldKind] at h
  cases hi : t.interfaces[i]? with
  | none => simp [hi] at h
  | some itf =>
    simp only [hi] at h
    obtain ⟨F, hF, rfl⟩ := Option.map_eq_some_iff.1 h
    exact ⟨itf, F, rfl, hF, rfl⟩

theorem shape_component (t : Types) (n w : Nat) (x : Tree) (h : t.unfoldKind (n + 1) (.component w) = some x) :
    ∃ wd I E, t.worlds[w]? = some wd ∧ unfoldItems (t.unfoldKind n) wd.imports = some I ∧
      unfoldItems (t.unfoldKind n) wd.exports = some E ∧ x = .component I E := by
  simp only [Types.unfoldKind] at h
  cases hw : t.worlds[w]? with
  | none => simp [hw] at h
  | some wd =>
    simp only [hw] at h
    split at h
    · rename_i I E h1 h2
      cases h; exact ⟨wd, I, E, rfl, h1, h2, rfl⟩
    · cases h

/-- a `type` item whose type has a kind counterpart unfolds to `.type` of that kind's tree -/
theorem shape_type_func (t : Types) (n f : Nat) (x : Tree)
    (h : t.unfoldKind (n + 1) (.type (.func f)) = some x) :
    ∃ y, t.unfoldKind (n + 1) (.func f) = some y ∧ x = .type y := by
  simp only [Types.unfoldKind] at h ⊢
  obtain ⟨y, hy, rfl⟩ := Option.map_eq_some_iff.1 h
  exact ⟨y, hy, rfl⟩

theorem shape_type_interface (t : Types) (n i : Nat) (x : Tree)
    (h : t.unfoldKind (n + 1) (.type (.interface i)) = some x) :
    ∃ y, t.unfoldKind (n + 1) (.instance i) = some y ∧ x = .type y := by
  simp only [Types.unfoldKind] at h ⊢
  cases hi : t.interfaces[i]? with
  | none => simp [hi] at h
  | some itf =>
    simp only [hi] at h ⊢
    obtain ⟨F, hF, rfl⟩ := Option.map_eq_some_iff.1 h
    exact ⟨_, by rw [hF]; rfl, rfl⟩

theorem shape_type_world (t : Types) (n w : Nat) (x : Tree)
    (h : t.unfoldKind (n + 1) (.type (.world w)) = some x) :
    ∃ y, t.unfoldKind (n + 1) (.component w) = some y ∧ x = .type y := by
  simp only [Types.unfoldKind] at h ⊢
  cases hw : t.worlds[w]? with
  | none => simp [hw] at h
  | some wd =>
    simp only [hw] at h ⊢
    split at h
    · rename_i I E h1 h2
      cases h
      exact ⟨_, rfl, rfl⟩
    · cases h

theorem shape_type_module (t : Types) (n m : Nat) (x : Tree)
    (h : t.unfoldKind (n + 1) (.type (.module m)) = some x) :
    ∃ y, t.unfoldKind (n + 1) (.module m) = some y ∧ x = .type y := by
  simp only [Types.unfoldKind] at h ⊢
  obtain ⟨y, hy, rfl⟩ := Option.map_eq_some_iff.1 h
  exact ⟨_, by rw [hy]; rfl, rfl⟩

theorem shape_type_value (t : Types) (n : Nat) (v : ValueType) (x : Tree)
    (h : t.unfoldKind (n + 1) (.type (.value v)) = some x) : ∃ y, t.unfoldVT n v = some y ∧ x = .type y := by
  simp only [Types.unfoldKind] at h
  obtain ⟨y, hy, rfl⟩ := Option.map_eq_some_iff.1 h
  exact ⟨y, hy, rfl⟩

theorem shape_type_resource (t : Types) (n r : Nat) (x : Tree)
    (h : t.unfoldKind (n + 1) (.type (.resource r)) = some x) : ∃ l, t.resLeaf r = some l ∧ x = .type (.resource l) := by
  simp only [Types.unfoldKind] at h
  obtain ⟨y, hy, rfl⟩ := Option.map_eq_some_iff.1 h
  exact ⟨y, hy, rfl⟩

def kindTag : ItemKind → Nat
  | .func _ => 0 | .value _ => 1 | .module _ => 2 | .instance _ => 3 | .component _ => 4 | .type _ => 5

def tyTag : Ty → Nat
  | .resource _ => 6 | .func _ => 0 | .value _ => 10 | .interface _ => 3 | .world _ => 4 | .module _ => 2

theorem ktag_unfoldType (t : Types) (n : Nat) (ty : Ty) (x : Tree)
    (h : t.unfoldKind (n + 1) (.type ty) = some x) : ∃ y, x = .type y ∧ ktag y = tyTag ty := by
  cases ty with
  | resource r =>
    obtain ⟨l, _, rfl⟩ := shape_type_resource t n r x h
    exact ⟨_, rfl, rfl⟩
  | func f =>
    obtain ⟨y, hy, rfl⟩ := shape_type_func t n f x h
    obtain ⟨a, p, r, rfl⟩ := unfoldFunc_shape t n f y (shape_func t n f y hy)
    exact ⟨_, rfl, rfl⟩
  | value v =>
    obtain ⟨y, hy, rfl⟩ := shape_type_value t n v x h
    exact ⟨_, rfl, unfoldVT_ktag t n v y hy⟩
  | interface i =>
    obtain ⟨y, hy, rfl⟩ := shape_type_interface t n i x h
    obtain ⟨_, F, _, _, rfl⟩ := shape_instance t n i y hy
    exact ⟨_, rfl, rfl⟩
  | world w =>
    obtain ⟨y, hy, rfl⟩ := shape_type_world t n w x h
    obtain ⟨_, I, E, _, _, _, rfl⟩ := shape_component t n w y hy
    exact ⟨_, rfl, rfl⟩
  | module m =>
    obtain ⟨y, hy, rfl⟩ := shape_type_module t n m x h
    obtain ⟨_, _, rfl⟩ := shape_module t n m y hy
    exact ⟨_, rfl, rfl⟩

theorem ktag_unfoldKind (t : Types) (n : Nat) (a : ItemKind) (x : Tree)
    (h : t.unfoldKind (n + 1) a = some x) : ktag x = kindTag a := by
  cases a with
  | func f =>
    obtain ⟨a, p, r, rfl⟩ := unfoldFunc_shape t n f x (shape_func t n f x h); rfl
  | value v => obtain ⟨y, _, rfl⟩ := shape_value t n v x h; rfl
  | module m => obtain ⟨y, _, rfl⟩ := shape_module t n m x h; rfl
  | «instance» i => obtain ⟨_, F, _, _, rfl⟩ := shape_instance t n i x h; rfl
  | component w => obtain ⟨_, I, E, _, _, _, rfl⟩ := shape_component t n w x h; rfl
  | type ty => obtain ⟨y, rfl, _⟩ := ktag_unfoldType t n ty x h; rfl

/-! ### `is_subtype_` -/

def GoalK (W : Colls) (c : Checker) (res : R × Checker) (P : Prop) : Prop :=
  Decides res.1 P ∧ MemoSound W res.2.cache ∧ (res.1 = .ok → res.2.kinds = c.kinds)

theorem goalK_pure {W : Colls} {c : Checker} {r : R} {P : Prop} (hm : MemoSound W c.cache) (d : Decides r P) :
    GoalK W c (r, c) P := ⟨d, hm, fun _ => rfl⟩

theorem GoalK.congr {W : Colls} {c : Checker} {res : R × Checker} {P Q : Prop} (h : GoalK W c res P) (hpq : P ↔ Q) :
    GoalK W c res Q := ⟨⟨h.1.1.trans hpq, h.1.2⟩, h.2.1, h.2.2⟩

section inner
variable {W : Colls} {at_ bt : Types} (hat : W.mem at_) (hbt : W.mem bt) (n : Nat)
  {fwd bwd : Checker → ItemKind → ItemKind → R × Checker}
  (hf : KOk W fwd (at_.unfoldKind n) (bt.unfoldKind n)) (hb : KOk W bwd (bt.unfoldKind n) (at_.unfoldKind n))
  (c : Checker) (hm : MemoSound W c.cache)
include hat hbt hm

theorem core_func (fa fb : Nat) (xa xb : Tree)
    (ha : at_.unfoldKind (n + 1) (.func fa) = some xa) (hb' : bt.unfoldKind (n + 1) (.func fb) = some xb) :
    GoalK W c (checkFunc c.kind n at_ fa bt fb, c) (subNames xa xb = true) := by
  have h1 := shape_func at_ n fa xa ha
  have h2 := shape_func bt n fb xb hb'
  obtain ⟨a, p, r, rfl⟩ := unfoldFunc_shape at_ n fa xa h1
  obtain ⟨b, q, s, rfl⟩ := unfoldFunc_shape bt n fb xb h2
  refine goalK_pure hm ?_
  rw [subNames_func]
  exact checkFunc_spec c.kind at_ bt (W.inj at_ bt hat hbt) n fa fb _ _ h1 h2

theorem core_value (va vb : ValueType) (ya yb : Tree)
    (ha : at_.unfoldVT n va = some ya) (hb' : bt.unfoldVT n vb = some yb) :
    GoalK W c (checkValueType c.kind at_ bt n va vb, c) (eraseRes ya = eraseRes yb) :=
  goalK_pure hm (checkValueType_spec c.kind at_ bt (W.inj at_ bt hat hbt) n va vb ya yb ha hb')

theorem core_module (ma mb : Nat) (xa xb : Tree)
    (ha : at_.unfoldKind (n + 1) (.module ma) = some xa) (hb' : bt.unfoldKind (n + 1) (.module mb) = some xb)
    (hnd : xa.namesDistinct = true) :
    GoalK W c (checkModule c at_ ma bt mb) (subNames xa xb = true) := by
  obtain ⟨x, hx, rfl⟩ := shape_module at_ n ma xa ha
  obtain ⟨y, hy, rfl⟩ := shape_module bt n mb xb hb'
  have h := checkModule_spec c at_ bt (W.inj at_ bt hat hbt) ma mb x y hx hy (by simpa [Tree.namesDistinct] using hnd)
  rw [subNames_module]
  exact ⟨h.1, by rw [h.2.1]; exact hm, h.2.2⟩

include hf in
theorem core_instance (ia ib : Nat) (xa xb : Tree)
    (ha : at_.unfoldKind (n + 1) (.instance ia) = some xa) (hb' : bt.unfoldKind (n + 1) (.instance ib) = some xb)
    (hnda : xa.namesDistinct = true) (hndb : xb.namesDistinct = true) :
    GoalK W c (checkInterface fwd c at_ ia bt ib) (subNames xa xb = true) := by
  obtain ⟨x, Fa, hx, hFa, rfl⟩ := shape_instance at_ n ia xa ha
  obtain ⟨y, Fb, hy, hFb, rfl⟩ := shape_instance bt n ib xb hb'
  refine checkInterface_spec hf c at_ bt ia ib x y hx hy Fa Fb hFa hFb (by simpa [Tree.namesDistinct] using hnda)
    (by simpa [Tree.namesDistinct] using hndb) ?_ hm
  intro hu hi
  have := W.inj at_ bt hat hbt hu
  subst this; subst hi
  rw [hx] at hy; cases hy
  rw [hFa] at hFb; exact Option.some.inj hFb

include hf hb in
theorem core_component (wa wb : Nat) (xa xb : Tree)
    (ha : at_.unfoldKind (n + 1) (.component wa) = some xa) (hb' : bt.unfoldKind (n + 1) (.component wb) = some xb)
    (hnda : xa.namesDistinct = true) (hndb : xb.namesDistinct = true) :
    GoalK W c (checkWorld fwd bwd c at_ wa bt wb) (subNames xa xb = true) := by
  obtain ⟨x, Ia, Ea, hx, hIa, hEa, rfl⟩ := shape_component at_ n wa xa ha
  obtain ⟨y, Ib, Eb, hy, hIb, hEb, rfl⟩ := shape_component bt n wb xb hb'
  simp only [Tree.namesDistinct, Bool.and_eq_true] at hnda hndb
  exact checkWorld_spec hf hb c at_ bt wa wb x y hx hy Ia Ea Ib Eb hIa hEa hIb hEb hnda.1 hnda.2 hndb.1 hndb.2 hm

include hf hb in
theorem isSubtypeInner_spec (a b : ItemKind) (ta tb : Tree)
    (ha : at_.unfoldKind (n + 1) a = some ta) (hb' : bt.unfoldKind (n + 1) b = some tb)
    (hnda : ta.namesDistinct = true) (hndb : tb.namesDistinct = true) :
    GoalK W c (isSubtypeInner fwd bwd n c at_ a bt b) (subNames ta tb = true) := by
  have outer_mismatch : kindTag a ≠ kindTag b → ¬ subNames ta tb = true := by
    intro h
    exact subNames_false_of_ktag ta tb (by rw [ktag_unfoldKind at_ n a ta ha, ktag_unfoldKind bt n b tb hb']; exact h)
  cases a with
  | func fa =>
    cases b with
    | func fb => simp only [isSubtypeInner]; exact core_func hat hbt n c hm fa fb ta tb ha hb'
    | _ => simp only [isSubtypeInner]; exact goalK_pure hm (decides_mismatch (outer_mismatch (by simp [kindTag])))
  | value va =>
    cases b with
    | value vb =>
      obtain ⟨ya, hya, rfl⟩ := shape_value at_ n va ta ha
      obtain ⟨yb, hyb, rfl⟩ := shape_value bt n vb tb hb'
      simp only [isSubtypeInner]
      rw [subNames_value]
      exact core_value hat hbt n c hm va vb ya yb hya hyb
    | _ => simp only [isSubtypeInner]; exact goalK_pure hm (decides_mismatch (outer_mismatch (by simp [kindTag])))
  | module ma =>
    cases b with
    | module mb => simp only [isSubtypeInner]; exact core_module hat hbt n c hm ma mb ta tb ha hb' hnda
    | _ => simp only [isSubtypeInner]; exact goalK_pure hm (decides_mismatch (outer_mismatch (by simp [kindTag])))
  | «instance» ia =>
    cases b with
    | «instance» ib => simp only [isSubtypeInner]; exact core_instance hat hbt n hf c hm ia ib ta tb ha hb' hnda hndb
    | _ => simp only [isSubtypeInner]; exact goalK_pure hm (decides_mismatch (outer_mismatch (by simp [kindTag])))
  | component wa =>
    cases b with
    | component wb => simp only [isSubtypeInner]; exact core_component hat hbt n hf hb c hm wa wb ta tb ha hb' hnda hndb
    | _ => simp only [isSubtypeInner]; exact goalK_pure hm (decides_mismatch (outer_mismatch (by simp [kindTag])))
  | type tya =>
    cases b with
    | type tyb =>
      obtain ⟨ya, rfl, hka⟩ := ktag_unfoldType at_ n tya ta ha
      obtain ⟨yb, rfl, hkb⟩ := ktag_unfoldType bt n tyb tb hb'
      have inner_mismatch : tyTag tya ≠ tyTag tyb → ¬ subNames (.type ya) (.type yb) = true := by
        intro h
        rw [subNames_type]
        exact subNames_false_of_ktag ya yb (by rw [hka, hkb]; exact h)
      simp only [Tree.namesDistinct] at hnda hndb
      cases tya with
      | resource ra =>
        cases tyb with
        | resource rb =>
          obtain ⟨la, hla, e1⟩ := shape_type_resource at_ n ra _ ha
          obtain ⟨lb, hlb, e2⟩ := shape_type_resource bt n rb _ hb'
          cases e1; cases e2
          simp only [isSubtypeInner]
          rw [subNames_type, subNames_resource]
          exact goalK_pure hm (checkResource_spec c.kind at_ bt (W.inj at_ bt hat hbt) ra rb la lb hla hlb)
        | _ => simp only [isSubtypeInner]; exact goalK_pure hm (decides_mismatch (inner_mismatch (by simp [tyTag])))
      | func fa =>
        cases tyb with
        | func fb =>
          obtain ⟨za, hza, e1⟩ := shape_type_func at_ n fa _ ha
          obtain ⟨zb, hzb, e2⟩ := shape_type_func bt n fb _ hb'
          cases e1; cases e2
          simp only [isSubtypeInner]
          rw [subNames_type]
          exact core_func hat hbt n c hm fa fb ya yb hza hzb
        | _ => simp only [isSubtypeInner]; exact goalK_pure hm (decides_mismatch (inner_mismatch (by simp [tyTag])))
      | value va =>
        cases tyb with
        | value vb =>
          obtain ⟨za, hza, e1⟩ := shape_type_value at_ n va _ ha
          obtain ⟨zb, hzb, e2⟩ := shape_type_value bt n vb _ hb'
          cases e1; cases e2
          simp only [isSubtypeInner]
          rw [subNames_type, subNames_eq_of_ktag10 ya yb (unfoldVT_ktag at_ n va ya hza)]
          exact core_value hat hbt n c hm va vb ya yb hza hzb
        | _ => simp only [isSubtypeInner]; exact goalK_pure hm (decides_mismatch (inner_mismatch (by simp [tyTag])))
      | interface ia =>
        cases tyb with
        | interface ib =>
          obtain ⟨za, hza, e1⟩ := shape_type_interface at_ n ia _ ha
          obtain ⟨zb, hzb, e2⟩ := shape_type_interface bt n ib _ hb'
          cases e1; cases e2
          simp only [isSubtypeInner]
          rw [subNames_type]
          exact core_instance hat hbt n hf c hm ia ib ya yb hza hzb hnda hndb
        | _ => simp only [isSubtypeInner]; exact goalK_pure hm (decides_mismatch (inner_mismatch (by simp [tyTag])))
      | world wa =>
        cases tyb with
        | world wb =>
          obtain ⟨za, hza, e1⟩ := shape_type_world at_ n wa _ ha
          obtain ⟨zb, hzb, e2⟩ := shape_type_world bt n wb _ hb'
          cases e1; cases e2
          simp only [isSubtypeInner]
          rw [subNames_type]
          exact core_component hat hbt n hf hb c hm wa wb ya yb hza hzb hnda hndb
        | _ => simp only [isSubtypeInner]; exact goalK_pure hm (decides_mismatch (inner_mismatch (by simp [tyTag])))
      | module ma =>
        cases tyb with
        | module mb =>
          obtain ⟨za, hza, e1⟩ := shape_type_module at_ n ma _ ha
          obtain ⟨zb, hzb, e2⟩ := shape_type_module bt n mb _ hb'
          cases e1; cases e2
          simp only [isSubtypeInner]
          rw [subNames_type]
          exact core_module hat hbt n c hm ma mb ya yb hza hzb hnda
        | _ => simp only [isSubtypeInner]; exact goalK_pure hm (decides_mismatch (inner_mismatch (by simp [tyTag])))
    | _ => simp only [isSubtypeInner]; exact goalK_pure hm (decides_mismatch (outer_mismatch (by simp [kindTag])))

end inner

/-! ### `is_subtype` -/

theorem same_gkind (W : Colls) (s t : Types) (hs : W.mem s) (ht : W.mem t) (k' k : ItemKind)
    (h : GKind.mk' s k' = GKind.mk' t k) {n m : Nat} {x y : Tree}
    (hx : s.unfoldKind n k' = some x) (hy : t.unfoldKind m k = some y) : x = y := by
  simp only [GKind.mk', GKind.mk.injEq] at h
  obtain ⟨hu, hk⟩ := h
  subst hk
  cases hid : k'.hasId with
  | true =>
    simp only [hid, ↓reduceIte] at hu
    have := W.inj s t hs ht hu
    subst this
    exact unfoldKind_det s hx hy
  | false => exact unfoldKind_noId s t hid hx hy

theorem isSubtype_spec (W : Colls) : ∀ (n : Nat) (at_ bt : Types), W.mem at_ → W.mem bt →
    KOk W (fun c a b => isSubtype n c at_ a bt b) (at_.unfoldKind n) (bt.unfoldKind n)
  | 0, at_, bt, _, _ => by
    intro c a b ta tb _ ha
    simp [Types.unfoldKind] at ha
  | n + 1, at_, bt, hat, hbt => by
    intro c a b ta tb hm ha hb hnda hndb
    have hf := isSubtype_spec W n at_ bt hat hbt
    have hbk := isSubtype_spec W n bt at_ hbt hat
    simp only [isSubtype]
    by_cases hc : c.cache.contains (GKind.mk' at_ a, GKind.mk' bt b) = true
    · simp only [hc, ↓reduceIte]
      refine ⟨decides_ok ?_, hm, by simp⟩
      exact hm at_ a bt b hat hbt (by simpa using hc) (n + 1) ta tb ha hb
    · simp only [hc, Bool.false_eq_true, ↓reduceIte]
      have hi := isSubtypeInner_spec hat hbt n hf hbk c hm a b ta tb ha hb hnda hndb
      cases hr : isSubtypeInner (fun c x y => isSubtype n c at_ x bt y) (fun c y x => isSubtype n c bt y at_ x)
          n c at_ a bt b with
      | mk r c' =>
        rw [hr] at hi
        cases r with
        | ok =>
          simp only
          have hsub : subNames ta tb = true := hi.1.1.1 rfl
          refine ⟨decides_ok hsub, ?_, fun _ => hi.2.2 rfl⟩
          intro s k' t k hs ht hmem m x y hx hy
          simp only [List.mem_cons, Prod.mk.injEq] at hmem
          rcases hmem with ⟨h1, h2⟩ | hmem
          · have e1 := same_gkind W s at_ hs hat k' a h1 hx ha
            have e2 := same_gkind W t bt ht hbt k b h2 hy hb
            subst e1; subst e2; exact hsub
          · exact hi.2.1 s k' t k hs ht hmem m x y hx hy
        | err m => exact hi
        | panic s => exact hi

end Wac
