import WacModel.Spec.Wiring
import WacModel.Encode
/-
  Readings of the specification's fold (`specNode`): how many instantiations it lists, and that
  the embedded components are the distinct packages in order of first instantiation.
-/
namespace Wac
open Wac.Spec

/-- node `id` is an instantiation node of a registered package -/
def isInstOf (g : GraphVal) (id : Nat) : Bool :=
  match g.node? id with
  | some n =>
    match n.kind with
    | .instantiation slot _ => (g.pkg? slot).isSome
    | _ => false
  | none => false

/-- the package slot an instantiation node instantiates -/
def slotOf (g : GraphVal) (id : Nat) : Option Nat :=
  match g.node? id with
  | some n =>
    match n.kind with
    | .instantiation slot _ => if (g.pkg? slot).isSome then some slot else none
    | _ => none
  | none => none

theorem specNode_insts_length (g : GraphVal) (cn : Str → Str) (d : Bool) (s : SpecSt) (id : Nat) :
    (specNode g cn d s id).w.insts.length = s.w.insts.length + (if isInstOf g id then 1 else 0) := by
  cases hn : g.node? id with
  | none => simp [specNode, isInstOf, hn]
  | some n =>
    cases hk : n.kind with
    | «import» nm => simp [specNode, isInstOf, hn, hk]
    | alias =>
      cases hs : n.aliasSource with
      | none => simp [specNode, isInstOf, hn, hk, hs]
      | some se =>
        simp only [specNode, isInstOf, hn, hk, hs]
        split <;> simp
    | definition =>
      cases hs : n.exportName <;> simp [specNode, isInstOf, hn, hk, hs]
    | instantiation slot sat =>
      cases hp : g.pkg? slot with
      | none => simp [specNode, isInstOf, hn, hk, hp]
      | some p => simp [specNode, isInstOf, hn, hk, hp, specInst]

theorem fold_insts_length (g : GraphVal) (cn : Str → Str) (d : Bool) (ord : List Nat) (s : SpecSt) :
    (ord.foldl (specNode g cn d) s).w.insts.length = s.w.insts.length + (ord.filter (isInstOf g)).length := by
  induction ord generalizing s with
  | nil => simp
  | cons id ord ih =>
    rw [List.foldl_cons, ih, specNode_insts_length]
    by_cases h : isInstOf g id = true
    · simp [List.filter_cons, h]; omega
    · simp [List.filter_cons, h]

/-- the embedded components mirror the packages seen, which are distinct -/
structure SeenOk (g : GraphVal) (d : Bool) (s : SpecSt) : Prop where
  nodup : s.seen.Nodup
  comps : d = true → s.w.comps = s.seen.filterMap fun slot => (g.pkg? slot).map (·.bytesId)
  nocomps : d = false → s.w.comps = []

theorem specNode_seenOk (g : GraphVal) (cn : Str → Str) (d : Bool) (s : SpecSt) (id : Nat) (h : SeenOk g d s) :
    SeenOk g d (specNode g cn d s id) := by
  cases hn : g.node? id with
  | none => simpa [specNode, hn] using h
  | some n =>
    cases hk : n.kind with
    | «import» nm => simpa [specNode, hn, hk] using h
    | alias =>
      cases hs : n.aliasSource with
      | none => simpa [specNode, hn, hk, hs] using h
      | some se =>
        simp only [specNode, hn, hk, hs]
        split
        · exact ⟨h.nodup, h.comps, h.nocomps⟩
        · exact ⟨h.nodup, h.comps, h.nocomps⟩
    | definition =>
      cases hs : n.exportName with
      | none => simpa [specNode, hn, hk, hs] using h
      | some nm =>
        simp only [specNode, hn, hk, hs]
        exact ⟨h.nodup, h.comps, h.nocomps⟩
    | instantiation slot sat =>
      cases hp : g.pkg? slot with
      | none => simpa [specNode, hn, hk, hp] using h
      | some p =>
        simp only [specNode, hn, hk, hp, specInst]
        by_cases hc : slot ∈ s.seen
        · refine ⟨by simpa [hc] using h.nodup, ?_, ?_⟩
          · intro hd; simp [hc, h.comps hd]
          · intro hd; simp [hc, hd, h.nocomps hd]
        · refine ⟨?_, ?_, ?_⟩
          · simp only [List.contains_eq_mem, hc, decide_false, Bool.not_false, ↓reduceIte]
            refine List.nodup_append.mpr ⟨h.nodup, by simp, ?_⟩
            intro a ha b hb
            simp only [List.mem_singleton] at hb
            subst hb
            exact fun e => hc (e ▸ ha)
          · intro hd
            simp [hc, hd, h.comps hd, List.filterMap_append, hp]
          · intro hd
            simp [hc, hd, h.nocomps hd]

theorem fold_seenOk (g : GraphVal) (cn : Str → Str) (d : Bool) (ord : List Nat) (s : SpecSt) (h : SeenOk g d s) :
    SeenOk g d (ord.foldl (specNode g cn d) s) := by
  induction ord generalizing s with
  | nil => exact h
  | cons id ord ih => exact ih _ (specNode_seenOk g cn d s id h)

end Wac

namespace Wac
open Wac.Spec

/-- `t` is the designated term of `src` as far as it is known in `s` (or `bad` when `src` has
    not been placed yet) -/
def TermOf (s : SpecSt) (src : Nat) (t : Term) : Prop := natGet s.terms src = some t ∨ (natGet s.terms src = none ∧ t = .bad)

theorem termOf_self (s : SpecSt) (src : Nat) : TermOf s src (s.term src) := by
  unfold TermOf
  have : s.term src = (natGet s.terms src).getD .bad := rfl
  rw [this]
  cases natGet s.terms src <;> simp

/-- every alias and every explicit argument read back is the designated one -/
structure ReadsOk (g : GraphVal) (cn : Str → Str) (s : SpecSt) : Prop where
  aliases : ∀ a ∈ s.w.aliases, ∃ id n src, g.node? id = some n ∧ n.kind = .alias ∧
    n.aliasSource = some (src, a.2.2) ∧ a.2.1 = n.ty.kind ∧ (natGet s.terms src = some a.1 ∨ a.1 = .bad)
  args : ∀ i ∈ s.w.insts, ∀ a ∈ i.args,
    (∃ id n src, g.node? id = some n ∧ (a.1, src) ∈ n.args ∧ a.2.1 = kindOf g src ∧
      (natGet s.terms src = some a.2.2 ∨ a.2.2 = .bad)) ∨
    a.2.2 = .imp (cn a.1)

theorem natGet_append_some {β} (m m' : List (Nat × β)) (k : Nat) (v : β) (h : natGet m k = some v) :
    natGet (m ++ m') k = some v := by
  induction m with
  | nil => simp [natGet] at h
  | cons e m ih =>
    have hc : ∀ l : List (Nat × β), natGet (e :: l) k = if e.1 = k then some e.2 else natGet l k := by
      intro l
      unfold natGet
      by_cases he : e.1 = k
      · simp [List.find?_cons, he]
      · have : (e.1 == k) = false := by simpa using he
        simp [List.find?_cons, this, he]
    rw [List.cons_append, hc]
    rw [hc] at h
    by_cases he : e.1 = k
    · simpa [he] using h
    · simp only [he, ↓reduceIte] at h ⊢
      exact ih h

theorem specNode_terms_mono (g : GraphVal) (cn : Str → Str) (d : Bool) (s : SpecSt) (id : Nat) (k : Nat) (t : Term)
    (h : natGet s.terms k = some t) : natGet (specNode g cn d s id).terms k = some t := by
  cases hn : g.node? id with
  | none => simpa [specNode, hn] using h
  | some n =>
    cases hk : n.kind with
    | «import» nm => simpa [specNode, hn, hk] using h
    | alias =>
      cases hs : n.aliasSource with
      | none => simpa [specNode, hn, hk, hs] using h
      | some se =>
        simp only [specNode, hn, hk, hs]
        exact natGet_append_some _ _ _ _ h
    | definition =>
      cases hs : n.exportName with
      | none => simpa [specNode, hn, hk, hs] using h
      | some nm =>
        simp only [specNode, hn, hk, hs]
        exact natGet_append_some _ _ _ _ h
    | instantiation slot sat =>
      cases hp : g.pkg? slot with
      | none => simpa [specNode, hn, hk, hp] using h
      | some p =>
        simp only [specNode, hn, hk, hp, specInst]
        exact natGet_append_some _ _ _ _ h

theorem specNode_readsOk (g : GraphVal) (cn : Str → Str) (d : Bool) (s : SpecSt) (id : Nat) (h : ReadsOk g cn s) :
    ReadsOk g cn (specNode g cn d s id) := by
  have mono := specNode_terms_mono g cn d s id
  -- facts about old entries carry over
  have oldA : ∀ a ∈ s.w.aliases, ∃ id' n src, g.node? id' = some n ∧ n.kind = .alias ∧
      n.aliasSource = some (src, a.2.2) ∧ a.2.1 = n.ty.kind ∧
      (natGet (specNode g cn d s id).terms src = some a.1 ∨ a.1 = .bad) := by
    intro a ha
    obtain ⟨i, n, src, h1, h2, h3, h4, h5⟩ := h.aliases a ha
    exact ⟨i, n, src, h1, h2, h3, h4, h5.elim (fun e => Or.inl (mono _ _ e)) Or.inr⟩
  have oldI : ∀ i ∈ s.w.insts, ∀ a ∈ i.args,
      (∃ id' n src, g.node? id' = some n ∧ (a.1, src) ∈ n.args ∧ a.2.1 = kindOf g src ∧
        (natGet (specNode g cn d s id).terms src = some a.2.2 ∨ a.2.2 = .bad)) ∨ a.2.2 = .imp (cn a.1) := by
    intro i hi a ha
    rcases h.args i hi a ha with ⟨i', n, src, h1, h2, h3, h5⟩ | h'
    · exact Or.inl ⟨i', n, src, h1, h2, h3, h5.elim (fun e => Or.inl (mono _ _ e)) Or.inr⟩
    · exact Or.inr h'
  cases hn : g.node? id with
  | none => simpa [specNode, hn] using h
  | some n =>
    cases hk : n.kind with
    | «import» nm => simpa [specNode, hn, hk] using h
    | alias =>
      cases hs : n.aliasSource with
      | none => simpa [specNode, hn, hk, hs] using h
      | some se =>
        obtain ⟨src, e⟩ := se
        simp only [specNode, hn, hk, hs] at oldA oldI ⊢
        constructor
        · intro a ha
          split at ha
          · exact oldA a ha
          · simp only [List.mem_append, List.mem_singleton] at ha
            rcases ha with ha | ha
            · exact oldA a ha
            · subst ha
              refine ⟨id, n, src, hn, hk, hs, rfl, ?_⟩
              rcases termOf_self s src with h1 | ⟨_, h2⟩
              · exact Or.inl (natGet_append_some _ _ _ _ h1)
              · exact Or.inr h2
        · intro i hi a ha
          split at hi
          · exact oldI i hi a ha
          · exact oldI i hi a ha
    | definition =>
      cases hs : n.exportName with
      | none => simpa [specNode, hn, hk, hs] using h
      | some nm =>
        simp only [specNode, hn, hk, hs] at oldA oldI ⊢
        exact ⟨oldA, oldI⟩
    | instantiation slot sat =>
      cases hp : g.pkg? slot with
      | none => simpa [specNode, hn, hk, hp] using h
      | some p =>
        simp only [specNode, hn, hk, hp, specInst] at oldA oldI ⊢
        constructor
        · exact oldA
        · intro i hi a ha
          simp only [List.mem_append, List.mem_singleton] at hi
          rcases hi with hi | hi
          · exact oldI i hi a ha
          · subst hi
            simp only [List.mem_append, List.mem_map] at ha
            rcases ha with ⟨x, hx, rfl⟩ | ⟨r, hr, rfl⟩
            · left
              refine ⟨id, n, x.2, hn, by simpa using hx, rfl, ?_⟩
              rcases termOf_self s x.2 with h1 | ⟨_, h2⟩
              · exact Or.inl (natGet_append_some _ _ _ _ h1)
              · exact Or.inr h2
            · right; rfl

theorem fold_readsOk (g : GraphVal) (cn : Str → Str) (d : Bool) (ord : List Nat) (s : SpecSt) (h : ReadsOk g cn s) :
    ReadsOk g cn (ord.foldl (specNode g cn d) s) := by
  induction ord generalizing s with
  | nil => exact h
  | cons id ord ih => exact ih _ (specNode_readsOk g cn d s id h)

end Wac
