import WacProofs.Lemmas.GraphClear
import WacProofs.Lemmas.GraphInvUnexport
/-
  Removing one node that has no outgoing alias edge preserves `Inv` (abstract statement on
  what the state looks like afterwards; instantiated by `detachNode` and by the bulk removal
  of `unregister_package`).
-/
namespace Wac.Graph
open Wac Wac.HashSites

theorem alGet_alErase_other {κ β : Type} [DecidableEq κ] {l : List (κ × β)} {k q : κ} (h : k ≠ q) :
    alGet (alErase l k) q = alGet l q := by
  induction l with
  | nil => rfl
  | cons x r ih =>
    obtain ⟨a, b⟩ := x
    unfold alErase
    split
    · rename_i hk
      subst hk
      rw [alGet_cons]; simp [h]
    · rw [alGet_cons, alGet_cons, ih]

/-- two edges of a graph with the same argument key are the same edge -/
theorem argKey_inj : ∀ {es : List Edge}, (es.filterMap Edge.argKey).Nodup → ∀ {e e' : Edge} {k : Nat × Nat},
    e ∈ es → e' ∈ es → e.argKey = some k → e'.argKey = some k → e = e'
  | [], _, _, _, _, he, _, _, _ => by cases he
  | x :: r, nd, e, e', k, he, he', hk, hk' => by
    cases hx : x.argKey with
    | none =>
      simp only [List.filterMap_cons, hx] at nd
      rcases List.mem_cons.mp he with rfl | he
      · rw [hx] at hk; cases hk
      · rcases List.mem_cons.mp he' with rfl | he'
        · rw [hx] at hk'; cases hk'
        · exact argKey_inj nd he he' hk hk'
    | some kx =>
      simp only [List.filterMap_cons, hx, List.nodup_cons] at nd
      have h1 := List.mem_cons.mp he
      have h2 := List.mem_cons.mp he'
      clear he he'
      rcases h1 with h1 | h1 <;> rcases h2 with h2 | h2
      · exact h1.trans h2.symm
      · exfalso
        rw [h1, hx] at hk
        have : kx = k := Option.some.inj hk
        rw [this] at nd
        exact nd.1 (List.mem_filterMap.mpr ⟨e', h2, hk'⟩)
      · exfalso
        rw [h2, hx] at hk'
        have : kx = k := Option.some.inj hk'
        rw [this] at nd
        exact nd.1 (List.mem_filterMap.mpr ⟨e, h1, hk⟩)
      · exact argKey_inj nd.2 h1 h2 hk hk'

/-- the state after one node is gone -/
structure Removed (g g' : Graph) (n : Nat) (nd : Node) : Prop where
  gone : g'.node? n = none
  len : g'.nodes.length = g.nodes.length
  kept : ∀ m x, m ≠ n → g.node? m = some x → ∃ s, g'.node? m = some (setSat x s) ∧ s.Nodup ∧
    ∀ i, i ∈ s ↔ i ∈ x.sat ∧ (⟨n, m, .arg i⟩ : Edge) ∉ g.edges
  noNew : ∀ m x', g'.node? m = some x' → m ≠ n ∧ ∃ x, g.node? m = some x
  freeNodes : g'.freeNodes = n :: g.freeNodes
  edges : g'.edges = g.edges.filter (fun e => !(e.src == n || e.dst == n))
  imports : g'.imports = match nd.kind with
    | .import name => alErase g.imports name
    | _ => g.imports
  exports : g'.exports = match nd.exp with
    | some name => dropped g.exports name n
    | none => g.exports
  defined : g'.defined = match nd.kind with
    | .definition ty => alErase g.defined ty
    | _ => g.defined
  pkgs : g'.pkgs = g.pkgs
  pkgMap : g'.pkgMap = g.pkgMap
  freePkgs : g'.freePkgs = g.freePkgs

theorem Removed.back {g g' : Graph} {n : Nat} {nd : Node} (r : Removed g g' n nd) {m : Nat} {x' : Node}
    (hx' : g'.node? m = some x') : m ≠ n ∧ ∃ x s, g.node? m = some x ∧ x' = setSat x s ∧ s.Nodup ∧
      ∀ i, i ∈ s ↔ i ∈ x.sat ∧ (⟨n, m, .arg i⟩ : Edge) ∉ g.edges := by
  obtain ⟨hm, x, hx⟩ := r.noNew m x' hx'
  obtain ⟨s, hs, a, b⟩ := r.kept m x hm hx
  rw [hx'] at hs
  exact ⟨hm, x, s, hx, Option.some.inj hs, a, b⟩

theorem inv_removed {ctx : Ctx} {g g' : Graph} {n : Nat} {nd : Node}
    (h : Inv ctx g) (hn : g.node? n = some nd)
    (hnoalias : ∀ e ∈ g.edges, e.src = n → e.kind.isAlias = false)
    (r : Removed g g' n nd) : Inv ctx g' := by
  have pk := pkgPart_congr h r.pkgs r.pkgMap r.freePkgs
  have hnok := h.node hn
  have hmemE : ∀ e, e ∈ g'.edges ↔ e ∈ g.edges ∧ e.src ≠ n ∧ e.dst ≠ n := by
    intro e
    rw [r.edges, List.mem_filter]
    simp [not_or]
  -- entries of the maps that survive
  have himp : ∀ e, e ∈ g'.imports → e ∈ g.imports ∧ e.2 ≠ n := by
    intro e hem
    rw [r.imports] at hem
    cases hk : nd.kind with
    | «import» name =>
      rw [hk] at hem
      obtain ⟨hem', hne⟩ := (alErase_mem h.importsKeys e).mp hem
      refine ⟨hem', fun e2 => ?_⟩
      obtain ⟨x, hx, hxk⟩ := h.importsLive' e hem'
      rw [e2, hn] at hx; cases hx
      rw [hk] at hxk; cases hxk; exact hne rfl
    | definition ty =>
      rw [hk] at hem
      refine ⟨hem, fun e2 => ?_⟩
      obtain ⟨x, hx, hxk⟩ := h.importsLive' e hem
      rw [e2, hn] at hx; cases hx; rw [hk] at hxk; cases hxk
    | instantiation s =>
      rw [hk] at hem
      refine ⟨hem, fun e2 => ?_⟩
      obtain ⟨x, hx, hxk⟩ := h.importsLive' e hem
      rw [e2, hn] at hx; cases hx; rw [hk] at hxk; cases hxk
    | alias =>
      rw [hk] at hem
      refine ⟨hem, fun e2 => ?_⟩
      obtain ⟨x, hx, hxk⟩ := h.importsLive' e hem
      rw [e2, hn] at hx; cases hx; rw [hk] at hxk; cases hxk
  have hdef : ∀ e, e ∈ g'.defined → e ∈ g.defined ∧ e.2 ≠ n := by
    intro e hem
    rw [r.defined] at hem
    cases hk : nd.kind with
    | definition ty =>
      rw [hk] at hem
      obtain ⟨hem', hne⟩ := (alErase_mem h.definedKeys e).mp hem
      refine ⟨hem', fun e2 => ?_⟩
      obtain ⟨x, hx, hxk⟩ := h.definedLive' e hem'
      rw [e2, hn] at hx; cases hx
      rw [hk] at hxk; cases hxk; exact hne rfl
    | «import» name =>
      rw [hk] at hem
      refine ⟨hem, fun e2 => ?_⟩
      obtain ⟨x, hx, hxk⟩ := h.definedLive' e hem
      rw [e2, hn] at hx; cases hx; rw [hk] at hxk; cases hxk
    | instantiation s =>
      rw [hk] at hem
      refine ⟨hem, fun e2 => ?_⟩
      obtain ⟨x, hx, hxk⟩ := h.definedLive' e hem
      rw [e2, hn] at hx; cases hx; rw [hk] at hxk; cases hxk
    | alias =>
      rw [hk] at hem
      refine ⟨hem, fun e2 => ?_⟩
      obtain ⟨x, hx, hxk⟩ := h.definedLive' e hem
      rw [e2, hn] at hx; cases hx; rw [hk] at hxk; cases hxk
  have hexp : ∀ e, e ∈ g'.exports → e ∈ g.exports ∧ e.2 ≠ n := by
    intro e hem
    rw [r.exports] at hem
    cases hx : nd.exp with
    | some name =>
      rw [hx] at hem
      obtain ⟨a, _, c⟩ := (dropped_mem h.exportsKeys name n e).mp hem
      exact ⟨a, c⟩
    | none =>
      rw [hx] at hem
      refine ⟨hem, fun e2 => ?_⟩
      obtain ⟨x, hx', hxe⟩ := h.exportsLive' e hem
      rw [e2, hn] at hx'; cases hx'
      rw [hx] at hxe; cases hxe
  -- a surviving old node, as seen in the new state
  have fwd : ∀ m x, m ≠ n → g.node? m = some x → ∃ s, g'.node? m = some (setSat x s) ∧ s.Nodup ∧
      ∀ i, i ∈ s ↔ i ∈ x.sat ∧ (⟨n, m, .arg i⟩ : Edge) ∉ g.edges := r.kept
  apply Inv.build
  · -- edges
    intro e hem
    obtain ⟨hem0, hsn, hdn⟩ := (hmemE e).mp hem
    obtain ⟨s, hs, d, hd, hkk⟩ := h.edges e hem0
    obtain ⟨ss, hs', _, _⟩ := fwd _ _ hsn hs
    obtain ⟨sd, hd', _, hsd⟩ := fwd _ _ hdn hd
    refine ⟨_, hs', _, hd', ?_⟩
    cases hek : e.kind with
    | alias j =>
      rw [hek] at hkk
      simp only at hkk ⊢
      rw [setSat_isAlias, setSat_pkg, setSat_pkg, setSat_item, setSat_item]; exact hkk
    | arg j =>
      rw [hek] at hkk
      simp only at hkk ⊢
      obtain ⟨h1, h2, pid, hpid, pd, hpd, hlt⟩ := hkk
      refine ⟨?_, by rw [setSat_isInst]; exact h2, pid, by rw [setSat_pkg]; exact hpid, pd,
        by rw [pkgOf_congr r.pkgs]; exact hpd, hlt⟩
      rw [setSat_sat h2, hsd]
      refine ⟨h1, fun hmem => hsn ?_⟩
      have : e = ⟨n, e.dst, .arg j⟩ :=
        argKey_inj h.argUnique hem0 hmem (k := (e.dst, j)) (by simp [Edge.argKey, hek]) (by simp [Edge.argKey])
      rw [this]
    | dep =>
      rw [hek] at hkk
      simp only at hkk ⊢
      rw [setSat_defTy, setSat_defTy]; exact hkk
  · rw [r.edges]
    exact (List.Sublist.filterMap _ List.filter_sublist).nodup h.argUnique
  · -- nodes
    intro m x' hx'
    obtain ⟨hmn, x, s, hx, rfl, hsn, hsm⟩ := r.back hx'
    obtain ⟨h1, h2, h3⟩ := h.node hx
    refine ⟨?_, ?_, ?_⟩
    · intro pid hpid
      rw [setSat_pkg] at hpid
      rw [pkgLive_congr r.pkgs]; exact h1 pid hpid
    · cases hk : x.kind with
      | instantiation sat =>
        rw [hk] at h2
        simp only at h2
        obtain ⟨_, b, pid, hpid, pd, hpd, hit⟩ := h2
        rw [setSat_kind_inst hk]
        simp only
        have hsat : x.sat = sat := by simp [Node.sat, hk]
        refine ⟨hsn, ?_, pid, by rw [setSat_pkg]; exact hpid, pd, by rw [pkgOf_congr r.pkgs]; exact hpd,
          by rw [setSat_item]; exact hit⟩
        intro i hi
        obtain ⟨hi1, hi2⟩ := (hsm i).mp hi
        rw [hsat] at hi1
        obtain ⟨e, hem, hdst, hkind⟩ := b i hi1
        refine ⟨e, (hmemE e).mpr ⟨hem, ?_, by rw [hdst]; exact hmn⟩, hdst, hkind⟩
        intro hsrc
        apply hi2
        have : e = ⟨n, m, .arg i⟩ := by cases e; simp only at hsrc hdst hkind; subst hsrc; subst hdst; subst hkind; rfl
        rw [← this]; exact hem
      | alias =>
        have hni : x.isInst = false := by simp [Node.isInst, hk]
        rw [setSat_of_not_inst hni, hk]
        rw [hk] at h2
        simp only at h2 ⊢
        -- the single incoming edge is an alias edge and does not start at `n`
        unfold Graph.inEdges at h2 ⊢
        obtain ⟨e0, hl⟩ := List.length_eq_one_iff.mp h2
        · have he0 : e0 ∈ g.edges.filter (fun e => e.dst == m) := by rw [hl]; exact List.mem_cons_self ..
          rw [List.mem_filter] at he0
          have hd0 : e0.dst = m := by simpa using he0.2
          obtain ⟨s0, _, d0, hd0', hk0⟩ := h.edges e0 he0.1
          rw [hd0] at hd0'
          rw [Option.mem_def, hx] at hd0'
          cases hd0'
          have hal : e0.kind.isAlias = true := by
            cases hek : e0.kind with
            | alias j => rfl
            | arg j => rw [hek] at hk0; simp only at hk0; rw [hni] at hk0; exact absurd hk0.2.1 (by simp)
            | dep => rw [hek] at hk0; have hdd := (dep_isDef hk0).2; simp [Node.isDef, hk] at hdd
          have hsrc : e0.src ≠ n := fun e => by rw [hnoalias e0 he0.1 e] at hal; cases hal
          rw [r.edges, List.filter_filter]
          have : (g.edges.filter fun a => (a.dst == m) && !(a.src == n || a.dst == n)) =
              (g.edges.filter (fun e => e.dst == m)).filter (fun a => !(a.src == n || a.dst == n)) := by
            rw [List.filter_filter]
            congr 1
            funext a
            exact Bool.and_comm _ _
          rw [this, hl]
          have hkeep : (!(e0.src == n || e0.dst == n)) = true := by
            simp [hsrc, hd0, hmn]
          have hdn : e0.dst ≠ n := by rw [hd0]; exact hmn
          simp [List.filter_cons, hsrc, hdn]
      | «import» name =>
        have hni : x.isInst = false := by simp [Node.isInst, hk]
        rw [setSat_of_not_inst hni, hk]
        rw [hk] at h2
        simp only at h2 ⊢
        rw [r.imports]
        cases hkn : nd.kind with
        | «import» name' =>
          simp only
          have hne : name' ≠ name := by
            intro e
            have hn2 := hnok.2.1
            rw [hkn] at hn2
            simp only at hn2
            rw [e, h2] at hn2
            exact hmn (Option.some.inj hn2)
          rw [alGet_alErase_other hne]; exact h2
        | definition ty => exact h2
        | instantiation s' => exact h2
        | alias => exact h2
      | definition ty =>
        have hni : x.isInst = false := by simp [Node.isInst, hk]
        rw [setSat_of_not_inst hni, hk]
        rw [hk] at h2
        simp only at h2 ⊢
        refine ⟨?_, h2.2⟩
        rw [r.defined]
        cases hkn : nd.kind with
        | definition ty' =>
          simp only
          have hne : ty' ≠ ty := by
            intro e
            have hn2 := hnok.2.1
            rw [hkn] at hn2
            simp only at hn2
            rw [e, h2.1] at hn2
            exact hmn (Option.some.inj hn2.1)
          rw [alGet_alErase_other hne]; exact h2.1
        | «import» nm => exact h2.1
        | instantiation s' => exact h2.1
        | alias => exact h2.1
    · rw [setSat_exp]
      intro nm hnm
      have hg := h3 nm hnm
      rw [r.exports]
      cases hxn : nd.exp with
      | none => exact hg
      | some name =>
        simp only
        have hname : alGet g.exports name = some n := hnok.2.2 name (by rw [hxn]; rfl)
        have hne : nm ≠ name := fun e => by
          rw [e, hname] at hg
          exact hmn (Option.some.inj hg).symm
        exact dropped_get h.exportsKeys hg hne hmn
  · rw [r.exports]
    cases hxn : nd.exp with
    | none => exact h.exportsKeys
    | some name => exact dropped_keys_nodup h.exportsKeys name n
  · intro e hem
    obtain ⟨hem0, hne⟩ := hexp e hem
    obtain ⟨x, hx, hxe⟩ := h.exportsLive' e hem0
    obtain ⟨s, hs, _, _⟩ := fwd _ _ hne hx
    exact ⟨_, hs, by rw [setSat_exp]; exact hxe⟩
  · rw [r.imports]
    cases hkn : nd.kind with
    | «import» name' => exact ((alErase_sublist g.imports name').map _).nodup h.importsKeys
    | definition ty => exact h.importsKeys
    | instantiation s' => exact h.importsKeys
    | alias => exact h.importsKeys
  · intro e hem
    obtain ⟨hem0, hne⟩ := himp e hem
    obtain ⟨x, hx, hxk⟩ := h.importsLive' e hem0
    obtain ⟨s, hs, _, _⟩ := fwd _ _ hne hx
    have hni : x.isInst = false := by simp [Node.isInst, hxk]
    exact ⟨_, hs, by rw [setSat_of_not_inst hni]; exact hxk⟩
  · rw [r.defined]
    cases hkn : nd.kind with
    | definition ty' => exact ((alErase_sublist g.defined ty').map _).nodup h.definedKeys
    | «import» nm => exact h.definedKeys
    | instantiation s' => exact h.definedKeys
    | alias => exact h.definedKeys
  · intro e hem
    obtain ⟨hem0, hne⟩ := hdef e hem
    obtain ⟨x, hx, hxk⟩ := h.definedLive' e hem0
    obtain ⟨s, hs, _, _⟩ := fwd _ _ hne hx
    have hni : x.isInst = false := by simp [Node.isInst, hxk]
    exact ⟨_, hs, by rw [setSat_of_not_inst hni]; exact hxk⟩
  · exact pk.1
  · exact pk.2.1
  · exact pk.2.2.1
  · exact pk.2.2.2.1
  · exact pk.2.2.2.2
  · have f := h.free
    have hnlt := node?_eq_some_lt hn
    refine ⟨?_, ?_, ?_⟩
    · rw [r.freeNodes, List.nodup_cons]
      refine ⟨fun hmem => ?_, f.nodup⟩
      have := (f.vacant n hmem).2
      rw [hn] at this; cases this
    · intro i hi
      rw [r.freeNodes] at hi
      rw [r.len]
      rcases List.mem_cons.mp hi with rfl | hi
      · exact ⟨hnlt, r.gone⟩
      · refine ⟨(f.vacant i hi).1, ?_⟩
        cases hq : g'.node? i with
        | none => rfl
        | some x' =>
          obtain ⟨_, x, hx⟩ := r.noNew i x' hq
          rw [(f.vacant i hi).2] at hx; cases hx
    · intro i hi hv
      rw [r.len] at hi
      rw [r.freeNodes]
      by_cases hin : i = n
      · rw [hin]; exact List.mem_cons_self ..
      · refine List.mem_cons_of_mem _ (f.all i hi ?_)
        cases hq : g.node? i with
        | none => rfl
        | some x =>
          obtain ⟨s, hs, _, _⟩ := fwd i x hin hq
          rw [hv] at hs; cases hs

end Wac.Graph
