import WacProofs.Lemmas.GraphInvExport
import WacProofs.Lemmas.GraphInvAlias
/-
  `set_instantiation_argument` preserves `Inv`.
-/
namespace Wac.Graph
open Wac Wac.HashSites

theorem scanArgs_none {es : List Edge} {i a : Nat} (h : scanArgs es i a = none) :
    ∀ e ∈ es, ∃ j, e.kind = .arg j ∧ j ≠ i := by
  induction es with
  | nil => intro e he; cases he
  | cons x r ih =>
    unfold scanArgs at h
    split at h
    · rename_i j hk
      split at h
      · cases h
      · rename_i hne
        intro e he
        rcases List.mem_cons.mp he with rfl | he
        · exact ⟨j, hk, hne⟩
        · exact ih h e he
    · cases h

theorem pkgAt_of_pkgOf {g : Graph} {id : PkgId} {d : PkgDef} (h : g.pkgOf id = .ok d) : g.pkgAt id = .ok d := by
  unfold Graph.pkgOf at h
  unfold Graph.pkgAt
  split at h
  · cases h
  · split at h
    · cases h
    · exact h

/-- what an edge needs from its endpoints survives: same package, item kind, node class, and
    the satisfied set may only grow -/
def WSim (a b : Node) : Prop :=
  b.pkg = a.pkg ∧ b.item = a.item ∧ b.isAlias = a.isAlias ∧ b.isInst = a.isInst ∧ b.defTy = a.defTy ∧
  ∀ j ∈ a.sat, j ∈ b.sat

theorem WSim.refl (a : Node) : WSim a a := ⟨rfl, rfl, rfl, rfl, rfl, fun _ h => h⟩

theorem EdgeOk.transferW {ctx : Ctx} {g g' : Graph} {e : Edge} (h : EdgeOk ctx g e)
    (hp : g'.pkgs = g.pkgs)
    (hn : ∀ m nd, g.node? m = some nd → ∃ nd', g'.node? m = some nd' ∧ WSim nd nd') :
    EdgeOk ctx g' e := by
  obtain ⟨s, hs, d, hd, hk⟩ := h
  obtain ⟨s', hs', ss⟩ := hn _ _ hs
  obtain ⟨d', hd', sd⟩ := hn _ _ hd
  refine ⟨s', hs', d', hd', ?_⟩
  cases hek : e.kind with
  | alias i =>
    rw [hek] at hk
    simp only at hk ⊢
    rw [sd.2.2.1, sd.1, ss.1, ss.2.1, sd.2.1]
    exact hk
  | arg i =>
    rw [hek] at hk
    simp only at hk ⊢
    obtain ⟨h1, h2, pid, hpid, pd, hpd, hlt⟩ := hk
    refine ⟨sd.2.2.2.2.2 i h1, by rw [sd.2.2.2.1]; exact h2, pid, by rw [sd.1]; exact hpid, pd, ?_, hlt⟩
    rw [pkgOf_congr hp]; exact hpd
  | dep =>
    rw [hek] at hk
    simp only at hk ⊢
    rw [ss.2.2.2.2.1, sd.2.2.2.2.1]
    exact hk

/-- a new argument edge, on field equalities -/
theorem inv_setArg_new {ctx : Ctx} {g g' : Graph} {inst arg i : Nat} {nd argNd : Node} {sat : List Nat}
    {pid : PkgId} {d : PkgDef}
    (h : Inv ctx g) (hnd : g.node? inst = some nd) (hk : nd.kind = .instantiation sat)
    (hpid : nd.pkg = some pid) (hd : g.pkgOf pid = .ok d) (hi : i < d.imports.length)
    (hscan : ∀ e ∈ g.inEdges inst, ∃ j, e.kind = .arg j ∧ j ≠ i)
    (harg : g.node? arg = some argNd) (hnot : i ∉ sat)
    (hn : g'.nodes = g.nodes.set inst (some { nd with kind := .instantiation (i :: sat) }))
    (hfn : g'.freeNodes = g.freeNodes) (he : g'.edges = ⟨arg, inst, .arg i⟩ :: g.edges)
    (him : g'.imports = g.imports) (hde : g'.defined = g.defined) (hex : g'.exports = g.exports)
    (hp : g'.pkgs = g.pkgs) (hm : g'.pkgMap = g.pkgMap) (hfp : g'.freePkgs = g.freePkgs) : Inv ctx g' := by
  obtain ⟨hfree, hnode⟩ := freeInv_of_set h.free hnd hn hfn
  have pk := pkgPart_congr h hp hm hfp
  have hnok := h.node hnd
  let nd' : Node := { nd with kind := .instantiation (i :: sat) }
  have hsatOld : nd.sat = sat := by simp [Node.sat, hk]
  have wsim : WSim nd nd' := by
    refine ⟨rfl, rfl, ?_, ?_, ?_, ?_⟩
    · simp [nd', Node.isAlias, hk]
    · simp [nd', Node.isInst, hk]
    · simp [nd', Node.defTy, hk]
    · intro j hj
      rw [hsatOld] at hj
      simp [nd', Node.sat, hj]
  have fwd : ∀ m x, g.node? m = some x → ∃ x', g'.node? m = some x' ∧ WSim x x' ∧ (m ≠ inst → x' = x) ∧
      (m = inst → x = nd ∧ x' = nd') := by
    intro m x hx
    rw [hnode]
    by_cases hm' : m = inst
    · subst hm'
      rw [hnd] at hx; cases hx
      exact ⟨nd', by simp [nd'], wsim, fun hne => absurd rfl hne, fun _ => ⟨rfl, rfl⟩⟩
    · exact ⟨x, by simp [hm', hx], WSim.refl _, fun _ => rfl, fun e => absurd e hm'⟩
  have hinst' : g'.node? inst = some nd' := by rw [hnode]; simp [nd']
  apply Inv.build
  · intro e hem
    rw [he] at hem
    rcases List.mem_cons.mp hem with rfl | hem
    · obtain ⟨a', ha', _⟩ := fwd arg argNd harg
      refine ⟨a', ha', nd', hinst', ?_⟩
      refine ⟨by simp [nd', Node.sat], by simp [nd', Node.isInst], pid, hpid, d, ?_, hi⟩
      rw [pkgOf_congr hp, hd]; rfl
    · exact (h.edges e hem).transferW hp (fun m x hx => let ⟨x', a, b, _⟩ := fwd m x hx; ⟨x', a, b⟩)
  · rw [he]
    simp only [List.filterMap_cons, Edge.argKey]
    rw [List.nodup_cons]
    refine ⟨?_, h.argUnique⟩
    intro hmem
    obtain ⟨e, hem, hkey⟩ := List.mem_filterMap.mp hmem
    unfold Edge.argKey at hkey
    split at hkey
    · rename_i j hkj
      simp only [Option.some.injEq, Prod.mk.injEq] at hkey
      obtain ⟨hdst, hji⟩ := hkey
      have hin : e ∈ g.inEdges inst := by
        unfold Graph.inEdges
        rw [List.mem_filter]; exact ⟨hem, by simpa using hdst⟩
      obtain ⟨j', hj', hne⟩ := hscan e hin
      rw [hkj] at hj'
      cases hj'
      exact hne hji
    · cases hkey
  · intro m x' hx'
    rw [hnode] at hx'
    by_cases hm' : m = inst
    · subst hm'
      simp only [↓reduceIte, Option.some.injEq] at hx'
      subst hx'
      obtain ⟨h1, h2, h3⟩ := hnok
      rw [hk] at h2
      simp only at h2
      obtain ⟨hnodup, hsub, hpd⟩ := h2
      refine ⟨?_, ?_, ?_⟩
      · intro pid' hpid'
        rw [pkgLive_congr hp]; exact h1 pid' hpid'
      · simp only
        refine ⟨List.nodup_cons.mpr ⟨hnot, hnodup⟩, ?_, ?_⟩
        · intro j hj
          rcases List.mem_cons.mp hj with rfl | hj
          · exact ⟨⟨arg, m, .arg j⟩, by rw [he]; exact List.mem_cons_self .., rfl, rfl⟩
          · obtain ⟨e, hem, hee⟩ := hsub j hj
            exact ⟨e, by rw [he]; exact List.mem_cons_of_mem _ hem, hee⟩
        · obtain ⟨p, hp1, pd, hp2, hp3⟩ := hpd
          exact ⟨p, hp1, pd, by rw [pkgOf_congr hp]; exact hp2, hp3⟩
      · intro nm hnm; rw [hex]; exact h3 nm hnm
    · simp only [hm', ↓reduceIte] at hx'
      refine (h.node hx').mono (NodeSim.refl _) rfl hp ?_ ?_ (fun q hq => by rw [him]; exact hq)
        (fun q hq => by rw [hde]; exact hq) (fun q hq => by rw [hex]; exact hq)
      · intro e hem; rw [he]; exact List.mem_cons_of_mem _ hem
      · intro _
        unfold Graph.inEdges
        rw [he]
        simp only [List.filter_cons]
        have : (inst == m) = false := by simpa using (Ne.symm hm')
        simp [this]
  · rw [hex]; exact h.exportsKeys
  · intro e hem
    rw [hex] at hem
    obtain ⟨x, hx, hxe⟩ := h.exportsLive' e hem
    obtain ⟨x', a, _, c, d'⟩ := fwd _ _ hx
    refine ⟨x', a, ?_⟩
    by_cases hm' : e.2 = inst
    · rw [(d' hm').2]
      have : x = nd := (d' hm').1
      rw [this] at hxe; exact hxe
    · rw [c hm']; exact hxe
  · rw [him]; exact h.importsKeys
  · intro e hem
    rw [him] at hem
    obtain ⟨x, hx, hxe⟩ := h.importsLive' e hem
    obtain ⟨x', a, _, c, d'⟩ := fwd _ _ hx
    refine ⟨x', a, ?_⟩
    by_cases hm' : e.2 = inst
    · have : x = nd := (d' hm').1
      rw [this, hk] at hxe; cases hxe
    · rw [c hm']; exact hxe
  · rw [hde]; exact h.definedKeys
  · intro e hem
    rw [hde] at hem
    obtain ⟨x, hx, hxe⟩ := h.definedLive' e hem
    obtain ⟨x', a, _, c, d'⟩ := fwd _ _ hx
    refine ⟨x', a, ?_⟩
    by_cases hm' : e.2 = inst
    · have : x = nd := (d' hm').1
      rw [this, hk] at hxe; cases hxe
    · rw [c hm']; exact hxe
  · exact pk.1
  · exact pk.2.1
  · exact pk.2.2.1
  · exact pk.2.2.2.1
  · exact pk.2.2.2.2
  · exact hfree

theorem alFull_lt {β : Type} {m : List (Str × β)} {k : Str} {i : Nat} {v : β} (h : alFull m k = some (i, v)) :
    i < m.length := by
  have := alFull_get h
  rcases Nat.lt_or_ge i m.length with hl | hl
  · exact hl
  · rw [List.getElem?_eq_none hl] at this; cases this

theorem inv_setArg {ctx : Ctx} {g g' : Graph} {inst arg : Nat} {name : Str} {out : Outcome}
    (h : Inv ctx g) (hs : setArg ctx g inst name arg = (g', out)) : Inv ctx g' := by
  unfold setArg at hs
  split at hs
  · simp only [Prod.mk.injEq] at hs; rw [← hs.1]; exact h
  · rename_i nd hnd
    split at hs
    · rename_i sat hk
      split at hs
      · simp only [Prod.mk.injEq] at hs; rw [← hs.1]; exact h
      · rename_i pid hpid
        split at hs
        · simp only [Prod.mk.injEq] at hs; rw [← hs.1]; exact h
        · rename_i d hd
          split at hs
          · simp only [Prod.mk.injEq] at hs; rw [← hs.1]; exact h
          · rename_i i expected hfull
            split at hs
            · simp only [Prod.mk.injEq] at hs; rw [← hs.1]; exact h
            · simp only [Prod.mk.injEq] at hs; rw [← hs.1]; exact h
            · simp only [Prod.mk.injEq] at hs; rw [← hs.1]; exact h
            · rename_i hscan
              split at hs
              · simp only [Prod.mk.injEq] at hs; rw [← hs.1]; exact h
              · rename_i argNd harg
                split at hs
                · simp only [Prod.mk.injEq] at hs; rw [← hs.1]; exact h
                · split at hs
                  · simp only [Prod.mk.injEq] at hs; rw [← hs.1]; exact h
                  · rename_i hnc
                    simp only [Prod.mk.injEq] at hs
                    rw [← hs.1]
                    -- the package the code found through `pkgAt` is the live one
                    have hnok := h.node hnd
                    have hlive := hnok.1 pid (by rw [hpid]; rfl)
                    have hd' : g.pkgOf pid = .ok d := by
                      unfold Graph.pkgLive at hlive
                      cases hq : g.pkgOf pid with
                      | error s => rw [hq] at hlive; cases hlive
                      | ok d0 =>
                        have := pkgAt_of_pkgOf hq
                        rw [hd] at this
                        cases this; rfl
                    exact inv_setArg_new h hnd hk hpid hd' (alFull_lt hfull) (scanArgs_none hscan) harg
                      (by simpa using hnc) rfl rfl rfl rfl rfl rfl rfl rfl rfl
    · simp only [Prod.mk.injEq] at hs; rw [← hs.1]; exact h

end Wac.Graph
