import WacModel.Parser
import WacModel.AstErase
import WacModel.PrintTokens
import WacModel.PrintWF
/-
  C13, base layer of "the parser model accepts the printed token sequence": the definitions
  (`E`, `DocsNF`, `ParsesTo`, follow-set predicates), the lexer-state lemmas (`peek…`, `next`,
  `parseToken`, `parseOptional`, `parseDocs`), one-step lemmas for `parseDelimited` and the leaves
  (`parseIdent`, `parseString`, `parsePackageName`, `parsePackagePath`).
-/
namespace Wac.Lemmas.PrinterParse
open Wac Wac.Ast Wac.Lex Wac.Parse Wac.PrintTok

/-- the tokens a parser state still has to read, without byte offsets -/
def E (st : PState) : List PTok := st.toks.map LTok.erase

/-- the doc-comment normal-form lemma, as a hypothesis (it is `Wac.Lemmas.PrinterErase.eraseDocs_of_comments_eq`) -/
def DocsNF : Prop :=
  ∀ ds' ds : List DocComment, ds'.map (·.comment) = docLines ds → eraseDocs ds' = eraseDocs ds

/-- `parse` reads exactly the tokens `ts` when they are followed by any `rest` satisfying `F`, and
returns a tree whose `er`-normal form is that of `x` -/
def ParsesTo {α : Type} (parse : PState → PR α) (er : α → α) (ts : List PTok) (x : α)
    (F : List PTok → Prop) : Prop :=
  ∀ (st : PState) (rest : List PTok), E st = ts ++ rest → F rest →
    ∃ (x' : α) (st' : PState), parse st = .ok (x', st') ∧ er x' = er x ∧ E st' = rest

/-! ### follow-set predicates -/

/-- the list starts with a token of kind `k` -/
def headIs (k : Token) (ts : List PTok) : Prop := ∃ t r, ts = t :: r ∧ t.res = .ok k

/-- the list starts with a token whose kind is in `ks` -/
def headIn (ks : List Token) (ts : List PTok) : Prop := ∃ t r k, ts = t :: r ∧ t.res = .ok k ∧ k ∈ ks

/-- the list is empty or starts with a (non-error) token whose kind is not in `ks` -/
def headNot (ks : List Token) (ts : List PTok) : Prop :=
  ∀ t r, ts = t :: r → ∃ k, t.res = .ok k ∧ k ∉ ks

theorem headIs_cons {k : Token} {t : PTok} {r : List PTok} (h : t.res = .ok k) : headIs k (t :: r) :=
  ⟨t, r, rfl, h⟩

theorem headIn_cons {ks : List Token} {k : Token} {t : PTok} {r : List PTok} (h : t.res = .ok k)
    (hm : k ∈ ks) : headIn ks (t :: r) := ⟨t, r, k, rfl, h, hm⟩

theorem headNot_cons {ks : List Token} {k : Token} {t : PTok} {r : List PTok} (h : t.res = .ok k)
    (hm : k ∉ ks) : headNot ks (t :: r) := by
  intro t' r' e; cases e; exact ⟨k, h, hm⟩

theorem headNot_nil (ks : List Token) : headNot ks [] := by intro t r e; cases e

theorem headIs.headIn {k : Token} {ks : List Token} {ts : List PTok} (h : headIs k ts) (hm : k ∈ ks) :
    headIn ks ts := by
  obtain ⟨t, r, e, hk⟩ := h; exact ⟨t, r, k, e, hk, hm⟩

theorem headIs.headNot {k : Token} {ks : List Token} {ts : List PTok} (h : headIs k ts) (hm : k ∉ ks) :
    headNot ks ts := by
  obtain ⟨t, r, e, hk⟩ := h; subst e; exact headNot_cons hk hm

theorem headIn.headNot {ks ks' : List Token} {ts : List PTok} (h : headIn ks ts)
    (hm : ∀ k ∈ ks, k ∉ ks') : headNot ks' ts := by
  obtain ⟨t, r, k, e, hk, hk'⟩ := h; subst e; exact headNot_cons hk (hm k hk')

theorem headIn.mono {ks ks' : List Token} {ts : List PTok} (h : headIn ks ts)
    (hm : ∀ k ∈ ks, k ∈ ks') : headIn ks' ts := by
  obtain ⟨t, r, k, e, hk, hk'⟩ := h; exact ⟨t, r, k, e, hk, hm k hk'⟩

theorem headIn.append {ks : List Token} {ts : List PTok} (h : headIn ks ts) (r : List PTok) :
    headIn ks (ts ++ r) := by
  obtain ⟨t, r', k, e, hk, hk'⟩ := h; subst e; exact ⟨t, r' ++ r, k, rfl, hk, hk'⟩

theorem headIs.append {k : Token} {ts : List PTok} (h : headIs k ts) (r : List PTok) :
    headIs k (ts ++ r) := by
  obtain ⟨t, r', e, hk⟩ := h; subst e; exact ⟨t, r' ++ r, rfl, hk⟩

/-! ### `Except` plumbing -/

@[simp] theorem bind_ok {ε α β : Type} (a : α) (f : α → Except ε β) :
    (Except.ok a >>= f) = f a := rfl

/-! ### the lexer state -/

theorem E_cons {st : PState} {t : PTok} {rest : List PTok} (h : E st = t :: rest) :
    ∃ lt r, st.toks = lt :: r ∧ lt.erase = t ∧ r.map LTok.erase = rest := by
  unfold E at h
  cases hs : st.toks with
  | nil => rw [hs] at h; cases h
  | cons lt r =>
    rw [hs] at h
    simp only [List.map_cons, List.cons.injEq] at h
    exact ⟨lt, r, rfl, h.1, h.2⟩

theorem E_length (st : PState) : (E st).length = st.toks.length := by simp [E]

theorem E_next {st : PState} {t : PTok} {rest : List PTok} (h : E st = t :: rest) :
    E st.next.2 = rest := by
  obtain ⟨lt, r, hs, -, hr⟩ := E_cons h
  simp only [PState.next, hs, E, hr]

theorem peek_of_E {st : PState} {t : PTok} {rest : List PTok} (h : E st = t :: rest) :
    ∃ lt, st.peek = some lt ∧ lt.erase = t := by
  obtain ⟨lt, r, hs, ht, -⟩ := E_cons h
  exact ⟨lt, by simp [PState.peek, hs], ht⟩

theorem peekTok_of_E {st : PState} {t : PTok} {rest : List PTok} {k : Token}
    (h : E st = t :: rest) (hk : t.res = .ok k) : peekTok st = some k := by
  obtain ⟨lt, hp, ht⟩ := peek_of_E h
  have : lt.res = .ok k := by rw [← ht] at hk; exact hk
  simp [peekTok, hp, LTok.tok?, this]

theorem peekTok_of_headIs {st : PState} {k : Token} (h : headIs k (E st)) : peekTok st = some k := by
  obtain ⟨t, r, e, hk⟩ := h; exact peekTok_of_E e hk

theorem peekIs_true {st : PState} {k : Token} (h : headIs k (E st)) : peekIs st k = true := by
  simp [peekIs, peekTok_of_headIs h]

theorem peekIs_false {st : PState} {k k' : Token} (h : headIs k (E st)) (hne : k ≠ k') :
    peekIs st k' = false := by
  simp [peekIs, peekTok_of_headIs h, hne]

theorem peekIn_true {st : PState} {ks : List Token} (h : headIn ks (E st)) : peekIn st ks = true := by
  obtain ⟨t, r, k, e, hk, hm⟩ := h
  simp [peekIn, peekTok_of_E e hk, hm]

theorem peekIn_false {st : PState} {k : Token} {ks : List Token} (h : headIs k (E st)) (hm : k ∉ ks) :
    peekIn st ks = false := by
  simp [peekIn, peekTok_of_headIs h, hm]

theorem peek2Tok_of_E {st : PState} {t1 t2 : PTok} {rest : List PTok} {k : Token}
    (h : E st = t1 :: t2 :: rest) (hk : t2.res = .ok k) : peek2Tok st = some k := by
  obtain ⟨lt, r, hs, -, hr⟩ := E_cons h
  cases r with
  | nil => cases hr
  | cons lt2 r2 =>
    simp only [List.map_cons, List.cons.injEq] at hr
    have : lt2.res = .ok k := by rw [← hr.1] at hk; exact hk
    simp [peek2Tok, PState.peek2, hs, LTok.tok?, this]

/-- `parseToken` on a state whose next token has the expected kind -/
theorem parseToken_ok {st : PState} {t : PTok} {rest : List PTok} {k : Token}
    (h : E st = t :: rest) (hk : t.res = .ok k) :
    ∃ lt st', parseToken st k = .ok (lt, st') ∧ lt.erase = t ∧ E st' = rest := by
  obtain ⟨lt, r, hs, ht, hr⟩ := E_cons h
  have hres : lt.res = .ok k := by rw [← ht] at hk; exact hk
  refine ⟨lt, { st with toks := r, lastStart := lt.span.offset, lastEnd := lt.span.offset + lt.span.len }, ?_, ht, ?_⟩
  · simp [parseToken, PState.next, hs, hres]
  · simp [E, hr]

theorem parseOptional_none {α : Type} {st : PState} {k : Token} (cb : PState → PR α)
    (h : headNot [k] (E st)) : parseOptional st k cb = .ok (none, st) := by
  unfold parseOptional
  cases hs : st.toks with
  | nil => simp [PState.peek, hs]
  | cons lt r =>
    obtain ⟨k', hk', hne⟩ := h lt.erase (r.map LTok.erase) (by simp [E, hs])
    have hres : lt.res = .ok k' := hk'
    have : k' ≠ k := by simpa using hne
    simp [PState.peek, hs, hres, this]

theorem parseOptional_some {α : Type} {st st' : PState} {t : PTok} {rest : List PTok} {k : Token}
    {cb : PState → PR α} {a : α} (h : E st = t :: rest) (hk : t.res = .ok k)
    (hcb : cb st.next.2 = .ok (a, st')) : parseOptional st k cb = .ok (some a, st') := by
  obtain ⟨lt, hp, ht⟩ := peek_of_E h
  have hres : lt.res = .ok k := by rw [← ht] at hk; exact hk
  simp [parseOptional, hp, hres, hcb]

theorem parseDocs_comments {st : PState} {t : PTok} {rest : List PTok} (h : E st = t :: rest) :
    (parseDocs st).map (·.comment) = t.docs := by
  obtain ⟨lt, hp, ht⟩ := peek_of_E h
  simp [parseDocs, hp, ← ht, LTok.erase]

/-- the doc comments the parser attaches to a node whose first printed token carries `docLines ds` -/
theorem parseDocs_erase (hdocs : DocsNF) {st : PState} {t : PTok} {rest : List PTok}
    {ds : List DocComment} (h : E st = t :: rest) (hd : t.docs = docLines ds) :
    eraseDocs (parseDocs st) = eraseDocs ds :=
  hdocs _ _ (by rw [parseDocs_comments h, hd])

/-- `pt_exists st', hE'`: provide the final state and its token equation; leaves the goals
`parse st = .ok (?w, st')` (close it with `simp only […]; rfl`, which determines `?w`) and `er ?w = er x` -/
macro "pt_exists " st:term ", " h:term : tactic =>
  `(tactic| (refine ⟨?_, $st, ?_, ?_, $h⟩; rotate_left))

theorem peekTok_of_headNot {st : PState} {ks : List Token} (h : headNot ks (E st)) :
    peekTok st = none ∨ ∃ k, peekTok st = some k ∧ k ∉ ks := by
  cases hE : E st with
  | nil =>
    left
    have : st.toks = [] := by simpa [E] using hE
    simp [peekTok, PState.peek, this]
  | cons t r =>
    right
    obtain ⟨k, hk, hm⟩ := h t r hE
    exact ⟨k, peekTok_of_E hE hk, hm⟩

theorem length_le_flatMap {α β : Type} (f : α → List β) (xs : List α) (h : ∀ x ∈ xs, 1 ≤ (f x).length) :
    xs.length ≤ (xs.flatMap f).length := by
  induction xs with
  | nil => simp
  | cons x xs ih =>
    have := h x (List.mem_cons_self ..)
    have := ih (fun y hy => h y (List.mem_cons_of_mem _ hy))
    simp only [List.flatMap_cons, List.length_append, List.length_cons]; omega

/-- the result of `parseOptional` when the optional part is present, as a function of the callback's result -/
def optMap {α : Type} (r : PR α) : PR (Option α) :=
  match r with
  | .ok (a, st') => .ok (some a, st')
  | .error e => .error e

@[simp] theorem optMap_ok {α : Type} (a : α) (st' : PState) :
    optMap (.ok (a, st') : PR α) = .ok (some a, st') := rfl

theorem parseOptional_eq {α : Type} {st : PState} {t : PTok} {rest : List PTok} {k : Token}
    (cb : PState → PR α) (h : E st = t :: rest) (hk : t.res = .ok k) :
    parseOptional st k cb = optMap (cb st.next.2) := by
  obtain ⟨lt, hp, ht⟩ := peek_of_E h
  have hres : lt.res = .ok k := by rw [← ht] at hk; exact hk
  simp only [parseOptional, hp, hres, if_true, optMap]
  cases cb st.next.2 with
  | error e => rfl
  | ok v => rfl

theorem next_of_E {st : PState} {t : PTok} {rest : List PTok} (h : E st = t :: rest) :
    ∃ lt st', st.next = (some lt, st') ∧ E st' = rest := by
  obtain ⟨lt, r, hs, -, hr⟩ := E_cons h
  exact ⟨lt, _, by simp only [PState.next, hs]; rfl, by simp [E, hr]⟩

theorem peekIs_false_of_headIn {st : PState} {ks : List Token} {k' : Token} (h : headIn ks (E st))
    (hne : k' ∉ ks) : peekIs st k' = false := by
  obtain ⟨t, r, k, e, hk, hm⟩ := h
  exact peekIs_false ⟨t, r, e, hk⟩ (by rintro rfl; exact hne hm)

theorem headNot.mono {ks ks' : List Token} {ts : List PTok} (h : headNot ks ts)
    (hm : ∀ k ∈ ks', k ∈ ks) : headNot ks' ts := by
  intro t r e
  obtain ⟨k, hk, hn⟩ := h t r e
  exact ⟨k, hk, fun hk' => hn (hm k hk')⟩

theorem ParsesTo.follow {α : Type} {parse : PState → PR α} {er : α → α} {ts : List PTok} {x : α}
    {F F' : List PTok → Prop} (h : ParsesTo parse er ts x F) (hF : ∀ r, F' r → F r) :
    ParsesTo parse er ts x F' :=
  fun st rest hE hr => h st rest hE (hF rest hr)

theorem headIn_length_pos {ks : List Token} {ts : List PTok} (h : headIn ks ts) : 1 ≤ ts.length := by
  obtain ⟨t, r, k, e, -, -⟩ := h; subst e; simp

theorem flatMap_mem_length {α β : Type} (f : α → List β) (xs : List α) (x : α) (hx : x ∈ xs) :
    (f x).length ≤ (xs.flatMap f).length := by
  induction xs with
  | nil => cases hx
  | cons y ys ih =>
    simp only [List.flatMap_cons, List.length_append]
    rcases List.mem_cons.1 hx with rfl | h
    · omega
    · have := ih h; omega

/-! ### one iteration of `parseDelimited` -/

theorem parseDelimited_stop {α : Type} {stop : Token} {wc : Bool} {peeks : List Token}
    {item : PState → PR α} {n : Nat} {st : PState} (h : headIs stop (E st)) :
    parseDelimited stop wc peeks item (n + 1) st = .ok ([], st) := by
  simp [parseDelimited, peekIs_true h]

/-- the item is followed by the stop token -/
theorem parseDelimited_last {α : Type} {stop : Token} {wc : Bool} {peeks : List Token}
    {item : PState → PR α} {n : Nat} {st st1 : PState} {x : α}
    (hin : headIn peeks (E st)) (hns : stop ∉ peeks)
    (hitem : item st = .ok (x, st1)) (h1 : headIs stop (E st1)) :
    parseDelimited stop wc peeks item (n + 1) st = .ok ([x], st1) := by
  have hnot : peekIs st stop = false := by
    obtain ⟨t, r, k, e, hk, hm⟩ := hin
    exact peekIs_false ⟨t, r, e, hk⟩ (by rintro rfl; exact hns hm)
  simp [parseDelimited, hnot, peekIn_true hin, hitem, peekTok_of_headIs h1]

/-- the item is followed by a comma (`withCommas = true`) -/
theorem parseDelimited_comma {α : Type} {stop : Token} {peeks : List Token}
    {item : PState → PR α} {n : Nat} {st st1 : PState} {x : α} {t : PTok} {rest : List PTok}
    (hin : headIn peeks (E st)) (hns : stop ∉ peeks) (hsc : stop ≠ .Comma)
    (hitem : item st = .ok (x, st1)) (h1 : E st1 = t :: rest) (ht : t.res = .ok .Comma) :
    ∃ st2, E st2 = rest ∧ ∀ xs st3, parseDelimited stop true peeks item n st2 = .ok (xs, st3) →
      parseDelimited stop true peeks item (n + 1) st = .ok (x :: xs, st3) := by
  have hnot : peekIs st stop = false := by
    obtain ⟨t, r, k, e, hk, hm⟩ := hin
    exact peekIs_false ⟨t, r, e, hk⟩ (by rintro rfl; exact hns hm)
  obtain ⟨lt, st2, hp, -, hE2⟩ := parseToken_ok h1 ht
  refine ⟨st2, hE2, ?_⟩
  intro xs st3 hrec
  have hne : Token.Comma ≠ stop := fun e => hsc e.symm
  simp [parseDelimited, hnot, peekIn_true hin, hitem, peekTok_of_E h1 ht, hne, hp, hrec]

/-- the item is followed by another item (`withCommas = false`) -/
theorem parseDelimited_next {α : Type} {stop : Token} {peeks : List Token}
    {item : PState → PR α} {n : Nat} {st st1 : PState} {x : α}
    (hin : headIn peeks (E st)) (hns : stop ∉ peeks)
    (hitem : item st = .ok (x, st1)) (h1 : headIn peeks (E st1)) {xs : List α} {st3 : PState}
    (hrec : parseDelimited stop false peeks item n st1 = .ok (xs, st3)) :
    parseDelimited stop false peeks item (n + 1) st = .ok (x :: xs, st3) := by
  have hnot : peekIs st stop = false := by
    obtain ⟨t, r, k, e, hk, hm⟩ := hin
    exact peekIs_false ⟨t, r, e, hk⟩ (by rintro rfl; exact hns hm)
  obtain ⟨t, r, k, e, hk, hm⟩ := h1
  have hne : k ≠ stop := by rintro rfl; exact hns hm
  simp [parseDelimited, hnot, peekIn_true hin, hitem, peekTok_of_E e hk, hne, hrec]

/-! ### `parseDelimited` over a list of items -/

/-- items each followed by a comma (records, variants, flags, enums, `include … with`) -/
theorem parseDelimited_trailing {α : Type} {stop : Token} {peeks : List Token}
    {item : PState → PR α} {er : α → α} (f g : α → List PTok)
    (hns : stop ∉ peeks) (hsc : stop ≠ .Comma) (xs : List α)
    (hg : ∀ x ∈ xs, g x = f x ++ [comma])
    (hhead : ∀ x ∈ xs, headIn peeks (f x))
    (hitem : ∀ x ∈ xs, ParsesTo item er (f x) x (headIs .Comma))
    (n : Nat) (hn : xs.length + 1 ≤ n) :
    ParsesTo (parseDelimited stop true peeks item n) (List.map er) (xs.flatMap g) xs (headIs stop) := by
  induction xs generalizing n with
  | nil =>
    intro st rest hE hF
    obtain ⟨n, rfl⟩ : ∃ m, n = m + 1 := ⟨n - 1, by simp at hn; omega⟩
    simp only [List.flatMap_nil, List.nil_append] at hE
    exact ⟨[], st, parseDelimited_stop (hE ▸ hF), rfl, hE⟩
  | cons x xs ih =>
    intro st rest hE hF
    obtain ⟨n, rfl⟩ : ∃ m, n = m + 1 := ⟨n - 1, by simp at hn; omega⟩
    have hgx := hg x (List.mem_cons_self ..)
    simp only [List.flatMap_cons, hgx, List.append_assoc, List.cons_append, List.nil_append] at hE
    obtain ⟨x', st1, hp, hx, hE1⟩ := hitem x (List.mem_cons_self ..) st _ hE (headIs_cons rfl)
    have hin : headIn peeks (E st) := hE ▸ (hhead x (List.mem_cons_self ..)).append _
    obtain ⟨st2, hE2, heq⟩ := parseDelimited_comma (n := n) hin hns hsc hp hE1 rfl
    obtain ⟨xs', st3, hp3, hxs, hE3⟩ := ih (fun y hy => hg y (List.mem_cons_of_mem _ hy))
      (fun y hy => hhead y (List.mem_cons_of_mem _ hy))
      (fun y hy => hitem y (List.mem_cons_of_mem _ hy)) n (by simp at hn ⊢; omega) st2 rest hE2 hF
    refine ⟨x' :: xs', st3, heq _ _ hp3, ?_, hE3⟩
    simp [hx, hxs]

/-- the separated list `x₁ , x₂ , … , xₙ` (no trailing comma) -/
def sepList {α : Type} (f : α → List PTok) : List α → List PTok
  | [] => []
  | [x] => f x
  | x :: y :: r => f x ++ comma :: sepList f (y :: r)

/-- items separated by commas, no trailing comma (tuple types, parameters, use items) -/
theorem parseDelimited_separated {α : Type} {stop : Token} {peeks : List Token}
    {item : PState → PR α} {er : α → α} (f : α → List PTok)
    (hns : stop ∉ peeks) (hsc : stop ≠ .Comma) (xs : List α)
    (hhead : ∀ x ∈ xs, headIn peeks (f x))
    (hitem : ∀ x ∈ xs, ParsesTo item er (f x) x (headIn [.Comma, stop]))
    (n : Nat) (hn : xs.length + 1 ≤ n) :
    ParsesTo (parseDelimited stop true peeks item n) (List.map er) (sepList f xs) xs (headIs stop) := by
  induction xs generalizing n with
  | nil =>
    intro st rest hE hF
    obtain ⟨n, rfl⟩ : ∃ m, n = m + 1 := ⟨n - 1, by simp at hn; omega⟩
    simp only [sepList, List.nil_append] at hE
    exact ⟨[], st, parseDelimited_stop (hE ▸ hF), rfl, hE⟩
  | cons x xs ih =>
    intro st rest hE hF
    obtain ⟨n, rfl⟩ : ∃ m, n = m + 1 := ⟨n - 1, by simp at hn; omega⟩
    cases xs with
    | nil =>
      simp only [sepList] at hE
      obtain ⟨x', st1, hp, hx, hE1⟩ := hitem x (List.mem_cons_self ..) st _ hE
        (hF.headIn (by simp))
      have hin : headIn peeks (E st) := hE ▸ (hhead x (List.mem_cons_self ..)).append _
      refine ⟨[x'], st1, parseDelimited_last hin hns hp (hE1 ▸ hF), by simp [hx], hE1⟩
    | cons y r =>
      simp only [sepList, List.append_assoc, List.cons_append] at hE
      obtain ⟨x', st1, hp, hx, hE1⟩ := hitem x (List.mem_cons_self ..) st _ hE
        (headIn_cons (k := .Comma) rfl (by simp))
      have hin : headIn peeks (E st) := hE ▸ (hhead x (List.mem_cons_self ..)).append _
      obtain ⟨st2, hE2, heq⟩ := parseDelimited_comma (n := n) hin hns hsc hp hE1 rfl
      obtain ⟨xs', st3, hp3, hxs, hE3⟩ := ih
        (fun z hz => hhead z (List.mem_cons_of_mem _ hz))
        (fun z hz => hitem z (List.mem_cons_of_mem _ hz)) n (by simp at hn ⊢; omega) st2 rest hE2 hF
      refine ⟨x' :: xs', st3, heq _ _ hp3, ?_, hE3⟩
      simp [hx, hxs]


theorem length_le_sepList {α : Type} (f : α → List PTok) (xs : List α) (h : ∀ x ∈ xs, 1 ≤ (f x).length) :
    xs.length ≤ (sepList f xs).length := by
  induction xs with
  | nil => simp
  | cons x xs ih =>
    have h1 := h x (List.mem_cons_self ..)
    have h2 := ih (fun y hy => h y (List.mem_cons_of_mem _ hy))
    cases xs with
    | nil => simpa [sepList] using h1
    | cons y r => simp only [sepList, List.length_append, List.length_cons] at h2 ⊢; omega

theorem sepList_mem_length {α : Type} (f : α → List PTok) (xs : List α) (x : α) (hx : x ∈ xs) :
    (f x).length ≤ (sepList f xs).length := by
  induction xs with
  | nil => cases hx
  | cons y xs ih =>
    cases xs with
    | nil =>
      have : x = y := by simpa using hx
      subst this; simp [sepList]
    | cons z r =>
      simp only [sepList, List.length_append, List.length_cons]
      rcases List.mem_cons.1 hx with rfl | hx'
      · omega
      · have := ih hx'; omega

/-- items without separators (resource methods, interface items, world items) -/
theorem parseDelimited_plain {α : Type} {stop : Token} {peeks : List Token}
    {item : PState → PR α} {er : α → α} (f : α → List PTok)
    (hns : stop ∉ peeks) (xs : List α)
    (hhead : ∀ x ∈ xs, headIn peeks (f x))
    (hitem : ∀ x ∈ xs, ParsesTo item er (f x) x (headIn (stop :: peeks)))
    (n : Nat) (hn : xs.length + 1 ≤ n) :
    ParsesTo (parseDelimited stop false peeks item n) (List.map er) (xs.flatMap f) xs (headIs stop) := by
  induction xs generalizing n with
  | nil =>
    intro st rest hE hF
    obtain ⟨n, rfl⟩ : ∃ m, n = m + 1 := ⟨n - 1, by simp at hn; omega⟩
    simp only [List.flatMap_nil, List.nil_append] at hE
    exact ⟨[], st, parseDelimited_stop (hE ▸ hF), rfl, hE⟩
  | cons x xs ih =>
    intro st rest hE hF
    obtain ⟨n, rfl⟩ : ∃ m, n = m + 1 := ⟨n - 1, by simp at hn; omega⟩
    simp only [List.flatMap_cons, List.append_assoc] at hE
    have hin : headIn peeks (E st) := hE ▸ (hhead x (List.mem_cons_self ..)).append _
    cases xs with
    | nil =>
      simp only [List.flatMap_nil, List.nil_append] at hE
      obtain ⟨x', st1, hp, hx, hE1⟩ := hitem x (List.mem_cons_self ..) st _ hE (hF.headIn (by simp))
      exact ⟨[x'], st1, parseDelimited_last hin hns hp (hE1 ▸ hF), by simp [hx], hE1⟩
    | cons y r =>
      have hy : headIn peeks (f y) := hhead y (by simp)
      have hfol : headIn peeks ((y :: r).flatMap f ++ rest) := by
        simp only [List.flatMap_cons, List.append_assoc]; exact hy.append _
      obtain ⟨x', st1, hp, hx, hE1⟩ := hitem x (List.mem_cons_self ..) st _ hE
        (hfol.mono (fun k hk => List.mem_cons_of_mem _ hk))
      obtain ⟨xs', st3, hp3, hxs, hE3⟩ := ih
        (fun z hz => hhead z (List.mem_cons_of_mem _ hz))
        (fun z hz => hitem z (List.mem_cons_of_mem _ hz)) n (by simp at hn ⊢; omega) st1 rest hE1 hF
      refine ⟨x' :: xs', st3, parseDelimited_next (n := n) hin hns hp (hE1 ▸ hfol) hp3, ?_, hE3⟩
      simp [hx, hxs]

theorem map_eq_isEmpty {α : Type} {er : α → α} {xs ys : List α} (h : xs.map er = ys.map er) :
    xs.isEmpty = ys.isEmpty := by
  have := congrArg List.length h
  simp only [List.length_map] at this
  cases xs <;> cases ys <;> simp_all

/-! ### leaves -/

theorem parseIdent_ok {i : Ident} (hwf : i.wf = true) {st : PState} {t : PTok} {rest : List PTok}
    (h : E st = t :: rest) (hk : t.res = .ok .Ident) (htext : t.text = i.raw) :
    ∃ i' st', parseIdent st = .ok (i', st') ∧ i'.erase = i.erase ∧ E st' = rest := by
  obtain ⟨lt, st', hp, hlt, hE'⟩ := parseToken_ok h hk
  have hlt' : lt.text = i.raw := by rw [← htext, ← hlt]; rfl
  obtain ⟨s, esc, sp⟩ := i
  simp only [Ident.wf, Ident.raw, Bool.and_eq_true, Bool.or_eq_true] at hwf
  have hesc := hwf.2
  simp only [Ident.raw] at hlt'
  cases esc with
  | true =>
    simp only [if_true] at hlt'
    refine ⟨⟨s, true, lt.span⟩, st', ?_, rfl, hE'⟩
    simp [parseIdent, hp, hlt']
  | false =>
    simp only [Bool.false_eq_true, if_false] at hlt'
    refine ⟨⟨s, false, lt.span⟩, st', ?_, rfl, hE'⟩
    simp only [parseIdent, hp, bind_ok, hlt']
    cases s with
    | nil => rfl
    | cons c r =>
      have hc : c ≠ '%' := by simpa using hesc
      split
      · rename_i heq; simp only [List.cons.injEq] at heq; exact absurd heq.1 hc
      · rfl

theorem parseString_ok (s : StringLit) {st : PState} {t : PTok} {rest : List PTok}
    (h : E st = t :: rest) (hk : t.res = .ok .String) (htext : t.text = Wac.Print.stringSrc s) :
    ∃ s' st', parseString st = .ok (s', st') ∧ s'.erase = s.erase ∧ E st' = rest := by
  obtain ⟨lt, st', hp, hlt, hE'⟩ := parseToken_ok h hk
  have hlt' : lt.text = Wac.Print.stringSrc s := by rw [← htext, ← hlt]; rfl
  refine ⟨⟨s.value, lt.span⟩, st', ?_, rfl, hE'⟩
  simp only [parseString, hp, bind_ok, hlt', Wac.Print.stringSrc]
  congr 3
  simp

theorem parseVersionAt_ok {s : Str} {v : Option Version} (h : versionField s = some v) (sp : Span) :
    parseVersionAt s sp (findIdx s '@') = .ok v := by
  unfold versionField at h
  unfold parseVersionAt
  cases hf : findIdx s '@' with
  | none => rw [hf] at h; simp at h; simp [h]
  | some i =>
    rw [hf] at h
    simp only [Option.map_eq_some_iff] at h
    obtain ⟨ver, hv, rfl⟩ := h
    simp [hv]

theorem parsePackageName_ok {p : PackageName} (hwf : p.wf = true) {st : PState} {t : PTok}
    {rest : List PTok} (h : E st = t :: rest) (hk : t.res = .ok .PackageName)
    (htext : t.text = p.string) :
    ∃ p' st', parsePackageName st = .ok (p', st') ∧ p'.erase = p.erase ∧ E st' = rest := by
  obtain ⟨lt, st', hp, hlt, hE'⟩ := parseToken_ok h hk
  have hlt' : lt.text = p.string := by rw [← htext, ← hlt]; rfl
  simp only [PackageName.wf, Bool.and_eq_true, beq_iff_eq] at hwf
  obtain ⟨⟨⟨-, -⟩, hname⟩, hver⟩ := hwf
  refine ⟨⟨p.string, p.name, p.version, lt.span⟩, st', ?_, rfl, hE'⟩
  simp only [parsePackageName, hp, bind_ok, hlt', parseVersionAt_ok hver]
  rw [hname]; rfl

theorem parsePackagePath_ok {p : PackagePath} (hwf : p.wf = true) {st : PState} {t : PTok}
    {rest : List PTok} (h : E st = t :: rest) (hk : t.res = .ok .PackagePath)
    (htext : t.text = p.string) :
    ∃ p' st', parsePackagePath st = .ok (p', st') ∧ p'.erase = p.erase ∧ E st' = rest := by
  obtain ⟨lt, st', hp, hlt, hE'⟩ := parseToken_ok h hk
  have hlt' : lt.text = p.string := by rw [← htext, ← hlt]; rfl
  simp only [PackagePath.wf, Bool.and_eq_true, beq_iff_eq] at hwf
  obtain ⟨⟨⟨-, -⟩, hfields⟩, hver⟩ := hwf
  refine ⟨⟨lt.span, p.string, p.name, p.segments, p.version⟩, st', ?_, rfl, hE'⟩
  unfold packagePathFields at hfields
  simp only [parsePackagePath, hp, bind_ok, hlt']
  cases hs : findIdx p.string '/' with
  | none => rw [hs] at hfields; cases hfields
  | some slash =>
    rw [hs] at hfields
    simp only [Option.some.injEq, Prod.mk.injEq] at hfields
    simp only [parseVersionAt_ok hver, bind_ok, hfields.1, hfields.2]

end Wac.Lemmas.PrinterParse
