import WacModel.Parser
import WacModel.AstErase
import WacModel.PrintTokens
import WacModel.PrintWF
import WacModel.PrintDepth
/-
  C13, base layer of "the parser model accepts the printed token sequence": the definitions
  (`E`, `DocsNF`, `ParsesTo`, follow-set predicates), the lexer-state lemmas (`peek…`, `next`,
  `parseToken`, `parseOptional`, `parseDocs`), one-step lemmas for `parseDelimited` and the leaves
  (`parseIdent`, `parseString`, `parsePackageName`, `parsePackagePath`).
-/
namespace Wac.Lemmas.PrinterParse
open Wac Wac.Ast Wac.Lex Wac.Parse Wac.PrintTok

/-- the items `PState.next` will return for the tokens a parser state still has to read, without
byte offsets (an opening bracket beyond the nesting limit of the lexer appears as an error item) -/
def E (st : PState) : List PTok := Wac.PrintTok.viewToks st.depth st.toks

/-- the doc-comment normal-form lemma, as a hypothesis (it is `Wac.Lemmas.PrinterErase.eraseDocs_of_comments_eq`) -/
def DocsNF : Prop :=
  ∀ ds' ds : List DocComment, ds'.map (·.comment) = docLines ds → eraseDocs ds' = eraseDocs ds

/-- `parse` reads exactly the tokens `ts` when they are followed by any `rest` satisfying `F`, and
returns a tree whose `er`-normal form is that of `x` -/
def ParsesTo {α : Type} (parse : PState → PR α) (er : α → α) (ts : List PTok) (x : α)
    (F : List PTok → Prop) : Prop :=
  ∀ (st : PState) (rest : List PTok), E st = ts ++ rest → F rest →
    ∃ (x' : α) (st' : PState), parse st = .ok (x', st') ∧ er x' = er x ∧ E st' = rest

/-! ### follow-set predicates -/

/-- the list starts with a token of kind `k` -/
def headIs (k : Token) (ts : List PTok) : Prop := ∃ t r, ts = t :: r ∧ t.res = .ok k

/-- the list starts with a token whose kind is in `ks` -/
def headIn (ks : List Token) (ts : List PTok) : Prop := ∃ t r k, ts = t :: r ∧ t.res = .ok k ∧ k ∈ ks

/-- the list is empty or starts with a (non-error) token whose kind is not in `ks` -/
def headNot (ks : List Token) (ts : List PTok) : Prop :=
  ∀ t r, ts = t :: r → ∃ k, t.res = .ok k ∧ k ∉ ks

theorem headIs_cons {k : Token} {t : PTok} {r : List PTok} (h : t.res = .ok k) : headIs k (t :: r) :=
  ⟨t, r, rfl, h⟩

theorem headIn_cons {ks : List Token} {k : Token} {t : PTok} {r : List PTok} (h : t.res = .ok k)
    (hm : k ∈ ks) : headIn ks (t :: r) := ⟨t, r, k, rfl, h, hm⟩

theorem headNot_cons {ks : List Token} {k : Token} {t : PTok} {r : List PTok} (h : t.res = .ok k)
    (hm : k ∉ ks) : headNot ks (t :: r) := by
  intro t' r' e; cases e; exact ⟨k, h, hm⟩

theorem headNot_nil (ks : List Token) : headNot ks [] := by intro t r e; cases e

theorem headIs.headIn {k : Token} {ks : List Token} {ts : List PTok} (h : headIs k ts) (hm : k ∈ ks) :
    headIn ks ts := by
  obtain ⟨t, r, e, hk⟩ := h; exact ⟨t, r, k, e, hk, hm⟩

theorem headIs.headNot {k : Token} {ks : List Token} {ts : List PTok} (h : headIs k ts) (hm : k ∉ ks) :
    headNot ks ts := by
  obtain ⟨t, r, e, hk⟩ := h; subst e; exact headNot_cons hk hm

theorem headIn.headNot {ks ks' : List Token} {ts : List PTok} (h : headIn ks ts)
    (hm : ∀ k ∈ ks, k ∉ ks') : headNot ks' ts := by
  obtain ⟨t, r, k, e, hk, hk'⟩ := h; subst e; exact headNot_cons hk (hm k hk')

theorem headIn.mono {ks ks' : List Token} {ts : List PTok} (h : headIn ks ts)
    (hm : ∀ k ∈ ks, k ∈ ks') : headIn ks' ts := by
  obtain ⟨t, r, k, e, hk, hk'⟩ := h; exact ⟨t, r, k, e, hk, hm k hk'⟩

theorem headIn.append {ks : List Token} {ts : List PTok} (h : headIn ks ts) (r : List PTok) :
    headIn ks (ts ++ r) := by
  obtain ⟨t, r', k, e, hk, hk'⟩ := h; subst e; exact ⟨t, r' ++ r, k, rfl, hk, hk'⟩

theorem headIs.append {k : Token} {ts : List PTok} (h : headIs k ts) (r : List PTok) :
    headIs k (ts ++ r) := by
  obtain ⟨t, r', e, hk⟩ := h; subst e; exact ⟨t, r' ++ r, rfl, hk⟩

/-! ### `Except` plumbing -/

@[simp] theorem bind_ok {ε α β : Type} (a : α) (f : α → Except ε β) :
    (Except.ok a >>= f) = f a := rfl

/-! ### the lexer state -/

/-- one step of the view: the raw head item agrees with the viewed one in text and docs, and in the
token kind whenever the viewed item is not an error -/
theorem viewToks_head {d : Nat} {toks : List LTok} {t : PTok} {rest : List PTok}
    (h : viewToks d toks = t :: rest) :
    ∃ lt r d', toks = lt :: r ∧ rest = viewToks d' r ∧ lt.text = t.text ∧
      lt.docs.map (·.comment) = t.docs ∧ (∀ k, t.res = .ok k → lt.res = .ok k) := by
  cases toks with
  | nil => simp [viewToks] at h
  | cons lt r =>
    simp only [viewToks] at h
    cases hres : lt.res with
    | error e =>
      rw [hres] at h
      simp only [List.cons.injEq] at h
      obtain ⟨rfl, rfl⟩ := h
      exact ⟨lt, r, d, rfl, rfl, rfl, rfl, fun k hk => by simp [LTok.erase, hres] at hk⟩
    | ok k =>
      rw [hres] at h
      simp only at h
      by_cases ho : isOpenBracket k = true
      · simp only [ho, if_true, List.cons.injEq] at h
        obtain ⟨ht, rfl⟩ := h
        refine ⟨lt, r, d + 1, rfl, rfl, ?_, ?_, ?_⟩
        · rw [← ht]; split <;> rfl
        · rw [← ht]; split <;> rfl
        · intro k' hk'
          rw [← ht] at hk'
          split at hk'
          · simp at hk'
          · simpa [LTok.erase] using hk'
      · by_cases hc : isCloseBracket k = true
        · simp only [ho, hc, if_true, Bool.false_eq_true, if_false, List.cons.injEq] at h
          obtain ⟨rfl, rfl⟩ := h
          exact ⟨lt, r, d - 1, rfl, rfl, rfl, rfl, fun k hk => hk⟩
        · simp only [ho, hc, Bool.false_eq_true, if_false, List.cons.injEq] at h
          obtain ⟨rfl, rfl⟩ := h
          exact ⟨lt, r, d, rfl, rfl, rfl, rfl, fun k hk => hk⟩

theorem viewToks_length (d : Nat) (toks : List LTok) : (viewToks d toks).length = toks.length := by
  induction toks generalizing d with
  | nil => simp [viewToks]
  | cons lt r ih =>
    simp only [viewToks]
    split
    · split
      · simp [ih]
      · split <;> simp [ih]
    · simp [ih]

/-- one step of the lexer on a state whose view starts with `t` -/
theorem E_step {st : PState} {t : PTok} {rest : List PTok} (h : E st = t :: rest) :
    ∃ nt st', st.next = (some nt, st') ∧ nt.erase = t ∧ E st' = rest := by
  unfold E at h
  cases hs : st.toks with
  | nil => rw [hs] at h; simp [viewToks] at h
  | cons lt r =>
    rw [hs] at h
    simp only [viewToks] at h
    cases hres : lt.res with
    | error e =>
      rw [hres] at h
      simp only [List.cons.injEq] at h
      exact ⟨lt, { st with toks := r, lastStart := lt.span.offset, lastEnd := lt.span.offset + lt.span.len },
        by simp only [PState.next, hs, hres], h.1, h.2⟩
    | ok k =>
      rw [hres] at h
      simp only at h
      by_cases ho : isOpenBracket k = true
      · simp only [ho, if_true, List.cons.injEq] at h
        by_cases htd : tooDeep (st.depth + 1) = true
        · simp only [htd, if_true] at h
          exact ⟨{ lt with res := .error .NestingTooDeep },
            { st with toks := r, lastStart := lt.span.offset, lastEnd := lt.span.offset + lt.span.len,
                      depth := st.depth + 1 },
            by simp only [PState.next, hs, hres, ho, htd, if_true], h.1, h.2⟩
        · simp only [htd, Bool.false_eq_true, if_false] at h
          exact ⟨lt,
            { st with toks := r, lastStart := lt.span.offset, lastEnd := lt.span.offset + lt.span.len,
                      depth := st.depth + 1 },
            by simp only [PState.next, hs, hres, ho, htd, if_true, Bool.false_eq_true, if_false], h.1, h.2⟩
      · by_cases hc : isCloseBracket k = true
        · simp only [ho, hc, if_true, Bool.false_eq_true, if_false, List.cons.injEq] at h
          exact ⟨lt,
            { st with toks := r, lastStart := lt.span.offset, lastEnd := lt.span.offset + lt.span.len,
                      depth := st.depth - 1 },
            by simp only [PState.next, hs, hres, ho, hc, if_true, Bool.false_eq_true, if_false], h.1, h.2⟩
        · simp only [ho, hc, Bool.false_eq_true, if_false, List.cons.injEq] at h
          exact ⟨lt,
            { st with toks := r, lastStart := lt.span.offset, lastEnd := lt.span.offset + lt.span.len },
            by simp only [PState.next, hs, hres, ho, hc, Bool.false_eq_true, if_false], h.1, h.2⟩

theorem E_cons {st : PState} {t : PTok} {rest : List PTok} (h : E st = t :: rest) :
    ∃ lt r d', st.toks = lt :: r ∧ rest = viewToks d' r ∧ lt.text = t.text ∧
      lt.docs.map (·.comment) = t.docs ∧ (∀ k, t.res = .ok k → lt.res = .ok k) :=
  viewToks_head h

theorem E_length (st : PState) : (E st).length = st.toks.length := viewToks_length _ _

theorem E_nil {st : PState} (h : E st = []) : st.toks = [] := by
  have := E_length st
  rw [h] at this
  exact List.length_eq_zero_iff.1 this.symm

theorem E_next {st : PState} {t : PTok} {rest : List PTok} (h : E st = t :: rest) :
    E st.next.2 = rest := by
  obtain ⟨nt, st', hn, -, hE⟩ := E_step h
  rw [hn]; exact hE

theorem peek_of_E {st : PState} {t : PTok} {rest : List PTok} (h : E st = t :: rest) :
    ∃ lt, st.peek = some lt ∧ lt.text = t.text ∧ lt.docs.map (·.comment) = t.docs ∧
      (∀ k, t.res = .ok k → lt.res = .ok k) := by
  obtain ⟨lt, r, d', hs, -, h1, h2, h3⟩ := E_cons h
  exact ⟨lt, by simp [PState.peek, hs], h1, h2, h3⟩

theorem peekTok_of_E {st : PState} {t : PTok} {rest : List PTok} {k : Token}
    (h : E st = t :: rest) (hk : t.res = .ok k) : peekTok st = some k := by
  obtain ⟨lt, hp, -, -, hres⟩ := peek_of_E h
  simp [peekTok, hp, LTok.tok?, hres k hk]

theorem peekTok_of_headIs {st : PState} {k : Token} (h : headIs k (E st)) : peekTok st = some k := by
  obtain ⟨t, r, e, hk⟩ := h; exact peekTok_of_E e hk

theorem peekIs_true {st : PState} {k : Token} (h : headIs k (E st)) : peekIs st k = true := by
  simp [peekIs, peekTok_of_headIs h]

theorem peekIs_false {st : PState} {k k' : Token} (h : headIs k (E st)) (hne : k ≠ k') :
    peekIs st k' = false := by
  simp [peekIs, peekTok_of_headIs h, hne]

theorem peekIn_true {st : PState} {ks : List Token} (h : headIn ks (E st)) : peekIn st ks = true := by
  obtain ⟨t, r, k, e, hk, hm⟩ := h
  simp [peekIn, peekTok_of_E e hk, hm]

theorem peekIn_false {st : PState} {k : Token} {ks : List Token} (h : headIs k (E st)) (hm : k ∉ ks) :
    peekIn st ks = false := by
  simp [peekIn, peekTok_of_headIs h, hm]

theorem peek2Tok_of_E {st : PState} {t1 t2 : PTok} {rest : List PTok} {k : Token}
    (h : E st = t1 :: t2 :: rest) (hk : t2.res = .ok k) : peek2Tok st = some k := by
  obtain ⟨lt, r, d', hs, hr, -, -, -⟩ := E_cons h
  obtain ⟨lt2, r2, d'', hs2, -, -, -, hres⟩ := viewToks_head hr.symm
  subst hs2
  simp [peek2Tok, PState.peek2, hs, LTok.tok?, hres k hk]

/-- `parseToken` on a state whose next token has the expected kind -/
theorem parseToken_ok {st : PState} {t : PTok} {rest : List PTok} {k : Token}
    (h : E st = t :: rest) (hk : t.res = .ok k) :
    ∃ lt st', parseToken st k = .ok (lt, st') ∧ lt.erase = t ∧ E st' = rest := by
  obtain ⟨nt, st', hn, hnt, hE⟩ := E_step h
  have hres : nt.res = .ok k := by rw [← hnt] at hk; exact hk
  exact ⟨nt, st', by simp [parseToken, hn, hres], hnt, hE⟩

theorem parseOptional_none {α : Type} {st : PState} {k : Token} (cb : PState → PR α)
    (h : headNot [k] (E st)) : parseOptional st k cb = .ok (none, st) := by
  unfold parseOptional
  cases hE : E st with
  | nil => simp [PState.peek, E_nil hE]
  | cons t r =>
    obtain ⟨k', hk', hne⟩ := h t r hE
    obtain ⟨lt, hp, -, -, hres⟩ := peek_of_E hE
    have : k' ≠ k := by simpa using hne
    simp [hp, hres k' hk', this]

/-- the result of `parseOptional` when the optional part is present, as a function of the callback's result -/
def optMap {α : Type} (r : PR α) : PR (Option α) :=
  match r with
  | .ok (a, st') => .ok (some a, st')
  | .error e => .error e

@[simp] theorem optMap_ok {α : Type} (a : α) (st' : PState) :
    optMap (.ok (a, st') : PR α) = .ok (some a, st') := rfl

theorem parseOptional_eq {α : Type} {st : PState} {t : PTok} {rest : List PTok} {k : Token}
    (cb : PState → PR α) (h : E st = t :: rest) (hk : t.res = .ok k) :
    parseOptional st k cb = optMap (cb st.next.2) := by
  obtain ⟨lt, hp, -, -, hres⟩ := peek_of_E h
  obtain ⟨nt, st', hn, hnt, -⟩ := E_step h
  have hres' : nt.res = .ok k := by rw [← hnt] at hk; exact hk
  simp only [parseOptional, hp, hres k hk, if_true, parseToken, hn, hres', optMap]
  cases cb st' with
  | error e => rfl
  | ok v => rfl

theorem parseOptional_some {α : Type} {st st' : PState} {t : PTok} {rest : List PTok} {k : Token}
    {cb : PState → PR α} {a : α} (h : E st = t :: rest) (hk : t.res = .ok k)
    (hcb : cb st.next.2 = .ok (a, st')) : parseOptional st k cb = .ok (some a, st') := by
  rw [parseOptional_eq cb h hk, hcb]; rfl

theorem parseDocs_comments {st : PState} {t : PTok} {rest : List PTok} (h : E st = t :: rest) :
    (parseDocs st).map (·.comment) = t.docs := by
  obtain ⟨lt, hp, -, hd, -⟩ := peek_of_E h
  simp [parseDocs, hp, hd]

/-- the doc comments the parser attaches to a node whose first printed token carries `docLines ds` -/
theorem parseDocs_erase (hdocs : DocsNF) {st : PState} {t : PTok} {rest : List PTok}
    {ds : List DocComment} (h : E st = t :: rest) (hd : t.docs = docLines ds) :
    eraseDocs (parseDocs st) = eraseDocs ds :=
  hdocs _ _ (by rw [parseDocs_comments h, hd])

/-- `pt_exists st', hE'`: provide the final state and its token equation; leaves the goals
`parse st = .ok (?w, st')` (close it with `simp only […]; rfl`, which determines `?w`) and `er ?w = er x` -/
macro "pt_exists " st:term ", " h:term : tactic =>
  `(tactic| (refine ⟨?_, $st, ?_, ?_, $h⟩; rotate_left))

theorem peekTok_of_headNot {st : PState} {ks : List Token} (h : headNot ks (E st)) :
    peekTok st = none ∨ ∃ k, peekTok st = some k ∧ k ∉ ks := by
  cases hE : E st with
  | nil =>
    left
    simp [peekTok, PState.peek, E_nil hE]
  | cons t r =>
    right
    obtain ⟨k, hk, hm⟩ := h t r hE
    exact ⟨k, peekTok_of_E hE hk, hm⟩

theorem length_le_flatMap {α β : Type} (f : α → List β) (xs : List α) (h : ∀ x ∈ xs, 1 ≤ (f x).length) :
    xs.length ≤ (xs.flatMap f).length := by
  induction xs with
  | nil => simp
  | cons x xs ih =>
    have := h x (List.mem_cons_self ..)
    have := ih (fun y hy => h y (List.mem_cons_of_mem _ hy))
    simp only [List.flatMap_cons, List.length_append, List.length_cons]; omega

theorem next_of_E {st : PState} {t : PTok} {rest : List PTok} (h : E st = t :: rest) :
    ∃ lt st', st.next = (some lt, st') ∧ E st' = rest := by
  obtain ⟨nt, st', hn, -, hE⟩ := E_step h
  exact ⟨nt, st', hn, hE⟩

/-! ### bridge to the raw token list: within the nesting limit the view is the list itself -/

theorem viewToks_eq_map (d : Nat) (toks : List LTok)
    (h : (Wac.PrintTok.runDepth d (toks.map LTok.erase)).isSome = true) :
    Wac.PrintTok.viewToks d toks = toks.map LTok.erase := by
  induction toks generalizing d with
  | nil => simp [viewToks]
  | cons lt r ih =>
    simp only [List.map_cons, runDepth, viewToks] at h ⊢
    have he : lt.erase.res = lt.res := rfl
    rw [he] at h
    cases hres : lt.res with
    | error e =>
      rw [hres] at h
      simp only at h ⊢
      rw [ih d h]
    | ok k =>
      rw [hres] at h
      simp only at h ⊢
      by_cases ho : isOpenBracket k = true
      · simp only [ho, if_true] at h ⊢
        by_cases htd : tooDeep (d + 1) = true
        · simp [htd] at h
        · simp only [htd, Bool.false_eq_true, if_false] at h ⊢
          rw [ih _ h]
      · by_cases hc : isCloseBracket k = true
        · simp only [ho, hc, if_true, Bool.false_eq_true, if_false] at h ⊢
          rw [ih _ h]
        · simp only [ho, hc, Bool.false_eq_true, if_false] at h ⊢
          rw [ih _ h]

theorem E_eq_map (st : PState)
    (h : (Wac.PrintTok.runDepth st.depth (st.toks.map LTok.erase)).isSome = true) :
    E st = st.toks.map LTok.erase := viewToks_eq_map _ _ h

theorem peekIs_false_of_headIn {st : PState} {ks : List Token} {k' : Token} (h : headIn ks (E st))
    (hne : k' ∉ ks) : peekIs st k' = false := by
  obtain ⟨t, r, k, e, hk, hm⟩ := h
  exact peekIs_false ⟨t, r, e, hk⟩ (by rintro rfl; exact hne hm)

theorem headNot.mono {ks ks' : List Token} {ts : List PTok} (h : headNot ks ts)
    (hm : ∀ k ∈ ks', k ∈ ks) : headNot ks' ts := by
  intro t r e
  obtain ⟨k, hk, hn⟩ := h t r e
  exact ⟨k, hk, fun hk' => hn (hm k hk')⟩

theorem ParsesTo.follow {α : Type} {parse : PState → PR α} {er : α → α} {ts : List PTok} {x : α}
    {F F' : List PTok → Prop} (h : ParsesTo parse er ts x F) (hF : ∀ r, F' r → F r) :
    ParsesTo parse er ts x F' :=
  fun st rest hE hr => h st rest hE (hF rest hr)

theorem headIn_length_pos {ks : List Token} {ts : List PTok} (h : headIn ks ts) : 1 ≤ ts.length := by
  obtain ⟨t, r, k, e, -, -⟩ := h; subst e; simp

theorem flatMap_mem_length {α β : Type} (f : α → List β) (xs : List α) (x : α) (hx : x ∈ xs) :
    (f x).length ≤ (xs.flatMap f).length := by
  induction xs with
  | nil => cases hx
  | cons y ys ih =>
    simp only [List.flatMap_cons, List.length_append]
    rcases List.mem_cons.1 hx with rfl | h
    · omega
    · have := ih h; omega

/-! ### one iteration of `parseDelimited` -/

theorem parseDelimited_stop {α : Type} {stop : Token} {wc : Bool} {peeks : List Token}
    {item : PState → PR α} {n : Nat} {st : PState} (h : headIs stop (E st)) :
    parseDelimited stop wc peeks item (n + 1) st = .ok ([], st) := by
  simp [parseDelimited, peekIs_true h]

/-- the item is followed by the stop token -/
theorem parseDelimited_last {α : Type} {stop : Token} {wc : Bool} {peeks : List Token}
    {item : PState → PR α} {n : Nat} {st st1 : PState} {x : α}
    (hin : headIn peeks (E st)) (hns : stop ∉ peeks)
    (hitem : item st = .ok (x, st1)) (h1 : headIs stop (E st1)) :
    parseDelimited stop wc peeks item (n + 1) st = .ok ([x], st1) := by
  have hnot : peekIs st stop = false := by
    obtain ⟨t, r, k, e, hk, hm⟩ := hin
    exact peekIs_false ⟨t, r, e, hk⟩ (by rintro rfl; exact hns hm)
  simp [parseDelimited, hnot, peekIn_true hin, hitem, peekTok_of_headIs h1]

/-- the item is followed by a comma (`withCommas = true`) -/
theorem parseDelimited_comma {α : Type} {stop : Token} {peeks : List Token}
    {item : PState → PR α} {n : Nat} {st st1 : PState} {x : α} {t : PTok} {rest : List PTok}
    (hin : headIn peeks (E st)) (hns : stop ∉ peeks) (hsc : stop ≠ .Comma)
    (hitem : item st = .ok (x, st1)) (h1 : E st1 = t :: rest) (ht : t.res = .ok .Comma) :
    ∃ st2, E st2 = rest ∧ ∀ xs st3, parseDelimited stop true peeks item n st2 = .ok (xs, st3) →
      parseDelimited stop true peeks item (n + 1) st = .ok (x :: xs, st3) := by
  have hnot : peekIs st stop = false := by
    obtain ⟨t, r, k, e, hk, hm⟩ := hin
    exact peekIs_false ⟨t, r, e, hk⟩ (by rintro rfl; exact hns hm)
  obtain ⟨lt, st2, hp, -, hE2⟩ := parseToken_ok h1 ht
  refine ⟨st2, hE2, ?_⟩
  intro xs st3 hrec
  have hne : Token.Comma ≠ stop := fun e => hsc e.symm
  simp [parseDelimited, hnot, peekIn_true hin, hitem, peekTok_of_E h1 ht, hne, hp, hrec]

/-- the item is followed by another item (`withCommas = false`) -/
theorem parseDelimited_next {α : Type} {stop : Token} {peeks : List Token}
    {item : PState → PR α} {n : Nat} {st st1 : PState} {x : α}
    (hin : headIn peeks (E st)) (hns : stop ∉ peeks)
    (hitem : item st = .ok (x, st1)) (h1 : headIn peeks (E st1)) {xs : List α} {st3 : PState}
    (hrec : parseDelimited stop false peeks item n st1 = .ok (xs, st3)) :
    parseDelimited stop false peeks item (n + 1) st = .ok (x :: xs, st3) := by
  have hnot : peekIs st stop = false := by
    obtain ⟨t, r, k, e, hk, hm⟩ := hin
    exact peekIs_false ⟨t, r, e, hk⟩ (by rintro rfl; exact hns hm)
  obtain ⟨t, r, k, e, hk, hm⟩ := h1
  have hne : k ≠ stop := by rintro rfl; exact hns hm
  simp [parseDelimited, hnot, peekIn_true hin, hitem, peekTok_of_E e hk, hne, hrec]

/-! ### `parseDelimited` over a list of items -/

/-- items each followed by a comma (records, variants, flags, enums, `include … with`) -/
theorem parseDelimited_trailing {α : Type} {stop : Token} {peeks : List Token}
    {item : PState → PR α} {er : α → α} (f g : α → List PTok)
    (hns : stop ∉ peeks) (hsc : stop ≠ .Comma) (xs : List α)
    (hg : ∀ x ∈ xs, g x = f x ++ [comma])
    (hhead : ∀ x ∈ xs, headIn peeks (f x))
    (hitem : ∀ x ∈ xs, ParsesTo item er (f x) x (headIs .Comma))
    (n : Nat) (hn : xs.length + 1 ≤ n) :
    ParsesTo (parseDelimited stop true peeks item n) (List.map er) (xs.flatMap g) xs (headIs stop) := by
  induction xs generalizing n with
  | nil =>
    intro st rest hE hF
    obtain ⟨n, rfl⟩ : ∃ m, n = m + 1 := ⟨n - 1, by simp at hn; omega⟩
    simp only [List.flatMap_nil, List.nil_append] at hE
    exact ⟨[], st, parseDelimited_stop (hE ▸ hF), rfl, hE⟩
  | cons x xs ih =>
    intro st rest hE hF
    obtain ⟨n, rfl⟩ : ∃ m, n = m + 1 := ⟨n - 1, by simp at hn; omega⟩
    have hgx := hg x (List.mem_cons_self ..)
    simp only [List.flatMap_cons, hgx, List.append_assoc, List.cons_append, List.nil_append] at hE
    obtain ⟨x', st1, hp, hx, hE1⟩ := hitem x (List.mem_cons_self ..) st _ hE (headIs_cons rfl)
    have hin : headIn peeks (E st) := hE ▸ (hhead x (List.mem_cons_self ..)).append _
    obtain ⟨st2, hE2, heq⟩ := parseDelimited_comma (n := n) hin hns hsc hp hE1 rfl
    obtain ⟨xs', st3, hp3, hxs, hE3⟩ := ih (fun y hy => hg y (List.mem_cons_of_mem _ hy))
      (fun y hy => hhead y (List.mem_cons_of_mem _ hy))
      (fun y hy => hitem y (List.mem_cons_of_mem _ hy)) n (by simp at hn ⊢; omega) st2 rest hE2 hF
    refine ⟨x' :: xs', st3, heq _ _ hp3, ?_, hE3⟩
    simp [hx, hxs]

/-- the separated list `x₁ , x₂ , … , xₙ` (no trailing comma) -/
def sepList {α : Type} (f : α → List PTok) : List α → List PTok
  | [] => []
  | [x] => f x
  | x :: y :: r => f x ++ comma :: sepList f (y :: r)

/-- items separated by commas, no trailing comma (tuple types, parameters, use items) -/
theorem parseDelimited_separated {α : Type} {stop : Token} {peeks : List Token}
    {item : PState → PR α} {er : α → α} (f : α → List PTok)
    (hns : stop ∉ peeks) (hsc : stop ≠ .Comma) (xs : List α)
    (hhead : ∀ x ∈ xs, headIn peeks (f x))
    (hitem : ∀ x ∈ xs, ParsesTo item er (f x) x (headIn [.Comma, stop]))
    (n : Nat) (hn : xs.length + 1 ≤ n) :
    ParsesTo (parseDelimited stop true peeks item n) (List.map er) (sepList f xs) xs (headIs stop) := by
  induction xs generalizing n with
  | nil =>
    intro st rest hE hF
    obtain ⟨n, rfl⟩ : ∃ m, n = m + 1 := ⟨n - 1, by simp at hn; omega⟩
    simp only [sepList, List.nil_append] at hE
    exact ⟨[], st, parseDelimited_stop (hE ▸ hF), rfl, hE⟩
  | cons x xs ih =>
    intro st rest hE hF
    obtain ⟨n, rfl⟩ : ∃ m, n = m + 1 := ⟨n - 1, by simp at hn; omega⟩
    cases xs with
    | nil =>
      simp only [sepList] at hE
      obtain ⟨x', st1, hp, hx, hE1⟩ := hitem x (List.mem_cons_self ..) st _ hE
        (hF.headIn (by simp))
      have hin : headIn peeks (E st) := hE ▸ (hhead x (List.mem_cons_self ..)).append _
      refine ⟨[x'], st1, parseDelimited_last hin hns hp (hE1 ▸ hF), by simp [hx], hE1⟩
    | cons y r =>
      simp only [sepList, List.append_assoc, List.cons_append] at hE
      obtain ⟨x', st1, hp, hx, hE1⟩ := hitem x (List.mem_cons_self ..) st _ hE
        (headIn_cons (k := .Comma) rfl (by simp))
      have hin : headIn peeks (E st) := hE ▸ (hhead x (List.mem_cons_self ..)).append _
      obtain ⟨st2, hE2, heq⟩ := parseDelimited_comma (n := n) hin hns hsc hp hE1 rfl
      obtain ⟨xs', st3, hp3, hxs, hE3⟩ := ih
        (fun z hz => hhead z (List.mem_cons_of_mem _ hz))
        (fun z hz => hitem z (List.mem_cons_of_mem _ hz)) n (by simp at hn ⊢; omega) st2 rest hE2 hF
      refine ⟨x' :: xs', st3, heq _ _ hp3, ?_, hE3⟩
      simp [hx, hxs]


theorem length_le_sepList {α : Type} (f : α → List PTok) (xs : List α) (h : ∀ x ∈ xs, 1 ≤ (f x).length) :
    xs.length ≤ (sepList f xs).length := by
  induction xs with
  | nil => simp
  | cons x xs ih =>
    have h1 := h x (List.mem_cons_self ..)
    have h2 := ih (fun y hy => h y (List.mem_cons_of_mem _ hy))
    cases xs with
    | nil => simpa [sepList] using h1
    | cons y r => simp only [sepList, List.length_append, List.length_cons] at h2 ⊢; omega

theorem sepList_mem_length {α : Type} (f : α → List PTok) (xs : List α) (x : α) (hx : x ∈ xs) :
    (f x).length ≤ (sepList f xs).length := by
  induction xs with
  | nil => cases hx
  | cons y xs ih =>
    cases xs with
    | nil =>
      have : x = y := by simpa using hx
      subst this; simp [sepList]
    | cons z r =>
      simp only [sepList, List.length_append, List.length_cons]
      rcases List.mem_cons.1 hx with rfl | hx'
      · omega
      · have := ih hx'; omega

/-- items without separators (resource methods, interface items, world items) -/
theorem parseDelimited_plain {α : Type} {stop : Token} {peeks : List Token}
    {item : PState → PR α} {er : α → α} (f : α → List PTok)
    (hns : stop ∉ peeks) (xs : List α)
    (hhead : ∀ x ∈ xs, headIn peeks (f x))
    (hitem : ∀ x ∈ xs, ParsesTo item er (f x) x (headIn (stop :: peeks)))
    (n : Nat) (hn : xs.length + 1 ≤ n) :
    ParsesTo (parseDelimited stop false peeks item n) (List.map er) (xs.flatMap f) xs (headIs stop) := by
  induction xs generalizing n with
  | nil =>
    intro st rest hE hF
    obtain ⟨n, rfl⟩ : ∃ m, n = m + 1 := ⟨n - 1, by simp at hn; omega⟩
    simp only [List.flatMap_nil, List.nil_append] at hE
    exact ⟨[], st, parseDelimited_stop (hE ▸ hF), rfl, hE⟩
  | cons x xs ih =>
    intro st rest hE hF
    obtain ⟨n, rfl⟩ : ∃ m, n = m + 1 := ⟨n - 1, by simp at hn; omega⟩
    simp only [List.flatMap_cons, List.append_assoc] at hE
    have hin : headIn peeks (E st) := hE ▸ (hhead x (List.mem_cons_self ..)).append _
    cases xs with
    | nil =>
      simp only [List.flatMap_nil, List.nil_append] at hE
      obtain ⟨x', st1, hp, hx, hE1⟩ := hitem x (List.mem_cons_self ..) st _ hE (hF.headIn (by simp))
      exact ⟨[x'], st1, parseDelimited_last hin hns hp (hE1 ▸ hF), by simp [hx], hE1⟩
    | cons y r =>
      have hy : headIn peeks (f y) := hhead y (by simp)
      have hfol : headIn peeks ((y :: r).flatMap f ++ rest) := by
        simp only [List.flatMap_cons, List.append_assoc]; exact hy.append _
      obtain ⟨x', st1, hp, hx, hE1⟩ := hitem x (List.mem_cons_self ..) st _ hE
        (hfol.mono (fun k hk => List.mem_cons_of_mem _ hk))
      obtain ⟨xs', st3, hp3, hxs, hE3⟩ := ih
        (fun z hz => hhead z (List.mem_cons_of_mem _ hz))
        (fun z hz => hitem z (List.mem_cons_of_mem _ hz)) n (by simp at hn ⊢; omega) st1 rest hE1 hF
      refine ⟨x' :: xs', st3, parseDelimited_next (n := n) hin hns hp (hE1 ▸ hfol) hp3, ?_, hE3⟩
      simp [hx, hxs]

theorem map_eq_isEmpty {α : Type} {er : α → α} {xs ys : List α} (h : xs.map er = ys.map er) :
    xs.isEmpty = ys.isEmpty := by
  have := congrArg List.length h
  simp only [List.length_map] at this
  cases xs <;> cases ys <;> simp_all

/-! ### leaves -/

theorem parseIdent_ok {i : Ident} (hwf : i.wf = true) {st : PState} {t : PTok} {rest : List PTok}
    (h : E st = t :: rest) (hk : t.res = .ok .Ident) (htext : t.text = i.raw) :
    ∃ i' st', parseIdent st = .ok (i', st') ∧ i'.erase = i.erase ∧ E st' = rest := by
  obtain ⟨lt, st', hp, hlt, hE'⟩ := parseToken_ok h hk
  have hlt' : lt.text = i.raw := by rw [← htext, ← hlt]; rfl
  obtain ⟨s, esc, sp⟩ := i
  simp only [Ident.wf, Ident.raw, Bool.and_eq_true, Bool.or_eq_true] at hwf
  have hesc := hwf.2
  simp only [Ident.raw] at hlt'
  cases esc with
  | true =>
    simp only [if_true] at hlt'
    refine ⟨⟨s, true, lt.span⟩, st', ?_, rfl, hE'⟩
    simp [parseIdent, hp, hlt']
  | false =>
    simp only [Bool.false_eq_true, if_false] at hlt'
    refine ⟨⟨s, false, lt.span⟩, st', ?_, rfl, hE'⟩
    simp only [parseIdent, hp, bind_ok, hlt']
    cases s with
    | nil => rfl
    | cons c r =>
      have hc : c ≠ '%' := by simpa using hesc
      split
      · rename_i heq; simp only [List.cons.injEq] at heq; exact absurd heq.1 hc
      · rfl

theorem parseString_ok (s : StringLit) {st : PState} {t : PTok} {rest : List PTok}
    (h : E st = t :: rest) (hk : t.res = .ok .String) (htext : t.text = Wac.Print.stringSrc s) :
    ∃ s' st', parseString st = .ok (s', st') ∧ s'.erase = s.erase ∧ E st' = rest := by
  obtain ⟨lt, st', hp, hlt, hE'⟩ := parseToken_ok h hk
  have hlt' : lt.text = Wac.Print.stringSrc s := by rw [← htext, ← hlt]; rfl
  refine ⟨⟨s.value, lt.span⟩, st', ?_, rfl, hE'⟩
  simp only [parseString, hp, bind_ok, hlt', Wac.Print.stringSrc]
  congr 3
  simp

theorem parseVersionAt_ok {s : Str} {v : Option Version} (h : versionField s = some v) (sp : Span) :
    parseVersionAt s sp (findIdx s '@') = .ok v := by
  unfold versionField at h
  unfold parseVersionAt
  cases hf : findIdx s '@' with
  | none => rw [hf] at h; simp at h; simp [h]
  | some i =>
    rw [hf] at h
    simp only [Option.map_eq_some_iff] at h
    obtain ⟨ver, hv, rfl⟩ := h
    simp [hv]

theorem parsePackageName_ok {p : PackageName} (hwf : p.wf = true) {st : PState} {t : PTok}
    {rest : List PTok} (h : E st = t :: rest) (hk : t.res = .ok .PackageName)
    (htext : t.text = p.string) :
    ∃ p' st', parsePackageName st = .ok (p', st') ∧ p'.erase = p.erase ∧ E st' = rest := by
  obtain ⟨lt, st', hp, hlt, hE'⟩ := parseToken_ok h hk
  have hlt' : lt.text = p.string := by rw [← htext, ← hlt]; rfl
  simp only [PackageName.wf, Bool.and_eq_true, beq_iff_eq] at hwf
  obtain ⟨⟨⟨-, -⟩, hname⟩, hver⟩ := hwf
  refine ⟨⟨p.string, p.name, p.version, lt.span⟩, st', ?_, rfl, hE'⟩
  simp only [parsePackageName, hp, bind_ok, hlt', parseVersionAt_ok hver]
  rw [hname]; rfl

theorem parsePackagePath_ok {p : PackagePath} (hwf : p.wf = true) {st : PState} {t : PTok}
    {rest : List PTok} (h : E st = t :: rest) (hk : t.res = .ok .PackagePath)
    (htext : t.text = p.string) :
    ∃ p' st', parsePackagePath st = .ok (p', st') ∧ p'.erase = p.erase ∧ E st' = rest := by
  obtain ⟨lt, st', hp, hlt, hE'⟩ := parseToken_ok h hk
  have hlt' : lt.text = p.string := by rw [← htext, ← hlt]; rfl
  simp only [PackagePath.wf, Bool.and_eq_true, beq_iff_eq] at hwf
  obtain ⟨⟨⟨-, -⟩, hfields⟩, hver⟩ := hwf
  refine ⟨⟨lt.span, p.string, p.name, p.segments, p.version⟩, st', ?_, rfl, hE'⟩
  unfold packagePathFields at hfields
  simp only [parsePackagePath, hp, bind_ok, hlt']
  cases hs : findIdx p.string '/' with
  | none => rw [hs] at hfields; cases hfields
  | some slash =>
    rw [hs] at hfields
    simp only [Option.some.injEq, Prod.mk.injEq] at hfields
    simp only [parseVersionAt_ok hver, bind_ok, hfields.1, hfields.2]

end Wac.Lemmas.PrinterParse
