import WacProofs.Lemmas.ElabPkg
/-
  C05 `elab_denotes`, part 8: `resource` declarations with constructors, methods and statics.

  `ρ` maps the package-wide number of a declared resource (the `next` counter of the specification)
  to the arena leaf of the resource the resolver allocated for it.  As in the C08 proof `ρ` is fixed
  up front and tied to the run by a consistency hypothesis about the state *returned* (`ConsE`);
  `RL` lists, per declared resource number, the arena index of its root resource.
-/
namespace Wac.Elab
open Wac Wac.Spec.Wit Wac.Decode

variable {ρ : Nat → Res}

/-- `ρ` agrees with the arena: the `k`-th declared resource is the root resource `RL[k]` -/
def ConsE (ρ : Nat → Res) (RL : List Nat) (T : Types) : Prop :=
  ∀ (k idx : Nat) (x : Resource), RL[k]? = some idx → T.resources[idx]? = some x → ρ k = ⟨T.uid, idx, x.name⟩

theorem ConsE.back {RL RL' : List Nat} {T T' : Types} (h : ConsE ρ RL' T') (hg : Grow T T')
    (hp : ∀ (k idx : Nat), RL[k]? = some idx → RL'[k]? = some idx) : ConsE ρ RL T := by
  intro k idx x hk hx
  obtain ⟨x', hx', hn, _⟩ := hg.ext.resources idx x hx
  rw [h k idx x' (hp k idx hk) hx', hn, hg.ext.uid]

theorem prefix_append_getElem? {α : Type} (l m : List α) (k : Nat) (a : α) (h : l[k]? = some a) :
    (l ++ m)[k]? = some a := by
  rw [List.getElem?_append_left (getElem?_lt_of_some h)]; exact h

/-- the denotation of one function of a resource body -/
def resFunc1 (s : Scope) (n : Str) (r : Res) : ResItem → Option (Str × Tree)
  | .ctor ps =>
    (sigTree s [] { params := ps } (some (.own r))).map fun t => ("[constructor]".toList ++ n, t)
  | .method m st sg =>
    if st then (sigTree s [] sg none).map fun t => ("[static]".toList ++ n ++ ['.'] ++ m, t)
    else (sigTree s [("self".toList, .borrow r)] sg none).map fun t => ("[method]".toList ++ n ++ ['.'] ++ m, t)

/-- the denotation of the functions of a resource body -/
def resFuncs (s : Scope) (n : Str) (r : Res) (items : List ResItem) : Option (List (Str × Tree)) :=
  items.mapM (resFunc1 s n r)

/-- the functions of a resource body: named `[constructor]r`, `[method]r.m`, `[static]r.m`, each
with the signature WIT prescribes -/
theorem resGo_ok (n : Str) (id : Nat) :
    ∀ (items : List ResItem) (st st' : St) (externs externs' : List (Str × ItemKind)),
      resourceDecl.go n id st externs items = .ok (st', externs') →
      Grow st.types st'.types ∧ st'.scope = st.scope ∧ st'.root = st.root ∧
      ∀ (s : Scope) (r : Res) (acc l : List (Str × Tree)),
        Sim ρ st.types st.scope s.binds → HR st.types id (ρ r.idx) →
        ExpRel ρ st.types externs acc → resFuncs s n r items = some l → ((acc ++ l).map (·.1)).Nodup →
        ExpRel ρ st'.types externs' (acc ++ l) := by
  intro items
  induction items with
  | nil =>
    intro st st' externs externs' h
    simp only [resourceDecl.go] at h
    cases h
    refine ⟨Grow.refl _, rfl, rfl, ?_⟩
    intro s r acc l _ _ hexp hl _
    simp only [resFuncs, List.mapM_nil, Option.pure_def, Option.some.injEq] at hl
    subst hl
    simpa using hexp
  | cons it items ih =>
    intro st st' externs externs' h
    -- one function, of any of the three kinds
    have step : ∃ (ps : List (Str × WTy)) (res : Option WTy) (kind : FuncKind) (st1 : St) (f : Nat) (m : Str),
        funcType st ps res kind (some id) = .ok (st1, f) ∧
        resourceDecl.go n id st1 (alInsert externs (methodExternName n m kind) (.func f)) items = .ok (st', externs') ∧
        (∀ (s : Scope) (r : Res), ∃ extra forced,
          resFunc1 s n r it =
            (sigTree s extra { params := ps, result := res } forced).map (fun t => (methodExternName n m kind, t)) ∧
          (∀ T, HL [] [] T id (ρ r.idx) → ExtraOk ρ T kind (some id) extra ∧ ForcedOk ρ T res kind (some id) forced)) := by
      cases it with
      | ctor ps =>
        simp only [resourceDecl.go] at h
        split at h
        · rename_i st1 f hf
          refine ⟨ps, none, .constructor, st1, f, [], hf, h, ?_⟩
          intro s r
          refine ⟨[], some (.own r), ?_, ?_⟩
          · rfl
          · intro T hl
            exact ⟨rfl, r, rfl, hl⟩
        · cases h
      | method m isStatic sg =>
        simp only [resourceDecl.go] at h
        split at h
        · rename_i st1 f hf
          cases isStatic with
          | true =>
            refine ⟨sg.params, sg.result, .static, st1, f, m, by simpa using hf, by simpa using h, ?_⟩
            intro s r
            refine ⟨[], none, ?_, ?_⟩
            · rfl
            · intro T _
              refine ⟨rfl, ?_⟩
              cases sg.result <;> rfl
          | false =>
            refine ⟨sg.params, sg.result, .method, st1, f, m, by simpa using hf, by simpa using h, ?_⟩
            intro s r
            refine ⟨[("self".toList, .borrow r)], none, ?_, ?_⟩
            · rfl
            · intro T hl
              refine ⟨⟨r, rfl, hl⟩, ?_⟩
              cases sg.result <;> rfl
        · cases h
    obtain ⟨ps, res, kind, st1, f, m, hf, hrest, hden⟩ := step
    obtain ⟨g1, sc1, rt1, k1⟩ := funcType_ok (ρ := ρ) hf
    obtain ⟨g2, sc2, rt2, k2⟩ := ih _ _ _ _ hrest
    refine ⟨g1.trans g2, sc2.trans sc1, rt2.trans rt1, ?_⟩
    intro s r acc l hsim hr hexp hl hnd
    simp only [resFuncs, List.mapM_cons, Option.pure_def, Option.bind_eq_bind] at hl
    obtain ⟨y, hy, hl⟩ := Option.bind_eq_some_iff.mp hl
    obtain ⟨l', hl', hl⟩ := Option.bind_eq_some_iff.mp hl
    cases hl
    obtain ⟨extra, forced, heq, hok⟩ := hden s r
    rw [heq] at hy
    obtain ⟨t, ht, rfl⟩ := Option.map_eq_some_iff.mp hy
    obtain ⟨hextra, hforced⟩ := hok st.types hr.toHL
    have hfr := k1 s hsim extra forced t hextra hforced ht
    have hsim1 : Sim ρ st1.types st1.scope s.binds := by rw [sc1]; exact hsim.mono g1
    -- the name is new
    have hfresh : alGet externs (methodExternName n m kind) = none := by
      apply alGet_none_of_not_mem
      rw [hexp.names]
      intro hm
      simp only [List.map_append, List.map_cons] at hnd
      rw [List.nodup_append] at hnd
      exact hnd.2.2 _ hm _ (List.mem_cons_self ..) rfl
    have hins : alInsert externs (methodExternName n m kind) (.func f) =
        externs ++ [(methodExternName n m kind, .func f)] :=
      alInsert_fresh _ _ _ (alGet_none_not_mem _ _ hfresh)
    have hexp1 : ExpRel ρ st1.types (externs ++ [(methodExternName n m kind, .func f)])
        (acc ++ [(methodExternName n m kind, t)]) :=
      All2.append (hexp.mono g1) ⟨rfl, HK_func hfr, fun _ hk => by cases hk⟩
    have := k2 s r (acc ++ [(methodExternName n m kind, t)]) l' hsim1 (hr.mono g1)
      (by rw [hins]; exact hexp1) hl' (by simpa using hnd)
    simpa using this

end Wac.Elab

namespace Wac.Elab
open Wac Wac.Spec.Wit Wac.Decode

variable {ρ : Nat → Res}

/-- the resource a declaration `resource n` in `container` denotes -/
def declRes (container : Str) (next : Nat) (n : Str) : Res :=
  { uid := 0, idx := next, name := (if container.contains ':' then container else []) ++ ['#'] ++ n }

theorem HK_type_resource {T : Types} {rid : Nat} {q : Res} (h : HR T rid (ρ q.idx)) :
    HK [] [] T (kb T) (.type (.resource rid)) (renT ρ (.type (.resource q))) := by
  intro T' F he hF
  obtain ⟨F', rfl⟩ : ∃ F', F = F' + 1 := ⟨F - 1, by unfold kb at hF; omega⟩
  simp only [Types.unfoldKind, renT]
  exact congrArg (Option.map fun x => Tree.type (Tree.resource x)) (h.toHL T' he)

/-- **a resource declaration denotes what WIT says**: a fresh resource exported under its name,
then `[constructor]r`, `[method]r.m` (with `self: borrow<r>`), `[static]r.m`. -/
theorem resourceDecl_ok {st st' : St} {n : Str} {items : List ResItem} {externs externs' : List (Str × ItemKind)}
    (h : resourceDecl st n items externs = .ok (st', externs')) :
    Grow st.types st'.types ∧ st'.root = st.root ∧ st.types.resources.length < st'.types.resources.length ∧
    ∀ (container : Str) (ifaces : List (Str × List (Str × Tree))) (s s' : Scope) (out : List (Str × Tree)),
      denoteItem container ifaces s (.resource n items) = some (s', out) →
      s'.next = s.next + 1 ∧
      ∀ (RL : List Nat), RL.length = s.next → ConsE ρ (RL ++ [st.types.resources.length]) st'.types →
        Sim ρ st.types st.scope s.binds → ∀ acc, ExpRel ρ st.types externs acc →
        ((acc ++ out).map (·.1)).Nodup →
        Sim ρ st'.types st'.scope s'.binds ∧ ExpRel ρ st'.types externs' (acc ++ out) := by
  unfold resourceDecl at h
  simp only at h
  split at h
  · cases h
  · rename_i st2 hreg
    obtain ⟨hfr, rfl⟩ := register_ok hreg
    obtain ⟨g2, sc2, rt2, k2⟩ := resGo_ok (ρ := ρ) n _ _ _ _ _ _ h
    have g1 := Grow.addResource st { name := n, alias := none }
    refine ⟨g1.trans g2, rt2, ?_, ?_⟩
    · have h1 : (Elab.addResource st { name := n, alias := none }).1.types.resources.length ≤
          st'.types.resources.length := g2.ext.resources_len
      have h2 : (Elab.addResource st { name := n, alias := none }).1.types.resources.length =
          st.types.resources.length + 1 := by simp [Elab.addResource]
      omega
    intro container ifaces s s' out hden
    simp only [denoteItem] at hden
    obtain ⟨l, hl, hden⟩ := Option.map_eq_some_iff.mp hden
    cases hden
    refine ⟨rfl, ?_⟩
    intro RL hRL hcons hsim acc hexp hnd
    -- the leaf of the new resource is what `ρ` says
    have hidx : (Elab.addResource st { name := n, alias := none }).2 = st.types.resources.length := rfl
    obtain ⟨x', hx', hxn, _⟩ := g2.ext.resources st.types.resources.length { name := n, alias := none }
      (by simp [Elab.addResource])
    have hρ : ρ s.next = ⟨st.types.uid, st.types.resources.length, n⟩ := by
      have := hcons s.next st.types.resources.length x' (by rw [← hRL]; simp) hx'
      rw [this, hxn, (g1.trans g2).ext.uid]
    have hr : HR (Elab.addResource st { name := n, alias := none }).1.types st.types.resources.length
        (ρ s.next) := by rw [hρ]; exact HR_root st n
    -- scopes
    have hsim1 := (hsim.mono g1).push (n := n) (b := .ty (.resource st.types.resources.length))
      (bd := .res (declRes container s.next n)) hfr hr
    -- the type export
    have hfresh : alGet externs n = none := by
      apply alGet_none_of_not_mem
      rw [hexp.names]
      intro hm
      simp only [List.map_append, List.map_cons] at hnd
      rw [List.nodup_append] at hnd
      exact hnd.2.2 _ hm _ (List.mem_cons_self ..) rfl
    have hins : alInsert externs n (.type (.resource st.types.resources.length)) =
        externs ++ [(n, .type (.resource st.types.resources.length))] :=
      alInsert_fresh _ _ _ (alGet_none_not_mem _ _ hfresh)
    have hexp1 : ExpRel ρ (Elab.addResource st { name := n, alias := none }).1.types
        (externs ++ [(n, .type (.resource st.types.resources.length))])
        (acc ++ [(n, .type (.resource (declRes container s.next n)))]) :=
      All2.append (hexp.mono g1) ⟨rfl, HK_type_resource (q := declRes container s.next n) hr,
        fun rid hk => by cases hk; exact ⟨declRes container s.next n, rfl, hr⟩⟩
    have hres := k2 ({ binds := s.binds ++ [(n, Bind.res (declRes container s.next n))], next := s.next + 1 } : Scope)
      (declRes container s.next n) _ l hsim1 hr (by rw [hidx, hins]; exact hexp1) hl (by simpa using hnd)
    have hassoc : ∀ x : Str × Tree, (acc ++ [x]) ++ l = acc ++ x :: l := by intro x; simp
    rw [hassoc] at hres
    refine ⟨?_, hres⟩
    rw [sc2]
    exact hsim1.mono g2

end Wac.Elab
