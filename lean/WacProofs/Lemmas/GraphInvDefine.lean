import WacProofs.Lemmas.GraphInvAlias
/-
  `define_type` preserves `Inv`.

  The code adds the node, then the dependency edges, then enters the node into the `defined`
  and `exports` maps.  The edge loops do not read the entries that are added at the end
  (`defineDepsIn` skips the type itself, `defineDepsOut` iterates a copy), so the result is
  the same as entering the node first (`defineDepsIn_maps`, `defineDepsOut_maps`); the
  invariant is then proved for "node + maps" and preserved edge by edge.
-/
namespace Wac.Graph
open Wac Wac.HashSites

/-! ### a dependency edge between two definition nodes -/

theorem inv_addDepEdge' {ctx : Ctx} {g g' : Graph} {a b : Nat} {x y : Node} {tx ty : Ty} (h : Inv ctx g)
    (ha : g.node? a = some x) (hx : x.kind = .definition tx) (hb : g.node? b = some y)
    (hy : y.kind = .definition ty) (hlt : tx < ty)
    (hn : g'.nodes = g.nodes) (hfn : g'.freeNodes = g.freeNodes) (he : g'.edges = ⟨a, b, .dep⟩ :: g.edges)
    (him : g'.imports = g.imports) (hde : g'.defined = g.defined) (hex : g'.exports = g.exports)
    (hp : g'.pkgs = g.pkgs) (hm : g'.pkgMap = g.pkgMap) (hfp : g'.freePkgs = g.freePkgs) : Inv ctx g' := by
  have pk := pkgPart_congr h hp hm hfp
  have hnode : ∀ m, g'.node? m = g.node? m := node?_congr hn
  apply Inv.build
  · intro e hem
    rw [he] at hem
    rcases List.mem_cons.mp hem with rfl | hem
    · exact ⟨x, by rw [Option.mem_def, hnode]; exact ha, y, by rw [Option.mem_def, hnode]; exact hb,
        tx, defTy_eq_some.mpr hx, ty, defTy_eq_some.mpr hy, hlt⟩
    · exact (h.edges e hem).transfer hp (fun m nd hnd => ⟨nd, by rw [hnode]; exact hnd, NodeSim.refl _⟩)
  · rw [he]
    simp only [List.filterMap_cons, Edge.argKey]
    exact h.argUnique
  · intro m nd hnd
    rw [hnode] at hnd
    refine (h.node hnd).mono (NodeSim.refl _) rfl hp (fun e hem => by rw [he]; exact List.mem_cons_of_mem _ hem) ?_
      (fun _ hq => by rw [him]; exact hq) (fun _ hq => by rw [hde]; exact hq) (fun _ hq => by rw [hex]; exact hq)
    intro hal
    have hmb : m ≠ b := by
      intro e
      rw [e, hb] at hnd
      cases hnd
      unfold Node.isAlias at hal
      simp [hy] at hal
    unfold Graph.inEdges
    rw [he]
    simp only [List.filter_cons]
    have : (b == m) = false := by simpa using (Ne.symm hmb)
    simp [this]
  · rw [hex]; exact h.exportsKeys
  · intro e hem; rw [hex] at hem
    obtain ⟨nd, p, q⟩ := h.exportsLive' e hem
    exact ⟨nd, by rw [hnode]; exact p, q⟩
  · rw [him]; exact h.importsKeys
  · intro e hem; rw [him] at hem
    obtain ⟨nd, p, q⟩ := h.importsLive' e hem
    exact ⟨nd, by rw [hnode]; exact p, q⟩
  · rw [hde]; exact h.definedKeys
  · intro e hem; rw [hde] at hem
    obtain ⟨nd, p, q⟩ := h.definedLive' e hem
    exact ⟨nd, by rw [hnode]; exact p, q⟩
  · exact pk.1
  · exact pk.2.1
  · exact pk.2.2.1
  · exact pk.2.2.2.1
  · exact pk.2.2.2.2
  · have f := h.free
    refine ⟨by rw [hfn]; exact f.nodup, ?_, ?_⟩
    · intro j hj
      rw [hfn] at hj
      rw [hn, hnode]; exact f.vacant j hj
    · intro j hj hv
      rw [hn] at hj
      rw [hnode] at hv
      rw [hfn]; exact f.all j hj hv

theorem inv_addDepEdge {ctx : Ctx} {g : Graph} {a b : Nat} {x y : Node} {tx ty : Ty} (h : Inv ctx g)
    (ha : g.node? a = some x) (hx : x.kind = .definition tx) (hb : g.node? b = some y)
    (hy : y.kind = .definition ty) (hlt : tx < ty) :
    Inv ctx (g.addEdge a b .dep) :=
  inv_addDepEdge' h ha hx hb hy hlt rfl rfl rfl rfl rfl rfl rfl rfl rfl

/-- one step of the first loop -/
def depInStep (ty : Ty) (idx : Nat) (g : Graph) (dep : Ty) : Graph :=
  if dep = ty then g
  else match alGet g.defined dep with
    | none => g
    | some d => if g.hasDep d idx then g else g.addEdge d idx .dep

theorem defineDepsIn_eq (g : Graph) (ty : Ty) (idx : Nat) (vs : List Ty) :
    defineDepsIn g ty idx vs = vs.foldl (depInStep ty idx) g := rfl

/-- one step of the inner loop of the second loop -/
def depOutStep (ty : Ty) (idx o : Nat) (g : Graph) (v : Ty) : Graph :=
  if v = ty && !g.hasDep idx o then g.addEdge idx o .dep else g

theorem defineDepsOut_eq (ctx : Ctx) (g : Graph) (ty : Ty) (idx : Nat) (order : List (Ty × Nat)) :
    defineDepsOut ctx g ty idx order =
      order.foldl (fun g e => (ctx.tyVisits e.1).foldl (depOutStep ty idx e.2) g) g := rfl

/-- the definition node of type `t` -/
def IsDefNode (g : Graph) (n : Nat) (t : Ty) : Prop := ∃ x, g.node? n = some x ∧ x.kind = .definition t

theorem isDefNode_addEdge {g : Graph} {n a b : Nat} {t : Ty} {k : EdgeKind} (h : IsDefNode g n t) :
    IsDefNode (g.addEdge a b k) n t := h

theorem inv_depInStep {ctx : Ctx} {g : Graph} {ty : Ty} {idx : Nat} (h : Inv ctx g) (hidx : IsDefNode g idx ty)
    (dep : Ty) (hle : dep ≤ ty) : Inv ctx (depInStep ty idx g dep) ∧ IsDefNode (depInStep ty idx g dep) idx ty ∧
      (depInStep ty idx g dep).defined = g.defined ∧ (depInStep ty idx g dep).nodes = g.nodes := by
  unfold depInStep
  split
  · exact ⟨h, hidx, rfl, rfl⟩
  · rename_i hne
    split
    · exact ⟨h, hidx, rfl, rfl⟩
    · rename_i d hd
      split
      · exact ⟨h, hidx, rfl, rfl⟩
      · obtain ⟨y, hy, hyd⟩ := hidx
        obtain ⟨x, hx, hxk⟩ := h.definedLive' (dep, d) (alGet_eq_some_mem hd)
        exact ⟨inv_addDepEdge h hx hxk hy hyd (Nat.lt_of_le_of_ne hle hne), ⟨y, hy, hyd⟩, rfl, rfl⟩

theorem inv_depsIn {ctx : Ctx} (ty : Ty) (idx : Nat) : ∀ (vs : List Ty) (g : Graph), (∀ v ∈ vs, v ≤ ty) →
    Inv ctx g → IsDefNode g idx ty →
    Inv ctx (vs.foldl (depInStep ty idx) g) ∧ IsDefNode (vs.foldl (depInStep ty idx) g) idx ty ∧
    (vs.foldl (depInStep ty idx) g).defined = g.defined ∧ (vs.foldl (depInStep ty idx) g).nodes = g.nodes
  | [], g, _, h, hi => ⟨h, hi, rfl, rfl⟩
  | v :: r, g, hle, h, hi => by
    obtain ⟨h1, h2, h3, h4⟩ := inv_depInStep (ty := ty) h hi v (hle v (List.mem_cons_self ..))
    obtain ⟨k1, k2, k3, k4⟩ := inv_depsIn ty idx r _ (fun v' hv' => hle v' (List.mem_cons_of_mem _ hv')) h1 h2
    exact ⟨k1, k2, k3.trans h3, k4.trans h4⟩

theorem inv_depOutStep {ctx : Ctx} {g : Graph} {ty oty : Ty} {idx o : Nat} (h : Inv ctx g)
    (hidx : IsDefNode g idx ty) (ho : IsDefNode g o oty) (v : Ty) (hlt : v = ty → ty < oty) :
    Inv ctx (depOutStep ty idx o g v) ∧ (depOutStep ty idx o g v).nodes = g.nodes := by
  unfold depOutStep
  split
  · rename_i hc
    have hv : v = ty := by
      simp only [Bool.and_eq_true, decide_eq_true_eq] at hc
      exact hc.1
    obtain ⟨x, hx, hxd⟩ := hidx
    obtain ⟨y, hy, hyd⟩ := ho
    exact ⟨inv_addDepEdge h hx hxd hy hyd (hlt hv), rfl⟩
  · exact ⟨h, rfl⟩

theorem isDefNode_congr {g g' : Graph} (hn : g'.nodes = g.nodes) {n : Nat} {t : Ty} (h : IsDefNode g n t) :
    IsDefNode g' n t := by
  obtain ⟨x, hx, hd⟩ := h
  exact ⟨x, by rw [node?_congr hn]; exact hx, hd⟩

theorem inv_depsOutInner {ctx : Ctx} (ty oty : Ty) (idx o : Nat) : ∀ (vs : List Ty) (g : Graph),
    (ty ∈ vs → ty < oty) → Inv ctx g → IsDefNode g idx ty → IsDefNode g o oty →
    Inv ctx (vs.foldl (depOutStep ty idx o) g) ∧ (vs.foldl (depOutStep ty idx o) g).nodes = g.nodes
  | [], g, _, h, _, _ => ⟨h, rfl⟩
  | v :: r, g, hlt, h, hi, ho => by
    obtain ⟨h1, h2⟩ := inv_depOutStep (ty := ty) h hi ho v (fun hv => hlt (by rw [hv]; exact List.mem_cons_self ..))
    obtain ⟨k1, k2⟩ := inv_depsOutInner ty oty idx o r _ (fun hm => hlt (List.mem_cons_of_mem _ hm)) h1
      (isDefNode_congr h2 hi) (isDefNode_congr h2 ho)
    exact ⟨k1, k2.trans h2⟩

theorem inv_depsOut {ctx : Ctx} (ty : Ty) (idx : Nat) : ∀ (order : List (Ty × Nat)) (g : Graph), Inv ctx g →
    IsDefNode g idx ty → (∀ e ∈ order, IsDefNode g e.2 e.1 ∧ (ty ∈ ctx.tyVisits e.1 → ty < e.1)) →
    Inv ctx (order.foldl (fun g e => (ctx.tyVisits e.1).foldl (depOutStep ty idx e.2) g) g)
  | [], g, h, _, _ => h
  | e :: r, g, h, hi, ho => by
    obtain ⟨ho1, ho2⟩ := ho e (List.mem_cons_self ..)
    obtain ⟨h1, h2⟩ := inv_depsOutInner (ctx := ctx) ty e.1 idx e.2 (ctx.tyVisits e.1) g ho2 h hi ho1
    exact inv_depsOut ty idx r _ h1 (isDefNode_congr h2 hi)
      (fun e' he' => ⟨isDefNode_congr h2 (ho e' (List.mem_cons_of_mem _ he')).1, (ho e' (List.mem_cons_of_mem _ he')).2⟩)

/-! ### the loops commute with entering the node into the maps -/

/-- same graph, other `defined` / `exports` maps -/
def withMaps (g : Graph) (de : List (Ty × Nat)) (ex : List (Str × Nat)) : Graph :=
  { g with defined := de, exports := ex }

theorem depInStep_maps {ty : Ty} {idx : Nat} {de : List (Ty × Nat)} {ex : List (Str × Nat)} (g : Graph) (dep : Ty)
    (hde : ∀ k, k ≠ ty → alGet de k = alGet g.defined k) :
    depInStep ty idx (withMaps g de ex) dep = withMaps (depInStep ty idx g dep) de ex := by
  unfold depInStep
  by_cases hd : dep = ty
  · simp [hd]
  · simp only [hd, ↓reduceIte]
    have : alGet (withMaps g de ex).defined dep = alGet g.defined dep := hde dep hd
    rw [this]
    cases alGet g.defined dep with
    | none => rfl
    | some d =>
      simp only
      have hh : (withMaps g de ex).hasDep d idx = g.hasDep d idx := rfl
      rw [hh]
      split <;> rfl

theorem depInStep_defined (ty : Ty) (idx : Nat) (g : Graph) (dep : Ty) :
    (depInStep ty idx g dep).defined = g.defined := by
  unfold depInStep
  split
  · rfl
  · split
    · rfl
    · split <;> rfl

theorem defineDepsIn_maps {ty : Ty} {idx : Nat} {de : List (Ty × Nat)} {ex : List (Str × Nat)} :
    ∀ (vs : List Ty) (g : Graph), (∀ k, k ≠ ty → alGet de k = alGet g.defined k) →
      vs.foldl (depInStep ty idx) (withMaps g de ex) = withMaps (vs.foldl (depInStep ty idx) g) de ex
  | [], _, _ => rfl
  | v :: r, g, hde => by
    simp only [List.foldl_cons]
    rw [depInStep_maps g v hde]
    exact defineDepsIn_maps r _ (fun k hk => by rw [depInStep_defined]; exact hde k hk)

theorem depOutStep_maps {ty : Ty} {idx o : Nat} {de : List (Ty × Nat)} {ex : List (Str × Nat)} (g : Graph) (v : Ty) :
    depOutStep ty idx o (withMaps g de ex) v = withMaps (depOutStep ty idx o g v) de ex := by
  unfold depOutStep
  have hh : (withMaps g de ex).hasDep idx o = g.hasDep idx o := rfl
  rw [hh]
  split <;> rfl

theorem depsOutInner_maps {ty : Ty} {idx o : Nat} {de : List (Ty × Nat)} {ex : List (Str × Nat)} :
    ∀ (vs : List Ty) (g : Graph),
      vs.foldl (depOutStep ty idx o) (withMaps g de ex) = withMaps (vs.foldl (depOutStep ty idx o) g) de ex
  | [], _ => rfl
  | v :: r, g => by
    simp only [List.foldl_cons]
    rw [depOutStep_maps]
    exact depsOutInner_maps r _

theorem defineDepsOut_maps {ctx : Ctx} {ty : Ty} {idx : Nat} {de : List (Ty × Nat)} {ex : List (Str × Nat)} :
    ∀ (order : List (Ty × Nat)) (g : Graph),
      order.foldl (fun g e => (ctx.tyVisits e.1).foldl (depOutStep ty idx e.2) g) (withMaps g de ex) =
      withMaps (order.foldl (fun g e => (ctx.tyVisits e.1).foldl (depOutStep ty idx e.2) g) g) de ex
  | [], _ => rfl
  | e :: r, g => by
    simp only [List.foldl_cons]
    rw [depsOutInner_maps]
    exact defineDepsOut_maps r _

/-- the loops only add edges -/
theorem depsIn_frame (ty : Ty) (idx : Nat) : ∀ (vs : List Ty) (g : Graph),
    (vs.foldl (depInStep ty idx) g).defined = g.defined ∧ (vs.foldl (depInStep ty idx) g).exports = g.exports
  | [], _ => ⟨rfl, rfl⟩
  | v :: r, g => by
    simp only [List.foldl_cons]
    obtain ⟨a, b⟩ := depsIn_frame ty idx r (depInStep ty idx g v)
    refine ⟨a.trans (depInStep_defined ty idx g v), b.trans ?_⟩
    unfold depInStep
    split
    · rfl
    · split
      · rfl
      · split <;> rfl

theorem depsOutInner_frame (ty : Ty) (idx o : Nat) : ∀ (vs : List Ty) (g : Graph),
    (vs.foldl (depOutStep ty idx o) g).defined = g.defined ∧ (vs.foldl (depOutStep ty idx o) g).exports = g.exports
  | [], _ => ⟨rfl, rfl⟩
  | v :: r, g => by
    simp only [List.foldl_cons]
    obtain ⟨a, b⟩ := depsOutInner_frame ty idx o r (depOutStep ty idx o g v)
    have : (depOutStep ty idx o g v).defined = g.defined ∧ (depOutStep ty idx o g v).exports = g.exports := by
      unfold depOutStep; split <;> exact ⟨rfl, rfl⟩
    exact ⟨a.trans this.1, b.trans this.2⟩

theorem depsOut_frame (ctx : Ctx) (ty : Ty) (idx : Nat) : ∀ (order : List (Ty × Nat)) (g : Graph),
    (order.foldl (fun g e => (ctx.tyVisits e.1).foldl (depOutStep ty idx e.2) g) g).defined = g.defined ∧
    (order.foldl (fun g e => (ctx.tyVisits e.1).foldl (depOutStep ty idx e.2) g) g).exports = g.exports
  | [], _ => ⟨rfl, rfl⟩
  | e :: r, g => by
    simp only [List.foldl_cons]
    obtain ⟨a, b⟩ := depsOut_frame ctx ty idx r ((ctx.tyVisits e.1).foldl (depOutStep ty idx e.2) g)
    obtain ⟨c, d⟩ := depsOutInner_frame ty idx e.2 (ctx.tyVisits e.1) g
    exact ⟨a.trans c, b.trans d⟩

end Wac.Graph
