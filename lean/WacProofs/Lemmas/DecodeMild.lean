import WacProofs.Lemmas.DecodeOpen
/-
  C08 `decode_tree`, part 8: the bookkeeping steps (`use_or_own`, `clearSelfOwner`, filling in an
  export list) and forests of converted items.
-/
namespace Wac.Decode
open Wac Wac.Spec.Decode

/-- a frame that tolerates changes of the open interfaces / worlds -/
structure FrameO (oi ow : List Nat) (st st' : St) : Prop where
  ext : Ext oi ow st.types st'.types
  size : Types.size st.types ≤ Types.size st'.types
  rmap : ∀ b s, lookup st.resourceMap b = some s → lookup st'.resourceMap b = some s

theorem Frame.toO {oi ow : List Nat} {st st' : St} (h : Frame st st') : FrameO oi ow st st' :=
  ⟨h.ext.of_nil, h.size, h.rmap⟩

theorem FrameO.refl (oi ow : List Nat) (st : St) : FrameO oi ow st st :=
  ⟨Ext.refl _ _ _, Nat.le_refl _, fun _ _ h => h⟩

theorem FrameO.trans {oi ow : List Nat} {st st' st'' : St} (h1 : FrameO oi ow st st')
    (h2 : FrameO oi ow st' st'') : FrameO oi ow st st'' :=
  ⟨h1.ext.trans h2.ext, Nat.le_trans h1.size h2.size, fun b s h => h2.rmap b s (h1.rmap b s h)⟩

theorem Cons.backO {ρ : Nat → Res} {oi ow : List Nat} {st st' : St} (hf : FrameO oi ow st st')
    (h : Cons ρ st') : Cons ρ st := by
  intro b s x hb hx
  obtain ⟨x', hx', hn, _⟩ := hf.ext.resources s x hx
  rw [h b s x' (hf.rmap b s hb) hx', hn, hf.ext.uid]

/-- a bookkeeping step: arenas extended in the sense of `Frame`, cache and resource map untouched -/
structure Mild (st st' : St) : Prop where
  frame : Frame st st'
  cache : st'.cache = st.cache
  rmap : st'.resourceMap = st.resourceMap

theorem Mild.refl (st : St) : Mild st st := ⟨Frame.refl _, rfl, rfl⟩

theorem Mild.trans {st st' st'' : St} (h1 : Mild st st') (h2 : Mild st' st'') : Mild st st'' :=
  ⟨h1.frame.trans h2.frame, h2.cache.trans h1.cache, h2.rmap.trans h1.rmap⟩

theorem getElem?_modify' {α : Type} (l : List α) (i j : Nat) (f : α → α) :
    (l.modify i f)[j]? = (l[j]?).map (fun a => if i = j then f a else a) := by
  rw [List.getElem?_modify]; rfl

theorem Mild.ofModifyInterface (st : St) (id : Nat) (f : Interface → Interface)
    (hf : ∀ x, (f x).exports = x.exports) : Mild st (modifyInterface st id f) := by
  refine ⟨⟨⟨rfl, fun _ _ h => h, fun _ _ h => h, fun _ _ h => h, fun _ x h => ⟨x, h, rfl, rfl⟩, ?_,
    fun _ x _ h => ⟨x, h, rfl, rfl⟩⟩, ?_, fun _ _ h => h⟩, rfl, rfl⟩
  · intro i x _ hx
    simp only [modifyInterface, getElem?_modify', hx, Option.map_some]
    split
    · exact ⟨_, rfl, hf x⟩
    · exact ⟨_, rfl, rfl⟩
  · simp [modifyInterface, Types.size]

theorem Mild.ofModifyWorld (st : St) (id : Nat) (f : World → World)
    (hf : ∀ x, (f x).imports = x.imports ∧ (f x).exports = x.exports) : Mild st (modifyWorld st id f) := by
  refine ⟨⟨⟨rfl, fun _ _ h => h, fun _ _ h => h, fun _ _ h => h, fun _ x h => ⟨x, h, rfl, rfl⟩,
    fun _ x _ h => ⟨x, h, rfl⟩, ?_⟩, ?_, fun _ _ h => h⟩, rfl, rfl⟩
  · intro i x _ hx
    simp only [modifyWorld, getElem?_modify', hx, Option.map_some]
    split
    · exact ⟨_, rfl, (hf x).1, (hf x).2⟩
    · exact ⟨_, rfl, rfl, rfl⟩
  · simp [modifyWorld, Types.size]

theorem Mild.ofModifyResource (st : St) (id : Nat) (f : Resource → Resource)
    (hf : ∀ x, (f x).name = x.name ∧ (f x).alias.map (·.source) = x.alias.map (·.source)) :
    Mild st (modifyResource st id f) := by
  refine ⟨⟨⟨rfl, fun _ _ h => h, fun _ _ h => h, fun _ _ h => h, ?_,
    fun _ x _ h => ⟨x, h, rfl⟩, fun _ x _ h => ⟨x, h, rfl, rfl⟩⟩, ?_, fun _ _ h => h⟩, rfl, rfl⟩
  · intro i x hx
    simp only [modifyResource, getElem?_modify', hx, Option.map_some]
    split
    · exact ⟨_, rfl, (hf x).1, (hf x).2⟩
    · exact ⟨_, rfl, rfl, rfl⟩
  · simp [modifyResource, Types.size]

theorem Mild.ofOwners (st : St) (o : List (WAny × (Owner × Str))) : Mild st { st with owners := o } :=
  ⟨⟨Ext.refl _ _ _, Nat.le_refl _, fun _ _ h => h⟩, rfl, rfl⟩

theorem useOrOwn_mild {w : WTypes} {st st' : St} {owner : Owner} {name : Str} {referenced created : WAny}
    (h : useOrOwn w st owner name referenced created = .ok st') : Mild st st' := by
  unfold useOrOwn at h
  split at h
  · rename_i other orig _
    simp only at h
    have key : ∀ st1 : St, Mild st st1 →
        Mild st (match lookup st1.owners created with
          | some _ => st1
          | none => { st1 with owners := (created, (other, orig)) :: st1.owners }) := by
      intro st1 h1
      split
      · exact h1
      · exact h1.trans (Mild.ofOwners _ _)
    cases h
    apply key
    split
    · split
      · split
        · exact Mild.ofModifyInterface _ _ _ (fun _ => rfl)
        · exact Mild.ofModifyWorld _ _ _ (fun _ => ⟨rfl, rfl⟩)
      · exact Mild.refl _
    · exact Mild.refl _
  · split at h
    · cases h; exact Mild.refl _
    · cases h; exact Mild.ofOwners _ _

theorem clearSelfOwner_mild (st : St) (id : Nat) (exp : ItemKind) : Mild st (clearSelfOwner st id exp) := by
  unfold clearSelfOwner
  split
  · apply Mild.ofModifyResource
    intro x
    split
    · split
      · rename_i a ha _
        simp [ha]
      · exact ⟨rfl, rfl⟩
    · exact ⟨rfl, rfl⟩
  · exact Mild.refl _

section
variable {w : WTypes} {ρ : Nat → Res} {oi ow : List Nat} {c : Nat}

theorem Inv.mild {st st' : St} (h : Inv w ρ oi ow c st) (hm : Mild st st') : Inv w ρ oi ow c st' :=
  h.step hm.frame hm.cache hm.rmap

theorem RK_stable : Stable (RK w ρ oi ow c) := fun _ _ _ _ hf h => h.mono hf

/-- forests of converted items -/
theorem entTrees_fact {st : St} :
    ∀ {es : List (Str × WEnt)} {ks : List (Str × ItemKind)},
      All2 (fun x y => x.1 = y.1 ∧ RK w ρ oi ow c st x.2 y.2) es ks →
      ∀ g fr, entTrees (entTree w g) es = some fr → ∀ T' F, Ext oi ow st.types T' → bnd c st + 2 ≤ F →
        unfoldItems (Types.unfoldKind T' F) ks = some (renF ρ fr)
  | [], [], _, g, fr, hfr, T', F, _, _ => by
    simp only [entTrees] at hfr; cases hfr; rfl
  | (n, x) :: es, (n', y) :: ks, ⟨⟨hn, hr⟩, hrest⟩, g, fr, hfr, T', F, he, hF => by
    simp only [entTrees] at hfr
    split at hfr
    · rename_i t fr' ht hfr'
      cases hfr
      simp only at hn
      subst hn
      simp only [unfoldItems, hr g t ht T' F he hF, entTrees_fact hrest g fr' hfr' T' F he hF, renF]
    · cases hfr
  | [], _ :: _, hf, _, _, _, _, _, _, _ => hf.elim
  | _ :: _, [], hf, _, _, _, _, _, _, _ => hf.elim

theorem All2.append {α β : Type} {R : α → β → Prop} :
    ∀ {xs : List α} {ys : List β} {x : α} {y : β}, All2 R xs ys → R x y → All2 R (xs ++ [x]) (ys ++ [y])
  | [], [], _, _, _, h => ⟨h, trivial⟩
  | _ :: _, _ :: _, _, _, ⟨h1, h2⟩, h => ⟨h1, All2.append h2 h⟩
  | [], _ :: _, _, _, hf, _ => hf.elim
  | _ :: _, [], _, _, hf, _ => hf.elim

theorem alGet_none_not_mem {β : Type} (m : List (Str × β)) (k : Str) (h : alGet m k = none) :
    k ∉ m.map (·.1) := by
  induction m with
  | nil => simp
  | cons x xs ih =>
    obtain ⟨k', v'⟩ := x
    simp only [alGet] at h
    split at h
    · cases h
    · rename_i hne
      simp only [List.map_cons, List.mem_cons, not_or]
      refine ⟨fun e => hne (by simp [e]), ih h⟩

end

/-- `find_owner` returns an owner that is registered -/
theorem findOwner_mem (w : WTypes) (owners : List (WAny × (Owner × Str))) :
    ∀ (fuel : Nat) (a : WAny) (o : Owner × Str), findOwner w owners fuel a = some o →
      ∃ a', lookup owners a' = some o := by
  intro fuel
  induction fuel with
  | zero => intro a o h; simp [findOwner] at h
  | succ n ih =>
    intro a o h
    simp only [findOwner] at h
    split at h
    · rename_i o' ho
      cases h
      exact ⟨a, ho⟩
    · split at h
      · exact ih _ _ h
      · cases h

end Wac.Decode
